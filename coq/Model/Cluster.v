(* Model of rpc/plugins/cluster/cluster.go (C16).
   Executable definitions only; proofs live in Proofs/ClusterProofs.v. *)
From Coq Require Import List ZArith Bool.
Import ListNotations.
Open Scope Z_scope.

(* what the downstream handler (next) does when it is reached: returns a response,
   returns an error, or panics.  The payload identifies the attempt. *)
Inductive outcome := Ok (r : Z) | Err (e : Z) | Panic (p : Z).

Definition is_ok (o : outcome) : bool := match o with Ok _ => true | _ => false end.

(* what the caller of the plugin gets back *)
Inductive result :=
| RResp (r : Z)        (* response r, err == nil *)
| RErr (e : Z)         (* the error e returned by next *)
| RPanicErr (p : Z)    (* core.NewPanicError(p): a panic of next recovered into an error *)
| RPanicRaw (p : Z)    (* a panic of next that nobody recovered (Forking/Broadcast without URLs) *)
| RCrash.              (* index-out-of-range panic raised inside OnFailure (urls[0] with no URL) *)

Definition result_of (o : outcome) : result :=
  match o with Ok r => RResp r | Err e => RErr e | Panic p => RPanicErr p end.

(* ------------------------------------------------------------------ *)
(* Config.  OnFailure is one of: nil (FailtryConfig), the rotating closure of
   FailoverConfig, or a user callback (FailfastConfig).  OnRetry is nil (failfast), the
   closure of FailtryConfig or the closure of FailoverConfig: both increment the "retried"
   item and return the back-off interval computed from minInterval / maxInterval
   (time.Duration, in nanoseconds; Handler sleeps when it is positive). *)
Inductive onfail := FNone | FRotate | FUser.
Inductive onretry := RNone | RFailtry | RFailover.

Record cfg := { retry : Z; idem : bool; on_failure : onfail; on_retry : onretry;
                min_interval : Z; max_interval : Z }.

Definition has_retry (c : cfg) : bool := match on_retry c with RNone => false | _ => true end.

(* FailoverConfig(WithRetry r, WithIdempotent i, WithMinInterval mn, WithMaxInterval mx):
   the defaults are Retry 10, 500 ms, 5 s *)
Definition failover_config (r : Z) (i : bool) (mn mx : Z) : cfg :=
  {| retry := r; idem := i; on_failure := FRotate; on_retry := RFailover;
     min_interval := mn; max_interval := mx |}.
Definition failtry_config (r : Z) (i : bool) (mn mx : Z) : cfg :=
  {| retry := r; idem := i; on_failure := FNone; on_retry := RFailtry;
     min_interval := mn; max_interval := mx |}.
(* FailfastConfig(cb): Retry = 0, OnRetry = nil; the fields stay assignable *)
Definition failfast_config (r : Z) (i : bool) : cfg :=
  {| retry := r; idem := i; on_failure := FUser; on_retry := RNone;
     min_interval := 0; max_interval := 0 |}.

(* New(config): if cluster.Retry < 0 { cluster.Retry = 10 };  New() = New(FailoverConfig()) *)
Definition new (c : cfg) : cfg :=
  if retry c <? 0
  then {| retry := 10; idem := idem c; on_failure := on_failure c; on_retry := on_retry c;
          min_interval := min_interval c; max_interval := max_interval c |}
  else c.
Definition new_default : cfg := failover_config 10 false 500000000 5000000000.

(* func getIndex(index *int64, n int64) int64 {
     if n > 1 { if i := atomic.AddInt64(index, 1); i < n { return i }
                atomic.StoreInt64(index, 0) }
     return 0 }
   result: (value stored in *index afterwards, value returned) *)
Definition get_index (index n : Z) : Z * Z :=
  if n >? 1 then
    let i := index + 1 in
    if i <? n then (i, i) else (0, 0)
  else (index, 0).

(* per-call mutable state: clientContext.URL (as an index into client.URLs; -1 = nil),
   the failover closure's shared [index], the "retried" context item, and how often the
   OnFailure / OnSuccess callbacks ran *)
Record cstate := { url : Z; index : Z; retried : Z; nfail : nat; nsucc : nat;
                   ivs : list Z }.  (* intervals OnRetry returned, newest first *)

(* c.OnFailure(ctx), if not nil.  None = the closure panics:
     urls := client.URLs; clientContext.URL = urls[getIndex(&index, int64(len(urls)))]
   with len(urls) = 0 getIndex returns 0 and urls[0] is out of range *)
Definition fail_step (c : cfg) (n : Z) (s : cstate) : option cstate :=
  match on_failure c with
  | FNone => Some s
  | FUser => Some {| url := url s; index := index s; retried := retried s;
                     nfail := S (nfail s); nsucc := nsucc s; ivs := ivs s |}
  | FRotate =>
      if n <=? 0 then None
      else let '(ix, u) := get_index (index s) n in
           Some {| url := u; index := ix; retried := retried s;
                   nfail := S (nfail s); nsucc := nsucc s; ivs := ivs s |}
  end.

(* OnRetry of FailtryConfig / FailoverConfig ([n] = len(client.URLs)):
     retried := Items().GetInt("retried") + 1; Items().Set("retried", retried)
     interval := minInterval * Duration(retried)             // failtry
     interval := minInterval * Duration(retried - len(URLs)) // failover
     if interval > maxInterval { interval = maxInterval }
     return interval
   (int64 overflow of the product is out of reach for the budgets considered) *)
Definition interval_of (c : cfg) (n : Z) (rd : Z) : Z :=
  let raw := match on_retry c with
             | RFailover => min_interval c * (rd - n)
             | _ => min_interval c * rd
             end in
  if raw >? max_interval c then max_interval c else raw.

Definition retry_step (c : cfg) (n : Z) (s : cstate) : cstate :=
  {| url := url s; index := index s; retried := retried s + 1; nfail := nfail s; nsucc := nsucc s;
     ivs := interval_of c n (retried s + 1) :: ivs s |}.

Definition success_step (s : cstate) : cstate :=
  {| url := url s; index := index s; retried := retried s; nfail := nfail s; nsucc := S (nsucc s);
     ivs := ivs s |}.

(* what one call of Cluster.Handler did: the URL index every attempt was sent to (in
   order), what was returned, and the state left behind *)
Record obs := { attempts : list Z; res : result; fin : cstate }.

Definition stop (s0 s : cstate) (r : result) : obs :=
  {| attempts := [url s0]; res := r; fin := s |}.

Definition push (u : Z) (o : obs) : obs :=
  {| attempts := u :: attempts o; res := res o; fin := fin o |}.

(* Cluster.Handler, attempt number [k] of the call, [budget] = retry - retried retries left.
     response, err = next(ctx, request)          // attempt at clientContext.URL; panic recovered into err
     if err == nil { OnSuccess; return }
     if c.OnFailure != nil { c.OnFailure(ctx) }
     if c.OnRetry == nil { return }
     if idempotent && retried < retry { interval := c.OnRetry(ctx); if interval > 0 { time.Sleep(interval) }
                                        response, err = c.Handler(ctx, request, next) }
   [idm] is Items().GetBool("idempotent", c.Idempotent); the comparison retried < retry is
   the test budget > 0 because retry is fixed during the call and OnRetry adds exactly 1 to
   retried (loop_lit below keeps the literal comparison and is proved equal). *)
Fixpoint loop (c : cfg) (n : Z) (idm : bool) (outs : nat -> outcome)
         (budget : nat) (k : nat) (s : cstate) : obs :=
  match outs k with
  | Ok r => stop s (success_step s) (RResp r)
  | o =>
      match fail_step c n s with
      | None => stop s s RCrash
      | Some s1 =>
          if negb (has_retry c) then stop s s1 (result_of o)
          else if negb idm then stop s s1 (result_of o)
          else match budget with
               | O => stop s s1 (result_of o)
               | S b => push (url s) (loop c n idm outs b (S k) (retry_step c n s1))
               end
      end
  end.

(* the same with the literal Go test [retried < retry] and explicit fuel for the recursion
   (None = out of fuel) *)
Fixpoint loop_lit (fuel : nat) (c : cfg) (n : Z) (idm : bool) (rty : Z) (outs : nat -> outcome)
         (k : nat) (s : cstate) : option obs :=
  match fuel with
  | O => None
  | S f =>
      match outs k with
      | Ok r => Some (stop s (success_step s) (RResp r))
      | o =>
          match fail_step c n s with
          | None => Some (stop s s RCrash)
          | Some s1 =>
              if negb (has_retry c) then Some (stop s s1 (result_of o))
              else if idm && (retried s1 <? rty) then
                     match loop_lit f c n idm rty outs (S k) (retry_step c n s1) with
                     | None => None
                     | Some o' => Some (push (url s) o')
                     end
                   else Some (stop s s1 (result_of o))
          end
      end
  end.

(* one call: the context items that steer it and the outcome of attempt 0, 1, 2, ... *)
Record call := { it_idem : option bool; it_retry : option Z; it_retried : Z;
                 script : nat -> outcome }.

Definition eff_idem (c : cfg) (cl : call) : bool :=
  match it_idem cl with Some b => b | None => idem c end.
Definition eff_retry (c : cfg) (cl : call) : Z :=
  match it_retry cl with Some r => r | None => retry c end.
Definition budget_of (c : cfg) (cl : call) : nat := Z.to_nat (eff_retry c cl - it_retried cl).

(* ClientContext.Init: URL = urls[0] if there is one (every call starts at the first URL) *)
Definition start (n ix rd : Z) : cstate :=
  {| url := if n >? 0 then 0 else -1; index := ix; retried := rd; nfail := 0; nsucc := 0; ivs := [] |}.

(* InvokeContext -> ... -> Cluster.Handler for one call; [n] = len(client.URLs),
   [ix] = the failover closure's index before the call *)
Definition handle (c : cfg) (n : Z) (ix : Z) (cl : call) : obs :=
  loop c n (eff_idem c cl) (script cl) (budget_of c cl) 0 (start n ix (it_retried cl)).

Definition handle_lit (fuel : nat) (c : cfg) (n : Z) (ix : Z) (cl : call) : option obs :=
  loop_lit fuel c n (eff_idem c cl) (eff_retry c cl) (script cl) 0 (start n ix (it_retried cl)).

Definition with_retried (cl : call) (rd : Z) : call :=
  {| it_idem := it_idem cl; it_retry := it_retry cl; it_retried := rd; script := script cl |}.

(* several calls through one plugin instance: the failover index persists.  [carry] = the
   calls reuse one ClientContext object, so the "retried" item persists as well *)
Fixpoint run_calls (c : cfg) (n : Z) (carry : bool) (ix : Z) (prev : option Z)
         (cs : list call) : list obs :=
  match cs with
  | [] => []
  | cl :: r =>
      let cl' := match carry, prev with true, Some rd => with_retried cl rd | _, _ => cl end in
      let o := handle c n ix cl' in
      o :: run_calls c n carry (index (fin o)) (Some (retried (fin o))) r
  end.

(* the same sequence run with the literal recursion (fuel budget + 1 per call) *)
Fixpoint run_calls_lit (c : cfg) (n : Z) (carry : bool) (ix : Z) (prev : option Z)
         (cs : list call) : list (option obs) :=
  match cs with
  | [] => []
  | cl :: r =>
      let cl' := match carry, prev with true, Some rd => with_retried cl rd | _, _ => cl end in
      match handle_lit (S (budget_of c cl')) c n ix cl' with
      | None => [None]
      | Some o => Some o :: run_calls_lit c n carry (index (fin o)) (Some (retried (fin o))) r
      end
  end.

(* ------------------------------------------------------------------ *)
(* Forking and Broadcast: n goroutines, one per URL; goroutine i invokes next once with
   URL = urls[i] and then applies its completion effect to the shared variables.
   The LTS: a step of goroutine i either starts it (the invocation) or completes it. *)

Inductive tpc := TNew | TRunning | TDone.

Fixpoint upd_nth {A} (n : nat) (x : A) (l : list A) : list A :=
  match l, n with
  | [], _ => []
  | _ :: r, O => x :: r
  | y :: r, S m => y :: upd_nth m x r
  end.

Section Fan.
  Context {A : Type}.
  Context (eff : A -> nat -> A).   (* completion effect of goroutine i on the shared state *)

  Record fan := { pcs : list tpc;
                  sh : A;
                  invoked : list nat;      (* URL indices next was invoked with, in order *)
                  completed : list nat }.  (* goroutines in the order they completed *)

  Definition fan_init (n : nat) (a : A) : fan :=
    {| pcs := repeat TNew n; sh := a; invoked := []; completed := [] |}.

  Definition fan_step (s : fan) (i : nat) : option fan :=
    match nth_error (pcs s) i with
    | Some TNew => Some {| pcs := upd_nth i TRunning (pcs s); sh := sh s;
                           invoked := invoked s ++ [i]; completed := completed s |}
    | Some TRunning => Some {| pcs := upd_nth i TDone (pcs s); sh := eff (sh s) i;
                               invoked := invoked s; completed := completed s ++ [i] |}
    | _ => None
    end.

  Fixpoint fan_run (s : fan) (sched : list nat) : option fan :=
    match sched with
    | [] => Some s
    | i :: r => match fan_step s i with None => None | Some s' => fan_run s' r end
    end.
End Fan.

Definition all_done (l : list tpc) : bool :=
  forallb (fun p => match p with TDone => true | _ => false end) l.

(* --- Forking ---
     count := int64(n); var once sync.Once; done := make(chan struct{})
     goroutine i:  resp, e := next(ctx_i, request)       // panic recovered
        e == nil            -> once.Do(response = resp; close(done))
        e != nil or panic   -> if atomic.AddInt64(&count, -1) <= 0 { once.Do(err = e; close(done)) }
     <-done; return *)
Record fshared := { f_count : Z; f_done : option result }.

Definition once (d : option result) (r : result) : option result :=
  match d with None => Some r | Some _ => d end.

Definition fork_eff (outs : list outcome) (s : fshared) (i : nat) : fshared :=
  match nth_error outs i with
  | None => s
  | Some (Ok r) => {| f_count := f_count s; f_done := once (f_done s) (RResp r) |}
  | Some o =>
      let c := f_count s - 1 in
      {| f_count := c; f_done := if c <=? 0 then once (f_done s) (result_of o) else f_done s |}
  end.

Definition fork_init (outs : list outcome) : fshared :=
  {| f_count := Z.of_nat (length outs); f_done := None |}.

(* the shared variables after the goroutines listed in [order] completed in that order;
   the caller is released with the value of f_done as soon as it is Some *)
Definition fork_run (outs : list outcome) (order : list nat) : fshared :=
  fold_left (fork_eff outs) order (fork_init outs).

Definition forking (outs : list outcome) (order : list nat) : option result :=
  f_done (fork_run outs order).

(* n == 0: return next(ctx, request) — nothing is recovered *)
Definition passthrough (o : outcome) : result :=
  match o with Ok r => RResp r | Err e => RErr e | Panic p => RPanicRaw p end.

Definition fork_lts (outs : list outcome) (sched : list nat) : option (fan (A := fshared)) :=
  fan_run (fork_eff outs) (fan_init (length outs) (fork_init outs)) sched.

(* --- Broadcast ---
     result = make([]interface{}, n); wg.Add(n)
     goroutine i:  result[i], e = next(ctx_i, name, args)   // panic recovered: result[i] stays nil
        e != nil  -> once.Do(err = e)       panic p -> once.Do(err = NewPanicError(p))
     wg.Wait(); return
   A slot is Some r after a successful invocation and None (nil) otherwise. *)
Record bshared := { b_slots : list (option Z); b_err : option result }.

Definition bcast_eff (outs : list outcome) (s : bshared) (i : nat) : bshared :=
  match nth_error outs i with
  | None => s
  | Some (Ok r) => {| b_slots := upd_nth i (Some r) (b_slots s); b_err := b_err s |}
  | Some o => {| b_slots := b_slots s; b_err := once (b_err s) (result_of o) |}
  end.

Definition bcast_init (outs : list outcome) : bshared :=
  {| b_slots := repeat None (length outs); b_err := None |}.

Definition bcast_run (outs : list outcome) (order : list nat) : bshared :=
  fold_left (bcast_eff outs) order (bcast_init outs).

Definition bcast_lts (outs : list outcome) (sched : list nat) : option (fan (A := bshared)) :=
  fan_run (bcast_eff outs) (fan_init (length outs) (bcast_init outs)) sched.

(* ------------------------------------------------------------------ *)
(* getIndex under concurrent callers (several calls failing at the same time share the
   closure's index).  Atomic steps of one getIndex call, n > 1:
     i := atomic.AddInt64(index, 1)        GIdle  -> i < n ? GIdle (returned i) : GStore
     atomic.StoreInt64(index, 0); return 0 GStore -> GIdle (returned 0)
   A thread that is idle may start the next getIndex call, so a schedule (list of thread
   ids) describes any number of calls per thread in any interleaving. *)
Inductive gpc := GIdle (last : option Z) | GStore.

Record gstate := { g_index : Z; g_pcs : list gpc }.

Definition gi_init (k : nat) : gstate := {| g_index := 0; g_pcs := repeat (GIdle None) k |}.

Definition gi_step (n : Z) (s : gstate) (t : nat) : option gstate :=
  match nth_error (g_pcs s) t with
  | Some (GIdle _) =>
      if n >? 1 then
        let i := g_index s + 1 in
        if i <? n then Some {| g_index := i; g_pcs := upd_nth t (GIdle (Some i)) (g_pcs s) |}
        else Some {| g_index := i; g_pcs := upd_nth t GStore (g_pcs s) |}
      else Some {| g_index := g_index s; g_pcs := upd_nth t (GIdle (Some 0)) (g_pcs s) |}
  | Some GStore => Some {| g_index := 0; g_pcs := upd_nth t (GIdle (Some 0)) (g_pcs s) |}
  | None => None
  end.

Fixpoint gi_run (n : Z) (s : gstate) (sched : list nat) : option gstate :=
  match sched with
  | [] => Some s
  | t :: r => match gi_step n s t with None => None | Some s' => gi_run n s' r end
  end.

(* threads between the AddInt64 that reached n and their StoreInt64 *)
Fixpoint pending (l : list gpc) : nat :=
  match l with
  | [] => O
  | GStore :: r => S (pending r)
  | GIdle _ :: r => pending r
  end.
