(* Model of the Go encoder (io/encoder.go and the *_encoder.go files) on a first-order
   universe of Go values.  The encoder is modelled as producing a wire tree; its bytes
   are [emit] of that tree (Model/Wire.v), which is what is compared byte for byte with
   io.Marshal.  Reference-counter effects are placed exactly where the Go code has them.
   Definitions only. *)
From Coq Require Import List NArith ZArith Strings.Byte Bool.
From HV Require Import Lib.Dec Lib.Utf8 Model.Wire Model.WireSem.
Import ListNotations.
Open Scope Z_scope.

Inductive ikind := KInt | KInt8 | KInt16 | KInt32 | KInt64
                 | KUint | KUint8 | KUint16 | KUint32 | KUint64 | KUintptr.

(* a float as the encoder sees it: class + the text strconv.AppendFloat(f,'g',-1,bits) gives (oracle) *)
Inductive fval := FNaN | FInf (neg : bool) | FFin (txt : bytes).

Inductive gval :=
| GNil                                        (* nil interface / pointer / slice / map *)
| GBool (b : bool)
| GInt (k : ikind) (z : Z)
| GFloat (f : fval)
| GComplex (re im : fval) (im_zero : bool)    (* im_zero: imag(c) == 0 *)
| GString (s : bytes)
| GBytes (b : bytes)                          (* non-nil []byte, or [N]byte *)
| GBytes2d (rows : list (option bytes))       (* non-nil [][]byte: fast path writeBytesSliceBody *)
| GSlice (vs : list gval)                     (* any other non-nil slice or array *)
| GMap (kvs : list gval)                      (* non-nil map: keys and values alternating, in written order *)
| GStruct (name : bytes) (fields : list bytes) (vs : list gval)   (* named struct value *)
| GAnon (fields : list bytes) (vs : list gval)                    (* anonymous struct value *)
| GTime (y mo d h mi s ns : Z) (utc : bool)   (* t.Date(), t.Clock(), t.Nanosecond(), t.Location()==time.UTC *)
| GUuid (txt : bytes)                         (* the 36-character hex form (oracle: encodeHex) *)
| GBigInt (z : Z)
| GBigFloat (txt : bytes)                     (* f.Append(buf,'g',-1) (oracle) *)
| GBigRat (num : option Z) (txt : bytes)      (* Some n when r.IsInt(); else r.String() = "a/b" (oracle) *)
| GList (vs : list gval)                      (* container/list.List value *)
| GError (msg : bytes)
| GPtr (addr : N).                            (* non-nil pointer; pointee in the heap *)

Definition heap := list (N * gval).

Fixpoint hlookup (h : heap) (a : N) : option gval :=
  match h with
  | [] => None
  | (a', v) :: r => if N.eqb a a' then Some v else hlookup r a
  end.

(* encoder state: encoderRefer {ref, sref, last} and Encoder {ref (classes), last} *)
Record estate := {
  prefs : list (N * N);            (* pointer identity -> reference index *)
  srefs : list (bytes * N);        (* string content -> reference index (latest first) *)
  rlast : N;                       (* encoderRefer.last *)
  cls : list (bytes * N);          (* struct type (by name) -> class index *)
  clast : N
}.

Definition einit : estate := {| prefs := []; srefs := []; rlast := 0; cls := []; clast := 0 |}.

Inductive eres :=
| EOk (st : estate) (w : wire)
| EPanic (site : N)      (* 1: writeDatePart index out of range; 2: dangling model pointer; 3: not a referable body *)
| EFuel.

Fixpoint bytes_eqb (a b : bytes) : bool :=
  match a, b with
  | [], [] => true
  | x :: a', y :: b' => Byte.eqb x y && bytes_eqb a' b'
  | _, _ => false
  end.

Fixpoint find_str (l : list (bytes * N)) (s : bytes) : option N :=
  match l with
  | [] => None
  | (s', k) :: r => if bytes_eqb s s' then Some k else find_str r s
  end.

Fixpoint find_ptr (l : list (N * N)) (a : N) : option N :=
  match l with
  | [] => None
  | (a', k) :: r => if N.eqb a a' then Some k else find_ptr r a
  end.

Section WithMode.
Variable simple : bool.

(* enc.AddReferenceCount(n) *)
Definition add_count (st : estate) (n : N) : estate :=
  if simple then st
  else {| prefs := prefs st; srefs := srefs st; rlast := (rlast st + n)%N; cls := cls st; clast := clast st |}.

(* enc.setReference(p) / refer.Set(p) *)
Definition set_ptr (st : estate) (a : N) : estate :=
  if simple then st
  else {| prefs := (a, rlast st) :: prefs st; srefs := srefs st; rlast := (rlast st + 1)%N;
          cls := cls st; clast := clast st |}.

(* enc.SetStringReference(s) *)
Definition set_str (st : estate) (s : bytes) : estate :=
  if simple then st
  else {| prefs := prefs st; srefs := (s, rlast st) :: srefs st; rlast := (rlast st + 1)%N;
          cls := cls st; clast := clast st |}.

Definition lookup_ptr (st : estate) (a : N) : option N := if simple then None else find_ptr (prefs st) a.
Definition lookup_str (st : estate) (s : bytes) : option N := if simple then None else find_str (srefs st) s.

(* appendString(buf, s, length): 's' form, or bytes when utf16Length is -1 *)
Definition string_wire (s : bytes) : wire :=
  if go_utf16Length s <? 0 then WBytes s else WStr s.

(* enc.EncodeString *)
Definition enc_string (st : estate) (s : bytes) : estate * wire :=
  let n := go_utf16Length s in
  if n =? 0 then (st, WEmpty)
  else if n =? 1 then (st, WChar s)
  else match lookup_str st s with
       | Some k => (st, WRef k)
       | None => (set_str st s, string_wire s)
       end.

(* enc.WriteString *)
Definition write_string (st : estate) (s : bytes) : estate * wire := (set_str st s, string_wire s).

(* integers: WriteInt32 and the routines that funnel into it *)
Definition w_int32 (z : Z) : wire := if (0 <=? z) && (z <=? 9) then WDigit (Z.to_N z) else WInt z.
Definition w_uint16 (z : Z) : wire := if z <=? 9 then WDigit (Z.to_N z) else WInt z.
Definition max_int32 : Z := 2147483647.
Definition min_int32 : Z := -2147483648.

Definition enc_int (k : ikind) (z : Z) : wire :=
  match k with
  | KInt => if (z >? max_int32) || (z <? min_int32) then WLong z else w_int32 z
  | KInt8 | KInt16 | KInt32 => w_int32 z
  | KInt64 => WLong z
  | KUint | KUint32 => if z >? max_int32 then WLong z else w_int32 z
  | KUint8 | KUint16 => w_uint16 z
  | KUint64 | KUintptr => WLong z
  end.

Definition enc_float (f : fval) : wire :=
  match f with
  | FNaN => WNaN
  | FInf neg => WInf neg
  | FFin txt => WDouble txt
  end.

(* writeDatePart / writeTimePart: indices into digit2/digit3; out of range is a Go panic *)
Definition date_in_range (y mo d : Z) : bool :=
  (0 <=? y) && (y <=? 9999) && (0 <=? mo) && (mo <=? 99) && (0 <=? d) && (d <=? 99).

Definition frac_groups (ns : Z) : list N :=
  if ns =? 0 then []
  else
    let q1 := ns / 1000000 in
    let r1 := ns - q1 * 1000000 in
    if r1 =? 0 then [Z.to_N q1]
    else
      let q2 := r1 / 1000 in
      let r2 := r1 - q2 * 1000 in
      if r2 =? 0 then [Z.to_N q1; Z.to_N q2] else [Z.to_N q1; Z.to_N q2; Z.to_N r2].

Definition enc_time (y mo d h mi s ns : Z) (utc : bool) : option wire :=
  let tm := (Z.to_N h, Z.to_N mi, Z.to_N s, frac_groups ns) in
  if (h =? 0) && (mi =? 0) && (s =? 0) && (ns =? 0) then
    if date_in_range y mo d then Some (WDate (Z.to_N y) (Z.to_N mo) (Z.to_N d) None utc) else None
  else if (y =? 1970) && (mo =? 1) && (d =? 1) then
    Some (WTime (Z.to_N h) (Z.to_N mi) (Z.to_N s) (frac_groups ns) utc)
  else
    if date_in_range y mo d then Some (WDate (Z.to_N y) (Z.to_N mo) (Z.to_N d) (Some tm) utc) else None.

(* elements written one after another, threading the state *)
Fixpoint enc_seq (enc1 : estate -> gval -> eres) (st : estate) (vs : list gval)
  : option (estate * list wire) + eres :=
  match vs with
  | [] => inl (Some (st, []))
  | v :: r =>
      match enc1 st v with
      | EOk st1 w =>
          match enc_seq enc1 st1 r with
          | inl (Some (st2, ws)) => inl (Some (st2, w :: ws))
          | other => other
          end
      | e => inr e
      end
  end.

(* field names of an anonymous struct alternate with the field values: EncodeString(alias), value *)
Fixpoint enc_anon_fields (enc1 : estate -> gval -> eres) (st : estate) (fields : list bytes) (vs : list gval)
  : option (estate * list wire) + eres :=
  match fields, vs with
  | f :: fr, v :: vr =>
      let '(st1, wf) := enc_string st f in
      match enc1 st1 v with
      | EOk st2 w =>
          match enc_anon_fields enc1 st2 fr vr with
          | inl (Some (st3, ws)) => inl (Some (st3, wf :: w :: ws))
          | other => other
          end
      | e => inr e
      end
  | _, _ => inl (Some (st, []))
  end.

Definition bytes_row (r : option bytes) : wire := match r with Some b => WBytes b | None => WNull end.

(* WriteStructType: class definition on first use of the type in this stream *)
Definition class_lookup (st : estate) (name : bytes) : option N := find_str (cls st) name.

Definition class_define (st : estate) (name : bytes) (nfields : N) : estate * N :=
  (* action(): AddReferenceCount(n) ; r = last ; last++ ; ref[t] = r *)
  let st1 := add_count st nfields in
  ({| prefs := prefs st1; srefs := srefs st1; rlast := rlast st1;
      cls := (name, clast st1) :: cls st1; clast := (clast st1 + 1)%N |}, clast st1).

Variable hp : heap.

(* [how]: how the body registers itself: by pointer identity (Set) or by AddReferenceCount(1) *)
Inductive regmode := ByPtr (a : N) | ByCount.

Definition register (st : estate) (r : regmode) : estate :=
  match r with ByPtr a => set_ptr st a | ByCount => add_count st 1 end.

(* body of a referable container/value, after its registration [r];
   [rec] encodes one element / field (the recursive call of the encoder) *)
Definition enc_body (rec : estate -> gval -> eres) (r : regmode) (st : estate) (v : gval) : eres :=
  match v with
  | GBytes b => EOk (register st r) (WBytes b)
  | GBytes2d rows =>
      (* writeBytesSliceBody: per row, AddReferenceCount(1) unless the row is nil (written as 'n') *)
      let st1 := register st r in
      if (length rows =? 0)%nat then EOk st1 (WList [])
      else EOk (fold_left (fun s row => match row with Some _ => add_count s 1 | None => s end) rows st1)
               (WList (map bytes_row rows))
  | GSlice vs | GList vs =>
      let st1 := register st r in
      match enc_seq rec st1 vs with
      | inl (Some (st2, ws)) => EOk st2 (WList ws)
      | inl None => EFuel
      | inr e => e
      end
  | GMap kvs =>
      let st1 := register st r in
      match enc_seq rec st1 kvs with
      | inl (Some (st2, ws)) => EOk st2 (WMap ws)
      | inl None => EFuel
      | inr e => e
      end
  | GStruct name fields vs =>
      (* structEncoder.Write: WriteStructType; SetReference(v); WriteObjectHead(r); fields; foot *)
      let '(st1, idx, fresh) :=
        match class_lookup st name with
        | Some k => (st, k, false)
        | None => let '(s', k) := class_define st name (N.of_nat (length fields)) in (s', k, true)
        end in
      let st2 := register st1 r in
      match enc_seq rec st2 vs with
      | inl (Some (st3, ws)) =>
          EOk st3 (if fresh then WClass name fields (WObj idx ws) else WObj idx ws)
      | inl None => EFuel
      | inr e => e
      end
  | GAnon fields vs =>
      let st1 := register st r in
      match enc_anon_fields rec st1 fields vs with
      | inl (Some (st2, ws)) => EOk st2 (WMap ws)
      | inl None => EFuel
      | inr e => e
      end
  | GTime y mo d h mi s ns utc =>
      let st1 := register st r in
      match enc_time y mo d h mi s ns utc with
      | Some w => EOk st1 w
      | None => EPanic 1%N
      end
  | GUuid txt => EOk (register st r) (WGuid txt)
  | _ => EPanic 3%N
  end.

(* is the pointee one whose pointer is tracked by identity (refer.Set) *)
Definition tracked (pv : gval) : bool :=
  match pv with
  | GBytes _ | GBytes2d _ | GSlice _ | GList _ | GMap _ | GStruct _ _ _ | GAnon _ _
  | GTime _ _ _ _ _ _ _ _ | GUuid _ => true
  | _ => false
  end.

(* one level of enc.encode(v) *)
Definition enc_step (rec : estate -> gval -> eres) (st : estate) (v : gval) : eres :=
  match v with
  | GNil => EOk st WNull
  | GBool b => EOk st (if b then WTrue else WFalse)
  | GInt k z => EOk st (enc_int k z)
  | GFloat fv => EOk st (enc_float fv)
  | GComplex re im im_zero =>
      if im_zero then EOk st (enc_float re)
      else EOk (add_count st 1) (WList [enc_float re; enc_float im])
  | GString s => let '(st1, w) := enc_string st s in EOk st1 w
  | GBigInt z => EOk st (WLong z)
  | GBigFloat txt => EOk st (WDouble txt)
  | GBigRat num txt =>
      (* r.IsInt() -> WriteBigInt(r.Num()); else AddReferenceCount(1); appendString(r.String()) *)
      match num with
      | Some z => EOk st (WLong z)
      | None => EOk (add_count st 1) (string_wire txt)
      end
  | GError msg => EOk (add_count st 1) (WErr (string_wire msg))
  | GPtr a =>
      match hlookup hp a with
      | None => EPanic 2%N
      | Some pv =>
          if tracked pv then
            (* Encode: WriteReference(ptr) else Write with Set(ptr) *)
            match lookup_ptr st a with
            | Some k => EOk st (WRef k)
            | None => enc_body rec (ByPtr a) st pv
            end
          else rec st pv   (* scalars, strings, big numbers, errors, **T: the pointer is transparent *)
      end
  | _ => enc_body rec ByCount st v
  end.

Fixpoint enc (fuel : nat) (st : estate) (v : gval) {struct fuel} : eres :=
  match fuel with
  | O => EFuel
  | S f => enc_step (enc f) st v
  end.

(* one level of enc.write(v) - the Write entry point: the value itself is written out even if it was
   written before (no look-up in the reference tables), but it is registered like any other.
     string, *string, named strings:   strenc.Write -> WriteString (always the 's' form, also for "" and "x")
     pointers to tracked objects:      valenc.Write(enc, ptr): SetReference(ptr) and the body
     **T and pointers to untracked:    ptrenc.Write again on the pointee
   everything below the top level is encoded (fields and elements go through Encode). *)
Definition write_step (rec wrec : estate -> gval -> eres) (st : estate) (v : gval) : eres :=
  match v with
  | GString s => let '(st1, w) := write_string st s in EOk st1 w
  | GPtr a =>
      match hlookup hp a with
      | None => EPanic 2%N
      | Some pv => if tracked pv then enc_body rec (ByPtr a) st pv else wrec st pv
      end
  | _ => enc_step rec st v
  end.

Fixpoint enc_write (fuel : nat) (st : estate) (v : gval) {struct fuel} : eres :=
  match fuel with
  | O => EFuel
  | S f => write_step (enc f) (enc_write f) st v
  end.

End WithMode.
