(* Proofs/PanicProofs.v — lemmas about Model/Panic.v (C11). *)
From Coq Require Import String List Bool Arith NArith Lia.
From HV Require Import Gen.RecoverTable Model.Panic.
Import ListNotations.
Open Scope string_scope.

(* ---------------------------------------------------------------- the recover rule *)

(* a recover() at call depth >= 1 below the deferred function never stops the panic,
   however the helper is nested *)
Lemma instr_recovers_deep : forall i d, instr_recovers (S d) i = false.
Proof.
  fix IH 1. intros i d. destruct i as [|body|]; cbn [instr_recovers].
  - reflexivity.
  - induction body as [|j body IHb]; cbn [existsb].
    + reflexivity.
    + rewrite (IH j (S d)). cbn [orb]. exact IHb.
  - reflexivity.
Qed.

Lemma instr_recovers_0 : forall i, instr_recovers 0 i = true <-> i = IRecover.
Proof.
  intros i. destruct i as [|body|]; cbn [instr_recovers].
  - split; reflexivity.
  - split; [|discriminate]. intros H.
    assert (E : existsb (instr_recovers 1) body = false).
    { clear H. induction body as [|j body IHb]; cbn [existsb]; [reflexivity|].
      rewrite instr_recovers_deep. exact IHb. }
    rewrite E in H. discriminate.
  - split; discriminate.
Qed.

(* a deferred function stops the panic iff its OWN body contains a recover() *)
Lemma dfn_recovers_iff : forall d, dfn_recovers d = true <-> In IRecover d.
Proof.
  intros d. unfold dfn_recovers. rewrite existsb_exists. split.
  - intros [i [Hin Hr]]. apply instr_recovers_0 in Hr. subst i. exact Hin.
  - intros Hin. exists IRecover. split; [exact Hin|reflexivity].
Qed.

Lemma helper_recover_ineffective : forall body rest,
  ~ In IRecover rest -> dfn_recovers (ICall body :: rest) = false.
Proof.
  intros body rest Hn. destruct (dfn_recovers (ICall body :: rest)) eqn:E; [|reflexivity].
  apply dfn_recovers_iff in E. destruct E as [E|E]; [discriminate|contradiction].
Qed.

Lemma dfn_of_recovers : forall direct indirect, dfn_recovers (dfn_of direct indirect) = direct.
Proof. intros [] []; reflexivity. Qed.

Lemma frame_recovers_iff : forall f,
  frame_recovers f = true <-> exists d, In d (fdefers f) /\ In IRecover d.
Proof.
  intros f. unfold frame_recovers. rewrite existsb_exists. split.
  - intros [d [Hin Hr]]. exists d. split; [exact Hin|]. apply dfn_recovers_iff. exact Hr.
  - intros [d [Hin Hr]]. exists d. split; [exact Hin|]. apply dfn_recovers_iff. exact Hr.
Qed.

(* the generic unwinding lemma: a panic is stopped on its goroutine iff some frame of the
   goroutine has a deferred function that calls recover() directly *)
Lemma unwind_contained_iff : forall stack,
  (exists f, unwind stack = Some f) <->
  (exists fr d, In fr stack /\ In d (fdefers fr) /\ In IRecover d).
Proof.
  induction stack as [|fr stack IH]; cbn [unwind].
  - split; [intros [f H]; discriminate|intros [fr [d [[] _]]]].
  - destruct (frame_recovers fr) eqn:E.
    + split; [|intros _; eexists; reflexivity]. intros _.
      apply frame_recovers_iff in E. destruct E as [d [Hd Hr]].
      exists fr, d. split; [left; reflexivity|split; assumption].
    + rewrite IH. split.
      * intros [fr' [d [Hin H]]]. exists fr', d. split; [right; exact Hin|exact H].
      * intros [fr' [d [[Heq|Hin] [Hd Hr]]]].
        -- subst fr'. assert (frame_recovers fr = true) by (apply frame_recovers_iff; exists d; split; assumption).
           congruence.
        -- exists fr', d. split; [exact Hin|split; assumption].
Qed.

Lemma unwind_escapes_iff : forall stack,
  unwind stack = None <->
  (forall fr d, In fr stack -> In d (fdefers fr) -> ~ In IRecover d).
Proof.
  intros stack. split.
  - intros H fr d Hfr Hd Hr.
    assert (X : exists f, unwind stack = Some f) by (apply unwind_contained_iff; exists fr, d; repeat split; assumption).
    destruct X as [f X]. congruence.
  - intros H. destruct (unwind stack) as [f|] eqn:E; [|reflexivity].
    assert (X : exists f, unwind stack = Some f) by (exists f; exact E).
    apply unwind_contained_iff in X. destruct X as [fr [d [Hfr [Hd Hr]]]]. exfalso. exact (H fr d Hfr Hd Hr).
Qed.

(* the innermost recovering frame is the one that stops it *)
Lemma unwind_innermost : forall inner fr outer,
  forallb (fun f => negb (frame_recovers f)) inner = true -> frame_recovers fr = true ->
  unwind (inner ++ fr :: outer) = Some (fname fr).
Proof.
  induction inner as [|f inner IH]; intros fr outer Hin Hfr; cbn [app unwind].
  - rewrite Hfr. reflexivity.
  - cbn [forallb] in Hin. apply andb_true_iff in Hin. destruct Hin as [Hf Hin].
    apply negb_true_iff in Hf. rewrite Hf. apply IH; assumption.
Qed.

(* what the table-derived deferred functions mean: only the direct flag matters *)
Lemma indirect_flag_irrelevant : forall direct i1 i2,
  dfn_recovers (dfn_of direct i1) = dfn_recovers (dfn_of direct i2).
Proof. intros. rewrite !dfn_of_recovers. reflexivity. Qed.

(* ---------------------------------------------------------------- verdicts *)

Lemma contained_spares_others : forall v, contained v = true ->
  affects v POtherConn = false /\ affects v PLater = false /\
  (affects v PSameConnInFlight = true -> v = ConnClosed).
Proof.
  intros v H. destruct v; cbn in H; try discriminate; cbn; repeat split; try reflexivity; intros; try discriminate; reflexivity.
Qed.

Lemma not_contained_cases : forall v, contained v = false ->
  v = ServerStops \/ v = ProcessDies \/ exists why, v = Broken why.
Proof.
  intros v H. destruct v; cbn in H; try discriminate; auto. right. right. eexists. reflexivity.
Qed.

(* ---------------------------------------------------------------- the finite cell space *)

Lemma cell_eqb_eq : forall a b, cell_eqb a b = true <-> a = b.
Proof.
  intros [t1 s1 p1 f1] [t2 s2 p2 f2]. unfold cell_eqb; cbn [c_tr c_side c_pool c_fault]. split.
  - intros H. repeat (apply andb_true_iff in H; destruct H as [H ?]).
    destruct t1, t2; try discriminate; destruct s1, s2; try discriminate;
    destruct p1, p2; try discriminate; destruct f1, f2; try discriminate; reflexivity.
  - intros H. inversion H; subst. destruct t2, s2, p2, f2; reflexivity.
Qed.

Lemma all_cells_length : length all_cells = (7 * 2 * 2 * 17)%nat.
Proof. vm_compute. reflexivity. Qed.

Lemma all_cells_complete : forall c : cell, In c all_cells.
Proof.
  intros c. assert (H : existsb (cell_eqb c) all_cells = true).
  { destruct c as [t s p f]. destruct t, s, p, f; vm_compute; reflexivity. }
  apply existsb_exists in H. destruct H as [x [Hin Heq]]. apply cell_eqb_eq in Heq. subst x. exact Hin.
Qed.

Lemma cells_spec : forall c, In c cells <-> applicable c = true.
Proof.
  intros c. unfold cells. rewrite filter_In. split; [tauto|]. intros H. split; [apply all_cells_complete|exact H].
Qed.

(* ---------------------------------------------------------------- over the regenerated table *)

Lemma table_accounted_ok :
  table_accounted table = true /\ goroutines_present table = true /\ unresolved_entries table = [].
Proof. vm_compute. repeat split; reflexivity. Qed.

(* every applicable cell is contained: computed over the whole product, then lifted *)
Lemma contained_b :
  forallb (fun c => implb (applicable c) (contained (verdict_of table c))) all_cells = true.
Proof. vm_compute. reflexivity. Qed.

Lemma contained_all : forall c : cell,
  applicable c = true -> contained (verdict_of table c) = true.
Proof.
  intros c Ha. pose proof contained_b as H. rewrite forallb_forall in H.
  specialize (H c (all_cells_complete c)). rewrite Ha in H. exact H.
Qed.

Lemma no_known_escapes : forall c, escaped c = false.
Proof. intros c. reflexivity. Qed.

(* every goroutine from which a user function is reachable is protected, modelled, or a client chain *)
Lemma user_goroutines_accounted_ok : user_goroutines_accounted table = true.
Proof. vm_compute. reflexivity. Qed.

(* the six client loops now recover in the deferred function itself *)
Lemma client_loop_defer_is_direct :
  forallb (fun f => match defers_before table f 1 with
                    | [d] => dfn_recovers d
                    | _ => false
                    end)
          ["socket.conn.Send"; "socket.conn.Receive"; "udp.conn.Send"; "udp.conn.Receive";
           "websocket.conn.Send"; "websocket.conn.Receive"] = true.
Proof. vm_compute. reflexivity. Qed.

(* panics of the service function, of invoke plugins and of the missing-method handler are stopped by
   Service.Process' own closure: they never unwind through the IO plugins or the transport handler *)
Definition invoke_level (f : fault) : bool :=
  match f with FServicePanic | FHostilePanic | FNestedHostilePanic | FInvokePluginPanic | FMissingPanic => true | _ => false end.

Definition is_call_error (v : verdict) : bool := match v with CallError => true | _ => false end.

Lemma invoke_level_b :
  forallb (fun c => implb (applicable c && side_eqb (c_side c) Server && invoke_level (c_fault c))
                          (match recovering_frame table c with
                           | Some f => String.eqb f "core.Service.Process$1"
                           | None => false
                           end && is_call_error (verdict_of table c))) all_cells = true.
Proof. vm_compute. reflexivity. Qed.

Lemma invoke_level_in_process : forall c : cell,
  applicable c = true -> c_side c = Server -> invoke_level (c_fault c) = true ->
  recovering_frame table c = Some "core.Service.Process$1" /\ verdict_of table c = CallError.
Proof.
  intros c Ha Hs Hf. pose proof invoke_level_b as H. rewrite forallb_forall in H.
  specialize (H c (all_cells_complete c)). rewrite Ha, Hs, Hf in H. cbn [side_eqb andb implb] in H.
  apply andb_true_iff in H. destruct H as [H1 H2]. split.
  - destruct (recovering_frame table c) as [f|]; [|discriminate].
    apply String.eqb_eq in H1. subst f. reflexivity.
  - destruct (verdict_of table c); try discriminate. reflexivity.
Qed.

(* fault cells that surface on a goroutine with an unprotected entry are stopped further in *)
Lemma covered_b :
  forallb (fun c => implb (applicable c && negb (escaped c)) (covered_by_inner_frame table c)) all_cells = true /\
  existsb (fun c => applicable c && negb (escaped c) && on_unprotected_goroutine c) all_cells = true.
Proof. vm_compute. split; reflexivity. Qed.

Lemma covered_all : forall c : cell, applicable c = true -> escaped c = false -> on_unprotected_goroutine c = true ->
  exists f, recovering_frame table c = Some f.
Proof.
  intros c Ha He Hu. destruct covered_b as [H _]. rewrite forallb_forall in H.
  specialize (H c (all_cells_complete c)). rewrite Ha, He in H. cbn [implb andb negb] in H.
  unfold covered_by_inner_frame in H. unfold on_unprotected_goroutine in Hu.
  destruct (behaviour_of c) as [g|v]; [|discriminate].
  destruct (g_root g) as [encl target| | | |]; try discriminate.
  rewrite Hu in H. destruct (recovering_frame table c) as [f|] eqn:E.
  - exists f. reflexivity.
  - discriminate.
Qed.

(* ---------------------------------------------------------------- goroutine entries *)

Lemma goroutine_entries_b :
  forallb (fun g => implb (negb (unprotected g)) (entry_protected table (snd g))) known_goroutines = true /\
  forallb (fun g => existsb (goroutine_eqb g) known_goroutines && negb (entry_protected table (snd g)))
          unprotected_goroutines = true.
Proof. vm_compute. split; reflexivity. Qed.

Lemma goroutine_entries_partial : forall g, In g known_goroutines -> unprotected g = false ->
  entry_protected table (snd g) = true.
Proof.
  intros g Hin Hu. destruct goroutine_entries_b as [H _]. rewrite forallb_forall in H.
  specialize (H g Hin). rewrite Hu in H. exact H.
Qed.

Lemma goroutine_entries_refuted : forall g, In g unprotected_goroutines ->
  existsb (goroutine_eqb g) known_goroutines = true /\ entry_protected table (snd g) = false.
Proof.
  intros g Hin. destruct goroutine_entries_b as [_ H]. rewrite forallb_forall in H.
  specialize (H g Hin). apply andb_true_iff in H. destruct H as [H1 H2]. apply negb_true_iff in H2. split; assumption.
Qed.

(* ---------------------------------------------------------------- formatting the recovered value *)

Lemma format_shielded_ok : format_shielded table = true.
Proof. vm_compute. reflexivity. Qed.

Lemma format_total_ok : format_total table = true.
Proof. vm_compute. reflexivity. Qed.

Lemma format_total_safe : forall t f, format_total t = true -> format_safe t f = true.
Proof.
  intros t f H. destruct f; try reflexivity; cbn [format_safe]; [|exact H].
  unfold format_total in H. apply andb_true_iff in H. destruct H as [H1 H2].
  unfold format_shielded. rewrite H1, H2. reflexivity.
Qed.

(* where the formatting runs, and what a panic there would do: the table shows no recover of
   Service.Handle (resp. Provider.process) around it *)
Lemma format_phase_unprotected :
  (forall g, format_phase (mk TMock Server false FHostilePanic) = Some g -> panic_verdict table g = ProcessDies) /\
  (forall g, format_phase (mk TFastHttp Server false FHostilePanic) = Some g -> panic_verdict table g = ProcessDies) /\
  (forall g, format_phase (mk TTcp Server false FHostilePanic) = Some g -> panic_verdict table g = ConnClosed) /\
  (forall g, format_phase (mk TTcp Client false FHostilePanic) = Some g -> panic_verdict table g = ProcessDies).
Proof.
  repeat split; intros g H; cbn in H; injection H as H; subst g; vm_compute; reflexivity.
Qed.

(* hence: the containment of hostile values rests on the shielding and on nothing else *)
Lemma hostile_rests_on_shielding : forall t c g1 g2,
  behaviour_of c = Panics g1 -> format_phase c = Some g2 ->
  contained (panic_verdict t g1) = true ->
  verdict_of t c = if format_safe t (c_fault c) then panic_verdict t g1 else panic_verdict t g2.
Proof.
  intros t c g1 g2 H1 H2 Hc. unfold verdict_of. rewrite H1, H2, Hc.
  destruct (format_safe t (c_fault c)); reflexivity.
Qed.

(* ---------------------------------------------------------------- teardown order, limits *)

Lemma teardown_order_ok : forallb (teardown_unregisters_first table) mux_packages = true.
Proof. vm_compute. reflexivity. Qed.

Lemma during_teardown_all : forall c : cell, during_teardown_ok table c = true.
Proof.
  intros c. unfold during_teardown_ok. destruct (has_pool (c_tr c)) eqn:E; [|reflexivity].
  pose proof teardown_order_ok as H. rewrite forallb_forall in H. apply H.
  destruct (c_tr c); try discriminate; cbn; auto.
Qed.

Lemma udp_limit : udp_max_body = 65499%N /\ forall n, refused udp_max_body n = true <-> (65499 < n)%N.
Proof.
  split; [reflexivity|]. intros n. unfold refused. rewrite N.ltb_lt. change udp_max_body with 65499%N. reflexivity.
Qed.
