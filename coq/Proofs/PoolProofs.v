(* Lemmas about Model/Pool.v (C14): state hygiene of pooled coders, ownership of decoded data. *)
From Coq Require Import List NArith ZArith Bool Strings.Byte Lia.
From HV Require Import Lib.Dec Model.Pool.
Import ListNotations.
Local Open Scope nat_scope.

(* ------------------------------------------------------------------------------------- *)
(* encoder                                                                               *)
(* ------------------------------------------------------------------------------------- *)
Section EncoderProofs.
Variables V RT CT ER WR : Type.
Variable rt0 : RT.
Variable ct0 : CT.
Variable vr : variant.     (* every lemma holds for every variant unless it names a flag *)
Variable ser : bool -> bool -> RT -> CT -> V -> ser_res RT CT ER.

Notation enc := (enc RT CT ER WR).
Notation new_enc := (new_enc RT CT ER WR rt0 ct0).
Notation enc_step := (enc_step V RT CT ER WR rt0 ct0 vr ser).
Notation enc_run := (enc_run V RT CT ER WR rt0 ct0 vr ser).
Notation free_enc := (free_enc RT CT ER WR rt0 ct0 vr).
Notation enc_fresh_equiv := (enc_fresh_equiv V RT CT ER WR rt0 ct0 vr ser).
Notation eget := (eget RT CT ER WR rt0 ct0).
Notation esession_run := (esession_run V RT CT ER WR rt0 ct0 vr ser).
Notation esessions_run := (esessions_run V RT CT ER WR rt0 ct0 vr ser).

(* exactly what survives FreeEncoder: the offset and the writer (unless repaired), nothing else *)
Lemma free_enc_char (s : enc) :
  free_enc s = {| e_buf := []; e_off := if v_resetbuffer_off vr then 0 else e_off s; e_simple := false;
                  e_refer := rt0; e_cls := ct0;
                  e_writer := if v_free_writer vr then None else e_writer s; e_err := None |}.
Proof. reflexivity. Qed.

Definition clean (s : enc) : Prop := e_off s = 0 /\ e_writer s = None.

Lemma free_enc_is_new (s : enc) : clean s -> free_enc s = new_enc.
Proof.
  intros [Ho Hw]. rewrite free_enc_char, Ho, Hw.
  destruct (v_resetbuffer_off vr), (v_free_writer vr); reflexivity.
Qed.

(* with both repairs the guard is not needed *)
Lemma free_enc_fixed_is_new (s : enc) :
  v_resetbuffer_off vr = true -> v_free_writer vr = true -> free_enc s = new_enc.
Proof. intros H1 H2. rewrite free_enc_char, H1, H2. reflexivity. Qed.

Lemma free_enc_fresh_fixed (s : enc) :
  v_resetbuffer_off vr = true -> v_free_writer vr = true -> enc_fresh_equiv (free_enc s).
Proof. intros H1 H2 ops. rewrite (free_enc_fixed_is_new s H1 H2). reflexivity. Qed.

Lemma free_enc_fresh_partial (s : enc) : clean s -> enc_fresh_equiv (free_enc s).
Proof. intros H ops. rewrite (free_enc_is_new s H). reflexivity. Qed.

Lemma new_enc_clean : clean new_enc.
Proof. split; reflexivity. Qed.

Lemma flush_clean (s : enc) : clean s -> fst (flush s) = s.
Proof.
  intros [Ho Hw]. unfold flush. destruct (e_err s); [reflexivity|]. rewrite Hw. reflexivity.
Qed.

Lemma flush_clean_pres (s : enc) : clean s -> clean (fst (flush s)).
Proof. intros H. rewrite flush_clean; assumption. Qed.

Lemma lib_step_clean (s : enc) (o : eop V WR) :
  lib_eop o = true -> clean s -> clean (fst (enc_step s o)).
Proof.
  intros Hl Hc. destruct o; cbn [Pool.enc_step fst]; try discriminate;
    try apply flush_clean_pres; try exact Hc;
    destruct Hc as [Ho Hw]; split; cbn; try assumption.
  destruct (v_resetbuffer_off vr); [reflexivity|assumption].
Qed.

Lemma lib_run_clean : forall (ops : list (eop V WR)) (s : enc),
  forallb lib_eop ops = true -> clean s -> clean (fst (enc_run s ops)).
Proof.
  induction ops as [|o r IH]; intros s Hl Hc; cbn [Pool.enc_run].
  - exact Hc.
  - cbn [forallb] in Hl. apply andb_prop in Hl as [Ho Hr].
    pose proof (lib_step_clean s o Ho Hc) as H1.
    destruct (enc_step s o) as [s1 ob] eqn:E1. cbn [fst] in H1.
    specialize (IH s1 Hr H1). destruct (enc_run s1 r) as [s2 obs]. exact IH.
Qed.

Lemma remove_nth_Forall {A} (P : A -> Prop) : forall n (l : list A), Forall P l -> Forall P (remove_nth n l).
Proof.
  induction n as [|n IH]; intros l H; destruct l as [|x r]; cbn; try constructor.
  - inversion H; assumption.
  - inversion H; assumption.
  - inversion H; subst. apply IH. assumption.
Qed.

Lemma eget_all_new (p : epool RT CT ER WR) (c : option nat) :
  Forall (fun e => e = new_enc) p ->
  fst (eget p c) = new_enc /\ Forall (fun e => e = new_enc) (snd (eget p c)).
Proof.
  intros H. unfold Pool.eget. destruct c as [k|]; [|split; [reflexivity|exact H]].
  destruct (nth_error p k) as [e|] eqn:E; cbn [fst snd].
  - split.
    + rewrite Forall_forall in H. apply H. eapply nth_error_In; eassumption.
    + apply remove_nth_Forall. exact H.
  - split; [reflexivity|exact H].
Qed.

(* every history of pooled uses in which no user assigns the exported Writer field: whatever
   encoder the pool hands out, each use observes exactly what it would observe on a new encoder *)
Lemma lib_sessions_fresh : forall (l : list (esession V WR)) (p : epool RT CT ER WR),
  Forall (fun e => e = new_enc) p ->
  Forall (fun ss => forallb lib_eop (es_ops ss) = true) l ->
  Forall (fun e => e = new_enc) (fst (esessions_run p l)) /\
  snd (esessions_run p l) = map (fun ss => snd (enc_run new_enc (es_ops ss))) l.
Proof.
  induction l as [|ss r IH]; intros p Hp Hl; cbn [Pool.esessions_run].
  - split; [exact Hp|reflexivity].
  - inversion Hl as [|? ? Hss Hr]; subst.
    unfold Pool.esession_run.
    destruct (eget_all_new p (es_choice ss) Hp) as [Hg Hrest].
    destruct (eget p (es_choice ss)) as [e p1]. cbn [fst snd] in Hg, Hrest. subst e.
    pose proof (lib_run_clean (es_ops ss) new_enc Hss new_enc_clean) as Hc.
    destruct (enc_run new_enc (es_ops ss)) as [e1 obs] eqn:E1. cbn [fst] in Hc.
    assert (Hp1 : Forall (fun e => e = new_enc) (free_enc e1 :: p1)).
    { constructor; [apply free_enc_is_new; exact Hc|exact Hrest]. }
    specialize (IH (free_enc e1 :: p1) Hp1 Hr).
    destruct (esessions_run (free_enc e1 :: p1) r) as [p2 all]. cbn [fst snd] in *.
    destruct IH as [IH1 IH2]. split; [exact IH1|]. cbn [map]. rewrite E1. cbn [snd]. f_equal. exact IH2.
Qed.

(* with both repairs: ARBITRARY operations in every use, Writer included *)
Lemma all_sessions_fresh_fixed :
  v_resetbuffer_off vr = true -> v_free_writer vr = true ->
  forall (l : list (esession V WR)) (p : epool RT CT ER WR),
  Forall (fun e => e = new_enc) p ->
  Forall (fun e => e = new_enc) (fst (esessions_run p l)) /\
  snd (esessions_run p l) = map (fun ss => snd (enc_run new_enc (es_ops ss))) l.
Proof.
  intros H1 H2. induction l as [|ss r IH]; intros p Hp; cbn [Pool.esessions_run].
  - split; [exact Hp|reflexivity].
  - unfold Pool.esession_run.
    destruct (eget_all_new p (es_choice ss) Hp) as [Hg Hrest].
    destruct (eget p (es_choice ss)) as [e p1]. cbn [fst snd] in Hg, Hrest. subst e.
    destruct (enc_run new_enc (es_ops ss)) as [e1 obs] eqn:E1.
    assert (Hp1 : Forall (fun e => e = new_enc) (free_enc e1 :: p1)).
    { constructor; [apply free_enc_fixed_is_new; assumption|exact Hrest]. }
    specialize (IH (free_enc e1 :: p1) Hp1).
    destruct (esessions_run (free_enc e1 :: p1) r) as [p2 all]. cbn [fst snd] in *.
    destruct IH as [IH1 IH2]. split; [exact IH1|]. cbn [map]. rewrite E1. cbn [snd]. f_equal. exact IH2.
Qed.

Lemma marshal_ops_lib simple (v : V) : forallb (@lib_eop V WR) (marshal_ops simple v) = true.
Proof. reflexivity. Qed.

End EncoderProofs.

(* ------------------------------------------------------------------------------------- *)
(* decoder                                                                               *)
(* ------------------------------------------------------------------------------------- *)
Section DecoderProofs.
Variables DT DV DR DC ER : Type.
Variable dr0 : DR.
Variable dc0 : DC.
Variable vr : variant.
Variable des : bool -> dopts -> DR -> DC -> option ER -> list byte -> DT -> des_res DV DR DC ER.

Notation dec := (dec DR DC ER).
Notation new_dec := (new_dec DR DC ER dr0 dc0).
Notation dec_step := (dec_step DT DV DR DC ER dr0 dc0 vr des).
Notation dec_run := (dec_run DT DV DR DC ER dr0 dc0 vr des).
Notation free_dec := (free_dec DR DC ER dr0 dc0 vr).
Notation dec_fresh_equiv := (dec_fresh_equiv DT DV DR DC ER dr0 dc0 vr des).
Notation dget := (dget DR DC ER dr0 dc0).
Notation dsessions_run := (dsessions_run DT DV DR DC ER dr0 dc0 vr des).
Notation dset_simple := (Pool.dset_simple DR DC ER dr0 dc0 vr).
Notation dreset := (Pool.dreset DR DC ER dr0 dc0 vr).

Definition nonuser (b : dbuf) : Prop := norm_buf b = BufNil.

(* guard: when the decoder is released while a reader is attached, its buffer is not a slice of
   a caller (ResetBuffer keeps the buffer in that case) *)
Definition buf_guard (s : dec) : Prop := d_from_reader s = true -> nonuser (d_buf s).

(* exactly what survives FreeDecoder: the buffer when a reader was attached, nothing else *)
Lemma free_dec_char (s : dec) :
  free_dec s = {| d_in := []; d_buf := if d_from_reader s then d_buf s else BufNil; d_from_reader := false;
                  d_simple := false; d_refer := dr0; d_cls := dc0; d_err := None; d_opts := opts0 |}.
Proof. reflexivity. Qed.

Lemma free_dec_same_new (s : dec) : buf_guard s -> dec_same (free_dec s) new_dec.
Proof.
  intros G. unfold Pool.dec_same. cbn. repeat split; try reflexivity.
  destruct (d_from_reader s) eqn:E; [|reflexivity]. apply G. exact E.
Qed.

Lemma dec_same_refl (s : dec) : dec_same s s.
Proof. unfold Pool.dec_same. repeat split; reflexivity. Qed.

Lemma norm_buf_match {A} (a b : dbuf) (x y : A) : norm_buf a = norm_buf b ->
  match a with BufUser O => x | _ => y end = match b with BufUser O => x | _ => y end.
Proof. destruct a as [| |[|n]], b as [| |[|m]]; cbn; intros H; try reflexivity; discriminate. Qed.

Lemma norm_buf_match_S {A} (a b : dbuf) (x y : A) : norm_buf a = norm_buf b ->
  match a with BufUser (S _) => x | _ => y end = match b with BufUser (S _) => x | _ => y end.
Proof. destruct a as [| |[|n]], b as [| |[|m]]; cbn; intros H; try reflexivity; discriminate. Qed.

Lemma norm_buf_load (a b : dbuf) : norm_buf a = norm_buf b ->
  norm_buf (match a with BufNil => BufOwn | x => x end) = norm_buf (match b with BufNil => BufOwn | x => x end).
Proof. destruct a, b; cbn; intros H; try reflexivity; try discriminate; exact H. Qed.

Lemma dec_same_step (a b : dec) (o : dop DT) : dec_same a b ->
  snd (dec_step a o) = snd (dec_step b o) /\ dec_same (fst (dec_step a o)) (fst (dec_step b o)).
Proof.
  intros (Hi & Hb & Hf & Hs & Hr & Hc & He & Ho).
  destruct o; cbn [Pool.dec_step Pool.dreset Pool.dset_simple Pool.dreset_buffer fst snd].
  - (* DDecode *)
    unfold Pool.ddecode, Pool.dhangs, Pool.dclobbers.
    rewrite Hi, Hf, Hs, Hr, Hc, He, Ho.
    destruct (d_buf a) as [| |[|n]] eqn:Ea, (d_buf b) as [| |[|m]] eqn:Eb; cbn in Hb; try discriminate;
      try (injection Hb as Hnm; subst m);
      destruct (d_from_reader b) eqn:Efr, (d_in b) eqn:Ein; cbn [andb fst snd];
      (split; [reflexivity|]); unfold Pool.dec_same; cbn; rewrite ?Ea, ?Eb, ?Efr, ?Ein, ?Hi, ?Hf, ?Hs, ?Hr, ?Hc, ?He, ?Ho;
      repeat split; reflexivity.
  - unfold Pool.dec_same; cbn; rewrite ?Hi, ?Hf, ?Hs, ?Hr, ?Hc, ?He, ?Ho; repeat split; try reflexivity; exact Hb.
  - unfold Pool.dec_same; cbn; rewrite ?Hi, ?Hf, ?Hs, ?Hr, ?Hc, ?He, ?Ho; repeat split; try reflexivity; exact Hb.
  - unfold Pool.dec_same; cbn; rewrite ?Hi, ?Hf, ?Hs, ?Hr, ?Hc, ?He, ?Ho; repeat split; reflexivity.
  - unfold Pool.dec_same; cbn; rewrite ?Hi, ?Hf, ?Hs, ?Hr, ?Hc, ?He, ?Ho; repeat split; try reflexivity.
    destruct (v_resetreader_drops vr && negb (d_from_reader b)); [reflexivity|exact Hb].
  - unfold Pool.dec_same; cbn; rewrite ?Hi, ?Hf, ?Hs, ?Hr, ?Hc, ?He, ?Ho; repeat split; try reflexivity.
    destruct (d_from_reader b); [exact Hb|reflexivity].
  - unfold Pool.dec_same; cbn; rewrite ?Hi, ?Hf, ?Hs, ?Hr, ?Hc, ?He, ?Ho; repeat split; try reflexivity; exact Hb.
  - rewrite He. split; [reflexivity|]. unfold Pool.dec_same. repeat split; assumption.
  - rewrite Hs. split; [reflexivity|]. unfold Pool.dec_same. repeat split; assumption.
  - rewrite Ho. split; [reflexivity|]. unfold Pool.dec_same. repeat split; assumption.
Qed.

Lemma dec_same_run : forall (ops : list (dop DT)) (a b : dec), dec_same a b ->
  snd (dec_run a ops) = snd (dec_run b ops) /\ dec_same (fst (dec_run a ops)) (fst (dec_run b ops)).
Proof.
  induction ops as [|o r IH]; intros a b H; cbn [Pool.dec_run].
  - split; [reflexivity|exact H].
  - destruct (dec_same_step a b o H) as [H1 H2].
    destruct (dec_step a o) as [a1 oa]. destruct (dec_step b o) as [b1 ob]. cbn [fst snd] in H1, H2.
    destruct (IH a1 b1 H2) as [H3 H4].
    destruct (dec_run a1 r) as [a2 la]. destruct (dec_run b1 r) as [b2 lb]. cbn [fst snd] in *.
    split; [congruence|exact H4].
Qed.

Lemma free_dec_fresh_partial (s : dec) : buf_guard s -> dec_fresh_equiv (free_dec s).
Proof. intros G ops. apply (dec_same_run ops _ _ (free_dec_same_new s G)). Qed.

(* a use with one kind of input source, started on a decoder without a caller's slice and without
   a reader, ends in a state that meets the guard *)
Lemma step_nonuser (s : dec) (o : dop DT) :
  is_reset_bytes o = false -> nonuser (d_buf s) -> nonuser (d_buf (fst (dec_step s o))).
Proof.
  intros Ho Hn. destruct o; cbn [Pool.dec_step fst]; try exact Hn; try discriminate.
  - unfold Pool.ddecode. destruct (dhangs DR DC ER s); cbn [fst d_buf]; [exact Hn|].
    destruct (d_from_reader s); [|exact Hn]. unfold nonuser in *. destruct (d_buf s); cbn in *; try reflexivity; exact Hn.
  - cbn [d_buf]. destruct (v_resetreader_drops vr && negb (d_from_reader s)); [reflexivity|exact Hn].
  - cbn. unfold nonuser in *. destruct (d_from_reader s); [exact Hn|reflexivity].
Qed.

Lemma run_nonuser : forall (ops : list (dop DT)) (s : dec),
  forallb (fun o => negb (is_reset_bytes o)) ops = true -> nonuser (d_buf s) -> nonuser (d_buf (fst (dec_run s ops))).
Proof.
  induction ops as [|o r IH]; intros s Hf Hn; cbn [Pool.dec_run]; [exact Hn|].
  cbn in Hf. apply andb_prop in Hf as [Ho Hr]. apply negb_true_iff in Ho.
  pose proof (step_nonuser s o Ho Hn) as H1. destruct (dec_step s o) as [s1 ob]. cbn [fst] in H1.
  specialize (IH s1 Hr H1). destruct (dec_run s1 r) as [s2 obs]. exact IH.
Qed.

Lemma step_noreader (s : dec) (o : dop DT) :
  is_reset_reader o = false -> d_from_reader s = false -> d_from_reader (fst (dec_step s o)) = false.
Proof.
  intros Ho Hn. destruct o; cbn [Pool.dec_step fst]; try exact Hn; try discriminate; try reflexivity.
  unfold Pool.ddecode. destruct (dhangs DR DC ER s); cbn [fst d_from_reader]; exact Hn.
Qed.

Lemma run_noreader : forall (ops : list (dop DT)) (s : dec),
  forallb (fun o => negb (is_reset_reader o)) ops = true -> d_from_reader s = false ->
  d_from_reader (fst (dec_run s ops)) = false.
Proof.
  induction ops as [|o r IH]; intros s Hf Hn; cbn [Pool.dec_run]; [exact Hn|].
  cbn in Hf. apply andb_prop in Hf as [Ho Hr]. apply negb_true_iff in Ho.
  pose proof (step_noreader s o Ho Hn) as H1. destruct (dec_step s o) as [s1 ob]. cbn [fst] in H1.
  specialize (IH s1 Hr H1). destruct (dec_run s1 r) as [s2 obs]. exact IH.
Qed.

Lemma one_source_guard (ops : list (dop DT)) (s : dec) :
  one_source ops = true -> nonuser (d_buf s) -> d_from_reader s = false -> buf_guard (fst (dec_run s ops)).
Proof.
  intros H Hn Hr. unfold Pool.one_source in H. apply orb_prop in H as [H|H].
  - intros _. apply run_nonuser; assumption.
  - intros E. rewrite (run_noreader ops s H Hr) in E. discriminate.
Qed.

Lemma same_new_nonuser (d : dec) : dec_same d new_dec -> nonuser (d_buf d) /\ d_from_reader d = false.
Proof. intros (_ & Hb & Hf & _). split; [exact Hb|exact Hf]. Qed.

Lemma dget_all_same (p : dpool DR DC ER) (c : option nat) :
  Forall (fun e => dec_same e new_dec) p ->
  dec_same (fst (dget p c)) new_dec /\ Forall (fun e => dec_same e new_dec) (snd (dget p c)).
Proof.
  intros H. unfold Pool.dget. destruct c as [k|]; [|split; [apply dec_same_refl|exact H]].
  destruct (nth_error p k) as [e|] eqn:E; cbn [fst snd].
  - split.
    + rewrite Forall_forall in H. apply H. eapply nth_error_In; eassumption.
    + apply remove_nth_Forall. exact H.
  - split; [apply dec_same_refl|exact H].
Qed.

(* every history of pooled uses, each with ARBITRARY operations of the public API (modes, options,
   failing inputs, explicit resets) as long as it takes its input from one kind of source: each use
   observes what it would observe on a new decoder *)
Lemma sessions_fresh : forall (l : list (dsession DT)) (p : dpool DR DC ER),
  Forall (fun e => dec_same e new_dec) p ->
  Forall (fun ss => one_source (dss_ops ss) = true) l ->
  Forall (fun e => dec_same e new_dec) (fst (dsessions_run p l)) /\
  snd (dsessions_run p l) = map (fun ss => snd (dec_run new_dec (dss_ops ss))) l.
Proof.
  induction l as [|ss r IH]; intros p Hp Hl; cbn [Pool.dsessions_run].
  - split; [exact Hp|reflexivity].
  - inversion Hl as [|? ? Hss Hr]; subst.
    unfold Pool.dsession_run.
    destruct (dget_all_same p (dss_choice ss) Hp) as [Hg Hrest].
    destruct (dget p (dss_choice ss)) as [d p1]. cbn [fst snd] in Hg, Hrest.
    destruct (dec_same_run (dss_ops ss) d new_dec Hg) as [Hobs _].
    destruct (same_new_nonuser d Hg) as [Hnu Hnr].
    pose proof (one_source_guard (dss_ops ss) d Hss Hnu Hnr) as Hguard.
    destruct (dec_run d (dss_ops ss)) as [d1 obs] eqn:E1. cbn [fst snd] in Hobs, Hguard.
    assert (Hp1 : Forall (fun e => dec_same e new_dec) (free_dec d1 :: p1)).
    { constructor; [apply free_dec_same_new; exact Hguard|exact Hrest]. }
    specialize (IH (free_dec d1 :: p1) Hp1 Hr).
    destruct (dsessions_run (free_dec d1 :: p1) r) as [p2 all]. cbn [fst snd] in *.
    destruct IH as [IH1 IH2]. split; [exact IH1|]. cbn [map]. f_equal; assumption.
Qed.

(* with the ResetReader repair the guard holds by itself: "a reader is attached => the buffer is
   not a caller's slice" is an invariant of every operation *)
Definition buf_inv (s : dec) : Prop := d_from_reader s = true -> nonuser (d_buf s).

Lemma step_buf_inv (s : dec) (o : dop DT) :
  v_resetreader_drops vr = true -> buf_inv s -> buf_inv (fst (dec_step s o)).
Proof.
  intros Hv Hi. destruct o; cbn [Pool.dec_step fst]; try exact Hi.
  - unfold Pool.ddecode. destruct (dhangs DR DC ER s); cbn [fst]; [exact Hi|].
    intros E. cbn [d_from_reader d_buf] in *. specialize (Hi E). rewrite E.
    unfold nonuser in *. destruct (d_buf s); cbn in *; try reflexivity; exact Hi.
  - intros E. cbn in E. discriminate.
  - intros _. cbn [d_buf]. rewrite Hv. destruct (d_from_reader s) eqn:E; cbn [negb andb]; [apply Hi; exact E|reflexivity].
  - intros E. cbn in E. discriminate.
Qed.

Lemma run_buf_inv : forall (ops : list (dop DT)) (s : dec),
  v_resetreader_drops vr = true -> buf_inv s -> buf_inv (fst (dec_run s ops)).
Proof.
  induction ops as [|o r IH]; intros s Hv Hi; cbn [Pool.dec_run]; [exact Hi|].
  pose proof (step_buf_inv s o Hv Hi) as H1. destruct (dec_step s o) as [s1 ob]. cbn [fst] in H1.
  specialize (IH s1 Hv H1). destruct (dec_run s1 r) as [s2 obs]. exact IH.
Qed.

Lemma all_dsessions_fresh_fixed :
  v_resetreader_drops vr = true ->
  forall (l : list (dsession DT)) (p : dpool DR DC ER),
  Forall (fun e => dec_same e new_dec) p ->
  Forall (fun e => dec_same e new_dec) (fst (dsessions_run p l)) /\
  snd (dsessions_run p l) = map (fun ss => snd (dec_run new_dec (dss_ops ss))) l.
Proof.
  intros Hv. induction l as [|ss r IH]; intros p Hp; cbn [Pool.dsessions_run].
  - split; [exact Hp|reflexivity].
  - unfold Pool.dsession_run.
    destruct (dget_all_same p (dss_choice ss) Hp) as [Hg Hrest].
    destruct (dget p (dss_choice ss)) as [d p1]. cbn [fst snd] in Hg, Hrest.
    destruct (dec_same_run (dss_ops ss) d new_dec Hg) as [Hobs _].
    destruct (same_new_nonuser d Hg) as [Hnu Hnr].
    assert (Hinv : buf_inv d) by (intros _; exact Hnu).
    pose proof (run_buf_inv (dss_ops ss) d Hv Hinv) as Hguard.
    destruct (dec_run d (dss_ops ss)) as [d1 obs] eqn:E1. cbn [fst snd] in Hobs, Hguard.
    assert (Hp1 : Forall (fun e => dec_same e new_dec) (free_dec d1 :: p1)).
    { constructor; [apply free_dec_same_new; exact Hguard|exact Hrest]. }
    specialize (IH (free_dec d1 :: p1) Hp1).
    destruct (dsessions_run (free_dec d1 :: p1) r) as [p2 all]. cbn [fst snd] in *.
    destruct IH as [IH1 IH2]. split; [exact IH1|]. cbn [map]. f_equal; assumption.
Qed.

(* with the repair every decoder made by a constructor is released fresh after ANY history *)
Lemma free_dec_fresh_fixed (s0 : dec) (ops : list (dop DT)) :
  v_resetreader_drops vr = true -> buf_inv s0 -> dec_fresh_equiv (free_dec (fst (dec_run s0 ops))).
Proof. intros Hv Hi. apply free_dec_fresh_partial. exact (run_buf_inv ops s0 Hv Hi). Qed.

Lemma buf_inv_new_dec : buf_inv new_dec.
Proof. intros E; discriminate. Qed.
Lemma buf_inv_new_decoder input : buf_inv (new_decoder DR DC ER dr0 dc0 input).
Proof. intros E; discriminate. Qed.
Lemma buf_inv_new_decoder_from_reader input : buf_inv (new_decoder_from_reader DR DC ER dr0 dc0 input).
Proof. intros _; reflexivity. Qed.

(* the mode switch: Simple(false) always empties both tables; Simple(true) empties the class
   list but (as found) KEEPS the reference list *)
Lemma dsimple_false_resets (s : dec) :
  d_refer (dset_simple false s) = dr0 /\
  d_cls (dset_simple false s) = dc0.
Proof. split; reflexivity. Qed.

Lemma dsimple_true_keeps_refer (s : dec) :
  v_reset_refer_always vr = false -> d_refer (dset_simple true s) = d_refer s.
Proof. intros H. cbn. rewrite H. reflexivity. Qed.

Lemma dsimple_resets_fixed (b : bool) (s : dec) :
  v_reset_refer_always vr = true -> d_refer (dset_simple b s) = dr0 /\ d_cls (dset_simple b s) = dc0.
Proof. intros H. cbn. rewrite H. destruct b; split; reflexivity. Qed.

(* ... so a reused decoder switched with Simple(true) is as good as NewDecoder exactly when its
   reference list was empty; Reset() in reference mode (as the rpc codecs do before switching) suffices *)
Lemma dsimple_true_partial (s : dec) (input : list byte) :
  d_refer s = dr0 -> d_err s = None -> d_opts s = opts0 ->
  dec_same (fst (dec_step (dset_simple true s) (DResetBytes input)))
           (new_decoder DR DC ER dr0 dc0 input).
Proof.
  intros Hr He Ho. unfold Pool.dec_same. cbn. rewrite Hr, He, Ho.
  destruct (v_reset_refer_always vr); repeat split; reflexivity.
Qed.

Lemma dreset_then_simple_true (s : dec) :
  d_simple s = false ->
  d_refer (dset_simple true (dreset s)) = dr0.
Proof. intros H. cbn. rewrite H. cbn. destruct (v_reset_refer_always vr); reflexivity. Qed.

End DecoderProofs.

(* ------------------------------------------------------------------------------------- *)
(* ownership                                                                             *)
(* ------------------------------------------------------------------------------------- *)
Lemma copy_unless_safe_owned fast : copy_unless_safe fast = Owned.
Proof. destruct fast; reflexivity. Qed.

Lemma read_safe_string_owned fast : read_safe_string fast = Owned.
Proof. destruct fast; reflexivity. Qed.

Lemma read_unsafe_view : read_unsafe true = View.
Proof. reflexivity. Qed.

Lemma own_string_owned m i w v : own_string m i w = Some v -> all_owned v = true.
Proof.
  destruct w; cbn; intros H; inversion H; subst; cbn;
    rewrite ?copy_unless_safe_owned, ?read_safe_string_owned; reflexivity.
Qed.

Lemma own_bytes_owned m i w v : own_bytes m i w = Some v -> all_owned v = true.
Proof.
  destruct w; cbn; try destruct (om_simple m); intros H; inversion H; subst; cbn;
    rewrite ?copy_unless_safe_owned, ?read_safe_string_owned; reflexivity.
Qed.

Lemma own_iface_leaf_owned m i w v : own_iface_leaf m i w = Some v -> all_owned v = true.
Proof.
  destruct w; cbn; intros H; inversion H; subst; cbn;
    rewrite ?copy_unless_safe_owned, ?read_safe_string_owned; reflexivity.
Qed.

Definition refs_owned (refs : orefs) : Prop := forallb all_owned refs = true.

Lemma refs_owned_app refs v : refs_owned refs -> all_owned v = true -> refs_owned (refs ++ [v]).
Proof. unfold refs_owned. intros H1 H2. rewrite forallb_app, H1. cbn. rewrite H2. reflexivity. Qed.

Definition res_owned (r : ores) : Prop := all_owned (or_val r) = true /\ refs_owned (or_refs r).

Lemma own_seq_owned (rec : dty -> wtok -> orefs -> nat -> ores) :
  (forall ty w refs i, refs_owned refs -> res_owned (rec ty w refs i)) ->
  forall ws tys refs i, refs_owned refs ->
    let '(vs, refs', _) := own_seq rec tys ws refs i in
    forallb all_owned vs = true /\ refs_owned refs'.
Proof.
  intros Hrec. induction ws as [|w wr IH]; intros tys refs i Hr; cbn [own_seq].
  - split; [reflexivity|exact Hr].
  - destruct (Hrec (match tys with t :: _ => t | [] => TIface end) w refs i Hr) as [Hv Hrefs].
    specialize (IH (match tys with _ :: tr => tr | [] => [] end) _
                   (or_next (rec (match tys with t :: _ => t | [] => TIface end) w refs i)) Hrefs).
    destruct (own_seq rec (match tys with _ :: tr => tr | [] => [] end) wr
                (or_refs (rec (match tys with t :: _ => t | [] => TIface end) w refs i))
                (or_next (rec (match tys with t :: _ => t | [] => TIface end) w refs i))) as [[vs refs'] i'].
    destruct IH as [IH1 IH2]. split; [|exact IH2]. cbn [forallb]. rewrite Hv, IH1. reflexivity.
Qed.

Lemma leaf_owned m (refs : orefs) (i : nat) (o : option oval) (referable : bool) :
  refs_owned refs -> (forall v, o = Some v -> all_owned v = true) ->
  res_owned (match o with
             | Some v => mk_ores v (if referable && negb (om_simple m) then refs ++ [v] else refs) (S i)
             | None => mk_ores OPlain refs (S i)
             end).
Proof.
  intros Hr Ho. destruct o as [v|]; unfold res_owned; cbn [or_val or_refs].
  - specialize (Ho v eq_refl). split; [exact Ho|].
    destruct (referable && negb (om_simple m)); [apply refs_owned_app; assumption|exact Hr].
  - split; [reflexivity|exact Hr].
Qed.

Lemma node_owned m vs refs' i' :
  forallb all_owned vs = true -> refs_owned refs' ->
  res_owned (mk_ores (ONode vs) (if om_simple m then refs' else refs' ++ [ONode vs]) i').
Proof.
  intros Hv Hr. unfold res_owned; cbn [or_val or_refs]. split; [exact Hv|].
  destruct (om_simple m); [exact Hr|apply refs_owned_app; assumption].
Qed.

Lemma refs_owned_nth refs k v : refs_owned refs -> nth_error refs k = Some v -> all_owned v = true.
Proof.
  unfold refs_owned. intros H E. rewrite forallb_forall in H. apply H. eapply nth_error_In; eassumption.
Qed.

(* whatever the input, the destination type, the mode and the way the reads split the input:
   every string and []byte the decoder leaves in the result (and in its reference list) is Owned *)
Lemma own_decode_owned m : forall fuel ty w refs i,
  refs_owned refs -> res_owned (own_decode m fuel ty w refs i).
Proof.
  induction fuel as [|f IH]; intros ty w refs i Hr.
  - split; [reflexivity|exact Hr].
  - cbn [own_decode].
    assert (Hplain : res_owned (mk_ores OPlain refs (S i))) by (split; [reflexivity|exact Hr]).
    destruct w.
    all: try (destruct ty).
    all: try exact Hplain.
    all: try (apply leaf_owned;
              [exact Hr
              |intros v Hv; first [eapply own_string_owned; exact Hv | eapply own_bytes_owned; exact Hv | eapply own_iface_leaf_owned; exact Hv]]).
    all: try match goal with
         | |- res_owned (mk_ores (ONode [or_val (own_decode _ _ ?e ?ww _ _)]) _ _) =>
             let H1 := fresh in let H2 := fresh in
             destruct (IH e ww refs i Hr) as [H1 H2];
             split; cbn [or_val or_refs all_owned forallb]; [rewrite H1; reflexivity|exact H2]
         end.
    all: try match goal with
         | |- context [own_seq (own_decode ?mm ?ff) ?t ?w ?rf ?ii] =>
             let H := fresh "Hs" in
             pose proof (own_seq_owned (own_decode mm ff) IH w t rf ii Hr) as H;
             destruct (own_seq (own_decode mm ff) t w rf ii) as [[? ?] ?]; destruct H as [? ?];
             apply node_owned; assumption
         end.
    (* WRefTo *)
    all: match goal with
         | |- context [nth_error ?rr ?k] =>
             destruct (nth_error rr k) as [v|] eqn:E; [|exact Hplain];
             pose proof (refs_owned_nth refs k v Hr E) as Hv;
             first [exact Hplain | split; [exact Hv|exact Hr]]
         end.
Qed.

(* the documented-unsafe entry points do return views; their safe counterparts never do *)
Lemma view_api_is_view a : view_api_own a true = View.
Proof. destruct a; reflexivity. Qed.

Lemma safe_api_is_owned a fast : safe_api_own a fast = Owned.
Proof. destruct a, fast; reflexivity. Qed.

(* ------------------------------------------------------------------------------------- *)
(* concrete witnesses (the byte-exact small codec of Model/Pool.v part 4)                *)
(* ------------------------------------------------------------------------------------- *)
From Coq Require Import String.
Definition bs (s : string) : bytes := list_byte_of_string s.

Notation c_fresh_equiv := (enc_fresh_equiv val crefer ccls cerr N crefer0 ccls0 as_found cser).

(* pooled path: a user sets the exported Writer on a pooled encoder; after FreeEncoder the next
   user of that encoder sends the tail of ITS data to the previous user's writer *)
Definition hist_writer : list (eop val N) := [ESetWriter (Some 1%N); EEncode (VStr (bs "hello"))].

Lemma pool_writer_refuted : ~ c_fresh_equiv (c_free_enc (fst (c_enc_run c_new_enc hist_writer))).
Proof. intros H. specialize (H [EEncode (VStr (bs "secret-of-next-user"))]). vm_compute in H. discriminate. Qed.

Lemma pool_writer_leak :
  snd (c_enc_run (c_free_enc (fst (c_enc_run c_new_enc hist_writer)))
                 [ESimple true; EEncode (VStr (bs "secret-of-next-user")); EBytes]) =
  [OUnit; OFlushed None (Some (1%N, bs "t-of-next-user""")); OBytes (bs "s19""secret-of-next-user""")].
Proof. vm_compute. reflexivity. Qed.

(* the offset alone survives too (writer removed before Free): the next user who sets a writer
   loses the first bytes *)
Definition hist_off : list (eop val N) :=
  [ESetWriter (Some 1%N); EEncode (VStr (bs "hello")); ESetWriter None].

Lemma pool_off_refuted : ~ c_fresh_equiv (c_free_enc (fst (c_enc_run c_new_enc hist_off))).
Proof.
  intros H. specialize (H [ESetWriter (Some 2%N); EEncode (VStr (bs "world!"))]). vm_compute in H. discriminate.
Qed.

(* public Reset API, no pool: NewEncoder(w); Encode(a); ResetBuffer(); Encode(b) *)
Lemma resetbuffer_stray_byte :
  snd (c_enc_run (c_new_encoder (Some 1%N))
         [EEncode (VStr (bs "hello")); EResetBuffer; EEncode (VStr (bs "world!"))]) =
  [OFlushed None (Some (1%N, bs "s5""hello""")); OUnit; OFlushed None (Some (1%N, bs """"))].
Proof. vm_compute. reflexivity. Qed.

(* the histories of the two refutations violate the guard, library histories do not *)
Lemma hist_writer_not_clean : e_writer (fst (c_enc_run c_new_enc hist_writer)) = Some 1%N.
Proof. reflexivity. Qed.
Lemma hist_off_not_clean : e_off (fst (c_enc_run c_new_enc hist_off)) = 9.
Proof. vm_compute. reflexivity. Qed.

(* decoder: Simple(true) on a decoder that was used in reference mode keeps the reference list,
   and ReadReference reads it without looking at the mode *)
Definition dhist : list (dop unit) := [DSimple false; DDecode tt].
Definition dinput1 : bytes := bs "a2{s5""hello""r1;}".
Definition dnext : list (dop unit) := [DSimple true; DResetBytes (bs "r1;"); DDecode tt].

Lemma dec_simple_true_refuted :
  snd (c_dec_run (fst (c_dec_run (c_new_decoder dinput1) dhist)) dnext) =
    [ODUnit; ODUnit; ODecoded (DStr (bs "hello")) None false] /\
  snd (c_dec_run (c_new_decoder []) dnext) = [ODUnit; ODUnit; ODecoded DNil (Some EOther) false].
Proof. split; vm_compute; reflexivity. Qed.

(* pooled path: a user gives a pooled decoder a slice (ResetBytes) and then a reader (ResetReader);
   ResetBuffer keeps the buffer when a reader is attached, so the pool now holds a decoder whose
   read buffer is that user's slice: the NEXT user's input is read into it *)
Notation c_dec_fresh_equiv := (dec_fresh_equiv unit dval drefs unit cerr [] tt as_found cdes).

Definition dhist_buf : list (dop unit) :=
  [DResetBytes (bs "i42;xxxxxxxxxxxxxxxx"); DDecode tt; DResetReader (bs "i7;"); DDecode tt].

Lemma pool_dec_buffer_refuted : ~ c_dec_fresh_equiv (c_free_dec (fst (c_dec_run c_new_dec dhist_buf))).
Proof.
  intros H. specialize (H [DResetReader (bs "s19""secret-of-next-user"""); DDecode tt]). vm_compute in H. discriminate.
Qed.

Lemma pool_dec_buffer_leak :
  snd (c_dec_run (c_free_dec (fst (c_dec_run c_new_dec dhist_buf)))
                 [DResetReader (bs "s19""secret-of-next-user"""); DDecode tt]) =
  [ODUnit; ODecoded (DStr (bs "secret-of-next-user")) None true].
Proof. vm_compute. reflexivity. Qed.

(* ... and when that slice is empty the next reader-fed use never returns *)
Definition dhist_hang : list (dop unit) := [DResetBytes []; DResetReader (bs "i7;")].

Lemma pool_dec_hang :
  snd (c_dec_run (c_free_dec (fst (c_dec_run c_new_dec dhist_hang))) [DResetReader (bs "i7;"); DDecode tt]) =
  [ODUnit; ODHang].
Proof. vm_compute. reflexivity. Qed.

Lemma dhist_buf_not_guarded :
  d_from_reader (fst (c_dec_run c_new_dec dhist_buf)) = true /\
  d_buf (fst (c_dec_run c_new_dec dhist_buf)) = BufUser 20.
Proof. split; vm_compute; reflexivity. Qed.

(* non-vacuity: a history of decoder uses with modes, options, failing inputs; one source each *)
Definition sample_dsessions : list (dsession unit) :=
  [ mk_dsession None [DSimple false; DResetBytes (bs "a2{s5""hello""r1;}"); DSetOpts (mk_opts 3 1 1 1 0); DDecode tt];
    mk_dsession (Some 0) [DGetOpts; DResetBytes (bs "r0;"); DDecode tt; DGetError];
    mk_dsession (Some 0) [DSimple true; DResetReader (bs "l5;Z"); DDecode tt; DDecode tt; DGetError] ].

Lemma sample_dsessions_one_source : Forall (fun ss => one_source (dss_ops ss) = true) sample_dsessions.
Proof. repeat constructor. Qed.

Lemma sample_dsessions_obs :
  snd (c_dsessions_run [] sample_dsessions) =
  [ [ODUnit; ODUnit; ODUnit; ODecoded (DList [DStr (bs "hello"); DStr (bs "hello")]) None false];
    [ODOpts opts0; ODUnit; ODecoded DNil (Some EOther) false; ODErr (Some EOther)];
    [ODUnit; ODUnit; ODecoded (DLong 0 5) None false; ODecoded DNil (Some EInvalidTag) false; ODErr (Some EInvalidTag)] ].
Proof. vm_compute. reflexivity. Qed.

(* non-vacuity of the pool theorems: a history with modes, failing value, explicit resets *)
Definition sample_sessions : list (esession val N) :=
  [ mk_esession None [ESimple false; EEncode (VList [VStr (bs "ab"); VStr (bs "ab"); VObj 0 7%N [VInt 5]]); EBytes];
    mk_esession (Some 0) [ESimple true; EEncode VBad; EGetError; EBytes];
    mk_esession (Some 0) [ESimple false; EWrite (VStr (bs "ab")); EReset; EEncode (VObj 0 7%N [VNil]); EBytes] ].

Lemma sample_sessions_lib : Forall (fun ss => forallb lib_eop (es_ops ss) = true) sample_sessions.
Proof. repeat constructor. Qed.

Lemma sample_sessions_obs :
  snd (c_esessions_run [] sample_sessions) =
  [ [OUnit; OFlushed None None; OBytes (bs "a3{s2""ab""r1;c2""CA""1{s1""a""}o0{5}}")];
    [OUnit; OFlushed (Some EUnsupported) None; OErr (Some EUnsupported); OBytes (bs "n")];
    [OUnit; OFlushed None None; OUnit; OFlushed None None; OBytes (bs "s2""ab""c2""CA""1{s1""a""}o0{n}")] ].
Proof. vm_compute. reflexivity. Qed.

(* ownership: a mode in which every primitive takes the fast (view) path *)
Definition all_fast (simple : bool) : omode := mk_omode simple (fun _ => true).

Lemma own_example :
  or_val (own_decode (all_fast false) 10 (TStruct [TString; TBytes; TIface; TSlice TString])
            (WObj [WStr; WStr; WList [WStr; WBytes; WChar]; WList [WStr; WRefTo 0]]) [] 0) =
  ONode [OLeaf Owned; OLeaf Owned; ONode [OLeaf Owned; OLeaf Owned; OLeaf Owned]; ONode [OLeaf Owned; OLeaf Owned]].
Proof. vm_compute. reflexivity. Qed.

(* ------------------------------------------------------------------------------------- *)
(* the tree as repaired ([all_fixed]): what holds now, without guards                     *)
(* ------------------------------------------------------------------------------------- *)
Lemma now_free_enc_fresh :
  forall (V RT CT ER WR : Type) (rt0 : RT) (ct0 : CT) (ser : bool -> bool -> RT -> CT -> V -> ser_res RT CT ER)
         (s : enc RT CT ER WR),
  enc_fresh_equiv V RT CT ER WR rt0 ct0 all_fixed ser (free_enc RT CT ER WR rt0 ct0 all_fixed s).
Proof. intros. apply free_enc_fresh_fixed; reflexivity. Qed.

Lemma now_free_enc_is_new :
  forall (RT CT ER WR : Type) (rt0 : RT) (ct0 : CT) (s : enc RT CT ER WR),
  free_enc RT CT ER WR rt0 ct0 all_fixed s = new_enc RT CT ER WR rt0 ct0.
Proof. intros. apply free_enc_fixed_is_new; reflexivity. Qed.

Lemma now_esessions_fresh :
  forall (V RT CT ER WR : Type) (rt0 : RT) (ct0 : CT) (ser : bool -> bool -> RT -> CT -> V -> ser_res RT CT ER)
         (l : list (esession V WR)) (p : epool RT CT ER WR),
  Forall (fun e => e = new_enc RT CT ER WR rt0 ct0) p ->
  Forall (fun e => e = new_enc RT CT ER WR rt0 ct0) (fst (esessions_run V RT CT ER WR rt0 ct0 all_fixed ser p l)) /\
  snd (esessions_run V RT CT ER WR rt0 ct0 all_fixed ser p l) =
    map (fun ss => snd (enc_run V RT CT ER WR rt0 ct0 all_fixed ser (new_enc RT CT ER WR rt0 ct0) (es_ops ss))) l.
Proof. intros. apply all_sessions_fresh_fixed; try reflexivity. assumption. Qed.

(* every decoder a program can hold comes from one of these *)
Inductive made_by_constructor {DR DC ER : Type} (dr0 : DR) (dc0 : DC) : dec DR DC ER -> Prop :=
| made_new : made_by_constructor dr0 dc0 (new_dec DR DC ER dr0 dc0)                                   (* the pool *)
| made_bytes input : made_by_constructor dr0 dc0 (new_decoder DR DC ER dr0 dc0 input)                 (* NewDecoder *)
| made_reader input : made_by_constructor dr0 dc0 (new_decoder_from_reader DR DC ER dr0 dc0 input).   (* NewDecoderFromReader *)

Lemma now_free_dec_fresh :
  forall (DT DV DR DC ER : Type) (dr0 : DR) (dc0 : DC)
         (des : bool -> dopts -> DR -> DC -> option ER -> list byte -> DT -> des_res DV DR DC ER)
         (s0 : dec DR DC ER) (ops : list (dop DT)),
  made_by_constructor dr0 dc0 s0 ->
  dec_fresh_equiv DT DV DR DC ER dr0 dc0 all_fixed des
    (free_dec DR DC ER dr0 dc0 all_fixed (fst (dec_run DT DV DR DC ER dr0 dc0 all_fixed des s0 ops))).
Proof.
  intros. apply free_dec_fresh_fixed; [reflexivity|].
  destruct H; [apply buf_inv_new_dec|apply buf_inv_new_decoder|apply buf_inv_new_decoder_from_reader].
Qed.

Lemma now_dsessions_fresh :
  forall (DT DV DR DC ER : Type) (dr0 : DR) (dc0 : DC)
         (des : bool -> dopts -> DR -> DC -> option ER -> list byte -> DT -> des_res DV DR DC ER)
         (l : list (dsession DT)) (p : dpool DR DC ER),
  Forall (fun e => dec_same e (new_dec DR DC ER dr0 dc0)) p ->
  Forall (fun e => dec_same e (new_dec DR DC ER dr0 dc0)) (fst (dsessions_run DT DV DR DC ER dr0 dc0 all_fixed des p l)) /\
  snd (dsessions_run DT DV DR DC ER dr0 dc0 all_fixed des p l) =
    map (fun ss => snd (dec_run DT DV DR DC ER dr0 dc0 all_fixed des (new_dec DR DC ER dr0 dc0) (dss_ops ss))) l.
Proof. intros. apply all_dsessions_fresh_fixed; [reflexivity|assumption]. Qed.

Lemma now_mode_switch_resets :
  forall (DR DC ER : Type) (dr0 : DR) (dc0 : DC) (b : bool) (s : dec DR DC ER),
  d_refer (dset_simple DR DC ER dr0 dc0 all_fixed b s) = dr0 /\ d_cls (dset_simple DR DC ER dr0 dc0 all_fixed b s) = dc0.
Proof. intros. apply dsimple_resets_fixed. reflexivity. Qed.

(* the histories that failed before the repairs, run through the repaired model *)
Notation f_enc_run := (enc_run val crefer ccls cerr N crefer0 ccls0 all_fixed cser).
Notation f_dec_run := (dec_run unit dval drefs unit cerr [] tt all_fixed cdes).

Lemma now_resetbuffer_delivers_all :
  snd (f_enc_run (c_new_encoder (Some 1%N))
         [EEncode (VStr (bs "hello")); EResetBuffer; EEncode (VStr (bs "world!"))]) =
  [OFlushed None (Some (1%N, bs "s5""hello""")); OUnit; OFlushed None (Some (1%N, bs "s6""world!"""))].
Proof. vm_compute. reflexivity. Qed.

Lemma now_pool_writer_gone :
  snd (f_enc_run (cv_free_enc all_fixed (fst (f_enc_run c_new_enc hist_writer)))
                 [ESimple true; EEncode (VStr (bs "secret-of-next-user")); EBytes]) =
  [OUnit; OFlushed None None; OBytes (bs "s19""secret-of-next-user""")].
Proof. vm_compute. reflexivity. Qed.

Lemma now_pool_dec_buffer_clean :
  snd (f_dec_run (cv_free_dec all_fixed (fst (f_dec_run c_new_dec dhist_buf)))
                 [DResetReader (bs "s19""secret-of-next-user"""); DDecode tt]) =
  [ODUnit; ODecoded (DStr (bs "secret-of-next-user")) None false].
Proof. vm_compute. reflexivity. Qed.

Lemma now_pool_dec_no_hang :
  snd (f_dec_run (cv_free_dec all_fixed (fst (f_dec_run c_new_dec dhist_hang))) [DResetReader (bs "i7;"); DDecode tt]) =
  [ODUnit; ODecoded (DInt 7) None false].
Proof. vm_compute. reflexivity. Qed.

Lemma now_simple_true_is_clean :
  snd (f_dec_run (fst (f_dec_run (c_new_decoder dinput1) dhist)) dnext) = [ODUnit; ODUnit; ODecoded DNil (Some EOther) false].
Proof. vm_compute. reflexivity. Qed.

(* ------------------------------------------------------------------------------------- *)
(* who holds a pooled object                                                             *)
(* ------------------------------------------------------------------------------------- *)
From Coq Require Import Permutation Arith.

Lemma existsb_eqb_In x l : existsb (Nat.eqb x) l = true <-> In x l.
Proof.
  rewrite existsb_exists. split.
  - intros (y & Hy & E). apply Nat.eqb_eq in E. subst. exact Hy.
  - intros H. exists x. split; [exact H|apply Nat.eqb_refl].
Qed.

Lemma nodupb_NoDup l : nodupb l = true <-> NoDup l.
Proof.
  induction l as [|x r IH]; cbn.
  - split; [constructor|reflexivity].
  - rewrite andb_true_iff, negb_true_iff, IH. split.
    + intros [H1 H2]. constructor; [|exact H2]. intros Hin. apply existsb_eqb_In in Hin. congruence.
    + intros H. inversion H; subst. split; [|assumption].
      destruct (existsb (Nat.eqb x) r) eqn:E; [|reflexivity]. apply existsb_eqb_In in E. contradiction.
Qed.

Lemma remove_nth_perm {A} : forall k (l : list A) x, nth_error l k = Some x -> Permutation l (x :: remove_nth k l).
Proof.
  induction k as [|k IH]; intros [|y r] x H; cbn in *; try discriminate.
  - inversion H; subst. apply Permutation_refl.
  - specialize (IH r x H). eapply perm_trans; [apply perm_skip; exact IH|apply perm_swap].
Qed.

Lemma remove_held_perm u x : forall l,
  existsb (fun p => Nat.eqb u (fst p) && Nat.eqb x (snd p)) l = true ->
  Permutation (map snd l) (x :: map snd (remove_held u x l)).
Proof.
  induction l as [|[u' x'] r IH]; cbn; [discriminate|].
  destruct (Nat.eqb u u' && Nat.eqb x x') eqn:E; cbn.
  - intros _. apply andb_prop in E as [_ E2]. apply Nat.eqb_eq in E2. subst. apply Permutation_refl.
  - intros H. specialize (IH H). eapply perm_trans; [apply perm_skip; exact IH|apply perm_swap].
Qed.

Definition oinv (st : ostate) : Prop := NoDup (objects st) /\ Forall (fun x => x < o_next st) (objects st).

Lemma oinv_init : oinv oinit.
Proof. split; constructor. Qed.

Lemma ostep_inv st o :
  oinv st -> match o with OFree u x => holds st u x = true | OGet _ _ => True end -> oinv (ostep st o).
Proof.
  intros [Hn Hb] Hd. unfold oinv, objects in *. destruct o as [u choice|u x]; cbn [ostep].
  - assert (Fresh : NoDup (o_pool st ++ map snd ((u, o_next st) :: o_held st)) /\
                    Forall (fun x => x < S (o_next st)) (o_pool st ++ map snd ((u, o_next st) :: o_held st))).
    { cbn [map snd]. split.
      - apply (proj2 (NoDup_Add (Add_app (o_next st) (o_pool st) (map snd (o_held st))))).
        split; [exact Hn|]. intros Hin. rewrite Forall_forall in Hb. specialize (Hb _ Hin). lia.
      - rewrite Forall_forall in *. intros y Hy. apply in_app_or in Hy as [Hy|[Hy|Hy]].
        + specialize (Hb y (in_or_app _ _ _ (or_introl Hy))). lia.
        + subst. lia.
        + specialize (Hb y (in_or_app _ _ _ (or_intror Hy))). lia. }
    destruct choice as [k|]; [|exact Fresh].
    destruct (nth_error (o_pool st) k) as [x|] eqn:E; [|exact Fresh].
    cbn [o_pool o_held o_next map snd].
    assert (P : Permutation (o_pool st ++ map snd (o_held st)) (remove_nth k (o_pool st) ++ x :: map snd (o_held st))).
    { eapply perm_trans; [apply Permutation_app_tail; apply (remove_nth_perm k _ x E)|]. cbn. apply Permutation_middle. }
    split; [eapply Permutation_NoDup; eassumption|eapply Permutation_Forall; eassumption].
  - cbn [o_pool o_held o_next].
    assert (P : Permutation (o_pool st ++ map snd (o_held st)) ((x :: o_pool st) ++ map snd (remove_held u x (o_held st)))).
    { cbn. eapply perm_trans; [apply Permutation_app_head; apply (remove_held_perm u x _ Hd)|].
      apply Permutation_sym. apply Permutation_middle. }
    split; [eapply Permutation_NoDup; eassumption|eapply Permutation_Forall; eassumption].
Qed.

Lemma orun_inv : forall ops st, oinv st -> disciplined st ops = true -> oinv (orun st ops).
Proof.
  induction ops as [|o r IH]; intros st Hi Hd; cbn [orun]; [exact Hi|].
  cbn [disciplined] in Hd. apply andb_prop in Hd as [H1 H2].
  apply IH; [|exact H2]. apply ostep_inv; [exact Hi|]. destruct o; [exact I|exact H1].
Qed.

(* every history of any number of users in which a user frees only what it holds (once: it stops
   holding it), for every choice of the pool: no object is ever in the pool twice, in the pool and
   held, or held by two users *)
Lemma disciplined_exclusive (ops : list oop) : disciplined oinit ops = true -> exclusive (orun oinit ops) = true.
Proof. intros H. apply nodupb_NoDup. exact (proj1 (orun_inv ops oinit oinv_init H)). Qed.

(* ... and every prefix of it: the invariant holds at every instant *)
Lemma disciplined_prefix : forall ops st a b, ops = a ++ b -> disciplined st ops = true -> disciplined st a = true.
Proof.
  induction ops as [|o r IH]; intros st a b E H.
  - destruct a; [reflexivity|discriminate].
  - destruct a as [|o' a']; [reflexivity|]. cbn in E. inversion E; subst. cbn [disciplined] in *.
    apply andb_prop in H as [H1 H2]. rewrite H1. cbn. eapply IH; [reflexivity|exact H2].
Qed.

(* one Free too many (a deferred Free plus an explicit one on the same path): user 1 frees object 0
   twice; the pool then gives object 0 to user 2 AND to user 3 *)
Definition double_free_history : list oop :=
  [OGet 1 None; OFree 1 0; OFree 1 0; OGet 2 (Some 0); OGet 3 (Some 0)].

Lemma double_free_breaks_exclusivity :
  disciplined oinit double_free_history = false /\
  o_held (orun oinit double_free_history) = [(3, 0); (2, 0)] /\
  exclusive (orun oinit double_free_history) = false.
Proof. repeat split; reflexivity. Qed.

(* a disciplined history with reuse, several users, interleaved: non-vacuity *)
Definition sample_owner_history : list oop :=
  [OGet 1 None; OGet 2 None; OFree 1 0; OGet 3 (Some 0); OFree 2 1; OFree 3 0; OGet 1 (Some 1); OGet 2 (Some 0)].
Lemma sample_owner_history_ok :
  disciplined oinit sample_owner_history = true /\ o_held (orun oinit sample_owner_history) = [(2, 0); (1, 1)].
Proof. split; reflexivity. Qed.
