(* Lemmas about Model/Pool.v (C14): state hygiene of pooled coders, ownership of decoded data. *)
From Coq Require Import List NArith ZArith Bool Strings.Byte Lia.
From HV Require Import Lib.Dec Model.Pool.
Import ListNotations.
Local Open Scope nat_scope.

(* ------------------------------------------------------------------------------------- *)
(* encoder                                                                               *)
(* ------------------------------------------------------------------------------------- *)
Section EncoderProofs.
Variables V RT CT ER WR : Type.
Variable rt0 : RT.
Variable ct0 : CT.
Variable ser : bool -> bool -> RT -> CT -> V -> ser_res RT CT ER.

Notation enc := (enc RT CT ER WR).
Notation new_enc := (new_enc RT CT ER WR rt0 ct0).
Notation enc_step := (enc_step V RT CT ER WR rt0 ct0 ser).
Notation enc_run := (enc_run V RT CT ER WR rt0 ct0 ser).
Notation free_enc := (free_enc RT CT ER WR rt0 ct0).
Notation enc_fresh_equiv := (enc_fresh_equiv V RT CT ER WR rt0 ct0 ser).
Notation eget := (eget RT CT ER WR rt0 ct0).
Notation esession_run := (esession_run V RT CT ER WR rt0 ct0 ser).
Notation esessions_run := (esessions_run V RT CT ER WR rt0 ct0 ser).

(* exactly what survives FreeEncoder: the offset and the writer, nothing else *)
Lemma free_enc_char (s : enc) :
  free_enc s = {| e_buf := []; e_off := e_off s; e_simple := false; e_refer := rt0; e_cls := ct0;
                  e_writer := e_writer s; e_err := None |}.
Proof. reflexivity. Qed.

Definition clean (s : enc) : Prop := e_off s = 0 /\ e_writer s = None.

Lemma free_enc_is_new (s : enc) : clean s -> free_enc s = new_enc.
Proof. intros [Ho Hw]. rewrite free_enc_char, Ho, Hw. reflexivity. Qed.

Lemma free_enc_fresh_partial (s : enc) : clean s -> enc_fresh_equiv (free_enc s).
Proof. intros H ops. rewrite (free_enc_is_new s H). reflexivity. Qed.

Lemma new_enc_clean : clean new_enc.
Proof. split; reflexivity. Qed.

Lemma flush_clean (s : enc) : clean s -> fst (flush s) = s.
Proof.
  intros [Ho Hw]. unfold flush. destruct (e_err s); [reflexivity|]. rewrite Hw. reflexivity.
Qed.

Lemma flush_clean_pres (s : enc) : clean s -> clean (fst (flush s)).
Proof. intros H. rewrite flush_clean; assumption. Qed.

Lemma lib_step_clean (s : enc) (o : eop V WR) :
  lib_eop o = true -> clean s -> clean (fst (enc_step s o)).
Proof.
  intros Hl Hc. destruct o; cbn [Pool.enc_step fst]; try discriminate;
    try apply flush_clean_pres; try exact Hc;
    destruct Hc as [Ho Hw]; split; cbn; assumption.
Qed.

Lemma lib_run_clean : forall (ops : list (eop V WR)) (s : enc),
  forallb lib_eop ops = true -> clean s -> clean (fst (enc_run s ops)).
Proof.
  induction ops as [|o r IH]; intros s Hl Hc; cbn [Pool.enc_run].
  - exact Hc.
  - cbn [forallb] in Hl. apply andb_prop in Hl as [Ho Hr].
    pose proof (lib_step_clean s o Ho Hc) as H1.
    destruct (enc_step s o) as [s1 ob] eqn:E1. cbn [fst] in H1.
    specialize (IH s1 Hr H1). destruct (enc_run s1 r) as [s2 obs]. exact IH.
Qed.

Lemma remove_nth_Forall {A} (P : A -> Prop) : forall n (l : list A), Forall P l -> Forall P (remove_nth n l).
Proof.
  induction n as [|n IH]; intros l H; destruct l as [|x r]; cbn; try constructor.
  - inversion H; assumption.
  - inversion H; assumption.
  - inversion H; subst. apply IH. assumption.
Qed.

Lemma eget_all_new (p : epool RT CT ER WR) (c : option nat) :
  Forall (fun e => e = new_enc) p ->
  fst (eget p c) = new_enc /\ Forall (fun e => e = new_enc) (snd (eget p c)).
Proof.
  intros H. unfold Pool.eget. destruct c as [k|]; [|split; [reflexivity|exact H]].
  destruct (nth_error p k) as [e|] eqn:E; cbn [fst snd].
  - split.
    + rewrite Forall_forall in H. apply H. eapply nth_error_In; eassumption.
    + apply remove_nth_Forall. exact H.
  - split; [reflexivity|exact H].
Qed.

(* every history of pooled uses in which no user assigns the exported Writer field: whatever
   encoder the pool hands out, each use observes exactly what it would observe on a new encoder *)
Lemma lib_sessions_fresh : forall (l : list (esession V WR)) (p : epool RT CT ER WR),
  Forall (fun e => e = new_enc) p ->
  Forall (fun ss => forallb lib_eop (es_ops ss) = true) l ->
  Forall (fun e => e = new_enc) (fst (esessions_run p l)) /\
  snd (esessions_run p l) = map (fun ss => snd (enc_run new_enc (es_ops ss))) l.
Proof.
  induction l as [|ss r IH]; intros p Hp Hl; cbn [Pool.esessions_run].
  - split; [exact Hp|reflexivity].
  - inversion Hl as [|? ? Hss Hr]; subst.
    unfold Pool.esession_run.
    destruct (eget_all_new p (es_choice ss) Hp) as [Hg Hrest].
    destruct (eget p (es_choice ss)) as [e p1]. cbn [fst snd] in Hg, Hrest. subst e.
    pose proof (lib_run_clean (es_ops ss) new_enc Hss new_enc_clean) as Hc.
    destruct (enc_run new_enc (es_ops ss)) as [e1 obs] eqn:E1. cbn [fst] in Hc.
    assert (Hp1 : Forall (fun e => e = new_enc) (free_enc e1 :: p1)).
    { constructor; [apply free_enc_is_new; exact Hc|exact Hrest]. }
    specialize (IH (free_enc e1 :: p1) Hp1 Hr).
    destruct (esessions_run (free_enc e1 :: p1) r) as [p2 all]. cbn [fst snd] in *.
    destruct IH as [IH1 IH2]. split; [exact IH1|]. cbn [map]. rewrite E1. cbn [snd]. f_equal. exact IH2.
Qed.

Lemma marshal_ops_lib simple (v : V) : forallb (@lib_eop V WR) (marshal_ops simple v) = true.
Proof. reflexivity. Qed.

End EncoderProofs.

(* ------------------------------------------------------------------------------------- *)
(* decoder                                                                               *)
(* ------------------------------------------------------------------------------------- *)
Section DecoderProofs.
Variables DT DV DR DC ER : Type.
Variable dr0 : DR.
Variable dc0 : DC.
Variable des : bool -> dopts -> DR -> DC -> option ER -> list byte -> DT -> des_res DV DR DC ER.

Notation dec := (dec DR DC ER).
Notation new_dec := (new_dec DR DC ER dr0 dc0).
Notation dec_step := (dec_step DT DV DR DC ER dr0 dc0 des).
Notation dec_run := (dec_run DT DV DR DC ER dr0 dc0 des).
Notation free_dec := (free_dec DR DC ER dr0 dc0).
Notation dec_fresh_equiv := (dec_fresh_equiv DT DV DR DC ER dr0 dc0 des).
Notation dget := (dget DR DC ER dr0 dc0).
Notation dsessions_run := (dsessions_run DT DV DR DC ER dr0 dc0 des).

(* FreeDecoder resets everything the operations can observe, whatever the decoder went through *)
Lemma free_dec_same_new (s : dec) : dec_same (free_dec s) new_dec.
Proof. unfold Pool.dec_same. cbn. repeat split; reflexivity. Qed.

Lemma dec_same_refl (s : dec) : dec_same s s.
Proof. unfold Pool.dec_same. repeat split; reflexivity. Qed.

Lemma dec_same_step (a b : dec) (o : dop DT) : dec_same a b ->
  snd (dec_step a o) = snd (dec_step b o) /\ dec_same (fst (dec_step a o)) (fst (dec_step b o)).
Proof.
  intros (Hi & Hf & Hs & Hr & Hc & He & Ho).
  destruct o; cbn [Pool.dec_step Pool.ddecode Pool.dreset Pool.dset_simple Pool.dreset_buffer fst snd];
    unfold Pool.dec_same; cbn; rewrite ?Hi, ?Hf, ?Hs, ?Hr, ?Hc, ?He, ?Ho; repeat split; reflexivity.
Qed.

Lemma dec_same_run : forall (ops : list (dop DT)) (a b : dec), dec_same a b ->
  snd (dec_run a ops) = snd (dec_run b ops) /\ dec_same (fst (dec_run a ops)) (fst (dec_run b ops)).
Proof.
  induction ops as [|o r IH]; intros a b H; cbn [Pool.dec_run].
  - split; [reflexivity|exact H].
  - destruct (dec_same_step a b o H) as [H1 H2].
    destruct (dec_step a o) as [a1 oa]. destruct (dec_step b o) as [b1 ob]. cbn [fst snd] in H1, H2.
    destruct (IH a1 b1 H2) as [H3 H4].
    destruct (dec_run a1 r) as [a2 la]. destruct (dec_run b1 r) as [b2 lb]. cbn [fst snd] in *.
    split; [congruence|exact H4].
Qed.

Lemma free_dec_fresh (s : dec) : dec_fresh_equiv (free_dec s).
Proof. intros ops. apply (dec_same_run ops _ _ (free_dec_same_new s)). Qed.

Lemma dget_all_same (p : dpool DR DC ER) (c : option nat) :
  Forall (fun e => dec_same e new_dec) p ->
  dec_same (fst (dget p c)) new_dec /\ Forall (fun e => dec_same e new_dec) (snd (dget p c)).
Proof.
  intros H. unfold Pool.dget. destruct c as [k|]; [|split; [apply dec_same_refl|exact H]].
  destruct (nth_error p k) as [e|] eqn:E; cbn [fst snd].
  - split.
    + rewrite Forall_forall in H. apply H. eapply nth_error_In; eassumption.
    + apply remove_nth_Forall. exact H.
  - split; [apply dec_same_refl|exact H].
Qed.

(* every history of pooled uses with ARBITRARY operations of the public API in each use
   (modes, options, failing inputs, explicit resets): each use observes what it would observe
   on a new decoder *)
Lemma sessions_fresh : forall (l : list (dsession DT)) (p : dpool DR DC ER),
  Forall (fun e => dec_same e new_dec) p ->
  Forall (fun e => dec_same e new_dec) (fst (dsessions_run p l)) /\
  snd (dsessions_run p l) = map (fun ss => snd (dec_run new_dec (dss_ops ss))) l.
Proof.
  induction l as [|ss r IH]; intros p Hp; cbn [Pool.dsessions_run].
  - split; [exact Hp|reflexivity].
  - unfold Pool.dsession_run.
    destruct (dget_all_same p (dss_choice ss) Hp) as [Hg Hrest].
    destruct (dget p (dss_choice ss)) as [d p1]. cbn [fst snd] in Hg, Hrest.
    destruct (dec_same_run (dss_ops ss) d new_dec Hg) as [Hobs _].
    destruct (dec_run d (dss_ops ss)) as [d1 obs] eqn:E1. cbn [snd] in Hobs.
    assert (Hp1 : Forall (fun e => dec_same e new_dec) (free_dec d1 :: p1)).
    { constructor; [apply free_dec_same_new|exact Hrest]. }
    specialize (IH (free_dec d1 :: p1) Hp1).
    destruct (dsessions_run (free_dec d1 :: p1) r) as [p2 all]. cbn [fst snd] in *.
    destruct IH as [IH1 IH2]. split; [exact IH1|]. cbn [map]. f_equal; assumption.
Qed.

(* the mode switch: Simple(false) always empties both tables; Simple(true) empties the class
   list but KEEPS the reference list *)
Lemma dsimple_false_resets (s : dec) :
  d_refer (dset_simple DR DC ER dr0 dc0 false s) = dr0 /\
  d_cls (dset_simple DR DC ER dr0 dc0 false s) = dc0.
Proof. split; reflexivity. Qed.

Lemma dsimple_true_keeps_refer (s : dec) :
  d_refer (dset_simple DR DC ER dr0 dc0 true s) = d_refer s.
Proof. reflexivity. Qed.

(* ... so a reused decoder switched with Simple(true) is as good as NewDecoder exactly when its
   reference list was empty; Reset() in reference mode (as the rpc codecs do before switching) suffices *)
Lemma dsimple_true_partial (s : dec) (input : list byte) :
  d_refer s = dr0 -> d_err s = None -> d_opts s = opts0 ->
  dec_same (fst (dec_step (dset_simple DR DC ER dr0 dc0 true s) (DResetBytes input)))
           (new_decoder DR DC ER dr0 dc0 input).
Proof.
  intros Hr He Ho. unfold Pool.dec_same. cbn. rewrite Hr, He, Ho. repeat split; reflexivity.
Qed.

Lemma dreset_then_simple_true (s : dec) :
  d_simple s = false ->
  d_refer (dset_simple DR DC ER dr0 dc0 true (dreset DR DC ER dr0 dc0 s)) = dr0.
Proof. intros H. cbn. rewrite H. reflexivity. Qed.

End DecoderProofs.

(* ------------------------------------------------------------------------------------- *)
(* ownership                                                                             *)
(* ------------------------------------------------------------------------------------- *)
Lemma copy_unless_safe_owned fast : copy_unless_safe fast = Owned.
Proof. destruct fast; reflexivity. Qed.

Lemma read_safe_string_owned fast : read_safe_string fast = Owned.
Proof. destruct fast; reflexivity. Qed.

Lemma read_unsafe_view : read_unsafe true = View.
Proof. reflexivity. Qed.

Lemma own_string_owned m i w v : own_string m i w = Some v -> all_owned v = true.
Proof.
  destruct w; cbn; intros H; inversion H; subst; cbn;
    rewrite ?copy_unless_safe_owned, ?read_safe_string_owned; reflexivity.
Qed.

Lemma own_bytes_owned m i w v : own_bytes m i w = Some v -> all_owned v = true.
Proof.
  destruct w; cbn; try destruct (om_simple m); intros H; inversion H; subst; cbn;
    rewrite ?copy_unless_safe_owned, ?read_safe_string_owned; reflexivity.
Qed.

Lemma own_iface_leaf_owned m i w v : own_iface_leaf m i w = Some v -> all_owned v = true.
Proof.
  destruct w; cbn; intros H; inversion H; subst; cbn;
    rewrite ?copy_unless_safe_owned, ?read_safe_string_owned; reflexivity.
Qed.

Definition refs_owned (refs : orefs) : Prop := forallb all_owned refs = true.

Lemma refs_owned_app refs v : refs_owned refs -> all_owned v = true -> refs_owned (refs ++ [v]).
Proof. unfold refs_owned. intros H1 H2. rewrite forallb_app, H1. cbn. rewrite H2. reflexivity. Qed.

Definition res_owned (r : ores) : Prop := all_owned (or_val r) = true /\ refs_owned (or_refs r).

Lemma own_seq_owned (rec : dty -> wtok -> orefs -> nat -> ores) :
  (forall ty w refs i, refs_owned refs -> res_owned (rec ty w refs i)) ->
  forall ws tys refs i, refs_owned refs ->
    let '(vs, refs', _) := own_seq rec tys ws refs i in
    forallb all_owned vs = true /\ refs_owned refs'.
Proof.
  intros Hrec. induction ws as [|w wr IH]; intros tys refs i Hr; cbn [own_seq].
  - split; [reflexivity|exact Hr].
  - destruct (Hrec (match tys with t :: _ => t | [] => TIface end) w refs i Hr) as [Hv Hrefs].
    specialize (IH (match tys with _ :: tr => tr | [] => [] end) _
                   (or_next (rec (match tys with t :: _ => t | [] => TIface end) w refs i)) Hrefs).
    destruct (own_seq rec (match tys with _ :: tr => tr | [] => [] end) wr
                (or_refs (rec (match tys with t :: _ => t | [] => TIface end) w refs i))
                (or_next (rec (match tys with t :: _ => t | [] => TIface end) w refs i))) as [[vs refs'] i'].
    destruct IH as [IH1 IH2]. split; [|exact IH2]. cbn [forallb]. rewrite Hv, IH1. reflexivity.
Qed.

Lemma leaf_owned m (refs : orefs) (i : nat) (o : option oval) (referable : bool) :
  refs_owned refs -> (forall v, o = Some v -> all_owned v = true) ->
  res_owned (match o with
             | Some v => mk_ores v (if referable && negb (om_simple m) then refs ++ [v] else refs) (S i)
             | None => mk_ores OPlain refs (S i)
             end).
Proof.
  intros Hr Ho. destruct o as [v|]; unfold res_owned; cbn [or_val or_refs].
  - specialize (Ho v eq_refl). split; [exact Ho|].
    destruct (referable && negb (om_simple m)); [apply refs_owned_app; assumption|exact Hr].
  - split; [reflexivity|exact Hr].
Qed.

Lemma node_owned m vs refs' i' :
  forallb all_owned vs = true -> refs_owned refs' ->
  res_owned (mk_ores (ONode vs) (if om_simple m then refs' else refs' ++ [ONode vs]) i').
Proof.
  intros Hv Hr. unfold res_owned; cbn [or_val or_refs]. split; [exact Hv|].
  destruct (om_simple m); [exact Hr|apply refs_owned_app; assumption].
Qed.

Lemma refs_owned_nth refs k v : refs_owned refs -> nth_error refs k = Some v -> all_owned v = true.
Proof.
  unfold refs_owned. intros H E. rewrite forallb_forall in H. apply H. eapply nth_error_In; eassumption.
Qed.

(* whatever the input, the destination type, the mode and the way the reads split the input:
   every string and []byte the decoder leaves in the result (and in its reference list) is Owned *)
Lemma own_decode_owned m : forall fuel ty w refs i,
  refs_owned refs -> res_owned (own_decode m fuel ty w refs i).
Proof.
  induction fuel as [|f IH]; intros ty w refs i Hr.
  - split; [reflexivity|exact Hr].
  - cbn [own_decode].
    assert (Hplain : res_owned (mk_ores OPlain refs (S i))) by (split; [reflexivity|exact Hr]).
    destruct w.
    all: try (destruct ty).
    all: try exact Hplain.
    all: try (apply leaf_owned;
              [exact Hr
              |intros v Hv; first [eapply own_string_owned; exact Hv | eapply own_bytes_owned; exact Hv | eapply own_iface_leaf_owned; exact Hv]]).
    all: try match goal with
         | |- res_owned (mk_ores (ONode [or_val (own_decode _ _ ?e ?ww _ _)]) _ _) =>
             let H1 := fresh in let H2 := fresh in
             destruct (IH e ww refs i Hr) as [H1 H2];
             split; cbn [or_val or_refs all_owned forallb]; [rewrite H1; reflexivity|exact H2]
         end.
    all: try match goal with
         | |- context [own_seq (own_decode ?mm ?ff) ?t ?w ?rf ?ii] =>
             let H := fresh "Hs" in
             pose proof (own_seq_owned (own_decode mm ff) IH w t rf ii Hr) as H;
             destruct (own_seq (own_decode mm ff) t w rf ii) as [[? ?] ?]; destruct H as [? ?];
             apply node_owned; assumption
         end.
    (* WRefTo *)
    all: match goal with
         | |- context [nth_error ?rr ?k] =>
             destruct (nth_error rr k) as [v|] eqn:E; [|exact Hplain];
             pose proof (refs_owned_nth refs k v Hr E) as Hv;
             first [exact Hplain | split; [exact Hv|exact Hr]]
         end.
Qed.

(* the documented-unsafe entry points do return views; their safe counterparts never do *)
Lemma view_api_is_view a : view_api_own a true = View.
Proof. destruct a; reflexivity. Qed.

Lemma safe_api_is_owned a fast : safe_api_own a fast = Owned.
Proof. destruct a, fast; reflexivity. Qed.

(* ------------------------------------------------------------------------------------- *)
(* concrete witnesses (the byte-exact small codec of Model/Pool.v part 4)                *)
(* ------------------------------------------------------------------------------------- *)
From Coq Require Import String.
Definition bs (s : string) : bytes := list_byte_of_string s.

Notation c_fresh_equiv := (enc_fresh_equiv val crefer ccls cerr N crefer0 ccls0 cser).

(* pooled path: a user sets the exported Writer on a pooled encoder; after FreeEncoder the next
   user of that encoder sends the tail of ITS data to the previous user's writer *)
Definition hist_writer : list (eop val N) := [ESetWriter (Some 1%N); EEncode (VStr (bs "hello"))].

Lemma pool_writer_refuted : ~ c_fresh_equiv (c_free_enc (fst (c_enc_run c_new_enc hist_writer))).
Proof. intros H. specialize (H [EEncode (VStr (bs "secret-of-next-user"))]). vm_compute in H. discriminate. Qed.

Lemma pool_writer_leak :
  snd (c_enc_run (c_free_enc (fst (c_enc_run c_new_enc hist_writer)))
                 [ESimple true; EEncode (VStr (bs "secret-of-next-user")); EBytes]) =
  [OUnit; OFlushed None (Some (1%N, bs "t-of-next-user""")); OBytes (bs "s19""secret-of-next-user""")].
Proof. vm_compute. reflexivity. Qed.

(* the offset alone survives too (writer removed before Free): the next user who sets a writer
   loses the first bytes *)
Definition hist_off : list (eop val N) :=
  [ESetWriter (Some 1%N); EEncode (VStr (bs "hello")); ESetWriter None].

Lemma pool_off_refuted : ~ c_fresh_equiv (c_free_enc (fst (c_enc_run c_new_enc hist_off))).
Proof.
  intros H. specialize (H [ESetWriter (Some 2%N); EEncode (VStr (bs "world!"))]). vm_compute in H. discriminate.
Qed.

(* public Reset API, no pool: NewEncoder(w); Encode(a); ResetBuffer(); Encode(b) *)
Lemma resetbuffer_stray_byte :
  snd (c_enc_run (c_new_encoder (Some 1%N))
         [EEncode (VStr (bs "hello")); EResetBuffer; EEncode (VStr (bs "world!"))]) =
  [OFlushed None (Some (1%N, bs "s5""hello""")); OUnit; OFlushed None (Some (1%N, bs """"))].
Proof. vm_compute. reflexivity. Qed.

(* the histories of the two refutations violate the guard, library histories do not *)
Lemma hist_writer_not_clean : e_writer (fst (c_enc_run c_new_enc hist_writer)) = Some 1%N.
Proof. reflexivity. Qed.
Lemma hist_off_not_clean : e_off (fst (c_enc_run c_new_enc hist_off)) = 9.
Proof. vm_compute. reflexivity. Qed.

(* decoder: Simple(true) on a decoder that was used in reference mode keeps the reference list,
   and ReadReference reads it without looking at the mode *)
Definition dhist : list (dop unit) := [DSimple false; DDecode tt].
Definition dinput1 : bytes := bs "a2{s5""hello""r1;}".
Definition dnext : list (dop unit) := [DSimple true; DResetBytes (bs "r1;"); DDecode tt].

Lemma dec_simple_true_refuted :
  snd (c_dec_run (fst (c_dec_run (c_new_decoder dinput1) dhist)) dnext) =
    [ODUnit; ODUnit; ODecoded (DStr (bs "hello")) None] /\
  snd (c_dec_run (c_new_decoder []) dnext) = [ODUnit; ODUnit; ODecoded DPanic None].
Proof. split; vm_compute; reflexivity. Qed.

(* non-vacuity of the pool theorems: a history with modes, failing value, explicit resets *)
Definition sample_sessions : list (esession val N) :=
  [ mk_esession None [ESimple false; EEncode (VList [VStr (bs "ab"); VStr (bs "ab"); VObj 0 7%N [VInt 5]]); EBytes];
    mk_esession (Some 0) [ESimple true; EEncode VBad; EGetError; EBytes];
    mk_esession (Some 0) [ESimple false; EWrite (VStr (bs "ab")); EReset; EEncode (VObj 0 7%N [VNil]); EBytes] ].

Lemma sample_sessions_lib : Forall (fun ss => forallb lib_eop (es_ops ss) = true) sample_sessions.
Proof. repeat constructor. Qed.

Lemma sample_sessions_obs :
  snd (c_esessions_run [] sample_sessions) =
  [ [OUnit; OFlushed None None; OBytes (bs "a3{s2""ab""r1;c2""CA""1{s1""a""}o0{5}}")];
    [OUnit; OFlushed (Some EUnsupported) None; OErr (Some EUnsupported); OBytes (bs "n")];
    [OUnit; OFlushed None None; OUnit; OFlushed None None; OBytes (bs "s2""ab""c2""CA""1{s1""a""}o0{n}")] ].
Proof. vm_compute. reflexivity. Qed.

(* ownership: a mode in which every primitive takes the fast (view) path *)
Definition all_fast (simple : bool) : omode := mk_omode simple (fun _ => true).

Lemma own_example :
  or_val (own_decode (all_fast false) 10 (TStruct [TString; TBytes; TIface; TSlice TString])
            (WObj [WStr; WStr; WList [WStr; WBytes; WChar]; WList [WStr; WRefTo 0]]) [] 0) =
  ONode [OLeaf Owned; OLeaf Owned; ONode [OLeaf Owned; OLeaf Owned; OLeaf Owned]; ONode [OLeaf Owned; OLeaf Owned]].
Proof. vm_compute. reflexivity. Qed.
