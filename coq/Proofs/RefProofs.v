(* Reference mode of the encoder model: every back-reference written by [Enc.enc] resolves,
   in the stream semantics [WireSem.denote], to the very item the encoder meant, and the
   whole stream denotes the value ([Abs.abs]).  Simulation between the encoder state
   (pointer table, string table, counters, class table), the reader state (reference
   list, class list, depth) and the state of the specification (open / completed
   pointers, depth). *)
From Coq Require Import List Arith NArith ZArith Lia Strings.Byte Bool.
From Coq Require Import ZifyN ZifyNat ZifyBool.
From HV Require Import Lib.Dec Lib.Utf8 Model.Wire Model.WireSem Model.Enc Model.Abs
                       Proofs.WireProofs Proofs.EncProofs.
Import ListNotations.
Open Scope Z_scope.

Ltac conj_split := repeat match goal with |- _ /\ _ => split end.

(* ---- lists -------------------------------------------------------------------------------- *)

Lemma nth_error_app_some {A} (l ex : list A) k x : nth_error l k = Some x -> nth_error (l ++ ex) k = Some x.
Proof.
  intros H. rewrite nth_error_app1; [exact H|]. apply nth_error_Some. rewrite H. discriminate.
Qed.

Lemma nth_error_some_lt {A} (l : list A) k x : nth_error l k = Some x -> (k < length l)%nat.
Proof. intros H. apply nth_error_Some. rewrite H. discriminate. Qed.

Lemma nth_error_mid {A} (l r : list A) x : nth_error (l ++ x :: r) (length l) = Some x.
Proof. rewrite nth_error_app2 by lia. rewrite Nat.sub_diag. reflexivity. Qed.

Lemma nth_error_mid_other {A} (l r : list A) x x' k : k <> length l ->
  nth_error (l ++ x :: r) k = nth_error (l ++ x' :: r) k.
Proof.
  intros Hk. destruct (Nat.lt_ge_cases k (length l)) as [Hlt|Hge].
  - rewrite !nth_error_app1 by exact Hlt. reflexivity.
  - rewrite !nth_error_app2 by exact Hge.
    destruct (k - length l)%nat as [|m] eqn:E; [lia|]. reflexivity.
Qed.

Lemma set_nth_mid {A} (l r : list A) x x' : set_nth (length l) x' (l ++ x :: r) = l ++ x' :: r.
Proof. induction l as [|y l IH]; cbn [length app set_nth]; [reflexivity|]. rewrite IH. reflexivity. Qed.

(* ---- byte-string equality ------------------------------------------------------------------ *)

Lemma bytes_eqb_refl b : bytes_eqb b b = true.
Proof.
  induction b as [|x b IH]; [reflexivity|]. cbn [bytes_eqb]. rewrite IH, andb_true_r.
  apply Byte.byte_dec_lb. reflexivity.
Qed.

Lemma bytes_eqb_eq a : forall b, bytes_eqb a b = true -> a = b.
Proof.
  induction a as [|x a IH]; intros [|y b]; cbn [bytes_eqb]; intros H; try discriminate; [reflexivity|].
  apply andb_prop in H as [H1 H2]. apply Byte.byte_dec_bl in H1. rewrite (IH b H2), H1. reflexivity.
Qed.

Fixpoint fields_eqb (a b : list bytes) : bool :=
  match a, b with
  | [], [] => true
  | x :: a', y :: b' => bytes_eqb x y && fields_eqb a' b'
  | _, _ => false
  end.

Lemma fields_eqb_eq a : forall b, fields_eqb a b = true -> a = b.
Proof.
  induction a as [|x a IH]; intros [|y b]; cbn [fields_eqb]; intros H; try discriminate; [reflexivity|].
  apply andb_prop in H as [H1 H2]. rewrite (bytes_eqb_eq _ _ H1), (IH b H2). reflexivity.
Qed.

Lemma fields_eqb_refl a : fields_eqb a a = true.
Proof. induction a as [|x a IH]; [reflexivity|]. cbn [fields_eqb]. rewrite bytes_eqb_refl, IH. reflexivity. Qed.

(* ---- the stream semantics: fuel, frame ------------------------------------------------------ *)

Lemma denote_list_mono (p q : rstate -> wire -> option (dval * rstate)) :
  (forall st w r, p st w = Some r -> q st w = Some r) ->
  forall ws st r, denote_list p st ws = Some r -> denote_list q st ws = Some r.
Proof.
  intros Hpq. induction ws as [|w ws IH]; intros st r H; cbn [denote_list] in H |- *; [exact H|].
  destruct (p st w) as [[v st1]|] eqn:E; [|discriminate]. rewrite (Hpq _ _ _ E).
  destruct (denote_list p st1 ws) as [[vs st2]|] eqn:E2; [|discriminate].
  rewrite (IH _ _ E2). exact H.
Qed.

Lemma denote_mono : forall f st w r, denote f st w = Some r ->
  forall f', (f <= f')%nat -> denote f' st w = Some r.
Proof.
  induction f as [|f IH]; intros st w r H f' Hle; [discriminate|].
  destruct f' as [|f']; [lia|].
  assert (IH' : forall st w r, denote f st w = Some r -> denote f' st w = Some r)
    by (intros; eapply IH; eauto; lia).
  pose proof (denote_list_mono _ _ IH') as IHl.
  destruct w; cbn [denote] in H |- *; try exact H.
  - destruct (open_container st) as [st1 idx].
    destruct (denote_list (denote f) st1 ws) as [[vs st2]|] eqn:E; [|discriminate].
    rewrite (IHl _ _ _ E). exact H.
  - destruct (Nat.even (length kvs)); [|discriminate].
    destruct (open_container st) as [st1 idx].
    destruct (denote_list (denote f) st1 kvs) as [[vs st2]|] eqn:E; [|discriminate].
    rewrite (IHl _ _ _ E). exact H.
  - apply IH'. exact H.
  - destruct (nth_error (classes st) (N.to_nat cls)) as [[name fields]|]; [|discriminate].
    destruct (Nat.eqb (length fields) (length ws)); [|discriminate].
    destruct (open_container st) as [st1 idx].
    destruct (denote_list (denote f) st1 ws) as [[vs st2]|] eqn:E; [|discriminate].
    rewrite (IHl _ _ _ E). exact H.
  - destruct (denote f st w) as [[v st1]|] eqn:E; [|discriminate].
    rewrite (IH' _ _ _ E). exact H.
Qed.

Lemma denote_list_fuel f : forall ws st r, denote_list (denote f) st ws = Some r ->
  (forall st w r, denote f st w = Some r -> denote (wsize w) st w = Some r) ->
  forall n, (list_size ws <= n)%nat -> denote_list (denote n) st ws = Some r.
Proof.
  induction ws as [|w ws IH]; intros st r H Hw n Hn; cbn [denote_list] in H |- *; [exact H|].
  cbn [list_size fold_right] in Hn. fold (list_size ws) in Hn.
  destruct (denote f st w) as [[v st1]|] eqn:E; [|discriminate].
  rewrite (denote_mono _ _ _ _ (Hw _ _ _ E) n) by lia.
  destruct (denote_list (denote f) st1 ws) as [[vs st2]|] eqn:E2; [|discriminate].
  rewrite (IH _ _ E2 Hw n) by lia. exact H.
Qed.

(* the fuel [wsize w] used by [denote_top] suffices whenever any fuel does *)
Lemma denote_wsize : forall f st w r, denote f st w = Some r -> denote (wsize w) st w = Some r.
Proof.
  induction f as [|f IH]; intros st w r H; [discriminate|].
  destruct w; cbn [wsize]; try exact H; cbn [denote] in H |- *.
  - destruct (open_container st) as [st1 idx].
    destruct (denote_list (denote f) st1 ws) as [[vs st2]|] eqn:E; [|discriminate].
    erewrite denote_list_fuel; [| exact E | exact IH | apply le_n]; exact H.
  - destruct (Nat.even (length kvs)); [|discriminate].
    destruct (open_container st) as [st1 idx].
    destruct (denote_list (denote f) st1 kvs) as [[vs st2]|] eqn:E; [|discriminate].
    erewrite denote_list_fuel; [| exact E | exact IH | apply le_n]; exact H.
  - apply IH. exact H.
  - destruct (nth_error (classes st) (N.to_nat cls)) as [[name fields]|]; [|discriminate].
    destruct (Nat.eqb (length fields) (length ws)); [|discriminate].
    destruct (open_container st) as [st1 idx].
    destruct (denote_list (denote f) st1 ws) as [[vs st2]|] eqn:E; [|discriminate].
    erewrite denote_list_fuel; [| exact E | exact IH | apply le_n]; exact H.
  - destruct (denote f st w) as [[v st1]|] eqn:E; [|discriminate].
    rewrite (IH _ _ _ E). exact H.
Qed.

(* the reader only ever appends to its tables; a whole item leaves the depth unchanged *)
Definition frame (st st' : rstate) : Prop :=
  (exists ex, refs st' = refs st ++ ex) /\ (exists cx, classes st' = classes st ++ cx) /\
  depth st' = depth st.

Lemma frame_refl st : frame st st.
Proof. repeat split; try (exists []; rewrite app_nil_r; reflexivity). Qed.

Lemma frame_trans a b c : frame a b -> frame b c -> frame a c.
Proof.
  intros ([e1 H1] & [c1 H2] & H3) ([e2 H4] & [c2 H5] & H6). repeat split.
  - exists (e1 ++ e2). rewrite H4, H1, app_assoc. reflexivity.
  - exists (c1 ++ c2). rewrite H5, H2, app_assoc. reflexivity.
  - congruence.
Qed.

Lemma frame_push st e : frame st (push st e).
Proof. repeat split; [exists [e]; reflexivity | exists []; cbn; rewrite app_nil_r; reflexivity]. Qed.

Lemma fold_push_fields fields : forall st,
  fold_left (fun s fld => push s (RDone (DStr fld))) fields st =
  {| refs := refs st ++ map (fun fld => RDone (DStr fld)) fields; classes := classes st; depth := depth st |}.
Proof.
  induction fields as [|x fields IH]; intros st; cbn [fold_left map].
  - rewrite app_nil_r. destruct st; reflexivity.
  - rewrite IH. cbn [push refs classes depth]. rewrite <- app_assoc. reflexivity.
Qed.

(* closing the container opened at [st]: its slot goes from open to done, nothing else moves *)
Lemma close_refs st st2 v : frame (fst (open_container st)) st2 ->
  exists ex, refs st2 = refs st ++ ROpen (depth st) :: ex /\
             refs (close_container st2 (length (refs st)) v) = refs st ++ RDone v :: ex /\
             depth (close_container st2 (length (refs st)) v) = depth st /\
             classes (close_container st2 (length (refs st)) v) = classes st2.
Proof.
  intros ([ex Hex] & _ & Hd). cbn [open_container fst refs depth] in Hex, Hd.
  exists ex. rewrite <- app_assoc in Hex. cbn [app] in Hex.
  split; [exact Hex|]. unfold close_container. cbn [refs depth classes].
  rewrite Hex, set_nth_mid, Hd. repeat split.
Qed.

Lemma frame_close st st2 v : frame (fst (open_container st)) st2 ->
  frame st (close_container st2 (length (refs st)) v).
Proof.
  intros Hf. destruct (close_refs st st2 v Hf) as (ex & _ & H2 & H3 & H4).
  destruct Hf as (_ & [cx Hcx] & _). cbn [open_container fst classes] in Hcx.
  repeat split; [exists (RDone v :: ex); exact H2 | exists cx; rewrite H4; exact Hcx | exact H3].
Qed.

Lemma denote_list_frame (p : rstate -> wire -> option (dval * rstate)) :
  (forall st w d st', p st w = Some (d, st') -> frame st st') ->
  forall ws st ds st', denote_list p st ws = Some (ds, st') -> frame st st'.
Proof.
  intros Hp. induction ws as [|w ws IH]; intros st ds st' H; cbn [denote_list] in H.
  - inversion H; subst. apply frame_refl.
  - destruct (p st w) as [[v st1]|] eqn:E; [|discriminate].
    destruct (denote_list p st1 ws) as [[vs st2]|] eqn:E2; [|discriminate].
    inversion H; subst. eapply frame_trans; [eapply Hp; eauto | eapply IH; eauto].
Qed.

Lemma denote_frame : forall f st w d st', denote f st w = Some (d, st') -> frame st st'.
Proof.
  induction f as [|f IH]; intros st w d st' H; [discriminate|].
  pose proof (denote_list_frame _ IH) as IHl.
  destruct w; cbn [denote] in H;
    try (inversion H; subst; first [apply frame_refl | apply frame_push]).
  - destruct (open_container st) as [st1 idx] eqn:Eo.
    destruct (denote_list (denote f) st1 ws) as [[vs st2]|] eqn:E; [|discriminate].
    inversion H; subst. unfold open_container in Eo. inversion Eo; subst.
    apply frame_close. eapply IHl. exact E.
  - destruct (Nat.even (length kvs)); [|discriminate].
    destruct (open_container st) as [st1 idx] eqn:Eo.
    destruct (denote_list (denote f) st1 kvs) as [[vs st2]|] eqn:E; [|discriminate].
    inversion H; subst. unfold open_container in Eo. inversion Eo; subst.
    apply frame_close. eapply IHl. exact E.
  - apply IH in H. rewrite fold_push_fields in H.
    destruct H as ([ex Hex] & [cx Hcx] & Hd). cbn [refs classes depth] in Hex, Hcx, Hd.
    repeat split.
    + eexists. rewrite Hex, <- app_assoc. reflexivity.
    + eexists. rewrite Hcx, <- app_assoc. reflexivity.
    + exact Hd.
  - destruct (nth_error (classes st) (N.to_nat cls)) as [[name fields]|]; [|discriminate].
    destruct (Nat.eqb (length fields) (length ws)); [|discriminate].
    destruct (open_container st) as [st1 idx] eqn:Eo.
    destruct (denote_list (denote f) st1 ws) as [[vs st2]|] eqn:E; [|discriminate].
    inversion H; subst. unfold open_container in Eo. inversion Eo; subst.
    apply frame_close. eapply IHl. exact E.
  - destruct (nth_error (refs st) (N.to_nat k)) as [[v|dd]|]; inversion H; subst; apply frame_refl.
  - destruct (denote f st w) as [[v st1]|] eqn:E; [|discriminate].
    inversion H; subst. eapply IH. exact E.
Qed.

(* ---- scalar tokens --------------------------------------------------------------------------- *)

(* unsigned 8/16-bit kinds carry non-negative values (WriteUint16 has no sign test) *)
Definition int_ok (k : ikind) (z : Z) : bool :=
  match k with KUint8 | KUint16 => 0 <=? z | _ => true end.

Lemma enc_int_den k z st : int_ok k z = true -> denote 1 st (enc_int k z) = Some (DInt z, st).
Proof.
  assert (A : forall z, denote 1 st (w_int32 z) = Some (DInt z, st)).
  { intros z0. unfold w_int32. destruct ((0 <=? z0) && (z0 <=? 9)) eqn:E; cbn [denote]; [|reflexivity].
    rewrite Z2N.id by lia. reflexivity. }
  assert (B : forall z, 0 <= z -> denote 1 st (w_uint16 z) = Some (DInt z, st)).
  { intros z0 Hz. unfold w_uint16. destruct (z0 <=? 9); cbn [denote]; [|reflexivity].
    rewrite Z2N.id by lia. reflexivity. }
  destruct k; cbn [enc_int int_ok]; intros Hk; try apply A; try reflexivity; try (apply B; lia).
  - destruct (_ || _); [reflexivity|apply A].
  - destruct (_ >? _); [reflexivity|apply A].
  - destruct (_ >? _); [reflexivity|apply A].
Qed.

Lemma enc_float_den f st : denote 1 st (enc_float f) = Some (abs_float f, st).
Proof. destruct f; reflexivity. Qed.

Lemma string_wire_den s st :
  denote 1 st (string_wire s) = Some (abs_string s, push st (RDone (abs_string s))).
Proof. unfold string_wire, abs_string. destruct (go_utf16Length s <? 0); reflexivity. Qed.

Lemma utf16_zero s : go_utf16Length s = 0 -> s = [].
Proof.
  rewrite go_utf16Length_spec. destruct (str_chars s) as [cs|] eqn:E; [|lia]. intros Hu.
  destruct (chars_sound _ _ _ E) as [Hv Hc].
  destruct cs as [|c cs]; [symmetry; exact Hc|].
  pose proof (units_pos (c :: cs) Hv ltac:(discriminate)). lia.
Qed.

Lemma abs_gstring s : (if (length s =? 0)%nat then DStr [] else abs_string s) = abs_string s.
Proof. destruct s; reflexivity. Qed.

Lemma enc_time_den y mo d h mi s ns utc w : enc_time y mo d h mi s ns utc = Some w ->
  exists dv, abs_time y mo d h mi s ns utc = Some dv /\
             forall st, denote 1 st w = Some (dv, push st (RDone dv)).
Proof.
  intros E. unfold abs_time. rewrite E. unfold enc_time in E.
  destruct ((h =? 0) && (mi =? 0) && (s =? 0) && (ns =? 0)).
  - destruct (date_in_range y mo d); [|discriminate]. inversion E; subst.
    eexists; split; [reflexivity|]. intros; reflexivity.
  - destruct ((y =? 1970) && (mo =? 1) && (d =? 1)).
    + inversion E; subst. eexists; split; [reflexivity|]. intros; reflexivity.
    + destruct (date_in_range y mo d); [|discriminate]. inversion E; subst.
      eexists; split; [reflexivity|]. intros; reflexivity.
Qed.

Definition rowd (r : option bytes) : dval := match r with Some b => DBytes b | None => DNull end.
Definition row_refs (rows : list (option bytes)) : list refentry :=
  flat_map (fun r => match r with Some b => [RDone (DBytes b)] | None => [] end) rows.

Lemma rows_den f : forall rows st,
  denote_list (denote (S f)) st (map bytes_row rows) =
  Some (map rowd rows, {| refs := refs st ++ row_refs rows; classes := classes st; depth := depth st |}).
Proof.
  induction rows as [|[b|] rows IH]; intros st; cbn [map denote_list row_refs flat_map app].
  - rewrite app_nil_r. destruct st; reflexivity.
  - cbn [bytes_row denote]. rewrite IH. cbn [push refs classes depth rowd].
    rewrite <- app_assoc. reflexivity.
  - cbn [bytes_row denote]. rewrite IH. reflexivity.
Qed.

Lemma rows_count simple : forall rows st,
  let st' := fold_left (fun s row => match row with Some _ => add_count simple s 1 | None => s end) rows st in
  prefs st' = prefs st /\ srefs st' = srefs st /\ cls st' = cls st /\ clast st' = clast st /\
  (simple = false -> rlast st' = (rlast st + N.of_nat (length (row_refs rows)))%N).
Proof.
  induction rows as [|[b|] rows IH]; intros st; cbn [fold_left row_refs flat_map app length].
  - repeat split. intros _. lia.
  - destruct (IH (add_count simple st 1)) as (H1 & H2 & H3 & H4 & H5).
    unfold add_count in *. destruct simple; cbn [prefs srefs cls clast rlast] in *.
    + repeat split; auto. discriminate.
    + repeat split; auto. intros _. rewrite H5 by reflexivity. fold (row_refs rows). lia.
  - apply IH.
Qed.

(* ---- the simulation ------------------------------------------------------------------------- *)

Section Sim.
(* the field list each struct type name stands for *)
Variable sg : bytes -> list bytes.

Fixpoint gwf (v : gval) : bool :=
  match v with
  | GInt k z => int_ok k z
  | GSlice vs | GList vs | GMap vs | GAnon _ vs => forallb gwf vs
  | GStruct name fields vs =>
      fields_eqb fields (sg name) && (length fields =? length vs)%nat && forallb gwf vs
  | _ => true
  end.

Definition heap_wf (hp : heap) : bool := forallb (fun av => gwf (snd av)) hp.

Lemma hlookup_wf hp a v : heap_wf hp = true -> hlookup hp a = Some v -> gwf v = true.
Proof.
  unfold heap_wf. induction hp as [|[a' v'] hp IH]; cbn [forallb hlookup snd]; [discriminate|].
  intros H. apply andb_prop in H. destruct H as [Hv Hr].
  destruct (N.eqb a a'); [intros E; inversion E; subst; exact Hv | apply IH; exact Hr].
Qed.

Definition ptr_rel (est : estate) (rst : rstate) (ast : astate) (a : N) : Prop :=
  match find_ptr (prefs est) a with
  | Some k =>
      match find_open (aopen ast) a with
      | Some d => nth_error (refs rst) (N.to_nat k) = Some (ROpen d)
      | None => exists dv, find_done (adone ast) a = Some dv /\
                           nth_error (refs rst) (N.to_nat k) = Some (RDone dv)
      end
  | None => find_open (aopen ast) a = None /\ find_done (adone ast) a = None
  end.

Record Inv (est : estate) (rst : rstate) (ast : astate) : Prop := {
  inv_rlast : rlast est = N.of_nat (length (refs rst));
  inv_clast : clast est = N.of_nat (length (classes rst));
  inv_cls : forall name k, find_str (cls est) name = Some k ->
            nth_error (classes rst) (N.to_nat k) = Some (name, sg name);
  inv_str : forall s k, find_str (srefs est) s = Some k ->
            nth_error (refs rst) (N.to_nat k) = Some (RDone (abs_string s));
  inv_ptr : forall a, ptr_rel est rst ast a;
  inv_depth : depth rst = adepth ast
}.

Definition pmono (e e' : estate) : Prop :=
  forall a k, find_ptr (prefs e) a = Some k -> find_ptr (prefs e') a = Some k.

Lemma pmono_refl e : pmono e e. Proof. intros a k H; exact H. Qed.
Lemma pmono_trans a b c : pmono a b -> pmono b c -> pmono a c.
Proof. intros H1 H2 x k H. apply H2, H1, H. Qed.
Lemma pmono_eq e e' : prefs e' = prefs e -> pmono e e'.
Proof. intros E a k H. rewrite E. exact H. Qed.

Lemma ptr_rel_ext est rst ast est' rst' ast' ex a :
  ptr_rel est rst ast a ->
  find_ptr (prefs est') a = find_ptr (prefs est) a ->
  find_open (aopen ast') a = find_open (aopen ast) a ->
  find_done (adone ast') a = find_done (adone ast) a ->
  refs rst' = refs rst ++ ex -> ptr_rel est' rst' ast' a.
Proof.
  unfold ptr_rel. intros H Ep Eo Ed Er. rewrite Ep, Eo, Ed, Er.
  destruct (find_ptr (prefs est) a) as [k|]; [|exact H].
  destruct (find_open (aopen ast) a) as [d|].
  - apply nth_error_app_some. exact H.
  - destruct H as (dv & Hdv & Hn). exists dv. split; [exact Hdv|]. apply nth_error_app_some; exact Hn.
Qed.

Lemma Inv_ext est rst ast est' rst' ex :
  Inv est rst ast ->
  prefs est' = prefs est -> refs rst' = refs rst ++ ex ->
  rlast est' = N.of_nat (length (refs rst')) -> depth rst' = depth rst ->
  (forall s k, find_str (srefs est') s = Some k ->
     find_str (srefs est) s = Some k \/ nth_error (refs rst') (N.to_nat k) = Some (RDone (abs_string s))) ->
  clast est' = N.of_nat (length (classes rst')) ->
  (forall name k, find_str (cls est') name = Some k ->
     nth_error (classes rst') (N.to_nat k) = Some (name, sg name)) ->
  Inv est' rst' ast.
Proof.
  intros [H1 H2 H3 H4 H5 H6] Ep Er Hl Hd Hs Hc Hcl. constructor; auto.
  - intros s k Hf. destruct (Hs s k Hf) as [Ho|Hn]; [|exact Hn].
    rewrite Er. apply nth_error_app_some. apply H4. exact Ho.
  - intros a. eapply ptr_rel_ext; [apply H5 | rewrite Ep; reflexivity | reflexivity | reflexivity | exact Er].
  - rewrite Hd. exact H6.
Qed.

(* same tables, more (completed) reference slots *)
Lemma Inv_grow est rst ast est' rst' ex :
  Inv est rst ast ->
  prefs est' = prefs est -> srefs est' = srefs est -> cls est' = cls est -> clast est' = clast est ->
  refs rst' = refs rst ++ ex -> classes rst' = classes rst -> depth rst' = depth rst ->
  rlast est' = N.of_nat (length (refs rst')) -> Inv est' rst' ast.
Proof.
  intros HI Ep Es Ec El Er Hc Hd Hr. eapply Inv_ext; eauto.
  - intros s k Hf. left. rewrite <- Es. exact Hf.
  - rewrite El, Hc. apply (inv_clast _ _ _ HI).
  - intros name k Hf. rewrite Hc. rewrite Ec in Hf. apply (inv_cls _ _ _ HI). exact Hf.
Qed.

Lemma Inv_count1 est rst ast e :
  Inv est rst ast -> Inv (add_count false est 1) (push rst e) ast.
Proof.
  intros HI. eapply Inv_grow with (ex := [e]); eauto; try reflexivity.
  cbn [add_count rlast push refs]. rewrite app_length, (inv_rlast _ _ _ HI). cbn [length]. lia.
Qed.

Lemma Inv_set_str est rst ast s :
  Inv est rst ast -> Inv (set_str false est s) (push rst (RDone (abs_string s))) ast.
Proof.
  intros HI. pose proof (inv_rlast _ _ _ HI) as Hr.
  eapply Inv_ext with (ex := [RDone (abs_string s)]); eauto; try reflexivity.
  - cbn [set_str rlast push refs]. rewrite app_length. cbn [length]. lia.
  - intros s' k. cbn [set_str srefs find_str push refs].
    destruct (bytes_eqb s' s) eqn:E; [|left; assumption].
    intros Hk. inversion Hk; subst k. right. apply bytes_eqb_eq in E. subst s'.
    rewrite Hr, Nat2N.id. apply nth_error_mid.
  - apply (inv_clast _ _ _ HI).
  - apply (inv_cls _ _ _ HI).
Qed.

Lemma Inv_class est rst ast name :
  Inv est rst ast ->
  Inv (fst (class_define false est name (N.of_nat (length (sg name)))))
      {| refs := refs rst ++ map (fun fld => RDone (DStr fld)) (sg name);
         classes := classes rst ++ [(name, sg name)]; depth := depth rst |} ast.
Proof.
  intros HI. pose proof (inv_clast _ _ _ HI) as Hc.
  eapply (Inv_ext _ _ _ _ _ (map (fun fld => RDone (DStr fld)) (sg name)) HI);
    cbn [class_define add_count fst prefs srefs rlast cls clast refs classes depth].
  - reflexivity.
  - reflexivity.
  - rewrite app_length, map_length, (inv_rlast _ _ _ HI). lia.
  - reflexivity.
  - intros s k Hf. left. exact Hf.
  - rewrite app_length. cbn [length]. lia.
  - intros name' k. cbn [find_str].
    destruct (bytes_eqb name' name) eqn:E.
    + intros Hk. inversion Hk; subst k. apply bytes_eqb_eq in E. subst name'.
      rewrite Hc, Nat2N.id. apply nth_error_mid.
    + intros Hk. apply nth_error_app_some. apply (inv_cls _ _ _ HI). exact Hk.
Qed.

(* registration of a referable body: by pointer identity or by count *)
Definition areg (r : regmode) (ast : astate) : astate :=
  match r with
  | ByPtr a => {| aopen := (a, adepth ast) :: aopen ast; adone := adone ast; adepth := adepth ast |}
  | ByCount => ast
  end.

Definition afin (r : regmode) (ast : astate) (dv : dval) (ast1 : astate) : astate :=
  match r with
  | ByPtr a => {| aopen := aopen ast; adone := (a, dv) :: adone ast1; adepth := adepth ast |}
  | ByCount => ast1
  end.

Definition regok (r : regmode) (est : estate) : Prop :=
  match r with ByPtr a => find_ptr (prefs est) a = None | ByCount => True end.

Lemma astate_eq a b : aopen a = aopen b -> adone a = adone b -> adepth a = adepth b -> a = b.
Proof. destruct a, b; cbn; intros; subst; reflexivity. Qed.

Lemma pmono_register r est : regok r est -> pmono est (register false est r).
Proof.
  destruct r as [a|]; cbn [regok register set_ptr add_count]; intros Hr; [|apply pmono_eq; reflexivity].
  intros a' k Hf. cbn [prefs find_ptr]. destruct (N.eqb a' a) eqn:E; [|exact Hf].
  apply N.eqb_eq in E. subst a'. congruence.
Qed.

Lemma register_fields r est :
  srefs (register false est r) = srefs est /\ cls (register false est r) = cls est /\
  clast (register false est r) = clast est /\ rlast (register false est r) = (rlast est + 1)%N.
Proof. destruct r; repeat split. Qed.

(* a body that is complete as soon as it is registered (bytes, uuid, time) *)
Lemma Inv_leaf r est rst ast dv :
  Inv est rst ast -> regok r est ->
  Inv (register false est r) (push rst (RDone dv)) (afin r ast dv (areg r ast)).
Proof.
  intros HI Hr. destruct (register_fields r est) as (Es & Ec & El & Erl).
  pose proof (inv_rlast _ _ _ HI) as Hrl.
  constructor.
  - rewrite Erl. cbn [push refs]. rewrite app_length. cbn [length]. lia.
  - rewrite El. apply (inv_clast _ _ _ HI).
  - intros name k. rewrite Ec. apply (inv_cls _ _ _ HI).
  - intros s k. rewrite Es. intros Hf. cbn [push refs]. apply nth_error_app_some.
    apply (inv_str _ _ _ HI). exact Hf.
  - intros a'. destruct r as [a|]; cbn [regok] in Hr.
    + destruct (N.eqb a' a) eqn:E.
      * apply N.eqb_eq in E. subst a'. unfold ptr_rel.
        cbn [register set_ptr prefs find_ptr afin areg aopen adone find_done push refs].
        rewrite N.eqb_refl.
        pose proof (inv_ptr _ _ _ HI a) as Ha. unfold ptr_rel in Ha. rewrite Hr in Ha.
        destruct Ha as [Ho _]. rewrite Ho. exists dv. split; [reflexivity|].
        rewrite Hrl, Nat2N.id. apply nth_error_mid.
      * eapply ptr_rel_ext with (ex := [RDone dv]); [apply (inv_ptr _ _ _ HI a') | | | | reflexivity].
        -- cbn [register set_ptr prefs find_ptr]. rewrite E. reflexivity.
        -- reflexivity.
        -- cbn [afin areg adone find_done]. rewrite E. reflexivity.
    + eapply ptr_rel_ext with (ex := [RDone dv]); [apply (inv_ptr _ _ _ HI a') | | | | ]; reflexivity.
  - cbn [push depth]. rewrite (inv_depth _ _ _ HI). destruct r; reflexivity.
Qed.

(* entering a container body *)
Lemma Inv_open r est rst ast :
  Inv est rst ast -> regok r est ->
  Inv (register false est r) (fst (open_container rst)) (enter (areg r ast)).
Proof.
  intros HI Hr. destruct (register_fields r est) as (Es & Ec & El & Erl).
  pose proof (inv_rlast _ _ _ HI) as Hrl. pose proof (inv_depth _ _ _ HI) as Hd.
  cbn [open_container fst]. constructor; cbn [refs classes depth].
  - rewrite Erl, app_length. cbn [length]. lia.
  - rewrite El. apply (inv_clast _ _ _ HI).
  - intros name k. rewrite Ec. apply (inv_cls _ _ _ HI).
  - intros s k. rewrite Es. intros Hf. apply nth_error_app_some. apply (inv_str _ _ _ HI). exact Hf.
  - intros a'. destruct r as [a|]; cbn [regok] in Hr.
    + destruct (N.eqb a' a) eqn:E.
      * apply N.eqb_eq in E. subst a'. unfold ptr_rel.
        cbn [register set_ptr prefs find_ptr enter areg aopen find_open refs].
        rewrite N.eqb_refl. rewrite Hrl, Nat2N.id, Hd. apply nth_error_mid.
      * eapply ptr_rel_ext with (ex := [ROpen (depth rst)]); [apply (inv_ptr _ _ _ HI a') | | | | reflexivity].
        -- cbn [register set_ptr prefs find_ptr]. rewrite E. reflexivity.
        -- cbn [enter areg aopen find_open]. rewrite E. reflexivity.
        -- reflexivity.
    + eapply ptr_rel_ext with (ex := [ROpen (depth rst)]); [apply (inv_ptr _ _ _ HI a') | | | | ]; reflexivity.
  - rewrite Hd. destruct r; reflexivity.
Qed.

(* leaving it: the slot of the container becomes its value; a pointer that registered it is now done *)
Lemma Inv_close r est rst ast est2 rst2 ast2 v :
  Inv est rst ast -> regok r est ->
  Inv est2 rst2 ast2 ->
  frame (fst (open_container rst)) rst2 ->
  aopen ast2 = aopen (areg r ast) -> adepth ast2 = S (adepth ast) ->
  pmono (register false est r) est2 ->
  Inv est2 (close_container rst2 (length (refs rst)) v) (afin r ast v (leave ast2)).
Proof.
  intros HI Hr HI2 Hf Hao Had Hpm.
  destruct (close_refs rst rst2 v Hf) as (ex & Hr2 & Hrc & Hdc & Hcc).
  pose proof (inv_rlast _ _ _ HI) as Hrl.
  assert (Hold : forall a' d, find_open (aopen ast) a' = Some d ->
            forall k, find_ptr (prefs est2) a' = Some k -> (N.to_nat k < length (refs rst))%nat).
  { intros a' d Ho k Hk. pose proof (inv_ptr _ _ _ HI a') as Ha. unfold ptr_rel in Ha.
    destruct (find_ptr (prefs est) a') as [k0|] eqn:Ek0; [|destruct Ha; congruence].
    rewrite Ho in Ha. apply nth_error_some_lt in Ha.
    pose proof (Hpm _ _ (pmono_register r est Hr _ _ Ek0)) as Hk0. congruence. }
  assert (Hdone : forall k dv, nth_error (refs rst2) k = Some (RDone dv) ->
            nth_error (refs rst ++ RDone v :: ex) k = Some (RDone dv)).
  { intros k dv Hn. rewrite Hr2 in Hn.
    destruct (Nat.eq_dec k (length (refs rst))) as [->|Hne].
    - rewrite nth_error_mid in Hn. discriminate.
    - rewrite <- Hn. apply nth_error_mid_other. exact Hne. }
  assert (Hopen : forall k d, (k < length (refs rst))%nat -> nth_error (refs rst2) k = Some (ROpen d) ->
            nth_error (refs rst ++ RDone v :: ex) k = Some (ROpen d)).
  { intros k d Hlt Hn. rewrite Hr2 in Hn. rewrite <- Hn. apply nth_error_mid_other. lia. }
  constructor.
  - rewrite (inv_rlast _ _ _ HI2), Hrc, Hr2, !app_length. cbn [length]. reflexivity.
  - rewrite Hcc. apply (inv_clast _ _ _ HI2).
  - rewrite Hcc. apply (inv_cls _ _ _ HI2).
  - intros s k Hs. rewrite Hrc. apply Hdone. apply (inv_str _ _ _ HI2). exact Hs.
  - intros a'. pose proof (inv_ptr _ _ _ HI2 a') as H2. unfold ptr_rel in H2 |- *. rewrite Hrc.
    destruct r as [a|]; cbn [regok] in Hr; cbn [afin areg leave aopen adone] in *.
    + destruct (N.eqb a' a) eqn:E.
      * apply N.eqb_eq in E. subst a'.
        assert (Hk : find_ptr (prefs est2) a = Some (rlast est)).
        { apply Hpm. cbn [register set_ptr prefs find_ptr]. rewrite N.eqb_refl. reflexivity. }
        rewrite Hk. pose proof (inv_ptr _ _ _ HI a) as Ha. unfold ptr_rel in Ha. rewrite Hr in Ha.
        destruct Ha as [Ho _]. rewrite Ho. cbn [find_done]. rewrite N.eqb_refl.
        exists v. split; [reflexivity|]. rewrite Hrl, Nat2N.id. apply nth_error_mid.
      * rewrite Hao in H2. cbn [find_open find_done] in H2 |- *. rewrite E in H2 |- *.
        destruct (find_ptr (prefs est2) a') as [k|] eqn:Ek; [|exact H2].
        destruct (find_open (aopen ast) a') as [d|] eqn:Eo.
        -- apply Hopen; [|exact H2]. eapply Hold; eauto.
        -- destruct H2 as (dv & Hdv & Hn). exists dv. split; [exact Hdv|]. apply Hdone. exact Hn.
    + rewrite Hao in H2 |- *.
      destruct (find_ptr (prefs est2) a') as [k|] eqn:Ek; [|exact H2].
      destruct (find_open (aopen ast) a') as [d|] eqn:Eo.
      * apply Hopen; [|exact H2]. eapply Hold; eauto.
      * destruct H2 as (dv & Hdv & Hn). exists dv. split; [exact Hdv|]. apply Hdone. exact Hn.
  - rewrite Hdc, (inv_depth _ _ _ HI). destruct r; cbn [afin leave adepth]; [reflexivity|].
    rewrite Had. reflexivity.
Qed.

Variable hp : heap.
Hypothesis Hhp : heap_ok hp = true.
Hypothesis Hwf : heap_wf hp = true.

Definition sim (rec : estate -> gval -> eres) (arec : astate -> gval -> option (dval * astate)) : Prop :=
  forall est v est' w rst ast,
    gval_ok v = true -> gwf v = true -> rec est v = EOk est' w -> Inv est rst ast ->
    exists fd d rst' ast',
      denote fd rst w = Some (d, rst') /\ arec ast v = Some (d, ast') /\
      Inv est' rst' ast' /\ aopen ast' = aopen ast /\ adepth ast' = adepth ast /\ pmono est est'.

Lemma string_sim est s est' w rst ast :
  enc_string false est s = (est', w) -> Inv est rst ast ->
  exists rst', denote 1 rst w = Some (abs_string s, rst') /\ Inv est' rst' ast /\ prefs est' = prefs est.
Proof.
  unfold enc_string. intros H HI.
  destruct (go_utf16Length s =? 0) eqn:E0.
  { inversion H; subst. apply Z.eqb_eq in E0. apply utf16_zero in E0. subst s.
    exists rst. split; [reflexivity | split; [exact HI | reflexivity]]. }
  destruct (go_utf16Length s =? 1) eqn:E1.
  { inversion H; subst. exists rst. split; [|split; [exact HI|reflexivity]].
    cbn [denote]. unfold abs_string. apply Z.eqb_eq in E1. rewrite E1. reflexivity. }
  cbn [lookup_str] in H. destruct (find_str (srefs est) s) as [k|] eqn:Ek; inversion H; subst.
  - exists rst. split; [|split; [exact HI|reflexivity]].
    cbn [denote]. rewrite (inv_str _ _ _ HI _ _ Ek). reflexivity.
  - eexists. split; [apply string_wire_den|]. split; [apply Inv_set_str; exact HI | reflexivity].
Qed.

Lemma seq_sim rec arec : sim rec arec -> forall vs est est' ws rst ast,
  forallb gval_ok vs = true -> forallb gwf vs = true ->
  enc_seq rec est vs = inl (Some (est', ws)) -> Inv est rst ast ->
  exists fd ds rst' ast',
    denote_list (denote fd) rst ws = Some (ds, rst') /\ abs_seq arec ast vs = Some (ds, ast') /\
    Inv est' rst' ast' /\ aopen ast' = aopen ast /\ adepth ast' = adepth ast /\ pmono est est' /\
    length ws = length vs.
Proof.
  intros Hrec. induction vs as [|v vs IH]; intros est est' ws rst ast Hok Hw H HI; cbn [enc_seq] in H.
  - inversion H; subst. exists 0%nat, [], rst, ast. cbn [denote_list abs_seq].
    conj_split; auto. apply pmono_refl.
  - cbn [forallb] in Hok, Hw. apply andb_prop in Hok as [Hv Hvs]. apply andb_prop in Hw as [Hwv Hwvs].
    destruct (rec est v) as [est1 w1| |] eqn:E; try discriminate.
    destruct (enc_seq rec est1 vs) as [[[est2 ws']|]|] eqn:E2; try discriminate.
    inversion H; subst.
    destruct (Hrec _ _ _ _ _ _ Hv Hwv E HI) as (fd1 & d & rst1 & ast1 & Hd & Ha & HI1 & Ho1 & Hdp1 & Hp1).
    destruct (IH _ _ _ _ _ Hvs Hwvs E2 HI1) as (fd2 & ds & rst2 & ast2 & Hd2 & Ha2 & HI2 & Ho2 & Hdp2 & Hp2 & Hl).
    exists (Nat.max fd1 fd2), (d :: ds), rst2, ast2. cbn [denote_list abs_seq].
    rewrite (denote_mono _ _ _ _ Hd (Nat.max fd1 fd2)) by lia.
    assert (M2 : forall st w r, denote fd2 st w = Some r -> denote (Nat.max fd1 fd2) st w = Some r)
      by (intros; eapply denote_mono; eauto; lia).
    rewrite (denote_list_mono _ _ M2 _ _ _ Hd2).
    rewrite Ha, Ha2. conj_split; try congruence.
    + eapply pmono_trans; eauto.
    + cbn [length]. lia.
Qed.

Lemma anon_sim rec arec : sim rec arec -> forall fields vs est est' ws rst ast,
  forallb gval_ok vs = true -> forallb gwf vs = true -> length fields = length vs ->
  enc_anon_fields false rec est fields vs = inl (Some (est', ws)) -> Inv est rst ast ->
  exists fd ds rst' ast',
    denote_list (denote fd) rst ws = Some (interleave fields ds, rst') /\
    abs_seq arec ast vs = Some (ds, ast') /\
    Inv est' rst' ast' /\ aopen ast' = aopen ast /\ adepth ast' = adepth ast /\ pmono est est' /\
    Nat.even (length ws) = true.
Proof.
  intros Hrec. induction fields as [|f fields IH]; intros vs est est' ws rst ast Hok Hw Hlen H HI.
  - destruct vs; [|discriminate]. cbn [enc_anon_fields] in H. inversion H; subst.
    exists 0%nat, [], rst, ast. cbn [denote_list abs_seq interleave]. conj_split; auto. apply pmono_refl.
  - destruct vs as [|v vs]; [discriminate|]. cbn [enc_anon_fields] in H. cbn [length] in Hlen.
    cbn [forallb] in Hok, Hw. apply andb_prop in Hok as [Hv Hvs]. apply andb_prop in Hw as [Hwv Hwvs].
    destruct (enc_string false est f) as [est0 wf] eqn:Es.
    destruct (string_sim _ _ _ _ _ _ Es HI) as (rst0 & Hd0 & HI0 & Hp0).
    destruct (rec est0 v) as [est1 w1| |] eqn:E; try discriminate.
    destruct (enc_anon_fields false rec est1 fields vs) as [[[est2 ws']|]|] eqn:E2; try discriminate.
    inversion H; subst.
    destruct (Hrec _ _ _ _ _ _ Hv Hwv E HI0) as (fd1 & d & rst1 & ast1 & Hd & Ha & HI1 & Ho1 & Hdp1 & Hp1).
    destruct (IH _ _ _ _ _ _ Hvs Hwvs ltac:(lia) E2 HI1)
      as (fd2 & ds & rst2 & ast2 & Hd2 & Ha2 & HI2 & Ho2 & Hdp2 & Hp2 & Hev).
    exists (S (Nat.max fd1 fd2)), (d :: ds), rst2, ast2. cbn [denote_list abs_seq interleave].
    rewrite (denote_mono _ _ _ _ Hd0 (S (Nat.max fd1 fd2))) by lia.
    rewrite (denote_mono _ _ _ _ Hd (S (Nat.max fd1 fd2))) by lia.
    assert (M2 : forall st w r, denote fd2 st w = Some r -> denote (S (Nat.max fd1 fd2)) st w = Some r)
      by (intros; eapply denote_mono; eauto; lia).
    rewrite (denote_list_mono _ _ M2 _ _ _ Hd2).
    rewrite Ha, Ha2. conj_split; try congruence.
    + eapply pmono_trans; [apply pmono_eq; exact Hp0|]. eapply pmono_trans; eauto.
    + cbn [length Nat.even]. exact Hev.
Qed.

Lemma areg_depth r ast : adepth (areg r ast) = adepth ast.
Proof. destruct r; reflexivity. Qed.

(* a container body whose elements go through the recursive call *)
Lemma seq_body rec arec : sim rec arec -> forall r est rst ast vs est2 ws,
  Inv est rst ast -> regok r est -> forallb gval_ok vs = true -> forallb gwf vs = true ->
  enc_seq rec (register false est r) vs = inl (Some (est2, ws)) ->
  exists fd ds rst2 ast2,
    denote_list (denote fd) (fst (open_container rst)) ws = Some (ds, rst2) /\
    abs_seq arec (enter (areg r ast)) vs = Some (ds, ast2) /\
    (forall v, Inv est2 (close_container rst2 (length (refs rst)) v) (afin r ast v (leave ast2))) /\
    aopen (leave ast2) = aopen (areg r ast) /\ adepth (leave ast2) = adepth ast /\ pmono est est2 /\
    length ws = length vs.
Proof.
  intros Hrec r est rst ast vs est2 ws HI Hr Hok Hw E.
  destruct (seq_sim rec arec Hrec _ _ _ _ _ _ Hok Hw E (Inv_open r _ _ _ HI Hr))
    as (fd & ds & rst2 & ast2 & Hd & Ha & HI2 & Ho & Hdp & Hp & Hl).
  cbn [enter aopen adepth] in Ho, Hdp. rewrite areg_depth in Hdp.
  exists fd, ds, rst2, ast2. conj_split; auto.
  - intros v. eapply Inv_close; eauto.
    eapply denote_list_frame; [|exact Hd]. intros; eapply denote_frame; eauto.
  - cbn [leave adepth]. rewrite Hdp. reflexivity.
  - eapply pmono_trans; [apply pmono_register; exact Hr | exact Hp].
Qed.

Lemma anon_body rec arec : sim rec arec -> forall r est rst ast fields vs est2 ws,
  Inv est rst ast -> regok r est -> forallb gval_ok vs = true -> forallb gwf vs = true ->
  length fields = length vs ->
  enc_anon_fields false rec (register false est r) fields vs = inl (Some (est2, ws)) ->
  exists fd ds rst2 ast2,
    denote_list (denote fd) (fst (open_container rst)) ws = Some (interleave fields ds, rst2) /\
    abs_seq arec (enter (areg r ast)) vs = Some (ds, ast2) /\
    (forall v, Inv est2 (close_container rst2 (length (refs rst)) v) (afin r ast v (leave ast2))) /\
    aopen (leave ast2) = aopen (areg r ast) /\ adepth (leave ast2) = adepth ast /\ pmono est est2 /\
    Nat.even (length ws) = true.
Proof.
  intros Hrec r est rst ast fields vs est2 ws HI Hr Hok Hw Hlen E.
  destruct (anon_sim rec arec Hrec _ _ _ _ _ _ _ Hok Hw Hlen E (Inv_open r _ _ _ HI Hr))
    as (fd & ds & rst2 & ast2 & Hd & Ha & HI2 & Ho & Hdp & Hp & Hl).
  cbn [enter aopen adepth] in Ho, Hdp. rewrite areg_depth in Hdp.
  exists fd, ds, rst2, ast2. conj_split; auto.
  - intros v. eapply Inv_close; eauto.
    eapply denote_list_frame; [|exact Hd]. intros; eapply denote_frame; eauto.
  - cbn [leave adepth]. rewrite Hdp. reflexivity.
  - eapply pmono_trans; [apply pmono_register; exact Hr | exact Hp].
Qed.

Lemma list_den fd rst ws ds rst2 :
  denote_list (denote fd) (fst (open_container rst)) ws = Some (ds, rst2) ->
  denote (S fd) rst (WList ws) = Some (DList ds, close_container rst2 (length (refs rst)) (DList ds)).
Proof. intros Hd. cbn [denote]. cbn [open_container fst] in Hd |- *. rewrite Hd. reflexivity. Qed.

Lemma map_den fd rst ws ds rst2 : Nat.even (length ws) = true ->
  denote_list (denote fd) (fst (open_container rst)) ws = Some (ds, rst2) ->
  denote (S fd) rst (WMap ws) = Some (DMap ds, close_container rst2 (length (refs rst)) (DMap ds)).
Proof. intros He Hd. cbn [denote]. rewrite He. cbn [open_container fst] in Hd |- *. rewrite Hd. reflexivity. Qed.

Lemma obj_den fd rst idx name fields ws ds rst2 :
  nth_error (classes rst) (N.to_nat idx) = Some (name, fields) -> length fields = length ws ->
  denote_list (denote fd) (fst (open_container rst)) ws = Some (ds, rst2) ->
  denote (S fd) rst (WObj idx ws) =
  Some (DObj name fields ds, close_container rst2 (length (refs rst)) (DObj name fields ds)).
Proof.
  intros Hc Hl Hd. cbn [denote]. rewrite Hc, Hl, Nat.eqb_refl.
  cbn [open_container fst] in Hd |- *. rewrite Hd. reflexivity.
Qed.

Lemma class_den f rst name fields next :
  denote (S f) rst (WClass name fields next) =
  denote f {| refs := refs rst ++ map (fun fld => RDone (DStr fld)) fields;
              classes := classes rst ++ [(name, fields)]; depth := depth rst |} next.
Proof. cbn [denote]. rewrite fold_push_fields. reflexivity. Qed.

Lemma err_den f st w v st1 : denote f st w = Some (v, st1) -> denote (S f) st (WErr w) = Some (DErr v, st1).
Proof. intros H. cbn [denote]. rewrite H. reflexivity. Qed.

Definition body_post (r : regmode) (est : estate) (rst : rstate) (ast : astate)
           (arec : astate -> gval -> option (dval * astate)) (v : gval) (est' : estate) (w : wire) : Prop :=
  exists fd d rst' ast1,
    denote fd rst w = Some (d, rst') /\ abs_node arec (areg r ast) v = Some (d, ast1) /\
    Inv est' rst' (afin r ast d ast1) /\ aopen ast1 = aopen (areg r ast) /\ adepth ast1 = adepth ast /\
    pmono est est'.

Lemma body_sim rec arec : sim rec arec -> forall r est v est' w rst ast,
  tracked v = true -> gval_ok v = true -> gwf v = true -> regok r est -> Inv est rst ast ->
  enc_body false rec r est v = EOk est' w ->
  body_post r est rst ast arec v est' w.
Proof.
  intros Hrec r est v est' w rst ast Ht Hok Hw Hr HI H. unfold body_post.
  destruct v; try discriminate Ht; cbn [enc_body] in H; cbn [gval_ok] in Hok; cbn [gwf] in Hw.
  - (* GBytes *)
    inversion H; subst. exists 1%nat, (DBytes b), (push rst (RDone (DBytes b))), (areg r ast).
    conj_split; try reflexivity; [apply Inv_leaf; assumption | apply areg_depth | apply pmono_register; exact Hr].
  - (* GBytes2d *)
    assert (H' : EOk (fold_left (fun s row => match row with Some _ => add_count false s 1 | None => s end)
                                rows (register false est r)) (WList (map bytes_row rows)) = EOk est' w).
    { destruct rows; exact H. }
    clear H. inversion H'; subst. clear H'.
    destruct (rows_count false rows (register false est r)) as (Ep & Es & Ec & El & Erl).
    specialize (Erl eq_refl).
    set (est2 := fold_left _ rows (register false est r)) in *.
    set (rst1 := fst (open_container rst)).
    set (rst2 := {| refs := refs rst1 ++ row_refs rows; classes := classes rst1; depth := depth rst1 |}).
    assert (Hd : denote_list (denote 1) rst1 (map bytes_row rows) = Some (map rowd rows, rst2))
      by apply rows_den.
    pose proof (Inv_open r _ _ _ HI Hr) as HI1. fold rst1 in HI1.
    assert (HI2 : Inv est2 rst2 (enter (areg r ast))).
    { eapply Inv_grow with (ex := row_refs rows); eauto; try reflexivity.
      rewrite Erl, (inv_rlast _ _ _ HI1). unfold rst2. cbn [refs]. rewrite app_length. lia. }
    assert (Hf : frame rst1 rst2).
    { unfold frame. conj_split; [exists (row_refs rows); reflexivity | exists []; cbn; rewrite app_nil_r; reflexivity | reflexivity]. }
    exists 2%nat, (DList (map rowd rows)), (close_container rst2 (length (refs rst)) (DList (map rowd rows))),
           (areg r ast).
    split; [apply list_den; exact Hd|]. split; [reflexivity|].
    split; [|split; [reflexivity|split; [apply areg_depth|]]].
    + assert (G : Inv est2 (close_container rst2 (length (refs rst)) (DList (map rowd rows)))
                       (afin r ast (DList (map rowd rows)) (leave (enter (areg r ast))))).
      { eapply Inv_close; eauto.
        - cbn [enter adepth]. rewrite areg_depth. reflexivity.
        - apply pmono_eq. exact Ep. }
      replace (leave (enter (areg r ast))) with (areg r ast) in G by (apply astate_eq; reflexivity).
      exact G.
    + eapply pmono_trans; [apply pmono_register; exact Hr | apply pmono_eq; exact Ep].
  - (* GSlice *)
    destruct (enc_seq rec (register false est r) vs) as [[[est2 ws]|]|] eqn:E;
      [inversion H; subst | discriminate | exfalso; eapply enc_seq_inr; eauto].
    destruct (seq_body rec arec Hrec r _ _ _ _ _ _ HI Hr Hok Hw E)
      as (fd & ds & rst2 & ast2 & Hd & Ha & HI2 & Ho & Hdp & Hp & Hl).
    exists (S fd), (DList ds), (close_container rst2 (length (refs rst)) (DList ds)), (leave ast2).
    split; [apply list_den; exact Hd|]. cbn [abs_node]. rewrite Ha. conj_split; auto.
  - (* GMap *)
    apply andb_prop in Hok as [Hok Hev].
    destruct (enc_seq rec (register false est r) kvs) as [[[est2 ws]|]|] eqn:E;
      [inversion H; subst | discriminate | exfalso; eapply enc_seq_inr; eauto].
    destruct (seq_body rec arec Hrec r _ _ _ _ _ _ HI Hr Hok Hw E)
      as (fd & ds & rst2 & ast2 & Hd & Ha & HI2 & Ho & Hdp & Hp & Hl).
    exists (S fd), (DMap ds), (close_container rst2 (length (refs rst)) (DMap ds)), (leave ast2).
    split; [apply map_den; [rewrite Hl; exact Hev | exact Hd]|].
    cbn [abs_node]. rewrite Ha. conj_split; auto.
  - (* GStruct *)
    apply andb_prop in Hok as [Hok Hvs]. apply andb_prop in Hw as [Hw Hwvs].
    apply andb_prop in Hw as [Hsg Hlen]. apply fields_eqb_eq in Hsg. apply Nat.eqb_eq in Hlen.
    unfold class_lookup in H. destruct (find_str (cls est) name) as [k|] eqn:Ec.
    + destruct (enc_seq rec (register false est r) vs) as [[[est2 ws]|]|] eqn:E;
        [inversion H; subst est' w | discriminate | exfalso; eapply enc_seq_inr; eauto].
      destruct (seq_body rec arec Hrec r _ _ _ _ _ _ HI Hr Hvs Hwvs E)
        as (fd & ds & rst2 & ast2 & Hd & Ha & HI2 & Ho & Hdp & Hp & Hl).
      exists (S fd), (DObj name (sg name) ds),
             (close_container rst2 (length (refs rst)) (DObj name (sg name) ds)), (leave ast2).
      split; [eapply obj_den; [apply (inv_cls _ _ _ HI _ _ Ec) | congruence | exact Hd]|].
      cbn [abs_node]. rewrite Ha, Hsg. conj_split; auto.
    + destruct (class_define false est name (N.of_nat (length fields))) as [est0 k] eqn:Ecd.
      assert (Ee : est0 = fst (class_define false est name (N.of_nat (length (sg name)))))
        by (rewrite <- Hsg, Ecd; reflexivity).
      assert (Ek : k = clast est) by (unfold class_define in Ecd; inversion Ecd; reflexivity).
      destruct (enc_seq rec (register false est0 r) vs) as [[[est2 ws]|]|] eqn:E;
        [inversion H; subst est' w | discriminate | exfalso; eapply enc_seq_inr; eauto].
      pose proof (Inv_class _ _ _ name HI) as HI0. rewrite <- Ee in HI0.
      set (rst0 := {| refs := refs rst ++ map (fun fld => RDone (DStr fld)) (sg name);
                      classes := classes rst ++ [(name, sg name)]; depth := depth rst |}) in *.
      assert (Hr0 : regok r est0).
      { subst est0. destruct r; [|exact I]. exact Hr. }
      destruct (seq_body rec arec Hrec r _ _ _ _ _ _ HI0 Hr0 Hvs Hwvs E)
        as (fd & ds & rst2 & ast2 & Hd & Ha & HI2 & Ho & Hdp & Hp & Hl).
      exists (S (S fd)), (DObj name (sg name) ds),
             (close_container rst2 (length (refs rst0)) (DObj name (sg name) ds)), (leave ast2).
      split.
      { rewrite class_den, Hsg. fold rst0. eapply obj_den; [|congruence|exact Hd].
        subst k. unfold rst0. cbn [classes]. rewrite (inv_clast _ _ _ HI), Nat2N.id. apply nth_error_mid. }
      cbn [abs_node]. rewrite Ha, Hsg. conj_split; auto.
      eapply pmono_trans; [|exact Hp]. apply pmono_eq. subst est0. reflexivity.
  - (* GAnon *)
    apply andb_prop in Hok as [Hok Hlen]. apply Nat.eqb_eq in Hlen.
    destruct (enc_anon_fields false rec (register false est r) fields vs) as [[[est2 ws]|]|] eqn:E;
      [inversion H; subst | discriminate | exfalso; eapply enc_anon_inr; eauto].
    destruct (anon_body rec arec Hrec r _ _ _ _ _ _ _ HI Hr Hok Hw Hlen E)
      as (fd & ds & rst2 & ast2 & Hd & Ha & HI2 & Ho & Hdp & Hp & Hev).
    exists (S fd), (DMap (interleave fields ds)),
           (close_container rst2 (length (refs rst)) (DMap (interleave fields ds))), (leave ast2).
    split; [apply map_den; [exact Hev | exact Hd]|].
    cbn [abs_node]. rewrite Ha. conj_split; auto.
  - (* GTime *)
    destruct (enc_time y mo d h mi s ns utc) as [w0|] eqn:E; [|discriminate]. inversion H; subst.
    destruct (enc_time_den _ _ _ _ _ _ _ _ _ E) as (dv & Hat & Hden).
    exists 1%nat, dv, (push rst (RDone dv)), (areg r ast).
    split; [apply Hden|]. cbn [abs_node]. rewrite Hat.
    conj_split; try reflexivity; [apply Inv_leaf; assumption | apply areg_depth | apply pmono_register; exact Hr].
  - (* GUuid *)
    inversion H; subst. exists 1%nat, (DGuid txt), (push rst (RDone (DGuid txt))), (areg r ast).
    conj_split; try reflexivity; [apply Inv_leaf; assumption | apply areg_depth | apply pmono_register; exact Hr].
  - (* GList *)
    destruct (enc_seq rec (register false est r) vs) as [[[est2 ws]|]|] eqn:E;
      [inversion H; subst | discriminate | exfalso; eapply enc_seq_inr; eauto].
    destruct (seq_body rec arec Hrec r _ _ _ _ _ _ HI Hr Hok Hw E)
      as (fd & ds & rst2 & ast2 & Hd & Ha & HI2 & Ho & Hdp & Hp & Hl).
    exists (S fd), (DList ds), (close_container rst2 (length (refs rst)) (DList ds)), (leave ast2).
    split; [apply list_den; exact Hd|]. cbn [abs_node]. rewrite Ha. conj_split; auto.
Qed.

Lemma enc_step_tracked rec est v : tracked v = true ->
  enc_step false hp rec est v = enc_body false rec ByCount est v.
Proof. destruct v; try discriminate; reflexivity. Qed.

Lemma abs_step_tracked arec ast v : tracked v = true -> abs_step arec hp ast v = abs_node arec ast v.
Proof. destruct v; try discriminate; reflexivity. Qed.

Lemma step_sim rec arec : sim rec arec -> sim (enc_step false hp rec) (abs_step arec hp).
Proof.
  intros Hrec est v est' w rst ast Hok Hw H HI.
  destruct (tracked v) eqn:Et.
  { rewrite enc_step_tracked in H by exact Et. rewrite abs_step_tracked by exact Et.
    destruct (body_sim rec arec Hrec ByCount _ _ _ _ _ _ Et Hok Hw I HI H)
      as (fd & d & rst' & ast1 & Hd & Ha & HI1 & Ho & Hdp & Hp).
    exists fd, d, rst', ast1. conj_split; auto. }
  assert (Same : forall d, denote 1 rst w = Some (d, rst) -> abs_step arec hp ast v = Some (d, ast) ->
            est' = est ->
            exists fd d rst' ast', denote fd rst w = Some (d, rst') /\ abs_step arec hp ast v = Some (d, ast') /\
              Inv est' rst' ast' /\ aopen ast' = aopen ast /\ adepth ast' = adepth ast /\ pmono est est').
  { intros d Hd Ha ->. exists 1%nat, d, rst, ast. conj_split; auto. apply pmono_refl. }
  destruct v; try discriminate Et; cbn [enc_step] in H; cbn [gval_ok] in Hok; cbn [gwf] in Hw.
  - (* GNil *) inversion H; subst. eapply Same; reflexivity.
  - (* GBool *) inversion H; subst. eapply Same; try reflexivity. destruct b; reflexivity.
  - (* GInt *) inversion H; subst. eapply Same; try reflexivity. apply enc_int_den. exact Hw.
  - (* GFloat *) inversion H; subst. eapply Same; try reflexivity. apply enc_float_den.
  - (* GComplex *)
    destruct im_zero; inversion H; subst.
    + eapply Same; try reflexivity. apply enc_float_den.
    + set (dv := DList [abs_float re; abs_float im]).
      exists 2%nat, dv, (close_container (fst (open_container rst)) (length (refs rst)) dv), ast.
      split.
      { apply list_den. cbn [denote_list]. rewrite !enc_float_den. reflexivity. }
      split; [reflexivity|]. split; [|conj_split; auto; apply pmono_eq; reflexivity].
      assert (Er : refs (close_container (fst (open_container rst)) (length (refs rst)) dv) = refs rst ++ [RDone dv]).
      { unfold close_container, open_container. cbn [fst refs]. apply set_nth_mid. }
      eapply Inv_grow with (ex := [RDone dv]); eauto; try reflexivity.
      rewrite Er. cbn [add_count rlast]. rewrite app_length, (inv_rlast _ _ _ HI). cbn [length]. lia.
  - (* GString *)
    destruct (enc_string false est s) as [est1 w1] eqn:Es. inversion H; subst.
    destruct (string_sim _ _ _ _ _ _ Es HI) as (rst' & Hd & HI' & Hp).
    exists 1%nat, (abs_string s), rst', ast. split; [exact Hd|].
    split; [cbn [abs_step abs_node]; rewrite abs_gstring; reflexivity|].
    conj_split; auto. apply pmono_eq. exact Hp.
  - (* GBigInt *) inversion H; subst. eapply Same; reflexivity.
  - (* GBigFloat *) inversion H; subst. eapply Same; reflexivity.
  - (* GBigRat *)
    destruct num as [z|]; inversion H; subst.
    + eapply Same; reflexivity.
    + exists 1%nat, (abs_string txt), (push rst (RDone (abs_string txt))), ast.
      split; [apply string_wire_den|]. split; [reflexivity|].
      conj_split; auto; [apply Inv_count1; exact HI | apply pmono_eq; reflexivity].
  - (* GError *)
    inversion H; subst.
    exists 2%nat, (DErr (abs_string msg)), (push rst (RDone (abs_string msg))), ast.
    split; [apply err_den, string_wire_den|]. split; [reflexivity|].
    conj_split; auto; [apply Inv_count1; exact HI | apply pmono_eq; reflexivity].
  - (* GPtr *)
    destruct (hlookup hp addr) as [pv|] eqn:El; [|discriminate].
    pose proof (hlookup_ok _ _ _ Hhp El) as Hpok. pose proof (hlookup_wf _ _ _ Hwf El) as Hpwf.
    cbn [abs_step]. rewrite El. destruct (tracked pv) eqn:Etp.
    + cbn [lookup_ptr] in H. pose proof (inv_ptr _ _ _ HI addr) as Hp. unfold ptr_rel in Hp.
      destruct (find_ptr (prefs est) addr) as [k|] eqn:Ek.
      * inversion H; subst. destruct (find_open (aopen ast) addr) as [d|] eqn:Eo.
        -- exists 1%nat, (DCycle (adepth ast - d)), rst, ast. cbn [denote]. rewrite Hp, (inv_depth _ _ _ HI).
           conj_split; auto. apply pmono_refl.
        -- destruct Hp as (dv & Hdv & Hn). exists 1%nat, dv, rst, ast. cbn [denote]. rewrite Hn, Hdv.
           conj_split; auto. apply pmono_refl.
      * destruct Hp as [Ho Hdn]. rewrite Ho, Hdn.
        destruct (body_sim rec arec Hrec (ByPtr addr) _ _ _ _ _ _ Etp Hpok Hpwf Ek HI H)
          as (fd & d & rst' & ast1 & Hd & Ha & HI1 & Ho1 & Hdp & Hpm).
        cbn [areg] in Ha. rewrite Ha.
        exists fd, d, rst', (afin (ByPtr addr) ast d ast1). conj_split; auto.
    + destruct (Hrec _ _ _ _ _ _ Hpok Hpwf H HI) as (fd & d & rst' & ast' & Hd & Ha & HI1 & Ho1 & Hdp & Hpm).
      exists fd, d, rst', ast'. conj_split; auto.
Qed.

Theorem enc_sim : forall fuel, sim (enc false hp fuel) (abs hp fuel).
Proof.
  induction fuel as [|f IH].
  - intros est v est' w rst ast _ _ H. discriminate.
  - cbn [enc abs]. apply step_sim. exact IH.
Qed.

End Sim.

(* ---- the statement for whole streams ------------------------------------------------------------ *)

Lemma Inv_init sg : Inv sg einit rinit ainit.
Proof.
  constructor; try reflexivity; try (intros ? ? H; discriminate H).
  intros a. unfold ptr_rel. cbn. split; reflexivity.
Qed.

(* the struct types (name, field list) that occur in a value, not following pointers *)
Fixpoint shapes (v : gval) : list (bytes * list bytes) :=
  match v with
  | GSlice vs | GList vs | GMap vs | GAnon _ vs => flat_map shapes vs
  | GStruct n f vs => (n, f) :: flat_map shapes vs
  | _ => []
  end.

Definition all_shapes (hp : heap) (v : gval) : list (bytes * list bytes) :=
  shapes v ++ flat_map (fun av => shapes (snd av)) hp.

Fixpoint sig_of (l : list (bytes * list bytes)) (name : bytes) : list bytes :=
  match l with
  | [] => []
  | (n, f) :: r => if bytes_eqb name n then f else sig_of r name
  end.

(* Well-formedness of the description of a Go value beyond [gval_ok]/[heap_ok]:
   - a struct type name stands for one field list everywhere in the value and the heap
     (all occurrences agree with the first one), with one value per field;
   - values of kind uint8/uint16 are not negative. *)
Definition ref_wf (hp : heap) (v : gval) : bool :=
  let sg := sig_of (all_shapes hp v) in gwf sg v && heap_wf sg hp.

Theorem enc_denotes_abs_sg : forall sg hp fuel v st' w,
  heap_ok hp = true -> gval_ok v = true -> heap_wf sg hp = true -> gwf sg v = true ->
  enc false hp fuel einit v = EOk st' w ->
  exists fd d rst' ast',
    denote fd rinit w = Some (d, rst') /\ abs hp fuel ainit v = Some (d, ast') /\
    Inv sg st' rst' ast' /\ aopen ast' = [] /\ adepth ast' = 0%nat.
Proof.
  intros sg hp fuel v st' w Hh Hv Hhw Hvw H.
  destruct (enc_sim sg hp Hh Hhw fuel _ _ _ _ _ _ Hv Hvw H (Inv_init sg))
    as (fd & d & rst' & ast' & Hd & Ha & HI & Ho & Hdp & _).
  exists fd, d, rst', ast'. conj_split; auto.
Qed.

(* C02/C03, reference mode: the stream denotes the value; in particular every [WRef] in it
   resolved to the item the encoder meant (otherwise the two sides would differ). *)
Theorem enc_denotes_abs : forall hp fuel v st' w,
  heap_ok hp = true -> gval_ok v = true -> ref_wf hp v = true ->
  enc false hp fuel einit v = EOk st' w ->
  exists d, denote_top w = Some d /\ abs_top hp fuel v = Some d.
Proof.
  intros hp fuel v st' w Hh Hv Hw H. unfold ref_wf in Hw. apply andb_prop in Hw as [Hvw Hhw].
  destruct (enc_denotes_abs_sg _ hp fuel v st' w Hh Hv Hhw Hvw H)
    as (fd & d & rst' & ast' & Hd & Ha & _).
  exists d. unfold denote_top, abs_top. rewrite (denote_wsize _ _ _ _ Hd), Ha. split; reflexivity.
Qed.

(* the tables at the end of the stream: the slot the encoder associates with a pointer holds,
   on the reading side, the value of that pointer's pointee; the slot of a string holds that string *)
Theorem enc_tables_resolve : forall hp fuel v st' w,
  heap_ok hp = true -> gval_ok v = true -> ref_wf hp v = true ->
  enc false hp fuel einit v = EOk st' w ->
  exists d rst' ast',
    denote (wsize w) rinit w = Some (d, rst') /\ abs hp fuel ainit v = Some (d, ast') /\
    rlast st' = N.of_nat (length (refs rst')) /\
    (forall a k, find_ptr (prefs st') a = Some k ->
       exists dv, find_done (adone ast') a = Some dv /\
                  nth_error (refs rst') (N.to_nat k) = Some (RDone dv)) /\
    (forall s k, find_str (srefs st') s = Some k ->
       nth_error (refs rst') (N.to_nat k) = Some (RDone (abs_string s))).
Proof.
  intros hp fuel v st' w Hh Hv Hw H. unfold ref_wf in Hw. apply andb_prop in Hw as [Hvw Hhw].
  destruct (enc_denotes_abs_sg _ hp fuel v st' w Hh Hv Hhw Hvw H)
    as (fd & d & rst' & ast' & Hd & Ha & HI & Ho & _).
  exists d, rst', ast'. conj_split.
  - apply (denote_wsize _ _ _ _ Hd).
  - exact Ha.
  - apply (inv_rlast _ _ _ _ HI).
  - intros a k Hk. pose proof (inv_ptr _ _ _ _ HI a) as Hp. unfold ptr_rel in Hp.
    rewrite Hk, Ho in Hp. exact Hp.
  - apply (inv_str _ _ _ _ HI).
Qed.

(* a pointer already in the table is written as a back-reference and nothing else happens *)
Lemma seen_pointer_is_backref hp f st a k pv :
  hlookup hp a = Some pv -> tracked pv = true -> find_ptr (prefs st) a = Some k ->
  enc false hp (S f) st (GPtr a) = EOk st (WRef k).
Proof. intros Hl Ht Hk. cbn [enc enc_step lookup_ptr]. rewrite Hl, Ht, Hk. reflexivity. Qed.

(* a string already in the table likewise *)
Lemma seen_string_is_backref st s k :
  (go_utf16Length s =? 0) = false -> (go_utf16Length s =? 1) = false ->
  find_str (srefs st) s = Some k -> enc_string false st s = (st, WRef k).
Proof. intros H0 H1 Hk. unfold enc_string. cbn [lookup_str]. rewrite H0, H1, Hk. reflexivity. Qed.

(* ---- "encoded in finite time": reference mode never runs out of fuel, even on cyclic heaps ------- *)

Lemma filter_len_le {A} (f g : A -> bool) l :
  (forall x, In x l -> f x = true -> g x = true) -> (length (filter f l) <= length (filter g l))%nat.
Proof.
  induction l as [|y l IH]; intros H; cbn [filter]; [lia|].
  assert (IH' := IH (fun x Hx => H x (or_intror Hx))).
  destruct (f y) eqn:Ef.
  - rewrite (H y (or_introl eq_refl) Ef). cbn [length]. lia.
  - destruct (g y); cbn [length]; lia.
Qed.

Lemma filter_len_lt {A} (f g : A -> bool) l x :
  (forall y, In y l -> f y = true -> g y = true) -> In x l -> f x = false -> g x = true ->
  (length (filter f l) < length (filter g l))%nat.
Proof.
  induction l as [|y l IH]; intros H Hin Hf Hg; [contradiction|]. cbn [filter].
  assert (Hle := filter_len_le f g l (fun z Hz => H z (or_intror Hz))).
  destruct Hin as [->|Hin].
  - rewrite Hf, Hg. cbn [length]. lia.
  - assert (IH' := IH (fun z Hz => H z (or_intror Hz)) Hin Hf Hg).
    destruct (f y) eqn:Ef.
    + rewrite (H y (or_introl eq_refl) Ef). cbn [length]. lia.
    + destruct (g y); cbn [length]; lia.
Qed.

Lemma fold_max_in {A} (f : A -> nat) l e :
  In e l -> (f e <= fold_right (fun x a => Nat.max (f x) a) O l)%nat.
Proof.
  induction l as [|y l IH]; [contradiction|]. intros [->|Hin]; cbn [fold_right]; [lia|].
  specialize (IH Hin). lia.
Qed.

Lemma hlookup_in hp a pv : hlookup hp a = Some pv -> In (a, pv) hp.
Proof.
  induction hp as [|[a' v'] hp IH]; cbn [hlookup]; [discriminate|].
  destruct (N.eqb a a') eqn:E.
  - intros H. inversion H; subst. apply N.eqb_eq in E. subst. left. reflexivity.
  - intros H. right. apply IH. exact H.
Qed.

(* the pointer table only ever gets new entries in front *)
Definition keys_nodup (st : estate) : Prop := NoDup (map fst (prefs st)).

Definition pext (st st' : estate) : Prop :=
  (exists ex, prefs st' = ex ++ prefs st) /\ (keys_nodup st -> keys_nodup st').

Lemma pext_refl st : pext st st. Proof. split; [exists []; reflexivity | auto]. Qed.
Lemma pext_trans a b c : pext a b -> pext b c -> pext a c.
Proof.
  intros [[e1 H1] N1] [[e2 H2] N2]. split; [|auto].
  exists (e2 ++ e1). rewrite H2, H1, app_assoc. reflexivity.
Qed.
Lemma pext_eq st st' : prefs st' = prefs st -> pext st st'.
Proof. intros H. split; [exists []; exact H | unfold keys_nodup; rewrite H; auto]. Qed.

Lemma find_ptr_none_notin l a : find_ptr l a = None -> ~ In a (map fst l).
Proof.
  induction l as [|[a' k] l IH]; cbn [find_ptr map fst In]; [tauto|].
  destruct (N.eqb a a') eqn:E; [discriminate|]. intros H [Heq|Hin]; [|exact (IH H Hin)].
  subst a'. rewrite N.eqb_refl in E. discriminate.
Qed.

Lemma register_pext r st : regok r st -> pext st (register false st r).
Proof.
  destruct r as [a|]; cbn [regok]; intros Hr; [|apply pext_eq; reflexivity].
  split; [exists [(a, rlast st)]; reflexivity|].
  unfold keys_nodup. cbn [register set_ptr prefs map fst]. intros Hn. constructor; [|exact Hn].
  apply find_ptr_none_notin. exact Hr.
Qed.

Lemma regok_prefs r st st0 : prefs st0 = prefs st -> regok r st -> regok r st0.
Proof. destruct r; cbn [regok]; [intros ->; auto | auto]. Qed.

Lemma enc_string_prefs st s st' w : enc_string false st s = (st', w) -> prefs st' = prefs st.
Proof.
  unfold enc_string. destruct (go_utf16Length s =? 0); [intros H; inversion H; reflexivity|].
  destruct (go_utf16Length s =? 1); [intros H; inversion H; reflexivity|].
  destruct (lookup_str false st s); intros H; inversion H; reflexivity.
Qed.

Definition rec_pext (rec : estate -> gval -> eres) : Prop :=
  forall st v st' w, rec st v = EOk st' w -> pext st st'.

Lemma enc_seq_pext rec : rec_pext rec -> forall vs st st' ws,
  enc_seq rec st vs = inl (Some (st', ws)) -> pext st st'.
Proof.
  intros Hrec. induction vs as [|v vs IH]; intros st st' ws H; cbn [enc_seq] in H.
  - inversion H; subst. apply pext_refl.
  - destruct (rec st v) as [st1 w1| |] eqn:E; try discriminate.
    destruct (enc_seq rec st1 vs) as [[[st2 ws']|]|] eqn:E2; try discriminate.
    inversion H; subst. eapply pext_trans; [eapply Hrec; eauto | eapply IH; eauto].
Qed.

Lemma enc_anon_pext rec : rec_pext rec -> forall fields vs st st' ws,
  enc_anon_fields false rec st fields vs = inl (Some (st', ws)) -> pext st st'.
Proof.
  intros Hrec. induction fields as [|f fields IH]; intros vs st st' ws H.
  - destruct vs; cbn [enc_anon_fields] in H; inversion H; subst; apply pext_refl.
  - destruct vs as [|v vs]; cbn [enc_anon_fields] in H; [inversion H; subst; apply pext_refl|].
    destruct (enc_string false st f) as [st0 wf] eqn:Es.
    destruct (rec st0 v) as [st1 w1| |] eqn:E; try discriminate.
    destruct (enc_anon_fields false rec st1 fields vs) as [[[st2 ws']|]|] eqn:E2; try discriminate.
    inversion H; subst.
    eapply pext_trans; [apply pext_eq; eapply enc_string_prefs; eauto|].
    eapply pext_trans; [eapply Hrec; eauto | eapply IH; eauto].
Qed.

Lemma enc_body_pext rec r : rec_pext rec -> forall st v st' w, regok r st ->
  enc_body false rec r st v = EOk st' w -> pext st st'.
Proof.
  intros Hrec st v st' w Hr H.
  pose proof (register_pext r st Hr) as Hreg.
  destruct v; cbn [enc_body] in H; try discriminate.
  - inversion H; subst. exact Hreg.
  - destruct (rows_count false rows (register false st r)) as (Ep & _).
    destruct (length rows =? 0)%nat; inversion H; subst; [exact Hreg|].
    eapply pext_trans; [exact Hreg | apply pext_eq; exact Ep].
  - destruct (enc_seq rec (register false st r) vs) as [[[st2 ws]|]|] eqn:E; try discriminate.
    + inversion H; subst. eapply pext_trans; [exact Hreg | eapply enc_seq_pext; eauto].
    + exfalso. eapply enc_seq_inr; eauto.
  - destruct (enc_seq rec (register false st r) kvs) as [[[st2 ws]|]|] eqn:E; try discriminate.
    + inversion H; subst. eapply pext_trans; [exact Hreg | eapply enc_seq_pext; eauto].
    + exfalso. eapply enc_seq_inr; eauto.
  - destruct (class_lookup st name) as [k|].
    + destruct (enc_seq rec (register false st r) vs) as [[[st2 ws]|]|] eqn:E; try discriminate.
      * inversion H; subst. eapply pext_trans; [exact Hreg | eapply enc_seq_pext; eauto].
      * exfalso. eapply enc_seq_inr; eauto.
    + destruct (class_define false st name (N.of_nat (length fields))) as [st0 k] eqn:Ec.
      assert (Hp0 : pext st st0) by (unfold class_define in Ec; inversion Ec; apply pext_eq; reflexivity).
      destruct (enc_seq rec (register false st0 r) vs) as [[[st2 ws]|]|] eqn:E; try discriminate.
      * inversion H; subst. eapply pext_trans; [exact Hp0|].
        eapply pext_trans; [apply register_pext; eapply regok_prefs; [|exact Hr];
                            unfold class_define in Ec; inversion Ec; reflexivity
                           | eapply enc_seq_pext; eauto].
      * exfalso. eapply enc_seq_inr; eauto.
  - destruct (enc_anon_fields false rec (register false st r) fields vs) as [[[st2 ws]|]|] eqn:E; try discriminate.
    + inversion H; subst. eapply pext_trans; [exact Hreg | eapply enc_anon_pext; eauto].
    + exfalso. eapply enc_anon_inr; eauto.
  - destruct (enc_time y mo d h mi s ns utc); [|discriminate]. inversion H; subst. exact Hreg.
  - inversion H; subst. exact Hreg.
  - destruct (enc_seq rec (register false st r) vs) as [[[st2 ws]|]|] eqn:E; try discriminate.
    + inversion H; subst. eapply pext_trans; [exact Hreg | eapply enc_seq_pext; eauto].
    + exfalso. eapply enc_seq_inr; eauto.
Qed.

Lemma enc_step_pext hp rec : rec_pext rec -> rec_pext (enc_step false hp rec).
Proof.
  intros Hrec st v st' w H.
  destruct v; cbn [enc_step] in H;
    try (eapply enc_body_pext; [exact Hrec | | exact H]; exact I);
    try (inversion H; subst; apply pext_refl).
  - destruct im_zero; inversion H; subst; [apply pext_refl | apply pext_eq; reflexivity].
  - destruct (enc_string false st s) as [st1 w1] eqn:Es. inversion H; subst.
    apply pext_eq. eapply enc_string_prefs; eauto.
  - destruct num; inversion H; subst; [apply pext_refl | apply pext_eq; reflexivity].
  - inversion H; subst. apply pext_eq; reflexivity.
  - destruct (hlookup hp addr) as [pv|]; [|discriminate].
    destruct (tracked pv).
    + cbn [lookup_ptr] in H. destruct (find_ptr (prefs st) addr) eqn:Ek; [inversion H; subst; apply pext_refl|].
      eapply enc_body_pext; [exact Hrec | | exact H]; exact Ek.
    + eapply Hrec; eauto.
Qed.

Lemma enc_pext hp : forall f, rec_pext (enc false hp f).
Proof.
  induction f as [|f IH]; [intros st v st' w H; discriminate|].
  cbn [enc]. apply enc_step_pext. exact IH.
Qed.

Section Term.
Variable hp : heap.
(* how many pointer-to-pointer hops are followed when costing a pointer *)
Variable B : nat.

(* the chain of transparent (untracked) pointers starting at [a] ends within [n] hops *)
Fixpoint fin (n : nat) (a : N) : bool :=
  match n with
  | O => false
  | S n' => match hlookup hp a with Some (GPtr b) => fin n' b | _ => true end
  end.

Fixpoint pcost (n : nat) (a : N) : nat :=
  match n with
  | O => O
  | S n' => match hlookup hp a with Some (GPtr b) => S (pcost n' b) | _ => 1%nat end
  end.

(* nesting depth of a value, a pointer counting for the transparent chain behind it *)
Fixpoint gcost (v : gval) : nat :=
  match v with
  | GSlice vs | GList vs | GMap vs | GAnon _ vs | GStruct _ _ vs =>
      S (fold_right (fun e a => Nat.max (gcost e) a) O vs)
  | GPtr a => S (pcost B a)
  | _ => 1%nat
  end.

Definition elems (v : gval) : list gval :=
  match v with
  | GSlice vs | GList vs | GMap vs | GAnon _ vs | GStruct _ _ vs => vs
  | _ => []
  end.

Definition cellmax : nat := fold_right (fun av a => Nat.max (gcost (snd av)) a) O hp.

Definition chains_ok : bool := forallb (fun av => fin B (fst av)) hp.

Lemma gcost_pos v : (1 <= gcost v)%nat.
Proof. destruct v; cbn [gcost]; lia. Qed.

Lemma gcost_elem v e : In e (elems v) -> (gcost e < gcost v)%nat.
Proof.
  destruct v; cbn [elems]; try contradiction; intros Hin; cbn [gcost];
    pose proof (fold_max_in gcost _ _ Hin); lia.
Qed.

Lemma cell_le a pv : hlookup hp a = Some pv -> (gcost pv <= cellmax)%nat.
Proof.
  intros H. apply hlookup_in in H. unfold cellmax.
  apply (fold_max_in (fun av => gcost (snd av)) hp (a, pv) H).
Qed.

Lemma fin_all_n n : (1 <= n)%nat -> forallb (fun av => fin n (fst av)) hp = true -> forall a, fin n a = true.
Proof.
  intros Hn Hall a. destruct n as [|n]; [lia|].
  destruct (hlookup hp a) as [pv|] eqn:E.
  - apply hlookup_in in E. rewrite forallb_forall in Hall. apply (Hall _ E).
  - cbn [fin]. rewrite E. reflexivity.
Qed.

Lemma pcost_stable : forall n a, fin n a = true -> pcost (S n) a = pcost n a.
Proof.
  induction n as [|n IH]; intros a Hf; [discriminate|].
  cbn [fin] in Hf. change (pcost (S (S n)) a) with
    (match hlookup hp a with Some (GPtr b) => S (pcost (S n) b) | _ => 1%nat end).
  change (pcost (S n) a) with (match hlookup hp a with Some (GPtr b) => S (pcost n b) | _ => 1%nat end).
  destruct (hlookup hp a) as [[]|]; try reflexivity. rewrite IH by exact Hf. reflexivity.
Qed.

Lemma pcost_hop n a b : fin n a = true -> hlookup hp a = Some (GPtr b) -> pcost n a = S (pcost n b).
Proof.
  destruct n as [|n]; [discriminate|]. cbn [fin]. intros Hf Hl. rewrite Hl in Hf.
  change (pcost (S n) a) with (match hlookup hp a with Some (GPtr b) => S (pcost n b) | _ => 1%nat end).
  rewrite Hl. rewrite pcost_stable by exact Hf. reflexivity.
Qed.

Lemma pcost_leaf n a pv : fin n a = true -> hlookup hp a = Some pv -> (forall b, pv <> GPtr b) ->
  pcost n a = 1%nat.
Proof.
  destruct n as [|n]; [discriminate|]. intros _ Hl Hnp. cbn [pcost]. rewrite Hl.
  destruct pv; try reflexivity. exfalso. eapply Hnp. reflexivity.
Qed.

Hypothesis Hfin : forall a, fin B a = true.

Lemma untracked_cost a pv : hlookup hp a = Some pv -> tracked pv = false -> (gcost pv <= pcost B a)%nat.
Proof.
  intros Hl Ht. destruct pv; try discriminate Ht;
    try (rewrite (pcost_leaf B a _ (Hfin a) Hl) by (intros; discriminate); cbn [gcost]; lia).
  rewrite (pcost_hop B a addr (Hfin a) Hl). cbn [gcost]. lia.
Qed.

(* tracked cells whose pointer is not yet in the table *)
Definition seenb (l : list (N * N)) (a : N) : bool :=
  match find_ptr l a with Some _ => true | None => false end.

Definition unseen (st : estate) : nat :=
  length (filter (fun av => tracked (snd av) && negb (seenb (prefs st) (fst av))) hp).

Lemma seenb_app ex l a : seenb l a = true -> seenb (ex ++ l) a = true.
Proof.
  induction ex as [|[a' k] ex IH]; cbn [app]; [auto|]. intros H. unfold seenb. cbn [find_ptr].
  destruct (N.eqb a a'); [reflexivity|]. apply IH. exact H.
Qed.

Lemma unseen_pext st st' : pext st st' -> (unseen st' <= unseen st)%nat.
Proof.
  intros [[ex Hex] _]. unfold unseen. apply filter_len_le. intros [a pv] _. cbn [fst snd]. rewrite Hex.
  destruct (tracked pv); [|discriminate]. cbn [andb].
  destruct (seenb (prefs st) a) eqn:E; [|reflexivity]. rewrite (seenb_app ex _ _ E). discriminate.
Qed.

Lemma unseen_le_heap st : (unseen st <= length hp)%nat.
Proof. unfold unseen. clear. induction hp as [|x l IH]; cbn [filter length]; [lia|]. destruct (_ && _); cbn [length]; lia. Qed.

Lemma unseen_set_ptr st a pv : hlookup hp a = Some pv -> tracked pv = true ->
  find_ptr (prefs st) a = None -> (unseen (set_ptr false st a) < unseen st)%nat.
Proof.
  intros Hl Ht Hn. unfold unseen. apply filter_len_lt with (x := (a, pv)).
  - intros [a' pv'] _. cbn [fst snd set_ptr prefs].
    destruct (tracked pv'); [|discriminate]. cbn [andb]. unfold seenb. cbn [find_ptr].
    destruct (N.eqb a' a); [discriminate|]. auto.
  - apply hlookup_in. exact Hl.
  - cbn [fst snd set_ptr prefs]. unfold seenb. cbn [find_ptr]. rewrite N.eqb_refl, Ht. reflexivity.
  - cbn [fst snd]. unfold seenb. rewrite Hn, Ht. reflexivity.
Qed.

Lemma unseen_prefs st st' : prefs st' = prefs st -> unseen st' = unseen st.
Proof. intros H. unfold unseen. rewrite H. reflexivity. Qed.

Lemma unseen_seen st st' : (forall a, seenb (prefs st') a = seenb (prefs st) a) -> unseen st' = unseen st.
Proof.
  intros H. unfold unseen. f_equal. apply filter_ext. intros [a pv]. cbn [fst snd]. rewrite H. reflexivity.
Qed.

Lemma seq_nofuel rec m : rec_pext rec -> forall vs,
  (forall st e, In e vs -> (unseen st <= m)%nat -> rec st e <> EFuel) ->
  forall st, (unseen st <= m)%nat ->
  enc_seq rec st vs <> inr EFuel /\ enc_seq rec st vs <> inl None.
Proof.
  intros Hp. induction vs as [|v vs IH]; intros Hrec st Hm; cbn [enc_seq]; [split; discriminate|].
  destruct (rec st v) as [st1 w1| |] eqn:E.
  - assert (Hm1 : (unseen st1 <= m)%nat) by (pose proof (unseen_pext _ _ (Hp _ _ _ _ E)); lia).
    destruct (IH (fun st e Hin => Hrec st e (or_intror Hin)) st1 Hm1) as [H1 H2].
    destruct (enc_seq rec st1 vs) as [[[st2 ws]|]|e]; [split; discriminate | congruence | exact (conj H1 H2)].
  - split; discriminate.
  - exfalso. eapply Hrec; eauto. left. reflexivity.
Qed.

Lemma anon_nofuel rec m : rec_pext rec -> forall fields vs,
  (forall st e, In e vs -> (unseen st <= m)%nat -> rec st e <> EFuel) ->
  forall st, (unseen st <= m)%nat ->
  enc_anon_fields false rec st fields vs <> inr EFuel /\ enc_anon_fields false rec st fields vs <> inl None.
Proof.
  intros Hp. induction fields as [|f fields IH]; intros vs Hrec st Hm.
  - destruct vs; cbn [enc_anon_fields]; split; discriminate.
  - destruct vs as [|v vs]; cbn [enc_anon_fields]; [split; discriminate|].
    destruct (enc_string false st f) as [st0 wf] eqn:Es.
    assert (Hm0 : (unseen st0 <= m)%nat) by (rewrite (unseen_prefs _ _ (enc_string_prefs _ _ _ _ Es)); exact Hm).
    destruct (rec st0 v) as [st1 w1| |] eqn:E.
    + assert (Hm1 : (unseen st1 <= m)%nat) by (pose proof (unseen_pext _ _ (Hp _ _ _ _ E)); lia).
      destruct (IH vs (fun st e Hin => Hrec st e (or_intror Hin)) st1 Hm1) as [H1 H2].
      destruct (enc_anon_fields false rec st1 fields vs) as [[[st2 ws]|]|e];
        [split; discriminate | congruence | exact (conj H1 H2)].
    + split; discriminate.
    + exfalso. eapply Hrec; eauto. left. reflexivity.
Qed.

Lemma body_nofuel rec m r st v : rec_pext rec ->
  (forall st e, In e (elems v) -> (unseen st <= m)%nat -> rec st e <> EFuel) ->
  (unseen (register false st r) <= m)%nat ->
  enc_body false rec r st v <> EFuel.
Proof.
  intros Hp Hrec Hm.
  assert (Hreg : forall st0, prefs st0 = prefs st -> (unseen (register false st0 r) <= m)%nat).
  { intros st0 E. erewrite unseen_seen; [exact Hm|]. intros a'.
    destruct r as [a|]; cbn [register set_ptr add_count prefs]; rewrite E; [|reflexivity].
    unfold seenb. cbn [find_ptr]. destruct (N.eqb a' a); reflexivity. }
  destruct v; cbn [enc_body]; try discriminate; cbn [elems] in Hrec.
  - destruct (length rows =? 0)%nat; discriminate.
  - destruct (seq_nofuel rec m Hp vs Hrec _ Hm) as [H1 H2].
    destruct (enc_seq rec (register false st r) vs) as [[[st2 ws]|]|e]; [discriminate | congruence | congruence].
  - destruct (seq_nofuel rec m Hp kvs Hrec _ Hm) as [H1 H2].
    destruct (enc_seq rec (register false st r) kvs) as [[[st2 ws]|]|e]; [discriminate | congruence | congruence].
  - destruct (class_lookup st name) as [k|].
    + destruct (seq_nofuel rec m Hp vs Hrec _ Hm) as [H1 H2].
      destruct (enc_seq rec (register false st r) vs) as [[[st2 ws]|]|e]; [discriminate | congruence | congruence].
    + destruct (class_define false st name (N.of_nat (length fields))) as [st0 k] eqn:Ec.
      assert (E0 : prefs st0 = prefs st) by (unfold class_define in Ec; inversion Ec; reflexivity).
      destruct (seq_nofuel rec m Hp vs Hrec _ (Hreg st0 E0)) as [H1 H2].
      destruct (enc_seq rec (register false st0 r) vs) as [[[st2 ws]|]|e]; [discriminate | congruence | congruence].
  - destruct (anon_nofuel rec m Hp fields vs Hrec _ Hm) as [H1 H2].
    destruct (enc_anon_fields false rec (register false st r) fields vs) as [[[st2 ws]|]|e];
      [discriminate | congruence | congruence].
  - destruct (enc_time y mo d h mi s ns utc); discriminate.
  - destruct (seq_nofuel rec m Hp vs Hrec _ Hm) as [H1 H2].
    destruct (enc_seq rec (register false st r) vs) as [[[st2 ws]|]|e]; [discriminate | congruence | congruence].
Qed.

Lemma enc_nofuel : forall f m st v,
  (unseen st <= m)%nat -> (gcost v + m * cellmax <= f)%nat -> enc false hp f st v <> EFuel.
Proof.
  induction f as [|f IH]; intros m st v Hm Hf; [pose proof (gcost_pos v); lia|].
  cbn [enc].
  assert (Hbody : forall st0, (unseen (register false st0 ByCount) <= m)%nat ->
            enc_body false (enc false hp f) ByCount st0 v <> EFuel).
  { intros st0 Hm0. apply (body_nofuel _ m); [apply enc_pext | | exact Hm0].
    intros st1 e Hin Hm1. apply (IH m); [exact Hm1|]. pose proof (gcost_elem _ _ Hin). lia. }
  assert (Hcnt : (unseen (register false st ByCount) <= m)%nat)
    by (rewrite (unseen_prefs st) by reflexivity; exact Hm).
  destruct v; cbn [enc_step]; try discriminate; try (apply Hbody; exact Hcnt).
  - destruct im_zero; discriminate.
  - destruct (enc_string false st s); discriminate.
  - destruct num; discriminate.
  - destruct (hlookup hp addr) as [pv|] eqn:El; [|discriminate].
    cbn [gcost] in Hf. destruct (tracked pv) eqn:Et.
    + cbn [lookup_ptr]. destruct (find_ptr (prefs st) addr) as [k|] eqn:Ek; [discriminate|].
      pose proof (unseen_set_ptr st addr pv El Et Ek) as Hlt.
      pose proof (cell_le _ _ El) as Hc.
      destruct m as [|m]; [lia|].
      apply (body_nofuel _ m); [apply enc_pext | | cbn [register]; lia].
      intros st1 e Hin Hm1. apply (IH m); [exact Hm1|]. pose proof (gcost_elem _ _ Hin). nia.
    + apply (IH m); [exact Hm|]. pose proof (untracked_cost _ _ El Et). lia.
Qed.

End Term.

(* fuel computed from the (finite) heap and the value *)
Definition term_fuel (hp : heap) (v : gval) : nat :=
  gcost hp (S (length hp)) v + length hp * cellmax hp (S (length hp)).

(* chains of pointers to pointers (Go: pointer-to-pointer types) are not circular *)
Definition ptr_chains_ok (hp : heap) : bool := chains_ok hp (S (length hp)).

Theorem enc_terminates : forall hp v st fuel,
  ptr_chains_ok hp = true -> (term_fuel hp v <= fuel)%nat -> enc false hp fuel st v <> EFuel.
Proof.
  intros hp v st fuel Hc Hf. unfold ptr_chains_ok, chains_ok in Hc. unfold term_fuel in Hf.
  apply (enc_nofuel hp (S (length hp)) (fin_all_n hp (S (length hp)) ltac:(lia) Hc) fuel (length hp)).
  - apply unseen_le_heap.
  - exact Hf.
Qed.

(* the guard is needed: a pointer that (through untracked pointers only) points to itself is
   followed for ever, whatever the fuel *)
Lemma pointer_to_itself_never_ends : forall f st, enc false [(1%N, GPtr 1%N)] f st (GPtr 1%N) = EFuel.
Proof. induction f as [|f IH]; intros st; [reflexivity|]. cbn. apply IH. Qed.

(* The body of a tracked pointer is written exactly when the pointer is registered ([enc_step]:
   [enc_body rec (ByPtr a)] starts with [set_ptr]); the table never holds a pointer twice, so each
   body is written at most once per stream. *)
Theorem enc_pointer_registered_once : forall hp fuel st v st' w,
  NoDup (map fst (prefs st)) -> enc false hp fuel st v = EOk st' w -> NoDup (map fst (prefs st')).
Proof. intros hp fuel st v st' w Hn H. exact (proj2 (enc_pext hp fuel _ _ _ _ H) Hn). Qed.

Theorem enc_pointer_written_once : forall hp fuel v st' w,
  enc false hp fuel einit v = EOk st' w -> NoDup (map fst (prefs st')).
Proof. intros hp fuel v st' w H. eapply enc_pointer_registered_once; [|exact H]. constructor. Qed.
