(* C19: under the guard (no hazardous step) nothing is lost: what a client got from a cache
   is exactly the first [cdel] messages taken from it, and everything taken is either
   delivered or still on its way to a poll that will read it. *)
From Coq Require Import List ZArith Bool Arith Lia Permutation.
From HV Require Import Model.Push Proofs.PushBase Proofs.PushInv Proofs.PushData Proofs.PushOrder Proofs.PushLive.
Import ListNotations.

Record InvG (s : state) : Prop := {
  g_held : forall w wk sb, nth_error (works s) w = Some wk -> wsub wk = Some sb -> active_at s (sresp sb) = true;
  g_chan : forall p pl b, nth_error (polls s) p = Some pl -> nth_error (chans s) p = Some (VBatch b) ->
      poll_active pl = true;
  g_eq : forall c ca, nth_error (caches s) c = Some ca -> dmsgs c (delivered s) = firstn (cdel ca) (ctaken ca);
  g_perm : forall c ca, nth_error (caches s) c = Some ca ->
      Permutation (ctaken ca) (dmsgs c (delivered s) ++ live s c)
}.

Lemma InvG_init b : InvG (init_of b).
Proof.
  constructor; cbn; intros;
    match goal with H : nth_error [] ?x = Some _ |- _ => destruct x; discriminate end.
Qed.

Definition chent (chs : list cval) (c q : nat) : list Z :=
  match nth_error chs q with Some v => cval_ents c v | None => [] end.

Definition sending_ents (c : nat) (pc : lpc) : list Z :=
  match pc with LSending sb => ents c (sres sb) | _ => [] end.

Lemma live_poll_unfold s c q ql :
  live_poll s c q ql = if poll_active ql then chent (chans s) c q ++ sending_ents c (ppc ql) else [].
Proof. reflexivity. Qed.

Lemma live_work_eq s s' c wk :
  (forall sb, wsub wk = Some sb -> active_at s' (sresp sb) = active_at s (sresp sb)) ->
  live_work s' c wk = live_work s c wk.
Proof. unfold live_work. destruct (wsub wk) as [sb|]; [|reflexivity]. intros H. rewrite (H sb eq_refl). reflexivity. Qed.

Lemma chent_upd_nil chs c r v v' q :
  nth_error chs r = Some v -> cval_ents c v = [] -> cval_ents c v' = [] ->
  chent (upd r v' chs) c q = chent chs c q.
Proof.
  intros Hr Hv Hv'. unfold chent. destruct (Nat.eq_dec r q) as [->|Hne].
  - rewrite nth_error_upd_eq by (eapply nth_error_lt; eauto). rewrite Hr. congruence.
  - rewrite nth_error_upd_neq by exact Hne. reflexivity.
Qed.

Lemma active_at_set s s0 p pl pc' r :
  nth_error (polls s) p = Some pl -> polls s0 = upd p {| pid := pid pl; ppc := pc' |} (polls s) ->
  active_at s0 r = if Nat.eqb r p then poll_active {| pid := pid pl; ppc := pc' |} else active_at s r.
Proof.
  intros Hp Ep. unfold active_at. rewrite Ep. destruct (Nat.eqb r p) eqn:E.
  - apply Nat.eqb_eq in E. subst. rewrite nth_error_upd_eq by (eapply nth_error_lt; eauto). reflexivity.
  - apply Nat.eqb_neq in E. rewrite nth_error_upd_neq by auto. reflexivity.
Qed.

(* steps of poll p that neither touch caches nor move a batch *)
Lemma InvG_poll_quiet s s0 p pl pc' chs' ws' :
  InvG s -> nth_error (polls s) p = Some pl ->
  caches s0 = caches s -> delivered s0 = delivered s -> works s0 = ws' -> chans s0 = chs' ->
  polls s0 = upd p {| pid := pid pl; ppc := pc' |} (polls s) ->
  (ws' = works s \/ exists f, ws' = works s ++ [ {| wf := f; wsub := None |} ]) ->
  (forall c q, q <> p -> chent chs' c q = chent (chans s) c q) ->
  (forall c, live_poll s0 c p {| pid := pid pl; ppc := pc' |} = live_poll s c p pl) ->
  (poll_active {| pid := pid pl; ppc := pc' |} = poll_active pl \/ nohold (works s) p) ->
  (forall q b, nth_error chs' q = Some (VBatch b) ->
     (q <> p -> nth_error (chans s) q = Some (VBatch b)) /\ (q = p -> poll_active {| pid := pid pl; ppc := pc' |} = true)) ->
  InvG s0.
Proof.
  intros [A B C D] Hp Ec Ed Ew Ech Epl Hws Hch Hlp Hact Hb.
  assert (Hlt : p < length (polls s)) by (eapply nth_error_lt; eauto).
  assert (Hactw : forall wk sb, In wk (works s) -> wsub wk = Some sb ->
             active_at s0 (sresp sb) = active_at s (sresp sb)).
  { intros wk sb Hin Hs. rewrite (active_at_set s s0 p pl pc' _ Hp Epl).
    destruct (Nat.eqb (sresp sb) p) eqn:E; [|reflexivity]. apply Nat.eqb_eq in E.
    destruct Hact as [Ha|Hn].
    - rewrite Ha, E. unfold active_at. rewrite Hp. reflexivity.
    - apply In_nth_error in Hin. destruct Hin as (w & Hw). elim (Hn _ _ _ Hw Hs E). }
  assert (Hinw : forall w wk, nth_error (works s0) w = Some wk -> wsub wk = None \/ In wk (works s)).
  { intros w wk Hw. rewrite Ew in Hw. destruct Hws as [->|(f & ->)].
    - right. eapply nth_error_In; eauto.
    - snoc_cases Hw; [right; eapply nth_error_In; eauto|left; reflexivity]. }
  assert (Hlive : forall c, live s0 c = live s c).
  { intros c. rewrite !live_split. f_equal.
    - apply LPc_same; [rewrite Epl, length_upd; reflexivity|].
      intros q ql' Hq. rewrite Epl in Hq. upd_cases Hq.
      + exists pl. split; [exact Hp|apply Hlp].
      + exists ql'. split; [exact Hq|]. rewrite !live_poll_unfold, Ech, Hch by auto. reflexivity.
    - destruct Hws as [E|(f & E)]; rewrite E in Ew.
      + apply LWc_same; [rewrite Ew; reflexivity|rewrite Ew].
        intros w wk Hw. exists wk. split; [exact Hw|]. apply live_work_eq.
        intros sb Hs. eapply Hactw; eauto. eapply nth_error_In; eauto.
      + eapply LWc_snoc; [exact Ew|].
        intros wk Hin. apply live_work_eq. intros sb Hs. eapply Hactw; eauto. }
  constructor.
  - intros w wk sb Hw Hs. destruct (Hinw _ _ Hw) as [E|Hin]; [congruence|].
    rewrite (Hactw _ _ Hin Hs). apply In_nth_error in Hin. destruct Hin as (w0 & Hw0). eauto.
  - intros q ql b Hq Hqb. rewrite Ech in Hqb. destruct (Hb _ _ Hqb) as [Hb1 Hb2].
    rewrite Epl in Hq. upd_cases Hq; [auto|]. eapply B; eauto.
  - rewrite Ec, Ed. exact C.
  - intros c ca Hc. rewrite Ec in Hc. rewrite Ed, Hlive. auto.
Qed.

(* ---- multiset bookkeeping *)

Lemma perm_insert (X a r1 l r2 w m : list Z) :
  Permutation X (a ++ (r1 ++ l ++ r2) ++ w) -> Permutation (X ++ m) (a ++ (r1 ++ (l ++ m) ++ r2) ++ w).
Proof.
  intros H. eapply Permutation_trans; [apply Permutation_app_tail; exact H|].
  repeat rewrite <- app_assoc. do 3 apply Permutation_app_head.
  rewrite (app_assoc r2 w m). apply Permutation_app_comm.
Qed.

Lemma perm_deliver (X a r1 x r2 w : list Z) :
  Permutation X (a ++ (r1 ++ x ++ r2) ++ w) -> Permutation X ((a ++ x) ++ (r1 ++ [] ++ r2) ++ w).
Proof.
  intros H. eapply Permutation_trans; [exact H|]. cbn [app].
  repeat rewrite <- app_assoc. apply Permutation_app_head.
  rewrite (app_assoc r1 x). rewrite (app_assoc x r1).
  apply Permutation_app_tail. apply Permutation_app_comm.
Qed.

Lemma perm_move (X a r1 r2 w1 x w2 : list Z) :
  Permutation X (a ++ (r1 ++ [] ++ r2) ++ (w1 ++ x ++ w2)) ->
  Permutation X (a ++ (r1 ++ x ++ r2) ++ (w1 ++ [] ++ w2)).
Proof.
  intros H. eapply Permutation_trans; [exact H|]. cbn [app].
  repeat rewrite <- app_assoc. do 2 apply Permutation_app_head.
  (* r2 ++ w1 ++ x ++ w2  ~  x ++ r2 ++ w1 ++ w2 *)
  rewrite (app_assoc r2 w1 (x ++ w2)). rewrite (app_assoc (r2 ++ w1) x w2).
  rewrite (app_assoc r2 w1 w2). rewrite (app_assoc x (r2 ++ w1) w2).
  apply Permutation_app_tail. apply Permutation_app_comm.
Qed.

Lemma firstn_length_le {A} (l : list A) n : n <= length l -> length (firstn n l) = n.
Proof. intros H. rewrite firstn_length. lia. Qed.

Lemma ents_take_res c sb key c0 ca :
  ents c (take_res sb key c0 ca) = ents c (sres sb) ++ (if Nat.eqb c0 c then cmsgs ca else []).
Proof.
  unfold take_res. destruct (cmsgs ca) as [|m ms] eqn:E.
  - destruct (Nat.eqb c0 c); rewrite app_nil_r; reflexivity.
  - rewrite ents_app. cbn. unfold e_cache. cbn. rewrite app_nil_r. reflexivity.
Qed.

(* a Take by a taker whose result is live *)
Lemma g_take s s' c0 ca :
  InvG s -> Inv4 s -> nth_error (caches s) c0 = Some ca ->
  caches s' = upd c0 (take_cache ca) (caches s) -> delivered s' = delivered s ->
  (forall c, exists A B x, live s c = A ++ x ++ B /\
                          live s' c = A ++ (x ++ (if Nat.eqb c0 c then cmsgs ca else [])) ++ B) ->
  (forall c cb, nth_error (caches s') c = Some cb -> dmsgs c (delivered s') = firstn (cdel cb) (ctaken cb)) /\
  (forall c cb, nth_error (caches s') c = Some cb -> Permutation (ctaken cb) (dmsgs c (delivered s') ++ live s' c)).
Proof.
  intros [_ _ C D] HO Hc0 Ec Ed Hl. rewrite Ec, Ed. split.
  - intros c cb Hcb. upd_cases Hcb; [|auto].
    cbn. destruct (o_hw s HO _ _ Hc0) as [Hle _]. rewrite firstn_app_le by exact Hle. auto.
  - intros c cb Hcb. destruct (Hl c) as (A & B & x & E1 & E2). rewrite E2.
    upd_cases Hcb.
    + rewrite Nat.eqb_refl. cbn [ctaken take_cache].
      pose proof (D _ _ Hc0) as P. rewrite E1 in P.
      rewrite <- (app_nil_r (A ++ x ++ B)) in P.
      apply (perm_insert (ctaken ca) (dmsgs c (delivered s)) A x B [] (cmsgs ca)) in P.
      rewrite app_nil_r in P. exact P.
    + apply Nat.eqb_neq in Heq. rewrite Heq, app_nil_r. rewrite <- E1. auto.
Qed.

Lemma chent_same_upd_other chs c r v q : q <> r -> chent (upd r v chs) c q = chent chs c q.
Proof. intros H. unfold chent. rewrite nth_error_upd_neq by auto. reflexivity. Qed.

Lemma chent_at chs c q v : nth_error chs q = Some v -> chent chs c q = cval_ents c v.
Proof. intros H. unfold chent. rewrite H. reflexivity. Qed.

Ltac lp_simpl := rewrite ?live_poll_unfold; unfold poll_active; cbn [ppc pid sending_ents].

Lemma flat_map_nil {A B} (f : A -> list B) l : (forall x, In x l -> f x = []) -> flat_map f l = [].
Proof.
  induction l as [|x l IH]; intros H; cbn; [reflexivity|].
  rewrite H by (left; reflexivity). apply IH. intros y Hy. apply H. right; exact Hy.
Qed.

Lemma cache_in_dec (b : batch) c : (forall e, In e b -> e_cache e <> c) \/ (exists e, In e b /\ e_cache e = c).
Proof.
  induction b as [|e b IH]; [left; intros e []|].
  destruct (Nat.eq_dec (e_cache e) c) as [E|E]; [right; exists e; split; [left; reflexivity|exact E]|].
  destruct IH as [IH|(e' & Hin & E')]; [left|right; exists e'; split; [right; exact Hin|exact E']].
  intros e' [<-|Hin]; auto.
Qed.

Lemma InvG_recv_batch s p pl b :
  Inv1 s -> Inv2 s -> Inv4 s -> InvG s -> nth_error (polls s) p = Some pl ->
  ppc pl = LRecv \/ ppc pl = LWait \/ ppc pl = LTimedOut -> nth_error (chans s) p = Some (VBatch b) ->
  let s' := set_poll (set_chans (set_delivered (set_caches s (fst (deliver (pid pl) b (caches s) (delivered s))))
                                          (snd (deliver (pid pl) b (caches s) (delivered s))))
                           (upd p VEmpty (chans s)))
                p (pid pl) (LDone (RBatch b)) in
  Inv4 s' -> InvG s'.
Proof.
  intros HJ HD HO HG Hp Hpc Hb s' HO'.
  assert (Hlt : p < length (polls s)) by (eapply nth_error_lt; eauto).
  assert (Hpa : poll_active pl = true) by (unfold poll_active; destruct Hpc as [-> |[-> | ->]]; reflexivity).
  assert (Hfree : free s p) by (eapply free_of_nonempty; eauto; discriminate).
  pose proof (deliver_same (pid pl) b (caches s) (delivered s)) as Hsame.
  pose proof (t_chan s HD _ _ _ Hp Hb) as [Hb1 Hb2].
  assert (Hblive : forall e, In e b -> hw_ok (caches s) e) by (intros; eapply o_chan; eauto).
  destruct (deliver_spec (pid pl) b (caches s) (delivered s) (o_hw s HO) Hb1 Hb2 Hblive) as [_ Hsame2].
  assert (Hact : forall r, active_at s' r = if Nat.eqb r p then false else active_at s r).
  { intros r. rewrite (active_at_set s s' p pl (LDone (RBatch b)) r Hp eq_refl). reflexivity. }
  assert (Hactw : forall w wk sb, nth_error (works s) w = Some wk -> wsub wk = Some sb ->
            active_at s' (sresp sb) = active_at s (sresp sb)).
  { intros w wk sb Hw Hs. rewrite Hact. destruct (Nat.eqb (sresp sb) p) eqn:E; [|reflexivity].
    apply Nat.eqb_eq in E. destruct Hfree as [_ Hf]. elim (Hf _ _ _ Hw Hs E). }
  assert (HLW : forall c, LWc s' c = LWc s c).
  { intros c. apply LWc_same; [reflexivity|]. intros w wk Hw. exists wk. split; [exact Hw|].
    apply live_work_eq. intros sb Hs. eapply Hactw; eauto. }
  assert (HLP : forall c, exists R1 R2, LPc s c = R1 ++ ents c b ++ R2 /\ LPc s' c = R1 ++ [] ++ R2).
  { intros c.
    destruct (LPc_change s s' c p pl {| pid := pid pl; ppc := LDone (RBatch b) |} Hp eq_refl) as (R1 & R2 & E1 & E2).
    { intros q ql Hne Hq. rewrite !live_poll_unfold. unfold s'. sproj. rewrite chent_same_upd_other by auto. reflexivity. }
    exists R1, R2. split.
    - rewrite E1. rewrite live_poll_unfold, Hpa, (chent_at _ c p _ Hb). cbn [cval_ents].
      destruct Hpc as [-> |[-> | ->]]; cbn [sending_ents]; rewrite app_nil_r; reflexivity.
    - rewrite E2. reflexivity. }
  assert (Hdl : forall c, dmsgs c (delivered s') = dmsgs c (delivered s) ++ ents c b).
  { intros c. unfold s'. sproj. rewrite deliver_log, dmsgs_app, dmsgs_pairs. reflexivity. }
  assert (Hperm : forall c cb, nth_error (caches s') c = Some cb ->
             Permutation (ctaken cb) (dmsgs c (delivered s') ++ live s' c)).
  { intros c cb Hcb. unfold s' in Hcb. sproj.
    destruct (same_but_cdel_back _ _ _ _ Hsame Hcb) as (ca & n & Hca & ->). cbn [ctaken set_cdel].
    pose proof (g_perm s HG _ _ Hca) as P. destruct (HLP c) as (R1 & R2 & E1 & E2).
    rewrite Hdl, !live_split, E2, HLW. rewrite live_split, E1 in P.
    apply perm_deliver. exact P. }
  constructor.
  - intros w wk sb Hw Hs. change (nth_error (works s) w = Some wk) in Hw.
    rewrite (Hactw _ _ _ Hw Hs). eapply g_held; eauto.
  - intros q ql b0 Hq Hb0. unfold s' in Hq, Hb0. sproj. upd_cases Hb0; [discriminate|].
    rewrite nth_error_upd_neq in Hq by auto. eapply g_chan; eauto.
  - intros c cb Hcb. pose proof (Hperm _ _ Hcb) as P.
    unfold s' in Hcb. sproj.
    destruct (same_but_cdel_back _ _ _ _ Hsame Hcb) as (ca & n & Hca & Ecb).
    destruct (cache_in_dec b c) as [Hnone|(e & Hin & Ec)].
    + rewrite Hsame2 in Hcb by exact Hnone. rewrite Hca in Hcb. injection Hcb as <-.
      rewrite Hdl, ents_nil_other by exact Hnone. rewrite app_nil_r. eapply g_eq; eauto.
    + (* the batch has an entry for this cache: nothing else is on its way for it *)
      assert (Hown : forall id' e', ent_ok (caches s) id' e' -> e_cache e' = c -> id' = pid pl).
      { intros id' e' (ca1 & _ & _ & Hc1 & Ho1 & _) Ec1.
        eapply Forall_forall in Hb1; [|exact Hin]. destruct Hb1 as (ca2 & _ & _ & Hc2 & Ho2 & _).
        rewrite Ec1 in Hc1. rewrite Ec in Hc2. rewrite Hc1 in Hc2. inversion Hc2; subst ca2.
        rewrite Ho1 in Ho2. inversion Ho2. reflexivity. }
      assert (Hlive0 : live s' c = []).
      { rewrite live_split. replace (LPc s' c) with (@nil Z); [replace (LWc s' c) with (@nil Z); [reflexivity|]|].
        - symmetry. apply flat_map_nil. intros wk Hwk. apply In_nth_error in Hwk. destruct Hwk as (w & Hw).
          change (nth_error (works s) w = Some wk) in Hw.
          unfold live_work. destruct (wsub wk) as [sb|] eqn:Hs; [|reflexivity].
          rewrite (Hactw _ _ _ Hw Hs). destruct (active_at s (sresp sb)) eqn:Ha; [|reflexivity].
          apply ents_nil_other. intros e' Hin' Ec'.
          pose proof (t_wsub s HD _ _ _ Hw Hs) as (_ & Hq1 & _). eapply Forall_forall in Hq1; [|exact Hin'].
          pose proof (Hown _ _ Hq1 Ec') as Hid.
          destruct (i_held s HJ _ _ _ Hw Hs) as (plr & A & B & C & D & E).
          assert (sresp sb = p).
          { eapply (i_uniq s HJ (sresp sb) p); eauto; [congruence|].
            unfold active_at in Ha. rewrite A in Ha. exact Ha. }
          destruct Hfree as [_ Hf]. eapply Hf; eauto.
        - symmetry. apply flat_mapi_nil. intros q ql Hq. cbn [Nat.add].
          unfold s' in Hq. sproj. rewrite live_poll_unfold. upd_cases Hq; [reflexivity|].
          destruct (poll_active ql) eqn:Ha; [|reflexivity].
          unfold s'. sproj. rewrite chent_same_upd_other by auto.
          replace (chent (chans s) c q) with (@nil Z); [replace (sending_ents c (ppc ql)) with (@nil Z); [reflexivity|]|].
          + symmetry. destruct (ppc ql) as [| | |sb| | | | |r] eqn:Epc; try reflexivity. cbn.
            apply ents_nil_other. intros e' Hin' Ec'.
            pose proof (t_psub s HD _ _ _ Hq Epc) as (_ & Hq1 & _). eapply Forall_forall in Hq1; [|exact Hin'].
            pose proof (Hown _ _ Hq1 Ec') as Hid.
            pose proof (i_pc s HJ _ _ Hq) as Hreq. rewrite Epc in Hreq. cbn in Hreq. destruct Hreq as (_ & Hsid & _).
            apply Heq. symmetry. eapply (i_uniq s HJ q p); eauto. congruence.
          + symmetry. unfold chent. destruct (nth_error (chans s) q) as [[| |b']|] eqn:Eq; try reflexivity. cbn.
            apply ents_nil_other. intros e' Hin' Ec'.
            pose proof (t_chan s HD _ _ _ Hq Eq) as [Hq1 _]. eapply Forall_forall in Hq1; [|exact Hin'].
            pose proof (Hown _ _ Hq1 Ec') as Hid.
            apply Heq. symmetry. eapply (i_uniq s HJ q p); eauto. }
      rewrite Hlive0, app_nil_r in P.
      destruct (o_hw s' HO' c cb) as [Hle Hsub]; [unfold s'; sproj; exact Hcb|].
      apply Subseq_same_length; [exact Hsub|].
      rewrite <- (Permutation_length P). rewrite firstn_length. lia.
  - exact Hperm.
Qed.

Lemma InvG_poll_step s p pl t s' :
  InvAll s -> Inv5 s -> InvG s -> nth_error (polls s) p = Some pl -> poll_rel s p pl t s' -> tag_ok s t ->
  InvG s'.
Proof.
  intros [HJ HD HO] H5 HG Hp Hr Htag.
  assert (Hlt : p < length (polls s)) by (eapply nth_error_lt; eauto).
  assert (HO' : Inv4 s') by (eapply Inv4_step; eauto; eapply ST_poll; eauto).
  pose proof (i_pc s HJ _ _ Hp) as Hreq.
  inversion Hr; subst; clear Hr.
  - (* popold_none *)
    rewrite H in Hreq. cbn in Hreq.
    eapply (InvG_poll_quiet s _ p pl LPopSig (chans s) (works s) HG Hp); [reflexivity|reflexivity|reflexivity|reflexivity|reflexivity|..].
    + left; reflexivity.
    + intros cx q _; reflexivity.
    + intros cx. lp_simpl; rewrite H; cbn [sending_ents]. reflexivity.
    + left. unfold poll_active. rewrite H. reflexivity.
    + intros q b Hq. split; auto.
  - (* popold_some *)
    rewrite H in Hreq. cbn in Hreq.
    eapply (InvG_poll_quiet s _ p pl LPopSig (upd r VNil (chans s)) (works s) HG Hp); [reflexivity|reflexivity|reflexivity|reflexivity|reflexivity|..].
    + left; reflexivity.
    + intros cx q _. eapply chent_upd_nil; eauto.
    + intros cx. lp_simpl; rewrite H; cbn [sending_ents]. sproj. f_equal. eapply chent_upd_nil; eauto.
    + left. unfold poll_active. rewrite H. reflexivity.
    + intros q b Hq. upd_cases Hq; [discriminate|]. split; auto.
  - (* popsig *)
    eapply (InvG_poll_quiet s _ p pl LSend (chans s) (works s) HG Hp); [reflexivity|reflexivity|reflexivity|reflexivity|reflexivity|..].
    + left; reflexivity.
    + intros cx q _; reflexivity.
    + intros cx. lp_simpl; rewrite H; cbn [sending_ents]. reflexivity.
    + left. unfold poll_active. rewrite H. reflexivity.
    + intros q b Hq. split; auto.
  - (* send *)
    eapply (InvG_poll_quiet s _ p pl (LSending (sub0 (pid pl) p)) (chans s) (works s) HG Hp); [reflexivity|reflexivity|reflexivity|reflexivity|reflexivity|..].
    + left; reflexivity.
    + intros cx q _; reflexivity.
    + intros cx. lp_simpl; rewrite H; cbn [sending_ents]. reflexivity.
    + left. unfold poll_active. rewrite H. reflexivity.
    + intros q b Hq. split; auto.
  - (* sending *)
    rewrite H in Hreq. cbn in Hreq. destruct Hreq as (Hc & Hsid & Hrs & Hpb).
    pose proof (s_psub s H5 _ _ _ Hp H) as Hshape.
    destruct (sub_rel_shape _ _ _ _ Hshape H0) as (Hsh1 & Hsh2 & Hsh3).
    assert (Hact : forall pc', (forall r, pc' <> LDone r) ->
              poll_active {| pid := pid pl; ppc := pc' |} = poll_active pl).
    { intros pc' Hn. unfold poll_active. rewrite H. cbn. destruct pc'; try reflexivity. elim (Hn r); reflexivity. }
    inversion H0; subst o; subst s1.
    { (* load *)
    eapply (InvG_poll_quiet s _ p pl _ (chans s) (works s) HG Hp); [reflexivity|reflexivity|reflexivity|reflexivity|reflexivity|..].
    + left; reflexivity.
    + intros cx q _; reflexivity.
    + intros cx. lp_simpl; rewrite H; cbn [sending_ents]. cbn. destruct Hshape as (E & _). rewrite (E H1). reflexivity.
    + left. apply Hact. discriminate.
    + intros q b Hq. split; auto.
    }
    { (* nil *)
      rewrite Hrs in *.
      assert (Hres : sres sb = []).
      { eapply (Hsh3 VNil); eauto. sproj. apply nth_error_upd_eq. eapply nth_error_lt; eauto. }
    eapply (InvG_poll_quiet s _ p pl LRecv (upd p VNil (chans s)) (works s) HG Hp); [reflexivity|reflexivity|reflexivity|reflexivity|reflexivity|..].
    + left; reflexivity.
    + intros cx q Hne. apply chent_same_upd_other; auto.
    + intros cx. lp_simpl; rewrite H; cbn [sending_ents]. sproj. rewrite Hres.
      rewrite (chent_at (upd p VNil (chans s)) cx p VNil) by (apply nth_error_upd_eq; eapply nth_error_lt; eauto).
      rewrite (chent_at (chans s) cx p VEmpty) by exact Hc. reflexivity.
    + left. apply Hact. discriminate.
    + intros q b Hq. upd_cases Hq; [discriminate|]. split; auto; intros; congruence.
    }
    { (* false *)
    eapply (InvG_poll_quiet s _ p pl LUpsert (chans s) (works s) HG Hp); [reflexivity|reflexivity|reflexivity|reflexivity|reflexivity|..].
    + left; reflexivity.
    + intros cx q _; reflexivity.
    + intros cx. lp_simpl; rewrite H; cbn [sending_ents]. cbn. rewrite H4. reflexivity.
    + left. apply Hact. discriminate.
    + intros q b Hq. split; auto.
    }
    { (* batch *)
      rewrite Hrs in *.
    eapply (InvG_poll_quiet s _ p pl LRecv (upd p (VBatch (sres sb)) (chans s)) _ HG Hp); [reflexivity|reflexivity|reflexivity|reflexivity|reflexivity|..].
    + right. eexists. reflexivity.
    + intros cx q Hne. apply chent_same_upd_other; auto.
    + intros cx. lp_simpl; rewrite H; cbn [sending_ents]. sproj.
      rewrite (chent_at (upd p (VBatch (sres sb)) (chans s)) cx p (VBatch (sres sb)))
        by (apply nth_error_upd_eq; eapply nth_error_lt; eauto).
      rewrite (chent_at (chans s) cx p VEmpty) by exact Hc. cbn. rewrite app_nil_r. reflexivity.
    + left. apply Hact. discriminate.
    + intros q b Hq. upd_cases Hq; [split; [congruence|reflexivity]|]. split; auto; intros; congruence.
    }
    { (* skip *)
    eapply (InvG_poll_quiet s _ p pl _ (chans s) (works s) HG Hp); [reflexivity|reflexivity|reflexivity|reflexivity|reflexivity|..].
    + left; reflexivity.
    + intros cx q _; reflexivity.
    + intros cx. lp_simpl; rewrite H; cbn [sending_ents]. reflexivity.
    + left. apply Hact. discriminate.
    + intros q b Hq. split; auto.
    }
    { (* visit *)
    eapply (InvG_poll_quiet s _ p pl _ (chans s) (works s) HG Hp); [reflexivity|reflexivity|reflexivity|reflexivity|reflexivity|..].
    + left; reflexivity.
    + intros cx q _; reflexivity.
    + intros cx. lp_simpl; rewrite H; cbn [sending_ents]. reflexivity.
    + left. apply Hact. discriminate.
    + intros q b Hq. split; auto.
    }
    (* take *)
    set (sb' := sb_mk sb SVisit (skeys sb) (ssize sb) (take_res sb key c ca)).
    set (s2 := set_poll (set_caches s (upd c (take_cache ca) (caches s))) p (pid pl) (LSending sb')).
    assert (Hlive : forall c1, exists A B x, live s c1 = A ++ x ++ B /\
               live s2 c1 = A ++ (x ++ (if Nat.eqb c c1 then cmsgs ca else [])) ++ B).
    { intros c1.
      destruct (LPc_change s s2 c1 p pl {| pid := pid pl; ppc := LSending sb' |} Hp eq_refl) as (R1 & R2 & E1 & E2).
      { intros q ql Hne Hq. reflexivity. }
      assert (EW : LWc s2 c1 = LWc s c1).
      { apply LWc_same; [reflexivity|]. intros w wk Hw. exists wk. split; [exact Hw|].
        apply live_work_eq. intros sb0 _. rewrite (active_at_set s s2 p pl (LSending sb') _ Hp eq_refl).
        destruct (Nat.eqb (sresp sb0) p) eqn:E; [|reflexivity]. apply Nat.eqb_eq in E. rewrite E.
        unfold active_at. rewrite Hp. unfold poll_active. rewrite H. reflexivity. }
      exists R1, (R2 ++ LWc s c1), (live_poll s c1 p pl). split.
      - rewrite live_split, E1. repeat rewrite <- app_assoc. reflexivity.
      - rewrite live_split, E2, EW. repeat rewrite <- app_assoc. f_equal.
        rewrite !live_poll_unfold. unfold poll_active. rewrite H. cbn [ppc sending_ents].
        unfold sb'. cbn [sres sb_mk]. rewrite ents_take_res. unfold s2. sproj.
        repeat rewrite <- app_assoc. reflexivity. }
    destruct (g_take s s2 c ca HG HO H2 eq_refl eq_refl Hlive) as [C' D'].
    constructor.
    + intros w wk sb0 Hw Hs. change (nth_error (works s) w = Some wk) in Hw.
      rewrite (active_at_set s s2 p pl (LSending sb') _ Hp eq_refl).
      destruct (Nat.eqb (sresp sb0) p); [reflexivity|]. eapply g_held; eauto.
    + intros q ql b Hq Hb. change (nth_error (chans s) q = Some (VBatch b)) in Hb.
      unfold s2 in Hq. sproj. upd_cases Hq; [reflexivity|]. eapply g_chan; eauto.
    + exact C'.
    + exact D'.
  - (* recv_nil *)
    assert (Hfree : free s p) by (eapply free_of_nonempty; eauto; discriminate).
    eapply (InvG_poll_quiet s _ p pl (LDone RNil) (upd p VEmpty (chans s)) (works s) HG Hp); [reflexivity|reflexivity|reflexivity|reflexivity|reflexivity|..].
    + left; reflexivity.
    + intros cx q Hne. apply chent_same_upd_other; auto.
    + intros cx. lp_simpl. rewrite (chent_at (chans s) cx p VNil) by exact H0.
      destruct H as [-> |[-> | ->]]; reflexivity.
    + right. apply Hfree.
    + intros q b Hq. upd_cases Hq; [discriminate|]. split; auto; intros; congruence.
  - (* recv_batch *)
    eapply (InvG_recv_batch s p pl b); eauto.
  - (* upsert_none *)
    eapply (InvG_poll_quiet s _ p pl LWait (chans s) (works s) HG Hp); [reflexivity|reflexivity|reflexivity|reflexivity|reflexivity|..].
    + left; reflexivity.
    + intros cx q _; reflexivity.
    + intros cx. lp_simpl; rewrite H; cbn [sending_ents]. reflexivity.
    + left. unfold poll_active. rewrite H. reflexivity.
    + intros q b Hq. split; auto.
  - (* upsert_some *)
    eapply (InvG_poll_quiet s _ p pl LWait (upd r VNil (chans s)) (works s) HG Hp); [reflexivity|reflexivity|reflexivity|reflexivity|reflexivity|..].
    + left; reflexivity.
    + intros cx q _. eapply chent_upd_nil; eauto.
    + intros cx. lp_simpl; rewrite H; cbn [sending_ents]. sproj. f_equal. eapply chent_upd_nil; eauto.
    + left. unfold poll_active. rewrite H. reflexivity.
    + intros q b Hq. upd_cases Hq; [discriminate|]. split; auto.
  - (* timeout *)
    cbn in Htag. destruct Htag as (pl0 & Hp0 & Hreg). rewrite Hp in Hp0. inversion Hp0; subst pl0.
    destruct (i_reg s HJ _ _ Hreg) as (pl1 & A & B & C & D & E).
    eapply (InvG_poll_quiet s _ p pl (LDone RTimeout) (chans s) _ HG Hp); [reflexivity|reflexivity|reflexivity|reflexivity|reflexivity|..].
    + right. eexists. reflexivity.
    + intros cx q _; reflexivity.
    + intros cx. lp_simpl; rewrite H; cbn [sending_ents]. rewrite (chent_at (chans s) cx p VEmpty) by exact D. reflexivity.
    + right. exact E.
    + intros q b Hq. split; auto. intros ->. congruence.
  - (* timer (fixed) *)
    eapply (InvG_poll_quiet s _ p pl LTimedOut (chans s) (works s) HG Hp); [reflexivity|reflexivity|reflexivity|reflexivity|reflexivity|..].
    + left; reflexivity.
    + intros cx q _; reflexivity.
    + intros cx. lp_simpl; rewrite H; cbn [sending_ents]. reflexivity.
    + left. unfold poll_active. rewrite H. reflexivity.
    + intros q b Hq. split; auto.
  - (* withdraw (fixed) *)
    destruct (i_reg s HJ _ _ H0) as (pl1 & A & B & C & D & E).
    eapply (InvG_poll_quiet s _ p pl (LDone RTimeout) (chans s) _ HG Hp); [reflexivity|reflexivity|reflexivity|reflexivity|reflexivity|..].
    + right. eexists. reflexivity.
    + intros cx q _; reflexivity.
    + intros cx. lp_simpl; rewrite H; cbn [sending_ents]. rewrite (chent_at (chans s) cx p VEmpty) by exact D. reflexivity.
    + right. exact E.
    + intros q b Hq. split; auto. intros ->. congruence.
Qed.

(* steps of worker w that neither take from a cache nor move a batch *)
Lemma InvG_work_quiet s s0 w wk f' sbo chs' :
  InvG s -> nth_error (works s) w = Some wk ->
  delivered s0 = delivered s -> polls s0 = polls s -> chans s0 = chs' ->
  works s0 = upd w {| wf := f'; wsub := sbo |} (works s) ->
  (forall c cb, nth_error (caches s0) c = Some cb ->
     exists ca, nth_error (caches s) c = Some ca /\ ctaken cb = ctaken ca /\ cdel cb = cdel ca) ->
  (forall c q, chent chs' c q = chent (chans s) c q) ->
  (forall c, live_work s0 c {| wf := f'; wsub := sbo |} = live_work s c wk) ->
  (forall sb, sbo = Some sb -> active_at s (sresp sb) = true) ->
  (forall q b, nth_error chs' q = Some (VBatch b) -> nth_error (chans s) q = Some (VBatch b)) ->
  InvG s0.
Proof.
  intros [A B C D] Hw Ed Ep Ech Ew Hca Hch Hlw Hsbo Hb.
  assert (Hact : forall r, active_at s0 r = active_at s r) by (intros r; unfold active_at; rewrite Ep; reflexivity).
  assert (Hlive : forall c, live s0 c = live s c).
  { intros c. rewrite !live_split. f_equal.
    - apply LPc_same; [rewrite Ep; reflexivity|]. intros q ql Hq. rewrite Ep in Hq. exists ql. split; [exact Hq|].
      rewrite !live_poll_unfold, Ech, Hch. reflexivity.
    - apply LWc_same; [rewrite Ew, length_upd; reflexivity|]. intros w0 wk0 Hw0. rewrite Ew in Hw0. upd_cases Hw0.
      + exists wk. split; [exact Hw|apply Hlw].
      + exists wk0. split; [exact Hw0|]. apply live_work_eq. intros; apply Hact. }
  constructor.
  - intros w0 wk0 sb Hw0 Hs. rewrite Hact. rewrite Ew in Hw0. upd_cases Hw0; [cbn in Hs; auto|eauto].
  - intros q ql b Hq Hqb. rewrite Ep in Hq. rewrite Ech in Hqb. eauto.
  - intros c cb Hcb. destruct (Hca _ _ Hcb) as (ca & Hc & E1 & E2). rewrite Ed, E1, E2. auto.
  - intros c cb Hcb. destruct (Hca _ _ Hcb) as (ca & Hc & E1 & E2). rewrite Ed, E1, Hlive. auto.
Qed.

Lemma live_work_nil s c f sb : sres sb = [] -> live_work s c {| wf := f; wsub := Some sb |} = [].
Proof. intros E. unfold live_work. cbn. rewrite E. destruct (active_at s (sresp sb)); reflexivity. Qed.

Lemma live_work_nil' s c wk sb : wsub wk = Some sb -> sres sb = [] -> live_work s c wk = [].
Proof. intros Hs E. unfold live_work. rewrite Hs, E. destruct (active_at s (sresp sb)); reflexivity. Qed.

Lemma live_work_some s c wk sb : wsub wk = Some sb ->
  live_work s c wk = if active_at s (sresp sb) then ents c (sres sb) else [].
Proof. intros Hs. unfold live_work. rewrite Hs. reflexivity. Qed.

Lemma upd_same {A} (l : list A) : forall n x, nth_error l n = Some x -> upd n x l = l.
Proof.
  induction l as [|y l IH]; intros [|n] x H; cbn in *; try discriminate; [congruence|]. f_equal. auto.
Qed.

Lemma LWc_congr s1 s2 c : polls s1 = polls s2 -> works s1 = works s2 -> LWc s1 c = LWc s2 c.
Proof.
  intros Ep Ew. apply LWc_same; [rewrite Ew; reflexivity|]. intros w wk Hw. rewrite Ew in Hw.
  exists wk. split; [exact Hw|]. apply live_work_eq. intros sb _. unfold active_at. rewrite Ep. reflexivity.
Qed.

Lemma LPc_congr s1 s2 c : polls s1 = polls s2 -> chans s1 = chans s2 -> LPc s1 c = LPc s2 c.
Proof.
  intros Ep Ec. apply LPc_same; [rewrite Ep; reflexivity|]. intros q ql Hq. rewrite Ep in Hq.
  exists ql. split; [exact Hq|]. rewrite !live_poll_unfold, Ec. reflexivity.
Qed.

(* no entry anywhere refers to a cache that does not exist yet *)
Lemma live_fresh s c : Inv2 s -> length (caches s) <= c -> live s c = [].
Proof.
  intros HD Hc.
  assert (Hent : forall id b, Forall (ent_ok (caches s) id) b -> ents c b = []).
  { intros id b Hb. apply ents_nil_other. intros e Hin Ee. eapply Forall_forall in Hb; [|exact Hin].
    destruct Hb as (ca & _ & _ & Hca & _). apply nth_error_lt in Hca. lia. }
  rewrite live_split. replace (LPc s c) with (@nil Z); [replace (LWc s c) with (@nil Z); [reflexivity|]|].
  - symmetry. apply flat_map_nil. intros wk Hwk. apply In_nth_error in Hwk. destruct Hwk as (w & Hw).
    unfold live_work. destruct (wsub wk) as [sb|] eqn:Hs; [|reflexivity].
    destruct (active_at s (sresp sb)); [|reflexivity].
    pose proof (t_wsub s HD _ _ _ Hw Hs) as (_ & Hq1 & _). eapply Hent; eauto.
  - symmetry. apply flat_mapi_nil. intros q ql Hq. cbn [Nat.add]. rewrite live_poll_unfold.
    destruct (poll_active ql); [|reflexivity].
    replace (chent (chans s) c q) with (@nil Z); [replace (sending_ents c (ppc ql)) with (@nil Z); [reflexivity|]|].
    + symmetry. destruct (ppc ql) as [| | |sb| | | | |r] eqn:Epc; try reflexivity. cbn.
      pose proof (t_psub s HD _ _ _ Hq Epc) as (_ & Hq1 & _). eapply Hent; eauto.
    + symmetry. unfold chent. destruct (nth_error (chans s) q) as [[| |b']|] eqn:Eq; try reflexivity. cbn.
      pose proof (t_chan s HD _ _ _ Hq Eq) as [Hq1 _]. eapply Hent; eauto.
Qed.

Lemma InvG_work_step s w wk t s' :
  InvAll s -> Inv5 s -> InvG s -> nth_error (works s) w = Some wk -> work_rel s w wk t s' -> tag_ok s t ->
  InvG s'.
Proof.
  intros [HJ HD HO] H5 HG Hw Hr Htag.
  assert (Hlt : w < length (works s)) by (eapply nth_error_lt; eauto).
  assert (Hcs : forall c cb, nth_error (caches s) c = Some cb ->
            exists ca, nth_error (caches s) c = Some ca /\ ctaken cb = ctaken ca /\ cdel cb = cdel ca) by eauto.
  inversion Hr; subst; clear Hr.
  - (* putback_set *)
    destruct (s_wsub s H5 _ _ _ Hw H) as (_ & _ & _ & Hpb).
    eapply (InvG_work_quiet s _ w wk (wf wk) None (chans s) HG Hw); try reflexivity; auto.
    + intros c. symmetry. eapply live_work_nil'; eauto.
    + discriminate.
  - (* putback_nil *)
    destruct (s_wsub s H5 _ _ _ Hw H) as (_ & _ & _ & Hpb).
    eapply (InvG_work_quiet s _ w wk (wf wk) None (upd (sresp sb) VNil (chans s)) HG Hw); try reflexivity; auto.
    + intros c q. eapply chent_upd_nil; eauto.
    + intros c. symmetry. eapply live_work_nil'; eauto.
    + discriminate.
    + intros q b Hq. upd_cases Hq; [discriminate|auto].
  - (* sub *)
    pose proof (s_wsub s H5 _ _ _ Hw H) as Hshape.
    destruct (sub_rel_shape _ _ _ _ Hshape H1) as (Hsh1 & Hsh2 & Hsh3).
    destruct (i_held s HJ _ _ _ Hw H) as (plr & A & B & C & D & E).
    pose proof (g_held s HG _ _ _ Hw H) as Hact.
    inversion H1; subst o; subst s1.
    { (* load *)
      eapply (InvG_work_quiet s _ w wk (wf wk) _ (chans s) HG Hw); try reflexivity; auto.
      - intros c. cbn [live_work wsub]. rewrite (live_work_some s c wk sb H). cbn [sres sresp sb_mk].
        destruct Hshape as (X & _). rewrite (X H2). reflexivity.
      - intros sb0 E0. inversion E0; subst. exact Hact. }
    { (* nil *)
      assert (Hres : sres sb = []).
      { eapply (Hsh3 VNil); eauto. sproj. apply nth_error_upd_eq. eapply nth_error_lt; eauto. }
      eapply (InvG_work_quiet s _ w wk (wf wk) None (upd (sresp sb) VNil (chans s)) HG Hw); try reflexivity; auto.
      - intros c q. eapply chent_upd_nil; eauto.
      - intros c. symmetry. eapply live_work_nil'; eauto.
      - discriminate.
      - intros q b Hq. upd_cases Hq; [discriminate|auto]. }
    { (* false *)
      eapply (InvG_work_quiet s _ w wk (wf wk) _ (chans s) HG Hw); try reflexivity; auto.
      - intros c. cbn [live_work wsub]. rewrite (live_work_some s c wk sb H). reflexivity.
      - intros sb0 E0. inversion E0; subst. exact Hact. }
    { (* batch: the result moves from the worker into the channel of an active poll *)
      assert (Hpa : poll_active plr = true) by (unfold active_at in Hact; rewrite A in Hact; exact Hact).
      assert (Hwait : forall c0, sending_ents c0 (ppc plr) = []).
      { intros c0. destruct C as [C|[C|C]]; rewrite C; reflexivity. }
      set (h := {| wf := WHb (sid sb) (length (sigch s)) HbUpsert; wsub := None |}).
      match goal with |- InvG ?st => set (s2 := st) end.
      assert (Ew2 : works s2 = upd w {| wf := wf wk; wsub := None |} (works s) ++ [h]).
      { unfold s2. sproj. apply upd_snoc. exact Hlt. }
      assert (Hact2 : forall r, active_at s2 r = active_at s r) by reflexivity.
      assert (Hlive : forall c, exists R1 R2 W1 W2,
                 live s c = (R1 ++ [] ++ R2) ++ (W1 ++ ents c (sres sb) ++ W2) /\
                 live s2 c = (R1 ++ ents c (sres sb) ++ R2) ++ (W1 ++ [] ++ W2)).
      { intros c.
        destruct (LPc_change s s2 c (sresp sb) plr plr A) as (R1 & R2 & E1 & E2).
        { unfold s2. sproj. symmetry. apply upd_same. exact A. }
        { intros q ql Hne Hq. rewrite !live_poll_unfold. unfold s2. sproj.
          rewrite chent_same_upd_other by auto. reflexivity. }
        set (sM := set_works s (upd w {| wf := wf wk; wsub := None |} (works s))).
        destruct (LWc_change s sM c w wk {| wf := wf wk; wsub := None |} Hw eq_refl) as (W1 & W2 & F1 & F2).
        { intros q qk Hne Hq. reflexivity. }
        assert (F3 : LWc s2 c = LWc sM c).
        { eapply (LWc_snoc sM s2 c (WHb (sid sb) (length (sigch s)) HbUpsert)); [exact Ew2|].
          intros wk0 _. reflexivity. }
        exists R1, R2, W1, W2. split.
        - rewrite live_split, E1, F1. f_equal.
          + rewrite live_poll_unfold, Hpa, Hwait, (chent_at _ c _ _ D). reflexivity.
          + rewrite (live_work_some s c wk sb H), Hact. reflexivity.
        - rewrite live_split, E2, F3, F2. f_equal.
          rewrite live_poll_unfold, Hpa, Hwait. unfold s2. sproj.
          rewrite (chent_at _ c (sresp sb) (VBatch (sres sb))) by (apply nth_error_upd_eq; eapply nth_error_lt; eauto).
          cbn. rewrite app_nil_r. reflexivity. }
      constructor.
      - intros w0 wk0 sb0 Hw0 Hs0. rewrite Hact2. rewrite Ew2 in Hw0. snoc_cases Hw0; [|discriminate].
        upd_cases Hw0; [discriminate|]. eapply g_held; eauto.
      - intros q ql b Hq Hb. unfold s2 in Hq, Hb. sproj. upd_cases Hb.
        + rewrite A in Hq. inversion Hq; subst. exact Hpa.
        + eapply g_chan; eauto.
      - apply (g_eq s HG).
      - intros c cb Hcb. destruct (Hlive c) as (R1 & R2 & W1 & W2 & E1 & E2). rewrite E2.
        apply perm_move. rewrite <- E1. apply (g_perm s HG); auto. }
    { (* skip *)
      eapply (InvG_work_quiet s _ w wk (wf wk) _ (chans s) HG Hw); try reflexivity; auto.
      - intros c. cbn [live_work wsub]. rewrite (live_work_some s c wk sb H). reflexivity.
      - intros sb0 E0. inversion E0; subst. exact Hact. }
    { (* visit *)
      eapply (InvG_work_quiet s _ w wk (wf wk) _ (chans s) HG Hw); try reflexivity; auto.
      - intros c0. cbn [live_work wsub]. rewrite (live_work_some s c0 wk sb H). reflexivity.
      - intros sb0 E0. inversion E0; subst. exact Hact. }
    (* take *)
    set (sb' := sb_mk sb SVisit (skeys sb) (ssize sb) (take_res sb key c ca)).
    match goal with |- InvG ?st => set (s2 := st) end.
    assert (Hact2 : forall r, active_at s2 r = active_at s r) by reflexivity.
    assert (Hlive : forall c1, exists A0 B0 x, live s c1 = A0 ++ x ++ B0 /\
               live s2 c1 = A0 ++ (x ++ (if Nat.eqb c c1 then cmsgs ca else [])) ++ B0).
    { intros c1.
      destruct (LWc_change s s2 c1 w wk {| wf := wf wk; wsub := Some sb' |} Hw eq_refl) as (W1 & W2 & F1 & F2).
      { intros q qk Hne Hq. reflexivity. }
      assert (EP : LPc s2 c1 = LPc s c1) by (apply LPc_congr; reflexivity).
      exists (LPc s c1 ++ W1), W2, (live_work s c1 wk). split.
      - rewrite live_split, F1. repeat rewrite <- app_assoc. reflexivity.
      - rewrite live_split, F2, EP. repeat rewrite <- app_assoc. do 2 f_equal.
        rewrite (live_work_some s c1 wk sb H), Hact. cbn [live_work wsub]. rewrite Hact2.
        unfold sb'. cbn [sresp sres sb_mk]. rewrite Hact, ents_take_res. repeat rewrite <- app_assoc. reflexivity. }
    destruct (g_take s s2 c ca HG HO H3 eq_refl eq_refl Hlive) as [C' D'].
    constructor.
    + intros w0 wk0 sb0 Hw0 Hs0. rewrite Hact2. unfold s2 in Hw0. sproj. upd_cases Hw0.
      * cbn in Hs0. inversion Hs0; subst sb0. exact Hact.
      * eapply g_held; eauto.
    + intros q ql b Hq Hb. eapply g_chan; eauto.
    + exact C'.
    + exact D'.
  - (* frame *)
    eapply (InvG_work_quiet s _ w wk f' None (chans s) HG Hw); try reflexivity; auto.
    + intros c. unfold live_work. rewrite H. reflexivity.
    + discriminate.
  - (* append *)
    eapply (InvG_work_quiet s _ w wk _ None (chans s) HG Hw); try reflexivity; auto.
    + intros c0 cb Hcb. sproj. upd_cases Hcb; [|eauto]. exists ca. auto.
    + intros c0. unfold live_work. rewrite H. reflexivity.
    + discriminate.
  - (* resp_none *)
    eapply (InvG_work_quiet s _ w wk f' None (chans s) HG Hw); try reflexivity; auto.
    + intros c. unfold live_work. rewrite H. reflexivity.
    + discriminate.
  - (* resp_some *)
    eapply (InvG_work_quiet s _ w wk f' (Some (sub0 id r)) (chans s) HG Hw); try reflexivity; auto.
    + intros c. rewrite live_work_nil by reflexivity. unfold live_work. rewrite H. reflexivity.
    + intros sb E. inversion E; subst. exact Htag.
  - (* ensure *)
    eapply (InvG_work_quiet s _ w wk _ None (chans s) HG Hw); try reflexivity; auto.
    + intros c. unfold live_work. rewrite H. reflexivity.
    + discriminate.
  - (* store *)
    match goal with |- InvG ?st => set (s2 := st) end.
    assert (Hlive : forall c, live s2 c = live s c).
    { intros c. rewrite !live_split.
      assert (E1 : LPc s2 c = LPc s c) by (apply LPc_congr; reflexivity). rewrite E1. f_equal.
      apply LWc_same; [unfold s2; sproj; rewrite length_upd; reflexivity|].
      intros w0 wk0 Hw0. unfold s2 in Hw0. sproj. upd_cases Hw0.
      - exists wk. split; [exact Hw|]. unfold live_work. rewrite H. reflexivity.
      - exists wk0. split; [exact Hw0|reflexivity]. }
    constructor.
    + intros w0 wk0 sb0 Hw0 Hs0. unfold s2 in Hw0. sproj. upd_cases Hw0; [discriminate|].
      change (active_at s (sresp sb0) = true). eapply g_held; eauto.
    + intros q ql b Hq Hb. eapply g_chan; eauto.
    + intros c cb Hcb. unfold s2 in Hcb |- *. sproj. snoc_cases Hcb; [eapply g_eq; eauto|]. cbn.
      apply dmsgs_nil_fresh. intros id0 e Hin Ee. destruct (t_del s HD _ _ Hin) as (ca0 & _ & _ & Hc0 & _).
      apply nth_error_lt in Hc0. lia.
    + intros c cb Hcb. rewrite Hlive. unfold s2 in Hcb |- *. sproj. snoc_cases Hcb; [eapply g_perm; eauto|]. cbn.
      rewrite dmsgs_nil_fresh, live_fresh; auto.
      intros id0 e Hin Ee. destruct (t_del s HD _ _ Hin) as (ca0 & _ & _ & Hc0 & _).
      apply nth_error_lt in Hc0. lia.
  - (* delete *)
    eapply (InvG_work_quiet s _ w wk _ None (chans s) HG Hw); try reflexivity; auto.
    + intros c. unfold live_work. rewrite H. reflexivity.
    + discriminate.
  - (* hb_upsert *)
    eapply (InvG_work_quiet s _ w wk _ None (chans s) HG Hw); try reflexivity; auto.
    + intros c. unfold live_work. rewrite H. reflexivity.
    + discriminate.
Qed.

Lemma InvG_step s t s' :
  InvAll s -> Inv5 s -> InvG s -> step_rel s t s' -> tag_ok s t -> InvG s'.
Proof.
  intros HA H5 HG H Htag. inversion H; subst.
  - (* a new worker *)
    match goal with |- InvG ?st => set (s2 := st) end.
    assert (Hlive : forall c, live s2 c = live s c).
    { intros c. rewrite !live_split.
      assert (E1 : LPc s2 c = LPc s c) by (apply LPc_congr; reflexivity). rewrite E1. f_equal.
      eapply (LWc_snoc s s2 c f); [reflexivity|]. intros; reflexivity. }
    destruct HG as [A B C D]. constructor.
    + intros w wk sb Hw Hs. unfold s2 in Hw. sproj. snoc_cases Hw; [|discriminate].
      change (active_at s (sresp sb) = true). eauto.
    + intros q ql b Hq Hb. eapply B; eauto.
    + exact C.
    + intros c ca Hc. rewrite Hlive. apply D; auto.
  - (* a new poll *)
    destruct HA as [HJ HD HO].
    match goal with |- InvG ?st => set (s2 := st) end.
    pose proof (i_len s HJ) as Hlen.
    assert (Hact : forall r, r < length (polls s) -> active_at s2 r = active_at s r).
    { intros r Hr. unfold active_at, s2. sproj. rewrite nth_error_app1 by exact Hr. reflexivity. }
    assert (Hlive : forall c, live s2 c = live s c).
    { intros c. rewrite !live_split. f_equal.
      - unfold LPc, s2. sproj. rewrite flat_mapi_snoc. cbn [Nat.add].
        rewrite live_poll_unfold. unfold poll_active. cbn [ppc sending_ents].
        unfold chent. sproj. rewrite <- Hlen, nth_error_snoc_new. cbn. rewrite app_nil_r.
        apply flat_mapi_eq; [reflexivity|]. intros q ql Hq. exists ql. split; [exact Hq|]. cbn [Nat.add].
        rewrite !live_poll_unfold. unfold chent. sproj.
        rewrite nth_error_app1 by (rewrite Hlen; eapply nth_error_lt; eauto). reflexivity.
      - apply LWc_same; [reflexivity|]. intros w wk Hw. exists wk. split; [exact Hw|].
        apply live_work_eq. intros sb Hs. apply Hact.
        change (nth_error (works s) w = Some wk) in Hw.
        destruct (i_held s HJ _ _ _ Hw Hs) as (plr & A & _). eapply nth_error_lt; eauto. }
    destruct HG as [A B C D]. constructor.
    + intros w wk sb Hw Hs. change (nth_error (works s) w = Some wk) in Hw.
      rewrite Hact; [eauto|]. destruct (i_held s HJ _ _ _ Hw Hs) as (plr & A' & _). eapply nth_error_lt; eauto.
    + intros q ql b Hq Hb. unfold s2 in Hq, Hb. sproj. snoc_cases Hb; [|discriminate].
      snoc_cases Hq; [eapply B; eauto|lia].
    + exact C.
    + intros c ca Hc. rewrite Hlive. apply D; auto.
  - eapply InvG_poll_step; eauto.
  - eapply InvG_work_step; eauto.
Qed.

Record InvFull (s : state) : Prop := { f_all : InvAll s; f_5 : Inv5 s; f_g : InvG s }.

Lemma InvFull_greach s : greach tag_ok s -> InvFull s.
Proof.
  induction 1 as [|s t s' Hr IH Hs Ht].
  - constructor; [constructor; [apply Inv1_init|apply Inv2_init|apply Inv4_init]|apply Inv5_init|apply InvG_init].
  - destruct IH as [A B C]. constructor; [eapply InvAll_step; eauto|eapply Inv5_step; eauto|eapply InvG_step; eauto].
Qed.

Lemma Inv5_reach s : reach s -> Inv5 s.
Proof. induction 1; [apply Inv5_init|eapply Inv5_step; eauto]. Qed.

(* ---- the simple guard: no poll time-out fires *)

Definition no_stale (s : state) : Prop :=
  forall p pl, nth_error (polls s) p = Some pl -> ppc pl <> LDone RTimeout.

Lemma work_rel_polls s w wk t s' : work_rel s w wk t s' -> polls s' = polls s.
Proof.
  intros H. inversion H; subst; sproj; try reflexivity.
  destruct (sub_rel_eff _ _ _ _ H2) as (Ep & _). exact Ep.
Qed.

Lemma no_stale_step s t s' : no_stale s -> step_rel s t s' -> tag_no_timeout t -> no_stale s'.
Proof.
  intros HN H Ht. inversion H; subst.
  - exact HN.
  - intros p pl Hp. sproj. snoc_cases Hp; [eauto|discriminate].
  - assert (Hgen : forall pc' ps, pc' <> LDone RTimeout -> ps = polls s ->
              forall s0, polls s0 = upd p {| pid := pid pl; ppc := pc' |} ps -> no_stale s0).
    { intros pc' ps Hne -> s0 E q ql Hq. rewrite E in Hq. upd_cases Hq; [exact Hne|eauto]. }
    inversion H1; subst; try solve [eapply Hgen; [|reflexivity|reflexivity]; discriminate].
    + destruct (sub_rel_eff _ _ _ _ H3) as (Ep & _).
      eapply (Hgen _ (polls s1)); [|exact Ep|reflexivity]. destruct o as [sb'|[|]]; discriminate.
    + destruct Ht.
    + destruct Ht.
  - intros p pl Hp. rewrite (work_rel_polls _ _ _ _ _ H1) in Hp. eauto.
Qed.

Lemma no_stale_tag_ok s t s' : Inv1 s -> no_stale s -> step_rel s t s' -> tag_no_timeout t -> tag_ok s t.
Proof.
  intros HJ HN H Ht. destruct t as [p|r|]; [destruct Ht| |exact I].
  inversion H; subst.
  - inversion H1.
  - inversion H1; subst.
    destruct (i_reg s HJ _ _ H5) as (pl & A & B & C & D & E).
    cbn. unfold active_at. rewrite A. unfold poll_active.
    destruct C as [-> |[-> | C]]; [reflexivity|reflexivity|]. elim (HN _ _ A C).
Qed.

Lemma greach_no_timeout_ok s : greach (fun _ => tag_no_timeout) s -> greach tag_ok s /\ no_stale s.
Proof.
  induction 1 as [|s t s' Hr [IH1 IH2] Hs Ht].
  - split; [constructor|]. intros p pl Hp. destruct p; discriminate.
  - split; [|eapply no_stale_step; eauto].
    eapply greach_step; eauto. eapply no_stale_tag_ok; eauto.
    apply (ia1 s). apply InvAll_reach. eapply greach_reach; eauto.
Qed.
