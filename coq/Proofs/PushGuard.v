(* C19: under the guard (no hazardous step) nothing is lost: what a client got from a cache
   is exactly the first [cdel] messages taken from it, and everything taken is either
   delivered or still on its way to a poll that will read it. *)
From Coq Require Import List ZArith Bool Arith Lia Permutation.
From HV Require Import Model.Push Proofs.PushBase Proofs.PushInv Proofs.PushData Proofs.PushOrder Proofs.PushLive.
Import ListNotations.

Record InvG (s : state) : Prop := {
  g_held : forall w wk sb, nth_error (works s) w = Some wk -> wsub wk = Some sb -> active_at s (sresp sb) = true;
  g_chan : forall p pl b, nth_error (polls s) p = Some pl -> nth_error (chans s) p = Some (VBatch b) ->
      poll_active pl = true;
  g_eq : forall c ca, nth_error (caches s) c = Some ca -> dmsgs c (delivered s) = firstn (cdel ca) (ctaken ca);
  g_perm : forall c ca, nth_error (caches s) c = Some ca ->
      Permutation (ctaken ca) (dmsgs c (delivered s) ++ live s c)
}.

Lemma InvG_init : InvG init.
Proof.
  constructor; cbn; intros;
    match goal with H : nth_error [] ?x = Some _ |- _ => destruct x; discriminate end.
Qed.

Definition chent (chs : list cval) (c q : nat) : list Z :=
  match nth_error chs q with Some v => cval_ents c v | None => [] end.

Definition sending_ents (c : nat) (pc : lpc) : list Z :=
  match pc with LSending sb => ents c (sres sb) | _ => [] end.

Lemma live_poll_unfold s c q ql :
  live_poll s c q ql = if poll_active ql then chent (chans s) c q ++ sending_ents c (ppc ql) else [].
Proof. reflexivity. Qed.

Lemma live_work_eq s s' c wk :
  (forall sb, wsub wk = Some sb -> active_at s' (sresp sb) = active_at s (sresp sb)) ->
  live_work s' c wk = live_work s c wk.
Proof. unfold live_work. destruct (wsub wk) as [sb|]; [|reflexivity]. intros H. rewrite (H sb eq_refl). reflexivity. Qed.

Lemma chent_upd_nil chs c r v v' q :
  nth_error chs r = Some v -> cval_ents c v = [] -> cval_ents c v' = [] ->
  chent (upd r v' chs) c q = chent chs c q.
Proof.
  intros Hr Hv Hv'. unfold chent. destruct (Nat.eq_dec r q) as [->|Hne].
  - rewrite nth_error_upd_eq by (eapply nth_error_lt; eauto). rewrite Hr. congruence.
  - rewrite nth_error_upd_neq by exact Hne. reflexivity.
Qed.

Lemma active_at_set s s0 p pl pc' r :
  nth_error (polls s) p = Some pl -> polls s0 = upd p {| pid := pid pl; ppc := pc' |} (polls s) ->
  active_at s0 r = if Nat.eqb r p then poll_active {| pid := pid pl; ppc := pc' |} else active_at s r.
Proof.
  intros Hp Ep. unfold active_at. rewrite Ep. destruct (Nat.eqb r p) eqn:E.
  - apply Nat.eqb_eq in E. subst. rewrite nth_error_upd_eq by (eapply nth_error_lt; eauto). reflexivity.
  - apply Nat.eqb_neq in E. rewrite nth_error_upd_neq by auto. reflexivity.
Qed.

(* steps of poll p that neither touch caches nor move a batch *)
Lemma InvG_poll_quiet s s0 p pl pc' chs' ws' :
  InvG s -> nth_error (polls s) p = Some pl ->
  caches s0 = caches s -> delivered s0 = delivered s -> works s0 = ws' -> chans s0 = chs' ->
  polls s0 = upd p {| pid := pid pl; ppc := pc' |} (polls s) ->
  (ws' = works s \/ exists f, ws' = works s ++ [ {| wf := f; wsub := None |} ]) ->
  (forall c q, q <> p -> chent chs' c q = chent (chans s) c q) ->
  (forall c, live_poll s0 c p {| pid := pid pl; ppc := pc' |} = live_poll s c p pl) ->
  (poll_active {| pid := pid pl; ppc := pc' |} = poll_active pl \/ nohold (works s) p) ->
  (forall q b, nth_error chs' q = Some (VBatch b) ->
     (q <> p -> nth_error (chans s) q = Some (VBatch b)) /\ (q = p -> poll_active {| pid := pid pl; ppc := pc' |} = true)) ->
  InvG s0.
Proof.
  intros [A B C D] Hp Ec Ed Ew Ech Epl Hws Hch Hlp Hact Hb.
  assert (Hlt : p < length (polls s)) by (eapply nth_error_lt; eauto).
  assert (Hactw : forall wk sb, In wk (works s) -> wsub wk = Some sb ->
             active_at s0 (sresp sb) = active_at s (sresp sb)).
  { intros wk sb Hin Hs. rewrite (active_at_set s s0 p pl pc' _ Hp Epl).
    destruct (Nat.eqb (sresp sb) p) eqn:E; [|reflexivity]. apply Nat.eqb_eq in E.
    destruct Hact as [Ha|Hn].
    - rewrite Ha, E. unfold active_at. rewrite Hp. reflexivity.
    - apply In_nth_error in Hin. destruct Hin as (w & Hw). elim (Hn _ _ _ Hw Hs E). }
  assert (Hinw : forall w wk, nth_error (works s0) w = Some wk -> wsub wk = None \/ In wk (works s)).
  { intros w wk Hw. rewrite Ew in Hw. destruct Hws as [->|(f & ->)].
    - right. eapply nth_error_In; eauto.
    - snoc_cases Hw; [right; eapply nth_error_In; eauto|left; reflexivity]. }
  assert (Hlive : forall c, live s0 c = live s c).
  { intros c. rewrite !live_split. f_equal.
    - apply LPc_same; [rewrite Epl, length_upd; reflexivity|].
      intros q ql' Hq. rewrite Epl in Hq. upd_cases Hq.
      + exists pl. split; [exact Hp|apply Hlp].
      + exists ql'. split; [exact Hq|]. rewrite !live_poll_unfold, Ech, Hch by auto. reflexivity.
    - destruct Hws as [E|(f & E)]; rewrite E in Ew.
      + apply LWc_same; [rewrite Ew; reflexivity|rewrite Ew].
        intros w wk Hw. exists wk. split; [exact Hw|]. apply live_work_eq.
        intros sb Hs. eapply Hactw; eauto. eapply nth_error_In; eauto.
      + eapply LWc_snoc; [exact Ew|].
        intros wk Hin. apply live_work_eq. intros sb Hs. eapply Hactw; eauto. }
  constructor.
  - intros w wk sb Hw Hs. destruct (Hinw _ _ Hw) as [E|Hin]; [congruence|].
    rewrite (Hactw _ _ Hin Hs). apply In_nth_error in Hin. destruct Hin as (w0 & Hw0). eauto.
  - intros q ql b Hq Hqb. rewrite Ech in Hqb. destruct (Hb _ _ Hqb) as [Hb1 Hb2].
    rewrite Epl in Hq. upd_cases Hq; [auto|]. eapply B; eauto.
  - rewrite Ec, Ed. exact C.
  - intros c ca Hc. rewrite Ec in Hc. rewrite Ed, Hlive. auto.
Qed.

(* ---- multiset bookkeeping *)

Lemma perm_insert (X a r1 l r2 w m : list Z) :
  Permutation X (a ++ (r1 ++ l ++ r2) ++ w) -> Permutation (X ++ m) (a ++ (r1 ++ (l ++ m) ++ r2) ++ w).
Proof.
  intros H. eapply Permutation_trans; [apply Permutation_app_tail; exact H|].
  repeat rewrite <- app_assoc. do 3 apply Permutation_app_head.
  rewrite (app_assoc r2 w m). apply Permutation_app_comm.
Qed.

Lemma perm_deliver (X a r1 x r2 w : list Z) :
  Permutation X (a ++ (r1 ++ x ++ r2) ++ w) -> Permutation X ((a ++ x) ++ (r1 ++ [] ++ r2) ++ w).
Proof.
  intros H. eapply Permutation_trans; [exact H|]. cbn [app].
  repeat rewrite <- app_assoc. apply Permutation_app_head.
  rewrite (app_assoc r1 x). rewrite (app_assoc x r1).
  apply Permutation_app_tail. apply Permutation_app_comm.
Qed.

Lemma perm_move (X a r1 r2 w1 x w2 : list Z) :
  Permutation X (a ++ (r1 ++ [] ++ r2) ++ (w1 ++ x ++ w2)) ->
  Permutation X (a ++ (r1 ++ x ++ r2) ++ (w1 ++ [] ++ w2)).
Proof.
  intros H. eapply Permutation_trans; [exact H|]. cbn [app].
  repeat rewrite <- app_assoc. do 2 apply Permutation_app_head.
  (* r2 ++ w1 ++ x ++ w2  ~  x ++ r2 ++ w1 ++ w2 *)
  rewrite (app_assoc r2 w1 (x ++ w2)). rewrite (app_assoc (r2 ++ w1) x w2).
  rewrite (app_assoc r2 w1 w2). rewrite (app_assoc x (r2 ++ w1) w2).
  apply Permutation_app_tail. apply Permutation_app_comm.
Qed.

Lemma firstn_length_le {A} (l : list A) n : n <= length l -> length (firstn n l) = n.
Proof. intros H. rewrite firstn_length. lia. Qed.

Lemma ents_take_res c sb key c0 ca :
  ents c (take_res sb key c0 ca) = ents c (sres sb) ++ (if Nat.eqb c0 c then cmsgs ca else []).
Proof.
  unfold take_res. destruct (cmsgs ca) as [|m ms] eqn:E.
  - destruct (Nat.eqb c0 c); rewrite app_nil_r; reflexivity.
  - rewrite ents_app. cbn. unfold e_cache. cbn. rewrite app_nil_r. reflexivity.
Qed.

(* a Take by a taker whose result is live *)
Lemma g_take s s' c0 ca :
  InvG s -> Inv4 s -> nth_error (caches s) c0 = Some ca ->
  caches s' = upd c0 (take_cache ca) (caches s) -> delivered s' = delivered s ->
  (forall c, exists A B x, live s c = A ++ x ++ B /\
                          live s' c = A ++ (x ++ (if Nat.eqb c0 c then cmsgs ca else [])) ++ B) ->
  (forall c cb, nth_error (caches s') c = Some cb -> dmsgs c (delivered s') = firstn (cdel cb) (ctaken cb)) /\
  (forall c cb, nth_error (caches s') c = Some cb -> Permutation (ctaken cb) (dmsgs c (delivered s') ++ live s' c)).
Proof.
  intros [_ _ C D] HO Hc0 Ec Ed Hl. rewrite Ec, Ed. split.
  - intros c cb Hcb. upd_cases Hcb; [|auto].
    cbn. destruct (o_hw s HO _ _ Hc0) as [Hle _]. rewrite firstn_app_le by exact Hle. auto.
  - intros c cb Hcb. destruct (Hl c) as (A & B & x & E1 & E2). rewrite E2.
    upd_cases Hcb.
    + rewrite Nat.eqb_refl. cbn [ctaken take_cache].
      pose proof (D _ _ Hc0) as P. rewrite E1 in P.
      rewrite <- (app_nil_r (A ++ x ++ B)) in P.
      apply (perm_insert (ctaken ca) (dmsgs c (delivered s)) A x B [] (cmsgs ca)) in P.
      rewrite app_nil_r in P. exact P.
    + apply Nat.eqb_neq in Heq. rewrite Heq, app_nil_r. rewrite <- E1. auto.
Qed.

Lemma chent_same_upd_other chs c r v q : q <> r -> chent (upd r v chs) c q = chent chs c q.
Proof. intros H. unfold chent. rewrite nth_error_upd_neq by auto. reflexivity. Qed.

Lemma chent_at chs c q v : nth_error chs q = Some v -> chent chs c q = cval_ents c v.
Proof. intros H. unfold chent. rewrite H. reflexivity. Qed.

Ltac lp_simpl := rewrite ?live_poll_unfold; unfold poll_active; cbn [ppc pid sending_ents].

Lemma InvG_poll_step s p pl t s' :
  InvAll s -> Inv5 s -> InvG s -> nth_error (polls s) p = Some pl -> poll_rel s p pl t s' -> tag_ok s t ->
  InvG s'.
Proof.
  intros [HJ HD HO] H5 HG Hp Hr Htag.
  assert (Hlt : p < length (polls s)) by (eapply nth_error_lt; eauto).
  assert (HO' : Inv4 s') by (eapply Inv4_step; eauto; eapply ST_poll; eauto).
  pose proof (i_pc s HJ _ _ Hp) as Hreq.
  inversion Hr; subst; clear Hr.
  - (* popold_none *)
    rewrite H in Hreq. cbn in Hreq.
    eapply (InvG_poll_quiet s _ p pl LPopSig (chans s) (works s) HG Hp); [reflexivity|reflexivity|reflexivity|reflexivity|reflexivity|..].
    + left; reflexivity.
    + intros c q _; reflexivity.
    + intros c. lp_simpl. rewrite H. reflexivity.
    + left. unfold poll_active. rewrite H. reflexivity.
    + intros q b Hq. split; auto.
  - (* popold_some *)
    rewrite H in Hreq. cbn in Hreq.
    eapply (InvG_poll_quiet s _ p pl LPopSig (upd r VNil (chans s)) (works s) HG Hp); [reflexivity|reflexivity|reflexivity|reflexivity|reflexivity|..].
    + left; reflexivity.
    + intros c q _. eapply chent_upd_nil; eauto.
    + intros c. lp_simpl. rewrite H. sproj. f_equal. eapply chent_upd_nil; eauto.
    + left. unfold poll_active. rewrite H. reflexivity.
    + intros q b Hq. upd_cases Hq; [discriminate|]. split; auto.
  - (* popsig *)
    eapply (InvG_poll_quiet s _ p pl LSend (chans s) (works s) HG Hp); [reflexivity|reflexivity|reflexivity|reflexivity|reflexivity|..].
    + left; reflexivity.
    + intros c q _; reflexivity.
    + intros c. lp_simpl. rewrite H. reflexivity.
    + left. unfold poll_active. rewrite H. reflexivity.
    + intros q b Hq. split; auto.
  - (* send *)
    eapply (InvG_poll_quiet s _ p pl (LSending (sub0 (pid pl) p)) (chans s) (works s) HG Hp); [reflexivity|reflexivity|reflexivity|reflexivity|reflexivity|..].
    + left; reflexivity.
    + intros c q _; reflexivity.
    + intros c. lp_simpl. rewrite H. reflexivity.
    + left. unfold poll_active. rewrite H. reflexivity.
    + intros q b Hq. split; auto.
  - (* sending *)
    rewrite H in Hreq. cbn in Hreq. destruct Hreq as (Hc & Hsid & Hrs & Hpb).
    pose proof (s_psub s H5 _ _ _ Hp H) as Hshape.
    destruct (sub_rel_shape _ _ _ _ Hshape H0) as (Hsh1 & Hsh2 & Hsh3).
    assert (Hact : forall pc', (forall r, pc' <> LDone r) ->
              poll_active {| pid := pid pl; ppc := pc' |} = poll_active pl).
    { intros pc' Hn. unfold poll_active. rewrite H. cbn. destruct pc'; try reflexivity. elim (Hn r); reflexivity. }
    inversion H0; subst.
    { (* load *)
    eapply (InvG_poll_quiet s _ p pl _ (chans s) (works s) HG Hp); [reflexivity|reflexivity|reflexivity|reflexivity|reflexivity|..].
    + left; reflexivity.
    + intros c q _; reflexivity.
    + intros c. lp_simpl. rewrite H. cbn. destruct Hshape as (E & _). rewrite (E H1). reflexivity.
    + left. apply Hact. discriminate.
    + intros q b Hq. split; auto.
    }
    { (* nil *)
      rewrite Hrs in *.
      assert (Hres : sres sb = []).
      { eapply (Hsh3 VNil); eauto. sproj. apply nth_error_upd_eq. eapply nth_error_lt; eauto. }
    eapply (InvG_poll_quiet s _ p pl LRecv (upd p VNil (chans s)) (works s) HG Hp); [reflexivity|reflexivity|reflexivity|reflexivity|reflexivity|..].
    + left; reflexivity.
    + intros c q Hne. apply chent_same_upd_other; auto.
    + intros c. lp_simpl. rewrite H. sproj. rewrite Hres.
      rewrite (chent_at (upd p VNil (chans s)) c p VNil) by (apply nth_error_upd_eq; eapply nth_error_lt; eauto).
      rewrite (chent_at (chans s) c p VEmpty) by exact Hc. reflexivity.
    + left. apply Hact. discriminate.
    + intros q b Hq. upd_cases Hq; [discriminate|]. split; auto. intros; congruence.
    }
    { (* false *)
    eapply (InvG_poll_quiet s _ p pl LUpsert (chans s) (works s) HG Hp); [reflexivity|reflexivity|reflexivity|reflexivity|reflexivity|..].
    + left; reflexivity.
    + intros c q _; reflexivity.
    + intros c. lp_simpl. rewrite H. cbn. rewrite H4. reflexivity.
    + left. apply Hact. discriminate.
    + intros q b Hq. split; auto.
    }
    { (* batch *)
      rewrite Hrs in *.
    eapply (InvG_poll_quiet s _ p pl LRecv (upd p (VBatch (sres sb)) (chans s)) _ HG Hp); [reflexivity|reflexivity|reflexivity|reflexivity|reflexivity|..].
    + right. eexists. reflexivity.
    + intros c q Hne. apply chent_same_upd_other; auto.
    + intros c. lp_simpl. rewrite H. sproj.
      rewrite (chent_at (upd p (VBatch (sres sb)) (chans s)) c p (VBatch (sres sb)))
        by (apply nth_error_upd_eq; eapply nth_error_lt; eauto).
      rewrite (chent_at (chans s) c p VEmpty) by exact Hc. cbn. rewrite app_nil_r. reflexivity.
    + left. apply Hact. discriminate.
    + intros q b Hq. upd_cases Hq; [split; [congruence|reflexivity]|]. split; auto. intros; congruence.
    }
    { (* skip *)
    eapply (InvG_poll_quiet s _ p pl _ (chans s) (works s) HG Hp); [reflexivity|reflexivity|reflexivity|reflexivity|reflexivity|..].
    + left; reflexivity.
    + intros c q _; reflexivity.
    + intros c. lp_simpl. rewrite H. reflexivity.
    + left. apply Hact. discriminate.
    + intros q b Hq. split; auto.
    }
    { (* visit *)
    eapply (InvG_poll_quiet s _ p pl _ (chans s) (works s) HG Hp); [reflexivity|reflexivity|reflexivity|reflexivity|reflexivity|..].
    + left; reflexivity.
    + intros c q _; reflexivity.
    + intros c. lp_simpl. rewrite H. reflexivity.
    + left. apply Hact. discriminate.
    + intros q b Hq. split; auto.
    }
    (* take *)
    set (sb' := sb_mk sb SVisit (skeys sb) (ssize sb) (take_res sb key c ca)).
    set (s2 := set_poll (set_caches s (upd c (take_cache ca) (caches s))) p (pid pl) (LSending sb')).
    assert (Hlive : forall c1, exists A B x, live s c1 = A ++ x ++ B /\
               live s2 c1 = A ++ (x ++ (if Nat.eqb c c1 then cmsgs ca else [])) ++ B).
    { intros c1.
      destruct (LPc_change s s2 c1 p pl {| pid := pid pl; ppc := LSending sb' |} Hp eq_refl) as (R1 & R2 & E1 & E2).
      { intros q ql Hne Hq. reflexivity. }
      assert (EW : LWc s2 c1 = LWc s c1).
      { apply LWc_same; [reflexivity|]. intros w wk Hw. exists wk. split; [exact Hw|].
        apply live_work_eq. intros sb0 _. rewrite (active_at_set s s2 p pl (LSending sb') _ Hp eq_refl).
        destruct (Nat.eqb (sresp sb0) p) eqn:E; [|reflexivity]. apply Nat.eqb_eq in E. rewrite E.
        unfold active_at. rewrite Hp. unfold poll_active. rewrite H. reflexivity. }
      exists R1, (R2 ++ LWc s c1), (live_poll s c1 p pl). split.
      - rewrite live_split, E1. repeat rewrite <- app_assoc. reflexivity.
      - rewrite live_split, E2, EW. repeat rewrite <- app_assoc. f_equal.
        rewrite !live_poll_unfold. unfold poll_active. rewrite H. cbn [ppc sending_ents].
        unfold sb'. cbn [sres sb_mk]. rewrite ents_take_res. unfold s2. sproj.
        repeat rewrite <- app_assoc. reflexivity. }
    destruct (g_take s s2 c ca HG HO H2 eq_refl eq_refl Hlive) as [C' D'].
    constructor.
    + intros w wk sb0 Hw Hs. change (nth_error (works s) w = Some wk) in Hw.
      rewrite (active_at_set s s2 p pl (LSending sb') _ Hp eq_refl).
      destruct (Nat.eqb (sresp sb0) p); [reflexivity|]. eapply g_held; eauto.
    + intros q ql b Hq Hb. change (nth_error (chans s) q = Some (VBatch b)) in Hb.
      unfold s2 in Hq. sproj. upd_cases Hq; [reflexivity|]. eapply g_chan; eauto.
    + exact C'.
    + exact D'.
  - (* recv_nil *)
    assert (Hfree : free s p) by (eapply free_of_nonempty; eauto; discriminate).
    eapply (InvG_poll_quiet s _ p pl (LDone RNil) (upd p VEmpty (chans s)) (works s) HG Hp); [reflexivity|reflexivity|reflexivity|reflexivity|reflexivity|..].
    + left; reflexivity.
    + intros c q Hne. apply chent_same_upd_other; auto.
    + intros c. lp_simpl. rewrite (chent_at (chans s) c p VNil) by exact H0.
      destruct H as [-> | ->]; reflexivity.
    + right. apply Hfree.
    + intros q b Hq. upd_cases Hq; [discriminate|]. split; auto. intros; congruence.
  - (* recv_batch *)
    RECVBATCH
  - (* upsert_none *)
    eapply (InvG_poll_quiet s _ p pl LWait (chans s) (works s) HG Hp); [reflexivity|reflexivity|reflexivity|reflexivity|reflexivity|..].
    + left; reflexivity.
    + intros c q _; reflexivity.
    + intros c. lp_simpl. rewrite H. reflexivity.
    + left. unfold poll_active. rewrite H. reflexivity.
    + intros q b Hq. split; auto.
  - (* upsert_some *)
    eapply (InvG_poll_quiet s _ p pl LWait (upd r VNil (chans s)) (works s) HG Hp); [reflexivity|reflexivity|reflexivity|reflexivity|reflexivity|..].
    + left; reflexivity.
    + intros c q _. eapply chent_upd_nil; eauto.
    + intros c. lp_simpl. rewrite H. sproj. f_equal. eapply chent_upd_nil; eauto.
    + left. unfold poll_active. rewrite H. reflexivity.
    + intros q b Hq. upd_cases Hq; [discriminate|]. split; auto.
  - (* timeout *)
    cbn in Htag. destruct Htag as (pl0 & Hp0 & Hreg). rewrite Hp in Hp0. inversion Hp0; subst pl0.
    destruct (i_reg s HJ _ _ Hreg) as (pl1 & A & B & C & D & E).
    eapply (InvG_poll_quiet s _ p pl (LDone RTimeout) (chans s) _ HG Hp); [reflexivity|reflexivity|reflexivity|reflexivity|reflexivity|..].
    + right. eexists. reflexivity.
    + intros c q _; reflexivity.
    + intros c. lp_simpl. rewrite H. rewrite (chent_at (chans s) c p VEmpty) by exact D. reflexivity.
    + right. exact E.
    + intros q b Hq. split; auto. intros ->. congruence.
Qed.
