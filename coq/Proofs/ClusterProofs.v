(* Proofs about Model/Cluster.v (C16). *)
From Coq Require Import List ZArith Bool Lia Permutation PeanoNat.
From HV Require Import Model.Cluster.
Import ListNotations.
Open Scope Z_scope.

(* ================================================================== *)
(* getIndex                                                            *)

Definition ix_ok (n ix : Z) : Prop := 0 <= ix < n.

Lemma get_index_spec n ix : 1 <= n -> ix_ok n ix ->
  get_index ix n = ((ix + 1) mod n, (ix + 1) mod n).
Proof.
  intros Hn [Hlo Hhi]. unfold get_index.
  destruct (n >? 1) eqn:Hn1.
  - destruct (ix + 1 <? n) eqn:Hlt.
    + apply Z.ltb_lt in Hlt. rewrite Z.mod_small by lia. reflexivity.
    + apply Z.ltb_ge in Hlt. assert (ix + 1 = n) as -> by lia.
      rewrite Z.mod_same by lia. reflexivity.
  - rewrite Z.gtb_ltb in Hn1. apply Z.ltb_ge in Hn1.
    assert (n = 1) as -> by lia. assert (ix = 0) as -> by lia. reflexivity.
Qed.

Lemma mod_ix_ok n x : 1 <= n -> ix_ok n (x mod n).
Proof. intros Hn. unfold ix_ok. apply Z.mod_pos_bound. lia. Qed.

Lemma succ_mod_neq n x : 2 <= n -> ix_ok n x -> (x + 1) mod n <> x.
Proof.
  intros Hn [Hlo Hhi] Heq.
  destruct (Z.eq_dec (x + 1) n) as [E | E].
  - rewrite E, Z.mod_same in Heq by lia. lia.
  - rewrite Z.mod_small in Heq by lia. lia.
Qed.

(* ================================================================== *)
(* Cluster.Handler                                                     *)

Lemma loop_eq c n idm outs budget k s :
  loop c n idm outs budget k s =
  match outs k with
  | Ok r => stop s (success_step s) (RResp r)
  | o =>
      match fail_step c n s with
      | None => stop s s RCrash
      | Some s1 =>
          if negb (has_retry c) then stop s s1 (result_of o)
          else if negb idm then stop s s1 (result_of o)
          else match budget with
               | O => stop s s1 (result_of o)
               | S b => push (url s) (loop c n idm outs b (S k) (retry_step c n s1))
               end
      end
  end.
Proof. destruct budget; reflexivity. Qed.

(* the induction principle of the retry recursion: success / OnFailure panics /
   failure without retry / failure with retry *)
Lemma loop_induction c n idm outs (P : nat -> nat -> cstate -> obs -> Prop) :
  (forall b k s r, outs k = Ok r -> P b k s (stop s (success_step s) (RResp r))) ->
  (forall b k s, is_ok (outs k) = false -> fail_step c n s = None -> P b k s (stop s s RCrash)) ->
  (forall b k s s1, is_ok (outs k) = false -> fail_step c n s = Some s1 ->
     (has_retry c = false \/ idm = false \/ b = O) ->
     P b k s (stop s s1 (result_of (outs k)))) ->
  (forall b k s s1, is_ok (outs k) = false -> fail_step c n s = Some s1 ->
     has_retry c = true -> idm = true ->
     P b (S k) (retry_step c n s1) (loop c n idm outs b (S k) (retry_step c n s1)) ->
     P (S b) k s (push (url s) (loop c n idm outs b (S k) (retry_step c n s1)))) ->
  forall b k s, P b k s (loop c n idm outs b k s).
Proof.
  intros Hok Hcrash Hstop Hretry.
  induction b as [| b IH]; intros k s; rewrite loop_eq.
  - destruct (outs k) as [r | e | p] eqn:Ho; [apply Hok; exact Ho | |].
    all: assert (Hf : is_ok (outs k) = false) by (rewrite Ho; reflexivity).
    all: destruct (fail_step c n s) as [s1 |] eqn:Hfs; [| apply Hcrash; assumption].
    all: rewrite <- Ho.
    all: destruct (has_retry c) eqn:Hr; cbn [negb];
      [| apply Hstop; auto].
    all: destruct idm eqn:Hi; cbn [negb]; apply Hstop; auto.
  - destruct (outs k) as [r | e | p] eqn:Ho; [apply Hok; exact Ho | |].
    all: assert (Hf : is_ok (outs k) = false) by (rewrite Ho; reflexivity).
    all: destruct (fail_step c n s) as [s1 |] eqn:Hfs; [| apply Hcrash; assumption].
    all: rewrite <- Ho.
    all: destruct (has_retry c) eqn:Hr; cbn [negb];
      [| apply Hstop; auto].
    all: destruct idm eqn:Hi; cbn [negb]; [| apply Hstop; auto].
    all: apply Hretry; auto.
Qed.

Lemma fail_step_retried c n s s1 : fail_step c n s = Some s1 -> retried s1 = retried s.
Proof.
  unfold fail_step. destruct (on_failure c).
  - intros [= <-]. reflexivity.
  - destruct (n <=? 0); [discriminate |]. destruct (get_index (index s) n).
    intros [= <-]. reflexivity.
  - intros [= <-]. reflexivity.
Qed.

Lemma fail_step_nsucc c n s s1 : fail_step c n s = Some s1 -> nsucc s1 = nsucc s.
Proof.
  unfold fail_step. destruct (on_failure c).
  - intros [= <-]. reflexivity.
  - destruct (n <=? 0); [discriminate |]. destruct (get_index (index s) n).
    intros [= <-]. reflexivity.
  - intros [= <-]. reflexivity.
Qed.

Lemma fail_step_none c n s : fail_step c n s = None -> on_failure c = FRotate /\ n <= 0.
Proof.
  unfold fail_step. destruct (on_failure c); try discriminate.
  destruct (n <=? 0) eqn:Hn; [| destruct (get_index (index s) n); discriminate].
  intros _. apply Z.leb_le in Hn. auto.
Qed.

Definition nattempts (o : obs) : nat := length (attempts o).

(* at least one attempt, at most budget + 1 *)
Lemma loop_bounds c n idm outs b k s :
  (1 <= nattempts (loop c n idm outs b k s) <= S b)%nat.
Proof.
  apply (loop_induction c n idm outs (fun b k s o => (1 <= nattempts o <= S b)%nat));
    unfold nattempts; cbn [stop push attempts length]; intros; lia.
Qed.

(* retries switched off (OnRetry nil, or the call is not idempotent): exactly one attempt *)
Lemma loop_disabled c n idm outs b k s :
  has_retry c = false \/ idm = false ->
  attempts (loop c n idm outs b k s) = [url s].
Proof.
  intros Hd.
  apply (loop_induction c n idm outs (fun b k s o => attempts o = [url s]));
    cbn [stop push attempts]; intros; try reflexivity.
  destruct Hd; congruence.
Qed.

(* no attempt is made after a successful one *)
Lemma loop_prefix_fail c n idm outs b k s :
  forall j, (S j < nattempts (loop c n idm outs b k s))%nat -> is_ok (outs (k + j)%nat) = false.
Proof.
  apply (loop_induction c n idm outs
    (fun b k s o => forall j, (S j < nattempts o)%nat -> is_ok (outs (k + j)%nat) = false));
    unfold nattempts; cbn [stop push attempts length].
  1-3: intros; lia.
  intros b0 k0 s0 s1 Hf _ _ _ IH j Hj.
  destruct j as [| j].
  - rewrite Nat.add_0_r. exact Hf.
  - rewrite Nat.add_succ_r. apply (IH j). lia.
Qed.

(* what is returned is what the last attempt produced (or the OnFailure crash) *)
Lemma loop_result c n idm outs b k s :
  let o := loop c n idm outs b k s in
  res o = RCrash \/ res o = result_of (outs (k + nattempts o - 1)%nat).
Proof.
  apply (loop_induction c n idm outs
    (fun b k s o => res o = RCrash \/ res o = result_of (outs (k + nattempts o - 1)%nat)));
    unfold nattempts; cbn [stop push attempts length res].
  - intros b0 k0 s0 r Ho. right. replace (k0 + 1 - 1)%nat with k0 by lia. rewrite Ho. reflexivity.
  - intros. left. reflexivity.
  - intros b0 k0 s0 s1 _ _ _. right. replace (k0 + 1 - 1)%nat with k0 by lia. reflexivity.
  - intros b0 k0 s0 s1 _ _ _ _ IH.
    pose proof (loop_bounds c n idm outs b0 (S k0) (retry_step c n s1)) as Hb. unfold nattempts in Hb.
    destruct IH as [IH | IH]; [left; exact IH | right].
    rewrite IH. f_equal. f_equal. lia.
Qed.

Lemma loop_crash c n idm outs b k s :
  res (loop c n idm outs b k s) = RCrash -> on_failure c = FRotate /\ n <= 0.
Proof.
  apply (loop_induction c n idm outs
    (fun b k s o => res o = RCrash -> on_failure c = FRotate /\ n <= 0));
    cbn [stop push res].
  - intros; discriminate.
  - intros b0 k0 s0 _ Hn _. exact (fail_step_none _ _ _ Hn).
  - intros b0 k0 s0 s1 Hf _ _ Hr. destruct (outs k0); cbn in Hr; discriminate.
  - intros; auto.
Qed.

(* with retries switched on the recursion stops early only at a success *)
Lemma loop_early_stop c n idm outs b k s :
  let o := loop c n idm outs b k s in
  has_retry c = true -> idm = true -> res o <> RCrash -> (nattempts o < S b)%nat ->
  is_ok (outs (k + nattempts o - 1)%nat) = true.
Proof.
  intros o Hr Hi. subst o.
  apply (loop_induction c n idm outs
    (fun b k s o => res o <> RCrash -> (nattempts o < S b)%nat ->
                    is_ok (outs (k + nattempts o - 1)%nat) = true));
    unfold nattempts; cbn [stop push attempts length res].
  - intros b0 k0 s0 r Ho _ _. replace (k0 + 1 - 1)%nat with k0 by lia. rewrite Ho. reflexivity.
  - intros; congruence.
  - intros b0 k0 s0 s1 _ _ [Hd | [Hd | Hd]] _ Hlt; try congruence. lia.
  - intros b0 k0 s0 s1 _ _ _ _ IH Hc Hlt.
    pose proof (loop_bounds c n idm outs b0 (S k0) (retry_step c n s1)) as Hb. unfold nattempts in Hb.
    replace (k0 + S (length (attempts (loop c n idm outs b0 (S k0) (retry_step c n s1)))) - 1)%nat
      with (S k0 + length (attempts (loop c n idm outs b0 (S k0) (retry_step c n s1))) - 1)%nat by lia.
    apply IH; [exact Hc | lia].
Qed.

(* the "retried" item counts the retries *)
Lemma loop_retried c n idm outs b k s :
  let o := loop c n idm outs b k s in
  retried (fin o) = retried s + Z.of_nat (nattempts o) - 1.
Proof.
  apply (loop_induction c n idm outs
    (fun b k s o => retried (fin o) = retried s + Z.of_nat (nattempts o) - 1));
    unfold nattempts; cbn [stop push attempts length fin].
  - intros. cbn. lia.
  - intros. cbn. lia.
  - intros b0 k0 s0 s1 _ Hf _. rewrite (fail_step_retried _ _ _ _ Hf). cbn. lia.
  - intros b0 k0 s0 s1 _ Hf _ _ IH. rewrite IH. cbn [retry_step retried].
    rewrite (fail_step_retried _ _ _ _ Hf). lia.
Qed.

(* OnSuccess runs exactly once iff a response is returned *)
Lemma loop_nsucc c n idm outs b k s :
  let o := loop c n idm outs b k s in
  nsucc (fin o) = (nsucc s + match res o with RResp _ => 1 | _ => 0 end)%nat.
Proof.
  apply (loop_induction c n idm outs
    (fun b k s o => nsucc (fin o) = (nsucc s + match res o with RResp _ => 1 | _ => 0 end)%nat));
    cbn [stop push fin res].
  - intros. cbn. lia.
  - intros. lia.
  - intros b0 k0 s0 s1 Hf Hs _. rewrite (fail_step_nsucc _ _ _ _ Hs).
    destruct (outs k0); cbn in *; try discriminate; lia.
  - intros b0 k0 s0 s1 _ Hs _ _ IH. rewrite IH. cbn [retry_step nsucc].
    rewrite (fail_step_nsucc _ _ _ _ Hs). reflexivity.
Qed.

(* OnFailure (when there is one) runs once per failed attempt *)
Lemma fail_step_nfail c n s s1 : fail_step c n s = Some s1 ->
  nfail s1 = (nfail s + match on_failure c with FNone => 0 | _ => 1 end)%nat.
Proof.
  unfold fail_step. destruct (on_failure c).
  - intros [= <-]. lia.
  - destruct (n <=? 0); [discriminate |]. destruct (get_index (index s) n).
    intros [= <-]. cbn. lia.
  - intros [= <-]. cbn. lia.
Qed.

Lemma loop_nfail c n idm outs b k s :
  let o := loop c n idm outs b k s in
  res o <> RCrash -> on_failure c <> FNone ->
  nfail (fin o) = (nfail s + nattempts o - match res o with RResp _ => 1 | _ => 0 end)%nat.
Proof.
  intros o Hc Hn. subst o. revert Hc.
  apply (loop_induction c n idm outs
    (fun b k s o => res o <> RCrash ->
       nfail (fin o) = (nfail s + nattempts o - match res o with RResp _ => 1 | _ => 0 end)%nat));
    unfold nattempts; cbn [stop push attempts length fin res].
  - intros. cbn. lia.
  - intros; congruence.
  - intros b0 k0 s0 s1 Hf Hs _ _. rewrite (fail_step_nfail _ _ _ _ Hs).
    destruct (on_failure c); [congruence | |];
      destruct (outs k0); cbn in *; try discriminate; lia.
  - intros b0 k0 s0 s1 _ Hs _ _ IH Hc. rewrite (IH Hc). cbn [retry_step nfail].
    rewrite (fail_step_nfail _ _ _ _ Hs).
    pose proof (loop_bounds c n idm outs b0 (S k0) (retry_step c n s1)) as Hb. unfold nattempts in Hb.
    destruct (on_failure c); [congruence | |];
      destruct (res (loop c n idm outs b0 (S k0) (retry_step c n s1))); lia.
Qed.

(* ---- the literal Go recursion terminates and equals the structural one ---- *)
Lemma loop_lit_eq c n idm rty outs : forall fuel b k s,
  b = Z.to_nat (rty - retried s) -> (b < fuel)%nat ->
  loop_lit fuel c n idm rty outs k s = Some (loop c n idm outs b k s).
Proof.
  induction fuel as [| f IH]; intros b k s Hb Hlt; [lia |].
  rewrite loop_eq. cbn [loop_lit].
  destruct (outs k) as [r | e | p]; [reflexivity | |].
  all: destruct (fail_step c n s) as [s1 |] eqn:Hfs; [| reflexivity].
  all: destruct (has_retry c); cbn [negb]; [| reflexivity].
  all: pose proof (fail_step_retried _ _ _ _ Hfs) as Hrd.
  all: destruct idm; cbn [negb andb]; [| reflexivity].
  all: destruct (retried s1 <? rty) eqn:Hcmp.
  all: try (apply Z.ltb_lt in Hcmp; destruct b as [| b']; [lia |];
            rewrite (IH b' (S k) (retry_step c n s1)); [reflexivity | cbn [retry_step retried]; lia | lia]).
  all: apply Z.ltb_ge in Hcmp; destruct b as [| b']; [reflexivity | lia].
Qed.

(* ---- URLs ---- *)

Lemma fail_step_rotate c n s : on_failure c = FRotate -> 1 <= n -> ix_ok n (index s) ->
  exists s1, fail_step c n s = Some s1 /\
             url s1 = (index s + 1) mod n /\ index s1 = (index s + 1) mod n.
Proof.
  intros Hm Hn Hix. unfold fail_step. rewrite Hm.
  destruct (n <=? 0) eqn:Hle; [apply Z.leb_le in Hle; lia |].
  rewrite (get_index_spec n (index s) Hn Hix). eexists. split; [reflexivity |]. cbn. auto.
Qed.

Lemma fail_step_other c n s s1 : on_failure c <> FRotate -> fail_step c n s = Some s1 ->
  url s1 = url s /\ index s1 = index s.
Proof.
  unfold fail_step. destruct (on_failure c); [| congruence |]; intros _ [= <-]; auto.
Qed.

(* failover: attempt j >= 1 of a call goes to URL (index + j) mod n, where index is the
   shared failover index when the call starts; the index ends up valid *)
Lemma loop_rotate c n idm outs b k s :
  on_failure c = FRotate -> 1 <= n -> ix_ok n (index s) ->
  let o := loop c n idm outs b k s in
  nth_error (attempts o) 0 = Some (url s) /\
  (forall j, (0 < j < nattempts o)%nat ->
     nth_error (attempts o) j = Some ((index s + Z.of_nat j) mod n)) /\
  ix_ok n (index (fin o)).
Proof.
  intros Hm Hn. cbv zeta. revert b k s.
  apply (loop_induction c n idm outs
    (fun b k s o => ix_ok n (index s) ->
       nth_error (attempts o) 0 = Some (url s) /\
       (forall j, (0 < j < nattempts o)%nat ->
          nth_error (attempts o) j = Some ((index s + Z.of_nat j) mod n)) /\
       ix_ok n (index (fin o))));
    unfold nattempts; cbn [stop push attempts length fin].
  - intros b k s r _ Hix. repeat split; try (apply Hix). intros j Hj. lia.
  - intros b k s _ Hnone. apply fail_step_none in Hnone. lia.
  - intros b k s s1 _ Hs _ Hix.
    destruct (fail_step_rotate c n s Hm Hn Hix) as (s1' & Hs' & Hu & Hi).
    rewrite Hs in Hs'. injection Hs' as <-.
    split; [reflexivity |]. split; [intros j Hj; lia |]. rewrite Hi. apply mod_ix_ok. lia.
  - intros b k s s1 _ Hs _ _ IH Hix.
    destruct (fail_step_rotate c n s Hm Hn Hix) as (s1' & Hs' & Hu & Hi).
    rewrite Hs in Hs'. injection Hs' as <-.
    assert (Hix1 : ix_ok n (index (retry_step c n s1))).
    { cbn [retry_step index]. rewrite Hi. apply mod_ix_ok. lia. }
    destruct (IH Hix1) as (H0 & Hj & Hfin).
    split; [reflexivity |]. split; [| exact Hfin].
    intros j Hjr. destruct j as [| j]; [lia |]. cbn [nth_error].
    destruct j as [| j].
    + rewrite H0. cbn [retry_step url]. rewrite Hu. reflexivity.
    + rewrite (Hj (S j)) by lia. cbn [retry_step index]. rewrite Hi.
      f_equal. rewrite Zplus_mod_idemp_l. f_equal. lia.
Qed.

(* modes without rotation never change the URL or the index *)
Lemma loop_same_url c n idm outs b k s :
  on_failure c <> FRotate ->
  let o := loop c n idm outs b k s in
  attempts o = repeat (url s) (nattempts o) /\ index (fin o) = index s /\ url (fin o) = url s.
Proof.
  intros Hm. cbv zeta.
  apply (loop_induction c n idm outs
    (fun b k s o => attempts o = repeat (url s) (nattempts o) /\
                    index (fin o) = index s /\ url (fin o) = url s));
    unfold nattempts; cbn [stop push attempts length fin repeat].
  - intros. cbn. auto.
  - intros. auto.
  - intros b0 k0 s0 s1 _ Hs _. destruct (fail_step_other _ _ _ _ Hm Hs). auto.
  - intros b0 k0 s0 s1 _ Hs _ _ (IHa & IHi & IHu).
    destruct (fail_step_other _ _ _ _ Hm Hs) as [Hu Hi].
    cbn [retry_step url index] in *. rewrite Hu in *. rewrite Hi in *.
    split; [f_equal; exact IHa | auto].
Qed.

(* every attempt goes to a configured URL, and the shared index stays valid *)
Lemma loop_urls_valid c n idm outs b k s :
  1 <= n -> ix_ok n (index s) -> ix_ok n (url s) ->
  let o := loop c n idm outs b k s in
  Forall (ix_ok n) (attempts o) /\ ix_ok n (index (fin o)).
Proof.
  intros Hn Hix Hu. cbv zeta.
  destruct (on_failure c) eqn:Hm.
  2: { destruct (loop_rotate c n idm outs b k s Hm Hn Hix) as (H0 & Hj & Hfin).
       split; [| exact Hfin]. apply Forall_forall. intros u Hin.
       apply In_nth_error in Hin. destruct Hin as [j Hjn].
       assert (Hlt : (j < nattempts (loop c n idm outs b k s))%nat).
       { unfold nattempts. apply nth_error_Some. congruence. }
       destruct j as [| j].
       - rewrite H0 in Hjn. injection Hjn as <-. exact Hu.
       - rewrite (Hj (S j)) in Hjn by lia. injection Hjn as <-. apply mod_ix_ok. lia. }
  all: assert (Hne : on_failure c <> FRotate) by congruence.
  all: destruct (loop_same_url c n idm outs b k s Hne) as (Ha & Hi & _).
  all: rewrite Ha, Hi; split; [| exact Hix].
  all: apply Forall_forall; intros u Hin; apply repeat_spec in Hin; subst u; exact Hu.
Qed.

(* ---- one call ---- *)

Lemma start_url n ix rd : 1 <= n -> url (start n ix rd) = 0.
Proof. intros Hn. unfold start. cbn. destruct (n >? 0) eqn:H; [reflexivity |].
  rewrite Z.gtb_ltb in H. apply Z.ltb_ge in H. lia. Qed.

Lemma handle_attempts_le c n ix cl :
  (1 <= nattempts (handle c n ix cl) <= S (budget_of c cl))%nat.
Proof. unfold handle. apply loop_bounds. Qed.

Lemma handle_attempts_le_Z c n ix cl :
  1 <= Z.of_nat (nattempts (handle c n ix cl)) <= Z.max 0 (eff_retry c cl - it_retried cl) + 1.
Proof.
  pose proof (handle_attempts_le c n ix cl) as H. unfold budget_of in H. lia.
Qed.

Lemma handle_non_idempotent_once c n ix cl :
  eff_idem c cl = false ->
  attempts (handle c n ix cl) = [url (start n ix (it_retried cl))] /\
  (res (handle c n ix cl) = RCrash \/ res (handle c n ix cl) = result_of (script cl 0%nat)).
Proof.
  intros Hi. unfold handle.
  pose proof (loop_disabled c n (eff_idem c cl) (script cl) (budget_of c cl) 0 (start n ix (it_retried cl))
                (or_intror Hi)) as Ha.
  split; [exact Ha |].
  pose proof (loop_result c n (eff_idem c cl) (script cl) (budget_of c cl) 0 (start n ix (it_retried cl))) as Hr.
  cbv zeta in Hr. unfold nattempts in Hr. rewrite Ha in Hr. exact Hr.
Qed.

Lemma handle_failfast_once c n ix cl :
  has_retry c = false ->
  attempts (handle c n ix cl) = [url (start n ix (it_retried cl))] /\
  (res (handle c n ix cl) = RCrash \/ res (handle c n ix cl) = result_of (script cl 0%nat)).
Proof.
  intros Hi. unfold handle.
  pose proof (loop_disabled c n (eff_idem c cl) (script cl) (budget_of c cl) 0 (start n ix (it_retried cl))
                (or_introl Hi)) as Ha.
  split; [exact Ha |].
  pose proof (loop_result c n (eff_idem c cl) (script cl) (budget_of c cl) 0 (start n ix (it_retried cl))) as Hr.
  cbv zeta in Hr. unfold nattempts in Hr. rewrite Ha in Hr. exact Hr.
Qed.

Definition no_crash (c : cfg) (n : Z) : Prop := on_failure c <> FRotate \/ 1 <= n.

Lemma handle_no_crash c n ix cl : no_crash c n -> res (handle c n ix cl) <> RCrash.
Proof.
  intros Hnc Hr. apply loop_crash in Hr. destruct Hr as [Hm Hn]. destruct Hnc; [congruence | lia].
Qed.

(* the outcome of the last attempt is what the caller gets; all earlier attempts failed *)
Lemma handle_last_returned c n ix cl :
  no_crash c n ->
  let o := handle c n ix cl in
  res o = result_of (script cl (nattempts o - 1)%nat) /\
  (forall j, (S j < nattempts o)%nat -> is_ok (script cl j) = false).
Proof.
  intros Hnc o. subst o. split.
  - pose proof (handle_no_crash c n ix cl Hnc) as Hc.
    pose proof (loop_result c n (eff_idem c cl) (script cl) (budget_of c cl) 0 (start n ix (it_retried cl))) as Hr.
    cbv zeta in Hr. fold (handle c n ix cl) in Hr. destruct Hr as [Hr | Hr]; [congruence |].
    rewrite Hr. reflexivity.
  - intros j Hj. unfold handle in Hj.
    exact (loop_prefix_fail c n _ _ _ 0%nat _ j Hj).
Qed.

(* first success within the budget: the call stops exactly there and returns its response *)
Lemma handle_first_success c n ix cl k r :
  no_crash c n -> has_retry c = true -> eff_idem c cl = true ->
  script cl k = Ok r -> (forall j, (j < k)%nat -> is_ok (script cl j) = false) ->
  (k <= budget_of c cl)%nat ->
  nattempts (handle c n ix cl) = S k /\ res (handle c n ix cl) = RResp r.
Proof.
  intros Hnc Hr Hi Hk Hbefore Hle.
  destruct (handle_last_returned c n ix cl Hnc) as [Hres Hpre].
  pose proof (handle_attempts_le c n ix cl) as Hb.
  set (m := nattempts (handle c n ix cl)) in *.
  assert (Hm : m = S k).
  { destruct (Nat.lt_trichotomy m (S k)) as [Hlt | [Heq | Hgt]]; [| exact Heq |].
    - (* stopped before attempt k: only possible at a success, but all before k fail *)
      exfalso.
      pose proof (loop_early_stop c n (eff_idem c cl) (script cl) (budget_of c cl) 0
                    (start n ix (it_retried cl)) Hr Hi) as He.
      cbv zeta in He. fold (handle c n ix cl) in He. fold m in He.
      specialize (He (handle_no_crash c n ix cl Hnc) ltac:(lia)). cbn in He.
      rewrite (Hbefore (m - 1)%nat) in He by lia. discriminate.
    - (* went past a success *)
      exfalso. specialize (Hpre k ltac:(lia)). rewrite Hk in Hpre. discriminate. }
  split; [exact Hm |]. rewrite Hres, Hm. replace (S k - 1)%nat with k by lia. rewrite Hk. reflexivity.
Qed.

(* no success within the budget: budget + 1 attempts, and the last error is returned *)
Lemma handle_all_fail c n ix cl :
  no_crash c n -> has_retry c = true -> eff_idem c cl = true ->
  (forall j, (j <= budget_of c cl)%nat -> is_ok (script cl j) = false) ->
  nattempts (handle c n ix cl) = S (budget_of c cl) /\
  res (handle c n ix cl) = result_of (script cl (budget_of c cl)).
Proof.
  intros Hnc Hr Hi Hall.
  destruct (handle_last_returned c n ix cl Hnc) as [Hres Hpre].
  pose proof (handle_attempts_le c n ix cl) as Hb.
  set (m := nattempts (handle c n ix cl)) in *.
  assert (Hm : m = S (budget_of c cl)).
  { destruct (Nat.eq_dec m (S (budget_of c cl))) as [E | E]; [exact E | exfalso].
    pose proof (loop_early_stop c n (eff_idem c cl) (script cl) (budget_of c cl) 0
                  (start n ix (it_retried cl)) Hr Hi) as He.
    cbv zeta in He. fold (handle c n ix cl) in He. fold m in He.
    specialize (He (handle_no_crash c n ix cl Hnc) ltac:(lia)). cbn in He.
    rewrite (Hall (m - 1)%nat) in He by lia. discriminate. }
  split; [exact Hm |]. rewrite Hres, Hm. f_equal. f_equal. lia.
Qed.

Lemma handle_lit_terminates c n ix cl fuel :
  (budget_of c cl < fuel)%nat -> handle_lit fuel c n ix cl = Some (handle c n ix cl).
Proof.
  intros Hf. unfold handle_lit, handle. apply loop_lit_eq; [| exact Hf]. reflexivity.
Qed.

(* failover URLs of one call *)
Lemma handle_failover_urls c n ix cl :
  on_failure c = FRotate -> 1 <= n -> ix_ok n ix ->
  let o := handle c n ix cl in
  nth_error (attempts o) 0 = Some 0 /\
  (forall j, (0 < j < nattempts o)%nat -> nth_error (attempts o) j = Some ((ix + Z.of_nat j) mod n)) /\
  Forall (ix_ok n) (attempts o) /\ ix_ok n (index (fin o)).
Proof.
  intros Hm Hn Hix o. subst o. unfold handle.
  destruct (loop_rotate c n (eff_idem c cl) (script cl) (budget_of c cl) 0 (start n ix (it_retried cl))
              Hm Hn Hix) as (H0 & Hj & Hfin).
  rewrite (start_url n ix _ Hn) in H0.
  split; [exact H0 |]. split; [exact Hj |].
  apply loop_urls_valid; [exact Hn | exact Hix |]. rewrite start_url by exact Hn. unfold ix_ok. lia.
Qed.

(* from the second attempt on, consecutive attempts go to cyclically successive servers *)
Lemma handle_failover_successive c n ix cl j u :
  on_failure c = FRotate -> 1 <= n -> ix_ok n ix ->
  (0 < j)%nat -> (S j < nattempts (handle c n ix cl))%nat ->
  nth_error (attempts (handle c n ix cl)) j = Some u ->
  nth_error (attempts (handle c n ix cl)) (S j) = Some ((u + 1) mod n).
Proof.
  intros Hm Hn Hix Hj Hlt Hu.
  destruct (handle_failover_urls c n ix cl Hm Hn Hix) as (_ & Hnth & _).
  rewrite (Hnth j) in Hu by lia. injection Hu as <-.
  rewrite (Hnth (S j)) by lia. f_equal. rewrite Zplus_mod_idemp_l. f_equal. lia.
Qed.

(* a failed attempt is followed by an attempt at a different server — provided the shared
   index does not wrap to 0 at the first failure of the call *)
Lemma handle_failover_moves c n ix cl j u v :
  on_failure c = FRotate -> 2 <= n -> ix_ok n ix -> ix <> n - 1 ->
  nth_error (attempts (handle c n ix cl)) j = Some u ->
  nth_error (attempts (handle c n ix cl)) (S j) = Some v ->
  u <> v.
Proof.
  intros Hm Hn Hix Hwrap Hu Hv.
  assert (Hlt : (S j < nattempts (handle c n ix cl))%nat).
  { unfold nattempts. apply nth_error_Some. congruence. }
  destruct (handle_failover_urls c n ix cl Hm ltac:(lia) Hix) as (H0 & Hnth & _).
  destruct j as [| j].
  - rewrite H0 in Hu. injection Hu as <-.
    rewrite (Hnth 1%nat) in Hv by lia. injection Hv as <-.
    change (Z.of_nat 1) with 1. destruct Hix as [Hlo Hhi].
    rewrite Z.mod_small by lia. lia.
  - rewrite (handle_failover_successive c n ix cl (S j) u Hm ltac:(lia) Hix ltac:(lia) Hlt Hu) in Hv.
    injection Hv as <-.
    rewrite (Hnth (S j)) in Hu by lia. injection Hu as <-.
    apply not_eq_sym. apply succ_mod_neq; [lia |]. apply mod_ix_ok. lia.
Qed.

(* ---- sequences of calls through one plugin instance ---- *)

Lemma run_calls_urls_valid c n carry : 1 <= n -> forall cs ix prev,
  ix_ok n ix ->
  Forall (fun o => Forall (ix_ok n) (attempts o)) (run_calls c n carry ix prev cs).
Proof.
  intros Hn. induction cs as [| cl cs IH]; intros ix prev Hix; cbn [run_calls]; [constructor |].
  set (cl' := match carry, prev with true, Some rd => with_retried cl rd | _, _ => cl end).
  assert (H : Forall (ix_ok n) (attempts (handle c n ix cl')) /\ ix_ok n (index (fin (handle c n ix cl')))).
  { unfold handle. apply loop_urls_valid; [exact Hn | exact Hix |].
    rewrite start_url by exact Hn. unfold ix_ok. lia. }
  destruct H as [Ha Hi]. constructor; [exact Ha |]. apply IH. exact Hi.
Qed.

Lemma run_calls_length c n carry : forall cs ix prev,
  length (run_calls c n carry ix prev cs) = length cs.
Proof. induction cs as [| cl cs IH]; intros; cbn [run_calls length]; [reflexivity | rewrite IH; reflexivity]. Qed.

(* every call of a sequence obeys the per-call bound, whatever the shared state is *)
Lemma run_calls_each c n carry (P : obs -> Prop) :
  (forall ix cl, P (handle c n ix cl)) ->
  forall cs ix prev, Forall P (run_calls c n carry ix prev cs).
Proof.
  intros HP. induction cs as [| cl cs IH]; intros ix prev; cbn [run_calls]; constructor; auto.
Qed.

Lemma run_calls_lit_eq c n carry : forall cs ix prev,
  run_calls_lit c n carry ix prev cs = map Some (run_calls c n carry ix prev cs).
Proof.
  induction cs as [| cl cs IH]; intros ix prev; cbn [run_calls run_calls_lit map]; [reflexivity |].
  rewrite handle_lit_terminates by lia. rewrite IH. reflexivity.
Qed.

(* ================================================================== *)
(* the back-off intervals steer nothing but the sleeps                 *)

Definition cfg_core (c : cfg) := (retry c, idem c, on_failure c, has_retry c).
Definition core_s (s : cstate) := (url s, index s, retried s, nfail s, nsucc s).
Definition core_o (o : obs) := (attempts o, res o, core_s (fin o)).

Lemma fail_step_core c c' n s s' :
  on_failure c = on_failure c' -> core_s s = core_s s' ->
  match fail_step c n s, fail_step c' n s' with
  | None, None => True
  | Some a, Some b => core_s a = core_s b
  | _, _ => False
  end.
Proof.
  intros Hf Hs. unfold core_s in Hs. injection Hs as Hu Hi Hr Hnf Hns.
  unfold fail_step. rewrite <- Hf. destruct (on_failure c).
  - unfold core_s. congruence.
  - destruct (n <=? 0); [exact I |]. rewrite <- Hi. destruct (get_index (index s) n).
    unfold core_s. cbn. congruence.
  - unfold core_s. cbn. congruence.
Qed.

Lemma loop_core c c' n idm outs : cfg_core c = cfg_core c' -> forall b k s s',
  core_s s = core_s s' ->
  core_o (loop c n idm outs b k s) = core_o (loop c' n idm outs b k s').
Proof.
  intros Hc. unfold cfg_core in Hc. injection Hc as Hrt Hid Hof Hhr.
  induction b as [| b IH]; intros k s s' Hs; rewrite (loop_eq c), (loop_eq c'); rewrite <- Hhr.
  all: pose proof Hs as Hs0; unfold core_s in Hs0; injection Hs0 as Hu Hi Hr Hnf Hns.
  all: destruct (outs k) as [r | e | p];
    [unfold core_o, core_s; cbn; congruence | |].
  all: pose proof (fail_step_core c c' n s s' Hof Hs) as Hfs.
  all: destruct (fail_step c n s) as [s1 |], (fail_step c' n s') as [s1' |]; try contradiction;
    [| unfold core_o, core_s; cbn; congruence].
  all: destruct (has_retry c); cbn [negb];
    [| unfold core_o; cbn; rewrite Hu, Hfs; reflexivity].
  all: destruct idm; cbn [negb];
    [| unfold core_o; cbn; rewrite Hu, Hfs; reflexivity].
  all: try (unfold core_o; cbn; rewrite Hu, Hfs; reflexivity).
  all: assert (Hrs : core_s (retry_step c n s1) = core_s (retry_step c' n s1'))
    by (unfold core_s in *; cbn; congruence).
  all: specialize (IH (S k) _ _ Hrs); unfold core_o in *; cbn [push attempts res fin];
    congruence.
Qed.

(* one call: attempts, URLs, result, retried item and callback counts do not depend on
   minInterval / maxInterval *)
Lemma handle_intervals_irrelevant c c' n ix cl :
  cfg_core c = cfg_core c' -> core_o (handle c n ix cl) = core_o (handle c' n ix cl).
Proof.
  intros Hc. unfold handle.
  assert (eff_idem c cl = eff_idem c' cl) as ->.
  { unfold eff_idem. unfold cfg_core in Hc. destruct (it_idem cl); congruence. }
  assert (budget_of c cl = budget_of c' cl) as ->.
  { unfold budget_of, eff_retry. unfold cfg_core in Hc. destruct (it_retry cl); congruence. }
  apply loop_core; [exact Hc | reflexivity].
Qed.

(* the interval OnRetry returns never exceeds maxInterval, and is the product below it *)
Lemma interval_clamp a m : (if a >? m then m else a) <= m /\ (a <= m -> (if a >? m then m else a) = a).
Proof.
  destruct (a >? m) eqn:Hgt; rewrite Z.gtb_ltb in Hgt;
    [apply Z.ltb_lt in Hgt | apply Z.ltb_ge in Hgt]; split; lia.
Qed.

Lemma interval_of_spec c n rd :
  interval_of c n rd <= max_interval c /\
  (on_retry c = RFailover -> min_interval c * (rd - n) <= max_interval c ->
   interval_of c n rd = min_interval c * (rd - n)) /\
  (on_retry c <> RFailover -> min_interval c * rd <= max_interval c ->
   interval_of c n rd = min_interval c * rd).
Proof.
  unfold interval_of. destruct (on_retry c); cbv zeta.
  - pose proof (interval_clamp (min_interval c * rd) (max_interval c)) as [H1 H2].
    repeat split; [exact H1 | discriminate | intros _; exact H2].
  - pose proof (interval_clamp (min_interval c * rd) (max_interval c)) as [H1 H2].
    repeat split; [exact H1 | discriminate | intros _; exact H2].
  - pose proof (interval_clamp (min_interval c * (rd - n)) (max_interval c)) as [H1 H2].
    repeat split; [exact H1 | intros _; exact H2 | congruence].
Qed.

(* one interval is recorded per retry *)
Lemma loop_ivs_length c n idm outs b k s :
  let o := loop c n idm outs b k s in
  length (ivs (fin o)) = (length (ivs s) + nattempts o - 1)%nat.
Proof.
  apply (loop_induction c n idm outs
    (fun b k s o => length (ivs (fin o)) = (length (ivs s) + nattempts o - 1)%nat));
    unfold nattempts; cbn [stop push attempts length fin].
  - intros. cbn. lia.
  - intros. lia.
  - intros b0 k0 s0 s1 _ Hf _. assert (ivs s1 = ivs s0) as ->; [| lia].
    revert Hf. unfold fail_step. destruct (on_failure c).
    + intros [= <-]. reflexivity.
    + destruct (n <=? 0); [discriminate |]. destruct (get_index (index s0) n). intros [= <-]. reflexivity.
    + intros [= <-]. reflexivity.
  - intros b0 k0 s0 s1 _ Hf _ _ IH. rewrite IH. cbn [retry_step ivs length].
    assert (ivs s1 = ivs s0) as ->.
    { revert Hf. unfold fail_step. destruct (on_failure c).
      + intros [= <-]. reflexivity.
      + destruct (n <=? 0); [discriminate |]. destruct (get_index (index s0) n). intros [= <-]. reflexivity.
      + intros [= <-]. reflexivity. }
    pose proof (loop_bounds c n idm outs b0 (S k0) (retry_step c n s1)) as Hb. unfold nattempts in Hb. lia.
Qed.

(* ================================================================== *)
(* list helpers                                                        *)

Lemma upd_nth_length {A} (x : A) : forall l i, length (upd_nth i x l) = length l.
Proof. induction l as [| y l IH]; intros [| i]; cbn; auto. Qed.

Lemma nth_error_upd_same {A} (x : A) : forall l i, (i < length l)%nat ->
  nth_error (upd_nth i x l) i = Some x.
Proof.
  induction l as [| y l IH]; intros [| i] Hi; cbn in *; try lia; [reflexivity |].
  apply IH. lia.
Qed.

Lemma nth_error_upd_other {A} (x : A) : forall l i j, i <> j ->
  nth_error (upd_nth i x l) j = nth_error l j.
Proof.
  induction l as [| y l IH]; intros [| i] [| j] Hne; cbn; try reflexivity; try congruence.
  apply IH. congruence.
Qed.

Lemma NoDup_snoc {A} (l : list A) x : NoDup l -> ~ In x l -> NoDup (l ++ [x]).
Proof.
  intros Hl Hx. eapply Permutation_NoDup; [apply Permutation_cons_append |].
  constructor; assumption.
Qed.

Lemma nth_error_repeat_inv {A} (x y : A) n i : nth_error (repeat x n) i = Some y -> y = x.
Proof. intros H. apply nth_error_In in H. apply repeat_spec in H. exact H. Qed.

Lemma list_ext_nth_error {A} : forall (l l' : list A),
  (forall i, nth_error l i = nth_error l' i) -> l = l'.
Proof.
  induction l as [| x l IH]; intros [| y l'] H.
  - reflexivity.
  - specialize (H 0%nat). discriminate.
  - specialize (H 0%nat). discriminate.
  - pose proof (H 0%nat) as H0. cbn in H0. injection H0 as <-. f_equal.
    apply IH. intros i. exact (H (S i)).
Qed.

(* first element of a list satisfying a boolean test *)
Lemma first_true {A} (f : A -> bool) : forall l, existsb f l = true ->
  exists pre x post, l = pre ++ x :: post /\ f x = true /\ Forall (fun y => f y = false) pre.
Proof.
  induction l as [| a l IH]; cbn; [discriminate |].
  destruct (f a) eqn:Ha.
  - intros _. exists [], a, l. repeat split; auto.
  - cbn. intros H. destruct (IH H) as (pre & x & post & -> & Hx & Hpre).
    exists (a :: pre), x, post. repeat split; auto.
Qed.

(* ================================================================== *)
(* the fan-out LTS shared by Forking and Broadcast                     *)

Definition started (p : tpc) : bool := match p with TNew => false | _ => true end.

Section FanProofs.
  Context {A : Type} (eff : A -> nat -> A) (n : nat) (a0 : A).

  Record fan_inv (s : fan (A := A)) : Prop := {
    inv_len : length (pcs s) = n;
    inv_nd_i : NoDup (invoked s);
    inv_nd_c : NoDup (completed s);
    inv_i : forall i, In i (invoked s) <->
                      exists p, nth_error (pcs s) i = Some p /\ started p = true;
    inv_c : forall i, In i (completed s) <-> nth_error (pcs s) i = Some TDone;
    inv_sh : sh s = fold_left eff (completed s) a0 }.

  Lemma fan_init_inv : fan_inv (fan_init n a0).
  Proof.
    constructor; cbn.
    - apply repeat_length.
    - constructor.
    - constructor.
    - intros i. split; [intros [] |]. intros (p & Hp & Hs).
      apply nth_error_repeat_inv in Hp. subst p. discriminate.
    - intros i. split; [intros [] |]. intros Hp.
      apply nth_error_repeat_inv in Hp. discriminate.
    - reflexivity.
  Qed.

  Lemma fan_step_inv s i s' : fan_inv s -> fan_step eff s i = Some s' -> fan_inv s'.
  Proof.
    intros [Hlen Hndi Hndc Hi Hc Hsh] Hstep. unfold fan_step in Hstep.
    destruct (nth_error (pcs s) i) as [p |] eqn:Hp; [| discriminate].
    assert (Hlt : (i < length (pcs s))%nat) by (apply nth_error_Some; congruence).
    destruct p; [| | discriminate]; injection Hstep as <-; constructor; cbn.
    - rewrite upd_nth_length. exact Hlen.
    - apply NoDup_snoc; [exact Hndi |]. intros Hin. apply Hi in Hin.
      destruct Hin as (p & Hp' & Hs). rewrite Hp in Hp'. injection Hp' as <-. discriminate.
    - exact Hndc.
    - intros j. rewrite in_app_iff. cbn. destruct (Nat.eq_dec i j) as [<- | Hne].
      + rewrite nth_error_upd_same by exact Hlt. split; [| auto].
        intros _. exists TRunning. auto.
      + rewrite nth_error_upd_other by exact Hne. rewrite Hi. split; [| auto].
        intros [H | [H | []]]; [exact H | congruence].
    - intros j. destruct (Nat.eq_dec i j) as [<- | Hne].
      + rewrite nth_error_upd_same by exact Hlt. rewrite Hc, Hp. split; discriminate.
      + rewrite nth_error_upd_other by exact Hne. apply Hc.
    - exact Hsh.
    - rewrite upd_nth_length. exact Hlen.
    - exact Hndi.
    - apply NoDup_snoc; [exact Hndc |]. intros Hin. apply Hc in Hin. congruence.
    - intros j. destruct (Nat.eq_dec i j) as [<- | Hne].
      + rewrite nth_error_upd_same by exact Hlt. rewrite Hi. split.
        * intros _. exists TDone. auto.
        * intros _. exists TRunning. auto.
      + rewrite nth_error_upd_other by exact Hne. apply Hi.
    - intros j. rewrite in_app_iff. cbn. destruct (Nat.eq_dec i j) as [<- | Hne].
      + rewrite nth_error_upd_same by exact Hlt. split; auto.
      + rewrite nth_error_upd_other by exact Hne. rewrite Hc. split; [| auto].
        intros [H | [H | []]]; [exact H | congruence].
    - rewrite fold_left_app. cbn. rewrite Hsh. reflexivity.
  Qed.

  Lemma fan_run_inv : forall sched s s', fan_inv s -> fan_run eff s sched = Some s' -> fan_inv s'.
  Proof.
    induction sched as [| i r IH]; intros s s' Hinv Hrun; cbn in Hrun.
    - injection Hrun as <-. exact Hinv.
    - destruct (fan_step eff s i) as [s1 |] eqn:Hs; [| discriminate].
      eapply IH; [eapply fan_step_inv; eauto | exact Hrun].
  Qed.

  (* consequences of the invariant *)
  Lemma fan_invoked_lt s i : fan_inv s -> In i (invoked s) -> (i < n)%nat.
  Proof.
    intros Hinv Hin. apply (inv_i s Hinv) in Hin. destruct Hin as (p & Hp & _).
    rewrite <- (inv_len s Hinv). apply nth_error_Some. congruence.
  Qed.

  Lemma fan_completed_invoked s i : fan_inv s -> In i (completed s) -> In i (invoked s).
  Proof.
    intros Hinv Hin. apply (inv_c s Hinv) in Hin. apply (inv_i s Hinv). exists TDone. auto.
  Qed.

  Lemma fan_invoked_at_most_once s i : fan_inv s -> (count_occ Nat.eq_dec (invoked s) i <= 1)%nat.
  Proof. intros Hinv. apply NoDup_count_occ. exact (inv_nd_i s Hinv). Qed.

  Lemma all_done_nth l : all_done l = true -> forall i, (i < length l)%nat -> nth_error l i = Some TDone.
  Proof.
    unfold all_done. rewrite forallb_forall. intros H i Hi.
    destruct (nth_error l i) as [p |] eqn:Hp; [| apply nth_error_None in Hp; lia].
    specialize (H p (nth_error_In _ _ Hp)). destruct p; try discriminate. reflexivity.
  Qed.

  Lemma fan_all_done s : fan_inv s -> all_done (pcs s) = true ->
    Permutation (invoked s) (seq 0 n) /\ Permutation (completed s) (seq 0 n).
  Proof.
    intros Hinv Hd. pose proof (all_done_nth _ Hd) as Hall. rewrite (inv_len s Hinv) in Hall.
    split; apply NoDup_Permutation; try apply seq_NoDup.
    - exact (inv_nd_i s Hinv).
    - intros i. rewrite in_seq. split.
      + intros Hin. pose proof (fan_invoked_lt s i Hinv Hin). lia.
      + intros [_ Hlt]. apply (inv_i s Hinv). exists TDone. split; [apply Hall; lia | reflexivity].
    - exact (inv_nd_c s Hinv).
    - intros i. rewrite in_seq. split.
      + intros Hin. apply (fan_completed_invoked s i Hinv) in Hin.
        pose proof (fan_invoked_lt s i Hinv Hin). lia.
      + intros [_ Hlt]. apply (inv_c s Hinv). apply Hall. lia.
  Qed.

  Lemma fan_exactly_once s i : fan_inv s -> all_done (pcs s) = true -> (i < n)%nat ->
    count_occ Nat.eq_dec (invoked s) i = 1%nat.
  Proof.
    intros Hinv Hd Hi. destruct (fan_all_done s Hinv Hd) as [Hp _].
    pose proof (fan_invoked_at_most_once s i Hinv) as Hle.
    assert (Hin : In i (invoked s)).
    { eapply Permutation_in; [apply Permutation_sym; exact Hp |]. apply in_seq. lia. }
    apply (count_occ_In Nat.eq_dec) in Hin. lia.
  Qed.
End FanProofs.

(* ================================================================== *)
(* Forking                                                             *)

Definition failing (outs : list outcome) (j : nat) : Prop :=
  exists o, nth_error outs j = Some o /\ is_ok o = false.

Definition okb (outs : list outcome) (j : nat) : bool :=
  match nth_error outs j with Some (Ok _) => true | _ => false end.

Lemma okb_false_failing outs j : (j < length outs)%nat -> okb outs j = false -> failing outs j.
Proof.
  intros Hj Hk. unfold okb in Hk. destruct (nth_error outs j) as [o |] eqn:Ho.
  - exists o. split; [exact Ho |]. destruct o; [discriminate | reflexivity | reflexivity].
  - apply nth_error_None in Ho. lia.
Qed.

Lemma fork_eff_fail outs s j o : nth_error outs j = Some o -> is_ok o = false ->
  fork_eff outs s j =
  {| f_count := f_count s - 1;
     f_done := if f_count s - 1 <=? 0 then once (f_done s) (result_of o) else f_done s |}.
Proof. intros Hj Ho. unfold fork_eff. rewrite Hj. destruct o; [discriminate | reflexivity | reflexivity]. Qed.

Lemma fork_eff_ok outs s j r : nth_error outs j = Some (Ok r) ->
  fork_eff outs s j = {| f_count := f_count s; f_done := once (f_done s) (RResp r) |}.
Proof. intros Hj. unfold fork_eff. rewrite Hj. reflexivity. Qed.

(* once.Do: the first decision is final *)
Lemma fork_sticky outs d : forall order s, f_done s = Some d ->
  f_done (fold_left (fork_eff outs) order s) = Some d.
Proof.
  induction order as [| a l IH]; intros s Hd; cbn [fold_left]; [exact Hd |].
  apply IH. unfold fork_eff. destruct (nth_error outs a) as [[r | e | p] |]; cbn; rewrite Hd; cbn;
    try destruct (_ <=? 0); reflexivity.
Qed.

Lemma fork_fail_prefix outs : forall l s, Forall (failing outs) l -> f_done s = None ->
  Z.of_nat (length l) < f_count s ->
  f_done (fold_left (fork_eff outs) l s) = None /\
  f_count (fold_left (fork_eff outs) l s) = f_count s - Z.of_nat (length l).
Proof.
  induction l as [| a l IH]; intros s Hall Hd Hc; cbn [fold_left length] in *.
  - split; [exact Hd | lia].
  - inversion Hall as [| ? ? (o & Ho & Hf) Hall']; subst.
    rewrite (fork_eff_fail outs s a o Ho Hf).
    destruct (f_count s - 1 <=? 0) eqn:Hle; [apply Z.leb_le in Hle; lia |].
    destruct (IH {| f_count := f_count s - 1; f_done := f_done s |} Hall' Hd) as [H1 H2]; [cbn; lia |].
    split; [exact H1 |]. rewrite H2. cbn. lia.
Qed.

Lemma fork_all_fail_last outs pre x o s :
  Forall (failing outs) pre -> nth_error outs x = Some o -> is_ok o = false ->
  f_done s = None -> f_count s = Z.of_nat (length pre) + 1 ->
  f_done (fold_left (fork_eff outs) (pre ++ [x]) s) = Some (result_of o).
Proof.
  intros Hpre Hx Ho Hd Hc. rewrite fold_left_app. cbn [fold_left].
  destruct (fork_fail_prefix outs pre s Hpre Hd ltac:(lia)) as [H1 H2].
  rewrite (fork_eff_fail outs _ x o Hx Ho). cbn [f_done]. rewrite H2, H1.
  replace (f_count s - Z.of_nat (length pre) - 1) with 0 by lia. reflexivity.
Qed.

Lemma nodup_prefix_short (order pre post : list nat) i n :
  NoDup order -> (forall j, In j order -> (j < n)%nat) -> order = pre ++ i :: post ->
  (length pre < n)%nat.
Proof.
  intros Hnd Hlt ->.
  assert (Hincl : incl (pre ++ i :: post) (seq 0 n)).
  { intros j Hj. apply in_seq. specialize (Hlt j Hj). lia. }
  pose proof (NoDup_incl_length Hnd Hincl) as Hlen.
  rewrite app_length, seq_length in Hlen. cbn in Hlen. lia.
Qed.

(* the first goroutine that completes successfully decides the result, in every
   completion order, whatever errors and panics completed before it *)
Lemma forking_first_success outs order pre i post r :
  NoDup order -> (forall j, In j order -> (j < length outs)%nat) ->
  order = pre ++ i :: post ->
  nth_error outs i = Some (Ok r) -> Forall (fun j => okb outs j = false) pre ->
  forking outs order = Some (RResp r).
Proof.
  intros Hnd Hlt Horder Hi Hpre.
  pose proof (nodup_prefix_short order pre post i (length outs) Hnd Hlt Horder) as Hshort.
  assert (Hfail : Forall (failing outs) pre).
  { apply Forall_forall. intros j Hj. apply okb_false_failing.
    - apply Hlt. rewrite Horder. apply in_or_app. auto.
    - rewrite Forall_forall in Hpre. auto. }
  unfold forking, fork_run. rewrite Horder, fold_left_app. cbn [fold_left].
  destruct (fork_fail_prefix outs pre (fork_init outs) Hfail eq_refl) as [H1 H2]; [cbn; lia |].
  apply fork_sticky. rewrite (fork_eff_ok outs _ i r Hi). cbn [f_done]. rewrite H1. reflexivity.
Qed.

Lemma perm_seq_facts (order : list nat) n : Permutation order (seq 0 n) ->
  NoDup order /\ (forall j, In j order <-> (j < n)%nat) /\ length order = n.
Proof.
  intros Hp. split; [| split].
  - eapply Permutation_NoDup; [apply Permutation_sym; exact Hp | apply seq_NoDup].
  - intros j. split.
    + intros Hj. apply (Permutation_in _ Hp) in Hj. apply in_seq in Hj. lia.
    + intros Hj. apply (Permutation_in _ (Permutation_sym Hp)). apply in_seq. lia.
  - rewrite (Permutation_length Hp). apply seq_length.
Qed.

(* every server fails: the error of the goroutine that completes last is returned *)
Lemma forking_all_fail outs order :
  Permutation order (seq 0 (length outs)) -> outs <> [] ->
  Forall (fun o => is_ok o = false) outs ->
  exists pre x o, order = pre ++ [x] /\ nth_error outs x = Some o /\
                  forking outs order = Some (result_of o).
Proof.
  intros Hp Hne Hall. destruct (perm_seq_facts order _ Hp) as (Hnd & Hin & Hlen).
  assert (Hord : order <> []).
  { intros ->. cbn in Hlen. destruct outs; [congruence | discriminate]. }
  destruct (exists_last Hord) as (pre & x & ->).
  assert (Hf : forall j, In j (pre ++ [x]) -> failing outs j).
  { intros j Hj. apply Hin in Hj.
    destruct (nth_error outs j) as [o |] eqn:Ho; [| apply nth_error_None in Ho; lia].
    exists o. split; [exact Ho |]. rewrite Forall_forall in Hall. apply Hall.
    eapply nth_error_In; eauto. }
  destruct (Hf x) as (o & Hx & Ho); [apply in_or_app; cbn; auto |].
  exists pre, x, o. split; [reflexivity |]. split; [exact Hx |].
  unfold forking, fork_run. apply fork_all_fail_last; auto.
  - apply Forall_forall. intros j Hj. apply Hf. apply in_or_app. auto.
  - cbn. rewrite app_length in Hlen. cbn in Hlen. lia.
Qed.

(* some server succeeds: the response of the first successful completion is returned *)
Lemma forking_some_ok outs order :
  Permutation order (seq 0 (length outs)) ->
  Exists (fun o => is_ok o = true) outs ->
  exists pre i post r, order = pre ++ i :: post /\ nth_error outs i = Some (Ok r) /\
                       Forall (fun j => okb outs j = false) pre /\
                       forking outs order = Some (RResp r).
Proof.
  intros Hp Hex. destruct (perm_seq_facts order _ Hp) as (Hnd & Hin & Hlen).
  apply Exists_exists in Hex. destruct Hex as (o & Hino & Hok).
  apply In_nth_error in Hino. destruct Hino as [i0 Hi0].
  assert (Hlt0 : (i0 < length outs)%nat) by (apply nth_error_Some; congruence).
  assert (Hex : existsb (okb outs) order = true).
  { apply existsb_exists. exists i0. split; [apply Hin; exact Hlt0 |].
    unfold okb. rewrite Hi0. destruct o; [reflexivity | discriminate | discriminate]. }
  destruct (first_true _ _ Hex) as (pre & i & post & Horder & Hi & Hpre).
  unfold okb in Hi. destruct (nth_error outs i) as [[r | e | p] |] eqn:Hnth; try discriminate.
  exists pre, i, post, r. repeat split; auto.
  eapply forking_first_success; eauto. intros j Hj. apply Hin. exact Hj.
Qed.

Definition is_resp (d : result) : bool := match d with RResp _ => true | _ => false end.

Lemma all_fail_or_some_ok (outs : list outcome) :
  Forall (fun o => is_ok o = false) outs \/ Exists (fun o => is_ok o = true) outs.
Proof.
  induction outs as [| o l IH]; [left; constructor |].
  destruct (is_ok o) eqn:Ho; [right; constructor; exact Ho |].
  destruct IH as [IH | IH]; [left; constructor; assumption | right; apply Exists_cons_tl; exact IH].
Qed.

(* the caller is always released, and with an error exactly when every server failed *)
Lemma forking_fails_iff_all_fail outs order :
  Permutation order (seq 0 (length outs)) -> outs <> [] ->
  exists d, forking outs order = Some d /\
            (is_resp d = false <-> Forall (fun o => is_ok o = false) outs).
Proof.
  intros Hp Hne. destruct (all_fail_or_some_ok outs) as [Hall | Hex].
  - destruct (forking_all_fail outs order Hp Hne Hall) as (pre & x & o & _ & Hx & Hf).
    exists (result_of o). split; [exact Hf |]. split; [auto |]. intros _.
    rewrite Forall_forall in Hall. specialize (Hall o (nth_error_In _ _ Hx)).
    destruct o; [discriminate | reflexivity | reflexivity].
  - destruct (forking_some_ok outs order Hp Hex) as (pre & i & post & r & _ & Hi & _ & Hf).
    exists (RResp r). split; [exact Hf |]. split; [discriminate |]. intros Hall.
    rewrite Forall_forall in Hall. specialize (Hall _ (nth_error_In _ _ Hi)). discriminate.
Qed.

(* before every goroutine has completed, an error cannot have been decided *)
Lemma forking_no_early_error outs order :
  NoDup order -> (forall j, In j order -> (j < length outs)%nat) ->
  (length order < length outs)%nat ->
  forking outs order = None \/ exists r, forking outs order = Some (RResp r).
Proof.
  intros Hnd Hlt Hshort.
  destruct (existsb (okb outs) order) eqn:Hex.
  - right. destruct (first_true _ _ Hex) as (pre & i & post & Horder & Hi & Hpre).
    unfold okb in Hi. destruct (nth_error outs i) as [[r | e | p] |] eqn:Hnth; try discriminate.
    exists r. eapply forking_first_success; eauto.
  - left. assert (Hfail : Forall (failing outs) order).
    { apply Forall_forall. intros j Hj. apply okb_false_failing; [auto |].
      destruct (okb outs j) eqn:Hk; [| reflexivity].
      assert (existsb (okb outs) order = true) by (apply existsb_exists; eauto). congruence. }
    unfold forking, fork_run.
    destruct (fork_fail_prefix outs order (fork_init outs) Hfail eq_refl) as [H1 _]; [cbn; lia |].
    exact H1.
Qed.

(* the LTS: in every schedule the shared variables are those of the completion-order model *)
Lemma fork_lts_sound outs sched s : fork_lts outs sched = Some s ->
  fan_inv (fork_eff outs) (length outs) (fork_init outs) s.
Proof. intros H. eapply fan_run_inv; [apply fan_init_inv | exact H]. Qed.

(* ================================================================== *)
(* Broadcast                                                           *)

Definition slot_of (o : outcome) : option Z := match o with Ok r => Some r | _ => None end.

Lemma bcast_len outs : forall l s, length (b_slots s) = length outs ->
  length (b_slots (fold_left (bcast_eff outs) l s)) = length outs.
Proof.
  induction l as [| a l IH]; intros s Hs; cbn [fold_left]; [exact Hs |].
  apply IH. unfold bcast_eff. destruct (nth_error outs a) as [[r | e | p] |]; cbn; auto.
  rewrite upd_nth_length. exact Hs.
Qed.

(* a slot that holds its server's response keeps it *)
Lemma bcast_slot_keep outs j r : nth_error outs j = Some (Ok r) -> forall l s,
  nth_error (b_slots s) j = Some (Some r) ->
  nth_error (b_slots (fold_left (bcast_eff outs) l s)) j = Some (Some r).
Proof.
  intros Hj. induction l as [| a l IH]; intros s Hs; cbn [fold_left]; [exact Hs |].
  apply IH. unfold bcast_eff. destruct (nth_error outs a) as [[r' | e | p] |] eqn:Ha; cbn; auto.
  destruct (Nat.eq_dec a j) as [-> | Hne].
  - rewrite Hj in Ha. injection Ha as <-.
    apply nth_error_upd_same. apply nth_error_Some. congruence.
  - rewrite nth_error_upd_other by exact Hne. exact Hs.
Qed.

Lemma bcast_slot_set outs j r : nth_error outs j = Some (Ok r) -> forall l s,
  length (b_slots s) = length outs -> In j l ->
  nth_error (b_slots (fold_left (bcast_eff outs) l s)) j = Some (Some r).
Proof.
  intros Hj. assert (Hlt : (j < length outs)%nat) by (apply nth_error_Some; congruence).
  induction l as [| a l IH]; intros s Hs Hin; [destruct Hin |]. cbn [fold_left].
  destruct (Nat.eq_dec a j) as [-> | Hne].
  - apply bcast_slot_keep; [exact Hj |]. unfold bcast_eff. rewrite Hj. cbn.
    apply nth_error_upd_same. lia.
  - apply IH; [| destruct Hin; [congruence | assumption]].
    unfold bcast_eff. destruct (nth_error outs a) as [[r' | e | p] |]; cbn; auto.
    rewrite upd_nth_length. exact Hs.
Qed.

Lemma bcast_slot_untouched outs j : okb outs j = false -> forall l s,
  nth_error (b_slots (fold_left (bcast_eff outs) l s)) j = nth_error (b_slots s) j.
Proof.
  intros Hj. induction l as [| a l IH]; intros s; cbn [fold_left]; [reflexivity |].
  rewrite IH. unfold bcast_eff. destruct (nth_error outs a) as [[r' | e | p] |] eqn:Ha; cbn; auto.
  apply nth_error_upd_other. intros ->. unfold okb in Hj. rewrite Ha in Hj. discriminate.
Qed.

Lemma nth_error_repeat_lt {A} (x : A) n i : (i < n)%nat -> nth_error (repeat x n) i = Some x.
Proof.
  revert i. induction n as [| n IH]; intros [| i] Hi; cbn; try lia; [reflexivity |]. apply IH. lia.
Qed.

(* after all goroutines completed, slot i holds server i's response (nil if it failed) *)
Lemma bcast_slots outs order :
  Permutation order (seq 0 (length outs)) ->
  b_slots (bcast_run outs order) = map slot_of outs.
Proof.
  intros Hp. destruct (perm_seq_facts order _ Hp) as (_ & Hin & _).
  apply list_ext_nth_error. intros j. unfold bcast_run.
  destruct (nth_error outs j) as [o |] eqn:Ho.
  - assert (Hlt : (j < length outs)%nat) by (apply nth_error_Some; congruence).
    rewrite (map_nth_error slot_of j outs Ho).
    destruct o as [r | e | p]; cbn [slot_of].
    + apply bcast_slot_set; [exact Ho | apply repeat_length | apply Hin; exact Hlt].
    + rewrite bcast_slot_untouched by (unfold okb; rewrite Ho; reflexivity).
      cbn. apply nth_error_repeat_lt. exact Hlt.
    + rewrite bcast_slot_untouched by (unfold okb; rewrite Ho; reflexivity).
      cbn. apply nth_error_repeat_lt. exact Hlt.
  - pose proof Ho as Hge. apply nth_error_None in Hge.
    transitivity (@None (option Z)).
    + apply nth_error_None. rewrite bcast_len by apply repeat_length. exact Hge.
    + symmetry. apply nth_error_None. rewrite map_length. exact Hge.
Qed.

Lemma bcast_err_sticky outs d : forall l s, b_err s = Some d ->
  b_err (fold_left (bcast_eff outs) l s) = Some d.
Proof.
  induction l as [| a l IH]; intros s Hd; cbn [fold_left]; [exact Hd |].
  apply IH. unfold bcast_eff. destruct (nth_error outs a) as [[r | e | p] |]; cbn; rewrite ?Hd; reflexivity.
Qed.

Lemma bcast_err_ok_prefix outs : forall l s, Forall (fun j => okb outs j = true) l ->
  b_err (fold_left (bcast_eff outs) l s) = b_err s.
Proof.
  induction l as [| a l IH]; intros s Hall; cbn [fold_left]; [reflexivity |].
  inversion Hall as [| ? ? Ha Hall']; subst. rewrite IH by exact Hall'.
  unfold okb in Ha. unfold bcast_eff. destruct (nth_error outs a) as [[r | e | p] |]; try discriminate.
  reflexivity.
Qed.

(* the error returned is the one of the first failing completion; nil iff all succeed *)
Lemma bcast_first_error outs order pre i post o :
  order = pre ++ i :: post -> Forall (fun j => okb outs j = true) pre ->
  nth_error outs i = Some o -> is_ok o = false ->
  b_err (bcast_run outs order) = Some (result_of o).
Proof.
  intros -> Hpre Hi Ho. unfold bcast_run. rewrite fold_left_app. cbn [fold_left].
  apply bcast_err_sticky. unfold bcast_eff. rewrite Hi.
  rewrite (bcast_err_ok_prefix outs pre _ Hpre).
  destruct o; [discriminate | reflexivity | reflexivity].
Qed.

Lemma bcast_err_none_iff outs order :
  Permutation order (seq 0 (length outs)) ->
  (b_err (bcast_run outs order) = None <-> Forall (fun o => is_ok o = true) outs).
Proof.
  intros Hp. destruct (perm_seq_facts order _ Hp) as (_ & Hin & _).
  destruct (existsb (fun j => negb (okb outs j)) order) eqn:Hex.
  - destruct (first_true _ _ Hex) as (pre & i & post & Horder & Hi & Hpre).
    assert (Hlt : (i < length outs)%nat) by (apply Hin; rewrite Horder; apply in_or_app; cbn; auto).
    apply negb_true_iff in Hi. destruct (okb_false_failing outs i Hlt Hi) as (o & Hio & Hof).
    rewrite (bcast_first_error outs order pre i post o Horder) ; auto.
    + split; [discriminate |]. intros Hall. rewrite Forall_forall in Hall.
      specialize (Hall o (nth_error_In _ _ Hio)). congruence.
    + eapply Forall_impl; [| exact Hpre]. cbn. intros j Hj. apply negb_false_iff in Hj. exact Hj.
  - assert (Hall : Forall (fun j => okb outs j = true) order).
    { apply Forall_forall. intros j Hj. destruct (okb outs j) eqn:Hk; [reflexivity |].
      assert (existsb (fun j => negb (okb outs j)) order = true).
      { apply existsb_exists. exists j. rewrite Hk. auto. } congruence. }
    unfold bcast_run. rewrite (bcast_err_ok_prefix outs order _ Hall). cbn.
    split; [| reflexivity]. intros _. apply Forall_forall. intros o Ho.
    apply In_nth_error in Ho. destruct Ho as [j Hj].
    assert (Hlt : (j < length outs)%nat) by (apply nth_error_Some; congruence).
    rewrite Forall_forall in Hall. specialize (Hall j (proj2 (Hin j) Hlt)).
    unfold okb in Hall. rewrite Hj in Hall. destruct o; [reflexivity | discriminate | discriminate].
Qed.

Lemma bcast_lts_sound outs sched s : bcast_lts outs sched = Some s ->
  fan_inv (bcast_eff outs) (length outs) (bcast_init outs) s.
Proof. intros H. eapply fan_run_inv; [apply fan_init_inv | exact H]. Qed.

(* Broadcast returns after wg.Wait(), i.e. in a state where every goroutine is done:
   every server was invoked exactly once, the slots and the error are those of the
   completion-order model for the order in which the goroutines completed *)
Lemma bcast_each_once outs sched s :
  bcast_lts outs sched = Some s -> all_done (pcs s) = true ->
  (forall i, (i < length outs)%nat -> count_occ Nat.eq_dec (invoked s) i = 1%nat) /\
  (forall i, (length outs <= i)%nat -> count_occ Nat.eq_dec (invoked s) i = 0%nat) /\
  b_slots (sh s) = map slot_of outs /\
  (b_err (sh s) = None <-> Forall (fun o => is_ok o = true) outs) /\
  sh s = bcast_run outs (completed s).
Proof.
  intros Hrun Hd. pose proof (bcast_lts_sound outs sched s Hrun) as Hinv.
  destruct (fan_all_done _ _ _ s Hinv Hd) as [Hpi Hpc].
  assert (Hsh : sh s = bcast_run outs (completed s)) by exact (inv_sh _ _ _ s Hinv).
  split; [| split; [| split; [| split]]].
  - intros i Hi. exact (fan_exactly_once _ _ _ s i Hinv Hd Hi).
  - intros i Hi. apply count_occ_not_In. intros Hin.
    pose proof (fan_invoked_lt _ _ _ s i Hinv Hin). lia.
  - rewrite Hsh. apply bcast_slots. exact Hpc.
  - rewrite Hsh. apply bcast_err_none_iff. exact Hpc.
  - exact Hsh.
Qed.

(* Forking: in every schedule nobody is invoked twice, only configured servers are
   invoked, and the decision is the completion-order model's for the completions so far *)
Lemma fork_lts_facts outs sched s :
  fork_lts outs sched = Some s ->
  (forall i, (count_occ Nat.eq_dec (invoked s) i <= 1)%nat) /\
  (forall i, In i (invoked s) -> (i < length outs)%nat) /\
  NoDup (completed s) /\ incl (completed s) (invoked s) /\
  f_done (sh s) = forking outs (completed s) /\
  (all_done (pcs s) = true -> Permutation (invoked s) (seq 0 (length outs)) /\
                              Permutation (completed s) (seq 0 (length outs))).
Proof.
  intros Hrun. pose proof (fork_lts_sound outs sched s Hrun) as Hinv.
  split; [| split; [| split; [| split; [| split]]]].
  - intros i. exact (fan_invoked_at_most_once _ _ _ s i Hinv).
  - intros i. exact (fan_invoked_lt _ _ _ s i Hinv).
  - exact (inv_nd_c _ _ _ s Hinv).
  - intros i. exact (fan_completed_invoked _ _ _ s i Hinv).
  - unfold forking, fork_run. rewrite (inv_sh _ _ _ s Hinv). reflexivity.
  - intros Hd. exact (fan_all_done _ _ _ s Hinv Hd).
Qed.

(* ================================================================== *)
(* corollaries in the words of the property, and the refutation        *)

Lemma handle_attempts_le_plain c n ix cl :
  it_retried cl = 0 -> 0 <= eff_retry c cl ->
  Z.of_nat (nattempts (handle c n ix cl)) <= eff_retry c cl + 1.
Proof. intros H0 Hr. pose proof (handle_attempts_le_Z c n ix cl). lia. Qed.

Lemma new_retry_nonneg c : 0 <= retry (new c).
Proof.
  unfold new. destruct (retry c <? 0) eqn:H; cbn; [lia | apply Z.ltb_ge in H; exact H].
Qed.

Lemma new_keeps c : idem (new c) = idem c /\ on_failure (new c) = on_failure c /\
                    on_retry (new c) = on_retry c /\ min_interval (new c) = min_interval c /\ max_interval (new c) = max_interval c /\ (0 <= retry c -> retry (new c) = retry c).
Proof.
  unfold new. destruct (retry c <? 0) eqn:H; cbn; repeat split; auto.
  apply Z.ltb_lt in H. lia.
Qed.

Lemma handle_callbacks c n ix cl :
  no_crash c n ->
  let o := handle c n ix cl in
  retried (fin o) = it_retried cl + Z.of_nat (nattempts o) - 1 /\
  nsucc (fin o) = (if is_resp (res o) then 1 else 0)%nat /\
  (on_failure c <> FNone ->
   nfail (fin o) = (nattempts o - if is_resp (res o) then 1 else 0)%nat).
Proof.
  intros Hnc o. subst o. pose proof (handle_no_crash c n ix cl Hnc) as Hc. unfold handle in *.
  split; [| split].
  - rewrite loop_retried. reflexivity.
  - rewrite loop_nsucc. cbn. destruct (res _); reflexivity.
  - intros Hm. rewrite loop_nfail by assumption. cbn. destruct (res _); reflexivity.
Qed.

(* scripts used by the witnesses *)
Definition script_of (l : list outcome) (k : nat) : outcome := nth k l (Err 999).

(* "failover moves to another configured server after each failure" is false: a fresh
   plugin with two servers; the first call fails once and succeeds on server 1, which
   leaves the shared index at 1; the second call starts at server 0 again, fails, the
   index wraps to 0 and the retry goes to server 0, the server that has just failed *)
Lemma failover_moves_refuted :
  exists (c : cfg) (n : Z) (cs : list call) (o : obs) (j : nat) (u : Z),
    c = new (failover_config 3 true 0 0) /\ 2 <= n /\
    nth_error (run_calls c n false 0 None cs) 1 = Some o /\
    nth_error (attempts o) j = Some u /\ nth_error (attempts o) (S j) = Some u /\
    is_ok (script (nth 1 cs {| it_idem := None; it_retry := None; it_retried := 0;
                               script := script_of [] |}) j) = false.
Proof.
  exists (new (failover_config 3 true 0 0)), 2.
  exists [ {| it_idem := None; it_retry := None; it_retried := 0; script := script_of [Err 1; Ok 2] |};
           {| it_idem := None; it_retry := None; it_retried := 0; script := script_of [Err 3; Ok 4] |} ].
  eexists. exists 0%nat, 0.
  split; [reflexivity |]. split; [lia |]. split; [vm_compute; reflexivity |].
  vm_compute. repeat split; reflexivity.
Qed.

(* the same within a single call: any call that starts while the shared index is n-1 *)
Lemma failover_moves_refuted_any c n cl :
  on_failure c = FRotate -> 2 <= n -> has_retry c = true -> eff_idem c cl = true ->
  (0 < budget_of c cl)%nat -> is_ok (script cl 0%nat) = false ->
  firstn 2 (attempts (handle c n (n - 1) cl)) = [0; 0].
Proof.
  intros Hm Hn Hr Hi Hb Hf.
  assert (Hix : ix_ok n (n - 1)) by (unfold ix_ok; lia).
  destruct (handle_failover_urls c n (n - 1) cl Hm ltac:(lia) Hix) as (H0 & Hnth & _).
  assert (Hlen : (2 <= nattempts (handle c n (n - 1) cl))%nat).
  { unfold handle, nattempts. rewrite loop_eq.
    destruct (script cl 0%nat) as [r | e | p] eqn:Hs; [discriminate | |].
    all: destruct (fail_step_rotate c n (start n (n - 1) (it_retried cl)) Hm ltac:(lia) Hix)
           as (s1 & Hs1 & _).
    all: rewrite Hs1, Hr, Hi; cbn [negb].
    all: destruct (budget_of c cl) as [| b]; [lia |].
    all: cbn [push attempts length].
    all: pose proof (loop_bounds c n true (script cl) b 1 (retry_step c n s1)) as Hbd.
    all: unfold nattempts in Hbd; lia. }
  specialize (Hnth 1%nat ltac:(lia)).
  replace ((n - 1 + Z.of_nat 1) mod n) with 0 in Hnth
    by (replace (n - 1 + Z.of_nat 1) with n by lia; rewrite Z.mod_same by lia; reflexivity).
  unfold nattempts in Hlen.
  destruct (attempts (handle c n (n - 1) cl)) as [| a [| a' l]]; cbn in *; try lia.
  congruence.
Qed.

(* ================================================================== *)
(* getIndex with concurrent callers                                    *)

Definition is_store (p : gpc) : nat := match p with GStore => 1%nat | _ => 0%nat end.

Lemma pending_upd : forall l t a b, nth_error l t = Some a ->
  (pending (upd_nth t b l) + is_store a = pending l + is_store b)%nat.
Proof.
  induction l as [| x l IH]; intros [| t] a b H; cbn in H; try discriminate.
  - injection H as ->. cbn [upd_nth]. destruct a, b; cbn; lia.
  - cbn [upd_nth]. specialize (IH t a b H). destruct x; cbn [pending]; lia.
Qed.

Definition ret_ok (n : Z) (p : gpc) : Prop :=
  match p with GIdle (Some r) => 0 <= r < Z.max n 1 | _ => True end.

Lemma Forall_upd_nth {A} (P : A -> Prop) x : forall l t, Forall P l -> P x -> Forall P (upd_nth t x l).
Proof.
  induction l as [| y l IH]; intros [| t] Hl Hx; cbn; auto; inversion Hl; subst; constructor; auto.
Qed.

Definition gi_inv (n : Z) (s : gstate) : Prop :=
  0 <= g_index s <= Z.max n 1 - 1 + Z.of_nat (pending (g_pcs s)) /\ Forall (ret_ok n) (g_pcs s).

Lemma gi_init_inv n k : gi_inv n (gi_init k).
Proof.
  unfold gi_inv, gi_init. cbn. split.
  - assert (pending (repeat (GIdle None) k) = 0%nat) as -> by (induction k; cbn; auto). lia.
  - apply Forall_forall. intros p Hp. apply repeat_spec in Hp. subst p. exact I.
Qed.

Lemma gi_step_inv n s t s' : gi_inv n s -> gi_step n s t = Some s' -> gi_inv n s'.
Proof.
  intros [Hix Hret] Hstep. unfold gi_step in Hstep.
  destruct (nth_error (g_pcs s) t) as [p |] eqn:Hp; [| discriminate].
  destruct p as [last |].
  - destruct (n >? 1) eqn:Hn; rewrite Z.gtb_ltb in Hn.
    + apply Z.ltb_lt in Hn. destruct (g_index s + 1 <? n) eqn:Hlt.
      * apply Z.ltb_lt in Hlt. injection Hstep as <-. unfold gi_inv. cbn. split.
        -- pose proof (pending_upd _ t _ (GIdle (Some (g_index s + 1))) Hp) as Hc. cbn in Hc. lia.
        -- apply Forall_upd_nth; [exact Hret |]. cbn. lia.
      * apply Z.ltb_ge in Hlt. injection Hstep as <-. unfold gi_inv. cbn. split.
        -- pose proof (pending_upd _ t _ GStore Hp) as Hc. cbn in Hc. lia.
        -- apply Forall_upd_nth; [exact Hret | exact I].
    + apply Z.ltb_ge in Hn. injection Hstep as <-. unfold gi_inv. cbn. split.
      * pose proof (pending_upd _ t _ (GIdle (Some 0)) Hp) as Hc. cbn in Hc. lia.
      * apply Forall_upd_nth; [exact Hret |]. cbn. lia.
  - injection Hstep as <-. unfold gi_inv. cbn. split.
    + pose proof (pending_upd _ t _ (GIdle (Some 0)) Hp) as Hc. cbn in Hc. lia.
    + apply Forall_upd_nth; [exact Hret |]. cbn. lia.
Qed.

Lemma gi_run_inv n : forall sched s s', gi_inv n s -> gi_run n s sched = Some s' -> gi_inv n s'.
Proof.
  induction sched as [| t r IH]; intros s s' Hinv Hrun; cbn in Hrun.
  - injection Hrun as <-. exact Hinv.
  - destruct (gi_step n s t) as [s1 |] eqn:Hs; [| discriminate].
    eapply IH; [eapply gi_step_inv; eauto | exact Hrun].
Qed.

(* every schedule of any number of concurrent getIndex calls: the index never goes
   negative, exceeds n-1 by at most the number of callers that still owe their Store, every
   value returned is a valid URL index, and once nobody is inside getIndex the index is
   back in range — so the sequential rotation theorems apply again *)
Lemma get_index_concurrent n k sched s :
  1 <= n -> gi_run n (gi_init k) sched = Some s ->
  0 <= g_index s <= n - 1 + Z.of_nat (pending (g_pcs s)) /\
  Forall (fun p => match p with GIdle (Some r) => ix_ok n r | _ => True end) (g_pcs s) /\
  (pending (g_pcs s) = 0%nat -> ix_ok n (g_index s)).
Proof.
  intros Hn Hrun. destruct (gi_run_inv n sched _ s (gi_init_inv n k) Hrun) as [Hix Hret].
  replace (Z.max n 1) with n in * by lia. split; [exact Hix |]. split.
  - eapply Forall_impl; [| exact Hret]. intros p Hp. destruct p as [[r |] |]; auto.
    unfold ret_ok in Hp. replace (Z.max n 1) with n in Hp by lia. exact Hp.
  - intros H0. rewrite H0 in Hix. unfold ix_ok. lia.
Qed.

(* a single thread running alone is the sequential get_index *)
Lemma get_index_solo n ix last : 1 <= n -> ix_ok n ix ->
  exists sched s, gi_run n {| g_index := ix; g_pcs := [GIdle last] |} sched = Some s /\
                  g_index s = fst (get_index ix n) /\
                  g_pcs s = [GIdle (Some (snd (get_index ix n)))].
Proof.
  intros Hn [Hlo Hhi]. unfold get_index.
  destruct (n >? 1) eqn:Hn1; cbv zeta.
  - destruct (ix + 1 <? n) eqn:Hlt.
    + exists [0%nat]. unfold gi_run, gi_step. cbn [nth_error g_pcs g_index upd_nth].
      rewrite Hn1. cbv zeta. rewrite Hlt. eexists. repeat split.
    + exists [0%nat; 0%nat]. unfold gi_run, gi_step. cbn [nth_error g_pcs g_index upd_nth].
      rewrite Hn1. cbv zeta. rewrite Hlt. cbn [nth_error g_pcs g_index upd_nth]. eexists. repeat split.
  - exists [0%nat]. unfold gi_run, gi_step. cbn [nth_error g_pcs g_index upd_nth].
    rewrite Hn1. eexists. repeat split.
Qed.

(* failover with a budget of at least n retries tries every configured server *)
Lemma handle_failover_covers c n ix cl u :
  on_failure c = FRotate -> 1 <= n -> ix_ok n ix -> ix_ok n u ->
  (Z.to_nat n < nattempts (handle c n ix cl))%nat ->
  exists j, (0 < j <= Z.to_nat n)%nat /\ nth_error (attempts (handle c n ix cl)) j = Some u.
Proof.
  intros Hm Hn Hix Hu Hlen.
  destruct (handle_failover_urls c n ix cl Hm Hn Hix) as (_ & Hnth & _).
  set (d := (u - ix) mod n).
  assert (Hd : 0 <= d < n) by (apply Z.mod_pos_bound; lia).
  set (j := if d =? 0 then n else d).
  assert (Hj : 0 < j <= n) by (unfold j; destruct (d =? 0) eqn:E; [lia | apply Z.eqb_neq in E; lia]).
  exists (Z.to_nat j). split; [lia |].
  rewrite (Hnth (Z.to_nat j)) by lia. f_equal. rewrite Z2Nat.id by lia.
  destruct Hu as [Hu0 Hu1].
  unfold j. destruct (d =? 0) eqn:E.
  - apply Z.eqb_eq in E. rewrite Z.add_mod, Z.mod_same, Z.add_0_r, Z.mod_mod by lia.
    unfold d in E. apply Z.mod_divide in E; [| lia]. destruct E as [q Hq].
    assert (ix = u - q * n) as -> by lia.
    rewrite <- (Z.mod_small u n) at 2 by lia.
    replace (u - q * n) with (u + (- q) * n) by lia. apply Z.mod_add. lia.
  - unfold d. rewrite Zplus_mod_idemp_r. replace (ix + (u - ix)) with u by lia. apply Z.mod_small. lia.
Qed.

(* ================================================================== *)
(* degenerate sizes                                                    *)

(* one configured server: Forking returns that server's outcome, a panic as PanicError *)
Lemma forking_single o : forking [o] [0%nat] = Some (result_of o).
Proof. destruct o; reflexivity. Qed.

Lemma fork_lts_single o :
  exists s, fork_lts [o] [0%nat; 0%nat] = Some s /\ all_done (pcs s) = true /\
            invoked s = [0%nat] /\ f_done (sh s) = Some (result_of o).
Proof. destruct o; eexists; repeat split; reflexivity. Qed.

Lemma bcast_single o :
  bcast_run [o] [0%nat] =
  {| b_slots := [slot_of o]; b_err := if is_ok o then None else Some (result_of o) |}.
Proof. destruct o; reflexivity. Qed.

(* no server: both plugins call next once on the caller's goroutine, nothing is recovered;
   one server / no server under the retry configs: every attempt goes to URL 0 / nil *)
Lemma handle_single_server c ix cl :
  ix_ok 1 ix -> Forall (fun u => u = 0) (attempts (handle c 1 ix cl)).
Proof.
  intros Hix. unfold handle.
  destruct (loop_urls_valid c 1 (eff_idem c cl) (script cl) (budget_of c cl) 0 (start 1 ix (it_retried cl)))
    as [Ha _]; [lia | exact Hix | cbn; unfold ix_ok; lia |].
  eapply Forall_impl; [| exact Ha]. unfold ix_ok. intros u Hu. lia.
Qed.
