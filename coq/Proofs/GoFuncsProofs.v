(* T2 refinement lemmas: the definitions that tools/gotables (golite.go) regenerates from the Go
   sources on every run (Gen/GoFuncs.v) are equal, for ALL inputs, to the hand-written models
   the property theorems are about (Model/Frame.v, Lib/Utf8.v, Model/Balance.v).
   A change to one of the Go functions changes the generated definition; these lemmas then
   either still go through (harmless rewrite) or fail (broken proof obligation). *)
From Coq Require Import List ZArith NArith Strings.Byte Bool Lia.
From HV Require Import Lib.Crc32 Lib.Utf8 Lib.GoLite Gen.GoFuncs Model.Frame Model.Balance.
Import ListNotations.
Local Open Scope Z_scope.

(* ------------------------------------------------------------------ rpc/socket/common.go *)

Lemma socket_makeHeader_refines : forall length index,
  socket_makeHeader length index = GRet (sock_make_header length index).
Proof.
  intros length index.
  cbv beta iota zeta delta [socket_makeHeader repeat upd skipn sock_make_header sock_fields be32 app].
  reflexivity.
Qed.

Definition lift_hdr (o : option (Z * Z * bool)) : gres (Z * Z * bool) :=
  match o with Some r => GRet r | None => GPanic end.

Lemma socket_parseHeader_refines : forall c0 c1 c2 c3 l0 l1 l2 l3 i0 i1 i2 i3,
  socket_parseHeader [c0; c1; c2; c3; l0; l1; l2; l3; i0; i1; i2; i3]
  = lift_hdr (sock_parse_header [c0; c1; c2; c3; l0; l1; l2; l3; i0; i1; i2; i3]).
Proof.
  intros.
  cbv beta iota zeta delta [socket_parseHeader ix nth skipn sock_parse_header lift_hdr rd32 REJECT
                            Z.to_nat Pos.to_nat Pos.iter_op Nat.add].
  destruct (negb (Z.of_N (crc32 [l0; l1; l2; l3; i0; i1; i2; i3]) =? _)); [reflexivity|].
  destruct (Z.land (Z_of_byte i0) 128 =? 0); reflexivity.
Qed.

(* ------------------------------------------------------------------ rpc/udp/common.go *)

Lemma udp_makeHeader_refines : forall length index,
  udp_makeHeader length index = GRet (udp_make_header length index).
Proof.
  intros length index.
  cbv beta iota zeta delta [udp_makeHeader repeat upd skipn udp_make_header udp_fields be32 be16 app].
  reflexivity.
Qed.

Lemma udp_parseHeader_refines : forall c0 c1 c2 c3 l0 l1 i0 i1,
  udp_parseHeader [c0; c1; c2; c3; l0; l1; i0; i1]
  = lift_hdr (udp_parse_header [c0; c1; c2; c3; l0; l1; i0; i1]).
Proof.
  intros.
  cbv beta iota zeta delta [udp_parseHeader ixo nth_error skipn udp_parse_header lift_hdr rd32 rd16 REJECT
                            Z.to_nat Pos.to_nat Pos.iter_op Nat.add Z.ltb Z.compare List.length Z.of_nat
                            Pos.of_succ_nat Pos.succ Pos.compare Pos.compare_cont].
  destruct (negb (Z.of_N (crc32 [l0; l1; i0; i1]) =? _)); [reflexivity|].
  destruct (Z.land (Z_of_byte i0) 128 =? 0); reflexivity.
Qed.

(* a slice shorter than 8 bytes makes the Go function panic (index out of range); the handlers
   only ever pass buffer[:8] *)
Lemma udp_parseHeader_short : forall h, (List.length h < 8)%nat -> udp_parseHeader h = GPanic.
Proof.
  intros h Hl. unfold udp_parseHeader.
  do 8 (destruct h as [|? h]; [reflexivity|]). cbn [List.length] in Hl. lia.
Qed.

(* ------------------------------------------------------------------ io/encode.go: utf16Length *)

(* the byte tests of the Go text (on Z) are the byte tests of the hand model (on N) *)
Local Ltac bytecase := let a := fresh "a" in intros a; destruct a; reflexivity.
Lemma bt_land_e0 : forall a, (Z.land (Z_of_byte a) 224 =? 192) = (N.land (bN a) 224 =? 192)%N. Proof. bytecase. Qed.
Lemma bt_land_f0 : forall a, (Z.land (Z_of_byte a) 240 =? 224) = (N.land (bN a) 240 =? 224)%N. Proof. bytecase. Qed.
Lemma bt_land_f8 : forall a, (Z.land (Z_of_byte a) 248 =? 240) = (N.land (bN a) 248 =? 240)%N. Proof. bytecase. Qed.
Lemma bt_land_80 : forall a, (Z.land (Z_of_byte a) 128 =? 128) = (N.land (bN a) 128 =? 128)%N. Proof. bytecase. Qed.
Lemma bt_land_c0 : forall a, (Z.land (Z_of_byte a) 192 =? 128) = (N.land (bN a) 192 =? 128)%N. Proof. bytecase. Qed.
Lemma bt_lt_c2 : forall a, (Z_of_byte a <? 194) = (bN a <? 194)%N. Proof. bytecase. Qed.
Lemma bt_gt_f4 : forall a, (244 <? Z_of_byte a) = (244 <? bN a)%N. Proof. bytecase. Qed.
Lemma bt_eq_e0 : forall a, (Z_of_byte a =? 224) = (bN a =? 224)%N. Proof. bytecase. Qed.
Lemma bt_eq_ed : forall a, (Z_of_byte a =? 237) = (bN a =? 237)%N. Proof. bytecase. Qed.
Lemma bt_eq_f0 : forall a, (Z_of_byte a =? 240) = (bN a =? 240)%N. Proof. bytecase. Qed.
Lemma bt_eq_f4 : forall a, (Z_of_byte a =? 244) = (bN a =? 244)%N. Proof. bytecase. Qed.
Lemma bt_lt_a0 : forall a, (Z_of_byte a <? 160) = (bN a <? 160)%N. Proof. bytecase. Qed.
Lemma bt_gt_9f : forall a, (159 <? Z_of_byte a) = (159 <? bN a)%N. Proof. bytecase. Qed.
Lemma bt_lt_90 : forall a, (Z_of_byte a <? 144) = (bN a <? 144)%N. Proof. bytecase. Qed.
Lemma bt_gt_8f : forall a, (143 <? Z_of_byte a) = (143 <? bN a)%N. Proof. bytecase. Qed.

Lemma ixo_app_here : forall pre a r, ixo (pre ++ a :: r) (Z.of_nat (List.length pre)) = Some a.
Proof.
  intros pre a r. unfold ixo.
  destruct (Z.ltb_spec (Z.of_nat (List.length pre)) 0) as [H|H]; [lia|].
  rewrite Nat2Z.id. rewrite nth_error_app2 by lia. rewrite Nat.sub_diag. reflexivity.
Qed.

Lemma ixo_app_next : forall pre a b r, ixo (pre ++ a :: b :: r) (Z.of_nat (List.length pre) + 1) = Some b.
Proof.
  intros pre a b r.
  replace (pre ++ a :: b :: r) with ((pre ++ [a]) ++ b :: r) by (rewrite <- app_assoc; reflexivity).
  replace (Z.of_nat (List.length pre) + 1) with (Z.of_nat (List.length (pre ++ [a]))) by (rewrite app_length; cbn [List.length]; lia).
  apply ixo_app_here.
Qed.

(* what the function does after its loop *)
Definition utf16_post (r : ctl (Z * Z) Z) : gres Z :=
  match r with
  | LNext (c, n) => if negb (c =? 0) then GRet (-1) else GRet n
  | LRet r => GRet r
  | LPanic => GPanic
  | LFuel => GFuel
  end.

Lemma zofn_pred : forall p, Z.of_N (N.pos p) - 1 = Z.of_N (N.pos p - 1).
Proof. intros p. lia. Qed.

Lemma io_utf16Length_refines : forall str, io_utf16Length str = GRet (go_utf16Length str).
Proof.
  intros str. unfold io_utf16Length, go_utf16Length. cbv zeta.
  match goal with |- context [for_range _ _ _ ?b] => set (body := b) end.
  change (utf16_post (for_range 0 (Z.of_nat (List.length str)) (0, Z.of_nat (List.length str)) body)
          = GRet (go_scan str 0 (Z.of_nat (List.length str)))).
  assert (Hloop : forall r pre cN n, str = pre ++ r ->
            utf16_post (for_fuel (List.length r) (Z.of_nat (List.length pre)) (Z.of_N cN, n) body)
            = GRet (go_scan r cN n)).
  { induction r as [|a r IH]; intros pre cN n Hstr.
    - cbn. destruct cN; reflexivity.
    - assert (Hnext : forall cN' n',
                utf16_post (for_fuel (List.length r) (Z.of_nat (List.length pre) + 1) (Z.of_N cN', n') body)
                = GRet (go_scan r cN' n')).
      { intros cN' n'.
        replace (Z.of_nat (List.length pre) + 1) with (Z.of_nat (List.length (pre ++ [a])))
          by (rewrite app_length; cbn [List.length]; lia).
        apply IH. rewrite <- app_assoc. exact Hstr. }
      cbn [for_fuel List.length]. unfold body at 1.
      rewrite Hstr. rewrite ixo_app_here.
      rewrite bt_land_e0, bt_land_f0, bt_land_f8, bt_land_80, bt_land_c0, bt_lt_c2, bt_gt_f4,
              bt_eq_e0, bt_eq_ed, bt_eq_f0, bt_eq_f4.
      assert (Hlast : forall (x y : ctl (Z * Z) Z), r = [] ->
                (if Z.of_nat (List.length pre) + 1 <? Z.of_nat (List.length (pre ++ a :: r)) then x else y) = y).
      { intros x y Hr. subst r. rewrite (proj2 (Z.ltb_ge _ _)); [reflexivity|].
        rewrite app_length. cbn [List.length]. lia. }
      assert (Hmore : forall (x y : ctl (Z * Z) Z) b r', r = b :: r' ->
                (if Z.of_nat (List.length pre) + 1 <? Z.of_nat (List.length (pre ++ a :: r)) then x else y) = x).
      { intros x y b r' Hr. subst r. rewrite (proj2 (Z.ltb_lt _ _)); [reflexivity|].
        rewrite app_length. cbn [List.length]. lia. }
      cbn [go_scan].
      destruct cN as [|p].
      + change (Z.of_N 0 =? 0) with true. change (0 =? 0)%N with true. cbv iota.
        destruct (N.land (bN a) 224 =? 192)%N.
        { destruct (bN a <? 194)%N; [reflexivity | apply (Hnext 1%N)]. }
        destruct (N.land (bN a) 240 =? 224)%N.
        { destruct r as [|b r'] eqn:Er.
          - rewrite (Hlast _ _ eq_refl). apply (Hnext 2%N).
          - rewrite (Hmore _ _ b r' eq_refl). rewrite ixo_app_next, bt_lt_a0, bt_gt_9f.
            destruct ((bN a =? 224)%N && (bN b <? 160)%N || (bN a =? 237)%N && (159 <? bN b)%N);
              [reflexivity | apply (Hnext 2%N)]. }
        destruct (N.land (bN a) 248 =? 240)%N.
        { destruct (244 <? bN a)%N; [reflexivity|].
          destruct r as [|b r'] eqn:Er.
          - rewrite (Hlast _ _ eq_refl). apply (Hnext 3%N).
          - rewrite (Hmore _ _ b r' eq_refl). rewrite ixo_app_next, bt_lt_90, bt_gt_8f.
            destruct ((bN a =? 240)%N && (bN b <? 144)%N || (bN a =? 244)%N && (143 <? bN b)%N);
              [reflexivity | apply (Hnext 3%N)]. }
        destruct (N.land (bN a) 128 =? 128)%N; [reflexivity | apply (Hnext 0%N)].
      + change (Z.of_N (N.pos p) =? 0) with false. change (N.pos p =? 0)%N with false. cbv iota.
        destruct (negb (N.land (bN a) 192 =? 128)%N); [reflexivity|].
        rewrite zofn_pred. apply Hnext. }
  unfold for_range. rewrite Z.sub_0_r, Nat2Z.id.
  apply (Hloop str [] 0%N). reflexivity.
Qed.

(* ------------------------------------------------------------------ loadbalance/int_slice.go: gcd *)

Definition lift_res (r : res Z) : gres Z :=
  match r with Ok x => GRet x | OutOfFuel => GFuel | _ => GPanic end.

Lemma gcd_loop_refines : forall f x y,
  match while_fuel f (x, y) (fun st : Z * Z => let '(x, y) := st in negb (y =? 0))
                   (fun st : Z * Z => let '(x, y) := st in let '(x, y) := (y, Z.rem x y) in @LNext (Z * Z) Z (x, y)) with
  | LNext st => let '(x, y) := st in GRet x
  | LRet r => GRet r
  | LPanic => GPanic
  | LFuel => GFuel
  end = lift_res (gcd_loop (S f) x y).
Proof.
  induction f as [|f IH]; intros x y.
  - cbn. destruct (y =? 0); reflexivity.
  - cbn [while_fuel]. change (gcd_loop (S (S f)) x y) with (if y =? 0 then Ok x else gcd_loop (S f) y (Z.rem x y)).
    destruct (y =? 0); cbn [negb]; [reflexivity|]. apply IH.
Qed.

(* with the budget the hand model uses (y+1 after the swap) the translated function is the hand model *)
Lemma lb_gcd_refines : forall x y,
  lb_gcd (Z.to_nat (if x <? y then x else y)) x y = lift_res (go_gcd x y).
Proof.
  intros x y. unfold lb_gcd, go_gcd.
  destruct (x <? y); cbv zeta beta iota; apply gcd_loop_refines.
Qed.

(* ================================================================== consequences for the code
   The property theorems, restated about the functions as regenerated from the source. *)
From HV Require Import Proofs.FrameProofs Proofs.BalanceBase.

Lemma sock_make_header_shape : forall length index, exists c0 c1 c2 c3 l0 l1 l2 l3 i0 i1 i2 i3,
  sock_make_header length index = [c0; c1; c2; c3; l0; l1; l2; l3; i0; i1; i2; i3].
Proof. intros. unfold sock_make_header, sock_fields, be32. cbn [app]. repeat eexists. Qed.

Lemma udp_make_header_shape : forall length index, exists c0 c1 c2 c3 l0 l1 i0 i1,
  udp_make_header length index = [c0; c1; c2; c3; l0; l1; i0; i1].
Proof. intros. unfold udp_make_header, udp_fields, be32, be16. cbn [app]. repeat eexists. Qed.

Lemma socket_source_parse_make : forall length index,
  exists h, socket_makeHeader length index = GRet h /\
            socket_parseHeader h = lift_hdr (sock_parse_header (sock_make_header length index)).
Proof.
  intros length index. exists (sock_make_header length index). split; [apply socket_makeHeader_refines|].
  destruct (sock_make_header_shape length index) as (c0 & c1 & c2 & c3 & l0 & l1 & l2 & l3 & i0 & i1 & i2 & i3 & E).
  rewrite E. apply socket_parseHeader_refines.
Qed.

Lemma udp_source_parse_make : forall length index,
  exists h, udp_makeHeader length index = GRet h /\
            udp_parseHeader h = lift_hdr (udp_parse_header (udp_make_header length index)).
Proof.
  intros length index. exists (udp_make_header length index). split; [apply udp_makeHeader_refines|].
  destruct (udp_make_header_shape length index) as (c0 & c1 & c2 & c3 & l0 & l1 & i0 & i1 & E).
  rewrite E. apply udp_parseHeader_refines.
Qed.

Lemma socket_source_roundtrip : forall length index, 0 <= length < 2147483648 ->
  exists h, socket_makeHeader length index = GRet h /\
            socket_parseHeader h =
            GRet (length, (index mod 4294967296) mod 2147483648, index mod 4294967296 <? 2147483648).
Proof.
  intros length index Hl. destruct (socket_source_parse_make length index) as (h & Hm & Hp).
  exists h. split; [exact Hm|]. rewrite Hp, (sock_roundtrip_gen length index Hl). reflexivity.
Qed.

Lemma udp_source_roundtrip : forall length index, 0 <= length < 65536 ->
  exists h, udp_makeHeader length index = GRet h /\
            udp_parseHeader h =
            GRet (length, (index mod 65536) mod 32768, index mod 65536 <? 32768).
Proof.
  intros length index Hl. destruct (udp_source_parse_make length index) as (h & Hm & Hp).
  exists h. split; [exact Hm|]. rewrite Hp, (udp_roundtrip_gen length index Hl). reflexivity.
Qed.

From HV Require Import Proofs.Crc32Proofs.

Lemma socket_parseHeader_refines_len : forall h, List.length h = 12%nat ->
  socket_parseHeader h = lift_hdr (sock_parse_header h).
Proof.
  intros h Hl. do 12 (destruct h as [|? h]; [discriminate Hl|]).
  destruct h; [|discriminate Hl]. apply socket_parseHeader_refines.
Qed.

Lemma udp_parseHeader_refines_len : forall h, List.length h = 8%nat ->
  udp_parseHeader h = lift_hdr (udp_parse_header h).
Proof.
  intros h Hl. do 8 (destruct h as [|? h]; [discriminate Hl|]).
  destruct h; [|discriminate Hl]. apply udp_parseHeader_refines.
Qed.

Lemma sock_make_header_length : forall length index, List.length (sock_make_header length index) = 12%nat.
Proof. intros. destruct (sock_make_header_shape length index) as (? & ? & ? & ? & ? & ? & ? & ? & ? & ? & ? & ? & E). rewrite E. reflexivity. Qed.

Lemma udp_make_header_length : forall length index, List.length (udp_make_header length index) = 8%nat.
Proof. intros. destruct (udp_make_header_shape length index) as (? & ? & ? & ? & ? & ? & ? & ? & E). rewrite E. reflexivity. Qed.

(* every single-bit corruption of a header the Go makeHeader produces is refused by the Go parseHeader *)
Lemma socket_source_single_bit : forall length index k h, (k < 96)%nat ->
  socket_makeHeader length index = GRet h -> socket_parseHeader (flip_bit k h) = GRet REJECT.
Proof.
  intros length index k h Hk Hm. rewrite socket_makeHeader_refines in Hm. injection Hm as <-.
  rewrite socket_parseHeader_refines_len by (rewrite flip_bit_length; apply sock_make_header_length).
  rewrite (sock_single_bit length index k Hk). reflexivity.
Qed.

Lemma udp_source_single_bit : forall length index k h, (k < 64)%nat ->
  udp_makeHeader length index = GRet h -> udp_parseHeader (flip_bit k h) = GRet REJECT.
Proof.
  intros length index k h Hk Hm. rewrite udp_makeHeader_refines in Hm. injection Hm as <-.
  rewrite udp_parseHeader_refines_len by (rewrite flip_bit_length; apply udp_make_header_length).
  rewrite (udp_single_bit length index k Hk). reflexivity.
Qed.

(* io/encode.go utf16Length as it is in the source decides strict UTF-8 and counts UTF-16 units *)
Lemma io_utf16Length_source_spec : forall s,
  io_utf16Length s = GRet (match str_chars s with Some cs => Z.of_N (units cs) | None => (-1)%Z end).
Proof. intros s. rewrite io_utf16Length_refines, go_utf16Length_spec. reflexivity. Qed.

(* loadbalance gcd as it is in the source: terminates within min(x,y) iterations and is the gcd *)
Lemma lb_gcd_source_spec : forall x y, 0 <= x -> 0 <= y ->
  lb_gcd (Z.to_nat (if x <? y then x else y)) x y = GRet (Z.gcd x y).
Proof. intros x y Hx Hy. rewrite lb_gcd_refines, (go_gcd_spec x y Hx Hy). reflexivity. Qed.
