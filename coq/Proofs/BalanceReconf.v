(* C18, second series: histories in which the client's URL list changes between calls, and the
   true invariant of RoundRobin's cursor under concurrent callers (cursor <= n-1 + number of
   callers that owe the wrap-around store; back in range at quiescence, so fairness resumes). *)
From Coq Require Import List ZArith Bool Lia.
From HV Require Import Model.Balance Proofs.BalanceBase Proofs.BalanceRR Proofs.BalanceEff
  Proofs.BalanceWRand Proofs.BalanceLA.
Import ListNotations.
Open Scope Z_scope.

(* ---- invariants over all histories with configuration changes ------------------------ *)
Definition cfg_pos (h : list cevent) : Prop :=
  Forall (fun e => match e with CConfig n => (1 <= n)%nat | CEv _ => True end) h.

Section RunCfg.
  Context {S : Type} (mk : nat -> machine S).
  Variable I : S -> list (option nat) -> Prop.

  Hypothesis pick_safe : forall n s calls r, (1 <= n)%nat -> I s calls ->
    match m_pick (mk n) s r with
    | Ok (i, s') => (i < n)%nat /\ I s' (calls ++ [Some i])
    | BadScript => True
    | _ => False
    end.
  Hypothesis settle_safe : forall n s calls k i o, (1 <= n)%nat -> I s calls ->
    nth_error calls k = Some (Some i) ->
    match m_settle (mk n) s i o with
    | Ok s' => I s' (upd_nth k None calls)
    | BadScript => True
    | _ => False
    end.

  Lemma run_cfg_safe : forall h n s calls, (1 <= n)%nat -> cfg_pos h -> I s calls ->
    match run_cfg mk n s calls h with
    | Ok (ps, (s', calls')) => Forall (fun p => (fst p < snd p)%nat) ps /\ I s' calls'
    | BadScript => True
    | _ => False
    end.
  Proof.
    induction h as [|e h IH]; intros n s calls Hn Hpos HI; cbn [run_cfg].
    - split; [constructor|exact HI].
    - inversion Hpos as [|? ? He Hpos']; subst. destruct e as [[r|k o]|n'].
      + pose proof (pick_safe n s calls r Hn HI) as Hp.
        destruct (m_pick (mk n) s r) as [[i s1]| | |]; cbn [bind]; try exact Hp.
        destruct Hp as [Hi HI1]. cbn [fst snd].
        specialize (IH n s1 (calls ++ [Some i]) Hn Hpos' HI1).
        destruct (run_cfg mk n s1 (calls ++ [Some i]) h) as [[ps [s2 c2]]| | |]; cbn [bind]; try exact IH.
        destruct IH as [Hps HI2]. cbn [fst snd]. split; [constructor; [exact Hi|exact Hps]|exact HI2].
      + destruct (nth_error calls k) as [[i|]|] eqn:Hk; try exact Logic.I.
        pose proof (settle_safe n s calls k i o Hn HI Hk) as Hs.
        destruct (m_settle (mk n) s i o) as [s1| | |]; cbn [bind]; try exact Hs.
        apply IH; assumption.
      + apply IH; assumption.
  Qed.
End RunCfg.

(* ---- RoundRobin ------------------------------------------------------------------------- *)
(* getIndex for ANY cursor value >= -1, in particular one left behind by a longer list *)
Lemma rr_pick_any n idx : (1 <= n)%nat -> -1 <= idx ->
  rr_pick n idx =
    if (n <=? 1)%nat then Ok (O, idx)
    else if idx + 1 <? Z.of_nat n then Ok (Z.to_nat (idx + 1), idx + 1)
    else Ok (O, 0).
Proof.
  intros Hn Hi. unfold rr_pick, rr_get.
  destruct (n <=? 1)%nat eqn:E1.
  - apply Nat.leb_le in E1. assert (Hg : (Z.of_nat n >? 1) = false) by (apply gtb_false; lia).
    rewrite Hg. rewrite url_at_in by lia. reflexivity.
  - apply Nat.leb_gt in E1. assert (Hg : (Z.of_nat n >? 1) = true) by (apply gtb_true; lia).
    rewrite Hg. destruct (idx + 1 <? Z.of_nat n) eqn:E2.
    + apply Z.ltb_lt in E2. rewrite url_at_in by lia. reflexivity.
    + rewrite url_at_in by lia. reflexivity.
Qed.

(* After the list changed to n servers (shrunk, grown, reordered), whatever the cursor was:
   the next call selects a configured server, with two or more servers the cursor is back in
   [0,n) after that single call, and the n calls after it serve every server exactly once. *)
Lemma rr_reconfigured n idx : (1 <= n)%nat -> -1 <= idx ->
  exists i idx', rr_pick n idx = Ok (i, idx') /\ (i < n)%nat /\ -1 <= idx' /\
    ((2 <= n)%nat -> 0 <= idx' < Z.of_nat n) /\
    exists l idx'', rr_run n n idx' = Ok (l, idx'') /\ forall j, (j < n)%nat -> count j l = 1.
Proof.
  intros Hn Hi. rewrite rr_pick_any by assumption.
  destruct (n <=? 1)%nat eqn:E1.
  - apply Nat.leb_le in E1. assert (n = 1%nat) by lia. subst n.
    exists O, idx. split; [reflexivity|]. split; [lia|]. split; [exact Hi|]. split; [lia|].
    exists [O], idx. split.
    + unfold rr_run. cbn [pick_run]. rewrite rr_pick_any by (cbn; lia). reflexivity.
    + intros j Hj. assert (j = O) by lia. subst. reflexivity.
  - apply Nat.leb_gt in E1. destruct (idx + 1 <? Z.of_nat n) eqn:E2.
    + apply Z.ltb_lt in E2. exists (Z.to_nat (idx + 1)), (idx + 1).
      split; [reflexivity|]. split; [lia|]. split; [lia|]. split; [lia|].
      destruct (rr_cycle n (idx + 1) Hn ltac:(unfold rr_inv; lia)) as (l & i2 & E & Hc & _). eauto.
    + exists O, 0. split; [reflexivity|]. split; [lia|]. split; [lia|]. split; [lia|].
      destruct (rr_cycle n 0 Hn ltac:(unfold rr_inv; lia)) as (l & i2 & E & Hc & _). eauto.
Qed.

Lemma rr_pick_any_valid n idx : (1 <= n)%nat -> -1 <= idx ->
  exists i idx', rr_pick n idx = Ok (i, idx') /\ (i < n)%nat /\ -1 <= idx'.
Proof.
  intros Hn Hi. destruct (rr_reconfigured n idx Hn Hi) as (i & idx' & E & H1 & H2 & _). eauto.
Qed.

Lemma rr_cfg_history_valid : forall h n, (1 <= n)%nat -> cfg_pos h ->
  match run_cfg rr_machine n rr_init [] h with
  | Ok (ps, (idx, _)) => Forall (fun p => (fst p < snd p)%nat) ps /\ -1 <= idx
  | BadScript => True
  | _ => False
  end.
Proof.
  intros h n Hn Hpos.
  pose proof (run_cfg_safe rr_machine (fun idx _ => -1 <= idx)) as R.
  specialize (R ltac:(
    intros m s calls r Hm HI; cbn [m_pick rr_machine];
    destruct (rr_pick_any_valid m s Hm HI) as (i & s' & E & Hi & HI'); rewrite E; split; assumption)).
  specialize (R ltac:(intros m s calls k i o _ HI _; cbn [m_settle rr_machine]; exact HI)).
  specialize (R h n rr_init [] Hn Hpos ltac:(unfold rr_init; lia)).
  destruct (run_cfg rr_machine n rr_init [] h) as [[ps [idx c]]| | |]; exact R.
Qed.

Lemma rnd_cfg_history_valid : forall h n, (1 <= n)%nat -> cfg_pos h ->
  match run_cfg rnd_machine n tt [] h with
  | Ok (ps, _) => Forall (fun p => (fst p < snd p)%nat) ps
  | BadScript => True
  | _ => False
  end.
Proof.
  intros h n Hn Hpos.
  pose proof (run_cfg_safe rnd_machine (fun _ _ => True)) as R.
  specialize (R ltac:(
    intros m s calls r Hm _; cbn [m_pick rnd_machine]; pose proof (rnd_pick_cases m r) as H;
    destruct (rnd_pick m r); cbn [bind]; try exact I; [tauto|lia|exact H])).
  specialize (R ltac:(intros m s calls k i o _ _ _; cbn; exact I)).
  specialize (R h n tt [] Hn Hpos I).
  destruct (run_cfg rnd_machine n tt [] h) as [[ps sc]| | |]; try exact R.
  destruct sc. tauto.
Qed.

(* the four weighted balancers never look at the client's list: for a machine that does not
   depend on n, a history with configuration changes is the same history without them *)
Definition strip_cfg (h : list cevent) : list event :=
  flat_map (fun e => match e with CEv e' => [e'] | CConfig _ => [] end) h.

Definition forget_n {S} (r : res (list (nat * nat) * (S * list (option nat))))
  : res (list nat * (S * list (option nat))) :=
  match r with
  | Ok x => Ok (map fst (fst x), snd x)
  | Panic => Panic | OutOfFuel => OutOfFuel | BadScript => BadScript
  end.

Lemma run_cfg_const {S} (m : machine S) : forall h n s calls,
  forget_n (run_cfg (fun _ => m) n s calls h) = run m s calls (strip_cfg h).
Proof.
  induction h as [|e h IH]; intros n s calls; [reflexivity|].
  destruct e as [[r|k o]|n']; cbn [run_cfg strip_cfg flat_map app run].
  - destruct (m_pick m s r) as [[i s1]| | |]; cbn [bind fst snd]; try reflexivity.
    fold (strip_cfg h). rewrite <- (IH n).
    destruct (run_cfg (fun _ => m) n s1 (calls ++ [Some i]) h) as [[ps sc]| | |]; reflexivity.
  - destruct (nth_error calls k) as [[i|]|]; try reflexivity.
    destruct (m_settle m s i o) as [s1| | |]; cbn [bind]; try reflexivity. fold (strip_cfg h). apply IH.
  - fold (strip_cfg h). apply IH.
Qed.

(* ---- LeastActive -------------------------------------------------------------------------- *)
Lemma calls_lt_mono n m calls : calls_lt n calls -> (n <= m)%nat -> calls_lt m calls.
Proof. intros H Hnm k i Hk. specialize (H k i Hk). lia. Qed.

Lemma la_prepare_length n a : (n <= length (la_prepare n a))%nat /\ (length a <= length (la_prepare n a))%nat.
Proof.
  unfold la_prepare. destruct (Nat.ltb (length a) n) eqn:E.
  - apply Nat.ltb_lt in E. rewrite app_length, repeat_length. lia.
  - apply Nat.ltb_ge in E. lia.
Qed.

Lemma add_at_length a i d a' : add_at a i d = Ok a' -> length a' = length a.
Proof.
  unfold add_at. destruct (nth_error a i); [|discriminate]. intros H. injection H as <-.
  apply upd_nth_length.
Qed.

(* no panic and a valid pick whatever happened to the list: the only thing that matters is that
   calls in flight point inside the counter slice, which never gets shorter *)
Lemma la_cfg_history_valid : forall h n, (1 <= n)%nat -> cfg_pos h ->
  match run_cfg la_machine n [] [] h with
  | Ok (ps, (a, calls)) => Forall (fun p => (fst p < snd p)%nat) ps /\ calls_lt (length a) calls
  | BadScript => True
  | _ => False
  end.
Proof.
  intros h n Hn Hpos.
  pose proof (run_cfg_safe la_machine (fun a calls => calls_lt (length a) calls)) as R.
  assert (Hp : forall m s calls r, (1 <= m)%nat -> calls_lt (length s) calls ->
    match m_pick (la_machine m) s r with
    | Ok (i, s') => (i < m)%nat /\ calls_lt (length s') (calls ++ [Some i])
    | BadScript => True | _ => False end).
  { intros m a calls r Hm HI. cbn [m_pick la_machine]. unfold la_start, la_select.
    destruct (la_prepare_length m a) as [Hl1 Hl2]. set (p := la_prepare m a) in *.
    destruct (la_candidates_spec m p ltac:(lia)) as (cands & Ec & Hne & Hin & _). rewrite Ec. cbn [bind].
    pose proof (choose_sound cands r Hne) as Hch.
    destruct (choose cands r) as [i| | |]; cbn [bind]; try exact Hch.
    apply Hin in Hch. destruct Hch as [Hi _].
    unfold url_at_nat. apply Nat.ltb_lt in Hi. rewrite Hi. apply Nat.ltb_lt in Hi. cbn [bind].
    destruct (nth_error p i) as [x|] eqn:Ex; [|apply nth_error_None in Ex; lia].
    rewrite (add_at_ok p i 1 x Ex). cbn [bind]. split; [exact Hi|]. rewrite upd_nth_length.
    apply calls_lt_app; [eapply calls_lt_mono; eauto|lia]. }
  specialize (R Hp).
  specialize (R ltac:(
    intros m a calls k i o _ HI Hk; cbn [m_settle la_machine]; unfold la_finish;
    pose proof (HI k i Hk) as Hi;
    destruct (nth_error a i) as [x|] eqn:Ex; [|apply nth_error_None in Ex; lia];
    rewrite (add_at_ok a i (-1) x Ex); rewrite upd_nth_length; apply calls_lt_upd; exact HI)).
  exact (R h n [] [] Hn Hpos (calls_lt_nil _)).
Qed.

(* the counters are the in-flight counts of their slots *)
Definition la_G (a : list Z) (calls : list (option nat)) : Prop :=
  calls_lt (length a) calls /\ tracks (length a) a calls.

Lemma all_finished_calls_lt n calls : all_finished calls -> calls_lt n calls.
Proof.
  intros Hf k i Hk. unfold all_finished in Hf. rewrite Forall_forall in Hf.
  specialize (Hf _ (nth_error_In _ _ Hk)). discriminate.
Qed.

Lemma cnt_beyond n calls j : calls_lt n calls -> (n <= j)%nat -> cnt j calls = O.
Proof.
  intros Hc Hj. induction calls as [|c calls IH]; [reflexivity|].
  assert (Hc' : calls_lt n calls) by (intros k i Hk; exact (Hc (S k) i Hk)).
  destruct c as [i|]; cbn [cnt]; [|exact (IH Hc')].
  pose proof (Hc O i eq_refl) as Hi. destruct (Nat.eqb_spec i j) as [->|_]; [lia|]. rewrite (IH Hc'). reflexivity.
Qed.

(* growing the counter slice (make + copy, /repo 905f441) keeps the counters exact *)
Lemma la_prepare_G n a calls : la_G a calls -> la_G (la_prepare n a) calls.
Proof.
  intros [Hc [_ Ht]]. unfold la_prepare. destruct (Nat.ltb (length a) n) eqn:E; [|split; [exact Hc|split; [reflexivity|exact Ht]]].
  apply Nat.ltb_lt in E.
  assert (Hlp : length (a ++ repeat 0 (n - length a)) = n) by (rewrite app_length, repeat_length; lia).
  unfold la_G, tracks.
  split; [eapply calls_lt_mono; [exact Hc|lia]|]. split; [reflexivity|]. intros j Hj. rewrite Hlp in Hj.
  destruct (Nat.lt_ge_cases j (length a)) as [Hlt|Hge].
  - rewrite nth_error_app1 by exact Hlt. apply Ht. exact Hlt.
  - rewrite nth_error_app2 by exact Hge. rewrite nth_error_repeat0 by lia.
    rewrite (cnt_beyond _ _ _ Hc Hge). reflexivity.
Qed.

(* A call started with n servers, whatever n was before: the counters stay exact and the pick
   has the fewest calls in flight among the n current slots. *)
Lemma la_start_G n a calls r : (1 <= n)%nat -> la_G a calls ->
  match la_start n a r with
  | Ok (i, a') => (i < n)%nat /\ la_G a' (calls ++ [Some i]) /\
                  forall j, (j < n)%nat -> (cnt i calls <= cnt j calls)%nat
  | BadScript => True
  | _ => False
  end.
Proof.
  intros Hn HG0. unfold la_start, la_select.
  pose proof (la_prepare_G n a calls HG0) as [Hcp [_ Htp]].
  destruct (la_prepare_length n a) as [Hl1 _]. set (p := la_prepare n a) in *.
  destruct (la_candidates_spec n p ltac:(lia)) as (cands & Ec & Hne & Hin & Hmin). rewrite Ec. cbn [bind].
  pose proof (choose_sound cands r Hne) as Hch.
  destruct (choose cands r) as [i| | |]; cbn [bind]; try exact Hch.
  apply Hin in Hch. destruct Hch as [Hi Hleast].
  unfold url_at_nat. apply Nat.ltb_lt in Hi. rewrite Hi. apply Nat.ltb_lt in Hi. cbn [bind].
  destruct (tracks_inc (length p) p calls i (conj eq_refl Htp) ltac:(lia)) as (a' & Ea & Ht').
  rewrite Ea. cbn [bind]. pose proof (add_at_length _ _ _ _ Ea) as Hla.
  split; [exact Hi|]. split.
  - unfold la_G. rewrite Hla. split; [apply calls_lt_app; [exact Hcp|lia]|exact Ht'].
  - intros j Hj. pose proof (Hmin j _ Hj (Htp j ltac:(lia))) as Hle.
    rewrite (Htp i ltac:(lia)) in Hleast. injection Hleast as Hleast. lia.
Qed.

Lemma la_finish_G a calls k i o : la_G a calls -> nth_error calls k = Some (Some i) ->
  exists a', la_finish a i o = Ok a' /\ la_G a' (upd_nth k None calls).
Proof.
  intros [Hc Ht] Hk. pose proof (Hc k i Hk) as Hi. unfold la_finish.
  destruct (tracks_dec _ a calls k i Ht Hk Hi) as (a' & Ea & Ht'). exists a'. split; [exact Ea|].
  unfold la_G. rewrite (add_at_length _ _ _ _ Ea). split; [apply calls_lt_upd; exact Hc|exact Ht'].
Qed.

Lemma la_G_quiescent a calls : la_G a calls -> all_finished calls -> Forall (fun x => x = 0) a.
Proof. intros [_ Ht] Hf. eapply tracks_quiescent; eauto. Qed.

Lemma la_G_init : la_G [] [].
Proof. split; [apply calls_lt_nil|]. split; [reflexivity|]. intros j Hj. cbn in Hj. lia. Qed.

(* every history with configuration changes: counters = in-flight counts of their slots *)
Lemma la_cfg_history_G : forall h n, (1 <= n)%nat -> cfg_pos h ->
  match run_cfg la_machine n [] [] h with
  | Ok (ps, (a, calls)) => Forall (fun p => (fst p < snd p)%nat) ps /\ la_G a calls
  | BadScript => True
  | _ => False
  end.
Proof.
  intros h n Hn Hpos.
  pose proof (run_cfg_safe la_machine la_G) as R.
  specialize (R ltac:(
    intros m a calls r Hm HI; cbn [m_pick la_machine]; pose proof (la_start_G m a calls r Hm HI) as H;
    destruct (la_start m a r) as [[i a']| | |]; try exact H; destruct H as (H1 & H2 & _); split; assumption)).
  specialize (R ltac:(
    intros m a calls k i o _ HI Hk; cbn [m_settle la_machine];
    destruct (la_finish_G a calls k i o HI Hk) as (a' & E & HI'); rewrite E; exact HI')).
  exact (R h n [] [] Hn Hpos la_G_init).
Qed.

Lemma la_cfg_conserved h n ps a calls : (1 <= n)%nat -> cfg_pos h ->
  run_cfg la_machine n [] [] h = Ok (ps, (a, calls)) ->
  (forall j, (j < length a)%nat -> nth_error a j = Some (Z.of_nat (cnt j calls))) /\
  (all_finished calls -> Forall (fun x => x = 0) a).
Proof.
  intros Hn Hpos Hr. pose proof (la_cfg_history_G h n Hn Hpos) as H. rewrite Hr in H. destruct H as [_ HG].
  split; [exact (proj2 (proj2 HG))|apply la_G_quiescent; exact HG].
Qed.

Lemma la_cfg_min h n ps a calls m r i a' : (1 <= n)%nat -> cfg_pos h -> (1 <= m)%nat ->
  run_cfg la_machine n [] [] h = Ok (ps, (a, calls)) -> la_start m a r = Ok (i, a') ->
  forall j, (j < m)%nat -> (cnt i calls <= cnt j calls)%nat.
Proof.
  intros Hn Hpos Hm Hr Hs. pose proof (la_cfg_history_G h n Hn Hpos) as H. rewrite Hr in H. destruct H as [_ HG].
  pose proof (la_start_G m a calls r Hm HG) as H. rewrite Hs in H. exact (proj2 (proj2 H)).
Qed.

(* The code before /repo 905f441 grew the slice with make alone.  With one call in flight on
   slot 0 ([1;0] tracks it) and the list growing to 3, the counters were dropped; when the call
   finished its counter went to -1 for good although nothing was in flight. *)
Lemma la_grow_old_witness :
  la_G [1; 0] [Some O] /\ la_prepare_old 3 [1; 0] = [0; 0; 0] /\
  add_at (la_prepare_old 3 [1; 0]) 0 (-1) = Ok [-1; 0; 0] /\ all_finished (upd_nth 0 None [Some O]) /\
  la_prepare 3 [1; 0] = [1; 0; 0].
Proof.
  split.
  - split; [intros [|k] i H; cbn in H; [injection H as <-; cbn; lia|destruct k; discriminate]|].
    split; [reflexivity|]. intros [|[|j]] Hj; cbn in *; try reflexivity; lia.
  - repeat split; try reflexivity. repeat constructor.
Qed.

(* ---- RoundRobin under concurrent callers: the cursor invariant ------------------------------ *)
Fixpoint owing (ts : list rr_pc) : nat :=
  match ts with
  | [] => O
  | RStore :: r => S (owing r)
  | _ :: r => owing r
  end.

Definition is_store (p : rr_pc) : nat := match p with RStore => 1%nat | _ => O end.

Lemma owing_upd : forall ts t p p', nth_error ts t = Some p ->
  (owing (upd_nth t p' ts) + is_store p = owing ts + is_store p')%nat.
Proof.
  induction ts as [|q ts IH]; intros [|t] p p' H; cbn in H; try discriminate.
  - injection H as ->. cbn [upd_nth owing]. destruct p, p'; cbn; lia.
  - cbn [upd_nth]. specialize (IH t p p' H). destruct q; cbn [owing]; lia.
Qed.

Lemma rr_fin_not_store n i : is_store (rr_fin n i) = O.
Proof. unfold rr_fin. destruct (url_at n i); reflexivity. Qed.

(* cursor <= n-1 + number of callers between their AddInt64 and their StoreInt64 *)
Definition rr_cursor_inv (n : nat) (cs : rr_cstate) : Prop :=
  -1 <= rr_shared cs <= Z.of_nat n - 1 + Z.of_nat (owing (rr_threads cs)) /\
  Forall (rr_pc_ok n) (rr_threads cs).

Lemma rr_cstep_cursor n cs t cs' : (1 <= n)%nat -> rr_cursor_inv n cs ->
  rr_cstep n cs t = Some cs' -> rr_cursor_inv n cs'.
Proof.
  intros Hn [Hs Hall] H. unfold rr_cstep in H.
  destruct (nth_error (rr_threads cs) t) as [p|] eqn:Ep; [|discriminate].
  destruct (rr_tstep n (rr_shared cs) p) as [[idx' p']|] eqn:Et; [|discriminate].
  injection H as <-. destruct (rr_tstep_ok n _ _ _ _ Hn (proj1 Hs) Et) as [H1 H2].
  split; cbn [rr_shared rr_threads]; [|apply Forall_upd_nth; assumption].
  pose proof (owing_upd _ t p p' Ep) as Ho.
  unfold rr_tstep in Et. destruct p; try discriminate.
  - destruct (Z.of_nat n >? 1) eqn:Eg.
    + injection Et as <- <-. destruct (rr_shared cs + 1 <? Z.of_nat n) eqn:El.
      * apply Z.ltb_lt in El. rewrite rr_fin_not_store in Ho. cbn [is_store] in Ho. lia.
      * cbn [is_store] in Ho. lia.
    + injection Et as <- <-. rewrite rr_fin_not_store in Ho. cbn [is_store] in Ho. lia.
  - injection Et as <- <-. rewrite rr_fin_not_store in Ho. cbn [is_store] in Ho. lia.
Qed.

Lemma rr_crun_cursor n : (1 <= n)%nat -> forall sched cs cs',
  rr_cursor_inv n cs -> rr_crun n cs sched = Some cs' -> rr_cursor_inv n cs'.
Proof.
  intros Hn. induction sched as [|t r IH]; intros cs cs' Hc H; cbn in H.
  - injection H as <-. exact Hc.
  - destruct (rr_cstep n cs t) as [cs1|] eqn:E; [|discriminate].
    eapply IH; [|exact H]. eapply rr_cstep_cursor; eauto.
Qed.

Definition rr_quiescent (cs : rr_cstate) : Prop :=
  Forall (fun p => match p with RDone _ => True | _ => False end) (rr_threads cs).

Lemma quiescent_owing ts : Forall (fun p => match p with RDone _ => True | _ => False end) ts -> owing ts = O.
Proof. induction 1 as [|p ts Hp _ IH]; [reflexivity|]. destruct p; try contradiction. exact IH. Qed.

(* Any burst of concurrent callers, any schedule: once nobody is inside getIndex the cursor is
   back in [-1, n), and the next n sequential calls serve every server exactly once. *)
Lemma rr_fair_after_burst n : (1 <= n)%nat -> forall sched cs cs',
  rr_cursor_inv n cs -> rr_crun n cs sched = Some cs' -> rr_quiescent cs' ->
  -1 <= rr_shared cs' < Z.of_nat n /\
  exists l idx', rr_run n n (rr_shared cs') = Ok (l, idx') /\ forall i, (i < n)%nat -> count i l = 1.
Proof.
  intros Hn sched cs cs' Hc Hr Hq.
  destruct (rr_crun_cursor n Hn sched cs cs' Hc Hr) as [Hs _].
  rewrite (quiescent_owing _ Hq) in Hs.
  assert (Hi : rr_inv n (rr_shared cs')) by (unfold rr_inv; lia).
  split; [exact Hi|]. destruct (rr_cycle n _ Hn Hi) as (l & idx' & E & Hcnt & _). eauto.
Qed.
