(* C19: the order invariant.  Every cache has a high-water mark [cdel]: what was handed
   to the client from this cache is a subsequence of the first [cdel] taken messages, and
   every entry that is still on its way to a poll that will read it starts at or after the
   mark.  Hence deliveries from one cache never go backwards and never overlap. *)
From Coq Require Import List ZArith Bool Arith Lia Permutation.
From HV Require Import Model.Push Proofs.PushBase Proofs.PushInv Proofs.PushData.
Import ListNotations.

Definition hw_ok (cs : list cache) (e : entry) : Prop :=
  exists ca, nth_error cs (e_cache e) = Some ca /\ cdel ca <= e_off e.

Definition hw_cache (dl : list (nat * entry)) (c : nat) (ca : cache) : Prop :=
  cdel ca <= length (ctaken ca) /\ Subseq (dmsgs c dl) (firstn (cdel ca) (ctaken ca)).

Record Inv4 (s : state) : Prop := {
  o_hw : forall c ca, nth_error (caches s) c = Some ca -> hw_cache (delivered s) c ca;
  o_chan : forall p pl b e, nth_error (polls s) p = Some pl -> poll_active pl = true ->
      nth_error (chans s) p = Some (VBatch b) -> In e b -> hw_ok (caches s) e;
  o_psub : forall p pl sb e, nth_error (polls s) p = Some pl -> ppc pl = LSending sb ->
      In e (sres sb) -> hw_ok (caches s) e;
  o_wsub : forall w wk sb e, nth_error (works s) w = Some wk -> wsub wk = Some sb ->
      active_at s (sresp sb) = true -> In e (sres sb) -> hw_ok (caches s) e
}.

Lemma Inv4_init b : Inv4 (init_of b).
Proof.
  constructor; cbn; intros;
    match goal with H : nth_error [] ?x = Some _ |- _ => destruct x; discriminate end.
Qed.

(* ---- dmsgs *)

Lemma dmsgs_app c a b : dmsgs c (a ++ b) = dmsgs c a ++ dmsgs c b.
Proof.
  induction a as [|[i e] a IH]; cbn; [reflexivity|].
  destruct (Nat.eqb (e_cache e) c); rewrite IH; [rewrite app_assoc|]; reflexivity.
Qed.

Lemma dmsgs_nil_fresh c dl : (forall id e, In (id, e) dl -> e_cache e <> c) -> dmsgs c dl = [].
Proof.
  induction dl as [|[i e] dl IH]; cbn; intros H; [reflexivity|].
  destruct (Nat.eqb (e_cache e) c) eqn:E.
  - apply Nat.eqb_eq in E. elim (H i e); auto.
  - apply IH. intros id e0 Hin. eapply H; eauto.
Qed.

Lemma firstn_app_le {A} (l1 l2 : list A) n : n <= length l1 -> firstn n (l1 ++ l2) = firstn n l1.
Proof.
  intros H. rewrite firstn_app. replace (n - length l1) with 0 by lia. cbn. apply app_nil_r.
Qed.

Lemma Subseq_firstn {A} (l : list A) n : Subseq (firstn n l) l.
Proof.
  revert n. induction l as [|x l IH]; intros [|n]; cbn; try constructor. apply IH.
Qed.

(* caches change but high-water marks and the taken prefix up to the mark stay *)
Definition cd_le (cs cs' : list cache) : Prop :=
  forall c ca, nth_error cs c = Some ca ->
  exists ca', nth_error cs' c = Some ca' /\ cdel ca' = cdel ca /\ exists ext, ctaken ca' = ctaken ca ++ ext.

Lemma cd_le_refl cs : cd_le cs cs.
Proof. intros c ca H. exists ca. repeat split; auto. exists []. rewrite app_nil_r. reflexivity. Qed.

Lemma cd_le_upd cs c ca ca' :
  nth_error cs c = Some ca -> cdel ca' = cdel ca -> (exists ext, ctaken ca' = ctaken ca ++ ext) ->
  cd_le cs (upd c ca' cs).
Proof.
  intros Hc Ho He i cb Hi. destruct (Nat.eq_dec c i) as [->|Hne].
  - rewrite Hc in Hi. inversion Hi; subst. exists ca'. split; [|auto].
    apply nth_error_upd_eq. eapply nth_error_lt; eauto.
  - exists cb. rewrite nth_error_upd_neq by exact Hne. repeat split; auto.
    exists []. rewrite app_nil_r. reflexivity.
Qed.

Lemma cd_le_snoc cs x : cd_le cs (cs ++ [x]).
Proof.
  intros i ca Hi. exists ca. split; [apply nth_error_snoc_old; auto|]. split; [reflexivity|].
  exists []. rewrite app_nil_r. reflexivity.
Qed.

Lemma hw_ok_mono cs cs' e : cd_le cs cs' -> hw_ok cs e -> hw_ok cs' e.
Proof.
  intros Hle (ca & Hc & Hd). destruct (Hle _ _ Hc) as (ca' & Hc' & Hd' & _).
  exists ca'. split; [auto|lia].
Qed.

Lemma hw_cache_ext dl c ca ca' ext :
  cdel ca' = cdel ca -> ctaken ca' = ctaken ca ++ ext -> hw_cache dl c ca -> hw_cache dl c ca'.
Proof.
  intros Hd Ht [H1 H2]. unfold hw_cache. rewrite Hd, Ht. split.
  - rewrite app_length. lia.
  - rewrite firstn_app_le by exact H1. exact H2.
Qed.

(* ---- deliver *)

Lemma hw_deliver_one dl c ca id e pre post :
  hw_cache dl c ca -> e_cache e = c -> cdel ca <= e_off e ->
  ctaken ca = pre ++ e_msgs e ++ post -> length pre = e_off e ->
  hw_cache (dl ++ [(id, e)]) c (set_cdel ca (e_off e + length (e_msgs e))).
Proof.
  intros [H1 H2] Hc Hd Ht Hl. unfold hw_cache. cbn [cdel ctaken set_cdel]. split.
  - rewrite Ht, !app_length. lia.
  - rewrite dmsgs_app. cbn [dmsgs]. rewrite Hc, Nat.eqb_refl, app_nil_r.
    rewrite Ht. rewrite app_assoc. rewrite firstn_app_le by (rewrite app_length; lia).
    rewrite firstn_all2 by (rewrite app_length; lia).
    apply Subseq_app; [|apply Subseq_refl].
    rewrite Ht in H2. rewrite firstn_app_le in H2 by lia.
    eapply Subseq_trans; [exact H2|apply Subseq_firstn].
Qed.

Lemma hw_deliver_other dl c ca id e :
  hw_cache dl c ca -> e_cache e <> c -> hw_cache (dl ++ [(id, e)]) c ca.
Proof.
  intros [H1 H2] Hne. split; [exact H1|].
  rewrite dmsgs_app. cbn [dmsgs]. apply Nat.eqb_neq in Hne. rewrite Hne, app_nil_r. exact H2.
Qed.

(* what deliver does to the caches, entry by entry *)
Lemma deliver_spec id : forall b cs dl,
  (forall c ca, nth_error cs c = Some ca -> hw_cache dl c ca) ->
  Forall (ent_ok cs id) b -> NoDup (map e_topic b) -> (forall e, In e b -> hw_ok cs e) ->
  let cs' := fst (deliver id b cs dl) in
  let dl' := snd (deliver id b cs dl) in
  (forall c ca, nth_error cs' c = Some ca -> hw_cache dl' c ca) /\
  (forall c, (forall e, In e b -> e_cache e <> c) -> nth_error cs' c = nth_error cs c).
Proof.
  induction b as [|e b IH]; intros cs dl Hhw Hok Hnd Hlive; cbn [deliver fst snd].
  - split; auto.
  - inversion Hok as [|? ? He Hok']; subst. inversion Hnd as [|? ? Hni Hnd']; subst.
    destruct He as (ca & pre & post & Hc & Ho & Ht & Hl).
    rewrite Hc.
    set (ca1 := {| cown := cown ca; cmsgs := cmsgs ca; ctaken := ctaken ca;
                   cdel := e_off e + length (e_msgs e) |}).
    set (cs1 := upd (e_cache e) ca1 cs).
    assert (Hlt : e_cache e < length cs) by (eapply nth_error_lt; eauto).
    (* the other entries of the batch are for other caches *)
    assert (Hdist : forall e', In e' b -> e_cache e' <> e_cache e).
    { intros e' Hin Heq. eapply Forall_forall in Hok'; [|exact Hin].
      destruct Hok' as (ca' & _ & _ & Hc' & Ho' & _). rewrite Heq, Hc in Hc'. inversion Hc'; subst ca'.
      rewrite Ho in Ho'. inversion Ho'. apply Hni. rewrite H0. apply in_map. exact Hin. }
    destruct (IH cs1 (dl ++ [(id, e)])) as [IH1 IH2].
    + intros c cb Hcb. unfold cs1 in Hcb. upd_cases Hcb.
      * destruct (Hlive e (or_introl eq_refl)) as (ca0 & Hc0 & Hd0). rewrite Hc in Hc0. inversion Hc0; subst ca0.
        apply (hw_deliver_one dl (e_cache e) ca id e pre post); auto.
      * apply hw_deliver_other; auto.
    + eapply Forall_impl; [|exact Hok']. intros e' (ca' & pre' & post' & Hc' & R).
      destruct (Nat.eq_dec (e_cache e) (e_cache e')) as [Heq|Hne].
      * exists ca1, pre', post'. unfold cs1. rewrite <- Heq. rewrite nth_error_upd_eq by exact Hlt.
        rewrite <- Heq, Hc in Hc'. inversion Hc'; subst ca'. split; [reflexivity|exact R].
      * exists ca', pre', post'. unfold cs1. rewrite nth_error_upd_neq by exact Hne. auto.
    + exact Hnd'.
    + intros e' Hin. destruct (Hlive e' (or_intror Hin)) as (ca' & Hc' & Hd').
      exists ca'. unfold cs1. rewrite nth_error_upd_neq by (apply not_eq_sym; apply Hdist; auto). auto.
    + split; [exact IH1|].
      intros c Hnone. rewrite IH2 by (intros e' Hin; apply Hnone; right; exact Hin).
      unfold cs1. apply nth_error_upd_neq. apply Hnone. left; reflexivity.
Qed.

(* ---- steps that leave caches and the delivered log alone *)
Lemma Inv4_transfer s s' :
  Inv4 s -> caches s' = caches s -> delivered s' = delivered s ->
  (forall q ql' b, nth_error (polls s') q = Some ql' -> poll_active ql' = true ->
      nth_error (chans s') q = Some (VBatch b) ->
      exists ql, nth_error (polls s) q = Some ql /\ poll_active ql = true /\ nth_error (chans s) q = Some (VBatch b)) ->
  (forall q ql sb, nth_error (polls s') q = Some ql -> ppc ql = LSending sb ->
      (exists ql0, nth_error (polls s) q = Some ql0 /\ ppc ql0 = LSending sb) \/ sres sb = []) ->
  (forall w wk sb, nth_error (works s') w = Some wk -> wsub wk = Some sb -> active_at s' (sresp sb) = true ->
      (exists wk0, nth_error (works s) w = Some wk0 /\ wsub wk0 = Some sb /\ active_at s (sresp sb) = true) \/ sres sb = []) ->
  Inv4 s'.
Proof.
  intros [A B C D] Ec Ed H1 H2 H3. constructor; rewrite ?Ec, ?Ed; auto.
  - intros p pl b e Hp Ha Hb Hin. destruct (H1 _ _ _ Hp Ha Hb) as (ql & X & Y & Z). eauto.
  - intros p pl sb e Hp Hs Hin. destruct (H2 _ _ _ Hp Hs) as [(ql0 & X & Y)|E]; [eauto|].
    rewrite E in Hin. destruct Hin.
  - intros w wk sb e Hw Hs Ha Hin. destruct (H3 _ _ _ Hw Hs Ha) as [(wk0 & X & Y & Z)|E]; [eauto|].
    rewrite E in Hin. destruct Hin.
Qed.

Lemma active_at_upd s p pl pc' r ps :
  nth_error (polls s) p = Some pl -> ps = upd p {| pid := pid pl; ppc := pc' |} (polls s) ->
  (poll_active {| pid := pid pl; ppc := pc' |} = true -> poll_active pl = true) ->
  forall s', polls s' = ps -> active_at s' r = true -> active_at s r = true.
Proof.
  intros Hp -> Hact s' Ep. unfold active_at. rewrite Ep.
  destruct (Nat.eq_dec p r) as [->|Hne].
  - rewrite nth_error_upd_eq by (eapply nth_error_lt; eauto). rewrite Hp. exact Hact.
  - rewrite nth_error_upd_neq by exact Hne. auto.
Qed.

(* ---- one step of send *)
Lemma sub_rel_hw s sb s1 o :
  (forall c ca, nth_error (caches s) c = Some ca -> hw_cache (delivered s) c ca) ->
  sub_rel s sb s1 o ->
  cd_le (caches s) (caches s1) /\ delivered s1 = delivered s /\
  (forall c ca, nth_error (caches s1) c = Some ca -> hw_cache (delivered s) c ca) /\
  (forall sb', o = SCont sb' -> (forall e, In e (sres sb) -> hw_ok (caches s) e) ->
               forall e, In e (sres sb') -> hw_ok (caches s1) e).
Proof.
  intros Hhw H. inversion H; subst; sproj.
  1-6: (split; [apply cd_le_refl|]; split; [reflexivity|]; split; [exact Hhw|];
        intros sb' E Hl; try discriminate; inversion E; subst; cbn [sres sb_mk]; auto;
        intros e []).
  assert (Hle : cd_le (caches s) (upd c (take_cache ca) (caches s))).
  { eapply cd_le_upd; eauto. exists (cmsgs ca). reflexivity. }
  split; [exact Hle|]. split; [reflexivity|]. split.
  - intros c0 cb Hcb. upd_cases Hcb; [|auto].
    eapply (hw_cache_ext _ _ ca); [reflexivity|reflexivity|auto].
  - intros sb' E Hl. inversion E; subst. cbn [sres sb_mk]. unfold take_res.
    intros e Hin. destruct (cmsgs ca) as [|m0 ms] eqn:Em.
    + eapply hw_ok_mono; eauto.
    + apply in_app_or in Hin. destruct Hin as [Hin|[<-|[]]]; [eapply hw_ok_mono; eauto|].
      exists (take_cache ca). cbn. split; [apply nth_error_upd_eq; eapply nth_error_lt; eauto|].
      apply (Hhw _ _ H1).
Qed.

Lemma sub_rel_batch s sb s1 o b :
  sub_rel s sb s1 o -> nth_error (chans s) (sresp sb) = Some VEmpty ->
  nth_error (chans s1) (sresp sb) = Some (VBatch b) -> b = sres sb.
Proof.
  intros H Hc Hb. inversion H; subst; sproj; try congruence;
    rewrite nth_error_upd_eq in Hb by (eapply nth_error_lt; eauto); congruence.
Qed.

Lemma Inv4_poll_step s p pl t s' :
  Inv1 s -> Inv2 s -> Inv4 s -> nth_error (polls s) p = Some pl -> poll_rel s p pl t s' -> Inv4 s'.
Proof.
  intros HJ HD HI Hp Hr.
  assert (Hgen : forall pc' chs' ws',
            (poll_active {| pid := pid pl; ppc := pc' |} = true -> poll_active pl = true) ->
            (forall sb, pc' = LSending sb -> sres sb = []) ->
            (forall q b, nth_error chs' q = Some (VBatch b) -> nth_error (chans s) q = Some (VBatch b)) ->
            (ws' = works s \/ exists f, ws' = works s ++ [ {| wf := f; wsub := None |} ]) ->
            forall s', caches s' = caches s -> delivered s' = delivered s -> works s' = ws' -> chans s' = chs' ->
                       polls s' = upd p {| pid := pid pl; ppc := pc' |} (polls s) -> Inv4 s').
  { intros pc' chs' ws' Hact Hpc Hch Hws s0 Ec Ed Ew Ech Epl.
    apply (Inv4_transfer s s0 HI Ec Ed); rewrite ?Ew, ?Ech.
    - intros q ql' b Hq Ha Hb. rewrite Epl in Hq. apply Hch in Hb. upd_cases Hq.
      + exists pl. auto.
      + exists ql'. auto.
    - intros q ql sb Hq Hs. rewrite Epl in Hq. upd_cases Hq.
      + right. cbn in Hs. auto.
      + left. eauto.
    - intros w wk sb Hw Hs Ha. left.
      assert (Ha' : active_at s (sresp sb) = true) by (eapply active_at_upd; eauto).
      destruct Hws as [->|(f & ->)]; [eauto|]. snoc_cases Hw; [eauto|discriminate]. }
  assert (Hact : forall pc', (exists x, ppc pl = x /\ poll_active {| pid := pid pl; ppc := x |} = true) ->
                 poll_active {| pid := pid pl; ppc := pc' |} = true -> poll_active pl = true).
  { intros pc' (x & Hx & Ha) _. unfold poll_active in *. rewrite Hx. exact Ha. }
  inversion Hr; subst; clear Hr.
  - eapply (Hgen LPopSig (chans s) (works s)); eauto; try reflexivity; try discriminate.
  - eapply (Hgen LPopSig (upd r VNil (chans s)) (works s)); eauto; try reflexivity; try discriminate.
    intros q b Hq. upd_cases Hq; [discriminate|auto].
  - eapply (Hgen LSend (chans s) (works s)); eauto; try reflexivity; try discriminate.
  - eapply (Hgen (LSending (sub0 (pid pl) p)) (chans s) (works s)); eauto; try reflexivity.
    intros sb E. inversion E. reflexivity.
  - (* sending *)
    destruct (sub_rel_hw _ _ _ _ (o_hw s HI) H0) as (Hle & Ed & Hhw & Hcont).
    destruct (sub_rel_eff _ _ _ _ H0) as (Ep & Er & Ew & Ec & Eo).
    pose proof (i_pc s HJ _ _ Hp) as Hreq. rewrite H in Hreq. cbn in Hreq. destruct Hreq as (Hc & Hsid & Hrs & Hpb).
    assert (Hlive : forall e, In e (sres sb) -> hw_ok (caches s) e) by (intros; eapply o_psub; eauto).
    assert (Hactm : forall r, active_at (set_poll s1 p (pid pl)
              (match o with SCont sb' => LSending sb' | SFin true => LRecv | SFin false => LUpsert end)) r = true ->
              active_at s r = true).
    { intros r. eapply (active_at_upd s p pl
         (match o with SCont sb' => LSending sb' | SFin true => LRecv | SFin false => LUpsert end) r _ Hp eq_refl).
      - intros _. unfold poll_active. rewrite H. reflexivity.
      - sproj. rewrite Ep. reflexivity. }
    constructor; sproj; rewrite ?Ed; auto.
    + intros q ql b e Hq Ha Hb Hin. rewrite Ep in Hq.
      destruct Ec as [(Ec & _)|(v & Hc' & Ec & Hv & Ho)]; rewrite Ec in Hb.
      * eapply hw_ok_mono; [exact Hle|]. upd_cases Hq; [congruence|]. eapply o_chan; eauto.
      * rewrite Hrs in *. destruct (Nat.eq_dec p q) as [<-|Hne].
        -- assert (b = sres sb).
           { eapply (sub_rel_batch s sb s1 o); eauto; rewrite Hrs; [exact Hc|rewrite Ec; exact Hb]. }
           subst b. eapply hw_ok_mono; [exact Hle|]. auto.
        -- rewrite nth_error_upd_neq in Hb by exact Hne. rewrite nth_error_upd_neq in Hq by exact Hne.
           eapply hw_ok_mono; [exact Hle|]. eapply o_chan; eauto.
    + intros q ql sb0 e Hq Hs Hin. rewrite Ep in Hq. upd_cases Hq.
      * cbn in Hs. destruct o as [sb'|[|]]; try discriminate. inversion Hs; subst. eapply Hcont; eauto.
      * eapply hw_ok_mono; [exact Hle|]. eapply o_psub; eauto.
    + intros w wk sb0 e Hw Hs Ha Hin. apply Hactm in Ha. eapply hw_ok_mono; [exact Hle|].
      destruct Ew as [Ew|(f & Ew)]; rewrite Ew in Hw; [eapply o_wsub; eauto|].
      snoc_cases Hw; [eapply o_wsub; eauto|discriminate].
  - eapply (Hgen (LDone RNil) (upd p VEmpty (chans s)) (works s)); eauto; try reflexivity; try discriminate.
    intros q b0 Hq. upd_cases Hq; [discriminate|auto].
  - (* recv_batch *)
    pose proof (t_chan s HD _ _ _ Hp H0) as [Hb1 Hb2].
    assert (Hpa : poll_active pl = true) by (unfold poll_active; destruct H as [-> |[-> | ->]]; reflexivity).
    assert (Hblive : forall e, In e b -> hw_ok (caches s) e) by (intros; eapply o_chan; eauto).
    destruct (deliver_spec (pid pl) b (caches s) (delivered s) (o_hw s HI) Hb1 Hb2 Hblive) as [Hhw' Hsame].
    (* no other live entry is for a cache of this batch *)
    assert (Hkeep : forall e' id', ent_ok (caches s) id' e' -> hw_ok (caches s) e' ->
              (id' = pid pl -> False) -> hw_ok (fst (deliver (pid pl) b (caches s) (delivered s))) e').
    { intros e' id' (ca' & pre' & post' & Hc' & Ho' & _) (ca2 & Hc2 & Hd2) Hne.
      exists ca2. split; [|exact Hd2]. rewrite Hsame; [exact Hc2|].
      intros e Hin Heq. eapply Forall_forall in Hb1; [|exact Hin].
      destruct Hb1 as (ca & _ & _ & Hc & Ho & _). rewrite Heq, Hc' in Hc. inversion Hc; subst ca'.
      rewrite Ho in Ho'. inversion Ho'. auto. }
    assert (Hfree : free s p) by (eapply free_of_nonempty; eauto; discriminate).
    constructor; sproj; auto.
    + intros q ql b0 e Hq Ha Hb Hin. upd_cases Hb; [discriminate|]. upd_cases Hq; [congruence|].
      pose proof (t_chan s HD _ _ _ Hq Hb) as [Hq1 _]. eapply Forall_forall in Hq1; [|exact Hin].
      eapply Hkeep; eauto; [eapply o_chan; eauto|].
      intros Hid. apply Heq0. symmetry. eapply (i_uniq s HJ q p); eauto.
    + intros q ql sb0 e Hq Hs Hin. upd_cases Hq; [discriminate|].
      pose proof (t_psub s HD _ _ _ Hq Hs) as (_ & Hq1 & _). eapply Forall_forall in Hq1; [|exact Hin].
      pose proof (i_pc s HJ _ _ Hq) as Hreq. rewrite Hs in Hreq. cbn in Hreq. destruct Hreq as (_ & Hsid & _).
      eapply Hkeep; eauto; [eapply o_psub; eauto|].
      intros Hid. apply Heq. symmetry. eapply (i_uniq s HJ q p); eauto; [congruence|].
      unfold poll_active. rewrite Hs. reflexivity.
    + intros w wk sb0 e Hw Hs Ha Hin.
      assert (Ha' : active_at s (sresp sb0) = true).
      { revert Ha. apply (active_at_upd s p pl (LDone (RBatch b)) (sresp sb0) _ Hp eq_refl); [discriminate|reflexivity]. }
      pose proof (t_wsub s HD _ _ _ Hw Hs) as (_ & Hq1 & _). eapply Forall_forall in Hq1; [|exact Hin].
      destruct (i_held s HJ _ _ _ Hw Hs) as (plr & A & B & C & D & E).
      eapply Hkeep; eauto; [eapply o_wsub; eauto|].
      intros Hid.
      assert (sresp sb0 = p).
      { eapply (i_uniq s HJ (sresp sb0) p); eauto; [congruence|].
        unfold active_at in Ha'. rewrite A in Ha'. exact Ha'. }
      destruct Hfree as [_ Hf2]. eapply Hf2; eauto.
  - eapply (Hgen LWait (chans s) (works s)); eauto; try reflexivity; try discriminate.
  - eapply (Hgen LWait (upd r VNil (chans s)) (works s)); eauto; try reflexivity; try discriminate.
    intros q b Hq. upd_cases Hq; [discriminate|auto].
  - eapply (Hgen (LDone RTimeout) (chans s)); eauto; try reflexivity; try discriminate.
  - eapply (Hgen LTimedOut (chans s) (works s)); eauto; try reflexivity; try discriminate.
  - eapply (Hgen (LDone RTimeout) (chans s)); eauto; try reflexivity; try discriminate.
Qed.

Lemma Inv4_work_step s w wk t s' :
  Inv1 s -> Inv2 s -> Inv4 s -> nth_error (works s) w = Some wk -> work_rel s w wk t s' -> Inv4 s'.
Proof.
  intros HJ HD HI Hw Hr.
  assert (Hgen : forall f' sbo chs',
            (forall sb, sbo = Some sb -> sres sb = [] \/ wsub wk = Some sb) ->
            (forall q b, nth_error chs' q = Some (VBatch b) -> nth_error (chans s) q = Some (VBatch b)) ->
            forall s', caches s' = caches s -> delivered s' = delivered s -> polls s' = polls s -> chans s' = chs' ->
                       works s' = upd w {| wf := f'; wsub := sbo |} (works s) -> Inv4 s').
  { intros f' sbo chs' Hsb Hch s0 Ec Ed Ep Ech Ew.
    assert (Hact : forall r, active_at s0 r = active_at s r) by (intros r; unfold active_at; rewrite Ep; reflexivity).
    apply (Inv4_transfer s s0 HI Ec Ed); rewrite ?Ep, ?Ech.
    - intros q ql' b Hq Ha Hb. apply Hch in Hb. eauto.
    - intros q ql sb Hq Hs. left. eauto.
    - intros w0 wk0 sb Hw0 Hs Ha. rewrite Hact in Ha. rewrite Ew in Hw0. upd_cases Hw0.
      + cbn in Hs. destruct (Hsb _ Hs) as [E|E]; [right; exact E|left; eauto].
      + left. eauto. }
  inversion Hr; subst; clear Hr.
  - eapply (Hgen (wf wk) None (chans s)); eauto; try reflexivity; discriminate.
  - eapply (Hgen (wf wk) None (upd (sresp sb) VNil (chans s))); eauto; try reflexivity; try discriminate.
    intros q b Hq. upd_cases Hq; [discriminate|auto].
  - (* sub *)
    destruct (sub_rel_hw _ _ _ _ (o_hw s HI) H1) as (Hle & Ed & Hhw & Hcont).
    destruct (sub_rel_eff _ _ _ _ H1) as (Ep & Er & Ew & Ec & Eo).
    destruct (i_held s HJ _ _ _ Hw H) as (plr & A' & B' & C' & D' & E').
    assert (Hact : forall r s0, polls s0 = polls s1 -> active_at s0 r = active_at s r)
      by (intros r s0 E0; unfold active_at; rewrite E0, Ep; reflexivity).
    constructor; sproj; rewrite ?Ed; auto.
    + intros q ql b e Hq Ha Hb Hin. rewrite Ep in Hq.
      destruct Ec as [(Ec & _)|(v & Hc' & Ec & Hv & Ho)]; rewrite Ec in Hb.
      * eapply hw_ok_mono; [exact Hle|]. eapply o_chan; eauto.
      * destruct (Nat.eq_dec (sresp sb) q) as [<-|Hne].
        -- assert (b = sres sb).
           { eapply (sub_rel_batch s sb s1 o); eauto. rewrite Ec. exact Hb. }
           subst b. eapply hw_ok_mono; [exact Hle|]. eapply o_wsub; eauto.
           unfold active_at. rewrite Hq. exact Ha.
        -- rewrite nth_error_upd_neq in Hb by exact Hne.
           eapply hw_ok_mono; [exact Hle|]. eapply o_chan; eauto.
    + intros q ql sb0 e Hq Hs Hin. rewrite Ep in Hq. eapply hw_ok_mono; [exact Hle|]. eapply o_psub; eauto.
    + intros w0 wk0 sb0 e Hw0 Hs Ha Hin. unfold active_at in Ha; sproj; rewrite ?Ep in Ha;
        change (active_at s (sresp sb0) = true) in Ha.
      upd_cases Hw0.
      * cbn in Hs. destruct o as [sb'|[|]]; try discriminate; inversion Hs; subst.
        -- destruct (Eo sb0 eq_refl) as (X & Y & Z). rewrite Y in Ha.
           eapply Hcont; eauto. intros e0 Hin0. eapply o_wsub; eauto.
        -- cbn in Ha, Hin. eapply hw_ok_mono; [exact Hle|]. eapply o_wsub; eauto.
      * eapply hw_ok_mono; [exact Hle|].
        destruct Ew as [Ew|(f & Ew)]; rewrite Ew in Hw0; [eapply o_wsub; eauto|].
        snoc_cases Hw0; [eapply o_wsub; eauto|discriminate].
  - eapply (Hgen f' None (chans s)); eauto; try reflexivity; discriminate.
  - (* append *)
    set (ca' := {| cown := cown ca; cmsgs := cmsgs ca ++ [m]; ctaken := ctaken ca; cdel := cdel ca |}).
    assert (Hle : cd_le (caches s) (upd c ca' (caches s))).
    { eapply cd_le_upd; eauto. exists []. cbn. rewrite app_nil_r. reflexivity. }
    assert (Hact : forall r s0, polls s0 = polls s -> active_at s0 r = active_at s r)
      by (intros r s0 E0; unfold active_at; rewrite E0; reflexivity).
    destruct HI as [A B C D].
    constructor; sproj.
    + intros c0 cb Hcb. upd_cases Hcb; [|auto]. apply (A _ _ H1).
    + intros q ql b e Hq Ha Hb Hin. eapply hw_ok_mono; eauto.
    + intros q ql sb0 e Hq Hs Hin. eapply hw_ok_mono; eauto.
    + intros w0 wk0 sb0 e Hw0 Hs Ha Hin. unfold active_at in Ha; sproj;
        change (active_at s (sresp sb0) = true) in Ha.
      upd_cases Hw0; [discriminate|]. eapply hw_ok_mono; eauto.
  - eapply (Hgen f' None (chans s)); eauto; try reflexivity; discriminate.
  - eapply (Hgen f' (Some (sub0 id r)) (chans s)); eauto; try reflexivity.
    intros sb E. inversion E. left. reflexivity.
  - eapply (Hgen (WSub id tp SubLoad) None (chans s)); eauto; try reflexivity; discriminate.
  - (* store *)
    pose proof (cd_le_snoc (caches s) {| cown := (id, tp); cmsgs := []; ctaken := []; cdel := 0 |}) as Hle.
    assert (Hact : forall r s0, polls s0 = polls s -> active_at s0 r = active_at s r)
      by (intros r s0 E0; unfold active_at; rewrite E0; reflexivity).
    destruct HI as [A B C D].
    constructor; sproj.
    + intros c0 cb Hcb. snoc_cases Hcb; [auto|]. split; [cbn; lia|]. cbn.
      rewrite dmsgs_nil_fresh; [constructor|].
      intros id0 e Hin Heq. destruct (t_del s HD _ _ Hin) as (ca0 & _ & _ & Hc0 & _).
      apply nth_error_lt in Hc0. lia.
    + intros q ql b e Hq Ha Hb Hin. eapply hw_ok_mono; eauto.
    + intros q ql sb0 e Hq Hs Hin. eapply hw_ok_mono; eauto.
    + intros w0 wk0 sb0 e Hw0 Hs Ha Hin. unfold active_at in Ha; sproj;
        change (active_at s (sresp sb0) = true) in Ha.
      upd_cases Hw0; [discriminate|]. eapply hw_ok_mono; eauto.
  - eapply (Hgen (WOff id todo res OffResp) None (chans s)); eauto; try reflexivity; discriminate.
  - eapply (Hgen (WHb id sg HbWait) None (chans s)); eauto; try reflexivity; discriminate.
Qed.

Lemma Inv4_step s t s' : Inv1 s -> Inv2 s -> Inv4 s -> step_rel s t s' -> Inv4 s'.
Proof.
  intros HJ HD HI H. inversion H; subst.
  - apply (Inv4_transfer s _ HI); sproj; try reflexivity.
    + intros q ql' b Hq Ha Hb. eauto.
    + intros q ql sb Hq Hs. left. eauto.
    + intros w wk sb Hw Hs Ha. left. snoc_cases Hw; [eauto|discriminate].
  - apply (Inv4_transfer s _ HI); sproj; try reflexivity.
    + intros q ql' b Hq Ha Hb. snoc_cases Hq.
      * snoc_cases Hb; [eauto|discriminate].
      * snoc_cases Hb; [|discriminate]. pose proof (i_len s HJ). lia.
    + intros q ql sb Hq Hs. left. snoc_cases Hq; [eauto|discriminate].
    + intros w wk sb Hw Hs Ha. left. exists wk. repeat split; auto.
      unfold active_at in *. sproj.
      destruct (nth_error (polls s ++ [{| pid := id; ppc := LPopOld |}]) (sresp sb)) as [pl|] eqn:E; [|discriminate].
      destruct (i_held s HJ _ _ _ Hw Hs) as (plr & A & _). rewrite (nth_error_snoc_old _ _ _ _ A) in E.
      inversion E; subst. rewrite A. exact Ha.
  - eapply Inv4_poll_step; eauto.
  - eapply Inv4_work_step; eauto.
Qed.

Record InvAll (s : state) : Prop := { ia1 : Inv1 s; ia2 : Inv2 s; ia4 : Inv4 s }.

Lemma InvAll_step s t s' : InvAll s -> step_rel s t s' -> InvAll s'.
Proof.
  intros [A B C] H. constructor; [eapply Inv1_step|eapply Inv2_step|eapply Inv4_step]; eauto.
Qed.

Lemma InvAll_reach s : reach s -> InvAll s.
Proof.
  induction 1; [constructor; [apply Inv1_init|apply Inv2_init|apply Inv4_init]|eapply InvAll_step; eauto].
Qed.
