(* LeastActive and WeightedLeastActive (C18): the pick has the fewest calls in flight, the
   counters are exactly the in-flight counts (so they return to zero), index validity,
   admissible sets. *)
From Coq Require Import List ZArith Bool Lia.
From HV Require Import Model.Balance Proofs.BalanceBase Proofs.BalanceEff Proofs.BalanceWRand.
Import ListNotations.
Open Scope Z_scope.

Lemma nth_error_firstn_some {A} : forall n (l : list A) j x,
  nth_error (firstn n l) j = Some x -> (j < n)%nat /\ nth_error l j = Some x.
Proof.
  induction n as [|n IH]; intros [|y l] [|j] x H; cbn in H; try discriminate.
  - injection H as ->. split; [lia|reflexivity].
  - apply IH in H. destruct H. split; [lia|assumption].
Qed.

Lemma nth_error_firstn_lt {A} : forall n (l : list A) j, (j < n)%nat ->
  nth_error (firstn n l) j = nth_error l j.
Proof.
  induction n as [|n IH]; intros [|y l] [|j] H; cbn; try lia; try reflexivity. apply IH. lia.
Qed.

Lemma nth_error_repeat0 : forall n j, (j < n)%nat -> nth_error (repeat 0 n) j = Some 0.
Proof. induction n as [|n IH]; intros [|j] H; cbn; try lia; try reflexivity. apply IH. lia. Qed.

(* ---- the candidate scan -------------------------------------------------------- *)
Lemma eq_indexes_spec : forall k i a least, (k <= length a)%nat ->
  exists l, eq_indexes k i a least = Ok l /\
    forall j, In j l <-> ((i <= j < i + k)%nat /\ nth_error a (j - i) = Some least).
Proof.
  induction k as [|k IH]; intros i a least Hk; cbn [eq_indexes].
  - exists []. split; [reflexivity|]. intros j. split; [intros []|intros [H _]; lia].
  - destruct a as [|x r]; [cbn in Hk; lia|].
    destruct (IH (S i) r least ltac:(cbn in Hk; lia)) as (t & Et & Ht). rewrite Et. cbn [bind].
    exists (if x =? least then i :: t else t). split; [reflexivity|]. intros j.
    destruct (x =? least) eqn:E; [apply Z.eqb_eq in E|apply Z.eqb_neq in E].
    + subst x. split.
      * intros [<-|Hj].
        -- split; [lia|]. rewrite Nat.sub_diag. reflexivity.
        -- apply Ht in Hj. destruct Hj as [Hr Hn]. split; [lia|].
           replace (j - i)%nat with (S (j - S i)) by lia. exact Hn.
      * intros [Hr Hn]. destruct (Nat.eq_dec j i) as [->|Hne]; [left; reflexivity|right].
        apply Ht. split; [lia|]. replace (j - i)%nat with (S (j - S i)) in Hn by lia. exact Hn.
    + split.
      * intros Hj. apply Ht in Hj. destruct Hj as [Hr Hn]. split; [lia|].
        replace (j - i)%nat with (S (j - S i)) by lia. exact Hn.
      * intros [Hr Hn]. destruct (Nat.eq_dec j i) as [->|Hne].
        -- rewrite Nat.sub_diag in Hn. cbn in Hn. congruence.
        -- apply Ht. split; [lia|]. replace (j - i)%nat with (S (j - S i)) in Hn by lia. exact Hn.
Qed.

Lemma la_least_firstn n a : (n <= length a)%nat -> la_least n a = zmin (firstn n a).
Proof.
  intros H. unfold la_least. destruct (Nat.ltb n (length a)) eqn:E; [reflexivity|].
  apply Nat.ltb_ge in E. assert (n = length a) by lia. subst n. rewrite firstn_all. reflexivity.
Qed.

Lemma la_candidates_spec n a : (1 <= n <= length a)%nat ->
  exists cands, la_candidates n a = Ok cands /\ cands <> [] /\
    (forall j, In j cands <-> ((j < n)%nat /\ nth_error a j = Some (la_least n a))) /\
    (forall j x, (j < n)%nat -> nth_error a j = Some x -> la_least n a <= x).
Proof.
  intros Hn. unfold la_candidates.
  destruct (eq_indexes_spec n 0 a (la_least n a) ltac:(lia)) as (l & El & Hl).
  assert (Hin : forall j, In j l <-> ((j < n)%nat /\ nth_error a j = Some (la_least n a))).
  { intros j. rewrite Hl, Nat.sub_0_r. split; intros [H1 H2]; split; auto; lia. }
  assert (Hne : firstn n a <> []).
  { intros E. apply (f_equal (@length Z)) in E. rewrite firstn_length_le in E by lia. cbn in E. lia. }
  pose proof (zmin_spec (firstn n a) Hne) as [Hmin Hle]. rewrite <- la_least_firstn in * by lia.
  exists l. split; [exact El|]. split; [|split; [exact Hin|]].
  - destruct (In_nth_error _ _ Hmin) as [j Hj]. apply nth_error_firstn_some in Hj.
    intros E. assert (In j l) by (apply Hin; exact Hj). rewrite E in *. contradiction.
  - intros j x Hj Hx. apply Hle. apply (nth_error_In _ j). rewrite nth_error_firstn_lt by exact Hj. exact Hx.
Qed.

Lemma choose_sound cands r : cands <> [] ->
  match choose cands r with
  | Ok c => In c cands
  | BadScript => True
  | _ => False
  end.
Proof.
  intros Hne. destruct cands as [|c0 t]; [congruence|]. unfold choose.
  destruct (Nat.ltb 1 (length (c0 :: t))); [|left; reflexivity].
  pose proof (rand_intn_cases (length (c0 :: t)) r) as H.
  destruct (rand_intn (length (c0 :: t)) r) as [j| | |]; cbn [bind]; try exact I; try exact H.
  - destruct H as [Hj _]. destruct (nth_error (c0 :: t) j) as [c|] eqn:E.
    + eapply nth_error_In. exact E.
    + apply nth_error_None in E. lia.
  - cbn in H. lia.
Qed.

Lemma pos_of_spec x : forall l, In x l -> (pos_of x l < length l)%nat /\ nth_error l (pos_of x l) = Some x.
Proof.
  induction l as [|y l IH]; intros H; [destruct H|]. cbn [pos_of].
  destruct (Nat.eqb_spec x y) as [->|Hne]; [split; [cbn; lia|reflexivity]|].
  destruct H as [->|H]; [congruence|]. destruct (IH H) as [H1 H2]. split; [cbn; lia|exact H2].
Qed.

Lemma choose_complete cands c : In c cands -> choose cands (Z.of_nat (pos_of c cands)) = Ok c.
Proof.
  intros Hin. destruct (pos_of_spec c cands Hin) as [Hp Hn].
  destruct cands as [|c0 t]; [destruct Hin|]. unfold choose.
  destruct (Nat.ltb 1 (length (c0 :: t))) eqn:E.
  - unfold rand_intn. cbn [length Nat.eqb].
    assert (E2 : in_range (Z.of_nat (length (c0 :: t))) (Z.of_nat (pos_of c (c0 :: t))) = true)
      by (apply in_range_spec; lia).
    cbn [length] in E2. rewrite E2, Nat2Z.id. cbn [bind]. rewrite Hn. reflexivity.
  - apply Nat.ltb_ge in E. cbn [length] in E. assert (t = []) by (destruct t; [reflexivity|cbn in E; lia]).
    subst t. destruct Hin as [->|[]]. reflexivity.
Qed.

(* ---- counters that track the calls in flight -------------------------------------- *)
Definition tracks (n : nat) (a : list Z) (calls : list (option nat)) : Prop :=
  length a = n /\ forall j, (j < n)%nat -> nth_error a j = Some (Z.of_nat (cnt j calls)).

Lemma add_at_ok a i d x : nth_error a i = Some x -> add_at a i d = Ok (upd_nth i (x + d) a).
Proof. intros H. unfold add_at. rewrite H. reflexivity. Qed.

Lemma tracks_inc n a calls i : tracks n a calls -> (i < n)%nat ->
  exists a', add_at a i 1 = Ok a' /\ tracks n a' (calls ++ [Some i]).
Proof.
  intros [Hl Ht] Hi. rewrite (add_at_ok a i 1 _ (Ht i Hi)). eexists. split; [reflexivity|].
  split; [rewrite upd_nth_length; exact Hl|]. intros j Hj. rewrite cnt_app. cbn [cnt].
  destruct (Nat.eq_dec i j) as [<-|Hne].
  - rewrite nth_error_upd_nth_same by lia. rewrite Nat.eqb_refl. f_equal. lia.
  - rewrite nth_error_upd_nth_other by exact Hne. rewrite Ht by exact Hj.
    apply Nat.eqb_neq in Hne. rewrite Hne. f_equal. lia.
Qed.

Lemma tracks_dec n a calls k i : tracks n a calls -> nth_error calls k = Some (Some i) -> (i < n)%nat ->
  exists a', add_at a i (-1) = Ok a' /\ tracks n a' (upd_nth k None calls).
Proof.
  intros [Hl Ht] Hk Hi. rewrite (add_at_ok a i (-1) _ (Ht i Hi)). eexists. split; [reflexivity|].
  split; [rewrite upd_nth_length; exact Hl|]. intros j Hj.
  pose proof (cnt_upd_none j calls k i Hk) as Hc.
  destruct (Nat.eq_dec i j) as [<-|Hne].
  - rewrite nth_error_upd_nth_same by lia. rewrite Nat.eqb_refl in Hc. f_equal. lia.
  - rewrite nth_error_upd_nth_other by exact Hne. rewrite Ht by exact Hj.
    apply Nat.eqb_neq in Hne. rewrite Hne in Hc. f_equal. lia.
Qed.

Lemma tracks_quiescent n a calls : tracks n a calls -> all_finished calls -> Forall (fun x => x = 0) a.
Proof.
  intros [Hl Ht] Hf. apply Forall_forall. intros x Hx. destruct (In_nth_error _ _ Hx) as [j Hj].
  assert (Hjn : (j < n)%nat) by (rewrite <- Hl; apply nth_error_Some; congruence).
  rewrite (Ht j Hjn) in Hj. injection Hj as <-. rewrite cnt_all_finished by exact Hf. reflexivity.
Qed.

(* ---- LeastActive --------------------------------------------------------------------- *)
Definition la_inv (n : nat) (a : list Z) (calls : list (option nat)) : Prop :=
  calls_lt n calls /\ ((a = [] /\ forall j, cnt j calls = O) \/ tracks n a calls).

Lemma la_prepare_tracks n a calls : (1 <= n)%nat -> la_inv n a calls -> tracks n (la_prepare n a) calls.
Proof.
  intros Hn [_ [[-> Hz]|Ht]]; unfold la_prepare.
  - cbn [length]. assert (E : Nat.ltb 0 n = true) by (apply Nat.ltb_lt; lia). rewrite E.
    cbn [app]. rewrite Nat.sub_0_r.
    split; [apply repeat_length|]. intros j Hj. rewrite nth_error_repeat0 by exact Hj. rewrite Hz. reflexivity.
  - destruct Ht as [Hl Ht]. rewrite Hl, Nat.ltb_irrefl. split; assumption.
Qed.

(* the in-flight count of server j, read off the history *)
Definition least_in_flight (n : nat) (calls : list (option nat)) (i : nat) : Prop :=
  forall j, (j < n)%nat -> (cnt i calls <= cnt j calls)%nat.

Lemma la_start_ok n a calls r : (1 <= n)%nat -> la_inv n a calls ->
  match la_start n a r with
  | Ok (i, a') => (i < n)%nat /\ la_inv n a' (calls ++ [Some i]) /\ least_in_flight n calls i
  | BadScript => True
  | _ => False
  end.
Proof.
  intros Hn HI. pose proof (la_prepare_tracks n a calls Hn HI) as Ht. destruct HI as [Hc _].
  unfold la_start, la_select. set (p := la_prepare n a) in *. destruct Ht as [Hl Ht].
  destruct (la_candidates_spec n p ltac:(lia)) as (cands & Ec & Hne & Hin & Hmin). rewrite Ec. cbn [bind].
  pose proof (choose_sound cands r Hne) as Hch.
  destruct (choose cands r) as [i| | |]; cbn [bind]; try exact Hch.
  apply Hin in Hch. destruct Hch as [Hi Hleast].
  unfold url_at_nat. apply Nat.ltb_lt in Hi. rewrite Hi. apply Nat.ltb_lt in Hi. cbn [bind].
  destruct (tracks_inc n p calls i (conj Hl Ht) Hi) as (a' & Ea & Ht'). rewrite Ea. cbn [bind].
  split; [exact Hi|]. split.
  - split; [apply calls_lt_app; assumption|right; exact Ht'].
  - intros j Hj. pose proof (Hmin j _ Hj (Ht j Hj)) as Hle.
    rewrite (Ht i Hi) in Hleast. injection Hleast as Hleast. lia.
Qed.

Lemma la_finish_ok n a calls k i o : la_inv n a calls -> nth_error calls k = Some (Some i) ->
  exists a', la_finish a i o = Ok a' /\ la_inv n a' (upd_nth k None calls).
Proof.
  intros [Hc Hs] Hk. pose proof (Hc k i Hk) as Hi. unfold la_finish.
  destruct Hs as [[-> Hz]|Ht].
  - exfalso. pose proof (cnt_upd_none i calls k i Hk) as H. rewrite Nat.eqb_refl, Hz in H. lia.
  - destruct (tracks_dec n a calls k i Ht Hk Hi) as (a' & Ea & Ht'). exists a'. split; [exact Ea|].
    split; [apply calls_lt_upd; exact Hc|right; exact Ht'].
Qed.

(* every history of starts and finishes (any interleaving, any outcomes, any rand values) *)
Lemma la_history n : (1 <= n)%nat -> forall h,
  match run (la_machine n) [] [] h with
  | Ok (ps, (a, calls)) => Forall (fun i => (i < n)%nat) ps /\ la_inv n a calls
  | BadScript => True
  | _ => False
  end.
Proof.
  intros Hn h.
  pose proof (run_safe (la_machine n) (la_inv n) n) as R.
  specialize (R ltac:(
    intros a calls r HI; cbn [m_pick la_machine]; pose proof (la_start_ok n a calls r Hn HI) as H;
    destruct (la_start n a r) as [[i a']| | |]; try exact H; destruct H as (H1 & H2 & _); split; assumption)).
  specialize (R ltac:(
    intros a calls k i o HI Hk; cbn [m_settle la_machine];
    destruct (la_finish_ok n a calls k i o HI Hk) as (a' & E & HI'); rewrite E; exact HI')).
  specialize (R h [] [] ltac:(split; [apply calls_lt_nil|left; split; [reflexivity|reflexivity]])).
  exact R.
Qed.

(* when every call has finished -- with a result, an error or a panic -- all counters are 0 *)
Lemma la_conserved n a calls : la_inv n a calls -> all_finished calls -> Forall (fun x => x = 0) a.
Proof.
  intros [_ [[-> _]|Ht]] Hf; [constructor|]. eapply tracks_quiescent; eauto.
Qed.

(* admissible set of LeastActive: exactly the candidates *)
Lemma la_select_complete n a cands c : la_candidates n a = Ok cands -> In c cands ->
  la_select n a (Z.of_nat (pos_of c cands)) = Ok c.
Proof. intros E Hin. unfold la_select. rewrite E. cbn [bind]. apply choose_complete. exact Hin. Qed.

(* ---- WeightedLeastActive ---------------------------------------------------------------- *)
Definition wsum (eff : list Z) (cs : list nat) : Z := lsum (map (fun c => nth c eff 0) cs).

Lemma wla_scan1_spec : forall k i act eff least, (k <= length act)%nat -> (k <= length eff)%nat ->
  exists cands total, wla_scan1 k i act eff least = Ok (cands, total) /\
    (forall j, In j cands <-> ((i <= j < i + k)%nat /\ nth_error act (j - i) = Some least)) /\
    total = lsum (map (fun j => nth (j - i) eff 0) cands).
Proof.
  induction k as [|k IH]; intros i act eff least Ha He; cbn [wla_scan1].
  - exists [], 0. split; [reflexivity|]. split; [|reflexivity].
    intros j. split; [intros []|intros [H _]; lia].
  - destruct act as [|x ar]; [cbn in Ha; lia|]. destruct eff as [|e er]; [cbn in He; lia|].
    cbn [tl]. destruct (IH (S i) ar er least ltac:(cbn in Ha; lia) ltac:(cbn in He; lia)) as (t & tot & Et & Ht & Htot).
    rewrite Et. assert (Hmap : map (fun j => nth (j - i) (e :: er) 0) t = map (fun j => nth (j - S i) er 0) t).
    { apply map_ext_in. intros j Hj. apply Ht in Hj. destruct Hj as [Hr _].
      replace (j - i)%nat with (S (j - S i)) by lia. reflexivity. }
    destruct (x =? least) eqn:E; [apply Z.eqb_eq in E|apply Z.eqb_neq in E].
    + subst x. cbn [bind fst snd]. exists (i :: t), (e + tot). split; [reflexivity|]. split.
      * intros j. split.
        -- intros [<-|Hj].
           ++ split; [lia|]. rewrite Nat.sub_diag. reflexivity.
           ++ apply Ht in Hj. destruct Hj as [Hr Hn]. split; [lia|].
              replace (j - i)%nat with (S (j - S i)) by lia. exact Hn.
        -- intros [Hr Hn]. destruct (Nat.eq_dec j i) as [->|Hne]; [left; reflexivity|right].
           apply Ht. split; [lia|]. replace (j - i)%nat with (S (j - S i)) in Hn by lia. exact Hn.
      * cbn [map]. rewrite Hmap, Nat.sub_diag. cbn [nth]. unfold lsum in *. cbn [fold_right]. lia.
    + exists t, tot. split; [reflexivity|]. split.
      * intros j. split.
        -- intros Hj. apply Ht in Hj. destruct Hj as [Hr Hn]. split; [lia|].
           replace (j - i)%nat with (S (j - S i)) by lia. exact Hn.
        -- intros [Hr Hn]. destruct (Nat.eq_dec j i) as [->|Hne].
           ++ rewrite Nat.sub_diag in Hn. cbn in Hn. congruence.
           ++ apply Ht. split; [lia|]. replace (j - i)%nat with (S (j - S i)) in Hn by lia. exact Hn.
      * rewrite Hmap. exact Htot.
Qed.

Lemma wla_scan2_spec eff : forall cands cw dflt, 0 <= cw ->
  (forall c, In c cands -> exists e, nth_error eff c = Some e /\ 0 <= e) ->
  exists x, wla_scan2 cands eff cw dflt = Ok x /\
    ((x = dflt /\ wsum eff cands <= cw) \/
     (In x cands /\ exists e, nth_error eff x = Some e /\ 0 < e)).
Proof.
  induction cands as [|c r IH]; intros cw dflt Hcw Hall; cbn [wla_scan2].
  - exists dflt. split; [reflexivity|]. left. split; [reflexivity|]. unfold wsum, lsum. cbn. lia.
  - destruct (Hall c (or_introl eq_refl)) as (e & He & Hpos). rewrite He.
    destruct (cw - e <? 0) eqn:E; [apply Z.ltb_lt in E|apply Z.ltb_ge in E].
    + exists c. split; [reflexivity|]. right. split; [left; reflexivity|]. exists e. split; [exact He|lia].
    + destruct (IH (cw - e) dflt E ltac:(intros c' Hc'; apply Hall; right; exact Hc')) as (x & Ex & Hx).
      exists x. split; [exact Ex|]. destruct Hx as [[-> Hle]|[Hin Hp]].
      * left. split; [reflexivity|]. unfold wsum, lsum in *. cbn [map fold_right].
        rewrite (nth_error_nth _ _ _ He). lia.
      * right. split; [right; exact Hin|exact Hp].
Qed.

Definition wla_inv (W : list Z) (s : wla_st) (calls : list (option nat)) : Prop :=
  calls_lt (length W) calls /\ tracks (length W) (wl_act s) calls /\ eff_ok W (wl_eff s).

Lemma eff_ok_lookup W eff c : eff_ok W eff -> (c < length W)%nat ->
  exists e, nth_error eff c = Some e /\ 0 <= e.
Proof.
  intros Hok Hc. destruct (eff_ok_get W eff c Hok Hc) as (e & w & He & _ & Hb). exists e. split; [exact He|lia].
Qed.

(* getIndex with possibly different views of the effective weights in its two read-locked
   sections: whatever they are, the result is a least-active server *)
Lemma wla_get_ok n act eff1 eff2 r W : (1 <= n)%nat -> length act = n -> n = length W ->
  eff_ok W eff1 -> eff_ok W eff2 ->
  match wla_get n act eff1 eff2 r with
  | Ok i => (i < n)%nat /\ nth_error act i = Some (zmin act)
  | BadScript => True
  | _ => False
  end.
Proof.
  intros Hn Hl HnW Hok1 Hok2. unfold wla_get.
  destruct (wla_scan1_spec n 0 act eff1 (zmin act) ltac:(lia) ltac:(destruct Hok1; lia))
    as (cands & total & E & Hin & Htot).
  rewrite E. cbn [bind fst snd].
  assert (Hin' : forall j, In j cands <-> ((j < n)%nat /\ nth_error act j = Some (zmin act))).
  { intros j. rewrite Hin, Nat.sub_0_r. split; intros [H1 H2]; split; auto; lia. }
  assert (Hane : act <> []) by (destruct act; [cbn in Hl; lia|discriminate]).
  destruct (In_nth_error _ _ (proj1 (zmin_spec act Hane))) as [m Hm].
  assert (Hmc : In m cands).
  { apply Hin'. split; [|exact Hm]. rewrite <- Hl. apply nth_error_Some. congruence. }
  destruct cands as [|c0 t] eqn:Ecands; [destruct Hmc|]. rewrite <- Ecands in *.
  assert (Hc0 : In c0 cands) by (rewrite Ecands; left; reflexivity).
  destruct (Nat.leb (length cands) 1); [apply Hin'; exact Hc0|].
  destruct (total <=? 0).
  - pose proof (rand_intn_cases (length cands) r) as H.
    destruct (rand_intn (length cands) r) as [j| | |]; cbn [bind]; try exact I; try exact H.
    + destruct H as [Hj _]. destruct (nth_error cands j) as [c|] eqn:Ej.
      * apply Hin'. eapply nth_error_In. exact Ej.
      * apply nth_error_None in Ej. lia.
    + rewrite Ecands in H. cbn in H. lia.
  - destruct (in_range total r) eqn:Er; [|exact I]. apply in_range_spec in Er.
    destruct (wla_scan2_spec eff2 cands r c0 ltac:(lia)) as (x & Ex & Hx).
    { intros c Hc. apply Hin' in Hc. destruct Hc as [Hc _]. apply (eff_ok_lookup W); [exact Hok2|lia]. }
    rewrite Ex. destruct Hx as [[-> _]|[Hx _]]; apply Hin'; assumption.
Qed.

Lemma wla_pick_ok W s calls r : (1 <= length W)%nat -> wla_inv W s calls ->
  match wla_pick s r with
  | Ok (i, s') => (i < length W)%nat /\ wla_inv W s' (calls ++ [Some i]) /\
                  least_in_flight (length W) calls i /\ wl_eff s' = wl_eff s
  | BadScript => True
  | _ => False
  end.
Proof.
  intros Hn (Hc & [Hl Ht] & Hok). unfold wla_pick.
  assert (Hle : length (wl_eff s) = length W) by (destruct Hok; assumption). rewrite Hle.
  pose proof (wla_get_ok (length W) (wl_act s) (wl_eff s) (wl_eff s) r W Hn Hl eq_refl Hok Hok) as H.
  destruct (wla_get (length W) (wl_act s) (wl_eff s) (wl_eff s) r) as [i| | |]; cbn [bind]; try exact H.
  destruct H as [Hi Hmin]. unfold url_at_nat. apply Nat.ltb_lt in Hi. rewrite Hi. apply Nat.ltb_lt in Hi.
  cbn [bind]. destruct (tracks_inc _ _ calls i (conj Hl Ht) Hi) as (a' & Ea & Ht'). rewrite Ea. cbn [bind].
  split; [exact Hi|]. split; [|split; [|reflexivity]].
  - split; [apply calls_lt_app; assumption|]. split; [exact Ht'|exact Hok].
  - intros j Hj.
    assert (Hane : wl_act s <> []) by (destruct (wl_act s); [cbn in Hl; lia|discriminate]).
    pose proof (proj2 (zmin_spec _ Hane) _ (nth_error_In _ _ (Ht j Hj))) as Hle2.
    rewrite (Ht i Hi) in Hmin. injection Hmin as Hmin. lia.
Qed.

Lemma wla_settle_ok W s calls k i o : wla_inv W s calls -> nth_error calls k = Some (Some i) ->
  exists s', wla_settle W s i o = Ok s' /\ wla_inv W s' (upd_nth k None calls) /\
    exists e w, nth_error (wl_eff s) i = Some e /\ nth_error W i = Some w /\
                nth_error (wl_eff s') i = Some (eff_next o e w).
Proof.
  intros (Hc & Ht & Hok) Hk. pose proof (Hc k i Hk) as Hi. unfold wla_settle.
  destruct (tracks_dec _ _ calls k i Ht Hk Hi) as (a' & Ea & Ht'). rewrite Ea. cbn [bind].
  destruct (eff_update_ok W (wl_eff s) i o Hok Hi) as (e & w & eff' & He & Hw & Eu & Hok' & Hn & _).
  rewrite Eu. cbn [bind]. eexists. split; [reflexivity|]. split.
  - split; [apply calls_lt_upd; exact Hc|]. split; [exact Ht'|exact Hok'].
  - exists e, w. auto.
Qed.

Lemma wla_new_inv ws s : wla_new ws = Ok s ->
  Forall (fun w => 0 < w) ws /\ s = {| wl_act := map (fun _ => 0) ws; wl_eff := ws |}.
Proof.
  unfold wla_new. intros H. apply bind_ok in H. destruct H as (w & Hw & H).
  apply mk_weighted_ok in Hw. destruct Hw as [-> Hpos]. injection H as <-. auto.
Qed.

Lemma wla_init_inv ws : Forall (fun w => 0 < w) ws ->
  wla_inv ws {| wl_act := map (fun _ => 0) ws; wl_eff := ws |} [].
Proof.
  intros Hpos. split; [apply calls_lt_nil|]. split; [|apply eff_ok_init; exact Hpos]. cbn [wl_act].
  split; [apply map_length|]. intros j Hj. rewrite nth_error_map.
  destruct (nth_error ws j) eqn:E; [reflexivity|]. apply nth_error_None in E. lia.
Qed.

Lemma wla_history ws s0 : ws <> [] -> wla_new ws = Ok s0 -> forall h,
  match run (wla_machine ws) s0 [] h with
  | Ok (ps, (s, calls)) => Forall (fun i => (i < length ws)%nat) ps /\ wla_inv ws s calls
  | BadScript => True
  | _ => False
  end.
Proof.
  intros Hne Hnew h. apply wla_new_inv in Hnew. destruct Hnew as [Hpos ->].
  assert (Hn : (1 <= length ws)%nat) by (destruct ws; [congruence|cbn; lia]).
  pose proof (run_safe (wla_machine ws) (wla_inv ws) (length ws)) as R.
  specialize (R ltac:(
    intros s calls r HI; cbn [m_pick wla_machine]; pose proof (wla_pick_ok ws s calls r Hn HI) as H;
    destruct (wla_pick s r) as [[i s']| | |]; try exact H; destruct H as (H1 & H2 & _); split; assumption)).
  specialize (R ltac:(
    intros s calls k i o HI Hk; cbn [m_settle wla_machine];
    destruct (wla_settle_ok ws s calls k i o HI Hk) as (s' & E & HI' & _); rewrite E; exact HI')).
  exact (R h _ [] (wla_init_inv ws Hpos)).
Qed.

(* the admissible set of WeightedLeastActive is sound: whatever rand returns, the pick is in it *)
Lemma wla_pick_sound W s calls r : (1 <= length W)%nat -> wla_inv W s calls ->
  match wla_pick s r with
  | Ok (i, _) => exists adm, wla_admissible s = Ok adm /\ In i adm
  | _ => True
  end.
Proof.
  intros Hn (Hc & [Hl Ht] & Hok). unfold wla_pick, wla_admissible, wla_get.
  assert (Hle : length (wl_eff s) = length W) by (destruct Hok; assumption). rewrite Hle.
  destruct (wla_scan1_spec (length W) 0 (wl_act s) (wl_eff s) (zmin (wl_act s)) ltac:(lia) ltac:(lia))
    as (cands & total & E & Hin & Htot).
  rewrite E. cbn [bind fst snd].
  destruct cands as [|c0 t] eqn:Ecands; [exact I|]. rewrite <- Ecands in *.
  assert (Hc0 : In c0 cands) by (rewrite Ecands; left; reflexivity).
  assert (Hlt : forall c, In c cands -> (c < length W)%nat).
  { intros c Hcc. apply Hin in Hcc. lia. }
  assert (Hfin : forall i, In i cands ->
            match bind (url_at_nat (length W) i) (fun _ => bind (add_at (wl_act s) i 1)
                    (fun a => Ok (i, {| wl_act := a; wl_eff := wl_eff s |}))) with
            | Ok (i', _) => i' = i | _ => True end).
  { intros i Hi. unfold url_at_nat. destruct (Nat.ltb i (length W)); cbn [bind]; [|exact I].
    destruct (add_at (wl_act s) i 1); cbn [bind]; auto. }
  destruct (Nat.leb (length cands) 1).
  - cbn [bind]. specialize (Hfin c0 Hc0).
    destruct (bind (url_at_nat (length W) c0) _) as [[i' s']| | |]; try exact I. subst i'.
    eexists. split; [reflexivity|]. left. reflexivity.
  - destruct (total <=? 0) eqn:Etot.
    + destruct (rand_intn (length cands) r) as [j| | |]; cbn [bind]; try exact I.
      destruct (nth_error cands j) as [c|] eqn:Ej; cbn [bind]; [|exact I].
      pose proof (nth_error_In _ _ Ej) as Hcin. specialize (Hfin c Hcin).
      destruct (bind (url_at_nat (length W) c) _) as [[i' s']| | |]; try exact I. subst i'.
      eexists. split; [reflexivity|]. exact Hcin.
    + apply Z.leb_gt in Etot. destruct (in_range total r) eqn:Er; [|exact I]. apply in_range_spec in Er.
      destruct (wla_scan2_spec (wl_eff s) cands r c0 ltac:(lia)) as (x & Ex & Hx).
      { intros c Hcc. apply (eff_ok_lookup W); [exact Hok|apply Hlt; exact Hcc]. }
      rewrite Ex. cbn [bind]. destruct Hx as [[-> Hbad]|[Hx (e & He & Hpos)]].
      * exfalso. unfold wsum in Hbad.
        assert (Em : map (fun c => nth c (wl_eff s) 0) cands = map (fun j => nth (j - 0) (wl_eff s) 0) cands)
          by (apply map_ext; intros; rewrite Nat.sub_0_r; reflexivity).
        rewrite Em, <- Htot in Hbad. lia.
      * specialize (Hfin x Hx).
        destruct (bind (url_at_nat (length W) x) _) as [[i' s']| | |]; try exact I. subst i'.
        eexists. split; [reflexivity|]. apply filter_In. split; [exact Hx|]. rewrite He. apply Z.ltb_lt. exact Hpos.
Qed.

(* ... and complete: every admissible index is returned for the rand value wla_oracle names *)
Lemma weight_before_nonneg eff x : forall cands,
  (forall c, In c cands -> exists e, nth_error eff c = Some e /\ 0 <= e) -> 0 <= weight_before x cands eff.
Proof.
  induction cands as [|c r IH]; intros Hall; cbn [weight_before]; [lia|].
  destruct (Nat.eqb x c); [lia|].
  destruct (Hall c (or_introl eq_refl)) as (e & He & Hp). rewrite He.
  specialize (IH ltac:(intros c' Hc'; apply Hall; right; exact Hc')). lia.
Qed.

Lemma weight_before_bound eff x e : forall cands, In x cands -> nth_error eff x = Some e ->
  (forall c, In c cands -> exists e', nth_error eff c = Some e' /\ 0 <= e') ->
  weight_before x cands eff + e <= wsum eff cands.
Proof.
  induction cands as [|c r IH]; intros Hin He Hall; [destruct Hin|]. cbn [weight_before].
  unfold wsum, lsum in *. cbn [map fold_right].
  destruct (Nat.eqb_spec x c) as [->|Hne].
  - rewrite (nth_error_nth _ _ _ He).
    assert (0 <= fold_right Z.add 0 (map (fun c0 => nth c0 eff 0) r)); [|lia].
    apply (lsum_nonneg (map (fun c0 => nth c0 eff 0) r)). apply Forall_forall. intros y Hy.
    apply in_map_iff in Hy. destruct Hy as (c' & <- & Hc').
    destruct (Hall c' (or_intror Hc')) as (e' & He' & Hp). rewrite (nth_error_nth _ _ _ He'). exact Hp.
  - destruct Hin as [->|Hin]; [congruence|].
    destruct (Hall c (or_introl eq_refl)) as (ec & Hec & Hp). rewrite Hec, (nth_error_nth _ _ _ Hec).
    specialize (IH Hin He ltac:(intros c' Hc'; apply Hall; right; exact Hc')). lia.
Qed.

Lemma wla_scan2_complete eff x e dflt : forall cands, In x cands -> nth_error eff x = Some e -> 0 < e ->
  (forall c, In c cands -> exists e', nth_error eff c = Some e' /\ 0 <= e') ->
  wla_scan2 cands eff (weight_before x cands eff) dflt = Ok x.
Proof.
  induction cands as [|c r IH]; intros Hin He Hpos Hall; [destruct Hin|]. cbn [wla_scan2 weight_before].
  destruct (Nat.eqb_spec x c) as [->|Hne].
  - rewrite He. assert (E : (0 - e <? 0) = true) by (apply Z.ltb_lt; lia). rewrite E. reflexivity.
  - destruct Hin as [->|Hin]; [congruence|].
    destruct (Hall c (or_introl eq_refl)) as (ec & Hec & Hp). rewrite Hec.
    pose proof (weight_before_nonneg eff x r ltac:(intros c' Hc'; apply Hall; right; exact Hc')) as Hnn.
    assert (E : (ec + weight_before x r eff - ec <? 0) = false) by (apply Z.ltb_ge; lia). rewrite E.
    replace (ec + weight_before x r eff - ec) with (weight_before x r eff) by lia.
    apply IH; auto. intros c' Hc'. apply Hall. right. exact Hc'.
Qed.

Lemma wla_pick_complete W s calls adm i : (1 <= length W)%nat -> wla_inv W s calls ->
  wla_admissible s = Ok adm -> In i adm -> exists s', wla_pick s (wla_oracle s i) = Ok (i, s').
Proof.
  intros Hn (Hc & [Hl Ht] & Hok) Ha Hi. unfold wla_pick, wla_admissible, wla_oracle, wla_get in *.
  assert (Hle : length (wl_eff s) = length W) by (destruct Hok; assumption). rewrite Hle in *.
  destruct (wla_scan1_spec (length W) 0 (wl_act s) (wl_eff s) (zmin (wl_act s)) ltac:(lia) ltac:(lia))
    as (cands & total & E & Hin & Htot).
  rewrite E in *. cbn [bind fst snd] in *.
  destruct cands as [|c0 t] eqn:Ecands; [discriminate|]. rewrite <- Ecands in *.
  assert (Hc0 : In c0 cands) by (rewrite Ecands; left; reflexivity).
  assert (Hlt : forall c, In c cands -> (c < length W)%nat).
  { intros c Hcc. apply Hin in Hcc. lia. }
  assert (Hlook : forall c, In c cands -> exists e', nth_error (wl_eff s) c = Some e' /\ 0 <= e').
  { intros c Hcc. apply (eff_ok_lookup W); [exact Hok|apply Hlt; exact Hcc]. }
  assert (Hfin : forall c, In c cands -> exists s',
            bind (url_at_nat (length W) c) (fun _ => bind (add_at (wl_act s) c 1)
                    (fun a => Ok (c, {| wl_act := a; wl_eff := wl_eff s |}))) = Ok (c, s')).
  { intros c Hcc. pose proof (Hlt c Hcc) as Hcl. unfold url_at_nat.
    apply Nat.ltb_lt in Hcl. rewrite Hcl. apply Nat.ltb_lt in Hcl. cbn [bind].
    destruct (tracks_inc _ _ calls c (conj Hl Ht) Hcl) as (a' & Ea & _). rewrite Ea. cbn [bind]. eauto. }
  assert (Etot : total = wsum (wl_eff s) cands).
  { unfold wsum. rewrite Htot. f_equal. apply map_ext. intros. rewrite Nat.sub_0_r. reflexivity. }
  destruct (Nat.leb (length cands) 1).
  - injection Ha as <-. destruct Hi as [<-|[]]. cbn [bind]. apply Hfin. exact Hc0.
  - destruct (total <=? 0) eqn:Et.
    + injection Ha as <-. destruct (pos_of_spec i cands Hi) as [Hp Hnth].
      unfold rand_intn. destruct (Nat.eqb (length cands) 0) eqn:E0; [apply Nat.eqb_eq in E0; lia|].
      assert (E2 : in_range (Z.of_nat (length cands)) (Z.of_nat (pos_of i cands)) = true)
        by (apply in_range_spec; lia).
      rewrite E2, Nat2Z.id. cbn [bind]. rewrite Hnth. cbn [bind]. apply Hfin. exact Hi.
    + apply Z.leb_gt in Et. injection Ha as <-. apply filter_In in Hi. destruct Hi as [Hi Hpos].
      destruct (nth_error (wl_eff s) i) as [e|] eqn:He; [|discriminate]. apply Z.ltb_lt in Hpos.
      pose proof (weight_before_nonneg (wl_eff s) i cands Hlook) as H0.
      pose proof (weight_before_bound (wl_eff s) i e cands Hi He Hlook) as H1.
      assert (E2 : in_range total (weight_before i cands (wl_eff s)) = true) by (apply in_range_spec; lia).
      rewrite E2. rewrite (wla_scan2_complete (wl_eff s) i e c0 cands Hi He Hpos Hlook). cbn [bind].
      apply Hfin. exact Hi.
Qed.
