(* C19: what is "on its way to a poll that will read it" ([live]), as list algebra, and the
   shape of a send call. *)
From Coq Require Import List ZArith Bool Arith Lia Permutation.
From HV Require Import Model.Push Proofs.PushBase Proofs.PushInv Proofs.PushData Proofs.PushOrder.
Import ListNotations.

(* ------------------------------------------------------------------ shape of a send call *)

Definition sub_shape (sb : subst) : Prop :=
  (spc sb = SLoad -> sres sb = []) /\
  (ssize sb = 0 -> sres sb = []) /\
  (forall k c, spc sb = STake k c -> ssize sb <> 0) /\
  (spc sb = RPutBack -> sres sb = []).

Record Inv5 (s : state) : Prop := {
  s_wsub : forall w wk sb, nth_error (works s) w = Some wk -> wsub wk = Some sb -> sub_shape sb;
  s_psub : forall p pl sb, nth_error (polls s) p = Some pl -> ppc pl = LSending sb -> sub_shape sb
}.

Lemma sub_shape_sub0 id r : sub_shape (sub0 id r).
Proof. repeat split; cbn; auto; discriminate. Qed.

Lemma sub_rel_shape s sb s1 o : sub_shape sb -> sub_rel s sb s1 o ->
  (forall sb', o = SCont sb' -> sub_shape sb') /\
  (o = SFin false -> sres sb = []) /\
  (forall v, nth_error (chans s) (sresp sb) = Some VEmpty -> nth_error (chans s1) (sresp sb) = Some v ->
             v = VNil -> sres sb = []).
Proof.
  intros (A & B & C & D) H. inversion H; subst; sproj.
  - split; [|split; [discriminate|intros; congruence]].
    intros sb' E; inversion E; subst. repeat split; cbn; auto; discriminate.
  - split; [discriminate|]. split; [discriminate|]. intros v _ _ _.
    destruct H0 as [(E & _)|(_ & _ & E)]; auto.
  - split; [discriminate|]. split; [auto|intros; congruence].
  - split; [discriminate|]. split; [discriminate|].
    intros v Hc Hv ->. rewrite nth_error_upd_eq in Hv by (eapply nth_error_lt; eauto). discriminate.
  - split; [|split; [discriminate|intros; congruence]].
    intros sb' E; inversion E; subst. repeat split; cbn; auto; try discriminate.
  - split; [|split; [discriminate|intros; congruence]].
    intros sb' E; inversion E; subst. repeat split; cbn; auto; try discriminate.
  - split; [|split; [discriminate|intros; congruence]].
    intros sb' E; inversion E; subst. repeat split; cbn; auto; try discriminate.
    intros Hz. elim (C _ _ H0 Hz).
Qed.

Lemma Inv5_init b : Inv5 (init_of b).
Proof.
  constructor; cbn; intros;
    match goal with H : nth_error [] ?x = Some _ |- _ => destruct x; discriminate end.
Qed.

Lemma Inv5_step s t s' : Inv5 s -> step_rel s t s' -> Inv5 s'.
Proof.
  intros [A B] H. inversion H; subst.
  - constructor; sproj; [|exact B].
    intros w wk sb Hw Hs. snoc_cases Hw; [eauto|discriminate].
  - constructor; sproj; [exact A|].
    intros p pl sb Hp Hs. snoc_cases Hp; [eauto|discriminate].
  - (* poll *)
    assert (Hgen : forall pc' s0, (forall sb, pc' = LSending sb -> sub_shape sb) ->
              (works s0 = works s \/ exists f, works s0 = works s ++ [ {| wf := f; wsub := None |} ]) ->
              polls s0 = upd p {| pid := pid pl; ppc := pc' |} (polls s) -> Inv5 s0).
    { intros pc' s0 Hpc Hws Hps. constructor.
      - intros w wk sb Hw Hs. destruct Hws as [E|(f & E)]; rewrite E in Hw; [eauto|].
        snoc_cases Hw; [eauto|discriminate].
      - intros q ql sb Hq Hs. rewrite Hps in Hq. upd_cases Hq; [cbn in Hs; auto|eauto]. }
    inversion H1; subst;
      try solve [eapply Hgen; sproj; [idtac|idtac|reflexivity]; [intros sb E; discriminate|eauto]].
    + apply (Hgen (LSending (sub0 (pid pl) p))); sproj;
        [intros sb E; inversion E; apply sub_shape_sub0|left; reflexivity|reflexivity].
    + destruct (sub_rel_shape _ _ _ _ (B _ _ _ H0 H2) H3) as (X & _).
      destruct (sub_rel_eff _ _ _ _ H3) as (Ep & Er & Ew & Ec & Eo).
      apply (Hgen (match o with SCont sb' => LSending sb' | SFin true => LRecv | SFin false => LUpsert end)); sproj.
      * intros sb0 E. destruct o as [sb'|[|]]; try discriminate. inversion E; subst. auto.
      * destruct Ew as [Ew|(f & Ew)]; rewrite Ew; eauto.
      * rewrite Ep. reflexivity.
  - (* work *)
    assert (Hgen : forall f' sbo s0, (forall sb, sbo = Some sb -> sub_shape sb) ->
              polls s0 = polls s -> (exists ws, (ws = works s \/ exists f, ws = works s ++ [ {| wf := f; wsub := None |} ]) /\
              works s0 = upd w {| wf := f'; wsub := sbo |} ws) -> Inv5 s0).
    { intros f' sbo s0 Hsb Hps (ws & Hws & Ew). constructor.
      - intros w0 wk0 sb Hw Hs. rewrite Ew in Hw. upd_cases Hw; [cbn in Hs; auto|].
        destruct Hws as [->|(f & ->)]; [eauto|]. snoc_cases Hw; [eauto|discriminate].
      - intros q ql sb Hq Hs. rewrite Hps in Hq. eauto. }
    inversion H1; subst;
      try solve [eapply Hgen; sproj; [idtac|reflexivity|exists (works s); split; [left; reflexivity|reflexivity]]; discriminate].
    + destruct (sub_rel_shape _ _ _ _ (A _ _ _ H0 H2) H4) as (X & Y & _).
      destruct (sub_rel_eff _ _ _ _ H4) as (Ep & Er & Ew & Ec & Eo).
      eapply Hgen; sproj; [idtac|exact Ep|exists (works s1); split; [|reflexivity]].
      * intros sb0 E. destruct o as [sb'|[|]]; try discriminate; inversion E; subst; auto.
        destruct (A _ _ _ H0 H2) as (P & Q & R & S). repeat split; cbn; auto; try discriminate.
      * destruct Ew as [Ew|(f & Ew)]; rewrite Ew; eauto.
    + eapply Hgen; sproj; [idtac|reflexivity|exists (works s); split; [left; reflexivity|reflexivity]].
      intros sb E. inversion E. apply sub_shape_sub0.
Qed.

(* ------------------------------------------------------------------ flat_mapi *)

Lemma flat_mapi_eq {A B} (f g : nat -> A -> list B) : forall l l' k,
  length l' = length l ->
  (forall i x', nth_error l' i = Some x' -> exists x, nth_error l i = Some x /\ g (k + i) x' = f (k + i) x) ->
  flat_mapi g k l' = flat_mapi f k l.
Proof.
  induction l as [|x l IH]; intros [|x' l'] k Hl H; cbn in Hl; try discriminate; [reflexivity|].
  cbn [flat_mapi]. f_equal.
  - destruct (H 0 x' eq_refl) as (y & Hy & E). cbn in Hy. inversion Hy; subst. rewrite Nat.add_0_r in E. exact E.
  - apply IH; [lia|]. intros i y' Hi. destruct (H (S i) y' Hi) as (y & Hy & E). exists y. split; [exact Hy|].
    replace (S k + i) with (k + S i) by lia. exact E.
Qed.

Lemma flat_mapi_snoc {A B} (f : nat -> A -> list B) : forall l k x,
  flat_mapi f k (l ++ [x]) = flat_mapi f k l ++ f (k + length l) x.
Proof.
  induction l as [|y l IH]; intros k x; cbn [flat_mapi app length].
  - rewrite Nat.add_0_r, app_nil_r. reflexivity.
  - rewrite IH. replace (S k + length l) with (k + S (length l)) by lia. rewrite app_assoc. reflexivity.
Qed.

Lemma flat_mapi_nil {A B} (f : nat -> A -> list B) : forall l k,
  (forall i x, nth_error l i = Some x -> f (k + i) x = []) -> flat_mapi f k l = [].
Proof.
  induction l as [|x l IH]; intros k H; cbn [flat_mapi]; [reflexivity|].
  rewrite (IH (S k)).
  - specialize (H 0 x eq_refl). rewrite Nat.add_0_r in H. rewrite H. reflexivity.
  - intros i y Hi. replace (S k + i) with (k + S i) by lia. apply H. exact Hi.
Qed.

(* the contribution of one index, and the rest *)
Lemma flat_mapi_split {A B} (f : nat -> A -> list B) : forall l k i x,
  nth_error l i = Some x ->
  exists R1 R2, flat_mapi f k l = R1 ++ f (k + i) x ++ R2 /\
    forall (g : nat -> A -> list B) x',
      (forall j y, j <> i -> nth_error l j = Some y -> g (k + j) y = f (k + j) y) ->
      flat_mapi g k (upd i x' l) = R1 ++ g (k + i) x' ++ R2.
Proof.
  induction l as [|y l IH]; intros k i x Hi; [destruct i; discriminate|].
  destruct i as [|i]; cbn in Hi.
  - inversion Hi; subst. exists [], (flat_mapi f (S k) l). cbn [flat_mapi app upd]. rewrite Nat.add_0_r.
    split; [reflexivity|].
    intros g x' Hg. f_equal. apply flat_mapi_eq; [reflexivity|].
    intros j z Hj. exists z. split; [exact Hj|]. replace (S k + j) with (k + S j) by lia.
    apply Hg; [lia|exact Hj].
  - destruct (IH (S k) i x Hi) as (R1 & R2 & E & Hg).
    exists (f k y ++ R1), R2. cbn [flat_mapi upd]. split.
    + rewrite E. replace (S k + i) with (k + S i) by lia. rewrite <- app_assoc. reflexivity.
    + intros g x' Hgg. rewrite (Hg g x').
      * specialize (Hgg 0 y ltac:(lia) eq_refl). rewrite Nat.add_0_r in Hgg. rewrite Hgg.
        replace (S k + i) with (k + S i) by lia. rewrite <- app_assoc. reflexivity.
      * intros j z Hj Hz. replace (S k + j) with (k + S j) by lia. apply Hgg; [lia|exact Hz].
Qed.

Lemma flat_map_mapi {A B} (f : A -> list B) l : forall k, flat_map f l = flat_mapi (fun _ => f) k l.
Proof. induction l as [|x l IH]; intros k; cbn; [reflexivity|]. rewrite (IH (S k)). reflexivity. Qed.

(* ------------------------------------------------------------------ ents *)

Lemma ents_app c b1 b2 : ents c (b1 ++ b2) = ents c b1 ++ ents c b2.
Proof. unfold ents. apply flat_map_app. Qed.

Lemma ents_nil_other c b : (forall e, In e b -> e_cache e <> c) -> ents c b = [].
Proof.
  induction b as [|e b IH]; intros H; cbn; [reflexivity|].
  destruct (Nat.eqb (e_cache e) c) eqn:E.
  - apply Nat.eqb_eq in E. elim (H e); auto. left; reflexivity.
  - apply IH. intros e' Hin. apply H. right; exact Hin.
Qed.

Lemma dmsgs_pairs c id b : dmsgs c (map (pair id) b) = ents c b.
Proof.
  induction b as [|e b IH]; cbn; [reflexivity|].
  destruct (Nat.eqb (e_cache e) c); rewrite IH; reflexivity.
Qed.

Definition LPc (s : state) (c : nat) : list Z := flat_mapi (live_poll s c) 0 (polls s).
Definition LWc (s : state) (c : nat) : list Z := flat_map (live_work s c) (works s).

Lemma live_split s c : live s c = LPc s c ++ LWc s c.
Proof. reflexivity. Qed.

(* pointwise equal contributions *)
Lemma LPc_same s s' c :
  length (polls s') = length (polls s) ->
  (forall q ql', nth_error (polls s') q = Some ql' ->
     exists ql, nth_error (polls s) q = Some ql /\ live_poll s' c q ql' = live_poll s c q ql) ->
  LPc s' c = LPc s c.
Proof. intros Hl H. unfold LPc. apply flat_mapi_eq; auto. Qed.

Lemma LWc_same s s' c :
  length (works s') = length (works s) ->
  (forall w wk', nth_error (works s') w = Some wk' ->
     exists wk, nth_error (works s) w = Some wk /\ live_work s' c wk' = live_work s c wk) ->
  LWc s' c = LWc s c.
Proof.
  intros Hl H. unfold LWc. rewrite (flat_map_mapi _ _ 0), (flat_map_mapi _ (works s) 0).
  apply flat_mapi_eq; auto.
Qed.

Lemma LWc_snoc s s' c f :
  works s' = works s ++ [ {| wf := f; wsub := None |} ] ->
  (forall wk, In wk (works s) -> live_work s' c wk = live_work s c wk) ->
  LWc s' c = LWc s c.
Proof.
  intros E H. unfold LWc. rewrite E, flat_map_app. cbn. rewrite !app_nil_r.
  revert H. generalize (works s) as l. induction l as [|x l IH]; intros H; cbn; [reflexivity|].
  rewrite H by (left; reflexivity). f_equal. apply IH. intros wk Hin. apply H. right; exact Hin.
Qed.

(* one poll changes its contribution *)
Lemma LPc_change s s' c p pl pl' :
  nth_error (polls s) p = Some pl -> polls s' = upd p pl' (polls s) ->
  (forall q ql, q <> p -> nth_error (polls s) q = Some ql -> live_poll s' c q ql = live_poll s c q ql) ->
  exists R1 R2, LPc s c = R1 ++ live_poll s c p pl ++ R2 /\ LPc s' c = R1 ++ live_poll s' c p pl' ++ R2.
Proof.
  intros Hp Ep Hq. unfold LPc. rewrite Ep.
  destruct (flat_mapi_split (live_poll s c) (polls s) 0 p pl Hp) as (R1 & R2 & E & Hg).
  exists R1, R2. split; [exact E|]. apply (Hg (live_poll s' c) pl'). intros j y Hj Hy. cbn. eapply Hq; eauto.
Qed.

Lemma LWc_change s s' c w wk wk' :
  nth_error (works s) w = Some wk -> works s' = upd w wk' (works s) ->
  (forall q qk, q <> w -> nth_error (works s) q = Some qk -> live_work s' c qk = live_work s c qk) ->
  exists R1 R2, LWc s c = R1 ++ live_work s c wk ++ R2 /\ LWc s' c = R1 ++ live_work s' c wk' ++ R2.
Proof.
  intros Hw Ew Hq. unfold LWc. rewrite Ew.
  rewrite (flat_map_mapi _ (works s) 0), (flat_map_mapi _ (upd w wk' (works s)) 0).
  destruct (flat_mapi_split (fun _ => live_work s c) (works s) 0 w wk Hw) as (R1 & R2 & E & Hg).
  exists R1, R2. split; [exact E|]. apply (Hg (fun _ => live_work s' c) wk'). intros j y Hj Hy. cbn. eapply Hq; eauto.
Qed.
