(* C19: what is "on its way to a poll that will read it" ([live]), as list algebra, and the
   shape of a send call. *)
From Coq Require Import List ZArith Bool Arith Lia Permutation.
From HV Require Import Model.Push Proofs.PushBase Proofs.PushInv Proofs.PushData Proofs.PushOrder.
Import ListNotations.

(* ------------------------------------------------------------------ shape of a send call *)

Definition sub_shape (sb : subst) : Prop :=
  (spc sb = SLoad -> sres sb = []) /\
  (ssize sb = 0 -> sres sb = []) /\
  (forall k c, spc sb = STake k c -> ssize sb <> 0) /\
  (spc sb = RPutBack -> sres sb = []).

Record Inv5 (s : state) : Prop := {
  s_wsub : forall w wk sb, nth_error (works s) w = Some wk -> wsub wk = Some sb -> sub_shape sb;
  s_psub : forall p pl sb, nth_error (polls s) p = Some pl -> ppc pl = LSending sb -> sub_shape sb
}.

Lemma sub_shape_sub0 id r : sub_shape (sub0 id r).
Proof. repeat split; cbn; auto; discriminate. Qed.

Lemma sub_rel_shape s sb s1 o : sub_shape sb -> sub_rel s sb s1 o ->
  (forall sb', o = SCont sb' -> sub_shape sb') /\
  (o = SFin false -> sres sb = []) /\
  (forall v, nth_error (chans s) (sresp sb) = Some VEmpty -> nth_error (chans s1) (sresp sb) = Some v ->
             v = VNil -> sres sb = []).
Proof.
  intros (A & B & C & D) H. inversion H; subst; sproj.
  - split; [|split; [discriminate|intros; congruence]].
    intros sb' E; inversion E; subst. repeat split; cbn; auto; discriminate.
  - split; [discriminate|]. split; [discriminate|]. intros v _ _ _.
    destruct H0 as [(E & _)|(_ & _ & E)]; auto.
  - split; [discriminate|]. split; [auto|intros; congruence].
  - split; [discriminate|]. split; [discriminate|].
    intros v Hc Hv ->. rewrite nth_error_upd_eq in Hv by (eapply nth_error_lt; eauto). discriminate.
  - split; [|split; [discriminate|intros; congruence]].
    intros sb' E; inversion E; subst. repeat split; cbn; auto; try discriminate.
  - split; [|split; [discriminate|intros; congruence]].
    intros sb' E; inversion E; subst. repeat split; cbn; auto; try discriminate.
    intros k0 c0 _. discriminate.
  - split; [|split; [discriminate|intros; congruence]].
    intros sb' E; inversion E; subst. repeat split; cbn; auto; try discriminate.
    intros Hz. elim (C _ _ H0 Hz).
Qed.

Lemma Inv5_init : Inv5 init.
Proof.
  constructor; cbn; intros;
    match goal with H : nth_error [] ?x = Some _ |- _ => destruct x; discriminate end.
Qed.

Lemma Inv5_step s t s' : Inv5 s -> step_rel s t s' -> Inv5 s'.
Proof.
  intros [A B] H. inversion H; subst.
  - constructor; sproj; [|exact B].
    intros w wk sb Hw Hs. snoc_cases Hw; [eauto|discriminate].
  - constructor; sproj; [exact A|].
    intros p pl sb Hp Hs. snoc_cases Hp; [eauto|discriminate].
  - (* poll *)
    assert (Hgen : forall pc' s0, (forall sb, pc' = LSending sb -> sub_shape sb) ->
              (works s0 = works s \/ exists f, works s0 = works s ++ [ {| wf := f; wsub := None |} ]) ->
              polls s0 = upd p {| pid := pid pl; ppc := pc' |} (polls s) -> Inv5 s0).
    { intros pc' s0 Hpc Hws Hps. constructor.
      - intros w wk sb Hw Hs. destruct Hws as [E|(f & E)]; rewrite E in Hw; [eauto|].
        snoc_cases Hw; [eauto|discriminate].
      - intros q ql sb Hq Hs. rewrite Hps in Hq. upd_cases Hq; [cbn in Hs; auto|eauto]. }
    inversion H1; subst; try solve [eapply Hgen; sproj; eauto; try discriminate; intros sb E; discriminate].
    + eapply Hgen; sproj; eauto. intros sb E. inversion E. apply sub_shape_sub0.
    + destruct (sub_rel_shape _ _ _ _ (B _ _ _ H0 H2) H3) as (X & _).
      destruct (sub_rel_eff _ _ _ _ H3) as (Ep & Er & Ew & Ec & Eo).
      eapply Hgen; sproj; eauto.
      * intros sb0 E. destruct o as [sb'|[|]]; try discriminate. inversion E; subst. auto.
      * destruct Ew as [Ew|(f & Ew)]; rewrite Ew; eauto.
      * rewrite Ep. reflexivity.
    + eapply Hgen; sproj; eauto. intros sb E; discriminate.
  - (* work *)
    assert (Hgen : forall f' sbo s0, (forall sb, sbo = Some sb -> sub_shape sb) ->
              polls s0 = polls s -> (exists ws, (ws = works s \/ exists f, ws = works s ++ [ {| wf := f; wsub := None |} ]) /\
              works s0 = upd w {| wf := f'; wsub := sbo |} ws) -> Inv5 s0).
    { intros f' sbo s0 Hsb Hps (ws & Hws & Ew). constructor.
      - intros w0 wk0 sb Hw Hs. rewrite Ew in Hw. upd_cases Hw; [cbn in Hs; auto|].
        destruct Hws as [->|(f & ->)]; [eauto|]. snoc_cases Hw; [eauto|discriminate].
      - intros q ql sb Hq Hs. rewrite Hps in Hq. eauto. }
    inversion H1; subst;
      try solve [eapply Hgen; sproj; eauto; try discriminate; exists (works s); split; [left; reflexivity|reflexivity]].
    + destruct (sub_rel_shape _ _ _ _ (A _ _ _ H0 H2) H4) as (X & Y & _).
      destruct (sub_rel_eff _ _ _ _ H4) as (Ep & Er & Ew & Ec & Eo).
      eapply Hgen; sproj; eauto.
      * intros sb0 E. destruct o as [sb'|[|]]; try discriminate; inversion E; subst; auto.
        destruct (A _ _ _ H0 H2) as (P & Q & R & S). repeat split; cbn; auto; try discriminate.
      * exists (works s1). split; [|reflexivity]. destruct Ew as [Ew|(f & Ew)]; rewrite Ew; eauto.
    + eapply Hgen; sproj; eauto.
      * intros sb E. inversion E. apply sub_shape_sub0.
      * exists (works s); split; [left; reflexivity|reflexivity].
Qed.
