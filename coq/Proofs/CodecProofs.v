(* Proofs about the codec model (Model/Codec.v):
   A. a message is read back item by item by the reader built on the proved [Wire.parse];
   B. everything the encoder model writes from a fresh state is reference-closed (no back-reference or
      class index leaves its scope), and in simple mode contains no back-reference at all;
   C. request round trip, scope alignment, response round trip (under C01's round-trip statement for the
      abstract io decoder);
   D. the JSON-RPC envelope. *)
From Coq Require Import String.
From Coq Require Import List Arith NArith ZArith Lia Strings.Byte Bool.
From Coq Require Import ZifyN ZifyNat ZifyBool.
From HV Require Import Lib.Dec Lib.Utf8 Model.Wire Model.WireSem Model.Enc Model.Codec
                       Proofs.WireProofs Proofs.EncProofs.
Import ListNotations.
Open Scope N_scope.

(* ================================================================== A. messages are delimited *)

Lemma ptag_cases b : is_ptag b = true -> to_N b = 72 \/ to_N b = 67 \/ to_N b = 82 \/ to_N b = 122.
Proof.
  unfold is_ptag. intros H.
  repeat (apply orb_prop in H; destruct H as [H|H]);
    apply Byte.byte_dec_bl in H; subst b; cbn; auto.
Qed.

Lemma emit_head_ptag w : exists t r, emit w = t :: r /\ is_ptag t = false.
Proof.
  destruct w; cbn [emit]; try (eexists; eexists; split; [reflexivity|reflexivity]).
  exists (digit_of d), []. split; [reflexivity|].
  destruct (is_ptag (digit_of d)) eqn:E; [|reflexivity].
  apply ptag_cases in E. unfold digit_of in E.
  destruct (Byte.of_N (48 + d mod 10)) as [b|] eqn:Eb.
  - apply Byte.to_of_N in Eb. pose proof (N.mod_lt d 10). lia.
  - cbn in E. lia.
Qed.

Definition item_ok (i : item) : bool := match i with ITag t => is_ptag t | IVal w => tok_ok w end.

Lemma parse_items_emit : forall m, forallb item_ok m = true ->
  forall f, (length (emit_items m) <= f)%nat -> parse_items f (emit_items m) = Some m.
Proof.
  induction m as [|i m IH]; intros Hok f Hf; [destruct f; reflexivity|].
  cbn [forallb] in Hok. apply andb_prop in Hok. destruct Hok as [Hi Hm].
  destruct i as [t|w]; cbn [item_ok] in Hi.
  - cbn [emit_items flat_map emit_item app] in *. cbn [length] in Hf.
    destruct f as [|f]; [lia|]. cbn [parse_items]. rewrite Hi.
    fold (emit_items m). rewrite (IH Hm f); [reflexivity|]. fold (emit_items m) in Hf. lia.
  - cbn [emit_items flat_map emit_item] in *. fold (emit_items m) in *.
    destruct (emit_head_ptag w) as (t & r & E & Ht).
    destruct (emit w ++ emit_items m) as [|x l] eqn:El; [rewrite E in El; discriminate|].
    assert (x = t) by (rewrite E in El; inversion El; reflexivity). subst x.
    destruct f as [|f]; [cbn in Hf; lia|]. cbn [parse_items]. rewrite Ht. rewrite <- El.
    pose proof (parse_emit w Hi (emit_items m)) as Hp.
    rewrite (parse_mono _ _ _ Hp (S (length (emit w ++ emit_items m)))).
    + rewrite (IH Hm f); [reflexivity|].
      rewrite <- El in Hf. rewrite app_length in Hf. pose proof (emit_nonempty w). lia.
    + rewrite app_length. pose proof (wsize_le_emit w). lia.
Qed.

Lemma parse_msg_emit m : forallb item_ok m = true -> parse_msg (emit_items m) = Some m.
Proof. intros H. apply parse_items_emit; [exact H | lia]. Qed.

Lemma emit_ops_strip ops : emit_ops ops = emit_items (strip ops).
Proof.
  induction ops as [|o ops IH]; [reflexivity|].
  destruct o; cbn [emit_ops flat_map emit_op strip emit_items emit_item app] in *;
    fold (emit_ops ops); fold (emit_items (strip ops)); rewrite IH; reflexivity.
Qed.

Lemma strip_app a b : strip (a ++ b) = strip a ++ strip b.
Proof.
  induction a as [|o a IH]; [reflexivity|]. destruct o; cbn [app strip]; rewrite IH; reflexivity.
Qed.

(* ================================================================== B. reference scopes *)

Lemma closed_seq_inner ws : forall s,
  (fix go (l : list wire) (s : option (N * N)) : option (N * N) :=
     match l with
     | [] => s
     | x :: t => match s with Some s' => go t (closed x s') | None => None end
     end) ws s = closed_seq ws s.
Proof. induction ws as [|x ws IH]; intros s; cbn; [reflexivity|]. destruct s; [apply IH|reflexivity]. Qed.

Lemma closed_WList ws r c : closed (WList ws) (r, c) = closed_seq ws (Some (r + 1, c)).
Proof. cbn [closed]. apply closed_seq_inner. Qed.
Lemma closed_WMap ws r c : closed (WMap ws) (r, c) = closed_seq ws (Some (r + 1, c)).
Proof. cbn [closed]. apply closed_seq_inner. Qed.
Lemma closed_WObj k ws r c :
  closed (WObj k ws) (r, c) = if k <? c then closed_seq ws (Some (r + 1, c)) else None.
Proof. cbn [closed]. destruct (k <? c); [apply closed_seq_inner|reflexivity]. Qed.
Lemma closed_WClass n fs next r c :
  closed (WClass n fs next) (r, c) = closed next (r + N.of_nat (length fs), c + 1).
Proof. reflexivity. Qed.

Lemma closed_seq_none ws : closed_seq ws None = None.
Proof. destruct ws; reflexivity. Qed.

Lemma closed_seq_app a b s : closed_seq (a ++ b) s = closed_seq b (closed_seq a s).
Proof.
  revert s. induction a as [|x a IH]; intros s; [reflexivity|]. cbn [app closed_seq].
  destruct s; [apply IH|]. rewrite closed_seq_none. reflexivity.
Qed.

Section Closed.
Variable simple : bool.

Record est_ok (st : estate) : Prop := {
  ok_str : forall s k, find_str (srefs st) s = Some k -> k < rlast st;
  ok_ptr : forall a k, find_ptr (prefs st) a = Some k -> k < rlast st;
  ok_cls : forall n k, find_str (cls st) n = Some k -> k < clast st
}.

Definition at_pos (st : estate) (p : N * N) : Prop :=
  snd p = clast st /\ (simple = false -> fst p = rlast st).

Lemma est_ok_init : est_ok einit.
Proof. constructor; intros ? ? H; cbn in H; discriminate. Qed.
Lemma at_pos_init : at_pos einit (0, 0).
Proof. split; reflexivity. Qed.

(* a step that registers one referable item *)
Lemma add_count_ok st n r c : est_ok st -> at_pos st (r, c) ->
  est_ok (add_count simple st n) /\ at_pos (add_count simple st n) (r + n, c).
Proof.
  intros [Hs Hp Hc] [Hc1 Hr1]. unfold add_count. destruct simple eqn:Es.
  - split; [constructor; assumption|]. split; [exact Hc1|intros; congruence].
  - cbn in *. split.
    + constructor; cbn; intros.
      * specialize (Hs _ _ H). lia.
      * specialize (Hp _ _ H). lia.
      * apply (Hc _ _ H).
    + split; cbn; [exact Hc1|]. intros _. rewrite (Hr1 eq_refl). reflexivity.
Qed.

Lemma set_str_ok st s r c : est_ok st -> at_pos st (r, c) ->
  est_ok (set_str simple st s) /\ at_pos (set_str simple st s) (r + 1, c).
Proof.
  intros [Hs Hp Hc] [Hc1 Hr1]. unfold set_str. destruct simple eqn:Es.
  - split; [constructor; assumption|]. split; [exact Hc1|intros; congruence].
  - cbn in *. split.
    + constructor; cbn; intros.
      * destruct (bytes_eqb s0 s); [inversion H; lia|]. specialize (Hs _ _ H). lia.
      * specialize (Hp _ _ H). lia.
      * apply (Hc _ _ H).
    + split; cbn; [exact Hc1|]. intros _. rewrite (Hr1 eq_refl). reflexivity.
Qed.

Lemma set_ptr_ok st a r c : est_ok st -> at_pos st (r, c) ->
  est_ok (set_ptr simple st a) /\ at_pos (set_ptr simple st a) (r + 1, c).
Proof.
  intros [Hs Hp Hc] [Hc1 Hr1]. unfold set_ptr. destruct simple eqn:Es.
  - split; [constructor; assumption|]. split; [exact Hc1|intros; congruence].
  - cbn in *. split.
    + constructor; cbn; intros.
      * specialize (Hs _ _ H). lia.
      * destruct (N.eqb a0 a); [inversion H; lia|]. specialize (Hp _ _ H). lia.
      * apply (Hc _ _ H).
    + split; cbn; [exact Hc1|]. intros _. rewrite (Hr1 eq_refl). reflexivity.
Qed.

Lemma register_ok st rg r c : est_ok st -> at_pos st (r, c) ->
  est_ok (register simple st rg) /\ at_pos (register simple st rg) (r + 1, c).
Proof. destruct rg; cbn [register]; [apply set_ptr_ok | apply add_count_ok]. Qed.

Lemma string_wire_closed s r c : closed (string_wire s) (r, c) = Some (r + 1, c).
Proof. unfold string_wire. destruct (go_utf16Length s <? 0)%Z; reflexivity. Qed.
Lemma string_wire_noref s : has_ref (string_wire s) = false.
Proof. unfold string_wire. destruct (go_utf16Length s <? 0)%Z; reflexivity. Qed.

(* the invariant carried through the encoder *)
Definition good (st' : estate) (w : wire) (p : N * N) : Prop :=
  exists p', closed w p = Some p' /\ est_ok st' /\ at_pos st' p' /\ (simple = true -> has_ref w = false).

Definition good_seq (st' : estate) (ws : list wire) (p : N * N) : Prop :=
  exists p', closed_seq ws (Some p) = Some p' /\ est_ok st' /\ at_pos st' p' /\
             (simple = true -> existsb has_ref ws = false).

Definition rec_closed (rec : estate -> gval -> eres) : Prop :=
  forall st v st' w p, est_ok st -> at_pos st p -> rec st v = EOk st' w -> good st' w p.

Lemma good_intro st w p p' : closed w p = Some p' -> est_ok st -> at_pos st p' ->
  (simple = true -> has_ref w = false) -> good st w p.
Proof. intros H1 H2 H3 H4. exists p'. split; [exact H1|]. split; [exact H2|]. split; [exact H3|exact H4]. Qed.

Lemma good_seq_intro st ws p p' : closed_seq ws (Some p) = Some p' -> est_ok st -> at_pos st p' ->
  (simple = true -> existsb has_ref ws = false) -> good_seq st ws p.
Proof. intros H1 H2 H3 H4. exists p'. split; [exact H1|]. split; [exact H2|]. split; [exact H3|exact H4]. Qed.

Lemma good_same st w p : est_ok st -> at_pos st p -> closed w p = Some p -> has_ref w = false -> good st w p.
Proof. intros Hok Hat Hc Hn. apply (good_intro st w p p Hc Hok Hat). intros _; exact Hn. Qed.

Lemma enc_string_closed st s st' w p : est_ok st -> at_pos st p ->
  enc_string simple st s = (st', w) -> good st' w p.
Proof.
  intros Hok Hat H. unfold enc_string in H.
  destruct (go_utf16Length s =? 0)%Z.
  { inversion H; subst. apply good_same; auto. destruct p; reflexivity. }
  destruct (go_utf16Length s =? 1)%Z.
  { inversion H; subst. apply good_same; auto. destruct p; reflexivity. }
  destruct p as [r c].
  destruct (lookup_str simple st s) as [k|] eqn:El.
  - inversion H; subst. unfold lookup_str in El. destruct simple eqn:Es; [discriminate|].
    exists (r, c). cbn [closed]. destruct Hat as [Hc Hr]. cbn in Hr. rewrite (Hr Es).
    pose proof (ok_str _ Hok _ _ El) as Hk. replace (k <? rlast st') with true by lia.
    split; [reflexivity|]. split; [exact Hok|]. split; [split; [exact Hc|intros _; reflexivity]|].
    intros; congruence.
  - inversion H; subst. destruct (set_str_ok st s r c Hok Hat) as [H1 H2].
    exists (r + 1, c). rewrite string_wire_closed.
    split; [reflexivity|]. split; [exact H1|]. split; [exact H2|]. intros _. apply string_wire_noref.
Qed.

Lemma write_string_closed st s st' w p : est_ok st -> at_pos st p ->
  write_string simple st s = (st', w) -> good st' w p.
Proof.
  intros Hok Hat H. destruct p as [r c]. unfold write_string in H. inversion H; subst.
  destruct (set_str_ok st s r c Hok Hat) as [H1 H2].
  apply (good_intro _ _ _ (r + 1, c)); auto; [apply string_wire_closed|]. intros _. apply string_wire_noref.
Qed.

Lemma enc_seq_closed rec : rec_closed rec -> forall vs st st' ws p,
  est_ok st -> at_pos st p -> enc_seq rec st vs = inl (Some (st', ws)) -> good_seq st' ws p.
Proof.
  intros Hrec. induction vs as [|v vs IH]; intros st st' ws p Hok Hat H; cbn [enc_seq] in H.
  - inversion H; subst. apply (good_seq_intro _ _ _ p); auto.
  - destruct (rec st v) as [st1 w| |] eqn:E; try discriminate.
    destruct (enc_seq rec st1 vs) as [[[st2 ws']|]|] eqn:E2; try discriminate.
    inversion H; subst.
    destruct (Hrec _ _ _ _ _ Hok Hat E) as (p1 & Hc1 & Hok1 & Hat1 & Hn1).
    destruct (IH _ _ _ _ Hok1 Hat1 E2) as (p2 & Hc2 & Hok2 & Hat2 & Hn2).
    apply (good_seq_intro _ _ _ p2); auto.
    + cbn [closed_seq]. rewrite Hc1. exact Hc2.
    + intros Hs. cbn [existsb]. rewrite (Hn1 Hs), (Hn2 Hs). reflexivity.
Qed.

Lemma enc_anon_closed rec : rec_closed rec -> forall fields vs st st' ws p,
  est_ok st -> at_pos st p ->
  enc_anon_fields simple rec st fields vs = inl (Some (st', ws)) -> good_seq st' ws p.
Proof.
  intros Hrec. induction fields as [|f fields IH]; intros vs st st' ws p Hok Hat H.
  - cbn in H. assert (st' = st /\ ws = []) as [-> ->] by (destruct vs; inversion H; auto).
    apply (good_seq_intro _ _ _ p); auto.
  - destruct vs as [|v vs].
    + cbn in H. inversion H; subst. apply (good_seq_intro _ _ _ p); auto.
    + cbn [enc_anon_fields] in H.
      destruct (enc_string simple st f) as [st1 wf] eqn:Es.
      destruct (rec st1 v) as [st2 w| |] eqn:E; try discriminate.
      destruct (enc_anon_fields simple rec st2 fields vs) as [[[st3 ws']|]|] eqn:E2; try discriminate.
      inversion H; subst.
      destruct (enc_string_closed _ _ _ _ _ Hok Hat Es) as (p1 & Hc1 & Hok1 & Hat1 & Hn1).
      destruct (Hrec _ _ _ _ _ Hok1 Hat1 E) as (p2 & Hc2 & Hok2 & Hat2 & Hn2).
      destruct (IH _ _ _ _ _ Hok2 Hat2 E2) as (p3 & Hc3 & Hok3 & Hat3 & Hn3).
      apply (good_seq_intro _ _ _ p3); auto.
      * cbn [closed_seq]. rewrite Hc1, Hc2. exact Hc3.
      * intros Hs. cbn [existsb]. rewrite (Hn1 Hs), (Hn2 Hs), (Hn3 Hs). reflexivity.
Qed.

Lemma rows_closed : forall rows st p, est_ok st -> at_pos st p ->
  good_seq (fold_left (fun s row => match row with Some _ => add_count simple s 1 | None => s end) rows st)
           (map bytes_row rows) p.
Proof.
  induction rows as [|row rows IH]; intros st p Hok Hat; cbn [fold_left map].
  - apply (good_seq_intro _ _ _ p); auto.
  - destruct p as [r c]. destruct row as [b|]; cbn [bytes_row].
    + destruct (add_count_ok st 1 r c Hok Hat) as [H1 H2].
      destruct (IH _ _ H1 H2) as (p2 & Hc2 & Hok2 & Hat2 & Hn2).
      apply (good_seq_intro _ _ _ p2); auto.
    + destruct (IH _ _ Hok Hat) as (p2 & Hc2 & Hok2 & Hat2 & Hn2).
      apply (good_seq_intro _ _ _ p2); auto.
Qed.

Lemma enc_time_closed y mo d h mi s ns utc w r c :
  enc_time y mo d h mi s ns utc = Some w -> closed w (r, c) = Some (r + 1, c) /\ has_ref w = false.
Proof.
  unfold enc_time. intros H.
  repeat match type of H with
         | (if ?b then _ else _) = _ => destruct b
         end; inversion H; subst; split; reflexivity.
Qed.

Lemma seq_inr_absurd rec vs st e st' w : enc_seq rec st vs = inr e -> e = EOk st' w -> False.
Proof. intros H E. eapply enc_seq_inr; eauto. Qed.

(* a container: registration, then the elements *)
Lemma container_closed rec rg (mk : list wire -> wire) vs st st2 ws r c :
  rec_closed rec -> est_ok st -> at_pos st (r, c) ->
  (forall l, closed (mk l) (r, c) = closed_seq l (Some (r + 1, c))) ->
  (forall l, has_ref (mk l) = existsb has_ref l) ->
  enc_seq rec (register simple st rg) vs = inl (Some (st2, ws)) -> good st2 (mk ws) (r, c).
Proof.
  intros Hrec Hok Hat Hmk Hmr E.
  destruct (register_ok st rg r c Hok Hat) as [H1 H2].
  destruct (enc_seq_closed rec Hrec _ _ _ _ _ H1 H2 E) as (p2 & Hc2 & Hok2 & Hat2 & Hn2).
  apply (good_intro _ _ _ p2); auto; [rewrite Hmk; exact Hc2|]. intros Hs. rewrite Hmr. auto.
Qed.

Lemma enc_body_closed rec rg : rec_closed rec -> forall st v st' w p,
  est_ok st -> at_pos st p -> enc_body simple rec rg st v = EOk st' w -> good st' w p.
Proof.
  intros Hrec st v st' w [r c] Hok Hat H.
  destruct v; cbn [enc_body] in H; try discriminate.
  - (* GBytes *)
    inversion H; subst. destruct (register_ok st rg r c Hok Hat) as [H1 H2].
    apply (good_intro _ _ _ (r + 1, c)); auto.
  - (* GBytes2d *)
    destruct (register_ok st rg r c Hok Hat) as [H1 H2].
    destruct (length rows =? 0)%nat.
    + inversion H; subst. apply (good_intro _ _ _ (r + 1, c)); auto.
    + inversion H; subst.
      destruct (rows_closed rows _ _ H1 H2) as (p2 & Hc2 & Hok2 & Hat2 & Hn2).
      apply (good_intro _ _ _ p2); auto; try (rewrite closed_WList; exact Hc2).
  - (* GSlice *)
    destruct (enc_seq rec (register simple st rg) vs) as [[[st2 ws]|]|] eqn:E; try discriminate.
    + inversion H; subst. eapply (container_closed rec rg WList); eauto; try (intros; apply closed_WList).
    + exfalso. eapply seq_inr_absurd; eauto.
  - (* GMap *)
    destruct (enc_seq rec (register simple st rg) kvs) as [[[st2 ws]|]|] eqn:E; try discriminate.
    + inversion H; subst. eapply (container_closed rec rg WMap); eauto; try (intros; apply closed_WMap).
    + exfalso. eapply seq_inr_absurd; eauto.
  - (* GStruct *)
    destruct (class_lookup st name) as [k|] eqn:Ecl.
    + destruct (enc_seq rec (register simple st rg) vs) as [[[st3 ws]|]|] eqn:E; try discriminate.
      * inversion H; subst.
        pose proof (ok_cls _ Hok _ _ Ecl) as Hk. pose proof (proj1 Hat) as Hcc. cbn in Hcc.
        eapply (container_closed rec rg (WObj k)); eauto.
        intros l. rewrite closed_WObj. replace (k <? c) with true by lia. reflexivity.
        Unshelve. all: auto.
      * exfalso. eapply seq_inr_absurd; eauto.
    + unfold class_define in H.
      destruct (add_count_ok st (N.of_nat (length fields)) r c Hok Hat) as [Ha1 Ha2].
      set (st1 := add_count simple st (N.of_nat (length fields))) in *.
      set (s' := {| prefs := prefs st1; srefs := srefs st1; rlast := rlast st1;
                    cls := (name, clast st1) :: cls st1; clast := (clast st1 + 1)%N |}) in *.
      assert (Hcl : clast st1 = c) by (destruct Ha2 as [Hx _]; cbn in Hx; auto).
      assert (Hs1 : est_ok s').
      { destruct Ha1 as [Hs Hp Hc]. constructor; cbn; intros.
        - apply (Hs _ _ H0). - apply (Hp _ _ H0).
        - destruct (bytes_eqb n name); [inversion H0; lia|]. specialize (Hc _ _ H0). lia. }
      assert (Hs2 : at_pos s' (r + N.of_nat (length fields), c + 1)).
      { destruct Ha2 as [Hc2 Hr2]. split; cbn; [lia|]. intros Hsm. apply (Hr2 Hsm). }
      destruct (enc_seq rec (register simple s' rg) vs) as [[[st3 ws]|]|] eqn:E; try discriminate.
      * inversion H; subst st' w.
        pose proof (container_closed rec rg (WObj (clast st1)) vs s' st3 ws _ _ Hrec Hs1 Hs2) as Hg.
        destruct Hg as (p2 & Hc2 & Hok2 & Hat2 & Hn2); auto.
        { intros l. rewrite closed_WObj. rewrite Hcl. replace (c <? c + 1) with true by lia. reflexivity. }
        apply (good_intro _ _ _ p2); auto.
      * exfalso. eapply seq_inr_absurd; eauto.
  - (* GAnon *)
    destruct (register_ok st rg r c Hok Hat) as [H1 H2].
    destruct (enc_anon_fields simple rec (register simple st rg) fields vs) as [[[st2 ws]|]|] eqn:E; try discriminate.
    + inversion H; subst. destruct (enc_anon_closed rec Hrec _ _ _ _ _ _ H1 H2 E) as (p2 & Hc2 & Hok2 & Hat2 & Hn2).
      apply (good_intro _ _ _ p2); auto; try (rewrite closed_WMap; exact Hc2).
    + exfalso. eapply enc_anon_inr; eauto.
  - (* GTime *)
    destruct (enc_time y mo d h mi s ns utc) as [w0|] eqn:E; [|discriminate].
    inversion H; subst. destruct (register_ok st rg r c Hok Hat) as [H1 H2].
    destruct (enc_time_closed _ _ _ _ _ _ _ _ _ r c E) as [Hc Hn].
    apply (good_intro _ _ _ (r + 1, c)); auto.
  - (* GUuid *)
    inversion H; subst. destruct (register_ok st rg r c Hok Hat) as [H1 H2].
    apply (good_intro _ _ _ (r + 1, c)); auto.
  - (* GList *)
    destruct (enc_seq rec (register simple st rg) vs) as [[[st2 ws]|]|] eqn:E; try discriminate.
    + inversion H; subst. eapply (container_closed rec rg WList); eauto; try (intros; apply closed_WList).
    + exfalso. eapply seq_inr_absurd; eauto.
Qed.

Variable hp : heap.

Lemma enc_int_closed k z p : closed (enc_int k z) p = Some p /\ has_ref (enc_int k z) = false.
Proof.
  destruct p as [r c]. unfold enc_int, w_int32, w_uint16.
  destruct k; repeat match goal with |- context [if ?b then _ else _] => destruct b end; split; reflexivity.
Qed.

Lemma enc_float_closed f p : closed (enc_float f) p = Some p /\ has_ref (enc_float f) = false.
Proof. destruct p as [r c]. destruct f; split; reflexivity. Qed.

Lemma enc_step_closed rec : rec_closed rec -> rec_closed (enc_step simple hp rec).
Proof.
  intros Hrec st v st' w p Hok Hat H.
  destruct v; cbn [enc_step] in H;
    try (eapply enc_body_closed; [exact Hrec | exact Hok | exact Hat | exact H]).
  - inversion H; subst. apply good_same; auto. destruct p; reflexivity.
  - inversion H; subst. apply good_same; auto; destruct p, b; reflexivity.
  - inversion H; subst. destruct (enc_int_closed k z p). apply good_same; auto.
  - inversion H; subst. destruct (enc_float_closed f p). apply good_same; auto.
  - destruct im_zero; inversion H; subst.
    + destruct (enc_float_closed re p). apply good_same; auto.
    + destruct p as [r c]. destruct (add_count_ok st 1 r c Hok Hat) as [Ha1 Ha2].
      destruct (enc_float_closed re (r + 1, c)) as [H1 H2].
      destruct (enc_float_closed im (r + 1, c)) as [H3 H4].
      apply (good_intro _ _ _ (r + 1, c)); auto.
      * rewrite closed_WList. cbn [closed_seq]. rewrite H1, H3. reflexivity.
      * intros _. cbn [has_ref existsb]. rewrite H2, H4. reflexivity.
  - destruct (enc_string simple st s) as [st1 w1] eqn:E. inversion H; subst.
    eapply enc_string_closed; eauto.
  - inversion H; subst. apply good_same; auto. destruct p; reflexivity.
  - inversion H; subst. apply good_same; auto. destruct p; reflexivity.
  - destruct num; inversion H; subst.
    + apply good_same; auto. destruct p; reflexivity.
    + destruct p as [r c]. destruct (add_count_ok st 1 r c Hok Hat) as [Ha1 Ha2].
      apply (good_intro _ _ _ (r + 1, c)); auto; [apply string_wire_closed|]. intros _. apply string_wire_noref.
  - inversion H; subst. destruct p as [r c]. destruct (add_count_ok st 1 r c Hok Hat) as [Ha1 Ha2].
    apply (good_intro _ _ _ (r + 1, c)); auto.
    + cbn [closed]. apply string_wire_closed.
    + intros _. cbn [has_ref]. apply string_wire_noref.
  - destruct (hlookup hp addr) as [pv|] eqn:El; [|discriminate].
    destruct (tracked pv).
    + destruct (lookup_ptr simple st addr) as [k|] eqn:Ek.
      * inversion H; subst. unfold lookup_ptr in Ek. destruct simple eqn:Es; [discriminate|].
        destruct p as [r c]. destruct Hat as [Hc Hr]. cbn in Hr.
        pose proof (ok_ptr _ Hok _ _ Ek) as Hk.
        apply (good_intro _ _ _ (r, c)); auto.
        -- cbn [closed]. rewrite (Hr Es). replace (k <? rlast st') with true by lia. reflexivity.
        -- split; [exact Hc|exact Hr].
        -- intros; congruence.
      * eapply enc_body_closed; [exact Hrec | exact Hok | exact Hat | exact H].
    + eapply Hrec; eauto.
Qed.

Theorem enc_closed : forall fuel, rec_closed (enc simple hp fuel).
Proof.
  induction fuel as [|f IH]; intros st v st' w p Hok Hat H; [discriminate|].
  cbn [enc] in H. eapply (enc_step_closed (enc simple hp f) IH); eauto.
Qed.

Theorem write_top_closed : forall f, rec_closed (write_top hp f simple).
Proof.
  induction f as [|f IH]; intros st v st' w p Hok Hat H; [discriminate|].
  destruct v; try (cbn [write_top] in H; eapply (enc_closed (S f)); eauto; fail).
  - cbn [write_top] in H. destruct (write_string simple st s) as [st1 w1] eqn:E. inversion H; subst.
    eapply write_string_closed; eauto.
  - cbn [write_top] in H. destruct (hlookup hp addr) as [pv|]; [|discriminate].
    destruct (tracked pv).
    + eapply enc_body_closed; [apply enc_closed | exact Hok | exact Hat | exact H].
    + eapply IH; eauto.
Qed.

(* token legality of what Write produces (for the reader) *)
Theorem write_top_tok_ok : forall f st v st' w,
  gval_ok v = true -> heap_ok hp = true -> write_top hp f simple st v = EOk st' w -> tok_ok w = true.
Proof.
  induction f as [|f IH]; intros st v st' w Hv Hh H; [discriminate|].
  destruct v; try (cbn [write_top] in H; eapply enc_tok_ok; eauto; fail).
  - cbn [write_top] in H. unfold write_string in H. inversion H; subst.
    apply string_wire_ok. apply str_ok_all.
  - cbn [write_top] in H. destruct (hlookup hp addr) as [pv|] eqn:El; [|discriminate].
    pose proof (hlookup_ok _ _ _ Hh El) as Hpv.
    destruct (tracked pv).
    + eapply (enc_body_ok simple (enc simple hp f)); [|exact Hpv|exact H].
      intros st0 v0 st0' w0 Hv0 H0. eapply enc_tok_ok; eauto.
    + eapply IH; eauto.
Qed.

End Closed.

(* ================================================================== C. the hprose codec *)

Lemma beqb_refl b : bytes_eqb b b = true.
Proof. induction b as [|x b IH]; [reflexivity|]. cbn. rewrite IH. destruct x; reflexivity. Qed.

Lemma beqb_eq a : forall b, bytes_eqb a b = true -> a = b.
Proof.
  induction a as [|x a IH]; intros [|y b] H; try discriminate; [reflexivity|].
  cbn in H. apply andb_prop in H. destruct H as [H1 H2].
  apply Byte.byte_dec_bl in H1. subst. rewrite (IH _ H2). reflexivity.
Qed.

Lemma enc_seq_length rec : forall vs st st' ws,
  enc_seq rec st vs = inl (Some (st', ws)) -> length ws = length vs.
Proof.
  induction vs as [|v vs IH]; intros st st' ws H; cbn [enc_seq] in H.
  - inversion H; reflexivity.
  - destruct (rec st v) as [st1 w| |]; try discriminate.
    destruct (enc_seq rec st1 vs) as [[[st2 ws']|]|] eqn:E2; try discriminate.
    inversion H; subst. cbn [length]. rewrite (IH _ _ _ E2). reflexivity.
Qed.

(* Write(args) of a []interface{} is a list with one element per argument *)
Lemma write_slice_shape hp f simple st vs st' w :
  write_top hp (S f) simple st (GSlice vs) = EOk st' w -> exists ws, w = WList ws /\ length ws = length vs.
Proof.
  cbn [write_top enc enc_step enc_body]. intros H.
  destruct (enc_seq (enc simple hp f) (register simple st ByCount) vs) as [[[st2 ws]|]|e] eqn:E; try discriminate.
  - inversion H; subst. exists ws. split; [reflexivity|]. eapply enc_seq_length; eauto.
  - exfalso. eapply seq_inr_absurd; eauto.
Qed.

Lemma dec_string_wire s : dec_string (string_wire s) = Some s.
Proof. unfold string_wire. destruct (go_utf16Length s <? 0)%Z; reflexivity. Qed.

Lemma hfind_hset_same k v h : hfind k (hset k v h) = Some v.
Proof.
  induction h as [|[k' v'] h IH]; cbn [hset hfind].
  - rewrite beqb_refl. reflexivity.
  - destruct (bytes_eqb k k') eqn:E; cbn [hfind]; [rewrite beqb_refl; reflexivity|].
    rewrite E. exact IH.
Qed.

Lemma hfind_map (g : gval -> gval) k h :
  hfind k (map (fun kv => (fst kv, g (snd kv))) h) = option_map g (hfind k h).
Proof.
  induction h as [|[k' v'] h IH]; [reflexivity|]. cbn [map hfind fst snd].
  destruct (bytes_eqb k k'); [reflexivity|exact IH].
Qed.

Lemma hset_nonempty k v h : hset k v h <> [].
Proof. destruct h as [|[k' v'] h]; cbn; [discriminate|]. destruct (bytes_eqb k k'); discriminate. Qed.

Lemma hflat_ok h : forallb gval_ok (map snd h) = true ->
  forallb gval_ok (hflat h) = true /\ Nat.even (length (hflat h)) = true.
Proof.
  induction h as [|[k v] h IH]; cbn [map forallb hflat snd length]; [auto|].
  intros H. apply andb_prop in H. destruct H as [Hv Hh]. destruct (IH Hh) as [I1 I2].
  cbn [gval_ok]. rewrite Hv, I1. split; [reflexivity|exact I2].
Qed.

Lemma map_snd_hset k v h : forallb gval_ok (map snd h) = true -> gval_ok v = true ->
  forallb gval_ok (map snd (hset k v h)) = true.
Proof.
  induction h as [|[k' v'] h IH]; cbn [hset map forallb snd]; intros H Hv.
  - rewrite Hv. reflexivity.
  - apply andb_prop in H. destruct H as [H1 H2].
    destruct (bytes_eqb k k'); cbn [map forallb snd]; [rewrite Hv, H2; reflexivity|].
    rewrite H1, (IH H2 Hv). reflexivity.
Qed.

(* the codec's own view of the headers it sends: the reserved flag added by a Simple codec *)
Definition with_simple (simple : bool) (h : headers) : headers :=
  if simple then hset s_simple_key (GBool true) h else h.

(* element-wise conversion of an argument / result tuple *)
Fixpoint zipconv (conv : pty -> gval -> gval) (ts : list pty) (vs : list gval) : list gval :=
  match ts, vs with
  | t :: tr, v :: vr => conv t v :: zipconv conv tr vr
  | _, _ => []
  end.

Fixpoint fits_all (fits : gval -> pty -> Prop) (ts : list pty) (vs : list gval) : Prop :=
  match ts, vs with
  | t :: tr, v :: vr => fits v t /\ fits_all fits tr vr
  | _, _ => True
  end.

Lemma zipconv_length conv : forall ts vs, length (zipconv conv ts vs) = Nat.min (length ts) (length vs).
Proof. induction ts as [|t ts IH]; intros [|v vs]; cbn; auto. Qed.

Lemma param_types_length m n : length (param_types m n) = n.
Proof.
  unfold param_types. destruct (m_velem m).
  - rewrite app_length, repeat_length, !firstn_length. lia.
  - rewrite app_length, repeat_length, firstn_length. lia.
Qed.

Lemma read_headers_H_gen io_dec_hdrs d hw rest :
  read_headers io_dec_hdrs d (ITag t_H :: IVal hw :: rest) =
  (io_dec_hdrs d false hw, rest, [DNext t_H; DRead false hw; DReset]).
Proof. reflexivity. Qed.

Section C07.
Variable fuel : nat.
Variable hp : heap.
Variable lower : bytes -> bytes.
Variable io_dec : dopts -> bool -> pty -> wire -> option gval.
Variable io_dec_hdrs : dopts -> bool -> wire -> option headers.
Variable zero : pty -> gval.

(* What "equal in value, converted to the type" means is C01's business: [convert o T v] is the value
   C01 says Unmarshal(Marshal(v)) into T yields (its normal form), [fits v T] says v can be decoded into T. *)
Variable convert : dopts -> pty -> gval -> gval.
Variable fits : gval -> pty -> Prop.

(* a reader whose simple flag is set can only follow a writer in simple mode *)
Definition mode_ok (writer_simple reader_simple : bool) : Prop := reader_simple = true -> writer_simple = true.

(* C01 for one top-level value: Unmarshal(Marshal(v)) into T is v's normal form at T *)
Definition C01_value : Prop := forall o ws rs T v f st w,
  mode_ok ws rs -> fits v T -> (forall ts, T <> TTuple ts) ->
  write_top hp f ws einit v = EOk st w -> io_dec o rs T w = Some (convert o T v).

(* C01 for a list read element by element into the types ts (the argument tuple, several results) *)
Definition C01_tuple : Prop := forall o ws rs ts vs f st w,
  mode_ok ws rs -> (length ts <= length vs)%nat -> fits_all fits ts vs ->
  write_top hp f ws einit (GSlice vs) = EOk st w ->
  io_dec o rs (TTuple ts) w = Some (GSlice (zipconv (convert o) ts vs)).

(* C01 for a header dictionary (map[string]interface{}) *)
Definition C01_headers : Prop := forall o ws rs h f st w,
  mode_ok ws rs -> Forall (fun kv => fits (snd kv) TIface) h ->
  write_top hp f ws einit (GMap (hflat h)) = EOk st w ->
  io_dec_hdrs o rs w = Some (map (fun kv => (fst kv, convert o TIface (snd kv))) h).

(* a bool in an interface{} comes back as that bool *)
Definition C01_bool : Prop := forall o b, convert o TIface (GBool b) = GBool b.

Definition conv_headers (o : dopts) (h : headers) : headers :=
  map (fun kv => (fst kv, convert o TIface (snd kv))) h.

Hypothesis Hval : C01_value.
Hypothesis Htuple : C01_tuple.
Hypothesis Hhdrs : C01_headers.
Hypothesis Hbool : C01_bool.

Definition values_ok (vs : list gval) : Prop := forallb gval_ok vs = true.

Lemma fits_bool_simple h : Forall (fun kv => fits (snd kv) TIface) h -> fits (GBool true) TIface ->
  Forall (fun kv => fits (snd kv) TIface) (hset s_simple_key (GBool true) h).
Proof.
  intros H Hb. induction H as [|[k v] h Hk Hh IH]; cbn [hset].
  - constructor; [exact Hb|constructor].
  - destruct (bytes_eqb s_simple_key k); constructor; auto.
Qed.

(* the flag the reader derives from the decoded headers is the writer's mode, provided the application
   did not use the reserved key itself *)
Lemma get_bool_with_simple o simple h : hfind s_simple_key h = None ->
  get_bool s_simple_key (conv_headers o (with_simple simple h)) = simple.
Proof.
  intros Hn. unfold get_bool, conv_headers. rewrite hfind_map. unfold with_simple. destruct simple.
  - rewrite hfind_hset_same. cbn [option_map]. rewrite Hbool. reflexivity.
  - rewrite Hn. reflexivity.
Qed.

(* ---- the header segment, common to both directions *)
Lemma enc_headers_cases simple h hops :
  enc_headers fuel hp simple h = CEOk hops ->
  (h = [] /\ hops = []) \/
  (h <> [] /\ exists st w, write_top hp (S fuel) simple einit (GMap (hflat h)) = EOk st w /\
                            hops = [OTag t_H; OVal w; OReset]).
Proof.
  unfold enc_headers. destruct h as [|kv h]; [intros H; inversion H; auto|].
  destruct (write_top hp (S fuel) simple einit (GMap (hflat (kv :: h)))) as [st w| |] eqn:E; try discriminate.
  intros H; inversion H; subst. right. split; [discriminate|]. exists st, w. auto.
Qed.

Lemma is_ptag_H : is_ptag t_H = true. Proof. reflexivity. Qed.
Lemma is_ptag_C : is_ptag t_C = true. Proof. reflexivity. Qed.
Lemma is_ptag_R : is_ptag t_R = true. Proof. reflexivity. Qed.
Lemma is_ptag_z : is_ptag t_z = true. Proof. reflexivity. Qed.

(* every op of a message written by the encoders is a legal item *)
Definition ops_ok (ops : list op) : bool := forallb item_ok (strip ops).

Lemma headers_ops_ok simple h hops : heap_ok hp = true -> forallb gval_ok (map snd h) = true ->
  enc_headers fuel hp simple h = CEOk hops -> ops_ok hops = true.
Proof.
  intros Hh Hv H. destruct (enc_headers_cases _ _ _ H) as [[_ ->]|(_ & st & w & E & ->)]; [reflexivity|].
  unfold ops_ok. cbn [strip forallb item_ok]. rewrite is_ptag_H.
  destruct (hflat_ok h Hv) as [H1 H2].
  assert (Hg : gval_ok (GMap (hflat h)) = true) by (cbn [gval_ok]; rewrite H1, H2; reflexivity).
  rewrite (write_top_tok_ok simple hp _ _ _ _ _ Hg Hh E).
  reflexivity.
Qed.

Lemma ops_ok_app a b : ops_ok (a ++ b) = ops_ok a && ops_ok b.
Proof. unfold ops_ok. rewrite strip_app, forallb_app. reflexivity. Qed.

(* ---- request *)

Definition expected_args (o : dopts) (m : method) (args : list gval) : list gval :=
  match args with
  | [] => []
  | _ => if m_missing m then vals_of (convert o TIfaceSlice (GSlice args))
         else zipconv (convert o) (param_types m (length args)) args
  end.

Definition args_fit (m : method) (args : list gval) : Prop :=
  if m_missing m then fits (GSlice args) TIfaceSlice
  else fits_all fits (param_types m (length args)) args.

Theorem request_ops_ok co name args h ops :
  heap_ok hp = true -> values_ok args -> values_ok (map snd h) ->
  client_encode fuel hp co name args h = CEOk ops -> ops_ok ops = true.
Proof.
  intros Hh Ha Hv H. unfold client_encode in H.
  set (h1 := if c_simple co then hset s_simple_key (GBool true) h else h) in *.
  assert (Hv1 : forallb gval_ok (map snd h1) = true).
  { unfold h1. destruct (c_simple co); [apply map_snd_hset; auto|exact Hv]. }
  destruct (enc_headers fuel hp (c_simple co) h1) as [hops|] eqn:Eh; [|discriminate].
  pose proof (headers_ops_ok _ _ _ Hh Hv1 Eh) as Hho.
  cbn [write_string] in H.
  destruct args as [|a args].
  - inversion H; subst. rewrite ops_ok_app, Hho. unfold ops_ok. cbn [strip forallb item_ok].
    rewrite is_ptag_C, is_ptag_z, (string_wire_ok _ (str_ok_all name)). reflexivity.
  - destruct (write_top hp (S fuel) (c_simple co) einit (GSlice (a :: args))) as [st aw| |] eqn:Ea; try discriminate.
    inversion H; subst. rewrite ops_ok_app, Hho. unfold ops_ok. cbn [strip forallb item_ok].
    rewrite is_ptag_C, is_ptag_z, (string_wire_ok _ (str_ok_all name)).
    rewrite (write_top_tok_ok _ hp _ _ _ _ _ (Ha : gval_ok (GSlice (a :: args)) = true) Hh Ea). reflexivity.
Qed.

Lemma read_headers_skip d t rest : Byte.eqb t t_H = false ->
  read_headers io_dec_hdrs d (ITag t :: rest) = (Some [], ITag t :: rest, []).
Proof.
  intros H. unfold read_headers. destruct rest as [|[t'|w] r]; try reflexivity. rewrite H. reflexivity.
Qed.

Lemma read_headers_val d w rest :
  read_headers io_dec_hdrs d (IVal w :: rest) = (Some [], IVal w :: rest, []).
Proof. reflexivity. Qed.

Lemma read_headers_H d hw rest :
  read_headers io_dec_hdrs d (ITag t_H :: IVal hw :: rest) =
  (io_dec_hdrs d false hw, rest, [DNext t_H; DRead false hw; DReset]).
Proof. reflexivity. Qed.

(* the call part of a request, read with decoded headers h0 *)
Lemma request_body co so svc name args m h0 tr0 tail :
  lookup lower svc name = Some m -> args_fit m args ->
  get_bool s_simple_key h0 = c_simple co ->
  (match args with
   | [] => Some [OTag t_C; OVal (string_wire name); OTag t_z]
   | _ => match write_top hp (S fuel) (c_simple co) einit (GSlice args) with
          | EOk _ aw => Some [OTag t_C; OVal (string_wire name); OReset; OVal aw; OTag t_z]
          | _ => None
          end
   end) = Some tail ->
  fst (service_decode_call lower io_dec so svc h0 tr0 (strip tail)) =
  SDOk {| rq_name := name; rq_headers := h0; rq_method := m; rq_args := expected_args (s_dec so) m args |}.
Proof.
  intros Hlk Haf Hflag Ht.
  destruct args as [|a args].
  - inversion Ht; subst tail. cbn [strip]. unfold service_decode_call.
    change (Byte.eqb t_C t_C) with true. cbn iota. rewrite dec_string_wire, Hlk. reflexivity.
  - destruct (write_top hp (S fuel) (c_simple co) einit (GSlice (a :: args))) as [st aw| |] eqn:Ea; try discriminate.
    inversion Ht; subst tail. destruct (write_slice_shape _ _ _ _ _ _ _ Ea) as (ws & -> & Hlen).
    cbn [strip]. unfold service_decode_call.
    change (Byte.eqb t_C t_C) with true. cbn iota. rewrite dec_string_wire, Hlk, Hflag.
    unfold args_fit in Haf. unfold expected_args.
    destruct (m_missing m) eqn:Emiss.
    + rewrite (Hval (s_dec so) (c_simple co) (c_simple co) TIfaceSlice (GSlice (a :: args)) _ _ _
                 ltac:(intros Hx; exact Hx) Haf ltac:(intros ts Hx; discriminate) Ea).
      reflexivity.
    + rewrite Hlen.
      rewrite (Htuple (s_dec so) (c_simple co) (c_simple co) (param_types m (length (a :: args))) (a :: args) _ _ _
                 ltac:(intros Hx; exact Hx) ltac:(rewrite param_types_length; lia) Haf Ea).
      reflexivity.
Qed.

Lemma client_encode_split co name args h ops :
  client_encode fuel hp co name args h = CEOk ops ->
  exists hops tail,
    enc_headers fuel hp (c_simple co) (with_simple (c_simple co) h) = CEOk hops /\ ops = hops ++ tail /\
    (match args with
     | [] => Some [OTag t_C; OVal (string_wire name); OTag t_z]
     | _ => match write_top hp (S fuel) (c_simple co) einit (GSlice args) with
            | EOk _ aw => Some [OTag t_C; OVal (string_wire name); OReset; OVal aw; OTag t_z]
            | _ => None
            end
     end) = Some tail.
Proof.
  unfold client_encode. fold (with_simple (c_simple co) h). intros H.
  destruct (enc_headers fuel hp (c_simple co) (with_simple (c_simple co) h)) as [hops|]; [|discriminate].
  cbn [write_string] in H. exists hops.
  destruct args as [|a args].
  - inversion H; subst. eexists; repeat split.
  - destruct (write_top hp (S fuel) (c_simple co) einit (GSlice (a :: args))) as [st aw| |]; try discriminate.
    inversion H; subst. eexists; repeat split.
Qed.

Lemma ops_nonempty_emit ops : ops_ok ops = true -> strip ops <> [] -> emit_items (strip ops) <> [].
Proof.
  intros _ Hne E. destruct (strip ops) as [|i r]; [contradiction|].
  cbn [emit_items flat_map] in E. apply app_eq_nil in E. destruct E as [E _].
  destruct i as [t|w]; cbn [emit_item] in E; [discriminate|].
  destruct (emit_head w) as (t & r' & E' & _). rewrite E' in E. discriminate.
Qed.

Theorem request_roundtrip : forall co so svc name args h ops m,
  heap_ok hp = true -> values_ok args -> values_ok (map snd h) ->
  hfind s_simple_key h = None ->
  Forall (fun kv => fits (snd kv) TIface) h -> (c_simple co = true -> fits (GBool true) TIface) ->
  lookup lower svc name = Some m -> args_fit m args ->
  client_encode fuel hp co name args h = CEOk ops ->
  fst (service_decode lower io_dec io_dec_hdrs so svc (emit_ops ops)) =
  SDOk {| rq_name := name;
          rq_headers := conv_headers (s_dec so) (with_simple (c_simple co) h);
          rq_method := m;
          rq_args := expected_args (s_dec so) m args |}.
Proof.
  intros co so svc name args h ops m Hh Ha Hv Hres Hfit Hfb Hlk Haf H.
  pose proof (request_ops_ok _ _ _ _ _ Hh Ha Hv H) as Hok.
  destruct (client_encode_split _ _ _ _ _ H) as (hops & tail & Eh & -> & Etail).
  set (h1 := with_simple (c_simple co) h) in *.
  assert (Hfit1 : Forall (fun kv => fits (snd kv) TIface) h1).
  { unfold h1, with_simple. destruct (c_simple co); [apply fits_bool_simple; auto|exact Hfit]. }
  assert (Hflag : get_bool s_simple_key (conv_headers (s_dec so) h1) = c_simple co)
    by (apply get_bool_with_simple; exact Hres).
  assert (Htail : exists nw r, strip tail = ITag t_C :: IVal nw :: r).
  { destruct args; [inversion Etail; subst; cbn; eauto|].
    destruct (write_top hp (S fuel) (c_simple co) einit _); inversion Etail; subst; cbn; eauto. }
  unfold service_decode. rewrite emit_ops_strip.
  destruct (emit_items (strip (hops ++ tail))) as [|b0 bs0] eqn:Eb.
  { exfalso. revert Eb. apply ops_nonempty_emit; [exact Hok|]. rewrite strip_app.
    destruct Htail as (nw & r & ->). destruct (strip hops); discriminate. }
  rewrite <- Eb. rewrite (parse_msg_emit _ Hok). clear Eb b0 bs0.
  unfold service_decode_items. rewrite strip_app.
  destruct (enc_headers_cases _ _ _ Eh) as [[Hnil ->]|(Hne & sth & hw & Ehw & ->)].
  - (* no header segment *)
    cbn [strip app]. destruct Htail as (nw & r & Est). rewrite Est.
    rewrite read_headers_skip by reflexivity. rewrite <- Est.
    rewrite Hnil in *. cbn [conv_headers map] in Hflag |- *.
    eapply request_body; eauto.
  - (* header segment present *)
    pose proof (Hhdrs (s_dec so) (c_simple co) false h1 _ _ _ ltac:(intros Hx; discriminate) Hfit1 Ehw) as Hdh.
    fold (conv_headers (s_dec so) h1) in Hdh.
    cbn [strip app]. rewrite read_headers_H, Hdh.
    eapply request_body; eauto.
Qed.

(* ---- request: both sides reset at the same boundaries; no reference crosses a scope *)

Definition aligned (ops : list op) (tr : list dop) : Prop :=
  map (map snd) (dscopes tr) = scopes ops /\
  Forall (fun sc => scope_closed sc = true) (scopes ops) /\
  Forall (Forall (fun sw => readable sw = true)) (dscopes tr).

Lemma top_scope_closed simple f v st w :
  write_top hp f simple einit v = EOk st w ->
  scope_closed [w] = true /\ (simple = true -> has_ref w = false).
Proof.
  intros H.
  destruct (write_top_closed simple hp f einit v st w (0, 0) est_ok_init (at_pos_init simple) H)
    as (p' & Hc & _ & _ & Hn).
  split; [|exact Hn]. unfold scope_closed. cbn [closed_seq]. rewrite Hc. reflexivity.
Qed.

Lemma name_scope_closed s : scope_closed [string_wire s] = true.
Proof. unfold scope_closed. cbn [closed_seq]. rewrite string_wire_closed. reflexivity. Qed.

Lemma readable_false w : readable (false, w) = true. Proof. reflexivity. Qed.
Lemma readable_noref b w : has_ref w = false -> readable (b, w) = true.
Proof. intros H. unfold readable. cbn [fst snd]. rewrite H. destruct b; reflexivity. Qed.
Lemma readable_mode b w : (b = true -> has_ref w = false) -> readable (b, w) = true.
Proof. intros H. destruct b; [apply readable_noref; auto|reflexivity]. Qed.

Lemma request_body_trace co so svc name args m h0 tr0 tail :
  lookup lower svc name = Some m ->
  get_bool s_simple_key h0 = c_simple co ->
  (match args with
   | [] => Some [OTag t_C; OVal (string_wire name); OTag t_z]
   | _ => match write_top hp (S fuel) (c_simple co) einit (GSlice args) with
          | EOk _ aw => Some [OTag t_C; OVal (string_wire name); OReset; OVal aw; OTag t_z]
          | _ => None
          end
   end) = Some tail ->
  let smp := c_simple co in
  let nw := string_wire name in
  (tail = [OTag t_C; OVal nw; OTag t_z] /\
   snd (service_decode_call lower io_dec so svc h0 tr0 (strip tail)) = tr0 ++ [DNext t_C; DRead smp nw]) \/
  (exists aw, tail = [OTag t_C; OVal nw; OReset; OVal aw; OTag t_z] /\
     snd (service_decode_call lower io_dec so svc h0 tr0 (strip tail)) =
       tr0 ++ [DNext t_C; DRead smp nw; DReset; DRead smp aw] /\
     scope_closed [aw] = true /\ (smp = true -> has_ref aw = false)).
Proof.
  intros Hlk Hflag Ht smp nw.
  destruct args as [|a args].
  - left. inversion Ht; subst tail. split; [reflexivity|]. cbn [strip]. unfold service_decode_call.
    change (Byte.eqb t_C t_C) with true. cbn iota. rewrite dec_string_wire, Hlk, Hflag. reflexivity.
  - right.
    destruct (write_top hp (S fuel) (c_simple co) einit (GSlice (a :: args))) as [st aw| |] eqn:Ea; try discriminate.
    inversion Ht; subst tail. destruct (write_slice_shape _ _ _ _ _ _ _ Ea) as (ws & Eaw & Hlen).
    destruct (top_scope_closed _ _ _ _ _ Ea) as [Hcl Hnr]. subst aw.
    exists (WList ws). split; [reflexivity|]. split; [|split; [exact Hcl|exact Hnr]].
    cbn [strip]. unfold service_decode_call.
    change (Byte.eqb t_C t_C) with true. cbn iota. rewrite dec_string_wire, Hlk, Hflag.
    destruct (io_dec (s_dec so) (c_simple co)
                (if m_missing m then TIfaceSlice else TTuple (param_types m (length ws))) (WList ws));
      cbn [snd]; rewrite <- app_assoc; reflexivity.
Qed.

Theorem request_aligned : forall co so svc name args h ops m,
  heap_ok hp = true -> values_ok args -> values_ok (map snd h) ->
  hfind s_simple_key h = None ->
  Forall (fun kv => fits (snd kv) TIface) h -> (c_simple co = true -> fits (GBool true) TIface) ->
  lookup lower svc name = Some m ->
  client_encode fuel hp co name args h = CEOk ops ->
  aligned ops (snd (service_decode lower io_dec io_dec_hdrs so svc (emit_ops ops))).
Proof.
  intros co so svc name args h ops m Hh Ha Hv Hres Hfit Hfb Hlk H.
  pose proof (request_ops_ok _ _ _ _ _ Hh Ha Hv H) as Hok.
  destruct (client_encode_split _ _ _ _ _ H) as (hops & tail & Eh & -> & Etail).
  set (h1 := with_simple (c_simple co) h) in *.
  assert (Hfit1 : Forall (fun kv => fits (snd kv) TIface) h1).
  { unfold h1, with_simple. destruct (c_simple co); [apply fits_bool_simple; auto|exact Hfit]. }
  assert (Hflag : get_bool s_simple_key (conv_headers (s_dec so) h1) = c_simple co)
    by (apply get_bool_with_simple; exact Hres).
  assert (Htail : exists nw r, strip tail = ITag t_C :: IVal nw :: r).
  { destruct args; [inversion Etail; subst; cbn; eauto|].
    destruct (write_top hp (S fuel) (c_simple co) einit _); inversion Etail; subst; cbn; eauto. }
  unfold service_decode. rewrite emit_ops_strip.
  destruct (emit_items (strip (hops ++ tail))) as [|b0 bs0] eqn:Eb.
  { exfalso. revert Eb. apply ops_nonempty_emit; [exact Hok|]. rewrite strip_app.
    destruct Htail as (nw & r & ->). destruct (strip hops); discriminate. }
  rewrite <- Eb. rewrite (parse_msg_emit _ Hok). clear Eb b0 bs0.
  unfold service_decode_items. rewrite strip_app.
  destruct (enc_headers_cases _ _ _ Eh) as [[Hnil ->]|(Hne & sth & hw & Ehw & ->)].
  - cbn [strip app]. destruct Htail as (nw & r & Est). rewrite Est.
    rewrite read_headers_skip by reflexivity. rewrite <- Est.
    rewrite Hnil in *. cbn [conv_headers map] in Hflag.
    destruct (request_body_trace co so svc name args m [] [] tail Hlk Hflag Etail)
      as [[-> ->]|(aw & -> & -> & Hcl & Hnr)]; cbn [app]; unfold aligned, dscopes, scopes;
      cbn [dscopes_aux scopes_aux rev app map snd].
    + split; [reflexivity|]. split.
      * constructor; [apply name_scope_closed|constructor].
      * repeat constructor. apply readable_noref. apply string_wire_noref.
    + split; [reflexivity|]. split.
      * constructor; [apply name_scope_closed|]. constructor; [exact Hcl|constructor].
      * repeat constructor; [apply readable_noref; apply string_wire_noref | apply readable_mode; exact Hnr].
  - pose proof (Hhdrs (s_dec so) (c_simple co) false h1 _ _ _ ltac:(intros Hx; discriminate) Hfit1 Ehw) as Hdh.
    fold (conv_headers (s_dec so) h1) in Hdh.
    cbn [strip app]. rewrite read_headers_H, Hdh.
    destruct (top_scope_closed _ _ _ _ _ Ehw) as [Hhcl _].
    destruct (request_body_trace co so svc name args m _ [DNext t_H; DRead false hw; DReset] tail Hlk Hflag Etail)
      as [[-> ->]|(aw & -> & -> & Hcl & Hnr)]; cbn [app]; unfold aligned, dscopes, scopes;
      cbn [dscopes_aux scopes_aux rev app map snd].
    + split; [reflexivity|]. split.
      * constructor; [exact Hhcl|]. constructor; [apply name_scope_closed|constructor].
      * repeat constructor. apply readable_noref. apply string_wire_noref.
    + split; [reflexivity|]. split.
      * constructor; [exact Hhcl|]. constructor; [apply name_scope_closed|]. constructor; [exact Hcl|constructor].
      * repeat constructor; [apply readable_noref; apply string_wire_noref | apply readable_mode; exact Hnr].
Qed.

(* ---- response *)

(* what the caller is entitled to for the results vs of the function, given its declared return types:
   none / the single (shaped) value / element-wise with zero padding *)
Definition expected_results (o : dopts) (rts : list pty) (vs : list gval) : list gval :=
  match rts with
  | [] => []
  | [t] => [convert o t (shape vs)]
  | _ => zipconv (convert o) (firstn (length vs) rts) vs ++ map zero (skipn (length vs) rts)
  end.

Definition results_fit (rts : list pty) (vs : list gval) : Prop :=
  match rts with
  | [] => True
  | [t] => fits (shape vs) t /\ (forall ts, t <> TTuple ts)
  | _ => (2 <= length vs)%nat /\ fits_all fits (firstn (length vs) rts) vs
  end.

Lemma service_encode_split so r rh ops :
  service_encode fuel hp so r rh = CEOk ops ->
  exists hops, enc_headers fuel hp (s_simple so) (with_simple (s_simple so) rh) = CEOk hops /\
    match r with
    | inr e => ops = hops ++ [OVal (WErr (string_wire (error_text (s_debug so) e))); OTag t_z]
    | inl (GError msg) => ops = hops ++ [OVal (WErr (string_wire msg)); OTag t_z]
    | inl v => exists st w, write_top hp (S fuel) (s_simple so) einit v = EOk st w /\
                            ops = hops ++ [OTag t_R; OVal w; OTag t_z]
    end.
Proof.
  unfold service_encode. fold (with_simple (s_simple so) rh). intros H.
  destruct (enc_headers fuel hp (s_simple so) (with_simple (s_simple so) rh)) as [hops|]; [|discriminate].
  exists hops. split; [reflexivity|].
  destruct r as [v|e].
  - destruct v; try (cbn [write_string] in H; inversion H; reflexivity);
      match type of H with
      | match ?X with _ => _ end = _ => destruct X as [st w| |] eqn:E; try discriminate;
                                        inversion H; subst; exists st, w; split; [first [exact E | reflexivity]|reflexivity]
      end.
  - cbn [write_string] in H. inversion H; reflexivity.
Qed.

Lemma response_ops_ok so r rh ops :
  heap_ok hp = true -> (match r with inl v => gval_ok v = true | inr _ => True end) -> values_ok (map snd rh) ->
  service_encode fuel hp so r rh = CEOk ops -> ops_ok ops = true.
Proof.
  intros Hh Hr Hv H. destruct (service_encode_split _ _ _ _ H) as (hops & Eh & Hops).
  assert (Hv1 : forallb gval_ok (map snd (with_simple (s_simple so) rh)) = true).
  { unfold with_simple. destruct (s_simple so); [apply map_snd_hset; auto|exact Hv]. }
  pose proof (headers_ops_ok _ _ _ Hh Hv1 Eh) as Hho.
  assert (Herr : forall msg, ops_ok (hops ++ [OVal (WErr (string_wire msg)); OTag t_z]) = true).
  { intros msg. rewrite ops_ok_app, Hho. unfold ops_ok. cbn [strip forallb item_ok tok_ok].
    rewrite is_ptag_z, (string_wire_ok _ (str_ok_all msg)). reflexivity. }
  destruct r as [v|e]; [|rewrite Hops; apply Herr].
  destruct v; try (rewrite Hops; apply Herr);
    destruct Hops as (st & w & E & ->); rewrite ops_ok_app, Hho; unfold ops_ok; cbn [strip forallb item_ok];
    rewrite is_ptag_R, is_ptag_z, (write_top_tok_ok _ hp _ _ _ _ _ Hr Hh E); reflexivity.
Qed.

(* reading a message that starts with a header segment or not *)
Lemma client_decode_frame co rts so rh hops tail :
  heap_ok hp = true -> values_ok (map snd rh) -> hfind s_simple_key rh = None ->
  Forall (fun kv => fits (snd kv) TIface) rh -> (s_simple so = true -> fits (GBool true) TIface) ->
  enc_headers fuel hp (s_simple so) (with_simple (s_simple so) rh) = CEOk hops ->
  ops_ok (hops ++ tail) = true ->
  (exists i r, strip tail = i :: r /\ match i with ITag t => Byte.eqb t t_H = false | IVal _ => True end) ->
  exists h0 tr0,
    client_decode io_dec io_dec_hdrs zero co rts (emit_ops (hops ++ tail)) =
      client_decode_body io_dec zero co rts h0 tr0 (strip tail) /\
    h0 = conv_headers (c_dec co) (with_simple (s_simple so) rh) /\
    get_bool s_simple_key h0 = s_simple so /\
    ((hops = [] /\ tr0 = []) \/
     (exists hw, hops = [OTag t_H; OVal hw; OReset] /\ tr0 = [DNext t_H; DRead false hw; DReset] /\
                 scope_closed [hw] = true)).
Proof.
  intros Hh Hv Hres Hfit Hfb Eh Hok (i & r & Est & Hi).
  set (h1 := with_simple (s_simple so) rh) in *.
  assert (Hfit1 : Forall (fun kv => fits (snd kv) TIface) h1).
  { unfold h1, with_simple. destruct (s_simple so); [apply fits_bool_simple; auto|exact Hfit]. }
  assert (Hflag : get_bool s_simple_key (conv_headers (c_dec co) h1) = s_simple so)
    by (apply get_bool_with_simple; exact Hres).
  exists (conv_headers (c_dec co) h1).
  unfold client_decode. rewrite emit_ops_strip, (parse_msg_emit _ Hok).
  unfold client_decode_items. rewrite strip_app.
  destruct (enc_headers_cases _ _ _ Eh) as [[Hnil ->]|(Hne & sth & hw & Ehw & ->)].
  - exists []. cbn [strip app]. rewrite Est.
    assert (Erh : read_headers io_dec_hdrs (c_dec co) (i :: r) = (Some [], i :: r, [])).
    { destruct i as [t|w]; [apply read_headers_skip; exact Hi|apply read_headers_val]. }
    rewrite Erh. rewrite Hnil. cbn [conv_headers map]. rewrite Hnil in Hflag. cbn [conv_headers map] in Hflag.
    split; [reflexivity|]. split; [reflexivity|]. split; [exact Hflag|]. left. auto.
  - exists [DNext t_H; DRead false hw; DReset].
    pose proof (Hhdrs (c_dec co) (s_simple so) false h1 _ _ _ ltac:(intros Hx; discriminate) Hfit1 Ehw) as Hdh.
    fold (conv_headers (c_dec co) h1) in Hdh.
    cbn [strip app]. rewrite read_headers_H, Hdh.
    destruct (top_scope_closed _ _ _ _ _ Ehw) as [Hhcl _].
    split; [reflexivity|]. split; [reflexivity|]. split; [exact Hflag|]. right. exists hw. auto.
Qed.

Theorem response_roundtrip_values : forall so co rts vs rh ops,
  heap_ok hp = true -> gval_ok (shape vs) = true -> values_ok (map snd rh) ->
  hfind s_simple_key rh = None ->
  Forall (fun kv => fits (snd kv) TIface) rh -> (s_simple so = true -> fits (GBool true) TIface) ->
  is_error_value (shape vs) = false -> results_fit rts vs ->
  service_encode fuel hp so (inl (shape vs)) rh = CEOk ops ->
  fst (client_decode io_dec io_dec_hdrs zero co rts (emit_ops ops)) =
  CDRes (conv_headers (c_dec co) (with_simple (s_simple so) rh)) (expected_results (c_dec co) rts vs).
Proof.
  intros so co rts vs rh ops Hh Hg Hv Hres Hfit Hfb Hne Hrf H.
  pose proof (response_ops_ok so (inl (shape vs)) rh ops Hh Hg Hv H) as Hok.
  destruct (service_encode_split _ _ _ _ H) as (hops & Eh & Hops).
  assert (Hops' : exists st w, write_top hp (S fuel) (s_simple so) einit (shape vs) = EOk st w /\
                               ops = hops ++ [OTag t_R; OVal w; OTag t_z]).
  { destruct (shape vs); try exact Hops. discriminate. }
  clear Hops. destruct Hops' as (st & w & Ew & ->).
  destruct (client_decode_frame co rts so rh hops [OTag t_R; OVal w; OTag t_z] Hh Hv Hres Hfit Hfb Eh Hok)
    as (h0 & tr0 & -> & -> & Hflag & _).
  { exists (ITag t_R), [IVal w; ITag t_z]. split; reflexivity. }
  cbn [strip]. unfold client_decode_body. change (Byte.eqb t_R t_R) with true. cbn iota. rewrite Hflag.
  unfold expected_results, results_fit in *.
  destruct rts as [|t0 [|t1 rts]].
  - reflexivity.
  - destruct Hrf as [Hf Hnt].
    rewrite (Hval (c_dec co) (s_simple so) (s_simple so) t0 (shape vs) _ _ _ ltac:(intros Hx; exact Hx) Hf Hnt Ew).
    reflexivity.
  - destruct Hrf as [Hlen Hf].
    assert (Es : shape vs = GSlice vs) by (destruct vs as [|v1 [|v2 vs]]; cbn in Hlen; try lia; reflexivity).
    rewrite Es in Ew. destruct (write_slice_shape _ _ _ _ _ _ _ Ew) as (ws & -> & Hl).
    rewrite Hl.
    rewrite (Htuple (c_dec co) (s_simple so) (s_simple so) (firstn (length vs) (t0 :: t1 :: rts)) vs _ _ _
               ltac:(intros Hx; exact Hx) ltac:(rewrite firstn_length; lia) Hf Ew).
    reflexivity.
Qed.

(* an error: the text the service chose arrives as the error's message; "timeout" is mapped to ErrTimeout,
   whose message is the same text *)
Theorem response_roundtrip_error : forall so co rts e rh ops,
  heap_ok hp = true -> values_ok (map snd rh) -> hfind s_simple_key rh = None ->
  Forall (fun kv => fits (snd kv) TIface) rh -> (s_simple so = true -> fits (GBool true) TIface) ->
  service_encode fuel hp so (inr e) rh = CEOk ops ->
  fst (client_decode io_dec io_dec_hdrs zero co rts (emit_ops ops)) =
  CDErr (conv_headers (c_dec co) (with_simple (s_simple so) rh)) (error_text (s_debug so) e)
        (bytes_eqb (error_text (s_debug so) e) s_timeout).
Proof.
  intros so co rts e rh ops Hh Hv Hres Hfit Hfb H.
  pose proof (response_ops_ok so (inr e) rh ops Hh I Hv H) as Hok.
  destruct (service_encode_split _ _ _ _ H) as (hops & Eh & ->).
  destruct (client_decode_frame co rts so rh hops _ Hh Hv Hres Hfit Hfb Eh Hok)
    as (h0 & tr0 & -> & -> & Hflag & _).
  { eexists (IVal _), _. split; [reflexivity|exact I]. }
  cbn [strip]. unfold client_decode_body. rewrite dec_string_wire. reflexivity.
Qed.

(* a result that IS an error value is sent with the error tag: the caller gets a failure, not the value *)
Theorem response_error_value : forall so co rts msg rh ops,
  heap_ok hp = true -> values_ok (map snd rh) -> hfind s_simple_key rh = None ->
  Forall (fun kv => fits (snd kv) TIface) rh -> (s_simple so = true -> fits (GBool true) TIface) ->
  service_encode fuel hp so (inl (GError msg)) rh = CEOk ops ->
  fst (client_decode io_dec io_dec_hdrs zero co rts (emit_ops ops)) =
  CDErr (conv_headers (c_dec co) (with_simple (s_simple so) rh)) msg (bytes_eqb msg s_timeout).
Proof.
  intros so co rts msg rh ops Hh Hv Hres Hfit Hfb H.
  pose proof (response_ops_ok so (inl (GError msg)) rh ops Hh eq_refl Hv H) as Hok.
  destruct (service_encode_split _ _ _ _ H) as (hops & Eh & ->).
  destruct (client_decode_frame co rts so rh hops _ Hh Hv Hres Hfit Hfb Eh Hok)
    as (h0 & tr0 & -> & -> & Hflag & _).
  { eexists (IVal _), _. split; [reflexivity|exact I]. }
  cbn [strip]. unfold client_decode_body. rewrite dec_string_wire. reflexivity.
Qed.

Theorem response_aligned : forall so co rts r rh ops,
  heap_ok hp = true -> (match r with inl v => gval_ok v = true | inr _ => True end) -> values_ok (map snd rh) ->
  hfind s_simple_key rh = None ->
  Forall (fun kv => fits (snd kv) TIface) rh -> (s_simple so = true -> fits (GBool true) TIface) ->
  rts <> [] ->
  service_encode fuel hp so r rh = CEOk ops ->
  aligned ops (snd (client_decode io_dec io_dec_hdrs zero co rts (emit_ops ops))).
Proof.
  intros so co rts r rh ops Hh Hr Hv Hres Hfit Hfb Hrts H.
  pose proof (response_ops_ok so r rh ops Hh Hr Hv H) as Hok.
  destruct (service_encode_split _ _ _ _ H) as (hops & Eh & Hops).
  assert (Herr : forall msg, ops = hops ++ [OVal (WErr (string_wire msg)); OTag t_z] ->
            aligned ops (snd (client_decode io_dec io_dec_hdrs zero co rts (emit_ops ops)))).
  { intros msg ->.
    destruct (client_decode_frame co rts so rh hops _ Hh Hv Hres Hfit Hfb Eh Hok)
      as (h0 & tr0 & -> & -> & Hflag & Hh0).
    { eexists (IVal _), _. split; [reflexivity|exact I]. }
    cbn [strip]. unfold client_decode_body. rewrite dec_string_wire. cbn [snd].
    assert (Hcl : scope_closed [WErr (string_wire msg)] = true).
    { unfold scope_closed. cbn [closed_seq closed]. rewrite string_wire_closed. reflexivity. }
    destruct Hh0 as [[-> ->]|(hw & -> & -> & Hhcl)]; unfold aligned, dscopes, scopes;
      cbn [app dscopes_aux scopes_aux rev map snd].
    - split; [reflexivity|]. split; repeat constructor; exact Hcl.
    - split; [reflexivity|]. split; repeat constructor; assumption. }
  destruct r as [v|e]; [|eapply Herr; exact Hops].
  assert (Hv' : (exists msg, ops = hops ++ [OVal (WErr (string_wire msg)); OTag t_z]) \/
                (exists st w, write_top hp (S fuel) (s_simple so) einit v = EOk st w /\
                              ops = hops ++ [OTag t_R; OVal w; OTag t_z])).
  { destruct v; try (right; exact Hops). left. eexists; exact Hops. }
  clear Hops. destruct Hv' as [(msg & Hm)|(st & w & Ew & ->)]; [eapply Herr; exact Hm|].
  destruct (client_decode_frame co rts so rh hops _ Hh Hv Hres Hfit Hfb Eh Hok)
    as (h0 & tr0 & -> & -> & Hflag & Hh0).
  { exists (ITag t_R), [IVal w; ITag t_z]. split; reflexivity. }
  destruct (top_scope_closed _ _ _ _ _ Ew) as [Hcl Hnr].
  cbn [strip]. unfold client_decode_body. change (Byte.eqb t_R t_R) with true. cbn iota. rewrite Hflag.
  match goal with |- aligned _ (snd ?t) => assert (Esnd : snd t = tr0 ++ [DNext t_R; DRead (s_simple so) w]) end.
  { destruct rts as [|t0 [|t1 r']]; [contradiction| |].
    - destruct (io_dec _ _ _ _); reflexivity.
    - destruct w; try (destruct (io_dec _ _ _ _); reflexivity). }
  rewrite Esnd.
  destruct Hh0 as [[-> ->]|(hw & -> & -> & Hhcl)]; unfold aligned, dscopes, scopes;
    cbn [app dscopes_aux scopes_aux rev map snd].
  - split; [reflexivity|]. split; repeat constructor; [exact Hcl|apply readable_mode; exact Hnr].
  - split; [reflexivity|]. split; repeat constructor; try assumption. apply readable_mode; exact Hnr.
Qed.

End C07.

(* ---- a decode failure in the header map is reported whether or not an argument list follows *)

Theorem header_error_reported : forall lower io_dec io_dec_hdrs so svc hw name m,
  io_dec_hdrs (s_dec so) false hw = None -> lookup lower svc name = Some m ->
  fst (service_decode_items lower io_dec io_dec_hdrs so svc
         [ITag t_H; IVal hw; ITag t_C; IVal (string_wire name); ITag t_z]) = SDDecodeError.
Proof.
  intros lower io_dec io_dec_hdrs so svc hw name m Hd Hlk.
  unfold service_decode_items. rewrite read_headers_H_gen, Hd.
  unfold service_decode_call. change (Byte.eqb t_C t_C) with true. cbn iota.
  rewrite dec_string_wire, Hlk. reflexivity.
Qed.

Theorem header_error_reported_with_arguments : forall lower io_dec io_dec_hdrs so svc hw name m ws,
  io_dec_hdrs (s_dec so) false hw = None -> lookup lower svc name = Some m ->
  fst (service_decode_items lower io_dec io_dec_hdrs so svc
         [ITag t_H; IVal hw; ITag t_C; IVal (string_wire name); IVal (WList ws); ITag t_z]) = SDDecodeError.
Proof.
  intros lower io_dec io_dec_hdrs so svc hw name m ws Hd Hlk.
  unfold service_decode_items. rewrite read_headers_H_gen, Hd.
  unfold service_decode_call. change (Byte.eqb t_C t_C) with true. cbn iota.
  rewrite dec_string_wire, Hlk.
  destruct (io_dec (s_dec so) (get_bool s_simple_key [])
              (if m_missing m then TIfaceSlice else TTuple (param_types m (length ws))) (WList ws)); reflexivity.
Qed.

(* ---- every decoder option reaches the decoder of the codec it was given to, and no other ------------------ *)

(* the codecs consult the io decoder only at their OWN configured options: two io decoders that agree at
   [c_dec co] (resp. [s_dec so]) cannot be told apart through the client (resp. service) codec *)
Lemma read_headers_ext h1 h2 d m :
  (forall s w, h1 d s w = h2 d s w) -> read_headers h1 d m = read_headers h2 d m.
Proof.
  intros H. unfold read_headers. destruct m as [|[t|w] [|[t'|hw] rest]]; try reflexivity.
  destruct (Byte.eqb t t_H); [rewrite H|]; reflexivity.
Qed.

Lemma client_decode_body_ext io1 io2 zero co rts h tr rest :
  (forall s t w, io1 (c_dec co) s t w = io2 (c_dec co) s t w) ->
  client_decode_body io1 zero co rts h tr rest = client_decode_body io2 zero co rts h tr rest.
Proof.
  intros H. unfold client_decode_body.
  destruct rest as [|[t|w] rest1]; try reflexivity.
  destruct (Byte.eqb t t_R); [|reflexivity].
  destruct rts as [|t0 [|t1 rts']]; [reflexivity| |].
  - destruct rest1 as [|[t'|w] r]; try reflexivity. rewrite H. reflexivity.
  - destruct rest1 as [|[t'|w] r]; try reflexivity.
    destruct w; rewrite ?H; reflexivity.
Qed.

Theorem client_decode_uses_its_options io1 io2 h1 h2 zero co rts resp :
  (forall s t w, io1 (c_dec co) s t w = io2 (c_dec co) s t w) ->
  (forall s w, h1 (c_dec co) s w = h2 (c_dec co) s w) ->
  client_decode io1 h1 zero co rts resp = client_decode io2 h2 zero co rts resp.
Proof.
  intros Hio Hh. unfold client_decode. destruct (parse_msg resp) as [m|]; [|reflexivity].
  unfold client_decode_items. rewrite (read_headers_ext h1 h2 (c_dec co) m Hh).
  destruct (read_headers h2 (c_dec co) m) as [[[hh|] rest] tr]; [|reflexivity].
  apply client_decode_body_ext. exact Hio.
Qed.

Lemma service_decode_call_ext lower io1 io2 so svc h tr rest :
  (forall s t w, io1 (s_dec so) s t w = io2 (s_dec so) s t w) ->
  service_decode_call lower io1 so svc h tr rest = service_decode_call lower io2 so svc h tr rest.
Proof.
  intros H. unfold service_decode_call.
  destruct rest as [|[t|w] rest1]; try reflexivity.
  destruct (Byte.eqb t t_C); [|reflexivity].
  destruct rest1 as [|[t'|nw] rest2]; try reflexivity.
  destruct (dec_string nw) as [name|]; [|reflexivity].
  destruct (lookup lower svc name) as [mt|]; [|reflexivity].
  destruct rest2 as [|[t'|w] r]; try reflexivity.
  destruct w; try reflexivity. rewrite H. reflexivity.
Qed.

Theorem service_decode_uses_its_options lower io1 io2 h1 h2 so svc req :
  (forall s t w, io1 (s_dec so) s t w = io2 (s_dec so) s t w) ->
  (forall s w, h1 (s_dec so) s w = h2 (s_dec so) s w) ->
  service_decode lower io1 h1 so svc req = service_decode lower io2 h2 so svc req.
Proof.
  intros Hio Hh. unfold service_decode. destruct req as [|b req]; [reflexivity|].
  destruct (parse_msg (b :: req)) as [m|]; [|reflexivity].
  unfold service_decode_items. rewrite (read_headers_ext h1 h2 (s_dec so) m Hh).
  destruct (read_headers h2 (s_dec so) m) as [[[hh|] rest] tr];
    rewrite (service_decode_call_ext lower io1 io2 so svc _ tr rest Hio); reflexivity.
Qed.

(* ================================================================== D. the JSON-RPC envelope *)

Section JsonRpcProofs.
Variable lower : bytes -> bytes.
Variable jmarshal_req : jrequest -> bytes.
Variable junmarshal_req : bytes -> option jrequest.
Variable jmarshal_resp : jresponse -> bytes.
Variable junmarshal_resp : bytes -> option jresponse.
Variable jconv : pty -> gval -> option gval.

(* the JSON oracle: what a Go value is after Marshal + Unmarshal into interface{} ([jnorm]: numbers become
   float64, structs become maps, ...), and after a second trip into a Go type ([jconvert]); both only claimed
   for JSON-representable values ([jrep]) *)
Variable jnorm : gval -> gval.
Variable jconvert : pty -> gval -> gval.
Variable jrep : gval -> Prop.
Variable jfits : gval -> pty -> Prop.

Definition jnorm_h (h : headers) : headers := map (fun kv => (fst kv, jnorm (snd kv))) h.

Definition jreq_rep (q : jrequest) : Prop :=
  (match jq_headers q with Some h => Forall (fun kv => jrep (snd kv)) h | None => True end) /\
  (match jq_params q with Some l => Forall jrep l | None => True end).

Definition jresp_rep (p : jresponse) : Prop :=
  (match jp_headers p with Some h => Forall (fun kv => jrep (snd kv)) h | None => True end) /\
  (match jp_result p with Some v => jrep v /\ jnorm v <> GNil | None => True end).

(* jsoniter round trips of the two envelopes: what Unmarshal(Marshal(q)) must give.  These are oracle facts
   about one concrete envelope; the theorems take them as a premise about the envelope at hand. *)
Definition jnorm_req (q : jrequest) : jrequest :=
  {| jq_id := jq_id q; jq_method := jq_method q;
     jq_headers := option_map jnorm_h (jq_headers q);
     jq_params := option_map (map jnorm) (jq_params q) |}.

Definition jnorm_resp (p : jresponse) : jresponse :=
  {| jp_id := jp_id p; jp_headers := option_map jnorm_h (jp_headers p);
     jp_result := option_map jnorm (jp_result p); jp_error := jp_error p |}.

Definition J_request (q : jrequest) : Prop := junmarshal_req (jmarshal_req q) = Some (jnorm_req q).
Definition J_response (p : jresponse) : Prop := junmarshal_resp (jmarshal_resp p) = Some (jnorm_resp p).

(* the second trip of one value into a Go type *)
Definition J_value : Prop := forall t v, jrep v -> jfits v t -> jconv t (jnorm v) = Some (jconvert t v).
(* a JSON array is read back as a []interface{} of its elements *)
Definition J_array : Prop := forall vs, jnorm (GSlice vs) = GSlice (map jnorm vs).

Hypothesis Hvalue : J_value.
Hypothesis Harray : J_array.

Fixpoint jfits_all (ts : list pty) (vs : list gval) : Prop :=
  match ts, vs with
  | t :: tr, v :: vr => jfits v t /\ jfits_all tr vr
  | _, _ => True
  end.

(* an argument beyond the parameters keeps its generic JSON value *)
Definition jconvert_arg (t : pty) (v : gval) : gval :=
  match t with TSurplus => jnorm v | _ => jconvert t v end.

Fixpoint jfits_args (ts : list pty) (vs : list gval) : Prop :=
  match ts, vs with
  | TSurplus :: tr, _ :: vr => jfits_args tr vr
  | t :: tr, v :: vr => jfits v t /\ jfits_args tr vr
  | _, _ => True
  end.

Lemma jconv_args_ok : forall ts vs, length ts = length vs ->
  Forall jrep vs -> jfits_args ts vs ->
  jconv_args jconv ts (map jnorm vs) = Some (zipconv jconvert_arg ts vs).
Proof.
  induction ts as [|t ts IH]; intros [|v vs] Hl Hr Hf; try discriminate; [reflexivity|].
  cbn [map jconv_args zipconv]. inversion Hr; subst.
  destruct t; cbn [jfits_args jconvert_arg] in *;
    try (destruct Hf as [Hf1 Hf2]; rewrite (Hvalue _ _ H1 Hf1);
         rewrite (IH vs ltac:(cbn in Hl; lia) H2 Hf2); reflexivity).
  rewrite (IH vs ltac:(cbn in Hl; lia) H2 Hf). reflexivity.
Qed.

Definition jexpected_args (m : method) (args : list gval) : list gval :=
  if m_missing m then map jnorm args else zipconv jconvert_arg (param_types m (length args)) args.

Theorem jsonrpc_request_roundtrip : forall svc counter name args h m,
  name <> [] -> lookup lower svc name = Some m ->
  J_request (jrequest_of counter name args h) -> Forall jrep args ->
  (m_missing m = false -> jfits_args (param_types m (length args)) args) ->
  let '(counter', req) := jclient_encode jmarshal_req counter name args h in
  counter' = (counter + 1)%Z /\
  jservice_decode lower junmarshal_req jconv svc req =
  JSOk (Z.land (counter + 1) 2147483647)
       {| rq_name := name; rq_headers := jnorm_h h; rq_method := m; rq_args := jexpected_args m args |}.
Proof.
  intros svc counter name args h m Hname Hlk Hq Ha Hf.
  unfold jclient_encode. split; [reflexivity|].
  unfold jservice_decode. rewrite Hq. unfold jnorm_req, jrequest_of.
  cbn [jq_method jq_id jq_headers jq_params].
  destruct name as [|b name]; [contradiction|]. rewrite Hlk.
  assert (Eh : forall (o : option headers), o = match h with [] => None | _ :: _ => @Some headers h end ->
               match option_map jnorm_h o with Some h0 => h0 | None => [] end = jnorm_h h)
    by (intros o ->; destruct h; reflexivity).
  assert (Ep : forall (o : option (list gval)), o = match args with [] => None | _ :: _ => Some args end ->
               match option_map (map jnorm) o with Some l => l | None => [] end = map jnorm args)
    by (intros o ->; destruct args; reflexivity).
  rewrite (Eh _ eq_refl), (Ep _ eq_refl). unfold jexpected_args.
  destruct (m_missing m) eqn:Em; [reflexivity|].
  rewrite map_length.
  rewrite (jconv_args_ok _ _ (param_types_length m (length args)) Ha (Hf eq_refl)). reflexivity.
Qed.

(* results *)
Definition jexpected_results (rts : list pty) (vs : list gval) : list gval :=
  match shape vs with
  | GNil => []
  | v =>
      match rts with
      | [] => []
      | [t] => [jconvert t v]
      | _ => zipconv jconvert rts vs
      end
  end.

Lemma jconv_results_ok : forall vs ts,
  Forall jrep vs -> jfits_all ts vs ->
  jconv_results jconv ts (map jnorm vs) = Some (zipconv jconvert ts vs).
Proof.
  induction vs as [|v vs IH]; intros ts Hr Hf; [destruct ts; reflexivity|].
  destruct ts as [|t ts]; [reflexivity|]. cbn [map jconv_results zipconv].
  inversion Hr; subst. destruct Hf as [Hf1 Hf2].
  rewrite (Hvalue _ _ H1 Hf1). rewrite (IH ts H2 Hf2). reflexivity.
Qed.

Lemma jenc_value id v rh : is_error_value v = false -> v <> GNil ->
  jresponse_of id (inl v) rh =
  {| jp_id := id; jp_headers := match rh with [] => None | _ => Some rh end;
     jp_result := Some v; jp_error := None |}.
Proof. intros He Hn. destruct v; try discriminate; try reflexivity. contradiction. Qed.

Lemma jexpected_value rts vs : shape vs <> GNil ->
  jexpected_results rts vs =
  match rts with [] => [] | [t] => [jconvert t (shape vs)] | _ => zipconv jconvert rts vs end.
Proof. intros Hn. unfold jexpected_results. destruct (shape vs); try reflexivity. contradiction. Qed.

Theorem jsonrpc_response_roundtrip : forall id rts vs rh,
  is_error_value (shape vs) = false ->
  J_response (jresponse_of id (inl (shape vs)) rh) -> jrep (shape vs) ->
  match rts with
  | [] => True
  | [t] => jfits (shape vs) t
  | _ => (2 <= length vs)%nat /\ Forall jrep vs /\ jfits_all rts vs
  end ->
  jclient_decode junmarshal_resp jconv rts (jservice_encode jmarshal_resp id (inl (shape vs)) rh) =
  JCRes id (jnorm_h rh) (jexpected_results rts vs).
Proof.
  intros id rts vs rh Hne Hp Hr Hf.
  assert (Ehh : forall o : option headers, o = match rh with [] => None | _ :: _ => @Some headers rh end ->
            match option_map jnorm_h o with Some h0 => h0 | None => [] end = jnorm_h rh)
    by (intros o ->; destruct rh; reflexivity).
  assert (Hd : shape vs = GNil \/ shape vs <> GNil) by (destruct (shape vs); auto; right; discriminate).
  destruct Hd as [Hnil|Hnot].
  - (* nil result: nothing is sent *)
    unfold jservice_encode, jclient_decode. rewrite Hp.
    unfold jexpected_results. rewrite Hnil. unfold jnorm_resp, jresponse_of.
    cbn [jp_id jp_headers jp_result jp_error option_map]. rewrite (Ehh _ eq_refl). reflexivity.
  - rewrite (jexpected_value _ _ Hnot). unfold jservice_encode, jclient_decode.
    rewrite Hp. rewrite (jenc_value _ _ _ Hne Hnot). unfold jnorm_resp.
    cbn [jp_id jp_headers jp_result jp_error option_map]. rewrite (Ehh _ eq_refl).
    destruct rts as [|t0 [|t1 rts]].
    + reflexivity.
    + rewrite (Hvalue _ _ Hr Hf). reflexivity.
    + destruct Hf as [Hl1 [Hrv Hfa]].
      assert (Esl : shape vs = GSlice vs) by (destruct vs as [|v1 [|v2 vs']]; cbn in Hl1; try lia; reflexivity).
      rewrite Esl, Harray. rewrite (jconv_results_ok vs _ Hrv Hfa). reflexivity.
Qed.

(* errors: code / message / data mapping *)
Definition jerr_norm (e : jerrv) : jerrv :=
  match e with
  | JProto code msg => if (code =? 0)%Z then JPlain msg else JProto code msg
  | JPanic msg [] => JPlain msg
  | other => other
  end.

Theorem jsonrpc_response_error : forall id rts e rh,
  J_response (jresponse_of id (inr e) rh) ->
  jclient_decode junmarshal_resp jconv rts (jservice_encode jmarshal_resp id (inr e) rh) =
  JCErr id (jnorm_h rh) (jerr_norm e).
Proof.
  intros id rts e rh Hp. unfold jservice_encode, jclient_decode. rewrite Hp. unfold jnorm_resp, jresponse_of.
  assert (Ehh : forall o : option headers, o = match rh with [] => None | _ :: _ => @Some headers rh end ->
            match option_map jnorm_h o with Some h0 => h0 | None => [] end = jnorm_h rh)
    by (intros o ->; destruct rh; reflexivity).
  destruct e as [code msg|msg stack|msg];
    cbn [jp_id jp_headers jp_result jp_error option_map je_code je_message je_data]; rewrite (Ehh _ eq_refl);
    cbn [jerr_norm].
  - destruct (code =? 0)%Z; reflexivity.
  - destruct stack; reflexivity.
  - reflexivity.
Qed.

(* the message the caller sees is the function's, whichever branch *)
Lemma jerr_text_norm e : (forall code msg, e <> JProto code msg) -> jerr_text (jerr_norm e) = jerr_text e.
Proof. destruct e as [code msg|msg [|b st]|msg]; intros H; try reflexivity. exfalso. eapply H; reflexivity. Qed.

End JsonRpcProofs.
