(* C19: the lemmas that Props/C19.v states, over schedules. *)
From Coq Require Import List ZArith Bool Arith Lia Permutation.
From HV Require Import Model.Push Proofs.PushBase Proofs.PushInv Proofs.PushData Proofs.PushOrder
                       Proofs.PushLive Proofs.PushGuard Proofs.PushFixed Proofs.PushSub.
Import ListNotations.

Lemma run_InvAll b sched s : run (init_of b) sched = Some s -> InvAll s.
Proof. intros H. apply InvAll_reach. eapply run_reach; [apply (reach_init b)|exact H]. Qed.

(* a message is only ever handed to the client whose subscription installed the cache it
   was accepted into, under that subscription's topic *)
Lemma only_subscribers : forall b sched s, run (init_of b) sched = Some s ->
  forall id e, In (id, e) (delivered s) ->
  exists ca, nth_error (caches s) (e_cache e) = Some ca /\ cown ca = (id, e_topic e) /\
             forall m, In m (e_msgs e) -> In m (cacc ca) /\ In (id, e_topic e, m) (accepted s).
Proof.
  intros b sched s H id e Hin. destruct (run_InvAll _ _ _ H) as [_ HD _].
  destruct (t_del s HD _ _ Hin) as (ca & pre & post & Hc & Ho & Ht & _).
  exists ca. repeat split; auto.
  - unfold cacc. rewrite Ht. apply in_or_app. left. apply in_or_app. right. apply in_or_app. left. exact H0.
  - pose proof (t_acc s HD _ ca m Hc) as Ha. rewrite Ho in Ha. cbn in Ha. apply Ha.
    unfold cacc. rewrite Ht. apply in_or_app. left. apply in_or_app. right. apply in_or_app. left. exact H0.
Qed.

(* what was delivered from a cache is a subsequence of what was accepted into it *)
Lemma order_preserved : forall b sched s, run (init_of b) sched = Some s ->
  forall c ca, nth_error (caches s) c = Some ca -> Subseq (dmsgs c (delivered s)) (cacc ca).
Proof.
  intros b sched s H c ca Hc. destruct (run_InvAll _ _ _ H) as [_ _ HO].
  destruct (o_hw s HO _ _ Hc) as [_ Hs].
  eapply Subseq_trans; [exact Hs|]. eapply Subseq_trans; [apply Subseq_firstn|].
  unfold cacc. apply Subseq_app_r. apply Subseq_refl.
Qed.

Lemma no_duplicates : forall b sched s, run (init_of b) sched = Some s ->
  forall c ca, nth_error (caches s) c = Some ca ->
  forall m, count_occ Z.eq_dec (dmsgs c (delivered s)) m <= count_occ Z.eq_dec (cacc ca) m.
Proof. intros. apply Subseq_count. eapply order_preserved; eauto. Qed.

Lemma no_duplicates_nodup : forall b sched s, run (init_of b) sched = Some s ->
  forall c ca, nth_error (caches s) c = Some ca -> NoDup (cacc ca) -> NoDup (dmsgs c (delivered s)).
Proof. intros. eapply Subseq_NoDup; [eapply order_preserved; eauto|assumption]. Qed.

(* the topics of one poll result are distinct: the list is the Go map *)
Lemma batch_topics_distinct : forall b sched s, run (init_of b) sched = Some s ->
  forall p pl b, nth_error (polls s) p = Some pl -> nth_error (chans s) p = Some (VBatch b) ->
  NoDup (map e_topic b).
Proof.
  intros b0 sched s H p pl b Hp Hb. destruct (run_InvAll _ _ _ H) as [_ HD _].
  destruct (t_chan s HD _ _ _ Hp Hb) as [_ Hn]. exact Hn.
Qed.

(* ---- under the guard *)

Lemma guarded_core s : greach tag_ok s ->
  forall c ca, nth_error (caches s) c = Some ca ->
  dmsgs c (delivered s) = firstn (length (dmsgs c (delivered s))) (cacc ca) /\
  Permutation (cacc ca) (dmsgs c (delivered s) ++ live s c ++ cmsgs ca).
Proof.
  intros Hg c ca Hc. destruct (InvFull_greach s Hg) as [[HJ HD HO] H5 HG].
  pose proof (g_eq s HG _ _ Hc) as E. pose proof (g_perm s HG _ _ Hc) as P.
  destruct (o_hw s HO _ _ Hc) as [Hle _].
  split.
  - rewrite E at 2. rewrite firstn_length_le by exact Hle.
    unfold cacc. rewrite firstn_app_le by exact Hle. exact E.
  - unfold cacc. rewrite app_assoc. apply Permutation_app_tail. exact P.
Qed.

Lemma exactly_once_partial : forall sched s, run_avoiding hazard init sched = Some s ->
  forall c ca, nth_error (caches s) c = Some ca ->
  dmsgs c (delivered s) = firstn (length (dmsgs c (delivered s))) (cacc ca) /\
  Permutation (cacc ca) (dmsgs c (delivered s) ++ live s c ++ cmsgs ca).
Proof.
  intros sched s H. apply guarded_core. eapply run_avoiding_hazard_greach; [apply (greach_init tag_ok false)|exact H].
Qed.

Lemma exactly_once_no_timeout : forall sched s, run_avoiding is_timeout init sched = Some s ->
  forall c ca, nth_error (caches s) c = Some ca ->
  dmsgs c (delivered s) = firstn (length (dmsgs c (delivered s))) (cacc ca) /\
  Permutation (cacc ca) (dmsgs c (delivered s) ++ live s c ++ cmsgs ca).
Proof.
  intros sched s H. apply guarded_core. apply greach_no_timeout_ok.
  eapply run_avoiding_timeout_greach; [apply (greach_init (fun _ => tag_no_timeout) false)|exact H].
Qed.

(* nothing in flight: accepted = delivered ++ still cached, as sequences *)
Lemma exactly_once_quiescent : forall sched s, run_avoiding hazard init sched = Some s ->
  forall c ca, nth_error (caches s) c = Some ca -> live s c = [] ->
  cacc ca = dmsgs c (delivered s) ++ cmsgs ca.
Proof.
  intros sched s H c ca Hc Hl.
  assert (Hg : greach tag_ok s) by (eapply run_avoiding_hazard_greach; [apply (greach_init tag_ok false)|exact H]).
  destruct (InvFull_greach s Hg) as [[HJ HD HO] H5 HG].
  pose proof (g_eq s HG _ _ Hc) as E. pose proof (g_perm s HG _ _ Hc) as P.
  rewrite Hl, app_nil_r in P. unfold cacc. f_equal.
  symmetry. rewrite E. apply firstn_all2. rewrite (Permutation_length P), E, firstn_length. lia.
Qed.

(* a run that avoids hazards is a run *)
Lemma run_avoiding_run bad : forall sched s s', run_avoiding bad s sched = Some s' -> run s sched = Some s'.
Proof.
  induction sched as [|e r IH]; cbn; intros s s' H; [exact H|].
  destruct (bad s e); [discriminate|]. destruct (step s e) as [s1|]; [|discriminate]. auto.
Qed.

(* ---- the finding *)

Definition rep {A} (n : nat) (x : A) : list A := repeat x n.

(* subscribe(1, topic 7); poll(1) times out; Unicast(42, topic 7, id 1) is accepted;
   poll(1) again: nothing, and it times out too *)
Definition witness : list event :=
  [ESpawn (OSub 1 7)] ++ rep 3 (EWork 0 0) ++
  [ESpawn (OPoll 1)] ++ rep 8 (EPoll 0 0) ++ [EPoll 0 1] ++
  [ESpawn (OUni 7 42%Z 1)] ++ rep 7 (EWork 2 0) ++
  [ESpawn (OPoll 1)] ++ rep 8 (EPoll 1 0) ++ [EPoll 1 1].

Definition pub_result (s : state) (w : nat) : option (list (nat * bool)) :=
  match nth_error (works s) w with
  | Some wk => match wf wk with WPub _ _ [] res PubNext => Some res | WPub _ _ _ res PubDone => Some res | _ => None end
  | None => None
  end.

Lemma refuted_timeout_window :
  exists s ca, run init witness = Some s /\
    nth_error (caches s) 0 = Some ca /\ cown ca = (1, 7) /\
    pub_result s 2 = Some [(1, true)] /\                      (* the publish reported success *)
    cacc ca = [42%Z] /\                                       (* it was accepted *)
    poll_result s 0 = Some RTimeout /\ poll_result s 1 = Some RTimeout /\  (* both polls returned {} *)
    delivered s = [] /\ live s 0 = [] /\ cmsgs ca = [] /\     (* it is nowhere a poll will ever look *)
    nth_error (chans s) 0 = Some (VBatch [(7, 0, 0, [42%Z])]).  (* it sits in the abandoned responder *)
Proof. eexists. eexists. vm_compute. repeat split; reflexivity. Qed.

(* the full-strength statement *)
Definition exactly_once_in_order_statement : Prop :=
  forall sched s, run init sched = Some s ->
  forall c ca, nth_error (caches s) c = Some ca ->
  dmsgs c (delivered s) = firstn (length (dmsgs c (delivered s))) (cacc ca) /\
  Permutation (cacc ca) (dmsgs c (delivered s) ++ live s c ++ cmsgs ca).

Lemma exactly_once_in_order_refuted : ~ exactly_once_in_order_statement.
Proof.
  intros H. destruct refuted_timeout_window as (s & ca & Hr & Hc & _ & _ & Ha & _ & _ & Hd & Hl & Hm & _).
  destruct (H _ _ Hr _ _ Hc) as [_ P]. rewrite Ha, Hd, Hl, Hm in P. cbn in P.
  apply Permutation_length in P. discriminate.
Qed.

(* the witness contains exactly one hazardous step: the publisher pops the stale responder *)
Lemma witness_hazard : run_avoiding hazard init witness = None /\
  run_avoiding hazard init (firstn 17 witness) <> None /\ run_avoiding hazard init (firstn 18 witness) = None.
Proof. vm_compute. split; [reflexivity|split; [discriminate|reflexivity]]. Qed.

(* ---- the repaired variant: the full-strength statement, for every schedule *)

Lemma fixed_exactly_once_in_order : forall sched s, run init_fixed sched = Some s ->
  forall c ca, nth_error (caches s) c = Some ca ->
  dmsgs c (delivered s) = firstn (length (dmsgs c (delivered s))) (cacc ca) /\
  Permutation (cacc ca) (dmsgs c (delivered s) ++ live s c ++ cmsgs ca).
Proof.
  intros sched s H. apply guarded_core. apply reachf_ok. eapply run_reachf; [constructor|exact H].
Qed.

Lemma fixed_quiescent : forall sched s, run init_fixed sched = Some s ->
  forall c ca, nth_error (caches s) c = Some ca -> live s c = [] ->
  cacc ca = dmsgs c (delivered s) ++ cmsgs ca.
Proof.
  intros sched s H c ca Hc Hl.
  assert (Hg : greach tag_ok s) by (apply reachf_ok; eapply run_reachf; [constructor|exact H]).
  destruct (InvFull_greach s Hg) as [[HJ HD HO] H5 HG].
  pose proof (g_eq s HG _ _ Hc) as E. pose proof (g_perm s HG _ _ Hc) as P.
  rewrite Hl, app_nil_r in P. unfold cacc. f_equal.
  symmetry. rewrite E. apply firstn_all2. rewrite (Permutation_length P), E, firstn_length. lia.
Qed.

(* no run of the repaired variant contains a hazardous step *)
Lemma fixed_never_hazardous : forall sched s, run init_fixed sched = Some s ->
  run_avoiding hazard init_fixed sched = Some s.
Proof.
  assert (G : forall sched s0 s, reachf s0 -> run s0 sched = Some s -> run_avoiding hazard s0 sched = Some s).
  { induction sched as [|e r IH]; cbn; intros s0 s Hr H; [exact H|].
    destruct (step s0 e) as [s1|] eqn:E; [|discriminate].
    assert (Hh : hazard s0 e = false).
    { destruct (reachf_ok s0 Hr) as [Hg [Hf Hra]].
      destruct (InvFull_greach s0 Hg) as [[HJ _ _] _ HG].
      destruct e as [o|p k|w k]; cbn [hazard]; [reflexivity| |].
      - destruct k as [|k]; [reflexivity|].
        destruct (nth_error (polls s0) p) as [pl|]; [|reflexivity].
        destruct (ppc pl); try reflexivity. rewrite Hf. reflexivity.
      - destruct (nth_error (works s0) w) as [wk|]; [|reflexivity].
        destruct (wsub wk); [reflexivity|].
        assert (Hp : forall id, match resp s0 id with Some r => negb (active_at s0 r) | None => false end = false).
        { intros id. destruct (resp s0 id) as [rr|] eqn:Er; [|reflexivity]. rewrite (Hra _ _ Er). reflexivity. }
        destruct (wf wk) as [tp m todo res pc|id tp pc|id todo res pc|id sg pc]; try reflexivity.
        + destruct pc; try reflexivity. apply Hp.
        + destruct pc; try reflexivity. apply Hp. }
    rewrite Hh. apply IH; [|exact H]. apply step_step_rel in E. destruct E as (t & E & _).
    eapply reachf_step; eauto. }
  intros sched s H. apply G; [constructor|exact H].
Qed.

(* the history of the finding, on the repaired variant: the message arrives *)
Definition witness_fixed : list event :=
  [ESpawn (OSub 1 7)] ++ rep 3 (EWork 0 0) ++
  [ESpawn (OPoll 1)] ++ rep 8 (EPoll 0 0) ++ [EPoll 0 1; EPoll 0 0] ++
  [ESpawn (OUni 7 42%Z 1)] ++ rep 3 (EWork 2 0) ++
  [ESpawn (OPoll 1)] ++ rep 8 (EPoll 1 0).

Lemma witness_fixed_delivers :
  exists s ca, run init_fixed witness_fixed = Some s /\
    nth_error (caches s) 0 = Some ca /\ cacc ca = [42%Z] /\ pub_result s 2 = Some [(1, true)] /\
    poll_result s 0 = Some RTimeout /\ poll_result s 1 = Some (RBatch [(7, 0, 0, [42%Z])]) /\
    dmsgs 0 (delivered s) = [42%Z].
Proof. eexists. eexists. vm_compute. repeat split; reflexivity. Qed.

(* ---- concurrent subscribes / unsubscribes of one (client, topic) *)

(* the cache a subscription installed stays the cache of its (client, topic) along every run,
   whatever other subscribes of the same pair, publishes and polls do concurrently, until an
   unsubscribe / heartbeat-offline of exactly that pair reaches its Delete *)
Lemma subscription_cache_stable : forall b pre s sched s', run (init_of b) pre = Some s -> run s sched = Some s' ->
  forall id k c, tget id k (table s) = Some c ->
  tget id k (table s') = Some c \/
  exists mid s1, run s mid = Some s1 /\ (exists post, sched = mid ++ post) /\ deleting s1 id k.
Proof. intros b pre s sched s' _ H. apply table_stable_run. exact H. Qed.

Lemma tget_single id k i j c d : tget id k [(i, j, c)] = Some d -> d = c.
Proof. cbn. destruct (Nat.eqb i id && Nat.eqb j k)%bool; intros H; inversion H; reflexivity. Qed.

(* two subscribes of client 1 to topic 7 race: both pass the existence check, the first installs
   cache 0, Unicast(42) is accepted into cache 0, then the second one inserts *)
Definition sub_race : list event :=
  [ESpawn (OSub 1 7); ESpawn (OSub 1 7)] ++ rep 2 (EWork 0 0) ++ rep 2 (EWork 1 0) ++ [EWork 0 0] ++
  [ESpawn (OUni 7 42%Z 1)] ++ rep 3 (EWork 2 0) ++ [EWork 1 0] ++
  [ESpawn (OPoll 1)] ++ rep 8 (EPoll 0 0).

Definition sub_result (s : state) (w : nat) : option bool :=
  match nth_error (works s) w with
  | Some wk => match wf wk with WSub _ _ (SubDone r) => Some r | _ => None end
  | None => None
  end.

(* with LoadOrStore (the code as it is): the second subscribe reports false, the cache stays,
   the poll returns the message *)
Lemma sub_race_atomic_delivers :
  exists s, run init_fixed sub_race = Some s /\ run_avoiding hazard init_fixed sub_race = Some s /\
    sub_result s 0 = Some true /\ sub_result s 1 = Some false /\ pub_result s 2 = Some [(1, true)] /\
    tget 1 7 (table s) = Some 0 /\ poll_result s 0 = Some (RBatch [(7, 0, 0, [42%Z])]) /\
    dmsgs 0 (delivered s) = [42%Z].
Proof. eexists. vm_compute. repeat split; reflexivity. Qed.

(* with Store (check and insert not atomic): the second subscribe replaces cache 0, which holds
   the accepted message, by an empty cache 1; the poll waits for nothing; the message can never
   be reached again *)
Lemma sub_race_store_refuted :
  exists s ca, run_nonatomic init_fixed sub_race = Some s /\
    sub_result s 0 = Some true /\ sub_result s 1 = Some true /\ pub_result s 2 = Some [(1, true)] /\
    nth_error (caches s) 0 = Some ca /\ cacc ca = [42%Z] /\ cmsgs ca = [42%Z] /\
    tget 1 7 (table s) = Some 1 /\                               (* cache 0 is not the subscription's cache any more *)
    (forall id k, tget id k (table s) <> Some 0) /\
    delivered s = [] /\ poll_result s 0 = None /\
    nth_error (chans s) 0 = Some VEmpty.                         (* the client's poll waits *)
Proof.
  eexists. eexists. split; [vm_compute; reflexivity|].
  repeat split; try (vm_compute; reflexivity).
  intros id k H. cbn [table] in H. apply tget_single in H. discriminate.
Qed.
