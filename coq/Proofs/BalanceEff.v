(* The effective-weight bookkeeping shared by Nginx / WeightedRandom / WeightedLeastActive
   (C18): bounds, exact effect of a failure and of a success, share monotonicity, recovery. *)
From Coq Require Import List ZArith Bool Lia.
From HV Require Import Model.Balance Proofs.BalanceBase.
Import ListNotations.
Open Scope Z_scope.

Lemma upd_nth_same_val {A} (l : list A) : forall i x, nth_error l i = Some x -> upd_nth i x l = l.
Proof.
  induction l as [|y l IH]; intros [|i] x H; cbn in *; try discriminate.
  - injection H as ->. reflexivity.
  - rewrite IH by exact H. reflexivity.
Qed.

Lemma lsum_upd : forall (l : list Z) i v old, nth_error l i = Some old ->
  lsum (upd_nth i v l) = lsum l - old + v.
Proof.
  induction l as [|x l IH]; intros [|i] v old H; cbn [nth_error upd_nth] in *; try discriminate.
  - injection H as ->. unfold lsum. cbn. lia.
  - unfold lsum in *. cbn [fold_right]. rewrite (IH _ _ _ H). lia.
Qed.

(* 0 <= eff_j <= w_j for every server, and the slices have the same length *)
Definition eff_ok (W eff : list Z) : Prop :=
  length eff = length W /\
  forall j e w, nth_error eff j = Some e -> nth_error W j = Some w -> 0 <= e <= w.

Lemma eff_ok_init W : Forall (fun w => 0 < w) W -> eff_ok W W.
Proof.
  intros H. split; [reflexivity|]. intros j e w He Hw. rewrite He in Hw. injection Hw as ->.
  rewrite Forall_forall in H. specialize (H w (nth_error_In _ _ He)). lia.
Qed.

Lemma eff_ok_get W eff i : eff_ok W eff -> (i < length W)%nat ->
  exists e w, nth_error eff i = Some e /\ nth_error W i = Some w /\ 0 <= e <= w.
Proof.
  intros [Hl Hb] Hi.
  destruct (nth_error eff i) as [e|] eqn:Ee; [|apply nth_error_None in Ee; lia].
  destruct (nth_error W i) as [w|] eqn:Ew; [|apply nth_error_None in Ew; lia].
  exists e, w. split; [reflexivity|]. split; [reflexivity|]. eapply Hb; eauto.
Qed.

(* what the deferred function does to the effective weight of the server that was called:
   +1 after a success, capped at the weight; -1 after an error or a panic, floored at 0 *)
Definition eff_next (o : outcome) (e w : Z) : Z :=
  match o with
  | OOk => Z.min (e + 1) w
  | _ => Z.max (e - 1) 0
  end.

Lemma eff_update_spec W eff i o e w :
  nth_error eff i = Some e -> nth_error W i = Some w -> 0 <= e <= w ->
  eff_update W eff i o = Ok (upd_nth i (eff_next o e w) eff).
Proof.
  intros He Hw Hb. unfold eff_update, eff_next. rewrite He.
  destruct o.
  - rewrite Hw. destruct (e <? w) eqn:E; [apply Z.ltb_lt in E|apply Z.ltb_ge in E].
    + rewrite Z.min_l by lia. reflexivity.
    + rewrite Z.min_r by lia. assert (e = w) by lia. subst. rewrite upd_nth_same_val by exact He. reflexivity.
  - destruct (e >? 0) eqn:E; rewrite Z.gtb_ltb in E; [apply Z.ltb_lt in E|apply Z.ltb_ge in E].
    + rewrite Z.max_l by lia. reflexivity.
    + rewrite Z.max_r by lia. assert (e = 0) by lia. subst. rewrite upd_nth_same_val by exact He. reflexivity.
  - destruct (e >? 0) eqn:E; rewrite Z.gtb_ltb in E; [apply Z.ltb_lt in E|apply Z.ltb_ge in E].
    + rewrite Z.max_l by lia. reflexivity.
    + rewrite Z.max_r by lia. assert (e = 0) by lia. subst. rewrite upd_nth_same_val by exact He. reflexivity.
Qed.

Lemma eff_next_bounds o e w : 0 <= e <= w -> 0 <= eff_next o e w <= w.
Proof. intros H. destruct o; cbn; lia. Qed.

Lemma eff_ok_upd W eff i v w : eff_ok W eff -> nth_error W i = Some w -> 0 <= v <= w ->
  eff_ok W (upd_nth i v eff).
Proof.
  intros [Hl Hb] Hw Hv. split; [rewrite upd_nth_length; exact Hl|].
  intros j e' w' He' Hw'. destruct (Nat.eq_dec i j) as [<-|Hij].
  - rewrite nth_error_upd_nth_same in He'
      by (rewrite Hl; apply nth_error_Some; congruence).
    injection He' as <-. rewrite Hw in Hw'. injection Hw' as <-. exact Hv.
  - rewrite nth_error_upd_nth_other in He' by exact Hij. eapply Hb; eauto.
Qed.

(* one settled call: never panics for a valid index, keeps 0 <= eff <= w, changes only the
   called server's entry, by exactly eff_next *)
Lemma eff_update_ok W eff i o : eff_ok W eff -> (i < length W)%nat ->
  exists e w eff', nth_error eff i = Some e /\ nth_error W i = Some w /\
    eff_update W eff i o = Ok eff' /\ eff_ok W eff' /\
    nth_error eff' i = Some (eff_next o e w) /\
    (forall j, j <> i -> nth_error eff' j = nth_error eff j).
Proof.
  intros Hok Hi. destruct (eff_ok_get W eff i Hok Hi) as (e & w & He & Hw & Hb).
  exists e, w, (upd_nth i (eff_next o e w) eff).
  split; [exact He|]. split; [exact Hw|]. split; [apply eff_update_spec; assumption|].
  split; [eapply eff_ok_upd; eauto; apply eff_next_bounds; exact Hb|].
  split.
  - apply nth_error_upd_nth_same. destruct Hok as [Hl _]. lia.
  - intros j Hj. apply nth_error_upd_nth_other. congruence.
Qed.

(* a failure never increases the server's share eff_i / sum(eff), a success never lowers it
   (cross-multiplied, so that a zero total needs no special case) *)
Lemma share_after_failure W eff i o eff' e e' :
  eff_ok W eff -> (i < length W)%nat -> o <> OOk ->
  eff_update W eff i o = Ok eff' -> nth_error eff i = Some e -> nth_error eff' i = Some e' ->
  e' <= e /\ e' * lsum eff <= e * lsum eff'.
Proof.
  intros Hok Hi Ho Hu He He'.
  destruct (eff_update_ok W eff i o Hok Hi) as (e0 & w & eff0 & He0 & Hw & Hu0 & Hok' & Hn & _).
  rewrite Hu in Hu0. injection Hu0 as <-. rewrite He in He0. injection He0 as <-.
  rewrite He' in Hn. injection Hn as ->.
  destruct (eff_ok_get W eff i Hok Hi) as (e1 & w1 & He1 & Hw1 & Hb). rewrite He in He1. injection He1 as <-.
  rewrite Hw in Hw1. injection Hw1 as <-.
  assert (Hs : lsum eff' = lsum eff - e + eff_next o e w).
  { rewrite (eff_update_spec W eff i o e w He Hw Hb) in Hu. injection Hu as <-. apply lsum_upd. exact He. }
  assert (Hr : 0 <= lsum eff - e).
  { clear - Hok He. destruct Hok as [Hl Hb]. revert i W Hl Hb He.
    induction eff as [|x eff IH]; intros [|i] W Hl Hb He; cbn in He; try discriminate.
    - injection He as ->. unfold lsum. cbn [fold_right]. fold (lsum eff).
      assert (0 <= lsum eff); [|lia]. apply lsum_nonneg. apply Forall_forall. intros y Hy.
      destruct (In_nth_error _ _ Hy) as [k Hk].
      destruct (nth_error W (S k)) as [wk|] eqn:Ewk.
      + specialize (Hb (S k) y wk Hk Ewk). lia.
      + apply nth_error_None in Ewk. assert (S k < length (e :: eff))%nat by (cbn; apply -> Nat.succ_lt_mono; apply nth_error_Some; congruence). lia.
    - destruct W as [|w0 W]; [cbn in Hl; lia|].
      assert (0 <= x). { destruct (Hb O x w0 eq_refl eq_refl). lia. }
      specialize (IH i W ltac:(cbn in Hl; lia) ltac:(intros j a b Ha Hb'; exact (Hb (S j) a b Ha Hb')) He).
      unfold lsum in *. cbn [fold_right]. lia. }
  assert (Hle : eff_next o e w <= e) by (destruct o; [congruence|cbn; lia|cbn; lia]).
  split; [exact Hle|]. rewrite Hs. nia.
Qed.

(* k consecutive settled calls on server i *)
Fixpoint settle_many (W eff : list Z) (i : nat) (os : list outcome) : res (list Z) :=
  match os with
  | [] => Ok eff
  | o :: r => bind (eff_update W eff i o) (fun e => settle_many W e i r)
  end.

Lemma settle_failures W : forall os eff i e w, eff_ok W eff -> (i < length W)%nat ->
  nth_error eff i = Some e -> nth_error W i = Some w -> Forall (fun o => o <> OOk) os ->
  settle_many W eff i os = Ok (upd_nth i (Z.max (e - Z.of_nat (length os)) 0) eff).
Proof.
  induction os as [|o os IH]; intros eff i e w Hok Hi He Hw Hos; cbn [settle_many length].
  - destruct (eff_ok_get W eff i Hok Hi) as (e1 & w1 & He1 & _ & Hb). rewrite He in He1. injection He1 as <-.
    rewrite Z.max_l by lia. replace (e - Z.of_nat 0) with e by lia. rewrite upd_nth_same_val by exact He. reflexivity.
  - inversion Hos as [|? ? Ho Hos']; subst.
    destruct (eff_ok_get W eff i Hok Hi) as (e1 & w1 & He1 & Hw1 & Hb). rewrite He in He1. injection He1 as <-.
    rewrite Hw in Hw1. injection Hw1 as <-.
    rewrite (eff_update_spec W eff i o e w He Hw Hb). cbn [bind].
    assert (Hl : (i < length eff)%nat) by (destruct Hok; lia).
    rewrite (IH _ i (eff_next o e w) w); auto.
    + f_equal. apply nth_error_ext. intros j. destruct (Nat.eq_dec i j) as [<-|Hij].
      * rewrite !nth_error_upd_nth_same by (rewrite ?upd_nth_length; exact Hl). f_equal.
        destruct o; [congruence|cbn|cbn]; lia.
      * rewrite !nth_error_upd_nth_other by exact Hij. reflexivity.
    + eapply eff_ok_upd; eauto. apply eff_next_bounds. exact Hb.
    + apply nth_error_upd_nth_same. exact Hl.
Qed.

Lemma settle_successes W : forall k eff i e w, eff_ok W eff -> (i < length W)%nat ->
  nth_error eff i = Some e -> nth_error W i = Some w ->
  settle_many W eff i (repeat OOk k) = Ok (upd_nth i (Z.min (e + Z.of_nat k) w) eff).
Proof.
  induction k as [|k IH]; intros eff i e w Hok Hi He Hw; cbn [settle_many repeat].
  - destruct (eff_ok_get W eff i Hok Hi) as (e1 & w1 & He1 & Hw1 & Hb). rewrite He in He1. injection He1 as <-.
    rewrite Hw in Hw1. injection Hw1 as <-.
    rewrite Z.min_l by lia. replace (e + Z.of_nat 0) with e by lia. rewrite upd_nth_same_val by exact He. reflexivity.
  - destruct (eff_ok_get W eff i Hok Hi) as (e1 & w1 & He1 & Hw1 & Hb). rewrite He in He1. injection He1 as <-.
    rewrite Hw in Hw1. injection Hw1 as <-.
    rewrite (eff_update_spec W eff i OOk e w He Hw Hb). cbn [bind].
    assert (Hl : (i < length eff)%nat) by (destruct Hok; lia).
    rewrite (IH _ i (eff_next OOk e w) w); auto.
    + f_equal. apply nth_error_ext. intros j. destruct (Nat.eq_dec i j) as [<-|Hij].
      * rewrite !nth_error_upd_nth_same by (rewrite ?upd_nth_length; exact Hl). f_equal. cbn. lia.
      * rewrite !nth_error_upd_nth_other by exact Hij. reflexivity.
    + eapply eff_ok_upd; eauto. apply eff_next_bounds. exact Hb.
    + apply nth_error_upd_nth_same. exact Hl.
Qed.

(* a server whose calls succeed w_i - eff_i times (or more) is back at its full weight *)
Lemma recovered W k eff i e w eff' : eff_ok W eff -> (i < length W)%nat ->
  nth_error eff i = Some e -> nth_error W i = Some w -> w - e <= Z.of_nat k ->
  settle_many W eff i (repeat OOk k) = Ok eff' -> nth_error eff' i = Some w.
Proof.
  intros Hok Hi He Hw Hk H. rewrite (settle_successes W k eff i e w Hok Hi He Hw) in H.
  injection H as <-. rewrite nth_error_upd_nth_same by (destruct Hok; lia). f_equal. lia.
Qed.
