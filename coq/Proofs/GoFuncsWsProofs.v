(* T2 refinement lemmas for rpc/websocket/common.go (makeHeader, parseHeader): generated = hand model. *)
From Coq Require Import List ZArith Strings.Byte Bool Lia.
From HV Require Import Lib.Crc32 Lib.GoLite Gen.GoFuncs Model.Frame Proofs.FrameProofs.
Import ListNotations.
Local Open Scope Z_scope.

Lemma ws_makeHeader_refines : forall index, ws_makeHeader index = GRet (ws_make_header index).
Proof.
  intros index.
  cbv beta iota zeta delta [ws_makeHeader repeat upd ws_make_header be32]. reflexivity.
Qed.

Lemma ws_parseHeader_refines : forall a b c d,
  ws_parseHeader [a; b; c; d] = GRet (ws_parse_header a b c d).
Proof.
  intros.
  cbv beta iota zeta delta [ws_parseHeader ixo nth_error ws_parse_header rd32
                            Z.to_nat Pos.to_nat Pos.iter_op Nat.add Z.ltb Z.compare].
  destruct (Z.land (Z_of_byte a) 128 =? 0); reflexivity.
Qed.

(* a message shorter than 4 bytes: the slice expression data[:4] panics before parseHeader is entered
   (Frame.ws_recv: WPanic); parseHeader itself panics on fewer than 4 bytes *)
Lemma ws_parseHeader_short : forall h, (List.length h < 4)%nat -> ws_parseHeader h = GPanic.
Proof.
  intros h Hl. unfold ws_parseHeader.
  do 4 (destruct h as [|? h]; [reflexivity|]). cbn [List.length] in Hl. lia.
Qed.

Lemma ws_source_roundtrip : forall index,
  exists h, ws_makeHeader index = GRet h /\
            ws_parseHeader h = GRet ((index mod 4294967296) mod 2147483648, index mod 4294967296 <? 2147483648).
Proof.
  intros index. exists (ws_make_header index). split; [apply ws_makeHeader_refines|].
  pose proof (ws_roundtrip_gen index) as H.
  unfold ws_make_header, be32 in *. rewrite ws_parseHeader_refines. rewrite H. reflexivity.
Qed.
