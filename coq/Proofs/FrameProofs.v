(* Proofs about Model/Frame.v (C12). *)
From Coq Require Import List ZArith NArith Bool Lia Init.Byte.
From HV Require Import Lib.Crc32 Proofs.Crc32Proofs Model.Frame.
Import ListNotations.
Open Scope Z_scope.
Local Arguments Z.shiftr : simpl never.
Local Arguments Z.shiftl : simpl never.
Local Arguments Z.land : simpl never.
Local Arguments Z.lor : simpl never.
Local Arguments Z.modulo : simpl never.
Local Arguments Z.div : simpl never.
Local Arguments Z.mul : simpl never.
Local Arguments Z.of_nat : simpl never.
Local Arguments Z.to_nat : simpl never.
Local Arguments crc32 : simpl never.
Local Arguments firstn : simpl never.
Local Arguments skipn : simpl never.

(* ---- shifts and masks as arithmetic ---------------------------------------------- *)

Lemma land_255 z : Z.land z 255 = z mod 256.
Proof. change 255 with (Z.ones 8). rewrite Z.land_ones by lia. reflexivity. Qed.

Lemma land_127 z : Z.land z 127 = z mod 128.
Proof. change 127 with (Z.ones 7). rewrite Z.land_ones by lia. reflexivity. Qed.

Lemma land_31bits z : Z.land z 2147483647 = z mod 2147483648.
Proof. change 2147483647 with (Z.ones 31). rewrite Z.land_ones by lia. reflexivity. Qed.

Lemma land_15bits z : Z.land z 32767 = z mod 32768.
Proof. change 32767 with (Z.ones 15). rewrite Z.land_ones by lia. reflexivity. Qed.

Lemma shiftr_8 z : Z.shiftr z 8 = z / 256.
Proof. rewrite Z.shiftr_div_pow2 by lia. reflexivity. Qed.
Lemma shiftr_16 z : Z.shiftr z 16 = z / 65536.
Proof. rewrite Z.shiftr_div_pow2 by lia. reflexivity. Qed.
Lemma shiftr_24 z : Z.shiftr z 24 = z / 16777216.
Proof. rewrite Z.shiftr_div_pow2 by lia. reflexivity. Qed.

Lemma land_disjoint a b n : 0 <= n -> 0 <= a < 2 ^ n -> Z.land a (Z.shiftl b n) = 0.
Proof.
  intros Hn Ha. apply Z.bits_inj'. intros i Hi. rewrite Z.land_spec, Z.bits_0.
  destruct (Z.lt_ge_cases i n) as [Hlt|Hge].
  - rewrite (Z.shiftl_spec_low b n i Hlt). apply andb_false_r.
  - rewrite <- (Z.mod_small a (2 ^ n)) by lia.
    rewrite Z.mod_pow2_bits_high by lia. reflexivity.
Qed.

(* lor of disjoint bit ranges is addition *)
Lemma lor_shiftl_add a b n : 0 <= n -> 0 <= a < 2 ^ n -> Z.lor a (Z.shiftl b n) = a + b * 2 ^ n.
Proof.
  intros Hn Ha. pose proof (land_disjoint a b n Hn Ha) as Hd.
  rewrite <- Z.lxor_lor by exact Hd. rewrite <- Z.add_nocarry_lxor by exact Hd.
  rewrite Z.shiftl_mul_pow2 by lia. reflexivity.
Qed.

Lemma lor_128 a : 0 <= a < 128 -> Z.lor a 128 = a + 128.
Proof.
  intros Ha. change 128 with (Z.shiftl 1 7) at 1. rewrite lor_shiftl_add; [reflexivity|lia|].
  change (2 ^ 7) with 128. lia.
Qed.

Lemma land_128_byte (b : byte) : (Z.land (Z_of_byte b) 128 =? 0) = (Z_of_byte b <? 128).
Proof. destruct b; reflexivity. Qed.

(* the four bytes of a number and back *)
Lemma rd32_arith a b c d :
  rd32 a b c d = Z_of_byte d + Z_of_byte c * 256 + Z_of_byte b * 65536 + Z_of_byte a * 16777216.
Proof.
  unfold rd32.
  pose proof (Z_of_byte_range a); pose proof (Z_of_byte_range b);
  pose proof (Z_of_byte_range c); pose proof (Z_of_byte_range d).
  rewrite (lor_shiftl_add (Z_of_byte d) (Z_of_byte c) 8) by (change (2 ^ 8) with 256; lia).
  change (2 ^ 8) with 256.
  rewrite (lor_shiftl_add _ (Z_of_byte b) 16) by (change (2 ^ 16) with 65536; lia).
  change (2 ^ 16) with 65536.
  rewrite (lor_shiftl_add _ (Z_of_byte a) 24) by (change (2 ^ 24) with 16777216; lia).
  reflexivity.
Qed.

Lemma rd16_arith a b : rd16 a b = Z_of_byte b + Z_of_byte a * 256.
Proof.
  unfold rd16. pose proof (Z_of_byte_range a); pose proof (Z_of_byte_range b).
  rewrite (lor_shiftl_add (Z_of_byte b) (Z_of_byte a) 8) by (change (2 ^ 8) with 256; lia).
  reflexivity.
Qed.

Lemma rd32_range a b c d : 0 <= rd32 a b c d < 4294967296.
Proof.
  rewrite rd32_arith.
  pose proof (Z_of_byte_range a); pose proof (Z_of_byte_range b);
  pose proof (Z_of_byte_range c); pose proof (Z_of_byte_range d). lia.
Qed.

Lemma rd32_be32 x :
  match be32 x with [a; b; c; d] => rd32 a b c d = x mod 4294967296 | _ => False end.
Proof.
  unfold be32. rewrite rd32_arith, !Z_of_byte_of_Z, !land_255, shiftr_8, shiftr_16, shiftr_24.
  Z.div_mod_to_equations. lia.
Qed.

Lemma rd16_be16 x :
  match be16 x with [a; b] => rd16 a b = x mod 65536 | _ => False end.
Proof.
  unfold be16. rewrite rd16_arith, !Z_of_byte_of_Z, !land_255, shiftr_8.
  Z.div_mod_to_equations. lia.
Qed.

Lemma be32_rd32 a b c d : be32 (rd32 a b c d) = [a; b; c; d].
Proof.
  unfold be32. rewrite !land_255, shiftr_8, shiftr_16, shiftr_24, rd32_arith.
  pose proof (Z_of_byte_range a); pose proof (Z_of_byte_range b);
  pose proof (Z_of_byte_range c); pose proof (Z_of_byte_range d).
  repeat f_equal.
  - rewrite <- (byte_of_Z_of_byte a) at 2. f_equal. Z.div_mod_to_equations. lia.
  - rewrite <- (byte_of_Z_of_byte b) at 2. f_equal. Z.div_mod_to_equations. lia.
  - rewrite <- (byte_of_Z_of_byte c) at 2. f_equal. Z.div_mod_to_equations. lia.
  - rewrite <- (byte_of_Z_of_byte d) at 2. f_equal. Z.div_mod_to_equations. lia.
Qed.

Lemma rd32_inj a b c d a' b' c' d' :
  rd32 a b c d = rd32 a' b' c' d' -> [a; b; c; d] = [a'; b'; c'; d'].
Proof. intros H. rewrite <- (be32_rd32 a b c d), <- (be32_rd32 a' b' c' d'), H. reflexivity. Qed.

Lemma be32_length x : length (be32 x) = 4%nat.
Proof. reflexivity. Qed.

Lemma crc32_Z_range l : 0 <= Z.of_N (crc32 l) < 4294967296.
Proof. pose proof (crc32_lt l) as H. change (2 ^ 32)%N with 4294967296%N in H. lia. Qed.

(* ---- list shapes ------------------------------------------------------------------ *)

Lemma list_len4 {A} (l : list A) : length l = 4%nat -> exists a b c d, l = [a; b; c; d].
Proof.
  destruct l as [|a [|b [|c [|d [|e l]]]]]; cbn [length]; intros H; try discriminate.
  eauto.
Qed.

Lemma list_len8 {A} (l : list A) : length l = 8%nat ->
  exists a b c d e f g h, l = [a; b; c; d; e; f; g; h].
Proof.
  destruct l as [|a [|b [|c [|d [|e [|f [|g [|h [|i l]]]]]]]]]; cbn [length]; intros H; try discriminate.
  do 8 eexists. reflexivity.
Qed.

Lemma firstn_app_exact {A} (a b : list A) : firstn (length a) (a ++ b) = a.
Proof.
  rewrite firstn_app, Nat.sub_diag, firstn_all. unfold firstn at 1.
  destruct b; apply app_nil_r.
Qed.

Lemma skipn_app_exact {A} (a b : list A) : skipn (length a) (a ++ b) = b.
Proof. rewrite skipn_app, Nat.sub_diag, skipn_all. reflexivity. Qed.

(* ---- socket header ----------------------------------------------------------------- *)

Definition sock_len_of (l0 l1 l2 l3 : byte) : Z :=
  Z.lor (Z.lor (Z.lor (Z_of_byte l3) (Z.shiftl (Z_of_byte l2) 8)) (Z.shiftl (Z_of_byte l1) 16))
        (Z.shiftl (Z.land (Z_of_byte l0) 127) 24).

Lemma sock_len_arith l0 l1 l2 l3 :
  sock_len_of l0 l1 l2 l3 =
  Z_of_byte l3 + Z_of_byte l2 * 256 + Z_of_byte l1 * 65536 + (Z_of_byte l0 mod 128) * 16777216.
Proof.
  unfold sock_len_of. rewrite land_127.
  pose proof (Z_of_byte_range l1); pose proof (Z_of_byte_range l2); pose proof (Z_of_byte_range l3).
  rewrite (lor_shiftl_add (Z_of_byte l3) (Z_of_byte l2) 8) by (change (2 ^ 8) with 256; lia).
  change (2 ^ 8) with 256.
  rewrite (lor_shiftl_add _ (Z_of_byte l1) 16) by (change (2 ^ 16) with 65536; lia).
  change (2 ^ 16) with 65536.
  rewrite (lor_shiftl_add _ _ 24) by (change (2 ^ 24) with 16777216; lia).
  reflexivity.
Qed.

Lemma sock_len_range l0 l1 l2 l3 : 0 <= sock_len_of l0 l1 l2 l3 < 2147483648.
Proof.
  rewrite sock_len_arith.
  pose proof (Z_of_byte_range l1); pose proof (Z_of_byte_range l2); pose proof (Z_of_byte_range l3).
  pose proof (Z.mod_pos_bound (Z_of_byte l0) 128 ltac:(lia)). lia.
Qed.

(* parseHeader on its twelve bytes, spelled out *)
Lemma sock_parse_12 c0 c1 c2 c3 l0 l1 l2 l3 i0 i1 i2 i3 :
  sock_parse_header [c0; c1; c2; c3; l0; l1; l2; l3; i0; i1; i2; i3] =
  Some (if negb (Z.of_N (crc32 [l0; l1; l2; l3; i0; i1; i2; i3]) =? rd32 c0 c1 c2 c3) then REJECT
        else (sock_len_of l0 l1 l2 l3,
              (if Z.land (Z_of_byte i0) 128 =? 0 then rd32 i0 i1 i2 i3
               else Z.land (rd32 i0 i1 i2 i3) 2147483647),
              Z.land (Z_of_byte i0) 128 =? 0)).
Proof.
  cbn [sock_parse_header]. unfold sock_len_of.
  destruct (negb _); reflexivity.
Qed.

Lemma sock_parse_header_some h : length h = 12%nat -> exists r, sock_parse_header h = Some r.
Proof.
  intros H.
  destruct h as [|c0 [|c1 [|c2 [|c3 [|l0 [|l1 [|l2 [|l3 [|i0 [|i1 [|i2 [|i3 [|x h]]]]]]]]]]]]];
    cbn [length] in H; try discriminate.
  rewrite (sock_parse_12 c0 c1 c2 c3 l0 l1 l2 l3 i0 i1 i2 i3). eauto.
Qed.

(* an accepted header never looks like the rejection triple: indices are non-negative *)
Lemma sock_index_nonneg i0 i1 i2 i3 :
  0 <= (if Z.land (Z_of_byte i0) 128 =? 0 then rd32 i0 i1 i2 i3
        else Z.land (rd32 i0 i1 i2 i3) 2147483647).
Proof.
  pose proof (rd32_range i0 i1 i2 i3). destruct (_ =? 0); [lia|].
  rewrite land_31bits. apply Z.mod_pos_bound. lia.
Qed.

Lemma top_byte_lt x :
  (((x / 16777216) mod 256) mod 256 <? 128) = (x mod 4294967296 <? 2147483648).
Proof.
  destruct (Z.ltb_spec (((x / 16777216) mod 256) mod 256) 128),
           (Z.ltb_spec (x mod 4294967296) 2147483648); try reflexivity;
  exfalso; Z.div_mod_to_equations; lia.
Qed.

Lemma top_byte16_lt x :
  (((x / 256) mod 256) mod 256 <? 128) = (x mod 65536 <? 32768).
Proof.
  destruct (Z.ltb_spec (((x / 256) mod 256) mod 256) 128),
           (Z.ltb_spec (x mod 65536) 32768); try reflexivity;
  exfalso; Z.div_mod_to_equations; lia.
Qed.

(* makeHeader then parseHeader, every index (also negative: Go's index | math.MinInt32) *)
Lemma sock_roundtrip_gen length index :
  0 <= length < 2147483648 ->
  sock_parse_header (sock_make_header length index) =
  Some (length, (index mod 4294967296) mod 2147483648, index mod 4294967296 <? 2147483648).
Proof.
  intros Hl. unfold sock_make_header.
  set (f := sock_fields length index).
  pose proof (rd32_be32 (Z.of_N (crc32 f))) as Hc. pose proof (crc32_Z_range f) as Hr.
  unfold be32 in Hc |- *. rewrite Z.mod_small in Hc by exact Hr.
  subst f. unfold sock_fields, be32 in *. cbn [app] in *.
  rewrite sock_parse_12, Hc, Z.eqb_refl. cbn [negb]. clear Hc Hr.
  pose proof (rd32_be32 index) as Hi. unfold be32 in Hi. rewrite Hi. clear Hi.
  rewrite land_128_byte, Z_of_byte_of_Z, !land_255, !shiftr_24, top_byte_lt.
  apply f_equal. apply f_equal2; [apply f_equal2|reflexivity].
  - rewrite sock_len_arith, !Z_of_byte_of_Z, ?land_255, ?shiftr_8, ?shiftr_16, ?shiftr_24.
    assert (H24 : 0 <= length / 16777216 < 128) by (Z.div_mod_to_equations; lia).
    rewrite (Z.mod_small (length / 16777216) 256) by lia.
    rewrite lor_128 by lia.
    Z.div_mod_to_equations. lia.
  - destruct (Z.ltb_spec (index mod 4294967296) 2147483648) as [Hlt|Hge].
    + pose proof (Z.mod_pos_bound index 4294967296 ltac:(lia)).
      symmetry. apply Z.mod_small. lia.
    + apply land_31bits.
Qed.

Lemma sock_roundtrip length index :
  0 <= length < 2147483648 -> 0 <= index < 2147483648 ->
  sock_parse_header (sock_make_header length index) = Some (length, index, true).
Proof.
  intros Hl Hi. rewrite sock_roundtrip_gen by exact Hl.
  rewrite (Z.mod_small index 4294967296) by lia. rewrite Z.mod_small by lia.
  destruct (Z.ltb_spec index 2147483648); [reflexivity|lia].
Qed.

Lemma lor_minint index : 0 <= index < 2147483648 -> Z.lor index (-2147483648) = index - 2147483648.
Proof.
  intros H. change (-2147483648) with (Z.shiftl (-1) 31).
  rewrite lor_shiftl_add by (change (2 ^ 31) with 2147483648; lia).
  change (2 ^ 31) with 2147483648. lia.
Qed.

(* the server's error responses: index |= math.MinInt32 *)
Lemma sock_roundtrip_error length index :
  0 <= length < 2147483648 -> 0 <= index < 2147483648 ->
  sock_parse_header (sock_make_header length (Z.lor index (-2147483648))) = Some (length, index, false).
Proof.
  intros Hl Hi. rewrite sock_roundtrip_gen by exact Hl. rewrite lor_minint by exact Hi.
  replace ((index - 2147483648) mod 4294967296) with (index + 2147483648)
    by (Z.div_mod_to_equations; lia).
  destruct (Z.ltb_spec (index + 2147483648) 2147483648); [lia|].
  replace ((index + 2147483648) mod 2147483648) with index by (Z.div_mod_to_equations; lia).
  reflexivity.
Qed.

Lemma sock_make_header_length length index : List.length (sock_make_header length index) = 12%nat.
Proof. reflexivity. Qed.

(* ---- every single-bit corruption of a socket header is rejected --------------------- *)

Lemma sock_single_bit length index k : (k < 96)%nat ->
  sock_parse_header (flip_bit k (sock_make_header length index)) = Some REJECT.
Proof.
  intros Hk. unfold sock_make_header.
  set (f := sock_fields length index).
  assert (Hf : List.length f = 8%nat) by reflexivity.
  pose proof (rd32_be32 (Z.of_N (crc32 f))) as Hc. pose proof (crc32_Z_range f) as Hr.
  rewrite Z.mod_small in Hc by exact Hr.
  rewrite flip_bit_app, be32_length. change (8 * 4)%nat with 32%nat.
  destruct (Nat.ltb_spec k 32) as [Hlo|Hhi].
  - (* the flipped bit is in the checksum field *)
    pose proof (flip_bit_ne k (be32 (Z.of_N (crc32 f)))) as Hne.
    rewrite be32_length in Hne. specialize (Hne ltac:(lia)).
    destruct (list_len4 (flip_bit k (be32 (Z.of_N (crc32 f))))) as (a & b & c & d & E).
    { rewrite flip_bit_length. reflexivity. }
    rewrite E in *. destruct (list_len8 f Hf) as (l0 & l1 & l2 & l3 & i0 & i1 & i2 & i3 & Ef).
    rewrite Ef in *. cbn [app]. rewrite sock_parse_12.
    destruct (Z.eqb_spec (Z.of_N (crc32 [l0; l1; l2; l3; i0; i1; i2; i3])) (rd32 a b c d)) as [Heq|];
      [exfalso|reflexivity].
    destruct (be32 (Z.of_N (crc32 [l0; l1; l2; l3; i0; i1; i2; i3]))) as [|a' [|b' [|c' [|d' [|]]]]] eqn:Eb;
      try contradiction.
    apply Hne. symmetry. apply rd32_inj. congruence.
  - (* the flipped bit is in the length/index fields: the checksum changes *)
    pose proof (crc32_flip_ne f (k - 32)) as Hne. rewrite Hf in Hne.
    specialize (Hne syndromes_nonzero_64 ltac:(lia)).
    destruct (list_len8 (flip_bit (k - 32) f)) as (l0 & l1 & l2 & l3 & i0 & i1 & i2 & i3 & E).
    { rewrite flip_bit_length. exact Hf. }
    rewrite E in *.
    destruct (be32 (Z.of_N (crc32 f))) as [|a' [|b' [|c' [|d' [|]]]]] eqn:Eb; try contradiction.
    cbn [app]. rewrite sock_parse_12, Hc.
    destruct (Z.eqb_spec (Z.of_N (crc32 [l0; l1; l2; l3; i0; i1; i2; i3])) (Z.of_N (crc32 f))) as [Heq|];
      [exfalso|reflexivity].
    apply Hne. apply N2Z.inj. exact Heq.
Qed.

(* ---- UDP header --------------------------------------------------------------------- *)

Lemma udp_parse_8 c0 c1 c2 c3 l0 l1 i0 i1 :
  udp_parse_header [c0; c1; c2; c3; l0; l1; i0; i1] =
  Some (if negb (Z.of_N (crc32 [l0; l1; i0; i1]) =? rd32 c0 c1 c2 c3) then REJECT
        else (rd16 l0 l1,
              (if Z.land (Z_of_byte i0) 128 =? 0 then rd16 i0 i1 else Z.land (rd16 i0 i1) 32767),
              Z.land (Z_of_byte i0) 128 =? 0)).
Proof. cbn [udp_parse_header]. destruct (negb _); reflexivity. Qed.

Lemma udp_parse_header_some h : length h = 8%nat -> exists r, udp_parse_header h = Some r.
Proof.
  intros H. destruct (list_len8 h H) as (c0 & c1 & c2 & c3 & l0 & l1 & i0 & i1 & ->).
  rewrite udp_parse_8. eauto.
Qed.

Lemma rd16_range a b : 0 <= rd16 a b < 65536.
Proof. rewrite rd16_arith. pose proof (Z_of_byte_range a); pose proof (Z_of_byte_range b). lia. Qed.

Lemma udp_roundtrip_gen length index :
  0 <= length < 65536 ->
  udp_parse_header (udp_make_header length index) =
  Some (length, (index mod 65536) mod 32768, index mod 65536 <? 32768).
Proof.
  intros Hl. unfold udp_make_header.
  set (f := udp_fields length index).
  pose proof (rd32_be32 (Z.of_N (crc32 f))) as Hc. pose proof (crc32_Z_range f) as Hr.
  unfold be32 in Hc |- *. rewrite Z.mod_small in Hc by exact Hr.
  subst f. unfold udp_fields, be16 in *. cbn [app] in *.
  rewrite udp_parse_8, Hc, Z.eqb_refl. cbn [negb]. clear Hc Hr.
  pose proof (rd16_be16 index) as Hi. unfold be16 in Hi. rewrite Hi. clear Hi.
  pose proof (rd16_be16 length) as Hl'. unfold be16 in Hl'. rewrite Hl'. clear Hl'.
  rewrite land_128_byte, Z_of_byte_of_Z, !land_255, !shiftr_8, top_byte16_lt.
  apply f_equal. apply f_equal2; [apply f_equal2|reflexivity].
  - apply Z.mod_small. lia.
  - destruct (Z.ltb_spec (index mod 65536) 32768) as [Hlt|Hge].
    + pose proof (Z.mod_pos_bound index 65536 ltac:(lia)).
      symmetry. apply Z.mod_small. lia.
    + apply land_15bits.
Qed.

Lemma udp_roundtrip length index :
  0 <= length < 65536 -> 0 <= index < 32768 ->
  udp_parse_header (udp_make_header length index) = Some (length, index, true).
Proof.
  intros Hl Hi. rewrite udp_roundtrip_gen by exact Hl.
  rewrite (Z.mod_small index 65536) by lia. rewrite Z.mod_small by lia.
  destruct (Z.ltb_spec index 32768); [reflexivity|lia].
Qed.

Lemma lor_32768 index : 0 <= index < 32768 -> Z.lor index 32768 = index + 32768.
Proof.
  intros H. change 32768 with (Z.shiftl 1 15) at 1.
  rewrite lor_shiftl_add by (change (2 ^ 15) with 32768; lia).
  change (2 ^ 15) with 32768. lia.
Qed.

(* the server's error responses: index |= 0x8000 *)
Lemma udp_roundtrip_error length index :
  0 <= length < 65536 -> 0 <= index < 32768 ->
  udp_parse_header (udp_make_header length (Z.lor index 32768)) = Some (length, index, false).
Proof.
  intros Hl Hi. rewrite udp_roundtrip_gen by exact Hl. rewrite lor_32768 by exact Hi.
  rewrite (Z.mod_small (index + 32768) 65536) by lia.
  destruct (Z.ltb_spec (index + 32768) 32768); [lia|].
  replace ((index + 32768) mod 32768) with index by (Z.div_mod_to_equations; lia).
  reflexivity.
Qed.

Lemma udp_make_header_length length index : List.length (udp_make_header length index) = 8%nat.
Proof. reflexivity. Qed.

Lemma udp_single_bit length index k : (k < 64)%nat ->
  udp_parse_header (flip_bit k (udp_make_header length index)) = Some REJECT.
Proof.
  intros Hk. unfold udp_make_header.
  set (f := udp_fields length index).
  assert (Hf : List.length f = 4%nat) by reflexivity.
  pose proof (rd32_be32 (Z.of_N (crc32 f))) as Hc. pose proof (crc32_Z_range f) as Hr.
  rewrite Z.mod_small in Hc by exact Hr.
  rewrite flip_bit_app, be32_length. change (8 * 4)%nat with 32%nat.
  destruct (Nat.ltb_spec k 32) as [Hlo|Hhi].
  - pose proof (flip_bit_ne k (be32 (Z.of_N (crc32 f)))) as Hne.
    rewrite be32_length in Hne. specialize (Hne ltac:(lia)).
    destruct (list_len4 (flip_bit k (be32 (Z.of_N (crc32 f))))) as (a & b & c & d & E).
    { rewrite flip_bit_length. reflexivity. }
    rewrite E in *. destruct (list_len4 f Hf) as (l0 & l1 & i0 & i1 & Ef).
    rewrite Ef in *. cbn [app]. rewrite udp_parse_8.
    destruct (Z.eqb_spec (Z.of_N (crc32 [l0; l1; i0; i1])) (rd32 a b c d)) as [Heq|];
      [exfalso|reflexivity].
    destruct (be32 (Z.of_N (crc32 [l0; l1; i0; i1]))) as [|a' [|b' [|c' [|d' [|]]]]] eqn:Eb;
      try contradiction.
    apply Hne. symmetry. apply rd32_inj. congruence.
  - pose proof (crc32_flip_ne f (k - 32)) as Hne. rewrite Hf in Hne.
    specialize (Hne syndromes_nonzero_32 ltac:(lia)).
    destruct (list_len4 (flip_bit (k - 32) f)) as (l0 & l1 & i0 & i1 & E).
    { rewrite flip_bit_length. exact Hf. }
    rewrite E in *.
    destruct (be32 (Z.of_N (crc32 f))) as [|a' [|b' [|c' [|d' [|]]]]] eqn:Eb; try contradiction.
    cbn [app]. rewrite udp_parse_8, Hc.
    destruct (Z.eqb_spec (Z.of_N (crc32 [l0; l1; i0; i1])) (Z.of_N (crc32 f))) as [Heq|];
      [exfalso|reflexivity].
    apply Hne. apply N2Z.inj. exact Heq.
Qed.

(* ---- websocket header ---------------------------------------------------------------- *)

Lemma ws_roundtrip_gen index :
  match ws_make_header index with
  | [a; b; c; d] => ws_parse_header a b c d =
                    ((index mod 4294967296) mod 2147483648, index mod 4294967296 <? 2147483648)
  | _ => False
  end.
Proof.
  unfold ws_make_header. pose proof (rd32_be32 index) as Hi. unfold be32 in *.
  unfold ws_parse_header. rewrite Hi.
  rewrite land_128_byte, Z_of_byte_of_Z, !land_255, !shiftr_24, top_byte_lt.
  destruct (Z.ltb_spec (index mod 4294967296) 2147483648) as [Hlt|Hge].
  - pose proof (Z.mod_pos_bound index 4294967296 ltac:(lia)).
    rewrite (Z.mod_small (index mod 4294967296)) by lia. reflexivity.
  - rewrite land_31bits. reflexivity.
Qed.

Lemma app_eq_len {A} : forall (a a' b b' : list A),
  length a = length a' -> a ++ b = a' ++ b' -> a = a' /\ b = b'.
Proof.
  induction a as [|x a IH]; intros [|y a'] b b' Hl E; cbn [length app] in *; try discriminate.
  - auto.
  - injection E as -> E. destruct (IH a' b b' ltac:(lia) E) as [-> ->]. auto.
Qed.

(* ---- reading from a byte stream ------------------------------------------------------ *)

Lemma read_exact_app a b : read_exact (length a) (a ++ b) = Some (a, b).
Proof.
  unfold read_exact. rewrite app_length.
  destruct (Nat.ltb_spec (length a + length b) (length a)); [lia|].
  rewrite firstn_app_exact, skipn_app_exact. reflexivity.
Qed.

Lemma read_exact_some n s h r : read_exact n s = Some (h, r) -> s = h ++ r /\ length h = n.
Proof.
  unfold read_exact. destruct (Nat.ltb_spec (length s) n) as [|Hge]; [discriminate|].
  intros E. injection E as <- <-. split; [symmetry; apply firstn_skipn|].
  apply firstn_length_le. exact Hge.
Qed.

Lemma read_exact_none n s : read_exact n s = None <-> (length s < n)%nat.
Proof.
  unfold read_exact. destruct (Nat.ltb_spec (length s) n); split; intros; try lia; try discriminate; auto.
Qed.

(* the grouping of the bytes into chunks is invisible to io.ReadAtLeast *)
Lemma take_chunks_concat : forall cs n,
  match take_chunks n cs with
  | Some (d, r) => read_exact n (concat cs) = Some (d, concat r)
  | None => read_exact n (concat cs) = None
  end.
Proof.
  induction cs as [|c cs IH]; intros n.
  - destruct n; cbn [take_chunks concat]; reflexivity.
  - destruct n as [|n]; [reflexivity|].
    cbn [take_chunks concat].
    destruct (Nat.leb_spec (length c) (S n)) as [Hle|Hgt].
    + specialize (IH (S n - length c)%nat).
      destruct (take_chunks (S n - length c) cs) as [[d r]|].
      * apply read_exact_some in IH as [E Hd]. rewrite E, app_assoc.
        replace (S n) with (length (c ++ d)) by (rewrite app_length; lia).
        apply read_exact_app.
      * apply read_exact_none in IH. apply read_exact_none. rewrite app_length. lia.
    + cbn [concat]. rewrite <- (firstn_skipn (S n) c) at 1. rewrite <- app_assoc.
      replace (S n) with (length (firstn (S n) c)) at 1 by (apply firstn_length_le; lia).
      apply read_exact_app.
Qed.

(* ---- the socket receive loop ----------------------------------------------------------- *)

Definition frame_of (f : Z * list byte) : list byte := sock_frame (fst f) (snd f).

(* frames the real peers produce: client indices are 31 bits, bodies below 2 GiB and,
   towards a server, within MaxRequestLength *)
Definition wf_frame (sd : side) (f : Z * list byte) : Prop :=
  0 <= fst f < 2147483648 /\ Z.of_nat (length (snd f)) < 2147483648 /\
  match sd with Server max => Z.of_nat (length (snd f)) <= max | Client => True end.

Lemma sock_frame_length i b : length (sock_frame i b) = (12 + length b)%nat.
Proof. unfold sock_frame. rewrite app_length, sock_make_header_length. reflexivity. Qed.

Lemma gtb_false_of_le a b : a <= b -> (a >? b) = false.
Proof. intros H. rewrite Z.gtb_ltb. apply Z.ltb_ge. lia. Qed.

Lemma recv_step sd fuel f rest : wf_frame sd f ->
  recv_loop sd (S fuel) (frame_of f ++ rest) =
  let '(ds, e) := recv_loop sd fuel rest in (f :: ds, e).
Proof.
  destruct f as [i b]. unfold wf_frame, frame_of. cbn [fst snd]. intros (Hi & Hb & Hmax).
  unfold sock_frame. rewrite <- app_assoc. cbn [recv_loop].
  rewrite <- (sock_make_header_length (Z.of_nat (length b)) i) at 1. rewrite read_exact_app.
  rewrite sock_roundtrip by lia.
  unfold is_reject. cbn [negb]. rewrite !andb_false_r.
  replace (match sd with Server max => Z.of_nat (length b) >? max | Client => false end) with false
    by (destruct sd; [symmetry; apply gtb_false_of_le; exact Hmax|reflexivity]).
  rewrite Nat2Z.id, read_exact_app.
  replace (match sd with Server _ => false | Client => false end) with false by (destruct sd; reflexivity).
  reflexivity.
Qed.

(* each iteration eats at least the 12 header bytes: more fuel than bytes is always enough,
   and how much more does not matter *)
Lemma recv_loop_fuel sd : forall f1 f2 s, (length s < f1)%nat -> (length s < f2)%nat ->
  recv_loop sd f1 s = recv_loop sd f2 s.
Proof.
  induction f1 as [|f1 IH]; intros f2 s H1 H2; [lia|]. destruct f2 as [|f2]; [lia|].
  cbn [recv_loop].
  destruct (read_exact 12 s) as [[h s1]|] eqn:Eh; [|reflexivity].
  apply read_exact_some in Eh as [-> Hh]. rewrite app_length in H1, H2.
  destruct (sock_parse_header h) as [[[len idx] ok]|]; [|reflexivity].
  destruct (is_reject _); [reflexivity|]. destruct (match sd with Server _ => _ | Client => _ end); [reflexivity|].
  destruct (read_exact (Z.to_nat len) s1) as [[body s2]|] eqn:Eb; [|reflexivity].
  apply read_exact_some in Eb as [-> Hb]. rewrite app_length in H1, H2.
  destruct (match sd with Server _ => _ | Client => _ end); [reflexivity|].
  rewrite (IH f2 s2) by lia. reflexivity.
Qed.

Lemma recv_loop_no_out_of_fuel sd : forall f s, (length s < f)%nat ->
  snd (recv_loop sd f s) <> OutOfFuel.
Proof.
  induction f as [|f IH]; intros s H; [lia|]. cbn [recv_loop].
  destruct (read_exact 12 s) as [[h s1]|] eqn:Eh; [|destruct s; cbn; discriminate].
  apply read_exact_some in Eh as [-> Hh]. rewrite app_length in H.
  destruct (sock_parse_header h) as [[[len idx] ok]|]; [|cbn; discriminate].
  destruct (is_reject _); [cbn; discriminate|].
  destruct (match sd with Server _ => _ | Client => _ end); [cbn; discriminate|].
  destruct (read_exact (Z.to_nat len) s1) as [[body s2]|] eqn:Eb; [|cbn; discriminate].
  apply read_exact_some in Eb as [-> Hb]. rewrite app_length in H.
  destruct (match sd with Server _ => _ | Client => _ end); [cbn; discriminate|].
  specialize (IH s2 ltac:(lia)). destruct (recv_loop sd f s2). exact IH.
Qed.

Lemma recv_frames_fuel_enough sd s : snd (recv_frames sd s) <> OutOfFuel.
Proof. apply recv_loop_no_out_of_fuel. lia. Qed.

Lemma recv_frames_cons sd f rest : wf_frame sd f ->
  recv_frames sd (frame_of f ++ rest) = let '(ds, e) := recv_frames sd rest in (f :: ds, e).
Proof.
  intros Hf. unfold recv_frames. rewrite recv_step by exact Hf.
  rewrite (recv_loop_fuel sd _ (S (length rest)) rest); [reflexivity| |lia].
  rewrite app_length. unfold frame_of. rewrite sock_frame_length. lia.
Qed.

(* well-formed frames, back to back, followed by anything: the frames are delivered
   one by one, then the loop carries on with the rest *)
Lemma recv_frames_app sd fs tail : Forall (wf_frame sd) fs ->
  recv_frames sd (concat (map frame_of fs) ++ tail) =
  let '(ds, e) := recv_frames sd tail in (fs ++ ds, e).
Proof.
  induction 1 as [|f fs Hf Hfs IH]; cbn [map concat app].
  - destruct (recv_frames sd tail). reflexivity.
  - rewrite <- app_assoc, recv_frames_cons by exact Hf. rewrite IH.
    destruct (recv_frames sd tail). reflexivity.
Qed.

Lemma recv_frames_nil sd : recv_frames sd [] = ([], EndEOF).
Proof. reflexivity. Qed.

Lemma stream_framing sd fs : Forall (wf_frame sd) fs ->
  recv_frames sd (concat (map frame_of fs)) = (fs, EndEOF).
Proof.
  intros H. rewrite <- (app_nil_r (concat _)). rewrite recv_frames_app by exact H.
  rewrite recv_frames_nil, app_nil_r. reflexivity.
Qed.

(* a stream that stops inside a frame: nothing of that frame is handed over *)
Lemma recv_truncated sd f p q : wf_frame sd f -> frame_of f = p ++ q -> q <> [] ->
  fst (recv_frames sd p) = [] /\ (p <> [] -> snd (recv_frames sd p) <> EndEOF).
Proof.
  destruct f as [i b]. unfold wf_frame, frame_of. cbn [fst snd]. intros (Hi & Hb & Hmax) E Hq.
  unfold recv_frames. cbn [recv_loop].
  destruct (read_exact 12 p) as [[h s1]|] eqn:Eh.
  2:{ split; [reflexivity|]. destruct p; [congruence|cbn; discriminate]. }
  apply read_exact_some in Eh as [-> Hh].
  unfold sock_frame in E. rewrite <- app_assoc in E.
  assert (Ehh : sock_make_header (Z.of_nat (length b)) i = h /\ b = s1 ++ q).
  { apply app_eq_len; [rewrite sock_make_header_length; lia|exact E]. }
  destruct Ehh as [<- Eb].
  rewrite sock_roundtrip by lia.
  unfold is_reject. cbn [negb]. rewrite !andb_false_r.
  replace (match sd with Server max => Z.of_nat (length b) >? max | Client => false end) with false
    by (destruct sd; [symmetry; apply gtb_false_of_le; exact Hmax|reflexivity]).
  rewrite Nat2Z.id.
  assert (Hshort : (length s1 < length b)%nat).
  { rewrite Eb, app_length. destruct q; [congruence|cbn [length]; lia]. }
  apply read_exact_none in Hshort. rewrite Hshort. split; [reflexivity|cbn; discriminate].
Qed.

Lemma stream_truncation sd fs f p q :
  Forall (wf_frame sd) fs -> wf_frame sd f -> frame_of f = p ++ q -> q <> [] ->
  fst (recv_frames sd (concat (map frame_of fs) ++ p)) = fs.
Proof.
  intros Hfs Hf E Hq. rewrite recv_frames_app by exact Hfs.
  destruct (recv_truncated sd f p q Hf E Hq) as [H1 _].
  destruct (recv_frames sd p) as [ds e]. cbn [fst] in *. subst ds. apply app_nil_r.
Qed.

(* ---- whatever arrives: only whole, checksum-valid, exactly-sized segments get through ---- *)

Definition sock_crc_ok (h : list byte) : bool :=
  match h with
  | [c0; c1; c2; c3; l0; l1; l2; l3; i0; i1; i2; i3] =>
      Z.of_N (crc32 [l0; l1; l2; l3; i0; i1; i2; i3]) =? rd32 c0 c1 c2 c3
  | _ => false
  end.

Lemma sock_parse_accept h r : sock_parse_header h = Some r -> is_reject r = false ->
  sock_crc_ok h = true /\ 0 <= fst (fst r) < 2147483648 /\ 0 <= snd (fst r) < 2147483648 + 2147483648.
Proof.
  destruct h as [|c0 [|c1 [|c2 [|c3 [|l0 [|l1 [|l2 [|l3 [|i0 [|i1 [|i2 [|i3 [|x h]]]]]]]]]]]]];
    try discriminate.
  rewrite sock_parse_12. cbn [sock_crc_ok].
  destruct (Z.of_N (crc32 _) =? rd32 c0 c1 c2 c3); cbn [negb]; intros E; injection E as <-.
  - intros _. cbn [fst snd]. split; [reflexivity|]. split; [apply sock_len_range|].
    pose proof (rd32_range i0 i1 i2 i3). destruct (_ =? 0); [lia|].
    rewrite land_31bits. pose proof (Z.mod_pos_bound (rd32 i0 i1 i2 i3) 2147483648 ltac:(lia)). lia.
  - cbn. discriminate.
Qed.

Inductive segments : list byte -> list (Z * list byte) -> Prop :=
| seg_nil s : segments s []
| seg_cons h body rest index ok ds :
    length h = 12%nat -> sock_crc_ok h = true ->
    sock_parse_header h = Some (Z.of_nat (length body), index, ok) ->
    segments rest ds ->
    segments (h ++ body ++ rest) ((index, body) :: ds).

Lemma recv_loop_sound sd : forall fuel s, segments s (fst (recv_loop sd fuel s)).
Proof.
  induction fuel as [|fuel IH]; intros s; [constructor|]. cbn [recv_loop].
  destruct (read_exact 12 s) as [[h s1]|] eqn:Eh; [|constructor].
  apply read_exact_some in Eh as [-> Hh].
  destruct (sock_parse_header h) as [[[len idx] ok]|] eqn:Ep; [|constructor].
  destruct (is_reject _) eqn:Er; [constructor|].
  destruct (match sd with Server _ => _ | Client => _ end); [constructor|].
  destruct (read_exact (Z.to_nat len) s1) as [[body s2]|] eqn:Eb; [|constructor].
  apply read_exact_some in Eb as [-> Hb].
  destruct (match sd with Server _ => _ | Client => _ end); [constructor|].
  specialize (IH s2). destruct (recv_loop sd fuel s2) as [ds e]. cbn [fst] in *.
  destruct (sock_parse_accept h _ Ep Er) as (Hc & Hl & _). cbn [fst snd] in Hl.
  apply (seg_cons h body s2 idx ok ds Hh Hc); [|exact IH].
  rewrite Hb, Z2Nat.id by lia. exact Ep.
Qed.

Lemma recv_frames_sound sd s : segments s (fst (recv_frames sd s)).
Proof. apply recv_loop_sound. Qed.

(* ---- UDP datagrams ------------------------------------------------------------------------ *)

Lemma udp_read_into_fits buf d : (length d <= length buf)%nat ->
  udp_read_into buf d = (d ++ skipn (length d) buf, length d).
Proof.
  intros H. unfold udp_read_into. rewrite Nat.min_l by exact H. rewrite firstn_all. reflexivity.
Qed.

Lemma copy_fresh_exact a tail : copy_fresh (length a) (a ++ tail) = a.
Proof.
  unfold copy_fresh. rewrite firstn_app_exact, app_length.
  replace (length a - (length a + length tail))%nat with 0%nat by lia. apply app_nil_r.
Qed.

Lemma firstn_app_le {A} n (a b : list A) : (n <= length a)%nat -> firstn n (a ++ b) = firstn n a.
Proof.
  intros H. rewrite firstn_app. replace (n - length a)%nat with 0%nat by lia.
  unfold firstn at 2. destruct b; apply app_nil_r.
Qed.

Lemma skipn_app_le {A} n (a b : list A) : (n <= length a)%nat -> skipn n (a ++ b) = skipn n a ++ b.
Proof.
  intros H. rewrite skipn_app. replace (n - length a)%nat with 0%nat by lia. reflexivity.
Qed.

(* A datagram built the way both peers build it is handed over exactly, whatever the
   receive buffer held before. *)
Lemma udp_wellformed sd buf i b :
  (8 + length b <= length buf)%nat -> 0 <= i < 32768 -> Z.of_nat (length b) < 65536 ->
  match sd with Server max => Z.of_nat (length b) <= max | Client => True end ->
  snd (udp_step sd buf (udp_make_header (Z.of_nat (length b)) i ++ b)) = DDeliver i b.
Proof.
  intros Hfit Hi Hb Hmax. unfold udp_step.
  set (hd := udp_make_header (Z.of_nat (length b)) i).
  assert (Hhd : length hd = 8%nat) by reflexivity.
  rewrite udp_read_into_fits by (rewrite app_length; lia).
  rewrite app_length, Hhd. destruct (Nat.ltb_spec (8 + length b) 8) as [|_]; [lia|].
  rewrite <- app_assoc.
  assert (F : forall x, firstn 8 (hd ++ x) = hd) by (intros x; rewrite <- Hhd; apply firstn_app_exact).
  assert (K : forall x, skipn 8 (hd ++ x) = x) by (intros x; rewrite <- Hhd; apply skipn_app_exact).
  rewrite !F, !K. clear F K.
  subst hd. rewrite udp_roundtrip by lia.
  unfold is_reject. cbn [negb]. rewrite !andb_false_r.
  replace (match sd with Server max => Z.of_nat (length b) >? max | Client => false end) with false
    by (destruct sd; [symmetry; apply gtb_false_of_le; exact Hmax|reflexivity]).
  rewrite Nat2Z.id, copy_fresh_exact. destruct sd; reflexivity.
Qed.

(* the statement the property asks for: what is handed over is what arrived after the header *)
Definition datagram_exact_at (sd : side) (buf d : list byte) : Prop :=
  forall i body, snd (udp_step sd buf d) = DDeliver i body -> body = skipn 8 d.

Definition datagram_exact : Prop :=
  forall max buf d, (length d <= length buf)%nat -> datagram_exact_at (Server max) buf d.

Lemma udp_partial sd buf d : (length d <= length buf)%nat -> udp_consistent d = true ->
  datagram_exact_at sd buf d.
Proof.
  intros Hfit Hc i body. unfold udp_step. rewrite udp_read_into_fits by exact Hfit.
  destruct (Nat.ltb_spec (length d) 8) as [|Hn]; [discriminate|].
  rewrite firstn_app_le by exact Hn. unfold udp_consistent in Hc.
  destruct (udp_parse_header (firstn 8 d)) as [[[len idx] ok]|]; [|discriminate].
  apply Z.eqb_eq in Hc. subst len.
  destruct (is_reject _); [discriminate|].
  destruct (match sd with Server _ => _ | Client => _ end); [discriminate|].
  destruct (match sd with Server _ => _ | Client => _ end); [discriminate|].
  cbn [snd]. intros E. injection E as _ <-.
  rewrite skipn_app_le by exact Hn.
  replace (Z.to_nat (Z.of_nat (length d) - 8)) with (length (skipn 8 d)) by (rewrite skipn_length; lia).
  apply copy_fresh_exact.
Qed.

(* with the proposed length check the statement holds for every datagram and buffer *)
Lemma udp_fixed_exact sd buf d i body : (length d <= length buf)%nat ->
  snd (udp_step_fixed sd buf d) = DDeliver i body -> body = skipn 8 d.
Proof.
  intros Hfit. unfold udp_step_fixed. rewrite udp_read_into_fits by exact Hfit.
  destruct (Nat.ltb_spec (length d) 8) as [|Hn]; [discriminate|].
  destruct (udp_parse_header _) as [[[len idx] ok]|]; [|discriminate].
  destruct (is_reject _); [discriminate|].
  destruct (Z.eqb_spec len (Z.of_nat (length d) - 8)) as [->|]; [|discriminate]. cbn [negb].
  destruct (match sd with Server _ => _ | Client => _ end); [discriminate|].
  destruct (match sd with Server _ => _ | Client => _ end); [discriminate|].
  cbn [snd]. intros E. injection E as _ <-.
  rewrite skipn_app_le by exact Hn.
  replace (Z.to_nat (Z.of_nat (length d) - 8)) with (length (skipn 8 d)) by (rewrite skipn_length; lia).
  apply copy_fresh_exact.
Qed.

(* and well-formed datagrams still get through the fixed loop *)
Lemma udp_fixed_wellformed sd buf i b :
  (8 + length b <= length buf)%nat -> 0 <= i < 32768 -> Z.of_nat (length b) < 65536 ->
  match sd with Server max => Z.of_nat (length b) <= max | Client => True end ->
  snd (udp_step_fixed sd buf (udp_make_header (Z.of_nat (length b)) i ++ b)) = DDeliver i b.
Proof.
  intros Hfit Hi Hb Hmax. unfold udp_step_fixed.
  set (hd := udp_make_header (Z.of_nat (length b)) i).
  assert (Hhd : length hd = 8%nat) by reflexivity.
  rewrite udp_read_into_fits by (rewrite app_length; lia).
  rewrite app_length, Hhd. destruct (Nat.ltb_spec (8 + length b) 8) as [|_]; [lia|].
  rewrite <- app_assoc.
  assert (F : forall x, firstn 8 (hd ++ x) = hd) by (intros x; rewrite <- Hhd; apply firstn_app_exact).
  assert (K : forall x, skipn 8 (hd ++ x) = x) by (intros x; rewrite <- Hhd; apply skipn_app_exact).
  rewrite !F, !K. clear F K.
  subst hd. rewrite udp_roundtrip by lia.
  unfold is_reject. cbn [negb]. rewrite !andb_false_r.
  replace (Z.of_nat (length b) =? Z.of_nat (8 + length b) - 8) with true by (symmetry; apply Z.eqb_eq; lia).
  cbn [negb].
  replace (match sd with Server max => Z.of_nat (length b) >? max | Client => false end) with false
    by (destruct sd; [symmetry; apply gtb_false_of_le; exact Hmax|reflexivity]).
  rewrite Nat2Z.id, copy_fresh_exact. destruct sd; reflexivity.
Qed.

(* sending: within 65499 bytes the datagram is header ++ body, beyond it the slice panics *)
Lemma udp_send_ok i b : Z.of_nat (length b) <= 65499 ->
  udp_send UDP_BUFFER i b = Sent (udp_make_header (Z.of_nat (length b)) i ++ b).
Proof.
  intros H. unfold udp_send, UDP_BUFFER.
  destruct (Nat.ltb_spec (Z.to_nat 65507) (8 + length b)); [lia|reflexivity].
Qed.

Lemma udp_send_panics i b : 65499 < Z.of_nat (length b) -> udp_send UDP_BUFFER i b = SendPanic.
Proof.
  intros H. unfold udp_send, UDP_BUFFER.
  destruct (Nat.ltb_spec (Z.to_nat 65507) (8 + length b)); [reflexivity|lia].
Qed.

Lemma udp_zero_buffer_length : length udp_zero_buffer = UDP_BUFFER.
Proof. apply repeat_length. Qed.

(* ---- websocket messages --------------------------------------------------------------------- *)

Lemma ws_recv_frame sd i b : 0 <= i < 2147483648 ->
  match sd with Server max => Z.of_nat (length b) <= max | Client => True end ->
  ws_recv sd (ws_frame i b) = WDeliver i b.
Proof.
  intros Hi Hmax. unfold ws_frame. pose proof (ws_roundtrip_gen i) as H.
  destruct (ws_make_header i) as [|a0 [|a1 [|a2 [|a3 [|]]]]]; try contradiction.
  cbn [app ws_recv]. rewrite H.
  rewrite (Z.mod_small i 4294967296) by lia. rewrite Z.mod_small by lia.
  destruct (Z.ltb_spec i 2147483648); [|lia]. cbn [negb].
  destruct sd; [|reflexivity]. rewrite gtb_false_of_le by exact Hmax. reflexivity.
Qed.

Lemma ws_recv_error_frame i b : 0 <= i < 2147483648 ->
  ws_recv Client (ws_frame (Z.lor i (-2147483648)) b) = WErrorFrame b.
Proof.
  intros Hi. unfold ws_frame. pose proof (ws_roundtrip_gen (Z.lor i (-2147483648))) as H.
  destruct (ws_make_header _) as [|a0 [|a1 [|a2 [|a3 [|]]]]]; try contradiction.
  cbn [app ws_recv]. rewrite H. rewrite lor_minint by exact Hi.
  replace ((i - 2147483648) mod 4294967296) with (i + 2147483648) by (Z.div_mod_to_equations; lia).
  destruct (Z.ltb_spec (i + 2147483648) 2147483648); [lia|]. reflexivity.
Qed.

(* whatever the message: a delivered body is exactly the message minus its first four bytes *)
Lemma ws_recv_exact sd msg i body : ws_recv sd msg = WDeliver i body ->
  (4 <= length msg)%nat /\ body = skipn 4 msg.
Proof.
  destruct msg as [|a [|b [|c [|d rest]]]]; cbn [ws_recv].
  - discriminate.
  - destruct sd; [destruct (_ =? 0)|]; discriminate.
  - destruct sd; [destruct (_ =? 0)|]; discriminate.
  - destruct sd; [destruct (_ =? 0)|]; discriminate.
  - destruct (ws_parse_header a b c d) as [idx ok].
    destruct sd; [destruct (negb ok); [discriminate|]; destruct (_ >? _); [discriminate|]
                 |destruct (negb ok); [discriminate|]];
    intros E; injection E as _ <-; (split; [cbn [length]; lia|reflexivity]).
Qed.

Lemma ws_recv_short sd msg : (length msg < 4)%nat ->
  ws_recv sd msg = WPanic \/ ws_recv sd msg = WBadHeader.
Proof.
  destruct msg as [|a [|b [|c [|d rest]]]]; cbn [length ws_recv]; intros H; try lia;
  destruct sd; try destruct (_ =? 0); auto.
Qed.

(* ---- HTTP bodies ----------------------------------------------------------------------------- *)

Lemma copy_fresh_all a : copy_fresh (length a) a = a.
Proof. rewrite <- (app_nil_r a) at 2. apply copy_fresh_exact. Qed.

(* Content-Length equal to what is sent (what net/http and fasthttp clients do), or
   absent/zero with the body read to EOF *)
Definition http_consistent (declared : Z) (actual : list byte) : bool :=
  (declared <=? 0) || (declared =? Z.of_nat (length actual)).

Lemma http_read_all_consistent declared actual : http_consistent declared actual = true ->
  http_read_all declared actual = (actual, false).
Proof.
  unfold http_consistent, http_read_all. intros H.
  destruct (Z.gtb_spec declared 0) as [Hpos|]; [|reflexivity].
  apply orb_true_iff in H as [H|H]; [apply Z.leb_le in H; lia|]. apply Z.eqb_eq in H. subst declared.
  rewrite Nat2Z.id, copy_fresh_all. destruct (Nat.ltb_spec (length actual) (length actual)); [lia|reflexivity].
Qed.

Lemma http_server_partial max declared actual : http_consistent declared actual = true ->
  declared <= max -> http_server_recv max declared actual = HDeliver actual.
Proof.
  intros H Hm. unfold http_server_recv. rewrite gtb_false_of_le by exact Hm.
  rewrite http_read_all_consistent by exact H. reflexivity.
Qed.

(* net/http never yields more body bytes than Content-Length announces *)
Definition http_limited (declared : Z) (actual : list byte) : Prop :=
  declared > 0 -> Z.of_nat (length actual) <= declared.

Lemma http_read_all_ok declared actual data : http_limited declared actual ->
  http_read_all declared actual = (data, false) -> data = actual.
Proof.
  unfold http_limited, http_read_all. intros Hl.
  destruct (Z.gtb_spec declared 0) as [Hpos|]; [|congruence].
  specialize (Hl ltac:(lia)).
  destruct (Nat.ltb_spec (length actual) (Z.to_nat declared)) as [|Hge]; [discriminate|].
  intros E. injection E as <-.
  replace (Z.to_nat declared) with (length actual) by lia. apply copy_fresh_all.
Qed.

Lemma http_client_exact declared actual body : http_limited declared actual ->
  http_client_recv declared actual = HDeliver body -> body = actual.
Proof.
  intros Hl. unfold http_client_recv.
  destruct (http_read_all declared actual) as [data err] eqn:E. destruct err; [discriminate|].
  intros H. injection H as <-. apply (http_read_all_ok declared actual data Hl E).
Qed.

Lemma http_server_fixed_exact max declared actual body : http_limited declared actual ->
  http_server_recv_fixed max declared actual = HDeliver body -> body = actual.
Proof.
  intros Hl. unfold http_server_recv_fixed. destruct (declared >? max); [discriminate|].
  destruct (http_read_all declared actual) as [data err] eqn:E. destruct err; [discriminate|].
  intros H. injection H as <-. apply (http_read_all_ok declared actual data Hl E).
Qed.

Definition http_exact : Prop :=
  forall max declared actual body, http_limited declared actual ->
  http_server_recv max declared actual = HDeliver body -> body = actual.

(* ---- every length, end to end --------------------------------------------------------------- *)

Lemma lengths_socket sd i b : wf_frame sd (i, b) ->
  recv_frames sd (sock_frame i b) = ([(i, b)], EndEOF).
Proof.
  intros H. pose proof (stream_framing sd [(i, b)] (Forall_cons _ H (Forall_nil _))) as E.
  cbn [map concat frame_of fst snd] in E. rewrite app_nil_r in E. exact E.
Qed.

Lemma lengths_udp sd buf i b :
  length buf = UDP_BUFFER -> 0 <= i < 32768 ->
  match sd with Server max => Z.of_nat (length b) <= max | Client => True end ->
  (Z.of_nat (length b) <= 65499 ->
     exists d, udp_send UDP_BUFFER i b = Sent d /\ snd (udp_step sd buf d) = DDeliver i b) /\
  (65499 < Z.of_nat (length b) -> udp_send UDP_BUFFER i b = SendPanic).
Proof.
  intros Hbuf Hi Hmax. split; [|apply udp_send_panics].
  intros Hb. eexists. split; [apply udp_send_ok; exact Hb|].
  apply udp_wellformed; try assumption; [|lia].
  rewrite Hbuf. unfold UDP_BUFFER. lia.
Qed.

Lemma lengths_ws sd i b : 0 <= i < 2147483648 ->
  match sd with Server max => Z.of_nat (length b) <= max | Client => True end ->
  ws_recv sd (ws_frame i b) = WDeliver i b.
Proof. apply ws_recv_frame. Qed.

Lemma lengths_http max b : Z.of_nat (length b) <= max ->
  http_server_recv max (Z.of_nat (length b)) b = HDeliver b /\
  http_server_recv max (-1) b = HDeliver b /\
  http_client_recv (Z.of_nat (length b)) b = HDeliver b /\
  http_client_recv (-1) b = HDeliver b.
Proof.
  intros Hm.
  assert (C1 : http_consistent (Z.of_nat (length b)) b = true).
  { unfold http_consistent. rewrite Z.eqb_refl. apply orb_true_r. }
  assert (C2 : http_consistent (-1) b = true) by reflexivity.
  split; [|split; [|split]].
  - apply http_server_partial; [exact C1|exact Hm].
  - apply http_server_partial; [exact C2|lia].
  - unfold http_client_recv. rewrite http_read_all_consistent by exact C1. reflexivity.
  - unfold http_client_recv. rewrite http_read_all_consistent by exact C2. reflexivity.
Qed.

(* ---- witnesses: what the faithful model does with inconsistent datagrams / bodies ----------- *)

From Coq Require Strings.String.
Import String.
Definition bytes_of (s : String.string) : list byte := String.list_byte_of_string s.

Definition leak_d1 : list byte := udp_make_header 20 1 ++ bytes_of "SECRET-OF-CLIENT-ONE"%string.
Definition leak_d2 : list byte := udp_make_header 20 2 ++ bytes_of "hi"%string.

(* two datagrams from two clients through the real 65507-byte buffer, zeroed at start:
   the second declares 20 bytes, carries 2, and is completed with the first one's bytes *)
Lemma udp_cross_client_leak :
  udp_server_run 1000 [leak_d1; leak_d2] =
    [DDeliver 1 (bytes_of "SECRET-OF-CLIENT-ONE"%string); DDeliver 2 (bytes_of "hiCRET-OF-CLIENT-ONE"%string)]
  /\ skipn 8 leak_d2 = bytes_of "hi"%string.
Proof. vm_compute. split; reflexivity. Qed.

Lemma datagram_exact_refuted : ~ datagram_exact.
Proof.
  intros H.
  specialize (H 1000 (skipn 0 (leak_d1 ++ bytes_of "................"%string)) leak_d2
                ltac:(vm_compute; lia) 2 (bytes_of "hiCRET-OF-CLIENT-ONE"%string) ltac:(vm_compute; reflexivity)).
  vm_compute in H. discriminate H.
Qed.

(* declared < carried: the surplus is cut off *)
Lemma udp_truncation_witness :
  udp_server_run 1000 [udp_make_header 2 7 ++ bytes_of "hello"%string] = [DDeliver 7 (bytes_of "he"%string)].
Proof. vm_compute. reflexivity. Qed.

(* the client's buffer is fresh on every receive: a response declaring more than it carries
   is padded with zero bytes, one declaring less is cut *)
Lemma udp_client_padding_witness :
  udp_client_recv (udp_make_header 6 3 ++ bytes_of "hi"%string) =
    DDeliver 3 (bytes_of "hi"%string ++ [x00; x00; x00; x00]) /\
  udp_client_recv (udp_make_header 2 3 ++ bytes_of "hello"%string) = DDeliver 3 (bytes_of "he"%string).
Proof. vm_compute. split; reflexivity. Qed.

Lemma http_exact_refuted : ~ http_exact.
Proof.
  intros H.
  specialize (H 1000 6 (bytes_of "hi"%string) (bytes_of "hi"%string ++ [x00; x00; x00; x00])
                ltac:(unfold http_limited; cbn; lia) ltac:(vm_compute; reflexivity)).
  vm_compute in H. discriminate H.
Qed.

Lemma http_padding_witness :
  http_server_recv 1000 6 (bytes_of "hi"%string) = HDeliver (bytes_of "hi"%string ++ [x00; x00; x00; x00]).
Proof. vm_compute. reflexivity. Qed.

(* ---- later states of the handlers ------------------------------------------------------------ *)
(* (String is imported above: List.length is written out) *)

Lemma udp_transport_ok i b : Z.of_nat (List.length b) <= 65499 ->
  udp_transport UDP_BUFFER i b = TSent (udp_make_header (Z.of_nat (List.length b)) i ++ b).
Proof.
  intros H. unfold udp_transport. rewrite udp_send_ok by exact H. unfold UDP_BUFFER.
  destruct (Nat.ltb_spec (Z.to_nat 65507 - 8) (List.length b)); [lia|reflexivity].
Qed.

Lemma udp_transport_refused i b : 65499 < Z.of_nat (List.length b) ->
  udp_transport UDP_BUFFER i b = TRefused.
Proof.
  intros H. unfold udp_transport, UDP_BUFFER.
  destruct (Nat.ltb_spec (Z.to_nat 65507 - 8) (List.length b)); [reflexivity|lia].
Qed.

Lemma udp_transport_never_panics i b : udp_transport UDP_BUFFER i b <> TPanic.
Proof.
  destruct (Z.le_gt_cases (Z.of_nat (List.length b)) 65499) as [H|H].
  - rewrite udp_transport_ok by exact H. discriminate.
  - rewrite udp_transport_refused by lia. discriminate.
Qed.

Lemma udp_fixed_error_frame buf i b :
  (8 + List.length b <= List.length buf)%nat -> 0 <= i < 32768 -> Z.of_nat (List.length b) < 65536 ->
  snd (udp_step_fixed Client buf (udp_make_header (Z.of_nat (List.length b)) (Z.lor i 32768) ++ b)) = DErrorFrame b.
Proof.
  intros Hfit Hi Hb. unfold udp_step_fixed.
  set (hd := udp_make_header (Z.of_nat (List.length b)) (Z.lor i 32768)).
  assert (Hhd : List.length hd = 8%nat) by reflexivity.
  rewrite udp_read_into_fits by (rewrite app_length; lia).
  rewrite app_length, Hhd. destruct (Nat.ltb_spec (8 + List.length b) 8) as [|_]; [lia|].
  rewrite <- app_assoc.
  assert (F : forall x, firstn 8 (hd ++ x) = hd) by (intros x; rewrite <- Hhd; apply firstn_app_exact).
  assert (K : forall x, skipn 8 (hd ++ x) = x) by (intros x; rewrite <- Hhd; apply skipn_app_exact).
  rewrite !F, !K. clear F K.
  subst hd. rewrite udp_roundtrip_error by lia.
  unfold is_reject.
  replace (i =? -1) with false by (symmetry; apply Z.eqb_neq; lia). rewrite andb_false_r. cbn [andb].
  replace (Z.of_nat (List.length b) =? Z.of_nat (8 + List.length b) - 8) with true by (symmetry; apply Z.eqb_eq; lia).
  cbn [negb]. rewrite Nat2Z.id, copy_fresh_exact. reflexivity.
Qed.

(* the server's answer, whatever its size, reaches the caller exactly or as an error frame *)
Lemma udp_reply_received buf i b :
  List.length buf = UDP_BUFFER -> 0 <= i < 32768 ->
  (Z.of_nat (List.length b) <= 65499 ->
     snd (udp_step_fixed Client buf (udp_reply UDP_BUFFER i b)) = DDeliver i b) /\
  (65499 < Z.of_nat (List.length b) ->
     snd (udp_step_fixed Client buf (udp_reply UDP_BUFFER i b)) = DErrorFrame RESPONSE_TOO_LARGE).
Proof.
  intros Hbuf Hi. unfold udp_reply, UDP_BUFFER in *. split; intros Hb.
  - destruct (Nat.ltb_spec (Z.to_nat 65507 - 8) (List.length b)); [lia|].
    apply udp_fixed_wellformed; try lia; exact I.
  - destruct (Nat.ltb_spec (Z.to_nat 65507 - 8) (List.length b)); [|lia].
    apply udp_fixed_error_frame; try lia.
    + rewrite Hbuf. change (List.length RESPONSE_TOO_LARGE) with 25%nat. lia.
    + change (List.length RESPONSE_TOO_LARGE) with 25%nat. lia.
Qed.

(* the client's index masks: what goes on the wire comes back unchanged and unflagged, for
   every value of the connection's call counter *)
Lemma udp_client_index_sound counter length : 0 <= length < 65536 ->
  udp_parse_header (udp_make_header length (client_index UDP_INDEX_MASK counter)) =
  Some (length, client_index UDP_INDEX_MASK counter, true).
Proof.
  intros Hl. unfold client_index, UDP_INDEX_MASK. rewrite land_15bits.
  apply udp_roundtrip; [exact Hl|]. apply Z.mod_pos_bound. lia.
Qed.

Lemma sock_client_index_sound counter length : 0 <= length < 2147483648 ->
  sock_parse_header (sock_make_header length (client_index SOCK_INDEX_MASK counter)) =
  Some (length, client_index SOCK_INDEX_MASK counter, true).
Proof.
  intros Hl. unfold client_index, SOCK_INDEX_MASK. rewrite land_31bits.
  apply sock_roundtrip; [exact Hl|]. apply Z.mod_pos_bound. lia.
Qed.

(* a 16-bit mask on UDP is not sound: call 32768 is answered under another index *)
Lemma udp_client_index_wide_refuted :
  exists counter, udp_parse_header (udp_make_header 0 (client_index 65535 counter)) = Some (0, 0, false) /\
                  client_index 65535 counter = 32768.
Proof. exists 32768. vm_compute. split; reflexivity. Qed.

Lemma limit_reader_firstn lim l : limit_reader lim l = firstn (Z.to_nat lim) l.
Proof.
  unfold limit_reader. destruct (Z.leb_spec (Z.of_nat (List.length l)) lim); [|reflexivity].
  symmetry. apply firstn_all2. lia.
Qed.

(* the HTTP server as it reads now: exact or refused, for every MaxRequestLength *)
Lemma http_limited_exact max declared actual body :
  0 <= max -> http_limited declared actual ->
  http_server_recv_limited max declared actual = HDeliver body -> body = actual.
Proof.
  intros Hmax Hl. unfold http_server_recv_limited, http_server_recv_lim.
  rewrite limit_reader_firstn.
  destruct (Z.gtb_spec declared max) as [|Hdm]; [discriminate|].
  destruct (http_read_all declared (firstn (Z.to_nat (max + 1)) actual)) as [data err] eqn:E.
  destruct err; [discriminate|].
  destruct (Z.gtb_spec (Z.of_nat (List.length data)) max) as [|Hlen]; [discriminate|].
  intros H; injection H as <-.
  destruct (Z.gtb_spec declared 0) as [Hpos|Hnp].
  - assert (Hfit : firstn (Z.to_nat (max + 1)) actual = actual).
    { apply firstn_all2. unfold http_limited in Hl. specialize (Hl ltac:(lia)). lia. }
    rewrite Hfit in E. exact (http_read_all_ok declared actual data Hl E).
  - unfold http_read_all in E. destruct (Z.gtb_spec declared 0); [lia|].
    injection E as <-. rewrite firstn_length in Hlen. apply firstn_all2. lia.
Qed.

Lemma http_limited_delivers max declared actual :
  http_consistent declared actual = true -> declared <= max -> Z.of_nat (List.length actual) <= max ->
  http_server_recv_limited max declared actual = HDeliver actual.
Proof.
  intros Hc Hd Hm. unfold http_server_recv_limited, http_server_recv_lim.
  rewrite gtb_false_of_le by exact Hd. rewrite limit_reader_firstn.
  rewrite firstn_all2 by lia. rewrite http_read_all_consistent by exact Hc.
  rewrite gtb_false_of_le by exact Hm. reflexivity.
Qed.

Lemma http_limited_refuses_oversize max declared actual :
  0 <= max -> max < Z.of_nat (List.length actual) -> declared <= 0 ->
  http_server_recv_limited max declared actual = HTooLarge.
Proof.
  intros Hmax Hbig Hd. unfold http_server_recv_limited, http_server_recv_lim.
  rewrite limit_reader_firstn.
  destruct (Z.gtb_spec declared max); [reflexivity|].
  unfold http_read_all. destruct (Z.gtb_spec declared 0); [lia|].
  rewrite firstn_length.
  destruct (Z.gtb_spec (Z.of_nat (Nat.min (Z.to_nat (max + 1)) (List.length actual))) max); [reflexivity|lia].
Qed.

(* reading through a limit of exactly MaxRequestLength hands a prefix to the service *)
Lemma http_limit_off_by_one_refuted :
  http_server_recv_lim 2 2 (-1) [x61; x62; x63] = HDeliver [x61; x62].
Proof. vm_compute. reflexivity. Qed.

(* ---- ownership of the request buffer ---------------------------------------------------------- *)

Lemma abandoned_copy_exact max i b0 b1 : wf_frame (Server max) (i, b0) ->
  recv_frames (Server max) (abandoned_wire Copies i b0 b1) = ([(i, b0)], EndEOF).
Proof. intros H. unfold abandoned_wire. apply (lengths_socket (Server max) i b0 H). Qed.

Lemma abandoned_alias_delivers_later_bytes max i b0 b1 :
  wf_frame (Server max) (i, b0) -> List.length b1 = List.length b0 ->
  recv_frames (Server max) (abandoned_wire Aliases i b0 b1) = ([(i, b1)], EndEOF).
Proof.
  intros H Hl. unfold abandoned_wire. rewrite <- Hl.
  apply (lengths_socket (Server max) i b1). unfold wf_frame in *. cbn [fst snd] in *. rewrite Hl. exact H.
Qed.

Lemma abandoned_alias_refuted :
  exists i b0 b1, wf_frame (Server 100) (i, b0) /\ List.length b1 = List.length b0 /\
    fst (recv_frames (Server 100) (abandoned_wire Aliases i b0 b1)) <> [(i, b0)].
Proof.
  exists 1, [x68; x69], [x58; x58]. split; [repeat split; cbn; lia|]. split; [reflexivity|].
  vm_compute. discriminate.
Qed.
