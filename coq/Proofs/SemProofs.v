(* Proofs about Model/Sem.v (C17, concurrent limiter). *)
From Coq Require Import List ZArith Bool Lia.
From HV Require Import Model.Sem.
Import ListNotations.
Open Scope Z_scope.

Definition b2z (b : bool) : Z := if b then 1 else 0.

(* --- list plumbing ------------------------------------------------------ *)

Lemma count_nonneg f l : 0 <= count f l.
Proof. induction l as [|p l IH]; cbn [count]; [lia|]. destruct (f p); lia. Qed.

Lemma count_upd_nth f : forall l i p p',
  nth_error l i = Some p ->
  count f (upd_nth i p' l) = count f l - b2z (f p) + b2z (f p').
Proof.
  induction l as [|q l IH]; intros i p p' Hn; [destruct i; discriminate|].
  destruct i as [|i]; cbn in Hn.
  - inversion Hn; subst. cbn [upd_nth count]. unfold b2z. destruct (f p), (f p'); lia.
  - cbn [upd_nth count]. rewrite (IH i p p' Hn). lia.
Qed.

Lemma total_rank_upd_nth : forall l i p p',
  nth_error l i = Some p ->
  total_rank (upd_nth i p' l) = total_rank l - rank p + rank p'.
Proof.
  induction l as [|q l IH]; intros i p p' Hn; [destruct i; discriminate|].
  destruct i as [|i]; cbn in Hn.
  - inversion Hn; subst. cbn [upd_nth total_rank]. lia.
  - cbn [upd_nth total_rank]. rewrite (IH i p p' Hn). lia.
Qed.

Lemma total_rank_nonneg l : 0 <= total_rank l.
Proof. induction l as [|p l IH]; cbn [total_rank]; [lia|]. destruct p; cbn [rank]; lia. Qed.

Lemma total_rank_repeat_idle n : total_rank (repeat PIdle n) = 4 * Z.of_nat n.
Proof. induction n as [|n IH]; [reflexivity|]. cbn [repeat total_rank rank]. lia. Qed.

Lemma count_repeat_idle f n : f PIdle = false -> count f (repeat PIdle n) = 0.
Proof. intros Hf. induction n as [|n IH]; [reflexivity|]. cbn [repeat count]. rewrite Hf, IH. reflexivity. Qed.

Lemma nth_error_upd_nth_same {A} (l : list A) : forall n x,
  (n < length l)%nat -> nth_error (upd_nth n x l) n = Some x.
Proof.
  induction l as [|y l IH]; intros n x Hn; [cbn in Hn; lia|].
  destruct n; cbn; [reflexivity|]. apply IH. cbn in Hn. lia.
Qed.

Lemma nth_error_upd_nth_other {A} (l : list A) : forall n m x,
  n <> m -> nth_error (upd_nth n x l) m = nth_error l m.
Proof.
  induction l as [|y l IH]; intros n m x Hnm; [destruct n; reflexivity|].
  destruct n, m; cbn; try reflexivity; try congruence. apply IH. congruence.
Qed.

Lemma length_upd_nth {A} (l : list A) : forall n x, length (upd_nth n x l) = length l.
Proof. induction l as [|y l IH]; intros n x; [destruct n; reflexivity|]. destruct n; cbn; [reflexivity|]. rewrite IH. reflexivity. Qed.

Lemma count_le_pointwise f g l :
  (forall p, f p = true -> g p = true) -> count f l <= count g l.
Proof.
  intros H. induction l as [|p l IH]; cbn [count]; [lia|].
  destruct (f p) eqn:Ef; [rewrite (H p Ef); lia|]. destruct (g p); lia.
Qed.

Lemma count_zero_none f l p : count f l = 0 -> In p l -> f p = false.
Proof.
  induction l as [|q l IH]; intros Hc Hin; [destruct Hin|].
  cbn [count] in Hc. pose proof (count_nonneg f l).
  destruct (f q) eqn:Eq; [lia|]. destruct Hin as [->|Hin]; [exact Eq|]. apply IH; [lia|exact Hin].
Qed.

Lemma count_pos_exists f l : 0 < count f l -> exists i p, nth_error l i = Some p /\ f p = true.
Proof.
  induction l as [|q l IH]; cbn [count]; intros H; [lia|].
  destruct (f q) eqn:Eq.
  - exists 0%nat, q. split; [reflexivity|exact Eq].
  - destruct IH as [i [p [Hn Hp]]]; [lia|]. exists (S i), p. split; [exact Hn|exact Hp].
Qed.

(* --- unfolding one step ------------------------------------------------- *)

Lemma step_inv c s i l s' :
  step c s i l = Some s' ->
  exists p ch' p', nth_error (threads s) i = Some p /\ tstep c (chan s) p l = Some (ch', p') /\
                   s' = {| chan := ch'; threads := upd_nth i p' (threads s) |}.
Proof.
  unfold step. intros H.
  destruct (nth_error (threads s) i) as [p|] eqn:Hn; [|discriminate].
  destruct (tstep c (chan s) p l) as [[ch' p']|] eqn:Ht; [|discriminate].
  inversion H; subst. exists p, ch', p'. split; [reflexivity|]. split; [exact Ht|reflexivity].
Qed.

(* every enabled move, case by case *)
Lemma tstep_cases c ch p l ch' p' :
  tstep c ch p l = Some (ch', p') ->
  (p = PIdle /\ l = LEnter /\ ch' = ch /\ p' = PWaiting) \/
  (p = PWaiting /\ l = LAcquire /\ ch < cap c /\ ch' = ch + 1 /\ p' = PRunning) \/
  (p = PWaiting /\ l = LTimeout /\ tmo c > 0 /\ ch' = ch /\ p' = PDone RTimeout) \/
  (exists o, p = PRunning /\ l = LEnd o /\ ch' = ch /\ p' = PReleasing o) \/
  (exists o, p = PReleasing o /\ l = LRelease /\ 0 < ch /\ ch' = ch - 1 /\ p' = PDone (ROut o)) \/
  (l = LCancel /\ ch' = ch /\ (p' = p \/ (p = PWaiting /\ tmo c > 0 /\ p' = PDone RTimeout))).
Proof.
  unfold tstep. intros H.
  destruct l as [| | | |o'|].
  - destruct p as [| | |o|r]; try discriminate.
    inversion H; subst. left. repeat split; reflexivity.
  - destruct p as [| | |o|r]; try discriminate.
    destruct (ch <? cap c) eqn:E; [|discriminate]. inversion H; subst.
    apply Z.ltb_lt in E. right; left. repeat split; try reflexivity. exact E.
  - destruct p as [| | |o|r]; try discriminate.
    destruct (tmo c >? 0) eqn:E; [|discriminate]. inversion H; subst.
    rewrite Z.gtb_ltb in E. apply Z.ltb_lt in E. right; right; left. repeat split; try reflexivity. lia.
  - do 5 right. split; [reflexivity|].
    destruct p as [| | |o|r]; try (inversion H; subst; split; [reflexivity|left; reflexivity]).
    destruct (tmo c >? 0) eqn:E; inversion H; subst; (split; [reflexivity|]).
    + rewrite Z.gtb_ltb in E. apply Z.ltb_lt in E. right. repeat split; try reflexivity. lia.
    + left. reflexivity.
  - destruct p as [| | |o|r]; try discriminate.
    inversion H; subst. right; right; right; left. exists o'. repeat split; reflexivity.
  - destruct p as [| | |o|r]; try discriminate.
    destruct (0 <? ch) eqn:E; [|discriminate]. inversion H; subst.
    apply Z.ltb_lt in E. right; right; right; right; left. exists o. repeat split; try reflexivity. exact E.
Qed.

(* --- the invariant: permits in the channel = requests holding one -------- *)

Definition inv (c : cfg) (s : state) : Prop := chan s = holders s /\ chan s <= cap c.

Lemma inv_init c n : 0 <= cap c -> inv c (sem_init n).
Proof.
  intros Hc. unfold inv, holders, sem_init; cbn [chan threads].
  rewrite count_repeat_idle by reflexivity. lia.
Qed.

Lemma step_preserves_inv c s i l s' : inv c s -> step c s i l = Some s' -> inv c s'.
Proof.
  intros [Hh Hle] H. apply step_inv in H. destruct H as [p [ch' [p' [Hn [Ht ->]]]]].
  unfold inv, holders in *. cbn [chan threads].
  rewrite (count_upd_nth is_holder _ _ _ p' Hn).
  apply tstep_cases in Ht.
  destruct Ht as [[-> [-> [-> ->]]] | [[-> [-> [Hlt [-> ->]]]] | [[-> [-> [Ht [-> ->]]]] |
                  [[o [-> [-> [-> ->]]]] | [[o [-> [-> [Hpos [-> ->]]]]] | [-> [-> Hc]]]]]]];
    try (cbn [is_holder b2z]; lia).
  destruct Hc as [-> | [-> [_ ->]]]; cbn [is_holder b2z]; lia.
Qed.

Lemma run_preserves_inv c : forall sched s s', inv c s -> run c s sched = Some s' -> inv c s'.
Proof.
  induction sched as [|[i l] r IH]; intros s s' Hi H; cbn [run] in H.
  - inversion H; subst; exact Hi.
  - destruct (step c s i l) as [s1|] eqn:E; [|discriminate].
    eapply IH; [|exact H]. eapply step_preserves_inv; eauto.
Qed.

Lemma running_le_holders s : running s <= holders s.
Proof. apply count_le_pointwise. intros p; destruct p; cbn; congruence. Qed.

(* C17_bounded *)
Lemma bounded c n sched s :
  0 <= cap c -> run c (sem_init n) sched = Some s ->
  running s <= cap c /\ holders s <= cap c /\ 0 <= chan s <= cap c.
Proof.
  intros Hc H. pose proof (run_preserves_inv c sched _ _ (inv_init c n Hc) H) as [Hh Hle].
  pose proof (running_le_holders s). pose proof (count_nonneg is_holder (threads s)).
  unfold holders in *. lia.
Qed.

(* all requests finished: nobody holds a permit *)
Lemma all_done_no_holders l : forallb is_done l = true -> count is_holder l = 0.
Proof.
  induction l as [|p l IH]; cbn [forallb count]; intros H; [reflexivity|].
  apply andb_prop in H. destruct H as [Hp Hl]. rewrite (IH Hl).
  destruct p; cbn in Hp; try discriminate. reflexivity.
Qed.

(* C17_permits_conserved *)
Lemma permits_conserved c n sched s :
  0 <= cap c -> run c (sem_init n) sched = Some s ->
  chan s = holders s /\ (all_done s = true -> chan s = 0).
Proof.
  intros Hc H. pose proof (run_preserves_inv c sched _ _ (inv_init c n Hc) H) as [Hh _].
  split; [exact Hh|]. intros Hd. rewrite Hh. unfold holders. apply all_done_no_holders. exact Hd.
Qed.

(* the time-out step itself touches no permit, whatever the state *)
Lemma timeout_step_keeps_chan c s i s' :
  step c s i LTimeout = Some s' ->
  chan s' = chan s /\ nth_error (threads s) i = Some PWaiting /\
  nth_error (threads s') i = Some (PDone RTimeout).
Proof.
  intros H. apply step_inv in H. destruct H as [p [ch' [p' [Hn [Ht ->]]]]].
  apply tstep_cases in Ht.
  destruct Ht as [[_ [E _]] | [[_ [E _]] | [[-> [_ [_ [-> ->]]]] | [[o [_ [E _]]] | [[o [_ [E _]]] | [E _]]]]]];
    try discriminate.
  cbn [chan threads]. split; [reflexivity|]. split; [exact Hn|].
  apply nth_error_upd_nth_same. apply nth_error_Some. congruence.
Qed.

(* --- a request that timed out never got past the send -------------------- *)

Definition ran (p : pc) : bool :=
  match p with PRunning | PReleasing _ | PDone (ROut _) => true | _ => false end.

Lemma step_ran_stable c s k l s' i p :
  step c s k l = Some s' -> nth_error (threads s) i = Some p -> ran p = true ->
  exists p', nth_error (threads s') i = Some p' /\ ran p' = true.
Proof.
  intros H Hn Hr. apply step_inv in H. destruct H as [q [ch' [q' [Hk [Ht ->]]]]]. cbn [threads].
  destruct (Nat.eq_dec k i) as [->|Hne].
  - rewrite Hn in Hk. inversion Hk; subst q. exists q'. split.
    + apply nth_error_upd_nth_same. apply nth_error_Some. congruence.
    + apply tstep_cases in Ht.
      destruct Ht as [[-> _] | [[-> _] | [[-> _] | [[o [_ [_ [_ ->]]]] | [[o [_ [_ [_ [_ ->]]]]] | [_ [_ Hc]]]]]]];
        try discriminate; try reflexivity.
      destruct Hc as [-> | [-> _]]; [exact Hr|discriminate].
  - exists p. split; [|exact Hr]. rewrite nth_error_upd_nth_other by exact Hne. exact Hn.
Qed.

Lemma run_ran_stable c : forall sched s s' i p,
  run c s sched = Some s' -> nth_error (threads s) i = Some p -> ran p = true ->
  exists p', nth_error (threads s') i = Some p' /\ ran p' = true.
Proof.
  induction sched as [|[k l] r IH]; intros s s' i p H Hn Hr; cbn [run] in H.
  - inversion H; subst. exists p. split; assumption.
  - destruct (step c s k l) as [s1|] eqn:E; [|discriminate].
    destruct (step_ran_stable c s k l s1 i p E Hn Hr) as [p1 [Hn1 Hr1]].
    eapply IH; eauto.
Qed.

Lemma acquired_then_ran c : forall sched s s' i,
  run c s sched = Some s' -> In (i, LAcquire) sched ->
  exists p', nth_error (threads s') i = Some p' /\ ran p' = true.
Proof.
  induction sched as [|[k l] r IH]; intros s s' i H Hin; [destruct Hin|].
  cbn [run] in H. destruct (step c s k l) as [s1|] eqn:E; [|discriminate].
  destruct Hin as [Heq|Hin].
  - inversion Heq; subst k l.
    assert (Hp : nth_error (threads s1) i = Some PRunning).
    { apply step_inv in E. destruct E as [p [ch' [p' [Hn [Ht ->]]]]]. cbn [threads].
      apply tstep_cases in Ht.
      destruct Ht as [[_ [E _]] | [[_ [_ [_ [_ ->]]]] | [[_ [E _]] | [[o [_ [E _]]] | [[o [_ [E _]]] | [E _]]]]]];
        try discriminate.
      apply nth_error_upd_nth_same. apply nth_error_Some. congruence. }
    eapply run_ran_stable; eauto.
  - eapply IH; eauto.
Qed.

(* C17_timeout_no_permit *)
Lemma timeout_no_permit c sched s s' i :
  run c s sched = Some s' -> nth_error (threads s') i = Some (PDone RTimeout) ->
  ~ In (i, LAcquire) sched.
Proof.
  intros H Hn Hin. destruct (acquired_then_ran c sched s s' i H Hin) as [p' [Hn' Hr]].
  rewrite Hn in Hn'. inversion Hn'; subst. discriminate.
Qed.

(* --- never wedges -------------------------------------------------------- *)

Lemma enabled_acquire c s i :
  chan s < cap c -> nth_error (threads s) i = Some PWaiting ->
  exists s', step c s i LAcquire = Some s' /\ nth_error (threads s') i = Some PRunning.
Proof.
  intros Hlt Hn. unfold step. rewrite Hn. cbn [tstep].
  apply Z.ltb_lt in Hlt. rewrite Hlt. eexists. split; [reflexivity|]. cbn [threads].
  apply nth_error_upd_nth_same. apply nth_error_Some. congruence.
Qed.

Lemma enabled_end c s i o :
  nth_error (threads s) i = Some PRunning ->
  exists s', step c s i (LEnd o) = Some s' /\ nth_error (threads s') i = Some (PReleasing o).
Proof.
  intros Hn. unfold step. rewrite Hn. cbn [tstep]. eexists. split; [reflexivity|]. cbn [threads].
  apply nth_error_upd_nth_same. apply nth_error_Some. congruence.
Qed.

Lemma holder_in_count l i p : nth_error l i = Some p -> is_holder p = true -> 0 < count is_holder l.
Proof.
  revert i. induction l as [|q l IH]; intros i Hn Hp; [destruct i; discriminate|].
  destruct i; cbn in Hn; cbn [count].
  - inversion Hn; subst. rewrite Hp. pose proof (count_nonneg is_holder l). lia.
  - pose proof (IH i Hn Hp). destruct (is_holder q); lia.
Qed.

Lemma enabled_release c s i o :
  inv c s -> nth_error (threads s) i = Some (PReleasing o) ->
  exists s', step c s i LRelease = Some s' /\ nth_error (threads s') i = Some (PDone (ROut o)) /\
             chan s' = chan s - 1.
Proof.
  intros [Hh _] Hn. unfold step. rewrite Hn. cbn [tstep].
  assert (Hpos : 0 < chan s).
  { rewrite Hh. unfold holders. eapply holder_in_count; [exact Hn|reflexivity]. }
  apply Z.ltb_lt in Hpos. rewrite Hpos. eexists. split; [reflexivity|]. cbn [threads chan].
  split; [|reflexivity]. apply nth_error_upd_nth_same. apply nth_error_Some. congruence.
Qed.

(* C17_never_wedges, first half: the moves of the limiter are enabled whenever the
   property says they must be, in every reachable state *)
Lemma never_wedges_enabled c n sched s :
  0 <= cap c -> run c (sem_init n) sched = Some s ->
  (forall i, holders s < cap c -> nth_error (threads s) i = Some PWaiting ->
             exists s', step c s i LAcquire = Some s' /\ nth_error (threads s') i = Some PRunning) /\
  (forall i o, nth_error (threads s) i = Some PRunning ->
             exists s', step c s i (LEnd o) = Some s' /\ nth_error (threads s') i = Some (PReleasing o)) /\
  (forall i o, nth_error (threads s) i = Some (PReleasing o) ->
             exists s', step c s i LRelease = Some s' /\ nth_error (threads s') i = Some (PDone (ROut o)) /\
                        chan s' = chan s - 1).
Proof.
  intros Hc H. pose proof (run_preserves_inv c sched _ _ (inv_init c n Hc) H) as Hinv.
  split; [|split].
  - intros i Hlt Hn. apply enabled_acquire; [|exact Hn]. destruct Hinv as [Hh _]. lia.
  - intros i o Hn. apply enabled_end; exact Hn.
  - intros i o Hn. apply enabled_release; assumption.
Qed.

(* with fewer than [cap] requests *running* a waiter gets in after at most one release: the
   only permits not accounted for by running requests are held by requests whose deferred
   release is pending, and that release is enabled *)
Definition is_releasing (p : pc) : bool := match p with PReleasing _ => true | _ => false end.

Lemma holders_split l : count is_holder l = count is_running l + count is_releasing l.
Proof.
  induction l as [|p l IH]; cbn [count]; [reflexivity|]. rewrite IH. destruct p; cbn [is_holder is_running is_releasing]; lia.
Qed.

Lemma waiter_gets_in c n sched s i :
  0 <= cap c -> run c (sem_init n) sched = Some s ->
  running s < cap c -> nth_error (threads s) i = Some PWaiting ->
  (exists s', step c s i LAcquire = Some s') \/
  (exists j o s1 s2, nth_error (threads s) j = Some (PReleasing o) /\
                     step c s j LRelease = Some s1 /\ step c s1 i LAcquire = Some s2).
Proof.
  intros Hc H Hrun Hn.
  pose proof (run_preserves_inv c sched _ _ (inv_init c n Hc) H) as Hinv.
  destruct (Z_lt_ge_dec (chan s) (cap c)) as [Hlt|Hge].
  - left. destruct (enabled_acquire c s i Hlt Hn) as [s' [Hs _]]. exists s'. exact Hs.
  - right. destruct Hinv as [Hh Hle].
    assert (Hrel : 0 < count is_releasing (threads s)).
    { unfold holders in Hh. rewrite holders_split in Hh. unfold running in Hrun. lia. }
    destruct (count_pos_exists _ _ Hrel) as [j [p [Hj Hp]]].
    destruct p as [| | |o|r]; try discriminate.
    destruct (enabled_release c s j o (conj Hh Hle) Hj) as [s1 [Hs1 [_ Hch]]].
    assert (Hij : j <> i) by (intros ->; rewrite Hn in Hj; discriminate).
    assert (Hn1 : nth_error (threads s1) i = Some PWaiting).
    { apply step_inv in Hs1. destruct Hs1 as [q [ch' [q' [_ [_ ->]]]]]. cbn [threads].
      rewrite nth_error_upd_nth_other by exact Hij. exact Hn. }
    destruct (enabled_acquire c s1 i ltac:(lia) Hn1) as [s2 [Hs2 _]].
    exists j, o, s1, s2. split; [exact Hj|]. split; assumption.
Qed.

(* second half: no reachable state is stuck while a request is unfinished, and the step
   that is enabled is never the time-out (so progress does not depend on a timer) *)
Lemma not_all_done_exists l : forallb is_done l = false ->
  exists i p, nth_error l i = Some p /\ is_done p = false.
Proof.
  induction l as [|q l IH]; cbn [forallb]; intros H; [discriminate|].
  destruct (is_done q) eqn:Eq; cbn in H.
  - destruct (IH H) as [i [p [Hn Hp]]]. exists (S i), p. split; assumption.
  - exists 0%nat, q. split; [reflexivity|exact Eq].
Qed.

Lemma all_waiting_or_done_no_holders l :
  (forall i p, nth_error l i = Some p -> is_done p = true \/ p = PWaiting) -> count is_holder l = 0.
Proof.
  induction l as [|q l IH]; intros H; [reflexivity|]. cbn [count].
  rewrite IH by (intros i p Hn; apply (H (S i) p Hn)).
  destruct (H 0%nat q eq_refl) as [Hd| ->]; [destruct q; cbn in Hd; try discriminate|]; reflexivity.
Qed.

Lemma deadlock_free c n sched s :
  0 < cap c -> run c (sem_init n) sched = Some s -> all_done s = false ->
  exists i l s', l <> LTimeout /\ l <> LCancel /\ step c s i l = Some s'.
Proof.
  intros Hc H Hnd.
  pose proof (run_preserves_inv c sched _ _ (inv_init c n ltac:(lia)) H) as Hinv.
  (* is some request idle, running or releasing? *)
  destruct (existsb (fun p => match p with PIdle | PRunning | PReleasing _ => true | _ => false end) (threads s)) eqn:Ex.
  - apply existsb_exists in Ex. destruct Ex as [p [Hin Hp]].
    apply In_nth_error in Hin. destruct Hin as [i Hn].
    destruct p as [| | |o|r]; try discriminate.
    + exists i, LEnter. unfold step. rewrite Hn. cbn [tstep]. eexists. split; [discriminate|]. split; [discriminate|reflexivity].
    + destruct (enabled_end c s i OOk Hn) as [s' [Hs _]]. exists i, (LEnd OOk), s'. split; [discriminate|]. split; [discriminate|exact Hs].
    + destruct (enabled_release c s i o Hinv Hn) as [s' [Hs _]]. exists i, LRelease, s'. split; [discriminate|]. split; [discriminate|exact Hs].
  - (* everybody is waiting or done, so the channel is empty and a waiter can go *)
    assert (Hwd : forall i p, nth_error (threads s) i = Some p -> is_done p = true \/ p = PWaiting).
    { intros i p Hn. destruct p as [| | |o|r]; try (right; reflexivity); try (left; reflexivity);
        exfalso; apply nth_error_In in Hn;
        assert (Hx : existsb (fun p => match p with PIdle | PRunning | PReleasing _ => true | _ => false end) (threads s) = true)
          by (apply existsb_exists; eexists; split; [exact Hn|reflexivity]); congruence. }
    destruct (not_all_done_exists _ Hnd) as [i [p [Hn Hp]]].
    destruct (Hwd i p Hn) as [Hd| ->]; [congruence|].
    destruct Hinv as [Hh _]. unfold holders in Hh. rewrite (all_waiting_or_done_no_holders _ Hwd) in Hh.
    destruct (enabled_acquire c s i ltac:(lia) Hn) as [s' [Hs _]].
    exists i, LAcquire, s'. split; [discriminate|]. split; [discriminate|exact Hs].
Qed.

(* every step other than a cancellation of a caller's context uses up one of the (at most
   four) moves of some request: schedules are short *)
Lemma step_rank c s i l s' :
  step c s i l = Some s' ->
  total_rank (threads s') + (if is_cancel l then 0 else 1) <= total_rank (threads s).
Proof.
  intros H. apply step_inv in H. destruct H as [p [ch' [p' [Hn [Ht ->]]]]]. cbn [threads].
  rewrite (total_rank_upd_nth _ _ _ p' Hn). apply tstep_cases in Ht.
  destruct Ht as [[-> [-> [_ ->]]] | [[-> [-> [_ [_ ->]]]] | [[-> [-> [_ [_ ->]]]] |
                  [[o [-> [-> [_ ->]]]] | [[o [-> [-> [_ [_ ->]]]]] | [-> [_ Hc]]]]]]];
    cbn [rank is_cancel]; try lia.
  destruct Hc as [-> | [-> [_ ->]]]; cbn [rank]; lia.
Qed.

Lemma run_rank c : forall sched s s',
  run c s sched = Some s' ->
  total_rank (threads s') + Z.of_nat (length (own_steps sched)) <= total_rank (threads s).
Proof.
  induction sched as [|[i l] r IH]; intros s s' H; cbn [run] in H.
  - inversion H; subst. cbn. lia.
  - destruct (step c s i l) as [s1|] eqn:E; [|discriminate].
    pose proof (step_rank c s i l s1 E). pose proof (IH s1 s' H).
    unfold own_steps in *. cbn [filter snd]. destruct (is_cancel l); cbn [negb length]; lia.
Qed.

Lemma schedules_terminate c n sched s :
  run c (sem_init n) sched = Some s -> Z.of_nat (length (own_steps sched)) <= 4 * Z.of_nat n.
Proof.
  intros H. pose proof (run_rank c sched _ _ H) as Hr. cbn [sem_init threads] in Hr.
  rewrite total_rank_repeat_idle in Hr. pose proof (total_rank_nonneg (threads s)). lia.
Qed.

(* --- the caller's context; limiters without a timeout ---------------------- *)

Lemma upd_nth_same {A} : forall (l : list A) i x, nth_error l i = Some x -> upd_nth i x l = l.
Proof.
  induction l as [|y l IH]; intros i x H; [destruct i; discriminate|].
  destruct i; cbn in *; [inversion H; reflexivity|]. rewrite (IH i x H). reflexivity.
Qed.

(* without a timeout the cancellation (or expiry) of a caller's context changes nothing *)
Lemma cancel_ignored_without_timeout c s i s' :
  tmo c <= 0 -> step c s i LCancel = Some s' -> s' = s.
Proof.
  intros Ht H. apply step_inv in H. destruct H as [p [ch' [p' [Hn [Hs ->]]]]].
  apply tstep_cases in Hs.
  destruct Hs as [[_ [E _]] | [[_ [E _]] | [[_ [E _]] | [[o [_ [E _]]] | [[o [_ [E _]]] | [_ [-> Hc]]]]]]];
    try discriminate.
  destruct Hc as [-> | [_ [Hpos _]]]; [|lia].
  rewrite (upd_nth_same _ _ _ Hn). destruct s; reflexivity.
Qed.

(* with a timeout it is one more way for a queued request to leave, empty-handed *)
Lemma cancel_step_keeps_chan c s i s' :
  step c s i LCancel = Some s' ->
  chan s' = chan s /\
  (threads s' = threads s \/
   (nth_error (threads s) i = Some PWaiting /\ tmo c > 0 /\ nth_error (threads s') i = Some (PDone RTimeout))).
Proof.
  intros H. apply step_inv in H. destruct H as [p [ch' [p' [Hn [Hs ->]]]]].
  apply tstep_cases in Hs.
  destruct Hs as [[_ [E _]] | [[_ [E _]] | [[_ [E _]] | [[o [_ [E _]]] | [[o [_ [E _]]] | [_ [-> Hc]]]]]]];
    try discriminate.
  cbn [chan threads]. split; [reflexivity|].
  destruct Hc as [-> | [-> [Hpos ->]]].
  - left. apply upd_nth_same. exact Hn.
  - right. split; [exact Hn|]. split; [exact Hpos|].
    apply nth_error_upd_nth_same. apply nth_error_Some. congruence.
Qed.

(* a request that got past the limiter (nil from Acquire) took a permit: from any state in
   which it had not yet got through, whatever events occur *)
Lemma step_not_ran c s k l s' i p :
  step c s k l = Some s' -> nth_error (threads s) i = Some p -> ran p = false ->
  (k, l) <> (i, LAcquire) ->
  exists p', nth_error (threads s') i = Some p' /\ ran p' = false.
Proof.
  intros H Hn Hr Hne. apply step_inv in H. destruct H as [q [ch' [q' [Hk [Ht ->]]]]]. cbn [threads].
  destruct (Nat.eq_dec k i) as [->|Hki].
  - rewrite Hn in Hk. inversion Hk; subst q. exists q'. split.
    + apply nth_error_upd_nth_same. apply nth_error_Some. congruence.
    + apply tstep_cases in Ht.
      destruct Ht as [[_ [_ [_ ->]]] | [[_ [-> _]] | [[_ [_ [_ [_ ->]]]] | [[o [-> _]] | [[o [-> _]] | [_ [_ Hc]]]]]]];
        try reflexivity; try discriminate; try congruence.
      destruct Hc as [-> | [_ [_ ->]]]; [exact Hr|reflexivity].
  - exists p. split; [|exact Hr]. rewrite nth_error_upd_nth_other by exact Hki. exact Hn.
Qed.

Lemma ran_then_acquired c : forall sched s s' i p p',
  run c s sched = Some s' -> nth_error (threads s) i = Some p -> ran p = false ->
  nth_error (threads s') i = Some p' -> ran p' = true -> In (i, LAcquire) sched.
Proof.
  induction sched as [|[k l] r IH]; intros s s' i p p' H Hn Hr Hn' Hr'; cbn [run] in H.
  - inversion H; subst. rewrite Hn in Hn'. inversion Hn'; subst. congruence.
  - destruct (step c s k l) as [s1|] eqn:E; [|discriminate].
    destruct (Nat.eq_dec k i) as [->|Hki].
    + destruct l; try (left; reflexivity);
        (destruct (step_not_ran c s i _ s1 i p E Hn Hr ltac:(intros X; inversion X)) as [p1 [Hn1 Hr1]];
         right; eapply IH; eauto).
    + destruct (step_not_ran c s k l s1 i p E Hn Hr ltac:(intros X; inversion X; congruence)) as [p1 [Hn1 Hr1]].
      right. eapply IH; eauto.
Qed.

(* without a timeout nobody is ever turned away *)
Lemma step_no_timeout_result c s k l s' i :
  tmo c <= 0 -> step c s k l = Some s' ->
  nth_error (threads s') i = Some (PDone RTimeout) -> nth_error (threads s) i = Some (PDone RTimeout).
Proof.
  intros Ht H Hn'. apply step_inv in H. destruct H as [q [ch' [q' [Hk [Hs ->]]]]]. cbn [threads] in Hn'.
  destruct (Nat.eq_dec k i) as [->|Hki].
  - rewrite nth_error_upd_nth_same in Hn' by (apply nth_error_Some; congruence).
    inversion Hn'; subst q'. apply tstep_cases in Hs.
    destruct Hs as [[_ [_ [_ E]]] | [[_ [_ [_ [_ E]]]] | [[_ [_ [Hpos _]]] | [[o [_ [_ [_ E]]]] | [[o [_ [_ [_ [_ E]]]]] | [_ [_ Hc]]]]]]];
      try discriminate; try lia.
    destruct Hc as [<- | [_ [Hpos _]]]; [exact Hk|lia].
  - rewrite nth_error_upd_nth_other in Hn' by exact Hki. exact Hn'.
Qed.

Lemma run_no_timeout_result c : forall sched s s' i,
  tmo c <= 0 -> run c s sched = Some s' ->
  nth_error (threads s') i = Some (PDone RTimeout) -> nth_error (threads s) i = Some (PDone RTimeout).
Proof.
  induction sched as [|[k l] r IH]; intros s s' i Ht H Hn'; cbn [run] in H.
  - inversion H; subst. exact Hn'.
  - destruct (step c s k l) as [s1|] eqn:E; [|discriminate].
    eapply step_no_timeout_result; eauto.
Qed.

Lemma nth_error_repeat_idle n i p : nth_error (repeat PIdle n) i = Some p -> p = PIdle.
Proof. intros H. apply nth_error_In in H. apply repeat_spec in H. exact H. Qed.

(* C17_no_timeout: limiter built without a timeout, any number of requests, any schedule
   including cancellations of callers' contexts at any moment *)
Lemma no_timeout_contract c n sched s :
  0 <= cap c -> tmo c <= 0 -> run c (sem_init n) sched = Some s ->
  running s <= cap c /\ chan s = holders s /\
  (forall i p, nth_error (threads s) i = Some p ->
     p <> PDone RTimeout /\ (ran p = true -> In (i, LAcquire) sched)) /\
  (forall i o, nth_error (threads s) i = Some (PReleasing o) -> exists s', step c s i LRelease = Some s').
Proof.
  intros Hc Ht H.
  destruct (bounded c n sched s Hc H) as [Hb _].
  destruct (permits_conserved c n sched s Hc H) as [Hp _].
  split; [exact Hb|]. split; [exact Hp|]. split.
  - intros i p Hn. split.
    + intros ->. pose proof (run_no_timeout_result c sched _ _ i Ht H Hn) as H0.
      cbn [sem_init threads] in H0. apply nth_error_repeat_idle in H0. discriminate.
    + intros Hr.
      destruct (nth_error (threads (sem_init n)) i) as [p0|] eqn:H0.
      * pose proof H0 as H1. cbn [sem_init threads] in H1. apply nth_error_repeat_idle in H1. subst p0.
        eapply ran_then_acquired; eauto.
      * exfalso. (* no such request: the list of requests never changes length *)
        assert (Hlen : forall sched s s', run c s sched = Some s' -> length (threads s') = length (threads s)).
        { clear. induction sched as [|[k l] r IH]; intros s s' H; cbn [run] in H; [inversion H; reflexivity|].
          destruct (step c s k l) as [s1|] eqn:E; [|discriminate]. rewrite (IH _ _ H).
          apply step_inv in E. destruct E as [q [ch' [q' [_ [_ ->]]]]]. cbn [threads]. apply length_upd_nth. }
        apply nth_error_None in H0. rewrite <- (Hlen _ _ _ H) in H0.
        assert (i < length (threads s))%nat by (apply nth_error_Some; congruence). lia.
  - intros i o Hn.
    pose proof (run_preserves_inv c sched _ _ (inv_init c n Hc) H) as Hinv.
    destruct (enabled_release c s i o Hinv Hn) as [s' [Hs _]]. exists s'. exact Hs.
Qed.

(* [run_upto] is [run] with the position of the first disabled step *)
Lemma run_upto_run c : forall sched s k,
  match run c s sched with
  | Some s' => run_upto c s sched k = (s', None)
  | None => exists s' j, run_upto c s sched k = (s', Some j)
  end.
Proof.
  induction sched as [|[i l] r IH]; intros s k; cbn [run run_upto]; [reflexivity|].
  destruct (step c s i l) as [s1|]; [apply IH|]. exists s, k. reflexivity.
Qed.
