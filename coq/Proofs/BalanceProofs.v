(* Proofs about Model/Balance.v (C18), assembled: the lemmas cited by Props/C18.v in the
   exact form they are stated there.  The work is in BalanceBase / BalanceRR / BalanceWRR /
   BalanceEff / BalanceNginx / BalanceWRand / BalanceLA. *)
From Coq Require Import List ZArith Bool Lia.
From HV Require Export Model.Balance Proofs.BalanceBase Proofs.BalanceRR Proofs.BalanceWRR
  Proofs.BalanceEff Proofs.BalanceNginx Proofs.BalanceWRand Proofs.BalanceLA Proofs.BalanceReconf.
Import ListNotations.
Open Scope Z_scope.

(* ---- WeightedRoundRobin ------------------------------------------------------------ *)
Lemma wrr_new_gcd ws c s0 : wrr_new ws = Ok (c, s0) ->
  wr_weights c = ws /\ wr_max c = zmax ws /\
  (forall w, In w ws -> (wr_gcd c | w)) /\
  (forall d, (forall w, In w ws -> (d | w)) -> (d | wr_gcd c)) /\
  s0 = {| wr_index := -1; wr_cw := 0 |}.
Proof.
  intros H. apply wrr_new_inv in H. destruct H as (_ & -> & ->). cbn [wr_weights wr_max wr_gcd].
  split; [reflexivity|]. split; [reflexivity|]. split; [apply lgcd_divides|]. split; [apply lgcd_greatest|reflexivity].
Qed.

Lemma wrr_cycle ws c s0 : ws <> [] -> wrr_new ws = Ok (c, s0) -> forall a,
  exists l1 s1 l2 s2,
    wrr_run a c s0 = Ok (l1, s1) /\
    wrr_run (Z.to_nat (lsum ws / wr_gcd c)) c s1 = Ok (l2, s2) /\
    (forall i w, nth_error ws i = Some w -> count i l2 = w / wr_gcd c) /\
    ((1 <= a)%nat -> s2 = s1).
Proof.
  intros Hne Hnew a. apply wrr_new_inv in Hnew. destruct Hnew as (Hpos & -> & ->).
  destruct (cycle_any_window ws (lgcd ws) Hne Hpos (lgcd_pos ws Hne Hpos)
              (fun w Hw => lgcd_divides ws w Hw) a) as (l1 & s1 & l2 & s2 & E1 & E2 & Hc & Hs).
  exists l1, s1, l2, s2. split; [exact E1|]. split; [exact E2|]. split; [|exact Hs].
  intros i w Hw. cbn [wr_gcd]. rewrite Hc by (apply nth_error_Some; congruence).
  unfold wt. rewrite (nth_error_nth _ _ _ Hw). reflexivity.
Qed.

(* ---- Nginx --------------------------------------------------------------------------- *)
Lemma swrr_cycle ws s0 : ws <> [] -> ng_new ws = Ok s0 -> lsum ws <= 9223372036854775808 ->
  (exists lp, ng_run_ok (Z.to_nat (lsum ws)) ws s0 = Ok (lp, s0) /\
              forall j y, nth_error ws j = Some y -> count j lp = y) /\
  forall a, exists l1 s1 l2,
    ng_run_ok a ws s0 = Ok (l1, s1) /\
    ng_run_ok (Z.to_nat (lsum ws)) ws s1 = Ok (l2, s1) /\
    forall j y, nth_error ws j = Some y -> count j l2 = y.
Proof.
  intros Hne Hnew Hsmall. apply ng_new_inv in Hnew. destruct Hnew as [Hpos ->].
  split.
  - exact (ng_cycle_from_init ws Hne Hpos Hsmall).
  - exact (ng_cycle_any_window ws Hne Hpos Hsmall).
Qed.

(* ---- LeastActive ----------------------------------------------------------------------- *)
Lemma la_min n h ps a calls r i a' : (1 <= n)%nat ->
  run (la_machine n) [] [] h = Ok (ps, (a, calls)) -> la_start n a r = Ok (i, a') ->
  forall j, (j < n)%nat -> (cnt i calls <= cnt j calls)%nat.
Proof.
  intros Hn Hr Hs. pose proof (la_history n Hn h) as H. rewrite Hr in H. destruct H as [_ HI].
  pose proof (la_start_ok n a calls r Hn HI) as H. rewrite Hs in H. destruct H as (_ & _ & Hmin). exact Hmin.
Qed.

Lemma la_counters n h ps a calls : (1 <= n)%nat ->
  run (la_machine n) [] [] h = Ok (ps, (a, calls)) ->
  (forall j, (j < n)%nat -> nth j a 0 = Z.of_nat (cnt j calls)) /\
  (all_finished calls -> Forall (fun x => x = 0) a).
Proof.
  intros Hn Hr. pose proof (la_history n Hn h) as H. rewrite Hr in H. destruct H as [_ HI].
  split; [|apply (la_conserved n); exact HI].
  intros j Hj. destruct HI as [_ [[-> Hz]|[Hl Ht]]].
  - rewrite Hz. destruct j; reflexivity.
  - apply nth_error_nth. apply Ht. exact Hj.
Qed.

(* overlapping Handler prefixes: the second caller reads the counters before the first has
   incremented them, and joins it on the same server while the other one is idle *)
Lemma la_overlap_witness :
  exists (a : list Z) (r1 r2 : Z) (i : nat),
    la_select 2 a r1 = Ok i /\ la_select 2 a r2 = Ok i /\
    exists j, (j < 2)%nat /\ j <> i /\ nth_error a j = nth_error a i.
Proof.
  exists [0; 0], 0, 0, O. split; [reflexivity|]. split; [reflexivity|]. exists 1%nat.
  split; [lia|]. split; [discriminate|reflexivity].
Qed.

(* ---- WeightedLeastActive ---------------------------------------------------------------- *)
Lemma wla_min ws s0 h ps s calls r i s' : ws <> [] -> wla_new ws = Ok s0 ->
  run (wla_machine ws) s0 [] h = Ok (ps, (s, calls)) -> wla_pick s r = Ok (i, s') ->
  forall j, (j < length ws)%nat -> (cnt i calls <= cnt j calls)%nat.
Proof.
  intros Hne Hnew Hr Hp. pose proof (wla_history ws s0 Hne Hnew h) as H. rewrite Hr in H. destruct H as [_ HI].
  assert (Hn : (1 <= length ws)%nat) by (destruct ws; [congruence|cbn; lia]).
  pose proof (wla_pick_ok ws s calls r Hn HI) as H. rewrite Hp in H. destruct H as (_ & _ & Hmin & _). exact Hmin.
Qed.

Lemma wla_counters ws s0 h ps s calls : ws <> [] -> wla_new ws = Ok s0 ->
  run (wla_machine ws) s0 [] h = Ok (ps, (s, calls)) ->
  (forall j, (j < length ws)%nat -> nth_error (wl_act s) j = Some (Z.of_nat (cnt j calls))) /\
  (all_finished calls -> Forall (fun x => x = 0) (wl_act s)) /\
  eff_ok ws (wl_eff s).
Proof.
  intros Hne Hnew Hr. pose proof (wla_history ws s0 Hne Hnew h) as H. rewrite Hr in H.
  destruct H as [_ (Hc & Ht & Hok)]. split; [exact (proj2 Ht)|]. split; [|exact Hok].
  intros Hf. eapply tracks_quiescent; eauto.
Qed.

Lemma wla_valid ws s0 : ws <> [] -> wla_new ws = Ok s0 -> forall h,
  match run (wla_machine ws) s0 [] h with
  | Ok (ps, (s, _)) => Forall (fun i => (i < length ws)%nat) ps /\ eff_ok ws (wl_eff s)
  | BadScript => True
  | _ => False
  end.
Proof.
  intros Hne Hnew h. pose proof (wla_history ws s0 Hne Hnew h) as H.
  destruct (run (wla_machine ws) s0 [] h) as [[ps [s c]]| | |]; try exact H.
  destruct H as [H1 (_ & _ & H2)]. split; assumption.
Qed.

Lemma la_valid n : (1 <= n)%nat -> forall h,
  match run (la_machine n) [] [] h with
  | Ok (ps, _) => Forall (fun i => (i < n)%nat) ps
  | BadScript => True
  | _ => False
  end.
Proof.
  intros Hn h. pose proof (la_history n Hn h) as H.
  destruct (run (la_machine n) [] [] h) as [[ps [a c]]| | |]; try exact H. exact (proj1 H).
Qed.

(* LeastActive and WeightedLeastActive pick a valid index from ANY counter vector of the right
   length, so interleavings finer than whole critical sections cannot invalidate it either *)
Lemma la_select_any_state n a r : (1 <= n)%nat ->
  match la_select n (la_prepare n a) r with
  | Ok i => (i < n)%nat
  | BadScript => True
  | _ => False
  end.
Proof.
  intros Hn. unfold la_select.
  assert (Hl : (n <= length (la_prepare n a))%nat).
  { unfold la_prepare. destruct (Nat.ltb (length a) n) eqn:E;
      [apply Nat.ltb_lt in E; rewrite app_length, repeat_length; lia|].
    apply Nat.ltb_ge in E. exact E. }
  destruct (la_candidates_spec n (la_prepare n a) ltac:(lia)) as (cands & Ec & Hne & Hin & _).
  rewrite Ec. cbn [bind]. pose proof (choose_sound cands r Hne) as H.
  destruct (choose cands r); try exact H. apply Hin in H. exact (proj1 H).
Qed.

Lemma wla_get_any_state W act eff1 eff2 r : (1 <= length W)%nat -> length act = length W ->
  eff_ok W eff1 -> eff_ok W eff2 ->
  match wla_get (length W) act eff1 eff2 r with
  | Ok i => (i < length W)%nat
  | BadScript => True
  | _ => False
  end.
Proof.
  intros Hn Hl H1 H2. pose proof (wla_get_ok (length W) act eff1 eff2 r W Hn Hl eq_refl H1 H2) as H.
  destruct (wla_get (length W) act eff1 eff2 r); try exact H. exact (proj1 H).
Qed.
