(* RoundRobin and Random (C18): index validity for every history and every interleaving of
   the two atomics, and the cycle theorem. *)
From Coq Require Import List ZArith Bool Lia.
From HV Require Import Model.Balance Proofs.BalanceBase.
Import ListNotations.
Open Scope Z_scope.

Lemma gtb_true a b : (a >? b) = true <-> a > b.
Proof. rewrite Z.gtb_ltb, Z.ltb_lt. lia. Qed.
Lemma gtb_false a b : (a >? b) = false <-> a <= b.
Proof. rewrite Z.gtb_ltb, Z.ltb_ge. lia. Qed.

Lemma url_at_in n i : 0 <= i < Z.of_nat n -> url_at n i = Ok (Z.to_nat i).
Proof. intros H. unfold url_at. apply in_range_spec in H. rewrite H. reflexivity. Qed.

(* ---- sequential -------------------------------------------------------- *)

(* what one call does, exactly *)
Lemma rr_pick_spec n idx : (1 <= n)%nat -> -1 <= idx < Z.of_nat n ->
  rr_pick n idx =
    if (n <=? 1)%nat then Ok (O, idx)
    else if idx + 1 <? Z.of_nat n then Ok (Z.to_nat (idx + 1), idx + 1)
    else Ok (O, 0).
Proof.
  intros Hn Hi. unfold rr_pick, rr_get.
  destruct (n <=? 1)%nat eqn:E1.
  - apply Nat.leb_le in E1. assert (Hg : (Z.of_nat n >? 1) = false) by (apply gtb_false; lia).
    rewrite Hg. rewrite url_at_in by lia. reflexivity.
  - apply Nat.leb_gt in E1. assert (Hg : (Z.of_nat n >? 1) = true) by (apply gtb_true; lia).
    rewrite Hg. destruct (idx + 1 <? Z.of_nat n) eqn:E2.
    + apply Z.ltb_lt in E2. rewrite url_at_in by lia. reflexivity.
    + rewrite url_at_in by lia. reflexivity.
Qed.

Definition rr_inv (n : nat) (idx : Z) : Prop := -1 <= idx < Z.of_nat n.

Lemma rr_pick_valid n idx : (1 <= n)%nat -> rr_inv n idx ->
  exists i idx', rr_pick n idx = Ok (i, idx') /\ (i < n)%nat /\ rr_inv n idx'.
Proof.
  intros Hn Hi. unfold rr_inv in *. rewrite rr_pick_spec by assumption.
  destruct (n <=? 1)%nat eqn:E1.
  - exists O, idx. repeat split; lia.
  - apply Nat.leb_gt in E1. destruct (idx + 1 <? Z.of_nat n) eqn:E2.
    + apply Z.ltb_lt in E2. exists (Z.to_nat (idx + 1)), (idx + 1). repeat split; lia.
    + exists O, 0. repeat split; lia.
Qed.

(* every history of the RoundRobin machine *)
Lemma rr_history_valid n : (1 <= n)%nat -> forall h,
  match run (rr_machine n) rr_init [] h with
  | Ok (ps, (idx, _)) => Forall (fun i => (i < n)%nat) ps /\ rr_inv n idx
  | BadScript => True
  | _ => False
  end.
Proof.
  intros Hn h.
  pose proof (run_safe (rr_machine n) (fun idx _ => rr_inv n idx) n) as R.
  specialize (R ltac:(
    intros s calls r HI; cbn [m_pick rr_machine];
    destruct (rr_pick_valid n s Hn HI) as (i & s' & E & Hi & HI'); rewrite E; split; assumption)).
  specialize (R ltac:(intros s calls k i o HI _; cbn [m_settle rr_machine]; exact HI)).
  specialize (R h rr_init [] ltac:(unfold rr_inv, rr_init; lia)).
  destruct (run (rr_machine n) rr_init [] h) as [[ps [idx c]]| | |]; exact R.
Qed.

(* consecutive picks walk up through the servers *)
Lemma rr_run_up n : (2 <= n)%nat -> forall k idx,
  -1 <= idx -> idx + Z.of_nat k < Z.of_nat n ->
  rr_run k n idx = Ok (seq (Z.to_nat (idx + 1)) k, idx + Z.of_nat k).
Proof.
  intros Hn. induction k as [|k IH]; intros idx H1 H2; unfold rr_run in *; cbn [pick_run].
  - f_equal. f_equal. lia.
  - rewrite rr_pick_spec by lia.
    assert (E1 : (n <=? 1)%nat = false) by (apply Nat.leb_gt; lia). rewrite E1.
    assert (E2 : (idx + 1 <? Z.of_nat n) = true) by (apply Z.ltb_lt; lia). rewrite E2.
    cbn [bind fst snd]. rewrite IH by lia. cbn [bind fst snd seq]. f_equal. f_equal.
    + f_equal. f_equal. lia.
    + lia.
Qed.

Lemma rr_pick_wrap n : (2 <= n)%nat -> rr_pick n (Z.of_nat n - 1) = Ok (O, 0).
Proof.
  intros Hn. rewrite rr_pick_spec by lia.
  assert (E1 : (n <=? 1)%nat = false) by (apply Nat.leb_gt; lia). rewrite E1.
  assert (E2 : (Z.of_nat n - 1 + 1 <? Z.of_nat n) = false) by (apply Z.ltb_ge; lia). rewrite E2.
  reflexivity.
Qed.

(* n consecutive picks from any reachable state: every server exactly once, and (from a state
   reached by at least one pick) the balancer is back in the same state *)
Lemma rr_cycle n idx : (1 <= n)%nat -> rr_inv n idx ->
  exists l idx', rr_run n n idx = Ok (l, idx') /\
    (forall i, (i < n)%nat -> count i l = 1) /\ (0 <= idx -> idx' = idx).
Proof.
  intros Hn Hi. unfold rr_inv in Hi.
  destruct (Nat.eq_dec n 1) as [->|Hn1].
  - unfold rr_run. cbn [pick_run]. rewrite rr_pick_spec by (cbn; lia). cbn [Nat.leb bind fst snd].
    exists [O], idx. split; [reflexivity|]. split; [|auto].
    intros i Hlt. assert (i = O) by lia. subst. reflexivity.
  - assert (Hn2 : (2 <= n)%nat) by lia.
    destruct (Z.eq_dec idx (-1)) as [->|Hne].
    + rewrite rr_run_up by lia. eexists _, _. split; [reflexivity|]. split; [|lia].
      intros i Hlt. cbn. apply (proj1 (count_seq i n O)). lia.
    + set (a := Z.to_nat (Z.of_nat n - 1 - idx)). set (b := Z.to_nat idx).
      assert (En : n = (a + (1 + b))%nat) by (unfold a, b; lia).
      unfold rr_run.
      replace (pick_run (rr_pick n) n idx) with (pick_run (rr_pick n) (a + (1 + b)) idx)
        by (f_equal; symmetry; exact En).
      rewrite pick_run_add.
      pose proof (rr_run_up n Hn2 a idx ltac:(lia) ltac:(unfold a; lia)) as Ea. unfold rr_run in Ea.
      rewrite Ea. cbn [bind fst snd]. rewrite pick_run_add. cbn [pick_run].
      replace (idx + Z.of_nat a) with (Z.of_nat n - 1) by (unfold a; lia).
      rewrite rr_pick_wrap by assumption. cbn [bind fst snd].
      pose proof (rr_run_up n Hn2 b 0 ltac:(lia) ltac:(unfold b; lia)) as Eb. unfold rr_run in Eb.
      rewrite Eb. cbn [bind fst snd].
      eexists _, _. split; [reflexivity|]. split; [|unfold b; lia].
      intros i Hlt. rewrite !count_app. cbn [app]. rewrite count_cons, count_nil.
      replace (Z.to_nat (0 + 1)) with 1%nat by lia.
      destruct (Nat.eqb_spec 0 i) as [E0|E0].
      * subst i. rewrite (proj2 (count_seq O a (Z.to_nat (idx + 1)))) by lia.
        rewrite (proj2 (count_seq O b 1%nat)) by lia. reflexivity.
      * destruct (Z_le_gt_dec (Z.of_nat i) idx) as [Hle|Hgt].
        -- rewrite (proj2 (count_seq i a (Z.to_nat (idx + 1)))) by lia.
           rewrite (proj1 (count_seq i b 1%nat)) by (unfold b; lia). reflexivity.
        -- rewrite (proj1 (count_seq i a (Z.to_nat (idx + 1)))) by (unfold a; lia).
           rewrite (proj2 (count_seq i b 1%nat)) by (unfold b; lia). reflexivity.
Qed.

(* ---- concurrent callers ---------------------------------------------------- *)
Definition rr_pc_ok (n : nat) (p : rr_pc) : Prop :=
  match p with
  | RDone k => (k < n)%nat
  | RPanicked => False
  | _ => True
  end.

Lemma rr_fin_ok n i : 0 <= i < Z.of_nat n -> rr_pc_ok n (rr_fin n i).
Proof. intros H. unfold rr_fin. rewrite url_at_in by exact H. cbn. lia. Qed.

Lemma rr_tstep_ok n idx p idx' p' : (1 <= n)%nat -> -1 <= idx ->
  rr_tstep n idx p = Some (idx', p') -> -1 <= idx' /\ rr_pc_ok n p'.
Proof.
  intros Hn Hi H. unfold rr_tstep in H. destruct p; try discriminate.
  - destruct (Z.of_nat n >? 1) eqn:Eg.
    + injection H as <- <-. split; [lia|]. destruct (idx + 1 <? Z.of_nat n) eqn:El.
      * apply Z.ltb_lt in El. apply rr_fin_ok. lia.
      * exact I.
    + injection H as <- <-. split; [lia|]. apply rr_fin_ok. lia.
  - injection H as <- <-. split; [lia|]. apply rr_fin_ok. lia.
Qed.

Definition rr_cinv (n : nat) (cs : rr_cstate) : Prop :=
  -1 <= rr_shared cs /\ Forall (rr_pc_ok n) (rr_threads cs).

Lemma Forall_upd_nth {A} (P : A -> Prop) (l : list A) : forall k x,
  Forall P l -> P x -> Forall P (upd_nth k x l).
Proof.
  induction l as [|y l IH]; intros k x Hl Hx; [destruct k; constructor|].
  inversion Hl; subst. destruct k; cbn; constructor; auto.
Qed.

Lemma rr_cstep_inv n cs t cs' : (1 <= n)%nat -> rr_cinv n cs -> rr_cstep n cs t = Some cs' -> rr_cinv n cs'.
Proof.
  intros Hn [Hs Hall] H. unfold rr_cstep in H.
  destruct (nth_error (rr_threads cs) t) as [p|] eqn:Ep; [|discriminate].
  destruct (rr_tstep n (rr_shared cs) p) as [[idx' p']|] eqn:Et; [|discriminate].
  injection H as <-. destruct (rr_tstep_ok n _ _ _ _ Hn Hs Et) as [H1 H2].
  split; cbn; [exact H1|]. apply Forall_upd_nth; assumption.
Qed.

(* every interleaving of the AddInt64/StoreInt64 steps of any number of callers: nobody
   panics, every finished caller holds an index < n, lb.index never drops below -1 *)
Lemma rr_crun_inv n : (1 <= n)%nat -> forall sched cs cs',
  rr_cinv n cs -> rr_crun n cs sched = Some cs' -> rr_cinv n cs'.
Proof.
  intros Hn. induction sched as [|t r IH]; intros cs cs' Hc H; cbn in H.
  - injection H as <-. exact Hc.
  - destruct (rr_cstep n cs t) as [cs1|] eqn:E; [|discriminate].
    eapply IH; [|exact H]. eapply rr_cstep_inv; eauto.
Qed.

(* a caller running alone takes exactly the sequential step *)
Lemma rr_solo n idx : (1 <= n)%nat -> rr_inv n idx ->
  exists k idx', rr_pick n idx = Ok (k, idx') /\
    ((rr_tstep n idx RStart = Some (idx', RDone k)) \/
     (exists mid, rr_tstep n idx RStart = Some (mid, RStore) /\
                  rr_tstep n mid RStore = Some (idx', RDone k))).
Proof.
  intros Hn Hi. unfold rr_inv in Hi. rewrite rr_pick_spec by assumption. unfold rr_tstep.
  destruct (n <=? 1)%nat eqn:E1.
  - apply Nat.leb_le in E1. assert (Hg : (Z.of_nat n >? 1) = false) by (apply gtb_false; lia).
    rewrite Hg. exists O, idx. split; [reflexivity|]. left. unfold rr_fin. rewrite url_at_in by lia. reflexivity.
  - apply Nat.leb_gt in E1. assert (Hg : (Z.of_nat n >? 1) = true) by (apply gtb_true; lia).
    rewrite Hg. destruct (idx + 1 <? Z.of_nat n) eqn:E2.
    + apply Z.ltb_lt in E2. exists (Z.to_nat (idx + 1)), (idx + 1). split; [reflexivity|]. left.
      unfold rr_fin. rewrite url_at_in by lia. reflexivity.
    + exists O, 0. split; [reflexivity|]. right. exists (idx + 1). split; [reflexivity|].
      unfold rr_fin. rewrite url_at_in by lia. reflexivity.
Qed.

(* ---- Random ------------------------------------------------------------------ *)
Lemma rnd_pick_cases n r :
  match rnd_pick n r with
  | Ok i => (i < n)%nat /\ r = Z.of_nat i
  | Panic => n = O
  | BadScript => n <> O /\ ~ (0 <= r < Z.of_nat n)
  | OutOfFuel => False
  end.
Proof.
  unfold rnd_pick. pose proof (rand_intn_cases n r) as H.
  destruct (rand_intn n r) as [i| | |]; cbn [bind]; try exact H.
  unfold url_at_nat. destruct H as [Hi Hr]. apply Nat.ltb_lt in Hi. rewrite Hi.
  apply Nat.ltb_lt in Hi. split; assumption.
Qed.

Lemma rnd_history_valid n : (1 <= n)%nat -> forall h,
  match run (rnd_machine n) tt [] h with
  | Ok (ps, _) => Forall (fun i => (i < n)%nat) ps
  | BadScript => True
  | _ => False
  end.
Proof.
  intros Hn h.
  pose proof (run_safe (rnd_machine n) (fun _ _ => True) n) as R.
  specialize (R ltac:(
    intros s calls r _; cbn [m_pick rnd_machine]; pose proof (rnd_pick_cases n r) as H;
    destruct (rnd_pick n r); cbn [bind]; try exact I; [tauto|lia|exact H])).
  specialize (R ltac:(intros s calls k i o _ _; cbn; exact I)).
  specialize (R h tt [] I).
  destruct (run (rnd_machine n) tt [] h) as [[ps sc]| | |]; try exact R.
  destruct sc. tauto.
Qed.

(* every in-range rand value selects exactly that server *)
Lemma rnd_pick_any n i : (i < n)%nat -> rnd_pick n (Z.of_nat i) = Ok i.
Proof.
  intros Hi. pose proof (rnd_pick_cases n (Z.of_nat i)) as H.
  destruct (rnd_pick n (Z.of_nat i)) as [j| | |].
  - destruct H as [_ E]. f_equal. lia.
  - lia.
  - exact (False_ind _ H).
  - destruct H as [_ H]. exfalso. apply H. lia.
Qed.
