(* C19: the variant of the model with the repaired message() (hooks/c19-fix-proposal.patch):
   a poll whose timer has fired withdraws its responder from b.responders under the map's lock,
   or, if a publisher has taken it, waits for the answer.  Every run of this variant is free of
   hazardous steps, so the full-strength property holds in every schedule. *)
From Coq Require Import List ZArith Bool Arith Lia Permutation.
From HV Require Import Model.Push Proofs.PushBase Proofs.PushInv Proofs.PushData Proofs.PushOrder
                       Proofs.PushLive Proofs.PushGuard.
Import ListNotations.

Definition reg_active (s : state) : Prop :=
  fixed s = true /\ forall id r, resp s id = Some r -> active_at s r = true.

Lemma sub_rel_fixed s sb s1 o : sub_rel s sb s1 o -> fixed s1 = fixed s.
Proof. intros H. inversion H; subst; reflexivity. Qed.

Lemma step_rel_fixed s t s' : step_rel s t s' -> fixed s' = fixed s.
Proof.
  intros H. inversion H; subst; try reflexivity.
  - inversion H1; subst; sproj; try reflexivity. eapply sub_rel_fixed; eauto.
  - inversion H1; subst; sproj; try reflexivity. eapply sub_rel_fixed; eauto.
Qed.

(* what a step of poll p does to the map and to the poll's own activity *)
Lemma poll_rel_shape s p pl t s' : Inv1 s -> nth_error (polls s) p = Some pl -> poll_rel s p pl t s' ->
  exists pc', polls s' = upd p {| pid := pid pl; ppc := pc' |} (polls s) /\
    (forall id r, resp s' id = Some r -> resp s id = Some r \/ (r = p /\ pc' = LWait)) /\
    (poll_active {| pid := pid pl; ppc := pc' |} = false ->
       (t = TTimeout p /\ fixed s = false) \/ forall id, resp s' id <> Some p).
Proof.
  intros HJ Hp H.
  assert (Hnr : ~ wos (ppc pl) -> forall id, resp s id <> Some p).
  { intros Hn. apply (free_of_pc s p pl HJ Hp Hn). }
  inversion H; subst; sproj.
  - exists LPopSig. split; [reflexivity|]. split; [auto|discriminate].
  - exists LPopSig. split; [reflexivity|]. split; [|discriminate].
    intros id r0 Hr. unfold fupd in Hr. destruct (Nat.eqb id (pid pl)); [discriminate|auto].
  - exists LSend. split; [reflexivity|]. split; [auto|discriminate].
  - exists (LSending (sub0 (pid pl) p)). split; [reflexivity|]. split; [auto|discriminate].
  - match goal with Hsr : sub_rel _ _ _ _ |- _ => destruct (sub_rel_eff _ _ _ _ Hsr) as (Ep & Er & _) end.
    eexists. split; [rewrite Ep; reflexivity|]. split; [rewrite Er; auto|].
    destruct o as [sb'|[|]]; discriminate.
  - exists (LDone RNil). split; [reflexivity|]. split; [auto|]. intros _. right.
    match goal with Hc : nth_error (chans s) p = Some _ |- _ => apply (free_of_nonempty s p _ HJ Hc) end. discriminate.
  - exists (LDone (RBatch b)). split; [reflexivity|]. split; [auto|]. intros _. right.
    match goal with Hc : nth_error (chans s) p = Some _ |- _ => apply (free_of_nonempty s p _ HJ Hc) end. discriminate.
  - exists LWait. split; [reflexivity|]. split; [|discriminate].
    intros id r Hr. unfold fupd in Hr. destruct (Nat.eqb id (pid pl)); [inversion Hr; auto|auto].
  - exists LWait. split; [reflexivity|]. split; [|discriminate].
    intros id r0 Hr. unfold fupd in Hr. destruct (Nat.eqb id (pid pl)); [inversion Hr; auto|auto].
  - exists (LDone RTimeout). split; [reflexivity|]. split; [auto|]. intros _. left. auto.
  - exists LTimedOut. split; [reflexivity|]. split; [auto|discriminate].
  - exists (LDone RTimeout). split; [reflexivity|]. split.
    + intros id r Hr. unfold fupd in Hr. destruct (Nat.eqb id (pid pl)); [discriminate|auto].
    + intros _. right. intros id Hr. unfold fupd in Hr. destruct (Nat.eqb id (pid pl)) eqn:E; [discriminate|].
      destruct (i_reg s HJ _ _ Hr) as (pl0 & A & B & _). rewrite Hp in A. inversion A; subst.
      rewrite Nat.eqb_refl in E. discriminate.
Qed.

Lemma work_rel_shape s w wk t s' : nth_error (works s) w = Some wk -> work_rel s w wk t s' ->
  polls s' = polls s /\
  forall id r, resp s' id = Some r -> resp s id = Some r \/ exists sb, wsub wk = Some sb /\ sresp sb = r.
Proof.
  intros Hw H. split; [eapply work_rel_polls; eauto|].
  inversion H; subst; sproj; auto.
  - intros id r Hr. unfold fupd in Hr. destruct (Nat.eqb id (sid sb)); [inversion Hr; eauto|auto].
  - match goal with Hsr : sub_rel _ _ _ _ |- _ => destruct (sub_rel_eff _ _ _ _ Hsr) as (_ & Er & _) end. rewrite Er. auto.
  - intros id0 r0 Hr. unfold fupd in Hr. destruct (Nat.eqb id0 id); [discriminate|auto].
Qed.

Inductive reachf : state -> Prop :=
| reachf_init : reachf init_fixed
| reachf_step : forall s t s', reachf s -> step_rel s t s' -> reachf s'.

Lemma reachf_ok s : reachf s -> greach tag_ok s /\ reg_active s.
Proof.
  induction 1 as [|s t s' Hr [IH1 [IHf IHr]] Hs].
  - split; [apply (greach_init tag_ok true)|]. split; [reflexivity|]. intros id r Hx. discriminate.
  - destruct (InvFull_greach s IH1) as [[HJ HD HO] H5 HG].
    assert (Htag : tag_ok s t).
    { destruct t as [p|r|]; [| |exact I].
      - inversion Hs; subst.
        + match goal with Hq : poll_rel _ _ _ _ _ |- _ => inversion Hq; subst end; [congruence|]. cbn. eauto.
        + match goal with Hq : work_rel _ _ _ _ _ |- _ => inversion Hq end.
      - inversion Hs; subst.
        + match goal with Hq : poll_rel _ _ _ _ _ |- _ => inversion Hq end.
        + match goal with Hq : work_rel _ _ _ _ _ |- _ => inversion Hq; subst end. cbn. eauto. }
    split; [eapply greach_step; eauto|].
    split; [rewrite (step_rel_fixed _ _ _ Hs); exact IHf|].
    intros id r Hx. inversion Hs; subst; sproj.
    + exact (IHr _ _ Hx).
    + pose proof (IHr _ _ Hx) as Ha. unfold active_at in *. sproj.
      destruct (nth_error (polls s) r) as [pl|] eqn:E; [|discriminate].
      rewrite (nth_error_snoc_old _ _ _ _ E). exact Ha.
    + match goal with Hq : poll_rel _ _ _ _ _, Hn : nth_error (polls s) _ = Some _ |- _ =>
        destruct (poll_rel_shape _ _ _ _ _ HJ Hn Hq) as (pc' & Ep & Hres & Hin); pose proof Hn as Hpn end.
      unfold active_at. rewrite Ep.
      destruct (Nat.eq_dec p r) as [->|Hne].
      * rewrite nth_error_upd_eq by (eapply nth_error_lt; eauto).
        destruct (poll_active {| pid := pid pl; ppc := pc' |}) eqn:Ea; [reflexivity|].
        destruct (Hin eq_refl) as [(_ & Hf)|Hn]; [congruence|]. elim (Hn _ Hx).
      * rewrite nth_error_upd_neq by exact Hne.
        destruct (Hres _ _ Hx) as [Ho|(E & _)]; [exact (IHr _ _ Ho)|congruence].
    + match goal with Hq : work_rel _ _ _ _ _, Hn : nth_error (works s) _ = Some _ |- _ =>
        destruct (work_rel_shape _ _ _ _ _ Hn Hq) as (Ep & Hres); pose proof Hn as Hwn end.
      unfold active_at. rewrite Ep.
      destruct (Hres _ _ Hx) as [Ho|(sb & Hsb & Er)]; [exact (IHr _ _ Ho)|].
      rewrite <- Er. eapply (g_held s HG); eauto.
Qed.

Lemma run_reachf : forall sched s s', reachf s -> run s sched = Some s' -> reachf s'.
Proof.
  induction sched as [|e r IH]; cbn; intros s s' Hr H.
  - inversion H; subst. exact Hr.
  - destruct (step s e) as [s1|] eqn:E; [|discriminate].
    eapply IH; [|exact H]. apply step_step_rel in E. destruct E as (t & E & _). eapply reachf_step; eauto.
Qed.
