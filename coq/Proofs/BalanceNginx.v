(* NginxRoundRobin, smooth weighted round robin (C18): index validity and effective-weight
   bounds for every history, and the cycle theorem while no call fails. *)
From Coq Require Import List ZArith Bool Lia.
From HV Require Import Model.Balance Proofs.BalanceBase Proofs.BalanceEff.
Import ListNotations.
Open Scope Z_scope.

(* ---- the for loop of getIndex as "add the weights, take the first maximum" ---- *)
Fixpoint zip_add (a b : list Z) : list Z :=
  match a, b with x :: a', y :: b' => (x + y) :: zip_add a' b' | _, _ => [] end.

Fixpoint argmax_from (l : list Z) (i : nat) (best : Z) (bi : nat) : Z * nat :=
  match l with
  | [] => (best, bi)
  | x :: r => if best <? x then argmax_from r (S i) x i else argmax_from r (S i) best bi
  end.

Lemma ng_scan_spec : forall cur eff i best bi, length cur = length eff ->
  ng_scan cur eff i best bi = Ok (zip_add cur eff, argmax_from (zip_add cur eff) i best bi).
Proof.
  induction cur as [|x cur IH]; intros [|e eff] i best bi Hl; cbn in Hl; try lia; [reflexivity|].
  cbn [ng_scan zip_add argmax_from].
  destruct (best <? x + e); cbn [fst snd]; rewrite IH by lia; reflexivity.
Qed.

Lemma ng_scan_mismatch : forall cur eff i best bi, length cur <> length eff ->
  ng_scan cur eff i best bi = Panic.
Proof.
  induction cur as [|x cur IH]; intros [|e eff] i best bi Hl; cbn in Hl; try lia; try reflexivity.
  cbn [ng_scan]. rewrite IH by lia. reflexivity.
Qed.

Lemma argmax_from_spec l : forall i best bi,
  let '(m, j) := argmax_from l i best bi in
  ((j = bi /\ m = best) \/ ((i <= j < i + length l)%nat /\ nth_error l (j - i) = Some m)) /\
  best <= m /\ (forall x, In x l -> x <= m).
Proof.
  induction l as [|x r IH]; intros i best bi; cbn [argmax_from].
  - split; [left; auto|]. split; [lia|]. intros ? [].
  - destruct (best <? x) eqn:E; [apply Z.ltb_lt in E|apply Z.ltb_ge in E].
    + specialize (IH (S i) x i). destruct (argmax_from r (S i) x i) as [m j].
      destruct IH as (H1 & H2 & H3). split.
      * right. destruct H1 as [[-> ->]|[Hr Hn]].
        -- split; [cbn; lia|]. replace (i - i)%nat with O by lia. reflexivity.
        -- split; [cbn [length]; lia|]. replace (j - i)%nat with (S (j - S i)) by lia. exact Hn.
      * split; [lia|]. intros y [<-|Hy]; [lia|auto].
    + specialize (IH (S i) best bi). destruct (argmax_from r (S i) best bi) as [m j].
      destruct IH as (H1 & H2 & H3). split.
      * destruct H1 as [[-> ->]|[Hr Hn]]; [left; auto|right].
        split; [cbn [length]; lia|]. replace (j - i)%nat with (S (j - S i)) by lia. exact Hn.
      * split; [lia|]. intros y [<-|Hy]; [lia|auto].
Qed.

(* when the sentinel math.MinInt64 is below the first entry, the result is a genuine maximum *)
Lemma argmax_spec l best : l <> [] -> (forall x, In x l -> best < x) ->
  let '(m, j) := argmax_from l 0 best 0 in
  (j < length l)%nat /\ nth_error l j = Some m /\ forall x, In x l -> x <= m.
Proof.
  intros Hne Hb. pose proof (argmax_from_spec l 0 best 0) as H.
  destruct (argmax_from l 0 best 0) as [m j]. destruct H as (H1 & H2 & H3).
  destruct H1 as [[-> ->]|[Hr Hn]].
  - exfalso. destruct l as [|x l]; [congruence|]. specialize (Hb x (or_introl eq_refl)).
    specialize (H3 x (or_introl eq_refl)). lia.
  - rewrite Nat.sub_0_r in Hn. split; [lia|]. split; [exact Hn|exact H3].
Qed.

Lemma argmax_index_valid l best : l <> [] ->
  (snd (argmax_from l 0 best 0) < length l)%nat.
Proof.
  intros Hne. pose proof (argmax_from_spec l 0 best 0) as H.
  destruct (argmax_from l 0 best 0) as [m j]. destruct H as (H1 & _). cbn [snd].
  destruct H1 as [[-> _]|[Hr _]]; [destruct l; [congruence|cbn; lia]|lia].
Qed.

Lemma zip_add_length a b : length a = length b -> length (zip_add a b) = length a.
Proof. revert b; induction a as [|x a IH]; intros [|y b] H; cbn in *; try lia. rewrite IH; lia. Qed.

Lemma lsum_zip_add a b : length a = length b -> lsum (zip_add a b) = lsum a + lsum b.
Proof.
  revert b; induction a as [|x a IH]; intros [|y b] H; cbn [zip_add length] in *; unfold lsum in *;
    cbn [fold_right]; try lia. rewrite IH by lia. lia.
Qed.

Lemma nth_zip_add a b j : length a = length b ->
  nth_error (zip_add a b) j =
  match nth_error a j, nth_error b j with Some x, Some y => Some (x + y) | _, _ => None end.
Proof. revert b j; induction a as [|x a IH]; intros [|y b] [|j] H; cbn in *; try lia; auto. Qed.

(* ---- index validity and effective weights, every history ------------------------ *)
Definition ng_inv (W : list Z) (s : ng_st) : Prop :=
  eff_ok W (ng_eff s) /\ length (ng_cur s) = length W.

Lemma ng_pick_safe W s r : (1 <= length W)%nat -> ng_inv W s ->
  match ng_pick s r with
  | Ok (i, s') => (i < length W)%nat /\ ng_inv W s' /\ ng_eff s' = ng_eff s
  | BadScript => True
  | _ => False
  end.
Proof.
  intros Hn [[Hl Hb] Hc]. unfold ng_pick, ng_get.
  destruct (zsum (ng_eff s) >? 0).
  - rewrite ng_scan_spec by lia. cbn [bind fst snd].
    set (a := zip_add (ng_cur s) (ng_eff s)).
    assert (La : length a = length W) by (unfold a; rewrite zip_add_length; lia).
    assert (Hane : a <> []) by (destruct a; [cbn in La; lia|discriminate]).
    pose proof (argmax_index_valid a min_int64 Hane) as Hj.
    apply Nat.ltb_lt in Hj. rewrite Hj. apply Nat.ltb_lt in Hj. cbn [bind fst snd].
    unfold url_at_nat. assert (E : Nat.ltb (snd (argmax_from a 0 min_int64 0)) (length (ng_eff s)) = true)
      by (apply Nat.ltb_lt; lia).
    rewrite E. cbn [bind]. split; [lia|]. split; [|reflexivity].
    split; [split; assumption|]. cbn [ng_cur]. rewrite upd_nth_length. exact La.
  - pose proof (rand_intn_cases (length (ng_eff s)) r) as H.
    destruct (rand_intn (length (ng_eff s)) r) as [i| | |]; cbn [bind fst snd]; try exact I.
    + destruct H as [Hi _]. unfold url_at_nat. apply Nat.ltb_lt in Hi. rewrite Hi. apply Nat.ltb_lt in Hi.
      cbn [bind]. split; [lia|]. split; [|reflexivity]. split; [split; assumption|exact Hc].
    + lia.
    + exact H.
Qed.

Lemma ng_settle_safe W s i o : ng_inv W s -> (i < length W)%nat ->
  exists s', ng_settle W s i o = Ok s' /\ ng_inv W s' /\ ng_cur s' = ng_cur s.
Proof.
  intros [Hok Hc] Hi.
  destruct (eff_update_ok W (ng_eff s) i o Hok Hi) as (e & w & eff' & _ & _ & Hu & Hok' & _).
  unfold ng_settle. rewrite Hu. cbn [bind]. eexists. split; [reflexivity|]. split; [|reflexivity].
  split; [exact Hok'|exact Hc].
Qed.

Lemma ng_new_inv ws s : ng_new ws = Ok s ->
  Forall (fun w => 0 < w) ws /\ s = {| ng_eff := ws; ng_cur := map (fun _ => 0) ws |}.
Proof.
  unfold ng_new. intros H. apply bind_ok in H. destruct H as (w & Hw & H).
  apply mk_weighted_ok in Hw. destruct Hw as [-> Hpos]. injection H as <-. auto.
Qed.

(* every history: no panic, every pick in range, 0 <= eff <= w throughout *)
Lemma ng_history_valid ws s0 : ws <> [] -> ng_new ws = Ok s0 -> forall h,
  match run (ng_machine ws) s0 [] h with
  | Ok (ps, (s, _)) => Forall (fun i => (i < length ws)%nat) ps /\ eff_ok ws (ng_eff s)
  | BadScript => True
  | _ => False
  end.
Proof.
  intros Hne Hnew h. apply ng_new_inv in Hnew. destruct Hnew as [Hpos ->].
  assert (Hn : (1 <= length ws)%nat) by (destruct ws; [congruence|cbn; lia]).
  pose proof (run_safe (ng_machine ws) (fun s calls => ng_inv ws s /\ calls_lt (length ws) calls) (length ws)) as R.
  specialize (R ltac:(
    intros s calls r [HI Hc]; cbn [m_pick ng_machine];
    pose proof (ng_pick_safe ws s r Hn HI) as H;
    destruct (ng_pick s r) as [[i s']| | |]; try exact H;
    destruct H as (Hi & HI' & _); split; [exact Hi|]; split; [exact HI'|apply calls_lt_app; assumption])).
  specialize (R ltac:(
    intros s calls k i o [HI Hc] Hk; cbn [m_settle ng_machine];
    destruct (ng_settle_safe ws s i o HI (Hc k i Hk)) as (s' & E & HI' & _); rewrite E;
    split; [exact HI'|apply calls_lt_upd; exact Hc])).
  specialize (R h {| ng_eff := ws; ng_cur := map (fun _ => 0) ws |} []).
  specialize (R ltac:(split; [split; [apply eff_ok_init; exact Hpos|cbn; apply map_length]|apply calls_lt_nil])).
  destruct (run _ _ [] h) as [[ps [s c]]| | |]; try exact R.
  destruct R as [R1 [[R2 _] _]]. split; assumption.
Qed.

(* ---- the cycle theorem (no call fails: eff = W throughout) ------------------------- *)
Definition sstep (w cur : list Z) : nat * list Z :=
  let a := zip_add cur w in
  let '(m, i) := argmax_from a 0 min_int64 0 in
  (i, upd_nth i (m - lsum w) a).

Definition Inv (w cur : list Z) :=
  length cur = length w /\ lsum cur = 0 /\ forall j x, nth_error cur j = Some x -> - lsum w < x.

Lemma lsum_le_max l m : (forall x, In x l -> x <= m) -> lsum l <= Z.of_nat (length l) * m.
Proof.
  induction l as [|x l IH]; intros H; unfold lsum in *; cbn [fold_right length].
  - lia.
  - specialize (IH ltac:(intros; apply H; right; auto)). specialize (H x (or_introl eq_refl)).
    rewrite Nat2Z.inj_succ. lia.
Qed.

Section Smooth.
  Variable w : list Z.
  Hypothesis w_nonempty : w <> [].
  Hypothesis w_pos : Forall (fun x => 0 < x) w.
  (* the int64 sentinel math.MinInt64 must lie below every current weight: sum(w) <= 2^63 *)
  Hypothesis w_small : lsum w <= 9223372036854775808.

  Let T := lsum w.

  Lemma T_pos : 0 < T.
  Proof. apply lsum_pos; assumption. Qed.

  Lemma w_nonneg x : In x w -> 0 <= x.
  Proof. intros H. rewrite Forall_forall in w_pos. specialize (w_pos x H). lia. Qed.

  Lemma sstep_inv cur : Inv w cur ->
    let '(i, cur') := sstep w cur in Inv w cur' /\ (i < length w)%nat /\
    forall j, nth_error cur' j =
      match nth_error cur j, nth_error w j with
      | Some x, Some y => Some (x + y - (if Nat.eqb i j then T else 0)) | _, _ => None end.
  Proof.
    pose proof T_pos as HT.
    intros (Hlen & Hsum & Hlow). unfold sstep.
    set (a := zip_add cur w).
    assert (La : length a = length w) by (unfold a; rewrite zip_add_length; lia).
    assert (Hane : a <> []) by (destruct a; [destruct w; cbn in *; congruence|discriminate]).
    assert (Hsent : forall x, In x a -> min_int64 < x).
    { intros x Hx. destruct (In_nth_error _ _ Hx) as [j Hj]. unfold a in Hj.
      rewrite nth_zip_add in Hj by lia.
      destruct (nth_error cur j) eqn:E1; [|discriminate]. destruct (nth_error w j) eqn:E2; [|discriminate].
      injection Hj as <-. specialize (Hlow _ _ E1). pose proof (w_nonneg _ (nth_error_In _ _ E2)).
      unfold min_int64. fold T in Hlow. lia. }
    pose proof (argmax_spec a min_int64 Hane Hsent) as HA.
    destruct (argmax_from a 0 min_int64 0) as [m i]. destruct HA as (Hi & Hnth & Hmax).
    assert (Sa : lsum a = T) by (unfold a; rewrite lsum_zip_add; fold T; lia).
    assert (Hm : 0 < m). { pose proof (lsum_le_max a m Hmax). destruct (Z_lt_le_dec 0 m); auto. nia. }
    split; [|split].
    - split; [rewrite upd_nth_length; lia|]. split.
      + rewrite (lsum_upd _ _ _ _ Hnth). fold T. lia.
      + intros j x Hj. destruct (Nat.eq_dec i j) as [<-|Hij].
        * rewrite nth_error_upd_nth_same in Hj by lia. injection Hj as <-. fold T. lia.
        * rewrite nth_error_upd_nth_other in Hj by auto. unfold a in Hj. rewrite nth_zip_add in Hj by lia.
          destruct (nth_error cur j) eqn:E1; [|discriminate]. destruct (nth_error w j) eqn:E2; [|discriminate].
          injection Hj as <-. specialize (Hlow _ _ E1). pose proof (w_nonneg _ (nth_error_In _ _ E2)). lia.
    - lia.
    - intros j. destruct (Nat.eq_dec i j) as [<-|Hij].
      + rewrite nth_error_upd_nth_same by lia. rewrite Nat.eqb_refl. unfold a in Hnth.
        rewrite nth_zip_add in Hnth by lia.
        destruct (nth_error cur i), (nth_error w i); try discriminate. injection Hnth as <-. reflexivity.
      + rewrite nth_error_upd_nth_other by auto. unfold a. rewrite nth_zip_add by lia.
        destruct (Nat.eqb_spec i j); [congruence|]. destruct (nth_error cur j), (nth_error w j); auto.
        f_equal; lia.
  Qed.

  (* one successful call of the real model is one sstep *)
  Lemma ng_call_ok_sstep cur : Inv w cur ->
    ng_call_ok w {| ng_eff := w; ng_cur := cur |} =
    Ok (fst (sstep w cur), {| ng_eff := w; ng_cur := snd (sstep w cur) |}).
  Proof.
    intros HI. pose proof (sstep_inv cur HI) as HS. pose proof T_pos as HT.
    destruct HI as (Hlen & _). unfold sstep in *. unfold ng_call_ok, ng_pick, ng_get. cbn [ng_eff ng_cur].
    rewrite zsum_lsum. fold T. assert (E : (T >? 0) = true) by (rewrite Z.gtb_ltb; apply Z.ltb_lt; exact HT).
    rewrite E. rewrite ng_scan_spec by exact Hlen. cbn [bind fst snd].
    destruct (argmax_from (zip_add cur w) 0 min_int64 0) as [m i]. cbn [fst snd] in *.
    destruct HS as (_ & Hi & _).
    assert (La : length (zip_add cur w) = length w) by (rewrite zip_add_length; lia).
    assert (E1 : Nat.ltb i (length (zip_add cur w)) = true) by (apply Nat.ltb_lt; lia).
    rewrite E1. cbn [bind fst snd]. unfold url_at_nat.
    assert (E2 : Nat.ltb i (length w) = true) by (apply Nat.ltb_lt; lia). rewrite E2. cbn [bind fst snd].
    unfold ng_settle. cbn [ng_eff ng_cur].
    destruct (eff_ok_get w w i (eff_ok_init w w_pos) Hi) as (e & x & He & Hx & Hb).
    rewrite (eff_update_spec w w i OOk e x He Hx Hb). cbn [bind eff_next].
    rewrite He in Hx. injection Hx as <-. rewrite Z.min_r by lia. rewrite upd_nth_same_val by exact He.
    reflexivity.
  Qed.

  Fixpoint srun (k : nat) (cur : list Z) : list nat * list Z :=
    match k with
    | O => ([], cur)
    | S k' => let '(i, cur') := sstep w cur in let '(tr, c) := srun k' cur' in (i :: tr, c)
    end.

  Lemma ng_run_ok_srun : forall k cur, Inv w cur ->
    ng_run_ok k w {| ng_eff := w; ng_cur := cur |} =
    Ok (fst (srun k cur), {| ng_eff := w; ng_cur := snd (srun k cur) |}).
  Proof.
    induction k as [|k IH]; intros cur HI; unfold ng_run_ok in *; cbn [pick_run srun]; [reflexivity|].
    rewrite ng_call_ok_sstep by exact HI. cbn [bind fst snd].
    pose proof (sstep_inv cur HI) as HS. destruct (sstep w cur) as [i cur1]. destruct HS as (HI1 & _).
    cbn [fst snd]. rewrite IH by exact HI1. cbn [bind fst snd].
    destruct (srun k cur1) as [tr c]. reflexivity.
  Qed.

  (* after k steps: cur_j = cur0_j + k*w_j - T*count j *)
  Lemma srun_spec : forall k cur, Inv w cur ->
    let '(tr, cur') := srun k cur in
    Inv w cur' /\ length tr = k /\ (forall i, In i tr -> (i < length w)%nat) /\
    forall j x y, nth_error cur j = Some x -> nth_error w j = Some y ->
       nth_error cur' j = Some (x + Z.of_nat k * y - T * count j tr).
  Proof.
    induction k as [|k IH]; intros cur HI; cbn [srun].
    - split; auto. split; auto. split; [intros ? []|]. intros j x y Hx Hy. rewrite Hx. f_equal.
      rewrite count_nil. lia.
    - pose proof (sstep_inv cur HI) as HS. destruct (sstep w cur) as [i cur1]. destruct HS as (HI1 & Hi & Hn).
      specialize (IH cur1 HI1). destruct (srun k cur1) as [tr cur2]. destruct IH as (HI2 & Hl & Hin & Hv).
      split; auto. split; [cbn; lia|]. split; [intros i' [<-|]; auto|].
      intros j x y Hx Hy. specialize (Hn j). rewrite Hx, Hy in Hn. rewrite (Hv _ _ _ Hn Hy). f_equal.
      rewrite count_cons. destruct (Nat.eqb i j); lia.
  Qed.

  (* sums over 0..n-1 *)
  Definition ssum (f : nat -> Z) (s : list nat) : Z := fold_right Z.add 0 (map f s).

  Lemma ssum_le f h s : (forall j, In j s -> f j <= h j) -> ssum f s <= ssum h s.
  Proof.
    induction s as [|a s IH]; intros H; unfold ssum in *; cbn [map fold_right]; [lia|].
    specialize (IH ltac:(intros; apply H; right; auto)). specialize (H a (or_introl eq_refl)). lia.
  Qed.

  Lemma ssum_le_eq f h : forall s, (forall j, In j s -> f j <= h j) -> ssum f s = ssum h s ->
    forall j, In j s -> f j = h j.
  Proof.
    induction s as [|a s IH]; intros Hle Heq j Hj; [destruct Hj|].
    unfold ssum in *. cbn [map fold_right] in Heq.
    pose proof (ssum_le f h s ltac:(intros; apply Hle; right; auto)) as Hs. unfold ssum in Hs.
    pose proof (Hle a (or_introl eq_refl)) as Ha.
    destruct Hj as [<-|Hj]; [lia|]. apply IH; auto; [intros; apply Hle; right; auto|lia].
  Qed.

  Lemma ssum_count tr : forall s, ssum (fun j => count j tr) s =
    fold_right Z.add 0 (map (fun i => count i s) tr).
  Proof.
    induction tr as [|i tr IH]; intros s.
    - cbn. unfold ssum. induction s; cbn; auto.
    - cbn [map fold_right]. rewrite <- IH. clear IH. unfold ssum.
      induction s as [|a s IHs]; cbn [map fold_right]; [rewrite count_nil; lia|].
      rewrite IHs, !count_cons. rewrite (Nat.eqb_sym a i). lia.
  Qed.

  Lemma ssum_counts n tr : (forall i, In i tr -> (i < n)%nat) ->
    ssum (fun j => count j tr) (seq 0 n) = Z.of_nat (length tr).
  Proof.
    intros H. rewrite ssum_count. induction tr as [|i tr IH]; [reflexivity|].
    cbn [map fold_right length]. rewrite IH by (intros; apply H; right; auto).
    rewrite (proj1 (count_seq i n O)) by (specialize (H i (or_introl eq_refl)); lia). lia.
  Qed.

  Lemma lsum_as_seq (l : list Z) : lsum l = ssum (fun j => nth j l 0) (seq 0 (length l)).
  Proof.
    induction l as [|x l IH]; [reflexivity|]. unfold ssum, lsum in *.
    cbn [length seq map fold_right nth]. rewrite <- seq_shift, map_map. cbn [nth]. rewrite IH. reflexivity.
  Qed.

  Definition zeros : list Z := map (fun _ => 0) w.

  Lemma zeros_inv : Inv w zeros.
  Proof.
    pose proof T_pos. unfold zeros. split; [apply map_length|]. split.
    - clear. induction w; cbn; auto.
    - intros j x Hx. apply nth_error_In in Hx. apply in_map_iff in Hx. destruct Hx as (? & <- & _).
      fold T. lia.
  Qed.

  (* over one full cycle of T = sum(w) calls from the initial state, server j is picked
     exactly w_j times and the state is the initial state again *)
  Lemma smooth_cycle :
    let '(tr, cur') := srun (Z.to_nat T) zeros in
    (forall j y, nth_error w j = Some y -> count j tr = y) /\ cur' = zeros.
  Proof.
    pose proof T_pos as HT.
    pose proof (srun_spec (Z.to_nat T) zeros zeros_inv) as HR.
    destruct (srun (Z.to_nat T) zeros) as [tr cur']. destruct HR as (HI' & Hl & Hin & Hv).
    assert (Hz : forall j y, nth_error w j = Some y -> nth_error zeros j = Some 0).
    { intros j y H. unfold zeros. rewrite nth_error_map, H. reflexivity. }
    assert (Hub : forall j, In j (seq 0 (length w)) -> count j tr <= nth j w 0).
    { intros j Hj. apply in_seq in Hj.
      destruct (nth_error w j) as [y|] eqn:Ey; [|apply nth_error_None in Ey; lia].
      rewrite (nth_error_nth _ _ _ Ey).
      pose proof (Hv j 0 y (Hz _ _ Ey) Ey) as E. destruct HI' as (_ & _ & Hlow). specialize (Hlow _ _ E).
      rewrite Z2Nat.id in Hlow by lia. fold T in Hlow. nia. }
    assert (Hs : ssum (fun j => count j tr) (seq 0 (length w)) = ssum (fun j => nth j w 0) (seq 0 (length w))).
    { rewrite ssum_counts by auto. rewrite <- lsum_as_seq. fold T. rewrite Hl, Z2Nat.id; lia. }
    assert (Heq : forall j y, nth_error w j = Some y -> count j tr = y).
    { intros j y Hy. rewrite (ssum_le_eq _ _ _ Hub Hs j).
      - apply nth_error_nth. exact Hy.
      - apply in_seq. split; [lia|]. apply nth_error_Some. congruence. }
    split; [exact Heq|].
    apply nth_error_ext. intros j. destruct HI' as (Hlen' & _ & _). unfold zeros at 1.
    destruct (nth_error w j) eqn:Ew.
    - rewrite nth_error_map, Ew. cbn. rewrite (Hv j 0 z (Hz _ _ Ew) Ew). rewrite (Heq _ _ Ew).
      rewrite Z2Nat.id by lia. f_equal. lia.
    - rewrite nth_error_map, Ew. cbn. apply nth_error_None. apply nth_error_None in Ew. lia.
  Qed.

  Definition ng_init : ng_st := {| ng_eff := w; ng_cur := zeros |}.

  Lemma ng_cycle_from_init :
    exists lp, ng_run_ok (Z.to_nat T) w ng_init = Ok (lp, ng_init) /\
               forall j y, nth_error w j = Some y -> count j lp = y.
  Proof.
    pose proof smooth_cycle as H. unfold ng_init. rewrite ng_run_ok_srun by exact zeros_inv.
    destruct (srun (Z.to_nat T) zeros) as [tr cur']. destruct H as [Hc ->].
    exists tr. split; [reflexivity|exact Hc].
  Qed.

  (* every window of T consecutive calls, at any offset *)
  Lemma ng_cycle_any_window a :
    exists l1 s1 l2, ng_run_ok a w ng_init = Ok (l1, s1) /\ ng_run_ok (Z.to_nat T) w s1 = Ok (l2, s1) /\
      forall j y, nth_error w j = Some y -> count j l2 = y.
  Proof.
    destruct ng_cycle_from_init as (lp & Ep & Hc).
    assert (Ha : exists l1 s1, ng_run_ok a w ng_init = Ok (l1, s1)).
    { unfold ng_init. rewrite ng_run_ok_srun by exact zeros_inv. eauto. }
    destruct Ha as (l1 & s1 & E1).
    pose proof (periodic_window (fun k s => ng_run_ok k w s)
                  (fun x y s => pick_run_add (ng_call_ok w) x y s) (Z.to_nat T) ng_init lp Ep a l1 s1 E1)
      as (l2 & E2 & Hcnt).
    exists l1, s1, l2. split; [exact E1|]. split; [exact E2|].
    intros j y Hy. rewrite Hcnt. apply Hc. exact Hy.
  Qed.
End Smooth.
