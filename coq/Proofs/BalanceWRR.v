(* WeightedRoundRobin (C18): the loop budget suffices, the index is always valid, and over
   each cycle of sum(w)/gcd picks server i is chosen w_i/gcd times. *)
From Coq Require Import List ZArith Bool Lia.
From HV Require Import Model.Balance Proofs.BalanceBase.
Import ListNotations.
Open Scope Z_scope.

Lemma geb_true a b : (a >=? b) = true <-> b <= a.
Proof. rewrite Z.geb_leb, Z.leb_le. lia. Qed.
Lemma geb_false a b : (a >=? b) = false <-> a < b.
Proof. rewrite Z.geb_leb, Z.leb_gt. lia. Qed.

Lemma count_filter i (f : nat -> bool) : forall l,
  count i (filter f l) = if f i then count i l else 0.
Proof.
  induction l as [|x l IH]; cbn [filter].
  - rewrite count_nil. destruct (f i); reflexivity.
  - destruct (f x) eqn:E.
    + rewrite !count_cons, IH. destruct (Nat.eqb_spec x i) as [->|Hne].
      * rewrite E. reflexivity.
      * destruct (f i); lia.
    + rewrite IH, count_cons. destruct (Nat.eqb_spec x i) as [->|Hne].
      * rewrite E. reflexivity.
      * destruct (f i); lia.
Qed.

Section WRR.
  Variable W : list Z.
  Variable g : Z.
  Hypothesis W_nonempty : W <> [].
  Hypothesis W_pos : Forall (fun w => 0 < w) W.
  Hypothesis g_pos : 0 < g.
  Hypothesis g_div : forall w, In w W -> (g | w).

  Let n := length W.
  Let mx := zmax W.
  Let c := {| wr_weights := W; wr_max := mx; wr_gcd := g |}.
  Definition wt (i : nat) : Z := nth i W 0.

  Lemma n_pos : (1 <= n)%nat.
  Proof. unfold n. destruct W; [congruence|cbn; lia]. Qed.

  Lemma wt_nth i w : nth_error W i = Some w -> wt i = w.
  Proof. intros H. unfold wt. eapply nth_error_nth. exact H. Qed.

  Lemma nth_wt i : (i < n)%nat -> nth_error W i = Some (wt i).
  Proof.
    intros H. destruct (nth_error W i) as [w|] eqn:E.
    - rewrite (wt_nth _ _ E). reflexivity.
    - apply nth_error_None in E. unfold n in H. lia.
  Qed.

  Lemma wt_in i : (i < n)%nat -> In (wt i) W.
  Proof. intros H. eapply nth_error_In. apply nth_wt. exact H. Qed.

  Lemma wt_le_mx i : (i < n)%nat -> wt i <= mx.
  Proof. intros H. apply (proj2 (zmax_spec W W_nonempty)). apply wt_in. exact H. Qed.

  Lemma wt_pos i : (i < n)%nat -> 0 < wt i.
  Proof. intros H. rewrite Forall_forall in W_pos. apply W_pos. apply wt_in. exact H. Qed.

  Lemma mx_attained : exists m, (m < n)%nat /\ wt m = mx.
  Proof.
    destruct (In_nth_error _ _ (proj1 (zmax_spec W W_nonempty))) as [m Hm].
    exists m. split.
    - apply nth_error_Some. fold mx in Hm. congruence.
    - apply wt_nth. exact Hm.
  Qed.

  Lemma mx_div : (g | mx).
  Proof. apply g_div. exact (proj1 (zmax_spec W W_nonempty)). Qed.

  Lemma wt_ge_g i : (i < n)%nat -> g <= wt i.
  Proof.
    intros H. apply Z.divide_pos_le; [apply wt_pos; exact H|]. apply g_div. apply wt_in. exact H.
  Qed.

  Lemma len_W : len W = Z.of_nat n.
  Proof. reflexivity. Qed.

  (* ---- one loop iteration ---------------------------------------------- *)
  Definition nextlevel (c0 : Z) : Z := let d := c0 - g in if d <=? 0 then mx else d.

  Lemma zth_nat i : (i < n)%nat -> zth W (Z.of_nat i) = Some (wt i).
  Proof.
    intros H. unfold zth. assert (E : (Z.of_nat i <? 0) = false) by (apply Z.ltb_ge; lia).
    rewrite E, Nat2Z.id. apply nth_wt. exact H.
  Qed.

  Lemma zth_0 : zth W 0 = Some (wt 0).
  Proof. exact (zth_nat O n_pos). Qed.

  Lemma iter_mid j c0 : (1 <= j < n)%nat ->
    wrr_iter c {| wr_index := Z.of_nat j - 1; wr_cw := c0 |} =
    Ok ({| wr_index := Z.of_nat j; wr_cw := c0 |}, wt j >=? c0).
  Proof.
    intros Hj. unfold wrr_iter. cbn [wr_weights wr_index wr_cw wr_gcd wr_max c].
    rewrite len_W. assert (E0 : (Z.of_nat n =? 0) = false) by (apply Z.eqb_neq; lia). rewrite E0.
    replace (Z.of_nat j - 1 + 1) with (Z.of_nat j) by lia.
    rewrite Z.rem_small by lia.
    assert (E1 : (Z.of_nat j =? 0) = false) by (apply Z.eqb_neq; lia). rewrite E1.
    rewrite zth_nat by lia. reflexivity.
  Qed.

  Lemma iter_wrap c0 :
    wrr_iter c {| wr_index := Z.of_nat n - 1; wr_cw := c0 |} =
    Ok ({| wr_index := 0; wr_cw := nextlevel c0 |}, wt 0 >=? nextlevel c0).
  Proof.
    pose proof n_pos as Hn. unfold wrr_iter. cbn [wr_weights wr_index wr_cw wr_gcd wr_max c].
    rewrite len_W. assert (E0 : (Z.of_nat n =? 0) = false) by (apply Z.eqb_neq; lia). rewrite E0.
    replace (Z.of_nat n - 1 + 1) with (Z.of_nat n) by lia.
    rewrite Z.rem_same by lia. cbn [Z.eqb].
    rewrite zth_0. reflexivity.
  Qed.

  Lemma iter_init :
    wrr_iter c {| wr_index := -1; wr_cw := 0 |} = wrr_iter c {| wr_index := Z.of_nat n - 1; wr_cw := g |}.
  Proof.
    pose proof n_pos as Hn. rewrite iter_wrap. unfold wrr_iter. cbn [wr_weights wr_index wr_cw wr_gcd wr_max c].
    rewrite len_W. assert (E0 : (Z.of_nat n =? 0) = false) by (apply Z.eqb_neq; lia). rewrite E0.
    replace (-1 + 1) with 0 by lia. rewrite Z.rem_0_l by lia. cbn [Z.eqb].
    rewrite zth_0.
    unfold nextlevel. replace (g - g) with 0 by lia. cbn [Z.leb Z.compare].
    assert (E : (0 - g <=? 0) = true) by (apply Z.leb_le; lia). rewrite E. reflexivity.
  Qed.

  (* ---- invariant and the loop budget ------------------------------------- *)
  Definition winv (s : wrr_st) : Prop := -1 <= wr_index s < Z.of_nat n /\ wr_cw s <= mx.

  Lemma nextlevel_le c0 : c0 <= mx -> nextlevel c0 <= mx.
  Proof. intros H. unfold nextlevel. cbn zeta. destruct (c0 - g <=? 0); lia. Qed.

  (* the state after one iteration, spelled out *)
  Lemma iter_cases s : winv s ->
    exists s1 b, wrr_iter c s = Ok (s1, b) /\ winv s1 /\ 0 <= wr_index s1 /\
      b = (wt (Z.to_nat (wr_index s1)) >=? wr_cw s1) /\
      wr_index s1 = (if wr_index s =? Z.of_nat n - 1 then 0 else wr_index s + 1).
  Proof.
    intros [Hi Hc]. pose proof n_pos as Hn. destruct s as [idx cw]. cbn [wr_index wr_cw] in *.
    destruct (Z.eq_dec idx (Z.of_nat n - 1)) as [->|Hne].
    - rewrite iter_wrap. eexists _, _. split; [reflexivity|]. unfold winv. cbn [wr_index wr_cw].
      rewrite Z.eqb_refl. split; [split; [lia|apply nextlevel_le; exact Hc]|].
      split; [lia|]. split; reflexivity.
    - assert (E : (idx =? Z.of_nat n - 1) = false) by (apply Z.eqb_neq; exact Hne). rewrite E.
      destruct (Z.eq_dec idx (-1)) as [->|Hne1].
      + (* first iteration of a fresh balancer *)
        unfold wrr_iter. cbn [wr_weights wr_index wr_cw wr_gcd wr_max c].
        rewrite len_W. assert (E0 : (Z.of_nat n =? 0) = false) by (apply Z.eqb_neq; lia). rewrite E0.
        replace (-1 + 1) with 0 by lia. rewrite Z.rem_0_l by lia. cbn [Z.eqb].
        rewrite zth_0.
        eexists _, _. split; [reflexivity|]. unfold winv. cbn [wr_index wr_cw].
        split; [split; [lia|fold (nextlevel cw); apply nextlevel_le; exact Hc]|].
        split; [lia|]. split; reflexivity.
      + set (j := Z.to_nat (idx + 1)).
        assert (Ej : idx = Z.of_nat j - 1) by (unfold j; lia).
        rewrite Ej. rewrite iter_mid by (unfold j; lia).
        eexists _, _. split; [reflexivity|]. unfold winv. cbn [wr_index wr_cw]. rewrite Nat2Z.id.
        split; [split; [lia|exact Hc]|]. split; [lia|]. split; [reflexivity|lia].
  Qed.

  Lemma loop_unfold f s :
    wrr_loop (S f) c s =
    bind (wrr_iter c s) (fun sh =>
      if snd sh then bind (url_at n (wr_index (fst sh))) (fun k => Ok (k, fst sh))
      else wrr_loop f c (fst sh)).
  Proof. reflexivity. Qed.

  (* distance (in iterations) to a server of maximal weight *)
  Definition dist (m : nat) (idx : Z) : Z :=
    if idx <? Z.of_nat m then Z.of_nat m - idx else Z.of_nat n - idx + Z.of_nat m.

  Lemma loop_total_aux m : (m < n)%nat -> wt m = mx ->
    forall d s, winv s -> dist m (wr_index s) = Z.of_nat d -> forall f, (d <= f)%nat ->
    exists k s', wrr_loop f c s = Ok (k, s') /\ (k < n)%nat /\ winv s'.
  Proof.
    intros Hm Hmx. induction d as [|d IH]; intros s Hs Hd f Hf.
    - exfalso. destruct Hs as [Hi _]. unfold dist in Hd.
      destruct (wr_index s <? Z.of_nat m) eqn:E; [apply Z.ltb_lt in E|apply Z.ltb_ge in E]; lia.
    - destruct f as [|f]; [lia|]. rewrite loop_unfold.
      destruct (iter_cases s Hs) as (s1 & b & E & Hs1 & H0 & Hb & Hidx). rewrite E. cbn [bind fst snd].
      destruct b.
      + assert (Hr : 0 <= wr_index s1 < Z.of_nat n) by (destruct Hs1; lia).
        unfold url_at. apply in_range_spec in Hr. rewrite Hr. cbn [bind].
        apply in_range_spec in Hr. exists (Z.to_nat (wr_index s1)), s1. repeat split; try lia; apply Hs1.
      + apply (IH s1 Hs1); [|lia].
        (* the iteration did not return, so it did not stand on m yet *)
        symmetry in Hb. apply geb_false in Hb.
        assert (Hnm : wr_index s1 <> Z.of_nat m).
        { intros Em. rewrite Em, Nat2Z.id, Hmx in Hb. destruct Hs1 as [_ Hc]. lia. }
        destruct Hs as [Hi _]. unfold dist in *.
        destruct (wr_index s =? Z.of_nat n - 1) eqn:Ew; [apply Z.eqb_eq in Ew|apply Z.eqb_neq in Ew].
        * rewrite Hidx in *. revert Hd.
          destruct (Z.ltb_spec (wr_index s) (Z.of_nat m)); destruct (Z.ltb_spec 0 (Z.of_nat m)); intros; lia.
        * rewrite Hidx in *. revert Hd.
          destruct (Z.ltb_spec (wr_index s) (Z.of_nat m));
          destruct (Z.ltb_spec (wr_index s + 1) (Z.of_nat m)); intros; lia.
  Qed.

  (* The loop always returns within n iterations (the budget of the model is n+1), with a
     valid index, and keeps the invariant. *)
  Lemma pick_total s : winv s ->
    exists k s', wrr_pick c s = Ok (k, s') /\ (k < n)%nat /\ winv s'.
  Proof.
    intros Hs. destruct mx_attained as (m & Hm & Hmx).
    assert (Hd : exists d, dist m (wr_index s) = Z.of_nat d /\ (d <= n)%nat).
    { destruct Hs as [Hi _]. unfold dist.
      destruct (wr_index s <? Z.of_nat m) eqn:E; [apply Z.ltb_lt in E|apply Z.ltb_ge in E].
      - exists (Z.to_nat (Z.of_nat m - wr_index s)). lia.
      - exists (Z.to_nat (Z.of_nat n - wr_index s + Z.of_nat m)). lia. }
    destruct Hd as (d & Hd & Hdn).
    unfold wrr_pick. cbn [wr_weights c]. fold n.
    apply (loop_total_aux m Hm Hmx d s Hs Hd). lia.
  Qed.

  Lemma loop_mono : forall f s r, wrr_loop f c s = Ok r -> forall f', (f <= f')%nat -> wrr_loop f' c s = Ok r.
  Proof.
    induction f as [|f IH]; intros s r H f' Hf; [discriminate|].
    destruct f' as [|f']; [lia|]. rewrite loop_unfold in *.
    destruct (wrr_iter c s) as [[s1 b]| | |]; cbn [bind fst snd] in *; try discriminate.
    destruct b; [exact H|]. apply (IH _ _ H). lia.
  Qed.

  (* ---- fuel-free view of one pick and of a run of picks ------------------------ *)
  Inductive reach : wrr_st -> nat -> wrr_st -> Prop :=
  | reach_hit s s1 : wrr_iter c s = Ok (s1, true) -> reach s (Z.to_nat (wr_index s1)) s1
  | reach_miss s s1 k s2 : wrr_iter c s = Ok (s1, false) -> reach s1 k s2 -> reach s k s2.

  Inductive runs : wrr_st -> list nat -> wrr_st -> Prop :=
  | runs_nil s : runs s [] s
  | runs_cons s k s1 l s2 : reach s k s1 -> runs s1 l s2 -> runs s (k :: l) s2.

  Lemma reach_loop s k s2 : winv s -> reach s k s2 -> winv s2 /\ exists F, wrr_loop F c s = Ok (k, s2).
  Proof.
    intros Hs H. induction H as [s s1 E|s s1 k s2 E _ IH].
    - destruct (iter_cases s Hs) as (s1' & b & E' & Hs1 & H0 & _). rewrite E in E'. injection E' as <- <-.
      split; [exact Hs1|]. exists 1%nat. rewrite loop_unfold, E. cbn [bind fst snd].
      unfold url_at. assert (Hr : in_range (Z.of_nat n) (wr_index s1) = true)
        by (apply in_range_spec; destruct Hs1; lia).
      rewrite Hr. reflexivity.
    - destruct (iter_cases s Hs) as (s1' & b & E' & Hs1 & _). rewrite E in E'. injection E' as <- <-.
      destruct (IH Hs1) as [Hs2 [F HF]]. split; [exact Hs2|]. exists (S F).
      rewrite loop_unfold, E. cbn [bind fst snd]. exact HF.
  Qed.

  Lemma reach_pick s k s2 : winv s -> reach s k s2 -> wrr_pick c s = Ok (k, s2) /\ winv s2.
  Proof.
    intros Hs H. destruct (reach_loop s k s2 Hs H) as [Hs2 [F HF]]. split; [|exact Hs2].
    destruct (pick_total s Hs) as (k' & s' & E & _). rewrite E.
    unfold wrr_pick in E.
    pose proof (loop_mono _ _ _ HF (Nat.max F (S (length (wr_weights c)))) ltac:(lia)) as E1.
    pose proof (loop_mono _ _ _ E (Nat.max F (S (length (wr_weights c)))) ltac:(lia)) as E2.
    congruence.
  Qed.

  Lemma runs_run s l s2 : winv s -> runs s l s2 -> wrr_run (length l) c s = Ok (l, s2) /\ winv s2.
  Proof.
    intros Hs H. induction H as [s|s k s1 l s2 Hr _ IH]; unfold wrr_run in *; cbn [length pick_run].
    - split; [reflexivity|exact Hs].
    - destruct (reach_pick s k s1 Hs Hr) as [E Hs1]. rewrite E. cbn [bind fst snd].
      destruct (IH Hs1) as [E2 Hs2]. rewrite E2. cbn [bind fst snd]. split; [reflexivity|exact Hs2].
  Qed.

  Lemma runs_miss s s1 l s2 : wrr_iter c s = Ok (s1, false) -> runs s1 l s2 -> l <> [] -> runs s l s2.
  Proof.
    intros E H Hne. destruct H as [|s1 k s1' l s2 Hr Hl]; [congruence|].
    eapply runs_cons; [|exact Hl]. eapply reach_miss; eauto.
  Qed.

  (* ---- sweeps ---------------------------------------------------------------- *)
  (* the servers selected by the rest of a sweep at level c0, from index j on *)
  Definition sel (j : nat) (c0 : Z) : list nat := filter (fun i => wt i >=? c0) (seq j (n - j)).

  Lemma sel_step j c0 : (j < n)%nat ->
    sel j c0 = if wt j >=? c0 then j :: sel (S j) c0 else sel (S j) c0.
  Proof.
    intros H. unfold sel. replace (n - j)%nat with (S (n - S j)) by lia. cbn [seq filter]. reflexivity.
  Qed.

  Lemma sel_end c0 : sel n c0 = [].
  Proof. unfold sel. rewrite Nat.sub_diag. reflexivity. Qed.

  Lemma sel_in j c0 i : (j <= i < n)%nat -> c0 <= wt i -> In i (sel j c0).
  Proof.
    intros Hi Hw. unfold sel. apply filter_In. split; [apply in_seq; lia|]. apply geb_true. exact Hw.
  Qed.

  Definition st (i : Z) (c0 : Z) : wrr_st := {| wr_index := i; wr_cw := c0 |}.

  Lemma sweep_then : forall d j c0 L sf, (j + d = n)%nat -> (1 <= j)%nat ->
    runs (st (Z.of_nat n - 1) c0) L sf -> L <> [] ->
    runs (st (Z.of_nat j - 1) c0) (sel j c0 ++ L) sf.
  Proof.
    induction d as [|d IH]; intros j c0 L sf Hjd Hj HL Hne.
    - assert (j = n) by lia. subst j. rewrite sel_end. exact HL.
    - assert (Hjn : (j < n)%nat) by lia.
      pose proof (iter_mid j c0 ltac:(lia)) as E.
      specialize (IH (S j) c0 L sf ltac:(lia) ltac:(lia) HL Hne).
      replace (Z.of_nat (S j) - 1) with (Z.of_nat j) in IH by lia.
      rewrite sel_step by exact Hjn. unfold st in *.
      destruct (wt j >=? c0).
      + cbn [app]. eapply runs_cons; [|exact IH].
        pose proof (reach_hit _ _ E) as R. cbn [wr_index] in R. rewrite Nat2Z.id in R. exact R.
      + eapply runs_miss; [exact E|exact IH|]. destruct (sel (S j) c0); [exact Hne|discriminate].
  Qed.

  Lemma sweep_last : forall d j c0, (j + d = n)%nat -> (1 <= j)%nat -> c0 <= wt (n - 1) ->
    runs (st (Z.of_nat j - 1) c0) (sel j c0) (st (Z.of_nat n - 1) c0).
  Proof.
    induction d as [|d IH]; intros j c0 Hjd Hj Hl.
    - assert (j = n) by lia. subst j. rewrite sel_end. apply runs_nil.
    - assert (Hjn : (j < n)%nat) by lia.
      pose proof (iter_mid j c0 ltac:(lia)) as E.
      specialize (IH (S j) c0 ltac:(lia) ltac:(lia) Hl).
      replace (Z.of_nat (S j) - 1) with (Z.of_nat j) in IH by lia.
      rewrite sel_step by exact Hjn. unfold st in *.
      destruct (wt j >=? c0) eqn:Ew.
      + eapply runs_cons; [|exact IH].
        pose proof (reach_hit _ _ E) as R. cbn [wr_index] in R. rewrite Nat2Z.id in R. exact R.
      + eapply runs_miss; [exact E|exact IH|].
        apply geb_false in Ew. assert (Hjl : (S j <= n - 1)%nat).
        { destruct (Nat.eq_dec j (n - 1)) as [->|]; [lia|lia]. }
        intros En. pose proof (sel_in (S j) c0 (n - 1) ltac:(lia) Hl) as Hin. rewrite En in Hin. exact Hin.
  Qed.

  (* from the end of a sweep at level c0 through the whole next sweep at level c1 *)
  Lemma wrap_runs c0 c1 L sf : nextlevel c0 = c1 -> c1 <= mx ->
    runs (st (Z.of_nat 1 - 1) c1) (sel 1 c1 ++ L) sf ->
    runs (st (Z.of_nat n - 1) c0) (sel 0 c1 ++ L) sf.
  Proof.
    intros Hn1 Hc1 H. pose proof n_pos as Hn. pose proof (iter_wrap c0) as E. rewrite Hn1 in E.
    rewrite sel_step by lia. unfold st in *. cbn [Z.of_nat Z.sub Z.add Z.opp Z.pos_sub] in H.
    destruct (wt 0 >=? c1) eqn:Ew.
    - cbn [app]. eapply runs_cons; [|exact H].
      pose proof (reach_hit _ _ E) as R. cbn [wr_index Z.to_nat] in R. exact R.
    - eapply runs_miss; [exact E|exact H|].
      destruct mx_attained as (m & Hm & Hmx).
      pose proof (sel_in 0 c1 m ltac:(lia) ltac:(lia)) as Hin.
      rewrite sel_step in Hin by lia. rewrite Ew in Hin.
      intros En. apply app_eq_nil in En. destruct En as [En _]. rewrite En in Hin. exact Hin.
  Qed.

  (* the levels k*g, (k-1)*g, .., g *)
  Fixpoint lv (k : nat) : list Z :=
    match k with
    | O => []
    | S k' => (Z.of_nat k * g) :: lv k'
    end.

  Lemma multi : forall k c0 j, (1 <= j <= n)%nat -> c0 = (Z.of_nat k + 1) * g -> c0 <= mx ->
    runs (st (Z.of_nat j - 1) c0) (sel j c0 ++ flat_map (sel 0) (lv k)) (st (Z.of_nat n - 1) g).
  Proof.
    pose proof n_pos as Hn.
    induction k as [|k IH]; intros c0 j Hj Hc0 Hle.
    - cbn [lv flat_map]. rewrite app_nil_r. assert (E0 : c0 = g) by lia. clear Hc0. subst c0.
      apply (sweep_last (n - j) j g); [lia|lia|]. apply wt_ge_g. lia.
    - cbn [lv flat_map]. set (c1 := Z.of_nat (S k) * g).
      assert (Hc1 : c1 = (Z.of_nat k + 1) * g) by (unfold c1; lia).
      assert (Hnl : nextlevel c0 = c1).
      { unfold nextlevel. cbn zeta. assert (E : (c0 - g <=? 0) = false) by (apply Z.leb_gt; nia).
        rewrite E. nia. }
      apply (sweep_then (n - j) j c0); [lia|lia| |].
      + apply (wrap_runs c0 c1); [exact Hnl|nia|]. apply IH; [lia|exact Hc1|nia].
      + destruct mx_attained as (m & Hm & Hmx).
        pose proof (sel_in 0 c1 m ltac:(lia) ltac:(nia)) as Hin.
        intros En. apply app_eq_nil in En. destruct En as [En _]. rewrite En in Hin. exact Hin.
  Qed.

  (* number of levels *)
  Definition nlev : nat := Z.to_nat (mx / g).

  Lemma mx_levels : mx = Z.of_nat nlev * g /\ (1 <= nlev)%nat.
  Proof.
    destruct mx_div as [q Hq]. destruct mx_attained as (m & Hm & Hmx).
    pose proof (wt_pos m Hm) as Hp. rewrite Hmx in Hp.
    unfold nlev. rewrite Hq, Z_div_mult by lia. assert (0 < q) by nia. split; [rewrite Z2Nat.id; lia|lia].
  Qed.

  Definition period : list nat := flat_map (sel 0) (lv nlev).

  Definition boundary : wrr_st := st (Z.of_nat n - 1) g.

  Lemma boundary_inv : winv boundary.
  Proof.
    pose proof n_pos. destruct mx_levels as [E Hl]. unfold winv, boundary, st. cbn [wr_index wr_cw]. split; [lia|nia].
  Qed.

  Lemma period_runs : runs boundary period boundary.
  Proof.
    pose proof n_pos as Hn. destruct mx_levels as [E Hl]. unfold period, boundary.
    destruct nlev as [|k] eqn:Ek; [lia|]. cbn [lv flat_map].
    rewrite <- E.
    apply (wrap_runs g mx).
    - unfold nextlevel. cbn zeta. replace (g - g) with 0 by lia. reflexivity.
    - lia.
    - apply multi; [lia|lia|lia].
  Qed.

  (* ---- counting ---------------------------------------------------------------- *)
  Lemma count_sel i c0 : (i < n)%nat -> count i (sel 0 c0) = if wt i >=? c0 then 1 else 0.
  Proof.
    intros Hi. unfold sel. rewrite count_filter. destruct (wt i >=? c0); [|reflexivity].
    apply (proj1 (count_seq i (n - 0) O)). lia.
  Qed.

  Lemma count_levels i a : (i < n)%nat -> wt i = a * g -> 0 <= a ->
    forall k, count i (flat_map (sel 0) (lv k)) = Z.min a (Z.of_nat k).
  Proof.
    intros Hi Hw Ha. induction k as [|k IH].
    - cbn [lv flat_map]. rewrite count_nil. lia.
    - cbn [lv flat_map]. rewrite count_app, IH, count_sel by exact Hi. rewrite Hw.
      destruct (a * g >=? Z.of_nat (S k) * g) eqn:E; [apply geb_true in E|apply geb_false in E].
      + apply Z.mul_le_mono_pos_r in E; [|exact g_pos]. lia.
      + apply Z.mul_lt_mono_pos_r in E; [|exact g_pos]. lia.
  Qed.

  Lemma count_period i : (i < n)%nat -> count i period = wt i / g.
  Proof.
    intros Hi. destruct (g_div (wt i) (wt_in i Hi)) as [a Ha].
    pose proof (wt_pos i Hi) as Hp. pose proof (wt_le_mx i Hi) as Hle.
    destruct mx_levels as [E _]. assert (0 < a) by nia.
    unfold period. rewrite (count_levels i a Hi Ha ltac:(lia)).
    rewrite Ha, Z_div_mult by lia.
    assert (a <= Z.of_nat nlev). { apply (Z.mul_le_mono_pos_r _ _ g); [exact g_pos|]. lia. }
    lia.
  Qed.

  (* ---- the length of the period is sum(w)/g -------------------------------------- *)
  Lemma length_filter_nth (f : Z -> bool) : forall (ws : list Z) a,
    length (filter (fun i => f (nth (i - a) ws 0)) (seq a (length ws))) = length (filter f ws).
  Proof.
    induction ws as [|w ws IH]; intros a; [reflexivity|].
    cbn [length seq filter].
    replace (nth (a - a) (w :: ws) 0) with w by (rewrite Nat.sub_diag; reflexivity).
    assert (E : filter (fun i => f (nth (i - a) (w :: ws) 0)) (seq (S a) (length ws)) =
                filter (fun i => f (nth (i - S a) ws 0)) (seq (S a) (length ws))).
    { apply filter_ext_in. intros i Hi. apply in_seq in Hi.
      replace (i - a)%nat with (S (i - S a)) by lia. reflexivity. }
    destruct (f w); cbn [length]; rewrite E, IH; reflexivity.
  Qed.

  Definition cntge (c0 : Z) (ws : list Z) : Z := Z.of_nat (length (filter (fun w => w >=? c0) ws)).

  Lemma length_sel c0 : Z.of_nat (length (sel 0 c0)) = cntge c0 W.
  Proof.
    unfold sel, cntge. rewrite Nat.sub_0_r. f_equal.
    pose proof (length_filter_nth (fun w => w >=? c0) W O) as H.
    rewrite <- H. fold n. f_equal. apply filter_ext. intros i. unfold wt. rewrite Nat.sub_0_r. reflexivity.
  Qed.

  Fixpoint tot (k : nat) (ws : list Z) : Z :=
    match k with
    | O => 0
    | S k' => cntge (Z.of_nat k * g) ws + tot k' ws
    end.

  Lemma length_levels k : Z.of_nat (length (flat_map (sel 0) (lv k))) = tot k W.
  Proof.
    induction k as [|k IH]; [reflexivity|].
    cbn [lv flat_map tot]. rewrite app_length, Nat2Z.inj_add, IH, length_sel. reflexivity.
  Qed.

  Lemma tot_cons w ws a : w = a * g -> 0 <= a ->
    forall k, tot k (w :: ws) = Z.min a (Z.of_nat k) + tot k ws.
  Proof.
    intros Hw Ha. induction k as [|k IH]; [cbn; lia|].
    cbn [tot]. rewrite IH. unfold cntge. cbn [filter]. rewrite Hw.
    destruct (a * g >=? Z.of_nat (S k) * g) eqn:E; [apply geb_true in E|apply geb_false in E].
    - apply Z.mul_le_mono_pos_r in E; [|exact g_pos]. cbn [length]. lia.
    - apply Z.mul_lt_mono_pos_r in E; [|exact g_pos]. lia.
  Qed.

  Lemma tot_sum k : forall ws, Forall (fun w => (g | w) /\ 0 <= w <= Z.of_nat k * g) ws ->
    tot k ws = lsum ws / g.
  Proof.
    induction ws as [|w ws IH]; intros H.
    - unfold lsum. cbn [fold_right]. rewrite Zdiv_0_l. clear.
      induction k as [|k IHk]; cbn [tot]; [reflexivity|]. rewrite IHk. reflexivity.
    - inversion H as [|? ? [[a Ha] Hb] Hws]; subst.
      assert (0 <= a) by nia.
      rewrite (tot_cons _ ws a eq_refl) by lia. rewrite (IH Hws).
      unfold lsum. cbn [fold_right]. fold (lsum ws).
      rewrite Z.div_add_l by lia.
      assert (a <= Z.of_nat k). { apply (Z.mul_le_mono_pos_r _ _ g); [exact g_pos|]. lia. }
      lia.
  Qed.

  Lemma length_period : Z.of_nat (length period) = lsum W / g.
  Proof.
    unfold period. rewrite length_levels. apply tot_sum.
    destruct mx_levels as [E _]. rewrite <- E. apply Forall_forall. intros w Hw.
    split; [apply g_div; exact Hw|]. rewrite Forall_forall in W_pos.
    split; [specialize (W_pos w Hw); lia|]. apply (proj2 (zmax_spec W W_nonempty)). exact Hw.
  Qed.

  (* ---- the cycle, as a statement about wrr_run ------------------------------------ *)
  Definition cyc : nat := Z.to_nat (lsum W / g).

  Lemma cyc_length : length period = cyc.
  Proof. unfold cyc. rewrite <- length_period. lia. Qed.

  Lemma cycle_from_boundary : wrr_run cyc c boundary = Ok (period, boundary).
  Proof.
    rewrite <- cyc_length. exact (proj1 (runs_run _ _ _ boundary_inv period_runs)).
  Qed.

  Definition init : wrr_st := {| wr_index := -1; wr_cw := 0 |}.

  Lemma init_inv : winv init.
  Proof.
    destruct mx_attained as (m & Hm & Hmx). pose proof (wt_pos m Hm). unfold winv, init. cbn. lia.
  Qed.

  Lemma pick_init : wrr_pick c init = wrr_pick c boundary.
  Proof.
    unfold wrr_pick. rewrite !loop_unfold. unfold init, boundary, st. rewrite iter_init. reflexivity.
  Qed.

  Lemma run_init k : (1 <= k)%nat -> wrr_run k c init = wrr_run k c boundary.
  Proof.
    intros Hk. destruct k as [|k]; [lia|]. unfold wrr_run. cbn [pick_run]. rewrite pick_init. reflexivity.
  Qed.

  Lemma cyc_pos : (1 <= cyc)%nat.
  Proof.
    rewrite <- cyc_length. destruct mx_levels as [E Hl]. unfold period.
    destruct nlev as [|k]; [lia|]. cbn [lv flat_map]. rewrite app_length.
    destruct mx_attained as (m & Hm & Hmx).
    pose proof (sel_in 0 (Z.of_nat (S k) * g) m ltac:(lia) ltac:(lia)) as Hin.
    destruct (sel 0 (Z.of_nat (S k) * g)); [destruct Hin|cbn; lia].
  Qed.

  Lemma run_total k s : winv s -> exists l s', wrr_run k c s = Ok (l, s') /\ winv s' /\
    Forall (fun i => (i < n)%nat) l.
  Proof.
    intros Hs. destruct (pick_run_total (wrr_pick c) winv n pick_total k s Hs) as (l & s' & E & Hs' & _ & Hall).
    exists l, s'. auto.
  Qed.

  (* From the state reached after any number a of calls, the next sum(w)/g calls go to server
     i exactly w_i/g times; after the first call the balancer is moreover back in the same
     state at the end of the window. *)
  Lemma cycle_any_window a :
    exists l1 s1 l2 s2, wrr_run a c init = Ok (l1, s1) /\ wrr_run cyc c s1 = Ok (l2, s2) /\
      (forall i, (i < n)%nat -> count i l2 = wt i / g) /\ ((1 <= a)%nat -> s2 = s1).
  Proof.
    destruct a as [|a].
    - exists [], init, period, boundary. split; [reflexivity|].
      split; [rewrite run_init by exact cyc_pos; exact cycle_from_boundary|].
      split; [intros i Hi; apply count_period; exact Hi|lia].
    - destruct (run_total (S a) boundary boundary_inv) as (l1 & s1 & E1 & _ & _).
      pose proof (periodic_window (fun k s => wrr_run k c s)
                    (fun x y s => pick_run_add (wrr_pick c) x y s) cyc boundary period
                    cycle_from_boundary (S a) l1 s1 E1) as (l2 & E2 & Hc).
      exists l1, s1, l2, s1. split; [rewrite run_init by lia; exact E1|]. split; [exact E2|].
      split; [|reflexivity]. intros i Hi. rewrite Hc. apply count_period. exact Hi.
  Qed.
End WRR.

(* ---- packaged for a balancer built by the constructor ------------------------------ *)
Lemma wrr_new_ok ws : ws <> [] -> Forall (fun w => 0 < w) ws ->
  wrr_new ws = Ok ({| wr_weights := ws; wr_max := zmax ws; wr_gcd := lgcd ws |}, {| wr_index := -1; wr_cw := 0 |}).
Proof.
  intros Hne Hpos. unfold wrr_new. rewrite mk_weighted_pos by exact Hpos. cbn [bind].
  rewrite zgcd_spec; [reflexivity|]. eapply Forall_impl; [|exact Hpos]. cbn. intros; lia.
Qed.

Lemma wrr_new_inv ws c s : wrr_new ws = Ok (c, s) ->
  Forall (fun w => 0 < w) ws /\ c = {| wr_weights := ws; wr_max := zmax ws; wr_gcd := lgcd ws |} /\
  s = {| wr_index := -1; wr_cw := 0 |}.
Proof.
  unfold wrr_new. intros H. apply bind_ok in H. destruct H as (w & Hw & H).
  apply mk_weighted_ok in Hw. destruct Hw as [-> Hpos].
  rewrite zgcd_spec in H by (eapply Forall_impl; [|exact Hpos]; cbn; intros; lia).
  cbn [bind] in H. injection H as <- <-. auto.
Qed.

Lemma wrr_history_valid ws c s0 : ws <> [] -> wrr_new ws = Ok (c, s0) -> forall h,
  match run (wrr_machine c) s0 [] h with
  | Ok (ps, _) => Forall (fun i => (i < length ws)%nat) ps
  | BadScript => True
  | _ => False
  end.
Proof.
  intros Hne Hnew h. apply wrr_new_inv in Hnew. destruct Hnew as (Hpos & -> & ->).
  pose proof (lgcd_pos ws Hne Hpos) as Hg.
  pose proof (fun w (Hw : In w ws) => lgcd_divides ws w Hw) as Hd.
  pose proof (run_safe (wrr_machine {| wr_weights := ws; wr_max := zmax ws; wr_gcd := lgcd ws |})
                (fun s _ => winv ws s) (length ws)) as R.
  specialize (R ltac:(
    intros s calls r HI; cbn [m_pick wrr_machine];
    destruct (pick_total ws (lgcd ws) Hne Hpos Hg Hd s HI) as (k & s' & E & Hk & HI');
    rewrite E; split; assumption)).
  specialize (R ltac:(intros s calls k i o HI _; cbn [m_settle wrr_machine]; exact HI)).
  specialize (R h _ [] (init_inv ws Hne Hpos)).
  unfold init in R.
  destruct (run _ _ [] h) as [[ps [s' c']]| | |]; try exact R. destruct R as [R _]. exact R.
Qed.
