(* Proofs about Model/Wire.v: the reader inverts the printer, for every wire tree. *)
From Coq Require Import List Arith NArith ZArith Lia Strings.Byte Bool.
From Coq Require Import ZifyN ZifyNat ZifyBool.
From HV Require Import Lib.Dec Lib.Utf8 Model.Wire.
Import ListNotations.
Open Scope N_scope.

(* ---------- small reader lemmas ---------- *)

Lemma expect_same b r : expect b (b :: r) = Some r.
Proof. cbn. replace (Byte.eqb b b) with true; auto. symmetry. apply Byte.byte_dec_lb. reflexivity. Qed.

Lemma take_app {A} (a b : list A) : take (length a) (a ++ b) = Some (a, b).
Proof. induction a as [|x a IH]; cbn; auto. rewrite IH. reflexivity. Qed.

Lemma scan_count n c rest : digit_val c = None -> scan (emit_count n ++ c :: rest) 0 = (n, c :: rest).
Proof.
  intros Hc. unfold emit_count. destruct (N.eqb_spec n 0) as [->|Hn].
  - cbn. rewrite Hc. reflexivity.
  - apply scan_to_dec; auto.
Qed.

Lemma elems_with_mono {A} (p q : bytes -> option (A * bytes)) :
  (forall l r, p l = Some r -> q l = Some r) ->
  forall k l res, elems_with p k l = Some res -> elems_with q k l = Some res.
Proof.
  intros Hpq. induction k as [|k IH]; intros l res H; cbn [elems_with] in *; auto.
  destruct (p l) as [[w l']|] eqn:Ep; [|discriminate]. rewrite (Hpq _ _ Ep).
  destruct (elems_with p k l') as [[ws l'']|] eqn:Ee; [|discriminate]. rewrite (IH _ _ Ee). exact H.
Qed.

Lemma elems_until_mono {A} (p q : bytes -> option (A * bytes)) :
  (forall l r, p l = Some r -> q l = Some r) ->
  forall f l res, elems_until p f l = Some res -> forall f', (f <= f')%nat -> elems_until q f' l = Some res.
Proof.
  intros Hpq. induction f as [|f IH]; intros l res H f' Hle.
  - destruct l as [|x l]; [discriminate|]. cbn [elems_until] in *.
    destruct (Byte.eqb x b_close) eqn:E; [|discriminate]. destruct f'; cbn [elems_until]; rewrite E; exact H.
  - destruct l as [|x l]; [discriminate|]. destruct f' as [|f']; [lia|]. cbn [elems_until] in *.
    destruct (Byte.eqb x b_close); [exact H|].
    destruct (p (x :: l)) as [[w l']|] eqn:Ep; [|discriminate]. rewrite (Hpq _ _ Ep).
    destruct (elems_until p f l') as [[ws l'']|] eqn:Ee; [|discriminate].
    rewrite (IH _ _ Ee f') by lia. exact H.
Qed.

Lemma parse_mono : forall f l r, parse f l = Some r -> forall f', (f <= f')%nat -> parse f' l = Some r.
Proof.
  induction f as [|f IH]; intros l r H f' Hle; [cbn in H; discriminate|].
  destruct f' as [|f']; [lia|].
  assert (IH' : forall l r, parse f l = Some r -> parse f' l = Some r)
    by (intros l0 r0 H0; apply (IH l0 r0 H0 f'); lia).
  cbn [parse] in *. destruct l as [|t l]; [discriminate|].
  destruct (digit_val t); [exact H|].
  destruct (Byte.eqb t b_n); [exact H|]. destruct (Byte.eqb t b_e); [exact H|].
  destruct (Byte.eqb t b_t); [exact H|]. destruct (Byte.eqb t b_f); [exact H|].
  destruct (Byte.eqb t b_N); [exact H|]. destruct (Byte.eqb t b_I); [exact H|].
  destruct (Byte.eqb t b_i); [exact H|]. destruct (Byte.eqb t b_l); [exact H|].
  destruct (Byte.eqb t b_d); [exact H|]. destruct (Byte.eqb t b_u); [exact H|].
  destruct (Byte.eqb t b_s); [exact H|]. destruct (Byte.eqb t b_b); [exact H|].
  destruct (Byte.eqb t b_g); [exact H|]. destruct (Byte.eqb t b_D); [exact H|].
  destruct (Byte.eqb t b_T); [exact H|].
  destruct (Byte.eqb t b_a).
  { destruct (scan l 0) as [n r1]. destruct (expect b_open r1) as [r2|]; [|discriminate].
    destruct (elems_with (parse f) (N.to_nat n) r2) as [[ws r3]|] eqn:Ee; [|discriminate].
    rewrite (elems_with_mono _ _ IH' _ _ _ Ee). exact H. }
  destruct (Byte.eqb t b_m).
  { destruct (scan l 0) as [n r1]. destruct (expect b_open r1) as [r2|]; [|discriminate].
    destruct (elems_with (parse f) (N.to_nat (2 * n)) r2) as [[ws r3]|] eqn:Ee; [|discriminate].
    rewrite (elems_with_mono _ _ IH' _ _ _ Ee). exact H. }
  destruct (Byte.eqb t b_c).
  { destruct (read_string_body l) as [[name r1]|]; [|discriminate].
    destruct (scan r1 0) as [n r2]. destruct (expect b_open r2) as [r3|]; [|discriminate].
    destruct (elems_with read_field (N.to_nat n) r3) as [[fields r4]|]; [|discriminate].
    destruct (expect b_close r4) as [r5|]; [|discriminate].
    destruct (parse f r5) as [[next r6]|] eqn:Ep; [|discriminate].
    rewrite (IH' _ _ Ep). exact H. }
  destruct (Byte.eqb t b_o).
  { destruct l as [|x l']; [discriminate|]. destruct (is_digit x); [|discriminate].
    destruct (scan (x :: l') 0) as [k r1]. destruct (expect b_open r1) as [r2|]; [|discriminate].
    destruct (elems_until (parse f) f r2) as [[ws r3]|] eqn:Ee; [|discriminate].
    rewrite (elems_until_mono _ _ IH' _ _ _ Ee f') by lia. exact H. }
  destruct (Byte.eqb t b_r); [exact H|].
  destruct (Byte.eqb t b_E); [|discriminate].
  destruct (parse f l) as [[w r1]|] eqn:Ep; [|discriminate]. rewrite (IH' _ _ Ep). exact H.
Qed.

(* ---------- one-step unfoldings per tag (closed computations on the tag byte) ---------- *)

Lemma parse_n f r : parse (S f) (b_n :: r) = Some (WNull, r). Proof. reflexivity. Qed.
Lemma parse_e f r : parse (S f) (b_e :: r) = Some (WEmpty, r). Proof. reflexivity. Qed.
Lemma parse_t f r : parse (S f) (b_t :: r) = Some (WTrue, r). Proof. reflexivity. Qed.
Lemma parse_f f r : parse (S f) (b_f :: r) = Some (WFalse, r). Proof. reflexivity. Qed.
Lemma parse_N f r : parse (S f) (b_N :: r) = Some (WNaN, r). Proof. reflexivity. Qed.
Lemma parse_Ip f r : parse (S f) (b_I :: b_plus :: r) = Some (WInf false, r). Proof. reflexivity. Qed.
Lemma parse_Im f r : parse (S f) (b_I :: b_minus :: r) = Some (WInf true, r). Proof. reflexivity. Qed.
Lemma parse_i f r : parse (S f) (b_i :: r) =
  match scanZ r with
  | Some (z, r1) => match expect b_semi r1 with Some r2 => Some (WInt z, r2) | None => None end
  | None => None end.
Proof. reflexivity. Qed.
Lemma parse_l f r : parse (S f) (b_l :: r) =
  match scanZ r with
  | Some (z, r1) => match expect b_semi r1 with Some r2 => Some (WLong z, r2) | None => None end
  | None => None end.
Proof. reflexivity. Qed.
Lemma parse_d f r : parse (S f) (b_d :: r) =
  let '(txt, r1) := span_until b_semi r in
  if float_syntax txt then
    match expect b_semi r1 with Some r2 => Some (WDouble txt, r2) | None => None end
  else None.
Proof. reflexivity. Qed.
Lemma parse_u f r : parse (S f) (b_u :: r) =
  match next_char r with
  | Some (c, u, r1) => if u =? 1 then Some (WChar c, r1) else None
  | None => None end.
Proof. reflexivity. Qed.
Lemma parse_s f r : parse (S f) (b_s :: r) =
  match read_string_body r with Some (s, r1) => Some (WStr s, r1) | None => None end.
Proof. reflexivity. Qed.
Lemma parse_b f r : parse (S f) (b_b :: r) =
  let '(n, r1) := scan r 0 in
  match expect b_q r1 with
  | Some r2 =>
      match take (N.to_nat n) r2 with
      | Some (body, r3) => match expect b_q r3 with Some r4 => Some (WBytes body, r4) | None => None end
      | None => None end
  | None => None end.
Proof. reflexivity. Qed.
Lemma parse_g f r : parse (S f) (b_g :: r) =
  match expect b_open r with
  | Some r1 =>
      match take 36 r1 with
      | Some (g, r2) =>
          if guid_ok g then match expect b_close r2 with Some r3 => Some (WGuid g, r3) | None => None end
          else None
      | None => None end
  | None => None end.
Proof. reflexivity. Qed.
Lemma parse_D f r : parse (S f) (b_D :: r) =
  match read_fixed 4 r 0 with
  | Some (y, r1) =>
      match read_fixed 2 r1 0 with
      | Some (mo, r2) =>
          match read_fixed 2 r2 0 with
          | Some (d, r3) =>
              match r3 with
              | x :: r4 =>
                  if Byte.eqb x b_T then
                    match read_time_body r4 with
                    | Some (h, mi, s, fr, r5) =>
                        match read_zone r5 with
                        | Some (utc, r6) => Some (WDate y mo d (Some (h, mi, s, fr)) utc, r6)
                        | None => None end
                    | None => None end
                  else
                    match read_zone r3 with
                    | Some (utc, r6) => Some (WDate y mo d None utc, r6)
                    | None => None end
              | [] => None end
          | None => None end
      | None => None end
  | None => None end.
Proof. reflexivity. Qed.
Lemma parse_T f r : parse (S f) (b_T :: r) =
  match read_time_body r with
  | Some (h, mi, s, fr, r5) =>
      match read_zone r5 with
      | Some (utc, r6) => Some (WTime h mi s fr utc, r6)
      | None => None end
  | None => None end.
Proof. reflexivity. Qed.
Lemma parse_a f r : parse (S f) (b_a :: r) =
  let '(n, r1) := scan r 0 in
  match expect b_open r1 with
  | Some r2 =>
      match elems_with (parse f) (N.to_nat n) r2 with
      | Some (ws, r3) => match expect b_close r3 with Some r4 => Some (WList ws, r4) | None => None end
      | None => None end
  | None => None end.
Proof. reflexivity. Qed.
Lemma parse_m f r : parse (S f) (b_m :: r) =
  let '(n, r1) := scan r 0 in
  match expect b_open r1 with
  | Some r2 =>
      match elems_with (parse f) (N.to_nat (2 * n)) r2 with
      | Some (ws, r3) => match expect b_close r3 with Some r4 => Some (WMap ws, r4) | None => None end
      | None => None end
  | None => None end.
Proof. reflexivity. Qed.
Lemma parse_c f r : parse (S f) (b_c :: r) =
  match read_string_body r with
  | Some (name, r1) =>
      let '(n, r2) := scan r1 0 in
      match expect b_open r2 with
      | Some r3 =>
          match elems_with read_field (N.to_nat n) r3 with
          | Some (fields, r4) =>
              match expect b_close r4 with
              | Some r5 =>
                  match parse f r5 with
                  | Some (next, r6) => Some (WClass name fields next, r6)
                  | None => None end
              | None => None end
          | None => None end
      | None => None end
  | None => None end.
Proof. reflexivity. Qed.
Lemma parse_o f r : parse (S f) (b_o :: r) =
  match r with
  | x :: _ =>
      if is_digit x then
        let '(k, r1) := scan r 0 in
        match expect b_open r1 with
        | Some r2 =>
            match elems_until (parse f) f r2 with
            | Some (ws, r3) => match expect b_close r3 with Some r4 => Some (WObj k ws, r4) | None => None end
            | None => None end
        | None => None end
      else None
  | [] => None end.
Proof. reflexivity. Qed.
Lemma parse_r f r : parse (S f) (b_r :: r) =
  match r with
  | x :: _ =>
      if is_digit x then
        let '(k, r1) := scan r 0 in
        match expect b_semi r1 with Some r2 => Some (WRef k, r2) | None => None end
      else None
  | [] => None end.
Proof. reflexivity. Qed.
Lemma parse_E f r : parse (S f) (b_E :: r) =
  match parse f r with Some (w, r1) => Some (WErr w, r1) | None => None end.
Proof. reflexivity. Qed.

Lemma parse_digit f d r : d < 10 -> parse (S f) (digit_of d :: r) = Some (WDigit d, r).
Proof. intros H. cbn [parse]. rewrite digit_val_of by exact H. reflexivity. Qed.

(* ---------- strings ---------- *)

Lemma strict_chars s : strict_utf8 s = true -> exists cs, str_chars s = Some cs /\ valid_chars cs /\ cat cs = s.
Proof.
  unfold strict_utf8. destruct (str_chars s) as [cs|] eqn:E; [|discriminate]. intros _.
  exists cs. split; [reflexivity|]. apply (chars_sound _ _ _ E).
Qed.

Lemma read_string_body_emit s rest : strict_utf8 s = true ->
  read_string_body (emit_binary (str_len s) s ++ rest) = Some (s, rest).
Proof.
  intros Hs. destruct (strict_chars s Hs) as (cs & Hcs & Hv & Hcat).
  unfold read_string_body, emit_binary, str_len. rewrite (go_utf16Length_strict s cs Hcs).
  rewrite N2Z.id. rewrite <- app_assoc. cbn [app]. rewrite scan_count by reflexivity.
  rewrite expect_same. rewrite <- app_assoc. cbn [app]. rewrite <- Hcat.
  rewrite (take_units_cat cs Hv (b_q :: rest)). rewrite expect_same. reflexivity.
Qed.

Lemma read_field_emit s rest : strict_utf8 s = true ->
  read_field (emit_field s ++ rest) = Some (s, rest).
Proof.
  intros Hs. unfold read_field, emit_field. cbn [app]. rewrite expect_same.
  apply read_string_body_emit; exact Hs.
Qed.

Lemma fields_emit fs : forallb strict_utf8 fs = true -> forall rest,
  elems_with read_field (length fs) (flat_map emit_field fs ++ rest) = Some (fs, rest).
Proof.
  induction fs as [|s fs IH]; intros H rest; [reflexivity|].
  cbn [forallb] in H. apply andb_prop in H. destruct H as [Hs Hfs].
  cbn [length flat_map elems_with]. rewrite <- app_assoc. rewrite (read_field_emit s _ Hs).
  rewrite (IH Hfs). reflexivity.
Qed.

(* ---------- double text ---------- *)

Lemma span_until_no b txt rest : forallb (fun x => negb (Byte.eqb x b)) txt = true ->
  span_until b (txt ++ b :: rest) = (txt, b :: rest).
Proof.
  induction txt as [|x txt IH]; intros H.
  - cbn. replace (Byte.eqb b b) with true; [reflexivity|]. symmetry. apply Byte.byte_dec_lb. reflexivity.
  - cbn [forallb] in H. apply andb_prop in H. destruct H as [Hx Ht]. cbn [app span_until].
    destruct (Byte.eqb x b); [discriminate|]. rewrite (IH Ht). reflexivity.
Qed.

(* ---------- times ---------- *)

Lemma is_digit_digit_of d : d < 10 -> is_digit (digit_of d) = true.
Proof. intros H. unfold is_digit. rewrite digit_val_of; auto. Qed.

Lemma starts_digit_fixed3 g r : starts_digit (to_fixed 3 g ++ r) = true.
Proof.
  unfold to_fixed. cbn [fixed_digits app map starts_digit].
  apply is_digit_digit_of. apply N.mod_lt. lia.
Qed.

Definition not_digit_head (l : bytes) : Prop := starts_digit l = false.

Lemma read_frac_emit fr rest :
  (length fr <= 3)%nat -> forallb (fun g => g <? 1000) fr = true ->
  not_digit_head rest -> match rest with x :: _ => Byte.eqb x b_dot = false | [] => True end ->
  read_frac (match fr with [] => [] | _ => b_dot :: flat_map (to_fixed 3) fr end ++ rest) = Some (fr, rest).
Proof.
  unfold not_digit_head. intros Hlen Hok Hnd Hndot.
  assert (R : forall g r, g <? 1000 = true -> read_fixed 3 (to_fixed 3 g ++ r) 0 = Some (g, r)).
  { intros g r Hg. apply (read_to_fixed 3 g r). change (10 ^ N.of_nat 3) with 1000. lia. }
  destruct fr as [|g1 [|g2 [|g3 [|g4 fr]]]]; cbn [length] in Hlen; try lia.
  - cbn [app]. unfold read_frac. destruct rest as [|x rest]; [reflexivity|]. rewrite Hndot. reflexivity.
  - cbn [forallb] in Hok. apply andb_prop in Hok. destruct Hok as [H1 _].
    cbn [flat_map app]. rewrite app_nil_r. unfold read_frac. change (Byte.eqb b_dot b_dot) with true. cbn iota.
    rewrite (R g1 rest H1). rewrite Hnd. reflexivity.
  - cbn [forallb] in Hok. apply andb_prop in Hok. destruct Hok as [H1 Hok].
    apply andb_prop in Hok. destruct Hok as [H2 _].
    cbn [flat_map app]. rewrite app_nil_r. unfold read_frac. change (Byte.eqb b_dot b_dot) with true. cbn iota.
    rewrite <- app_assoc. rewrite (R g1 _ H1). rewrite starts_digit_fixed3.
    rewrite (R g2 rest H2). rewrite Hnd. reflexivity.
  - cbn [forallb] in Hok. apply andb_prop in Hok. destruct Hok as [H1 Hok].
    apply andb_prop in Hok. destruct Hok as [H2 Hok]. apply andb_prop in Hok. destruct Hok as [H3 _].
    cbn [flat_map app]. rewrite app_nil_r. unfold read_frac. change (Byte.eqb b_dot b_dot) with true. cbn iota.
    rewrite <- !app_assoc. rewrite (R g1 _ H1). rewrite starts_digit_fixed3.
    rewrite (R g2 _ H2). rewrite starts_digit_fixed3. rewrite (R g3 rest H3). reflexivity.
Qed.

Lemma read_time_body_emit h mi s fr rest :
  time_ok h mi s fr = true ->
  not_digit_head rest -> match rest with x :: _ => Byte.eqb x b_dot = false | [] => True end ->
  read_time_body (emit_time_body h mi s fr ++ rest) = Some (h, mi, s, fr, rest).
Proof.
  unfold time_ok. intros Hok Hnd Hndot.
  repeat (apply andb_prop in Hok; destruct Hok as [Hok ?]).
  unfold read_time_body, emit_time_body. rewrite <- !app_assoc.
  rewrite (read_to_fixed 2 h) by (change (10 ^ N.of_nat 2) with 100; lia).
  rewrite (read_to_fixed 2 mi) by (change (10 ^ N.of_nat 2) with 100; lia).
  rewrite (read_to_fixed 2 s) by (change (10 ^ N.of_nat 2) with 100; lia).
  rewrite read_frac_emit; auto. apply Nat.leb_le; auto.
Qed.

Lemma read_zone_emit (utc : bool) rest : read_zone ((if utc then b_Z else b_semi) :: rest) = Some (utc, rest).
Proof. destruct utc; reflexivity. Qed.

(* ---------- every emission starts with a byte that is not '}' ---------- *)

Lemma emit_head w : exists t r, emit w = t :: r /\ Byte.eqb t b_close = false.
Proof.
  destruct w; cbn [emit]; try (eexists; eexists; split; [reflexivity|reflexivity]).
  (* digit *)
  - exists (digit_of d), []. split; [reflexivity|].
    unfold digit_of. destruct (Byte.of_N (48 + d mod 10)) as [b|] eqn:E; [|reflexivity].
    destruct (Byte.eqb b b_close) eqn:Eb; [|reflexivity].
    apply Byte.byte_dec_bl in Eb. subst b.
    apply Byte.to_of_N in E. change (to_N b_close) with 125 in E. pose proof (N.mod_lt d 10). lia.
Qed.

(* ---------- nested induction principle ---------- *)

Lemma wire_ind' (P : wire -> Prop) :
  P WNull -> P WEmpty -> P WTrue -> P WFalse -> P WNaN -> (forall n, P (WInf n)) ->
  (forall d, P (WDigit d)) -> (forall z, P (WInt z)) -> (forall z, P (WLong z)) ->
  (forall t, P (WDouble t)) -> (forall c, P (WChar c)) -> (forall s, P (WStr s)) ->
  (forall b, P (WBytes b)) -> (forall g, P (WGuid g)) ->
  (forall y mo d tm utc, P (WDate y mo d tm utc)) -> (forall h mi s fr utc, P (WTime h mi s fr utc)) ->
  (forall ws, Forall P ws -> P (WList ws)) -> (forall ws, Forall P ws -> P (WMap ws)) ->
  (forall name fields next, P next -> P (WClass name fields next)) ->
  (forall k ws, Forall P ws -> P (WObj k ws)) -> (forall k, P (WRef k)) ->
  (forall w, P w -> P (WErr w)) -> forall w, P w.
Proof.
  intros H1 H2 H3 H4 H5 H6 H7 H8 H9 H10 H11 H12 H13 H14 H15 H16 Hl Hm Hc Ho Hr He.
  fix IH 1. intros w. destruct w; try (solve [clear IH; auto]).
  - apply Hl. induction ws as [|w ws IHws]; constructor; [apply IH|exact IHws].
  - apply Hm. induction kvs as [|w ws IHws]; constructor; [apply IH|exact IHws].
  - apply Hc. apply IH.
  - apply Ho. induction ws as [|w ws IHws]; constructor; [apply IH|exact IHws].
  - apply He. apply IH.
Qed.

Definition list_size (ws : list wire) : nat := fold_right (fun w a => (wsize w + a)%nat) O ws.

Lemma elems_with_emit ws :
  Forall (fun w => tok_ok w = true -> forall rest, parse (wsize w) (emit w ++ rest) = Some (w, rest)) ws ->
  forallb tok_ok ws = true ->
  forall f, (list_size ws <= f)%nat -> forall tl,
  elems_with (parse f) (length ws) (flat_map emit ws ++ tl) = Some (ws, tl).
Proof.
  induction 1 as [|w ws Hw Hws IHws]; intros Hok f Hf tl; cbn [elems_with length flat_map]; auto.
  cbn [forallb] in Hok. apply andb_prop in Hok. destruct Hok as [Hwok Hwsok].
  rewrite <- app_assoc. unfold list_size in Hf; cbn [fold_right] in Hf; fold (list_size ws) in Hf.
  rewrite (parse_mono _ _ _ (Hw Hwok _) f ltac:(lia)). rewrite IHws by (auto; lia). reflexivity.
Qed.

Lemma wsize_pos w : (1 <= wsize w)%nat.
Proof. destruct w; cbn; lia. Qed.

Lemma list_size_len ws : (length ws <= list_size ws)%nat.
Proof.
  induction ws as [|w ws IH]; cbn; [lia|]. fold (list_size ws). pose proof (wsize_pos w). lia.
Qed.

Lemma elems_until_emit ws :
  Forall (fun w => tok_ok w = true -> forall rest, parse (wsize w) (emit w ++ rest) = Some (w, rest)) ws ->
  forallb tok_ok ws = true ->
  forall f, (list_size ws <= f)%nat -> forall tl,
  elems_until (parse f) f (flat_map emit ws ++ b_close :: tl) = Some (ws, b_close :: tl).
Proof.
  intros HF Hok f Hf tl.
  assert (G : forall g, (length ws <= g)%nat ->
            elems_until (parse f) g (flat_map emit ws ++ b_close :: tl) = Some (ws, b_close :: tl)).
  { revert Hok Hf. induction HF as [|w ws Hw Hws IHws]; intros Hok Hf g Hg.
    - cbn [flat_map app]. destruct g; reflexivity.
    - cbn [forallb] in Hok. apply andb_prop in Hok. destruct Hok as [Hwok Hwsok].
      unfold list_size in Hf; cbn [fold_right] in Hf; fold (list_size ws) in Hf.
      cbn [flat_map]. rewrite <- app_assoc.
      destruct (emit_head w) as (t & r & E & Ht).
      cbn [length] in Hg. destruct g as [|g]; [lia|].
      pose proof (parse_mono _ _ _ (Hw Hwok (flat_map emit ws ++ b_close :: tl)) f ltac:(lia)) as Hp.
      rewrite E in *. cbn [app elems_until]. rewrite Ht.
      cbn [app] in Hp. rewrite Hp. rewrite IHws by (auto; lia). reflexivity. }
  apply G. pose proof (list_size_len ws). lia.
Qed.

Lemma head_digit_app k X : exists x t, to_dec k ++ X = x :: t /\ is_digit x = true.
Proof.
  destruct (to_dec_hd_digit k) as (b & r & E & Hb). rewrite E. exists b, (r ++ X). split; [reflexivity|exact Hb].
Qed.

(* ---------- the round trip ---------- *)

Theorem parse_emit : forall w, tok_ok w = true -> forall rest,
  parse (wsize w) (emit w ++ rest) = Some (w, rest).
Proof.
  induction w using wire_ind'; intros Hok rest; cbn [emit wsize app].
  - apply parse_n. - apply parse_e. - apply parse_t. - apply parse_f. - apply parse_N.
  - destruct n; [apply parse_Im | apply parse_Ip].
  - cbn [tok_ok] in Hok. apply parse_digit. lia.
  - rewrite parse_i. rewrite <- app_assoc. cbn [app]. rewrite scanZ_to_decZ by reflexivity.
    rewrite expect_same. reflexivity.
  - rewrite parse_l. rewrite <- app_assoc. cbn [app]. rewrite scanZ_to_decZ by reflexivity.
    rewrite expect_same. reflexivity.
  - cbn [tok_ok] in Hok. unfold dbl_ok in Hok. apply andb_prop in Hok. destruct Hok as [Hf Hn].
    rewrite parse_d. rewrite <- app_assoc. cbn [app]. rewrite (span_until_no b_semi t rest Hn).
    rewrite Hf. rewrite expect_same. reflexivity.
  - cbn [tok_ok] in Hok. rewrite parse_u.
    destruct (next_char c) as [[[c' u] r]|] eqn:E; [|discriminate]. destruct r; [|discriminate].
    destruct (next_char_shape _ _ _ _ E) as (Hl & _ & _ & _). rewrite app_nil_r in Hl. subst c'.
    rewrite (next_char_app _ _ _ _ E rest). rewrite Hok. reflexivity.
  - cbn [tok_ok] in Hok. rewrite parse_s. rewrite (read_string_body_emit s rest Hok). reflexivity.
  - rewrite parse_b. unfold emit_binary. rewrite <- app_assoc. cbn [app]. rewrite scan_count by reflexivity.
    rewrite expect_same. rewrite Nat2N.id. rewrite <- app_assoc. rewrite take_app. cbn [app].
    rewrite expect_same. reflexivity.
  - cbn [tok_ok] in Hok. rewrite parse_g. rewrite expect_same.
    assert (Hl : length g = 36%nat). { unfold guid_ok in Hok. apply andb_prop in Hok. destruct Hok as [Hl _]. apply Nat.eqb_eq; exact Hl. }
    rewrite <- app_assoc. rewrite <- Hl. rewrite take_app. rewrite Hok. cbn [app]. rewrite expect_same. reflexivity.
  - cbn [tok_ok] in Hok. apply andb_prop in Hok. destruct Hok as [Hok Htm].
    apply andb_prop in Hok. destruct Hok as [Hok Hd]. apply andb_prop in Hok. destruct Hok as [Hy Hmo].
    rewrite parse_D. rewrite <- !app_assoc.
    rewrite (read_to_fixed 4 y) by (change (10 ^ N.of_nat 4) with 10000; lia).
    rewrite (read_to_fixed 2 mo) by (change (10 ^ N.of_nat 2) with 100; lia).
    rewrite (read_to_fixed 2 d) by (change (10 ^ N.of_nat 2) with 100; lia).
    destruct tm as [[[[h mi] s] fr]|].
    + cbn [app]. change (Byte.eqb b_T b_T) with true. cbn iota.
      rewrite read_time_body_emit; auto; [|destruct utc; reflexivity|destruct utc; reflexivity].
      cbn [app]. rewrite read_zone_emit. reflexivity.
    + cbn [app]. destruct utc; reflexivity.
  - cbn [tok_ok] in Hok. rewrite parse_T. rewrite <- app_assoc.
    rewrite read_time_body_emit; auto; [|destruct utc; reflexivity|destruct utc; reflexivity].
    cbn [app]. rewrite read_zone_emit. reflexivity.
  - (* list *) cbn [tok_ok] in Hok. rewrite parse_a. rewrite <- app_assoc. cbn [app].
    rewrite scan_count by reflexivity. rewrite expect_same. rewrite Nat2N.id. fold (list_size ws).
    rewrite <- app_assoc. rewrite (elems_with_emit ws H Hok) by lia. cbn [app]. rewrite expect_same. reflexivity.
  - (* map *) cbn [tok_ok] in Hok. apply andb_prop in Hok. destruct Hok as [Hok Hev].
    rewrite parse_m. rewrite <- app_assoc. cbn [app].
    rewrite scan_count by reflexivity. rewrite expect_same. fold (list_size ws).
    assert (Hn : N.to_nat (2 * (N.of_nat (length ws) / 2)) = length ws).
    { apply Nat.even_spec in Hev. destruct Hev as [k Hk].
      assert (E2 : N.of_nat (length ws) / 2 = N.of_nat k).
      { rewrite Hk. replace (N.of_nat (2 * k)) with (N.of_nat k * 2) by lia. apply N.div_mul. lia. }
      rewrite E2. lia. }
    rewrite Hn. rewrite <- app_assoc. rewrite (elems_with_emit ws H Hok) by lia.
    cbn [app]. rewrite expect_same. reflexivity.
  - (* class *) cbn [tok_ok] in Hok. apply andb_prop in Hok. destruct Hok as [Hok Hnext].
    apply andb_prop in Hok. destruct Hok as [Hname Hfields].
    rewrite parse_c. rewrite <- !app_assoc. rewrite (read_string_body_emit name _ Hname).
    cbn [app]. rewrite scan_count by reflexivity. rewrite expect_same. rewrite Nat2N.id.
    rewrite <- app_assoc. rewrite (fields_emit fields Hfields). cbn [app]. rewrite expect_same.
    rewrite (IHw Hnext rest). reflexivity.
  - (* object *) cbn [tok_ok] in Hok. rewrite parse_o. fold (list_size ws).
    replace ((to_dec k ++ b_open :: flat_map emit ws ++ [b_close]) ++ rest)
      with (to_dec k ++ b_open :: flat_map emit ws ++ b_close :: rest)
      by (rewrite <- app_assoc; cbn [app]; rewrite <- app_assoc; reflexivity).
    destruct (head_digit_app k (b_open :: flat_map emit ws ++ b_close :: rest)) as (x & t & E & Hx).
    rewrite E. rewrite Hx. rewrite <- E. rewrite scan_to_dec by reflexivity. rewrite expect_same.
    rewrite (elems_until_emit ws H Hok) by lia. rewrite expect_same. reflexivity.
  - (* ref *) rewrite parse_r.
    replace ((to_dec k ++ [b_semi]) ++ rest) with (to_dec k ++ b_semi :: rest)
      by (rewrite <- app_assoc; reflexivity).
    destruct (head_digit_app k (b_semi :: rest)) as (x & t & E & Hx).
    rewrite E. rewrite Hx. rewrite <- E. rewrite scan_to_dec by reflexivity. rewrite expect_same. reflexivity.
  - (* error *) cbn [tok_ok] in Hok. rewrite parse_E. rewrite (IHw Hok rest). reflexivity.
Qed.

(* ---------- fuel bounded by the input length ---------- *)

Lemma emit_nonempty w : (1 <= length (emit w))%nat.
Proof. destruct (emit_head w) as (t & r & E & _). rewrite E. cbn. lia. Qed.

Lemma flat_map_emit_size ws :
  Forall (fun w => (wsize w <= length (emit w))%nat) ws ->
  (list_size ws <= length (flat_map emit ws))%nat.
Proof.
  induction 1 as [|w ws Hw Hws IH]; cbn; [lia|]. fold (list_size ws). rewrite app_length. lia.
Qed.

Lemma wsize_le_emit : forall w, (wsize w <= length (emit w))%nat.
Proof.
  induction w using wire_ind'; cbn [wsize]; try apply emit_nonempty.
  - fold (list_size ws). pose proof (flat_map_emit_size ws H). cbn [emit length].
    rewrite app_length. cbn [length]. rewrite app_length. cbn [length]. lia.
  - fold (list_size ws). pose proof (flat_map_emit_size ws H). cbn [emit length].
    rewrite app_length. cbn [length]. rewrite app_length. cbn [length]. lia.
  - cbn [emit length]. rewrite !app_length. cbn [length]. rewrite app_length. cbn [length]. lia.
  - fold (list_size ws). pose proof (flat_map_emit_size ws H). cbn [emit length].
    rewrite app_length. cbn [length]. rewrite app_length. cbn [length]. lia.
  - cbn [emit length]. lia.
Qed.

Theorem parse_all_emit w : tok_ok w = true -> parse_all (emit w) = Some w.
Proof.
  intros Hok. unfold parse_all.
  pose proof (parse_emit w Hok []) as H. rewrite app_nil_r in H.
  rewrite (parse_mono _ _ _ H (S (length (emit w)))); [reflexivity|].
  pose proof (wsize_le_emit w). lia.
Qed.

(* values written one after another stay individually delimited *)
Theorem parse_seq_emit ws : forallb tok_ok ws = true ->
  parse_seq (length ws) (flat_map emit ws) = Some ws.
Proof.
  induction ws as [|w ws IH]; intros Hok; [reflexivity|].
  cbn [forallb] in Hok. apply andb_prop in Hok. destruct Hok as [Hw Hws].
  cbn [flat_map length parse_seq].
  destruct (emit_head w) as (t & r & E & _).
  destruct (emit w ++ flat_map emit ws) as [|x l] eqn:El; [rewrite E in El; discriminate|].
  rewrite <- El.
  pose proof (parse_emit w Hw (flat_map emit ws)) as H.
  rewrite (parse_mono _ _ _ H (S (length (emit w ++ flat_map emit ws)))).
  - rewrite (IH Hws). reflexivity.
  - rewrite app_length. pose proof (wsize_le_emit w). lia.
Qed.
