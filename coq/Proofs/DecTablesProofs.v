(* Theorems over the tables regenerated from io/*.go (Gen/DecTables.v): finite statements closed
   by computation.  The bounds (the 27 reflect.Kinds, the 256 tag bytes, the routine lists) are in
   the statements. *)
From Coq Require Import List Arith NArith ZArith Strings.Byte Bool Lia ZifyN ZifyNat.
From HV Require Import Lib.Dec Model.Wire Model.Enc Model.DecAct Model.DecVal Gen.DecTables.
Import ListNotations.

(* ---- decidable equality of actions (computable: used inside vm_compute) ------------------- *)

Definition byte_eq_dec : forall a b : byte, {a = b} + {a <> b}.
Proof. intros a b. destruct (Byte.eqb a b) eqn:E; [left; apply Byte.byte_dec_bl; exact E | right; intros H; subst; rewrite (Byte.byte_dec_lb eq_refl) in E; discriminate]. Defined.

Definition bstr_eq_dec : forall a b : bstr, {a = b} + {a <> b}.
Proof. decide equality. apply (list_eq_dec byte_eq_dec). Defined.

Definition ikind_eq_dec : forall a b : ikind, {a = b} + {a <> b}. Proof. decide equality. Defined.
Definition nty_eq_dec : forall a b : nty, {a = b} + {a <> b}. Proof. decide equality. apply ikind_eq_dec. Defined.
Definition cst_eq_dec : forall a b : cst, {a = b} + {a <> b}. Proof. decide equality. Defined.
Definition pfn_eq_dec : forall a b : pfn, {a = b} + {a <> b}. Proof. decide equality. Defined.
Definition rsrc_eq_dec : forall a b : rsrc, {a = b} + {a <> b}. Proof. decide equality. Defined.
Definition callee_eq_dec : forall a b : callee, {a = b} + {a <> b}. Proof. decide equality. Defined.

Definition action_eq_dec : forall a b : action, {a = b} + {a <> b}.
Proof.
  decide equality; try apply nty_eq_dec; try apply cst_eq_dec; try apply ikind_eq_dec; try apply Bool.bool_dec;
    try apply pfn_eq_dec; try apply Z.eq_dec; try apply N.eq_dec; try apply rsrc_eq_dec; try apply callee_eq_dec; try apply bstr_eq_dec.
Defined.

Definition action_eqb (a b : action) : bool := if action_eq_dec a b then true else false.
Lemma action_eqb_eq a b : action_eqb a b = true -> a = b.
Proof. unfold action_eqb. destruct (action_eq_dec a b); [auto | discriminate]. Qed.

Definition bstr_eqb (a b : bstr) : bool := if bstr_eq_dec a b then true else false.
Lemma bstr_eqb_eq a b : bstr_eqb a b = true -> a = b.
Proof. unfold bstr_eqb. destruct (bstr_eq_dec a b); [auto | discriminate]. Qed.

Fixpoint assoc {A} (l : list (bstr * A)) (k : bstr) : option A :=
  match l with
  | [] => None
  | (k', v) :: r => if bstr_eqb k k' then Some v else assoc r k
  end.

(* ---- names ---------------------------------------------------------------------------------- *)

Local Open Scope bstr_scope.

Definition ikind_go (k : ikind) : bstr :=
  match k with
  | KInt => "Int" | KInt8 => "Int8" | KInt16 => "Int16" | KInt32 => "Int32" | KInt64 => "Int64"
  | KUint => "Uint" | KUint8 => "Uint8" | KUint16 => "Uint16" | KUint32 => "Uint32" | KUint64 => "Uint64"
  | KUintptr => "Uintptr"
  end.

Definition bcat (a b : bstr) : bstr := BStr (bstr_to a ++ bstr_to b).

Definition routine_name (r : routine) : bstr :=
  match r with
  | RtBool => "decodeBool" | RtInt k => bcat "decode" (ikind_go k)
  | RtF32 => "decodeFloat32" | RtF64 => "decodeFloat64" | RtC64 => "decodeComplex64" | RtC128 => "decodeComplex128"
  | RtBigInt => "decodeBigInt" | RtBigFloat => "decodeBigFloat" | RtBigRat => "decodeBigRat"
  | RtString => "decodeString" | RtBytes => "decodeBytes" | RtTime => "decodeTime" | RtUuid => "decodeUUID"
  | RtIface => "decodeInterface" | RtDefault => "defaultDecode"
  | RtSlice => "sliceDecoder.Decode" | RtArray => "arrayDecoder.Decode" | RtByteArray => "byteArrayDecoder.Decode"
  | RtMap => "mapDecoder.Decode" | RtStruct => "structDecoder.Decode" | RtList => "listDecoder.Decode"
  | RtPtr => "ptrDecoder.Decode"
  end.

Definition all_ikinds : list ikind :=
  [KInt; KInt8; KInt16; KInt32; KInt64; KUint; KUint8; KUint16; KUint32; KUint64; KUintptr].

Definition all_routines : list routine :=
  [RtBool] ++ map RtInt all_ikinds ++
  [RtF32; RtF64; RtC64; RtC128; RtBigInt; RtBigFloat; RtBigRat; RtString; RtBytes; RtTime; RtUuid; RtIface;
   RtDefault; RtSlice; RtArray; RtByteArray; RtMap; RtStruct; RtList; RtPtr].

Definition all_tags : list N := map N.of_nat (seq 0 256).

Lemma all_tags_complete t : (t < 256)%N -> In t all_tags.
Proof.
  intros H. unfold all_tags. apply in_map_iff. exists (N.to_nat t). split.
  - apply N2Nat.id.
  - apply in_seq. lia.
Qed.

(* ---- C06_switch_total: nothing unrecognised ----------------------------------------------- *)

Definition known (a : action) : bool := match a with AUnknown _ => false | _ => true end.
Definition switch_known (s : switch) : bool := forallb (fun ta => known (snd ta)) (sw_cases s) && known (sw_default s).

Definition tables_total : bool :=
  forallb (fun ns => switch_known (snd ns)) gen_dec_switch &&
  forallb (fun o => forallb (fun ca => known (snd ca)) (fst (snd o)) && known (snd (snd o))) gen_dec_optswitch &&
  forallb (fun nw => match snd nw with WUnknownWrapper _ => false | _ => true end) gen_dec_wrappers &&
  forallb (fun nr => match snd nr with RdUnknown _ => false | _ => true end) gen_dec_readers &&
  forallb (fun np => match snd np with PsUnknown _ => false | _ => true end) gen_dec_parsers &&
  forallb (fun ka => known (snd ka)) gen_conv_fast.

Theorem switch_total : tables_total = true.
Proof. vm_compute. reflexivity. Qed.

Theorem switch_total_lookup : forall name s t, In (name, s) gen_dec_switch -> known (sw_lookup s t) = true.
Proof.
  intros name s t Hin.
  pose proof switch_total as H. unfold tables_total in H.
  do 5 (apply andb_prop in H; destruct H as [H _]).
  rewrite forallb_forall in H. specialize (H _ Hin). cbn [snd] in H.
  unfold switch_known in H. apply andb_prop in H. destruct H as [Hc Hd].
  unfold sw_lookup. destruct (assoc_tag (sw_cases s) t) as [a|] eqn:E; [|exact Hd].
  rewrite forallb_forall in Hc.
  revert E. generalize (sw_cases s) Hc. clear. induction l as [|[t' a'] l IH]; intros Hc E; [discriminate|].
  cbn [assoc_tag] in E. destruct (N.eqb t t').
  - inversion E; subst. apply (Hc (t', a)). left; reflexivity.
  - apply IH; [|exact E]. intros x Hx. apply Hc. right; exact Hx.
Qed.

(* ---- C06_switch_matches_model --------------------------------------------------------------- *)

Definition missing_switch : switch := {| sw_cases := []; sw_default := AUnknown "routine missing from the generated table" |}.
Definition gen_switch (name : bstr) : switch :=
  match assoc gen_dec_switch name with Some s => s | None => missing_switch end.

Definition switch_agrees (r : routine) : bool :=
  forallb (fun t => action_eqb (sw_lookup (gen_switch (routine_name r)) t) (sw_lookup (model_switch r) t)) all_tags.

Theorem switch_matches_model :
  forall r, In r all_routines -> forall t, (t < 256)%N ->
    sw_lookup (gen_switch (routine_name r)) t = sw_lookup (model_switch r) t.
Proof.
  assert (H : forallb switch_agrees all_routines = true) by (vm_compute; reflexivity).
  intros r Hr t Ht. rewrite forallb_forall in H. specialize (H r Hr).
  unfold switch_agrees in H. rewrite forallb_forall in H.
  apply action_eqb_eq. apply H. apply all_tags_complete. exact Ht.
Qed.

Lemma all_routines_complete r : In r all_routines.
Proof. destruct r as [ |k| | | | | | | | | | | | | | | | | | | | ]; try (vm_compute; tauto). destruct k; vm_compute; tauto. Qed.

(* the option switches inside decodeInterface's helpers *)
Definition opt_lookup (fn key : bstr) : action :=
  match assoc gen_dec_optswitch fn with
  | Some (cases, dflt) => match assoc cases key with Some a => a | None => dflt end
  | None => AUnknown "missing"
  end.

Definition long_name (l : longty) : bstr :=
  match l with LtInt => "LongTypeInt" | LtUint => "LongTypeUint" | LtInt64 => "LongTypeInt64"
             | LtUint64 => "LongTypeUint64" | LtBigInt => "LongTypeBigInt" end.
Definition real_name (r : realty) : bstr :=
  match r with RlF64 => "RealTypeFloat64" | RlF32 => "RealTypeFloat32" | RlBigFloat => "RealTypeBigFloat" end.

Theorem optswitch_matches_model :
  (forall l, opt_lookup "decodeLongAsInterface" (long_name l) = long_action l) /\
  (forall r, opt_lookup "decodeNaNAsInterface" (real_name r) = nan_action r) /\
  (forall r, opt_lookup "decodeInfinityAsInterface" (real_name r) = inf_action r) /\
  (forall r, opt_lookup "decodeDoubleAsInterface" (real_name r) = double_action r).
Proof. repeat split; intros x; destruct x; vm_compute; reflexivity. Qed.

(* wrappers: decodeXPtr = nil on 'n', else decodeX into a fresh variable; decodeBigXValue = nil -> zero *)
Definition expected_wrappers : list (bstr * wrapper) :=
  map (fun r => (bcat (routine_name r) "Ptr", WPtrFresh (routine_name r)))
      ([RtBool] ++ map RtInt all_ikinds ++ [RtF32; RtF64; RtC64; RtC128; RtString; RtBytes; RtTime; RtUuid; RtIface]) ++
  [("decodeBigIntValue", WNilToZero "decodeBigInt"); ("decodeBigFloatValue", WNilToZero "decodeBigFloat");
   ("decodeBigRatValue", WNilToZero "decodeBigRat")].

Definition wrapper_eq_dec : forall a b : wrapper, {a = b} + {a <> b}.
Proof. decide equality; apply bstr_eq_dec. Defined.
Definition reader_eq_dec : forall a b : reader, {a = b} + {a <> b}.
Proof. decide equality; try apply bstr_eq_dec; try apply ikind_eq_dec; try apply Bool.bool_dec; apply N.eq_dec. Defined.

Theorem wrappers_match_model :
  forall n w, In (n, w) expected_wrappers -> assoc gen_dec_wrappers n = Some w.
Proof.
  assert (H : forallb (fun nw => match assoc gen_dec_wrappers (fst nw) with
                                 | Some w => if wrapper_eq_dec w (snd nw) then true else false
                                 | None => false end) expected_wrappers = true) by (vm_compute; reflexivity).
  intros n w Hin. rewrite forallb_forall in H. specialize (H _ Hin). cbn [fst snd] in H.
  destruct (assoc gen_dec_wrappers n) as [w'|]; [|discriminate].
  destruct (wrapper_eq_dec w' w); [subst; reflexivity | discriminate].
Qed.

(* integer readers: ReadIntN() = intN(dec.ReadInt64()), ReadUintN() = uintN(dec.ReadUint64()): the model's
   [wrap_k] of the exact integer *)
Definition expected_readers : list (bstr * reader) :=
  [("ReadInt", RdConv KInt "ReadInt64"); ("ReadInt8", RdConv KInt8 "ReadInt64"); ("ReadInt16", RdConv KInt16 "ReadInt64");
   ("ReadInt32", RdConv KInt32 "ReadInt64"); ("ReadInt64", RdPrimitive);
   ("ReadUint", RdConv KUint "ReadUint64"); ("ReadUint8", RdConv KUint8 "ReadUint64"); ("ReadUint16", RdConv KUint16 "ReadUint64");
   ("ReadUint32", RdConv KUint32 "ReadUint64"); ("ReadUint64", RdPrimitive); ("readUint64", RdPrimitive);
   (* the float readers: strconv.ParseFloat with the destination's own bit size (one rounding) *)
   ("ReadFloat32", RdParseFloat 32); ("ReadFloat64", RdParseFloat 64);
   (* ownership of what the readers return: Until / Next / readSafeString / readStringAsSafeBytes copy a
      window of the read buffer, the Unsafe variants alias it; ReadBytes / ReadString (the readers behind
      every arm whose value outlives the call) are built on the copying ones *)
   ("Until", RdOwn true "until"); ("UnsafeUntil", RdOwn false "until");
   ("Next", RdOwn true "next"); ("UnsafeNext", RdOwn false "next");
   ("readStringAsSafeBytes", RdOwn true "readStringAsBytes");
   ("readSafeString", RdOwn true "readStringAsBytes"); ("readUnsafeString", RdOwn false "readStringAsBytes");
   ("readBytes", RdVia "Next" false); ("readUnsafeBytes", RdGuarded "next"); ("ReadBytes", RdVia "readBytes" true);
   ("ReadSafeString", RdVia "readSafeString" false); ("ReadUnsafeString", RdGuarded "readStringAsBytes");
   ("ReadString", RdVia "ReadSafeString" true); ("ReadStringAsBytes", RdVia "readStringAsSafeBytes" false);
   (* since 831d17a: the windows that are used after the closing quote is skipped are copied when that skip refills the buffer *)
   ("skipAfter", RdSkipAfter)].

(* the string parsers behind the 'u' / 's' arms and the converters: the model's [parse_str] and the
   oracle functions pf32/pf64/pc64/pc128/bf/rat stand for exactly these library calls *)
Definition expected_parsers : list (bstr * parser) :=
  [("stringToBool", PsStrconv "ParseBool" 0 false);
   ("stringToInt64", PsStrconv "ParseInt" 10 true); ("stringToUint64", PsStrconv "ParseUint" 10 true);
   ("stringToFloat32", PsFloat 32); ("stringToFloat64", PsFloat 64);
   ("stringToComplex64", PsComplex 64); ("stringToComplex128", PsComplex 128);
   ("stringToBigInt", PsBig "Int" true); ("stringToBigFloat", PsBig "Float" false); ("stringToBigRat", PsBigGuarded "Rat" max_text_exponent)].

Theorem parsers_match_model : gen_dec_parsers = expected_parsers.
Proof. vm_compute. reflexivity. Qed.

Theorem readers_match_model : gen_dec_readers = expected_readers.
Proof. vm_compute. reflexivity. Qed.

(* reference-list append sites per routine (the model appends at exactly these) *)
Definition expected_ref_effects : list (bstr * N) :=
  [("Decoder.ReadString", 1); ("Decoder.ReadBytes", 1); ("Decoder.ReadTime", 1); ("Decoder.ReadDateTime", 1);
   ("Decoder.ReadUUID", 1); ("Decoder.decodeTime", 2); ("Decoder.readUint8Slice", 1); ("Decoder.ReadUnsafeString", 0);
   ("Decoder.ReadSafeString", 0); ("Decoder.readUnsafeBytes", 0); ("Decoder.readSafeString", 0);
   ("Decoder.readUnsafeString", 0); ("Decoder.ReadStringAsBytes", 0); ("Decoder.ReadStruct", 0);
   ("Decoder.readObject", 1); ("Decoder.readObjectAsMap", 1); ("Decoder.ReadObject", 0);
   ("sliceDecoder.Decode", 1); ("arrayDecoder.Decode", 1); ("byteArrayDecoder.Decode", 1); ("listDecoder.Decode", 1);
   ("ptrDecoder.Decode", 0); ("mapDecoder.decodeMap", 1); ("mapDecoder.decodeListAsMap", 1);
   ("mapDecoder.decodeObjectAsMap", 1); ("structDecoder.decodeObject", 1); ("structDecoder.decodeMapAsObject", 1);
   ("structDecoder.decodeField", 0); ("Decoder.decodeListAsInterface", 0); ("Decoder.decodeMapAsInterface", 0);
   ("Decoder.decodeError", 0); ("Decoder.defaultDecode", 0)]%N.

Theorem ref_sites_match_model : gen_ref_effects = expected_ref_effects.
Proof. vm_compute. reflexivity. Qed.

(* converters: a referenced string into a number goes through the same parser as the 's' arm *)
Definition conv_key (k : bstr) : bstr := bcat "String, " k.
Definition kind_routines : list (bstr * routine) :=
  [("Bool", RtBool)] ++ map (fun k => (ikind_go k, RtInt k)) all_ikinds ++
  [("Float32", RtF32); ("Float64", RtF64); ("Complex64", RtC64); ("Complex128", RtC128)].

Theorem converters_match_model :
  (forall k r, In (k, r) kind_routines ->
     assoc gen_conv_fast (conv_key k) = Some (sw_lookup (model_switch r) (tg "s"))) /\
  length gen_conv_fast = length kind_routines /\
  gen_conv_registered =
    [("stringType", "bigIntValueType"); ("stringType", "bigIntType"); ("stringType", "bigFloatValueType");
     ("stringType", "bigFloatType"); ("stringType", "bigRatValueType"); ("stringType", "bigRatType");
     ("stringType", "bytesType"); ("bytesType", "stringType"); ("stringType", "timeType"); ("stringType", "uuidType")].
Proof.
  split; [|split; vm_compute; reflexivity].
  assert (H : forallb (fun kr => match assoc gen_conv_fast (conv_key (fst kr)) with
                                 | Some a => action_eqb a (sw_lookup (model_switch (snd kr)) (tg "s"))
                                 | None => false end) kind_routines = true) by (vm_compute; reflexivity).
  intros k r Hin. rewrite forallb_forall in H. specialize (H _ Hin). cbn [fst snd] in H.
  destruct (assoc gen_conv_fast (conv_key k)) as [a|]; [|discriminate].
  apply action_eqb_eq in H. subst. reflexivity.
Qed.

(* ---- C06_routes_agree ----------------------------------------------------------------------- *)

Inductive kclass :=
| KBasic (go_type : bstr) (r : routine) (t : gtype)   (* a decodeX / decodeXPtr pair *)
| KContainer (getter : bstr)                           (* generic decoder built by get<K>Decoder *)
| KInvalidKind.

(* the 27 values of reflect.Kind *)
Definition all_kinds : list (bstr * kclass) :=
  [("Invalid", KInvalidKind); ("Bool", KBasic "bool" RtBool TBool);
   ("Int", KBasic "int" (RtInt KInt) (TInt KInt)); ("Int8", KBasic "int8" (RtInt KInt8) (TInt KInt8));
   ("Int16", KBasic "int16" (RtInt KInt16) (TInt KInt16)); ("Int32", KBasic "int32" (RtInt KInt32) (TInt KInt32));
   ("Int64", KBasic "int64" (RtInt KInt64) (TInt KInt64)); ("Uint", KBasic "uint" (RtInt KUint) (TInt KUint));
   ("Uint8", KBasic "uint8" (RtInt KUint8) (TInt KUint8)); ("Uint16", KBasic "uint16" (RtInt KUint16) (TInt KUint16));
   ("Uint32", KBasic "uint32" (RtInt KUint32) (TInt KUint32)); ("Uint64", KBasic "uint64" (RtInt KUint64) (TInt KUint64));
   ("Uintptr", KBasic "uintptr" (RtInt KUintptr) (TInt KUintptr));
   ("Float32", KBasic "float32" RtF32 TF32); ("Float64", KBasic "float64" RtF64 TF64);
   ("Complex64", KBasic "complex64" RtC64 TC64); ("Complex128", KBasic "complex128" RtC128 TC128);
   ("Array", KContainer "Array"); ("Chan", KInvalidKind); ("Func", KInvalidKind);
   ("Interface", KBasic "interface{}" RtIface TIface); ("Map", KContainer "Map"); ("Ptr", KContainer "Ptr");
   ("Slice", KContainer "Slice"); ("String", KBasic "string" RtString TString); ("Struct", KContainer "Struct");
   ("UnsafePointer", KInvalidKind)].

Definition is (l : list (bstr * bstr)) (k v : bstr) : bool :=
  match assoc l k with Some x => bstr_eqb x v | None => false end.

(* the model's leaf for a type on a route, as a routine and whether it is the ...Ptr form *)
Definition model_leaf (r : route) (t : gtype) : option (routine * bool) :=
  match leaf_of r t with
  | LS s => Some (routine_of s, false)
  | LSPtr s => Some (routine_of s, true)
  | _ => None
  end.

Definition routine_eqb (a b : routine) : bool := bstr_eqb (routine_name a) (routine_name b).

Definition model_agrees (t : gtype) (rt : routine) : bool :=
  forallb (fun r => match model_leaf r t with Some (x, false) => routine_eqb x rt | _ => false end) [RTop; RVal; RElem] &&
  forallb (fun r => match model_leaf r (TPtr t) with Some (x, true) => routine_eqb x rt | _ => false end) [RTop; RVal; RElem].

Definition route_row_ok (row : bstr * kclass) : bool :=
  let k := fst row in
  match snd row with
  | KBasic go rt t =>
      let n := routine_name rt in
      let np := bcat n "Ptr" in
      is gen_dec_handler k n && is gen_dec_factory k n && is gen_dec_fast (bcat "*" go) n &&
      is gen_dec_ptr_handler k np && is gen_dec_ptr_factory k np && is gen_dec_fast_ptr (bcat "**" go) np &&
      model_agrees t rt
  | KContainer g =>
      is gen_dec_handler k "nil" && is gen_dec_ptr_handler k "nil" &&
      is gen_dec_factory k (bcat (bcat "fn:get" g) "Decoder") && is gen_dec_ptr_factory k (bcat (bcat "fn:get" g) "PtrDecoder")
  | KInvalidKind =>
      is gen_dec_handler k "decodeError" && is gen_dec_ptr_handler k "decodeError" &&
      is gen_dec_factory k "fn:invalidDecoder" && is gen_dec_ptr_factory k "fn:invalidDecoder"
  end.

(* the remaining entries of the two type switches: types that are not a basic kind *)
Definition extra_fast : list (bstr * bstr * bstr) :=
  [("[]byte", "decodeBytes", "decodeBytesPtr"); ("time.Time", "decodeTime", "decodeTimePtr");
   ("uuid.UUID", "decodeUUID", "decodeUUIDPtr"); ("big.Int", "decodeBigIntValue", "decodeBigInt");
   ("big.Float", "decodeBigFloatValue", "decodeBigFloat"); ("big.Rat", "decodeBigRatValue", "decodeBigRat")].

Definition extra_row_ok (row : bstr * bstr * bstr) : bool :=
  let '(go, n, np) := row in
  is gen_dec_fast (bcat "*" go) n && is gen_dec_fast_ptr (bcat "**" go) np.

Theorem routes_agree :
  (forall row, In row all_kinds -> route_row_ok row = true) /\
  (forall row, In row extra_fast -> extra_row_ok row = true) /\
  length gen_dec_handler = 27%nat /\ length gen_dec_ptr_handler = 27%nat /\
  length gen_dec_factory = 27%nat /\ length gen_dec_ptr_factory = 27%nat /\
  length gen_dec_fast = 24%nat /\ length gen_dec_fast_ptr = 24%nat.
Proof.
  split; [|split].
  - apply forallb_forall. vm_compute. reflexivity.
  - apply forallb_forall. vm_compute. reflexivity.
  - repeat split; vm_compute; reflexivity.
Qed.

(* tag constants: the bytes the model's [tg] uses *)
Definition model_tags : list (bstr * byte) :=
  [("TagInteger", "i"%byte); ("TagLong", "l"%byte); ("TagDouble", "d"%byte); ("TagNull", "n"%byte); ("TagEmpty", "e"%byte);
   ("TagTrue", "t"%byte); ("TagFalse", "f"%byte); ("TagNaN", "N"%byte); ("TagInfinity", "I"%byte); ("TagDate", "D"%byte);
   ("TagTime", "T"%byte); ("TagBytes", "b"%byte); ("TagUTF8Char", "u"%byte); ("TagString", "s"%byte); ("TagGUID", "g"%byte);
   ("TagList", "a"%byte); ("TagMap", "m"%byte); ("TagClass", "c"%byte); ("TagObject", "o"%byte); ("TagRef", "r"%byte);
   ("TagError", "E"%byte)].

Theorem tags_match_model : forall n b, In (n, b) model_tags -> assoc gen_tags n = Some (tg b).
Proof.
  assert (H : forallb (fun nb => match assoc gen_tags (fst nb) with Some x => N.eqb x (tg (snd nb)) | None => false end)
                      model_tags = true) by (vm_compute; reflexivity).
  intros n b Hin. rewrite forallb_forall in H. specialize (H _ Hin). cbn [fst snd] in H.
  destruct (assoc gen_tags n) as [x|]; [|discriminate]. apply N.eqb_eq in H. subst. reflexivity.
Qed.
