(* Proofs about Model/DecBytes.v (C04). *)
From Coq Require Import List ZArith NArith Bool Init.Byte Lia.
From HV Require Import Model.DecStream Model.DecBytes.
Import ListNotations.

(* ------------------------------------------------------------------ panics *)

(* A panic can only come from a hazard node whose check is absent. *)
Lemma interp_panic_hazard : forall (A : Type) (chk : site -> bool) (r : out A) h s,
  interp chk r = VPanic h s -> In h (hazards r) /\ chk h = false.
Proof.
  intros A chk r. induction r as [a s0|h0 s0 k IH|k t|w|]; intros h s H; cbn in H; try discriminate.
  destruct (chk h0) eqn:E.
  - destruct (IH _ _ H) as [H1 H2]. split; [right; exact H1|exact H2].
  - inversion H; subst. split; [left; reflexivity|exact E].
Qed.

Lemma interp_all_checks_no_panic : forall (A : Type) (r : out A) h s, interp all_checks r <> VPanic h s.
Proof. intros A r h s H. apply interp_panic_hazard in H. destruct H as [_ H]. discriminate. Qed.

Lemma no_hazard_no_panic : forall (A : Type) (chk : site -> bool) (r : out A) h s,
  hazards r = [] -> interp chk r <> VPanic h s.
Proof. intros A chk r h s Hn H. apply interp_panic_hazard in H. rewrite Hn in H. destruct H as [[] _]. Qed.

(* without hazards the checks make no difference at all *)
Lemma no_hazard_same : forall (A : Type) (c1 c2 : site -> bool) (r : out A),
  hazards r = [] -> interp c1 r = interp c2 r.
Proof. intros A c1 c2 r H. destruct r; cbn in *; try reflexivity. discriminate. Qed.

(* ------------------------------------------------------------------ witnesses on the pinned tree *)
From Coq Require Import Strings.String Strings.Byte.

Definition B (s : string) : bytes := list_byte_of_string s.
Definition int_ : shape := SNum (KInt 0).
Definition pt_shape : shape := SStruct (B "Pt") (FCons (B "x") int_ (FCons (B "y") int_ FNil)).
Definition user_shape : shape :=
  SStruct (B "User") (FCons (B "name") SString (FCons (B "age") int_ (FCons (B "tags") (SSlice SString)
    (FCons (B "extra") SIface (FCons (B "p") (SPtr pt_shape) FNil))))).
Definition reg0 : list (bytes * shape) := [(B "Pt", pt_shape); (B "User", user_shape)].
Definition methods0 : list method :=
  [mkm (B "add") [int_; int_] false; mkm (B "echo") [SIface] false; mkm (B "sum") [int_] true;
   mkm (B "user") [user_shape; SSlice SString; SMap SString int_] false].
(* an oracle under which every library parser rejects its text *)
Definition orc_no : okind -> bytes -> option bool := fun _ _ => Some false.

(* what the code of the pinned tree does with input [bs] *)
Definition U (bs : bytes) (smp : bool) (sh : shape) : verdict aval :=
  interp no_checks (unmarshal orc_no reg0 pinned (fuel_for reg0 bs 8) bs smp sh).
Definition Sv (bs : bytes) : verdict bool :=
  interp no_checks (service_decode orc_no reg0 pinned (fuel_for reg0 bs 8) methods0 false bs).
Definition Cl (bs : bytes) (rts : list shape) : verdict bool :=
  interp no_checks (client_decode orc_no reg0 pinned (fuel_for reg0 bs 8) rts bs).

Definition panics_at {A} (v : verdict A) (h : site) : Prop := exists s, v = VPanic h s.
Ltac witness := eexists; vm_compute; reflexivity.

Lemma w_ref_index : panics_at (U (B "r5;") false SIface) HRefIndex. Proof. witness. Qed.
Lemma w_ref_index_simple : panics_at (U (B "r0;") true SIface) HRefIndex. Proof. witness. Qed.
Lemma w_class_index : panics_at (U (B "o5{}") true SIface) HClassIndex. Proof. witness. Qed.
Lemma w_names_neg : panics_at (U (B "c1""A""-1{}") true SIface) (HMakeNeg MNames). Proof. witness. Qed.
Lemma w_uint8_neg : panics_at (U (B "a-1{}") true SBytes) (HMakeNeg MUint8). Proof. witness. Qed.
Lemma w_args_neg : panics_at (Sv (B "Cs3""add""a-1{}z")) (HMakeNeg MArgs). Proof. witness. Qed.
Lemma w_str_neg : panics_at (U [x75; xf0] true SIface) (HMakeNeg MStr). Proof. witness. Qed.
Lemma w_names_range : panics_at (U (B "c1""A""100000000000000{") true SIface) (HAllocRange MNames). Proof. witness. Qed.
Lemma w_uint8_range : panics_at (U (B "a1000000000000000{") true SBytes) (HAllocRange MUint8). Proof. witness. Qed.
Lemma w_args_range : panics_at (Sv (B "Cs3""add""a100000000000000{")) (HAllocRange MArgs). Proof. witness. Qed.
Lemma w_slice_range : panics_at (U (B "a100000000000000{") true SIface) (HAllocRange MSlice). Proof. witness. Qed.
Lemma w_next_range : panics_at (U (B "b1000000000000000""ab") true SIface) (HAllocRange MNext). Proof. witness. Qed.
Lemma w_str_range : panics_at (U (B "s100000000000000""a") true SIface) (HAllocRange MStr). Proof. witness. Qed.
Lemma w_next_neg : panics_at (U (B "b-5""abc") true SIface) HNextNeg. Proof. witness. Qed.
Lemma w_str_index : panics_at (U (B "s4611686018427387904""abc""") true SIface) HStrIndex. Proof. witness. Qed.
Lemma w_str_slice : panics_at (U [x75; xf0; x61; x62] true SIface) HStrSlice. Proof. witness. Qed.
(* an oracle under which every text parses and every exponent is huge *)
Definition orc_yes : okind -> bytes -> option bool := fun _ _ => Some true.
Definition Uy (bs : bytes) (smp : bool) (sh : shape) : verdict aval :=
  interp no_checks (unmarshal orc_yes reg0 pinned (fuel_for reg0 bs 8) bs smp sh).
Lemma w_big_exp_int : panics_at (Uy (B "d1e100000000;") true (SBig BInt)) HBigExp. Proof. witness. Qed.
Lemma w_big_exp_rat : panics_at (Uy (B "s11""1e100000000""") true (SBig BRat)) HBigExp. Proof. witness. Qed.
Lemma w_bigrat_nil : panics_at (U (B "lxyz;") true (SBig BRat)) HBigRatNil. Proof. witness. Qed.
Lemma w_unhashable : panics_at (U (B "m1{a{}1}") true SIface) HUnhashable. Proof. witness. Qed.
Lemma w_ref_nil_set : panics_at (Cl (B "Ra2{1r0;}z") [int_; SIface]) HRefNilSet. Proof. witness. Qed.
Lemma w_ref_nil_kind : panics_at (Cl (B "Ra2{1r0;}z") [int_; int_]) HRefNilKind. Proof. witness. Qed.
Lemma w_objmap_field : panics_at (U (B "c2""Pt""1{s1""q""}o0{1}") true (SMap SString SIface)) HObjMapField. Proof. witness. Qed.
Lemma w_objmap_key : panics_at (U (B "c2""Pt""1{s1""x""}o0{1}") true (SMap SIface SIface)) HObjMapKey. Proof. witness. Qed.
Lemma w_array_neg : panics_at (U (B "a-3{}") true (SArray 2 int_)) HArrayNeg. Proof. witness. Qed.
Lemma w_client_count : panics_at (Cl (B "Ra-1{}z") [int_; int_]) HClientCount. Proof. witness. Qed.

(* total work: steps counted by the model plus the bytes consumed *)
Definition work (bs : bytes) (s : st) : N := steps s + N.of_nat (List.length bs - List.length (rest s)).

Definition done_with {A} (v : verdict A) (P : st -> Prop) : Prop := exists a s, v = VDone a s /\ P s.

(* thirteen bytes: 10^11 iterations; or 1.6 TB *)
Lemma w_steps : done_with (U (B "a99999999999{") true (SArray 1 int_))
  (fun s => (1000 * N.of_nat (List.length (B "a99999999999{")) + 1000000 < work (B "a99999999999{") s)%N).
Proof. eexists; eexists; split; [vm_compute; reflexivity|]. vm_compute. reflexivity. Qed.

Lemma w_alloc : done_with (U (B "a99999999999{") true SIface)
  (fun s => (1000000 * N.of_nat (List.length (B "a99999999999{")) + 1000000000 < alloc s)%N).
Proof. eexists; eexists; split; [vm_compute; reflexivity|]. vm_compute. reflexivity. Qed.

(* malformed input accepted without error (and a slice of length -1 delivered) *)
Lemma w_neg_slice : done_with (U (B "a-1{}") true (SSlice int_)) (fun s => err s = None /\ corrupt s = true).
Proof. eexists; eexists; split; [vm_compute; reflexivity|]. vm_compute. split; reflexivity. Qed.
Lemma w_lenient_int : done_with (U (B "i;") true SIface) (fun s => err s = None).
Proof. eexists; eexists; split; [vm_compute; reflexivity|]. vm_compute. reflexivity. Qed.
Lemma w_lenient_list : done_with (U (B "a{1}") true SIface) (fun s => err s = None).
Proof. eexists; eexists; split; [vm_compute; reflexivity|]. vm_compute. reflexivity. Qed.

(* ------------------------------------------------------------------ the input only shrinks, the error is sticky *)

Local Notation len := List.length.

(* the allocation invariant: what was allocated is covered by (largest unit) x (steps + excess + bytes consumed);
   L is any upper bound of the input length *)
Definition tm (L : nat) (s : st) : N := steps s + excess s + N.of_nat (L - len (rest s)).
Definition J (L : nat) (s : st) : Prop := (alloc s <= um s * tm L s)%N.

Definition R4 (s s' : st) : Prop :=
  (len (rest s') <= len (rest s))%nat /\ (has_err s = true -> has_err s' = true) /\
  (um s <= um s')%N /\ (forall L, (len (rest s) <= L)%nat -> J L s -> J L s').

Lemma R4_refl : forall s, R4 s s.
Proof. intros s. repeat split; auto. lia. Qed.
Lemma R4_trans : forall a b c, R4 a b -> R4 b c -> R4 a c.
Proof.
  intros a b c [H1 [H2 [H3 H4]]] [H5 [H6 [H7 H8]]]. split; [lia|]. split; [auto|]. split; [lia|].
  intros L HL HJ. apply H8; [lia|]. apply H4; auto.
Qed.

(* J survives an update that allocates nothing, keeps the unit and does not lose time *)
Lemma J_keep : forall L s s', alloc s' = alloc s -> (um s <= um s')%N -> (tm L s <= tm L s')%N -> J L s -> J L s'.
Proof.
  intros L s s' Ha Hu Ht HJ. unfold J in *. rewrite Ha.
  eapply N.le_trans; [exact HJ|]. apply N.mul_le_mono; assumption.
Qed.
(* ... or allocates a <= unit * (time gained) *)
Lemma J_pay : forall L s s' a u d, alloc s' = (alloc s + a)%N -> um s' = N.max (um s) u ->
  (tm L s + d <= tm L s')%N -> (a <= u * d)%N -> J L s -> J L s'.
Proof.
  intros L s s' a u d Ha Hu Ht Had HJ. unfold J in *. rewrite Ha, Hu.
  assert (H1 : (um s <= N.max (um s) u)%N) by lia. assert (H2 : (u <= N.max (um s) u)%N) by lia.
  set (m := N.max (um s) u) in *.
  assert ((um s * tm L s <= m * tm L s)%N) by (apply N.mul_le_mono_r; exact H1).
  assert ((u * d <= m * d)%N) by (apply N.mul_le_mono_r; exact H2).
  assert ((m * (tm L s + d) <= m * tm L s')%N) by (apply N.mul_le_mono_l; exact Ht).
  lia.
Qed.


(* R4, and: the loop-stopping flag is constant, and a decoder whose loops stop never spins *)
Definition R (s s' : st) : Prop := R4 s s' /\ lstop s' = lstop s /\ (lstop s = true -> spin s' = spin s).
Lemma R_refl : forall s, R s s.
Proof. intros s. split; [apply R4_refl|]. split; auto. Qed.
Lemma R_trans : forall a b c, R a b -> R b c -> R a c.
Proof.
  intros a b c [H1 [H2 H3]] [H4 [H5 H6]]. split; [eapply R4_trans; eauto|]. split; [congruence|].
  intros H. rewrite H6 by congruence. auto.
Qed.
Lemma R_of4 : forall s s', R4 s s' -> lstop s' = lstop s -> spin s' = spin s -> R s s'.
Proof. intros. split; [assumption|]. split; auto. Qed.

(* every state a result tree mentions is R-after s0 *)
Fixpoint allR {A} (s0 : st) (r : out A) : Prop :=
  match r with
  | ROk _ s => R s0 s
  | RHaz _ s k => R s0 s /\ allR s0 k
  | _ => True
  end.

Lemma allR_weaken : forall (A : Type) (r : out A) s0 s, R s0 s -> allR s r -> allR s0 r.
Proof.
  intros A r. induction r as [a x|h x k IH|k t|w|]; intros s0 s H H1; cbn in *; auto.
  - eapply R_trans; eauto.
  - destruct H1 as [H1 H2]. split; [eapply R_trans; eauto|eapply IH; eauto].
Qed.

Lemma allR_bnd : forall (A B : Type) (r : out A) (k : A -> st -> out B) s0,
  allR s0 r -> (forall a s, allR s (k a s)) -> allR s0 (bnd r k).
Proof.
  intros A B r k. induction r as [a x|h x r IH|o t|w|]; intros s0 H Hk; cbn in *; auto.
  - eapply allR_weaken; eauto.
  - destruct H as [H1 H2]. split; auto.
Qed.

(* ---- the contiguous-stream functions of DecStream never lengthen the stream *)
Lemma len_skipn : forall (A : Type) n (l : list A), (len (skipn n l) <= len l)%nat.
Proof. intros A n l. rewrite skipn_length. lia. Qed.

Lemma sl_nextByte : forall l e, (len (fst (snd (s_nextByte (l, e)))) <= len l)%nat.
Proof. intros [|b r] e; cbn; lia. Qed.
Lemma sl_skip : forall l e, (len (fst (s_skip (l, e))) <= len l)%nat.
Proof. intros l e. unfold s_skip. apply sl_nextByte. Qed.
Lemma sl_readUint64 : forall c l e, (len (fst (snd (s_readUint64 c (l, e)))) <= len l)%nat.
Proof.
  intros c l e. unfold s_readUint64. destruct (digit c); cbn [fst snd]; [|lia].
  destruct (scan_digits l n) as [v [k|]]; cbn [fst snd]; [apply len_skipn|cbn; lia].
Qed.
Lemma sl_readInt64 : forall l e, (len (fst (snd (s_readInt64 (l, e)))) <= len l)%nat.
Proof.
  intros l e. unfold s_readInt64.
  pose proof (sl_nextByte l e) as H1. destruct (s_nextByte (l, e)) as [c [l1 e1]]. cbn [fst snd] in H1.
  destruct (Byte.eqb c DecStream.minus).
  - pose proof (sl_nextByte l1 e1) as H2. destruct (s_nextByte (l1, e1)) as [c2 [l2 e2]]. cbn [fst snd] in H2.
    pose proof (sl_readUint64 c2 l2 e2) as H3. destruct (s_readUint64 c2 (l2, e2)) as [v [l3 e3]]. cbn [fst snd] in *. lia.
  - pose proof (sl_readUint64 c l1 e1) as H3. destruct (s_readUint64 c (l1, e1)) as [v [l3 e3]]. cbn [fst snd] in *. lia.
Qed.
Lemma sl_until : forall c l e, (len (fst (snd (s_until c (l, e)))) <= len l)%nat.
Proof.
  intros c l e. unfold s_until. cbn [fst snd]. destruct l as [|b r]; [cbn; lia|].
  destruct (index_byte (b :: r) c); cbn [fst snd]; [apply len_skipn|cbn; lia].
Qed.
Lemma sl_readDigits : forall k acc l e, (len (fst (snd (s_readDigits k acc (l, e)))) <= len l)%nat.
Proof.
  induction k as [|k IH]; intros acc l e; cbn [s_readDigits]; [cbn; lia|].
  pose proof (sl_nextByte l e) as H1. destruct (s_nextByte (l, e)) as [c [l1 e1]]. cbn [fst snd] in H1.
  specialize (IH (acc * 10 + digit_ff c)%N l1 e1). lia.
Qed.

Ltac sl_step f H :=
  match goal with
  | |- context[f ?k ?a (?l, ?e)] =>
      pose proof (sl_readDigits k a l e) as H; destruct (f k a (l, e)) as [? [? ?]]; cbn [fst snd] in H
  end.
Ltac sl_nb H :=
  match goal with
  | |- context[s_nextByte (?l, ?e)] =>
      pose proof (sl_nextByte l e) as H; destruct (s_nextByte (l, e)) as [? [? ?]]; cbn [fst snd] in H
  end.

Lemma sl_readNsec : forall l e, (len (fst (snd (s_readNsec (l, e)))) <= len l)%nat.
Proof.
  intros l e. unfold s_readNsec. sl_step s_readDigits H1. sl_nb H2.
  destruct (digit b); cbn [fst snd]; [|lia].
  sl_step s_readDigits H3. sl_nb H4. destruct (digit b0); cbn [fst snd]; [|lia].
  sl_step s_readDigits H5. sl_nb H6. cbn [fst snd]. lia.
Qed.
Lemma sl_readHMS : forall l e, (len (fst (snd (s_readHMS (l, e)))) <= len l)%nat.
Proof.
  intros l e. unfold s_readHMS. sl_step s_readDigits H1. sl_step s_readDigits H2. sl_step s_readDigits H3. sl_nb H4.
  destruct (Byte.eqb b tagPoint); cbn [fst snd]; [|lia].
  pose proof (sl_readNsec l3 o2) as H5. destruct (s_readNsec (l3, o2)) as [[? ?] [? ?]]. cbn [fst snd] in *. lia.
Qed.
Lemma sl_readDateTime : forall l e, (len (fst (snd (s_readDateTime (l, e)))) <= len l)%nat.
Proof.
  intros l e. unfold s_readDateTime. sl_step s_readDigits H1. sl_step s_readDigits H2. sl_step s_readDigits H3. sl_nb H4.
  destruct (Byte.eqb b tagTime); cbn [fst snd]; [|lia].
  pose proof (sl_readHMS l3 o2) as H5. destruct (s_readHMS (l3, o2)) as [[? ?] [? ?]]. cbn [fst snd] in *. lia.
Qed.

(* ---- state updates *)
Lemma has_err_merge : forall s e, has_err s = true -> (match merge (err s) e with Some _ => true | None => false end) = true.
Proof. intros s e. unfold has_err, merge. destruct (err s); [reflexivity|discriminate]. Qed.

Ltac rkeep s := intros L HL HJ; eapply (J_keep L s); [reflexivity|cbn; lia|unfold tm; cbn; lia|exact HJ].

Lemma R4_set_rest : forall s r e d, (len r <= len (rest s))%nat -> R4 s (set_rest s r (merge (err s) e) d).
Proof.
  intros s r e d H. split; [exact H|]. split; [unfold has_err at 2; cbn; apply has_err_merge|]. split; [cbn; lia|].
  intros L HL HJ. eapply (J_keep L s); [reflexivity|cbn; lia|unfold tm; cbn; lia|exact HJ].
Qed.
Lemma R4_set_rest_same : forall s r d, (len r <= len (rest s))%nat -> R4 s (set_rest s r (err s) d).
Proof.
  intros s r d H. split; [exact H|]. split; [unfold has_err; cbn; auto|]. split; [cbn; lia|].
  intros L HL HJ. eapply (J_keep L s); [reflexivity|cbn; lia|unfold tm; cbn; lia|exact HJ].
Qed.
Lemma R4_set_error : forall s k, R4 s (set_error s k).
Proof. intros s k. split; [cbn; lia|]. split; [unfold has_err; cbn; destruct (err s); auto|]. split; [cbn; lia|rkeep s]. Qed.
Lemma R4_force_error : forall s k, R4 s (force_error s k).
Proof. intros s k. split; [cbn; lia|]. split; [unfold has_err; cbn; auto|]. split; [cbn; lia|rkeep s]. Qed.
Lemma R4_add_ref : forall s r, R4 s (add_ref s r).
Proof.
  intros s r. unfold add_ref. destruct (simple s); [apply R4_refl|].
  split; [cbn; lia|]. split; [unfold has_err; cbn; auto|]. split; [cbn; lia|rkeep s].
Qed.
Lemma R4_add_class : forall s c, R4 s (add_class s c).
Proof. intros. split; [cbn; lia|]. split; [unfold has_err; cbn; auto|]. split; [cbn; lia|rkeep s]. Qed.
Lemma R4_add_alloc : forall s n, R4 s (add_alloc s n).
Proof.
  intros. split; [cbn; lia|]. split; [unfold has_err; cbn; auto|]. split; [cbn; lia|].
  intros L HL HJ. eapply (J_pay L s _ n n 1); [reflexivity|reflexivity|unfold tm; cbn; lia|lia|exact HJ].
Qed.
Lemma R4_charge : forall s n, R4 s (charge s n).
Proof. intros. unfold charge. destruct (n =? 0)%N; [apply R4_refl|apply R4_add_alloc]. Qed.
Lemma R4_add_rsv : forall s n, R4 s (add_rsv s n).
Proof. intros. split; [cbn; lia|]. split; [unfold has_err; cbn; auto|]. split; [cbn; lia|rkeep s]. Qed.
Lemma R4_add_excess : forall s n, R4 s (add_excess s n).
Proof. intros. split; [cbn; lia|]. split; [unfold has_err; cbn; auto|]. split; [cbn; lia|rkeep s]. Qed.
Lemma R4_add_steps : forall s n, R4 s (add_steps s n).
Proof. intros. split; [cbn; lia|]. split; [unfold has_err; cbn; auto|]. split; [cbn; lia|rkeep s]. Qed.
Lemma R4_set_corrupt : forall s, R4 s (set_corrupt s).
Proof. intros. split; [cbn; lia|]. split; [unfold has_err; cbn; auto|]. split; [cbn; lia|rkeep s]. Qed.
Lemma R4_set_simple : forall s b, R4 s (set_simple s b).
Proof. intros. split; [cbn; lia|]. split; [unfold has_err; cbn; auto|]. split; [cbn; lia|rkeep s]. Qed.
Lemma R4_reset_refs : forall s, R4 s (reset_refs s).
Proof. intros. split; [cbn; lia|]. split; [unfold has_err; cbn; auto|]. split; [cbn; lia|rkeep s]. Qed.
Lemma R4_spin_by : forall s n p, R4 s (spin_by s n p).
Proof.
  intros. split; [cbn; lia|]. split; [unfold has_err; cbn; auto|]. split; [cbn; lia|].
  intros L HL HJ. eapply (J_pay L s _ (n * p) p n); [reflexivity|reflexivity|unfold tm; cbn; lia|lia|exact HJ].
Qed.
Lemma R4_skip_by : forall s n p, R4 s (skip_by s n p).
Proof.
  intros. split; [cbn; lia|]. split; [unfold has_err; cbn; auto|]. split; [cbn; lia|].
  intros L HL HJ. eapply (J_pay L s _ (n * p) p n); [reflexivity|reflexivity|unfold tm; cbn; lia|lia|exact HJ].
Qed.
(* the input ran out: everything left counts as consumed *)
Lemma R4_short_by : forall s e ex a u, (a <= u * (ex + N.of_nat (len (rest s))))%N ->
  R4 s (short_by s (merge (err s) e) ex a u).
Proof.
  intros s e ex a u Ha. split; [cbn; lia|]. split; [unfold has_err at 2; cbn; apply has_err_merge|]. split; [cbn; lia|].
  intros L HL HJ. eapply (J_pay L s _ a u (ex + N.of_nat (len (rest s)))); [reflexivity|reflexivity| |exact Ha|exact HJ].
  unfold tm. cbn [steps excess rest short_by len]. lia.
Qed.


(* ---- the same for R *)
Ltac r4 lem := intros; apply R_of4; [apply lem; assumption|reflexivity|reflexivity].
Lemma R_set_rest : forall s r e d, (len r <= len (rest s))%nat -> R s (set_rest s r (merge (err s) e) d).
Proof. r4 R4_set_rest. Qed.
Lemma R_set_rest_same : forall s r d, (len r <= len (rest s))%nat -> R s (set_rest s r (err s) d).
Proof. r4 R4_set_rest_same. Qed.
Lemma R_set_error : forall s k, R s (set_error s k). Proof. r4 R4_set_error. Qed.
Lemma R_force_error : forall s k, R s (force_error s k). Proof. r4 R4_force_error. Qed.
Lemma R_add_ref : forall s r, R s (add_ref s r).
Proof. intros. apply R_of4; [apply R4_add_ref|unfold add_ref; destruct (simple s); reflexivity|unfold add_ref; destruct (simple s); reflexivity]. Qed.
Lemma R_add_class : forall s c, R s (add_class s c). Proof. r4 R4_add_class. Qed.
Lemma R_add_alloc : forall s n, R s (add_alloc s n). Proof. r4 R4_add_alloc. Qed.
Lemma R_charge : forall s n, R s (charge s n).
Proof. intros. unfold charge. destruct (n =? 0)%N; [apply R_refl|apply R_add_alloc]. Qed.
Lemma R_add_rsv : forall s n, R s (add_rsv s n). Proof. r4 R4_add_rsv. Qed.
Lemma R_add_excess : forall s n, R s (add_excess s n). Proof. r4 R4_add_excess. Qed.
Lemma R_add_steps : forall s n, R s (add_steps s n). Proof. r4 R4_add_steps. Qed.
Lemma R_set_corrupt : forall s, R s (set_corrupt s). Proof. r4 R4_set_corrupt. Qed.
Lemma R_set_simple : forall s b, R s (set_simple s b). Proof. r4 R4_set_simple. Qed.
Lemma R_reset_refs : forall s, R s (reset_refs s). Proof. r4 R4_reset_refs. Qed.
Lemma R_skip_by : forall s n p, R s (skip_by s n p). Proof. r4 R4_skip_by. Qed.
Lemma R_short_by : forall s e ex a u, (a <= u * (ex + N.of_nat (len (rest s))))%N ->
  R s (short_by s (merge (err s) e) ex a u).
Proof. r4 R4_short_by. Qed.
(* spinning happens only in a decoder whose loops do not stop *)
Lemma R_spin_by : forall s n p, lstop s = false -> R s (spin_by s n p).
Proof. intros s n p H. split; [apply R4_spin_by|]. split; [reflexivity|]. intros H1. congruence. Qed.
Lemma stuck_not_stopping : forall s, lstop s && has_err s = false -> stuck s = true -> lstop s = false.
Proof.
  intros s H1 H2. unfold stuck in H2. destruct (rest s); [|discriminate]. rewrite H2 in H1.
  destruct (lstop s); [discriminate|reflexivity].
Qed.

(* ---- primitives returning a pair *)
Lemma next_byte_eq : forall s, next_byte s =
  (fst (s_nextByte (rest s, None)),
   set_rest s (fst (snd (s_nextByte (rest s, None)))) (merge (err s) (snd (snd (s_nextByte (rest s, None))))) 1).
Proof. intros s. unfold next_byte. destruct (s_nextByte _) as [b [r e]]. reflexivity. Qed.
Lemma skip1_eq : forall s, skip1 s =
  set_rest s (fst (s_skip (rest s, None))) (merge (err s) (snd (s_skip (rest s, None)))) 1.
Proof. intros s. unfold skip1. destruct (s_skip _) as [r e]. reflexivity. Qed.
Lemma read_int_eq : forall s, read_int s =
  (fst (s_readInt64 (rest s, None)),
   set_rest s (fst (snd (s_readInt64 (rest s, None)))) (merge (err s) (snd (snd (s_readInt64 (rest s, None))))) 1).
Proof. intros s. unfold read_int. destruct (s_readInt64 _) as [b [r e]]. reflexivity. Qed.
Lemma until_semi_eq : forall s, snd (until_semi s) =
  set_rest s (fst (snd (s_until semi (rest s, None)))) (merge (err s) (snd (snd (s_until semi (rest s, None))))) 1.
Proof. intros s. unfold until_semi. destruct (s_until _ _) as [b [r e]]. reflexivity. Qed.
Lemma read_time_eq : forall s, read_time s =
  add_ref (set_rest s (fst (snd (s_readHMS (rest s, None)))) (merge (err s) (snd (snd (s_readHMS (rest s, None))))) 1) RTime.
Proof. intros s. unfold read_time. destruct (s_readHMS _) as [[a b] [r e]]. reflexivity. Qed.
Lemma read_datetime_eq : forall s, read_datetime s =
  add_ref (set_rest s (fst (snd (s_readDateTime (rest s, None)))) (merge (err s) (snd (snd (s_readDateTime (rest s, None))))) 1) RTime.
Proof. intros s. unfold read_datetime. destruct (s_readDateTime _) as [[a b] [r e]]. reflexivity. Qed.

Lemma R_next_byte : forall s, R s (snd (next_byte s)).
Proof. intros s. rewrite next_byte_eq. cbn [snd]. apply R_set_rest. apply sl_nextByte. Qed.
Lemma R_skip1 : forall s, R s (skip1 s).
Proof. intros s. rewrite skip1_eq. apply R_set_rest. apply sl_skip. Qed.
Lemma R_read_int : forall s, R s (snd (read_int s)).
Proof. intros s. rewrite read_int_eq. cbn [snd]. apply R_set_rest. apply sl_readInt64. Qed.
Lemma R_until_semi : forall s, R s (snd (until_semi s)).
Proof. intros s. rewrite until_semi_eq. apply R_set_rest. apply sl_until. Qed.
Lemma R_read_time : forall s, R s (read_time s).
Proof. intros s. rewrite read_time_eq. eapply R_trans; [apply R_set_rest; apply sl_readHMS|apply R_add_ref]. Qed.
Lemma R_read_datetime : forall s, R s (read_datetime s).
Proof. intros s. rewrite read_datetime_eq. eapply R_trans; [apply R_set_rest; apply sl_readDateTime|apply R_add_ref]. Qed.
Lemma R_inf_txt : forall s, R s (snd (inf_txt s)).
Proof.
  intros s. unfold inf_txt. pose proof (R_next_byte s) as H. destruct (next_byte s) as [b s1]. cbn [snd] in *. exact H.
Qed.

(* solving R goals by walking back through the updates *)
Ltac solveR :=
  match goal with
  | |- R ?s ?s => apply R_refl
  | H : R ?s ?x |- R ?s ?x => exact H
  | |- R ?s (if ?c then _ else _) => destruct c; solveR
  | |- R ?s (match ?c with Some _ => _ | None => _ end) => destruct c; solveR
  | |- R ?s (set_error ?x _) => apply (R_trans s x); [solveR|apply R_set_error]
  | |- R ?s (force_error ?x _) => apply (R_trans s x); [solveR|apply R_force_error]
  | |- R ?s (add_ref ?x _) => apply (R_trans s x); [solveR|apply R_add_ref]
  | |- R ?s (add_class ?x _) => apply (R_trans s x); [solveR|apply R_add_class]
  | |- R ?s (add_alloc ?x _) => apply (R_trans s x); [solveR|apply R_add_alloc]
  | |- R ?s (add_excess ?x _) => apply (R_trans s x); [solveR|apply R_add_excess]
  | |- R ?s (add_rsv ?x _) => apply (R_trans s x); [solveR|apply R_add_rsv]
  | |- R ?s (charge ?x _) => apply (R_trans s x); [solveR|apply R_charge]
  | |- R ?s (add_steps ?x _) => apply (R_trans s x); [solveR|apply R_add_steps]
  | |- R ?s (set_corrupt ?x) => apply (R_trans s x); [solveR|apply R_set_corrupt]
  | |- R ?s (set_simple ?x _) => apply (R_trans s x); [solveR|apply R_set_simple]
  | |- R ?s (reset_refs ?x) => apply (R_trans s x); [solveR|apply R_reset_refs]
  | |- R ?s (spin_by ?x _ _) => apply (R_trans s x); [solveR|apply R_spin_by; eauto using stuck_not_stopping]
  | |- R ?s (skip_by ?x _ _) => apply (R_trans s x); [solveR|apply R_skip_by]
  | |- R ?s (skip1 ?x) => apply (R_trans s x); [solveR|apply R_skip1]
  | |- R ?s (read_time ?x) => apply (R_trans s x); [solveR|apply R_read_time]
  | |- R ?s (read_datetime ?x) => apply (R_trans s x); [solveR|apply R_read_datetime]
  | H : R ?a ?x |- R ?s ?x => apply (R_trans s a); [solveR|exact H]
  end.

(* opening the pair-returning primitives that occur in a goal *)
Ltac open_prims :=
  repeat match goal with
  | |- context[next_byte ?s] =>
      let H := fresh "Hn" in pose proof (R_next_byte s) as H; destruct (next_byte s) as [? ?]; cbn [snd] in H
  | |- context[read_int ?s] =>
      let H := fresh "Hi" in pose proof (R_read_int s) as H; destruct (read_int s) as [? ?]; cbn [snd] in H
  | |- context[until_semi ?s] =>
      let H := fresh "Hu" in pose proof (R_until_semi s) as H; destruct (until_semi s) as [? ?]; cbn [snd] in H
  | |- context[inf_txt ?s] =>
      let H := fresh "Hf" in pose proof (R_inf_txt s) as H; destruct (inf_txt s) as [? ?]; cbn [snd] in H
  end.

Ltac splitR :=
  match goal with
  | |- R _ _ /\ _ => split; [solveR|splitR]
  | |- R _ _ => solveR
  | |- True => exact I
  end.
Ltac leafA :=
  match goal with
  | |- allR _ (ROk _ _) => cbn [allR]; solveR
  | |- allR _ (RHaz _ _ _) => cbn [allR]; splitR
  | |- allR _ (RAsk _ _) => exact I
  | |- allR _ (RUnmod _) => exact I
  | |- allR _ RFuel => exact I
  end.

Lemma R_set_rest_le : forall s0 s r e d, R s0 s -> (len r <= len (rest s))%nat -> R s0 (set_rest s r (merge (err s) e) d).
Proof. intros. eapply R_trans; [eassumption|apply R_set_rest; assumption]. Qed.
Lemma R_set_rest_same_le : forall s0 s r d, R s0 s -> (len r <= len (rest s))%nat -> R s0 (set_rest s r (err s) d).
Proof. intros. eapply R_trans; [eassumption|apply R_set_rest_same; assumption]. Qed.

Lemma fits_false : forall w n, fits w n = false -> (Z.of_nat (len w) < n)%Z.
Proof.
  induction w as [|b w IH]; intros n H; cbn [fits] in H.
  - destruct (n <=? 0)%Z eqn:E; [discriminate|]. cbn. lia.
  - destruct (n <=? 0)%Z eqn:E; [discriminate|]. apply IH in H. cbn [len]. lia.
Qed.

Lemma allR_next_n : forall fx n s, allR s (next_n fx n s).
Proof.
  intros fx n s. unfold next_n. destruct (rest s) as [|b w] eqn:E.
  - cbn [allR]. apply R_set_rest. rewrite E. cbn. lia.
  - destruct (n <? 0)%Z; [leafA|].
    assert (Hs : forall k d, R s (set_rest s (skipn k (b :: w)) (err s) d)).
    { intros k d. apply R_set_rest_same. rewrite E. apply len_skipn. }
    destruct (fits (b :: w) n) eqn:Ef; [cbn [allR]; apply Hs|].
    apply fits_false in Ef.
    assert (H0 : forall ex, R s (short_by s (merge (err s) (Some EEOF)) ex 0 1)) by (intros; apply R_short_by; lia).
    destruct (fx_next fx); [cbn [allR]; apply R_short_by; rewrite E; lia|].
    destruct (max_alloc <? Z.to_N n)%N; cbn [allR]; [split; [apply R_refl|apply H0]|].
    apply R_short_by. rewrite E. lia.
Qed.

Lemma allR_read_str_slow : forall fx n b w s, rest s = b :: w -> allR s (read_str_slow fx n (b :: w) s).
Proof.
  intros fx n b w s E. unfold read_str_slow.
  assert (Hs : forall k d, R s (set_rest s (skipn k (b :: w)) (err s) d)).
  { intros k d. apply R_set_rest_same. rewrite E. apply len_skipn. }
  assert (H0 : forall ex, R s (short_by s (merge (err s) (Some EEOF)) ex 0 3)) by (intros; apply R_short_by; lia).
  destruct (str_scan _ false _ _ _); try leafA.
  destruct ((off <? len (b :: w)) || _); [cbn [allR]; apply Hs|].
  destruct (fx_str fx); [cbn [allR]; apply R_short_by; rewrite E; lia|].
  destruct (wrap_int (n0 * 3) <? 0)%Z; [cbn [allR]; split; [apply R_refl|apply H0]|].
  destruct (max_alloc <? _)%N; cbn [allR]; [split; [apply R_refl|apply H0]|].
  apply R_short_by. lia.
Qed.

Lemma allR_read_str : forall fx n s, allR s (read_str fx n s).
Proof.
  intros fx n s. unfold read_str. destruct (n =? 0)%Z; [leafA|].
  destruct (rest s) as [|b w] eqn:E; [leafA|].
  assert (Hs : forall k d, R s (set_rest s (skipn k (b :: w)) (err s) d)).
  { intros k d. apply R_set_rest_same. rewrite E. apply len_skipn. }
  destruct (wrap_int (n * 3) <=? Z.of_nat (len (b :: w)))%Z; [|apply allR_read_str_slow; exact E].
  destruct (str_scan _ true _ _ _); try leafA.
  - destruct (len (b :: w) <? off); [leafA|]. cbn [allR]. apply Hs.
  - cbn [allR]. split; [apply R_refl|apply allR_read_str_slow; exact E].
Qed.

Section Mono.
Variable orc : okind -> bytes -> option bool.
Variable registry : list (bytes * shape).
Variable fx : fixes.

(* a solver for goals [allR s0 e]: binds, conditionals, the pair primitives, and the lemmas in hand *)
Ltac stepA :=
  match goal with
  | |- allR _ (bnd _ _) => apply allR_bnd; [|intros ? ?]
  | |- allR _ (ROk _ _) => leafA
  | |- allR _ (RHaz _ _ _) => cbn [allR]; split; [solveR|]
  | |- R _ _ => solveR
  | |- allR _ (RAsk _ _) => exact I
  | |- allR _ (RUnmod _) => exact I
  | |- allR _ RFuel => exact I
  | |- allR _ (ask _ _ _ _) => unfold ask; destruct (orc _ _)
  | |- allR _ (if ?c then _ else _) => destruct c
  | |- allR ?s0 (next_n _ _ ?x) => apply (allR_weaken _ _ s0 x); [solveR|apply allR_next_n]
  | |- allR ?s0 (read_str _ _ ?x) => apply (allR_weaken _ _ s0 x); [solveR|apply allR_read_str]
  | |- allR _ (let '(_, _) := ?p in _) => open_prims
  | |- allR _ (match ?p with (_, _) => _ end) => open_prims
  end.
Ltac solveA := repeat stepA.

Lemma allR_read_string_body : forall s, allR s (read_string_body fx s).
Proof. intros s. unfold read_string_body. solveA. Qed.
Lemma allR_read_string : forall s, allR s (read_string fx s).
Proof. intros s. unfold read_string. apply allR_bnd; [apply allR_read_string_body|]. intros. solveA. Qed.
Lemma allR_read_bytes_body : forall s, allR s (read_bytes_body fx s).
Proof. intros s. unfold read_bytes_body. solveA. Qed.
Lemma allR_read_bytes : forall s, allR s (read_bytes fx s).
Proof. intros s. unfold read_bytes. apply allR_bnd; [apply allR_read_bytes_body|]. intros. solveA. Qed.
Lemma allR_read_uuid : forall s, allR s (read_uuid orc fx s).
Proof. intros s. unfold read_uuid. solveA. Qed.
Lemma allR_read_float : forall k s, allR s (read_float orc k s).
Proof. intros k s. unfold read_float. solveA. Qed.
Lemma allR_parse_force : forall k t s, allR s (parse_force orc k t s).
Proof. intros k t s. unfold parse_force. solveA. Qed.
Lemma allR_parse_soft : forall k t s, allR s (parse_soft orc k t s).
Proof. intros k t s. unfold parse_soft. solveA. Qed.

Lemma allR_parse_big : forall b t s, allR s (parse_big orc b t s).
Proof. intros b t s. unfold parse_big, parse_rat. destruct b; try apply allR_parse_soft. solveA; apply allR_parse_soft. Qed.
Lemma allR_float_to_int : forall t s, allR s (float_to_int orc t s).
Proof. intros t s. unfold float_to_int. apply allR_bnd; [apply allR_parse_soft|]. intros. solveA. Qed.

Ltac useA lem := match goal with |- allR ?s0 (_ ?x) => idtac end.

Ltac stepB :=
  match goal with
  | |- allR ?s0 (read_string_body _ ?x) => apply (allR_weaken _ _ s0 x); [solveR|apply allR_read_string_body]
  | |- allR ?s0 (read_string _ ?x) => apply (allR_weaken _ _ s0 x); [solveR|apply allR_read_string]
  | |- allR ?s0 (read_bytes_body _ ?x) => apply (allR_weaken _ _ s0 x); [solveR|apply allR_read_bytes_body]
  | |- allR ?s0 (read_bytes _ ?x) => apply (allR_weaken _ _ s0 x); [solveR|apply allR_read_bytes]
  | |- allR ?s0 (read_uuid _ _ ?x) => apply (allR_weaken _ _ s0 x); [solveR|apply allR_read_uuid]
  | |- allR ?s0 (read_float _ _ ?x) => apply (allR_weaken _ _ s0 x); [solveR|apply allR_read_float]
  | |- allR ?s0 (parse_force _ _ _ ?x) => apply (allR_weaken _ _ s0 x); [solveR|apply allR_parse_force]
  | |- allR ?s0 (parse_soft _ _ _ ?x) => apply (allR_weaken _ _ s0 x); [solveR|apply allR_parse_soft]
  | |- allR ?s0 (parse_big _ _ _ ?x) => apply (allR_weaken _ _ s0 x); [solveR|apply allR_parse_big]
  | |- allR ?s0 (float_to_int _ _ ?x) => apply (allR_weaken _ _ s0 x); [solveR|apply allR_float_to_int]
  | H : forall ch r s, allR s (convert _ _ ch r ?e s) |- allR ?s0 (convert _ _ _ _ ?e ?x) =>
      apply (allR_weaken _ _ s0 x); [solveR|apply H]
  | _ => stepA
  end.
Ltac solveB := repeat stepB.

Lemma allR_convert : forall dest ch r s, allR s (convert orc fx ch r dest s).
Proof.
  induction dest; intros ch r s; destruct r; cbn [convert]; solveB;
    try (match goal with |- allR _ (match reach_of ?x with _ => _ end) => destruct (reach_of x) end; solveB).
Qed.

Lemma allR_read_reference : forall dest s, allR s (read_reference orc fx dest s).
Proof.
  intros dest s. unfold read_reference. open_prims.
  destruct ((z <? 0)%Z || _); [leafA|].
  destruct (nth_error _ _); [|leafA].
  match goal with |- allR _ (if ?c then _ else _) => destruct c end; [leafA|].
  apply allR_bnd; [apply (allR_weaken _ _ s s0); [solveR|apply allR_convert]|].
  intros a x. destruct a; leafA.
Qed.

Lemma allR_counted : forall m per np n s, allR s (counted fx m per np n s).
Proof. intros m per np n s. unfold counted. solveB; destruct m; leafA. Qed.

(* loops: the body keeps R, so does the loop *)
Lemma allR_loop : forall (body : st -> out unit) slot per, (forall x, allR x (body x)) ->
  forall k n s, allR s (loop k body slot per n s).
Proof.
  intros body slot per Hb. induction k as [|k IH]; intros n s; cbn [loop].
  - (destruct (n <=? 0)%Z; [leafA|]). destruct (lstop s && has_err s) eqn:E1; [leafA|]; destruct (stuck s) eqn:E2; [cbn [allR]; apply R_spin_by; eapply stuck_not_stopping; eauto|]. exact I.
  - (destruct (n <=? 0)%Z; [leafA|]). destruct (lstop s && has_err s) eqn:E1; [leafA|]; destruct (stuck s) eqn:E2; [cbn [allR]; apply R_spin_by; eapply stuck_not_stopping; eauto|].
    apply allR_bnd; [apply (allR_weaken _ _ s (charge s slot)); [apply R_charge|apply Hb]|].
    intros a x. apply IH.
Qed.

Lemma allR_iter_names : forall (body : bytes -> st -> out unit) slot, (forall nm x, allR x (body nm x)) ->
  forall l s, allR s (iter_names body slot l s).
Proof.
  intros body slot Hb. induction l as [|nm l IH]; intros s; cbn [iter_names]; [leafA|].
  destruct (lstop s && has_err s) eqn:E1; [leafA|]; destruct (stuck s) eqn:E2; [cbn [allR]; apply R_spin_by; eapply stuck_not_stopping; eauto|].
  apply allR_bnd; [apply (allR_weaken _ _ s (charge s slot)); [apply R_charge|apply Hb]|].
  intros a x. apply IH.
Qed.

Lemma allR_over_names : forall lf (body : bytes -> st -> out unit) per c, (forall nm x, allR x (body nm x)) ->
  forall s, allR s (over_names lf body per c s).
Proof.
  intros lf body per c Hb s. unfold over_names. apply allR_bnd; [apply allR_iter_names; exact Hb|].
  intros a x. apply allR_loop. intros y. apply Hb.
Qed.

Section BodyMono.
Variable rv : shape -> st -> out aval.
Variable rt : shape -> byte -> st -> out aval.
Variable lf : nat.
Hypothesis Hrv : forall sh x, allR x (rv sh x).
Hypothesis Hrt : forall sh t x, allR x (rt sh t x).

Ltac wk lem := match goal with |- allR ?s0 ?e =>
  match e with context[?x] => match type of x with st => apply (allR_weaken _ _ s0 x); [solveR|apply lem] end end end.

Ltac stepC :=
  match goal with
  | |- allR ?s0 (rv _ ?x) => apply (allR_weaken _ _ s0 x); [solveR|apply Hrv]
  | |- allR ?s0 (rt _ _ ?x) => apply (allR_weaken _ _ s0 x); [solveR|apply Hrt]
  | |- allR ?s0 (read_reference _ _ _ ?x) => apply (allR_weaken _ _ s0 x); [solveR|apply allR_read_reference]
  | |- allR ?s0 (counted _ _ _ _ _ ?x) => apply (allR_weaken _ _ s0 x); [solveR|apply allR_counted]
  | |- allR ?s0 (loop _ _ _ _ _ ?x) => apply (allR_weaken _ _ s0 x); [solveR|apply allR_loop; intros ?]
  | |- allR ?s0 (over_names _ _ _ _ ?x) => apply (allR_weaken _ _ s0 x); [solveR|apply allR_over_names; intros ? ?]
  | |- allR _ (unit_of _) => unfold unit_of
  | |- allR _ (match flookup _ _ with Some _ => _ | None => _ end) => destruct (flookup _ _)
  | |- allR _ (match ctype _ with Some _ => _ | None => _ end) => destruct (ctype _)
  | |- allR _ (match reg_lookup _ _ with Some _ => _ | None => _ end) => destruct (reg_lookup _ _)
  | _ => stepB
  end.
Ltac solveC := repeat stepC.

Lemma allR_names_loop : forall k n acc s, allR s (names_loop rv k n acc s).
Proof.
  induction k as [|k IH]; intros n acc s; cbn [names_loop].
  - (destruct (n <=? 0)%Z; [leafA|]). destruct (lstop s && has_err s) eqn:E1; [leafA|]; destruct (stuck s) eqn:E2; [cbn [allR]; apply R_spin_by; eapply stuck_not_stopping; eauto|]. exact I.
  - (destruct (n <=? 0)%Z; [leafA|]). destruct (lstop s && has_err s) eqn:E1; [leafA|]; destruct (stuck s) eqn:E2; [cbn [allR]; apply R_spin_by; eapply stuck_not_stopping; eauto|].
    apply allR_bnd; [apply (allR_weaken _ _ s (add_alloc s 16)); [apply R_add_alloc|apply Hrv]|].
    intros a x. apply IH.
Qed.

Lemma allR_map_loop : forall ks vs per k n acc s, allR s (map_loop rv k ks vs per n acc s).
Proof.
  intros ks vs per. induction k as [|k IH]; intros n acc s; cbn [map_loop].
  - (destruct (n <=? 0)%Z; [leafA|]). destruct (lstop s && has_err s) eqn:E1; [leafA|]; destruct (stuck s) eqn:E2; [cbn [allR]; apply R_spin_by; eapply stuck_not_stopping; eauto|]. exact I.
  - (destruct (n <=? 0)%Z; [leafA|]). destruct (lstop s && has_err s) eqn:E1; [leafA|]; destruct (stuck s) eqn:E2; [cbn [allR]; apply R_spin_by; eapply stuck_not_stopping; eauto|].
    apply allR_bnd; [apply (allR_weaken _ _ s (add_alloc s (map_entry ks vs))); [apply R_add_alloc|apply Hrv]|].
    intros kv x. apply allR_bnd; [apply Hrv|]. intros vv y.
    destruct ks; try apply IH. destruct (hashable kv); [apply IH|].
    cbn [allR]. split; [apply R_refl|]. apply (allR_weaken _ _ y (set_error y KDecode)); [apply R_set_error|apply IH].
Qed.

Ltac stepD :=
  match goal with
  | |- allR ?s0 (names_loop _ _ _ _ ?x) => apply (allR_weaken _ _ s0 x); [solveR|apply allR_names_loop]
  | |- allR ?s0 (map_loop _ _ _ _ _ _ _ ?x) => apply (allR_weaken _ _ s0 x); [solveR|apply allR_map_loop]
  | |- allR _ ((let '(_, _) := ?p in _) _) => is_var p; destruct p
  | |- allR _ (let '(_, _) := ?p in _) => is_var p; destruct p
  | _ => stepC
  end.
Ltac solveD := repeat stepD.

Lemma allR_read_struct : forall sh s, allR s (read_struct registry fx rv lf sh s).
Proof.
  intros sh s. unfold read_struct. solveD.
Qed.

Lemma allR_get_class : forall (k : cinfo -> st -> out aval) s, (forall c x, allR x (k c x)) -> allR s (get_class s k).
Proof.
  intros k s Hk. unfold get_class. open_prims. destruct ((z <? 0)%Z || _); [leafA|].
  destruct (nth_error _ _); [|leafA]. apply (allR_weaken _ _ _ s0); [solveR|apply Hk].
Qed.

Lemma allR_decode_field : forall f nm s, allR s (decode_field rv f nm s).
Proof. intros f nm s. unfold decode_field. solveD. Qed.

Lemma allR_read_object : forall s, allR s (read_object rv lf s).
Proof.
  intros s. unfold read_object. apply allR_get_class. intros c x. solveD.
  apply allR_decode_field.
Qed.

Lemma allR_decode_error : forall tag s, allR s (decode_error rt tag s).
Proof. intros tag s. unfold decode_error. solveD. Qed.

Lemma allR_default_decode : forall sh tag s, allR s (default_decode orc registry fx rv rt lf sh tag s).
Proof.
  intros sh tag s. unfold default_decode. solveD.
  - apply allR_read_struct.
  - apply allR_decode_error.
Qed.

Lemma allR_str_u : forall s, allR s (str_u fx s).
Proof. intros s. unfold str_u. solveD. Qed.
Lemma allR_str_s : forall s, allR s (str_s fx s).
Proof. intros s. unfold str_s. solveD. Qed.

Lemma allR_list_iface : forall s, allR s (list_iface fx rv lf s).
Proof. intros s. unfold list_iface. solveD. Qed.

Lemma allR_decode_map : forall ks vs s, allR s (decode_map fx rv lf ks vs s).
Proof.
  intros ks vs s. unfold decode_map. solveD.
Qed.

Ltac stepE :=
  match goal with
  | |- allR ?s0 (read_struct _ _ _ _ _ ?x) => apply (allR_weaken _ _ s0 x); [solveR|apply allR_read_struct]
  | |- allR ?s0 (read_object _ _ ?x) => apply (allR_weaken _ _ s0 x); [solveR|apply allR_read_object]
  | |- allR ?s0 (decode_error _ _ ?x) => apply (allR_weaken _ _ s0 x); [solveR|apply allR_decode_error]
  | |- allR ?s0 (default_decode _ _ _ _ _ _ _ _ ?x) => apply (allR_weaken _ _ s0 x); [solveR|apply allR_default_decode]
  | |- allR ?s0 (str_u _ ?x) => apply (allR_weaken _ _ s0 x); [solveR|apply allR_str_u]
  | |- allR ?s0 (str_s _ ?x) => apply (allR_weaken _ _ s0 x); [solveR|apply allR_str_s]
  | |- allR ?s0 (list_iface _ _ _ ?x) => apply (allR_weaken _ _ s0 x); [solveR|apply allR_list_iface]
  | |- allR ?s0 (decode_map _ _ _ _ _ ?x) => apply (allR_weaken _ _ s0 x); [solveR|apply allR_decode_map]
  | |- allR ?s0 (decode_field _ _ _ ?x) => apply (allR_weaken _ _ s0 x); [solveR|apply allR_decode_field]
  | |- allR ?s0 (get_class ?x _) => apply (allR_weaken _ _ s0 x); [solveR|apply allR_get_class; intros ? ?]
  | _ => stepD
  end.
Ltac solveE := repeat stepE.

Lemma allR_dec_iface : forall tag s, allR s (dec_iface orc registry fx rv lf tag s).
Proof. intros tag s. unfold dec_iface. solveE. Qed.
Lemma allR_dec_num : forall k tag s, allR s (dec_num orc registry fx rv rt lf k tag s).
Proof. intros k tag s. unfold dec_num. solveE; destruct k; solveE. Qed.
Lemma allR_dec_string : forall tag s, allR s (dec_string orc registry fx rv rt lf tag s).
Proof. intros tag s. unfold dec_string. solveE. Qed.
Lemma allR_uint8_slice : forall s, allR s (uint8_slice fx rv lf s).
Proof. intros s. unfold uint8_slice. solveE. Qed.
Lemma allR_dec_bytes : forall tag s, allR s (dec_bytes orc registry fx rv rt lf tag s).
Proof. intros tag s. unfold dec_bytes. solveE. apply allR_uint8_slice. Qed.
Lemma allR_dec_big : forall b tag s, allR s (dec_big orc registry fx rv rt lf b tag s).
Proof. intros b tag s. unfold dec_big. solveE; destruct b; solveE. Qed.
Lemma allR_dec_time : forall tag s, allR s (dec_time orc registry fx rv rt lf tag s).
Proof. intros tag s. unfold dec_time. solveE. Qed.
Lemma allR_dec_uuid : forall tag s, allR s (dec_uuid orc registry fx rv rt lf tag s).
Proof. intros tag s. unfold dec_uuid. solveE. Qed.
Lemma allR_dec_slice : forall e tag s, allR s (dec_slice orc registry fx rv rt lf e tag s).
Proof. intros e tag s. unfold dec_slice. solveE. Qed.
Lemma allR_dec_array_list : forall n e s, allR s (dec_array_list fx rv lf n e s).
Proof. intros n e s. unfold dec_array_list. solveE. Qed.
Lemma allR_dec_array : forall n e tag s, allR s (dec_array orc registry fx rv rt lf n e tag s).
Proof. intros n e tag s. unfold dec_array. solveE; apply allR_dec_array_list. Qed.
Lemma allR_dec_map : forall ks vs tag s, allR s (dec_map orc registry fx rv rt lf ks vs tag s).
Proof. intros ks vs tag s. unfold dec_map. solveE; destruct ks; solveE. Qed.
Lemma allR_dec_struct : forall nm f tag s, allR s (dec_struct orc registry fx rv rt lf nm f tag s).
Proof. intros nm f tag s. unfold dec_struct. solveE. Qed.
Lemma allR_dec_ptr : forall e tag s, allR s (dec_ptr orc fx rt e tag s).
Proof. intros e tag s. unfold dec_ptr. solveE. destruct (ptr_core e). solveE. Qed.

Lemma allR_dec_tag_body : forall sh tag s, allR s (dec_tag_body orc registry fx rv rt lf sh tag s).
Proof.
  intros sh tag s. destruct sh; cbn [dec_tag_body].
  - apply allR_dec_iface. - apply allR_dec_num. - apply allR_dec_string. - apply allR_dec_bytes.
  - apply allR_dec_big. - exact I. - apply allR_dec_time. - apply allR_dec_uuid. - apply allR_dec_slice.
  - apply allR_dec_array. - apply allR_dec_map. - apply allR_dec_struct. - apply allR_dec_ptr.
Qed.
End BodyMono.

Lemma allR_dec_tag : forall fuel sh tag s, allR s (dec_tag orc registry fx fuel sh tag s).
Proof.
  induction fuel as [|f IH]; intros sh tag s; cbn [dec_tag]; [exact I|].
  apply (allR_weaken _ _ s (add_steps s 1)); [apply R_add_steps|].
  apply allR_dec_tag_body.
  - intros sh' x. destruct (stuck x).
    + cbn [allR]. apply R_add_alloc.
    + pose proof (R_next_byte x) as H. destruct (next_byte x) as [t x1]. cbn [snd] in H.
      eapply allR_weaken; [exact H|apply IH].
  - intros sh' t x. apply IH.
Qed.

Lemma allR_dec_val : forall fuel sh s, allR s (dec_val orc registry fx fuel sh s).
Proof.
  intros fuel sh s. unfold dec_val. destruct (stuck s).
  - cbn [allR]. apply R_add_alloc.
  - pose proof (R_next_byte s) as H. destruct (next_byte s) as [t x1]. cbn [snd] in H.
    eapply allR_weaken; [exact H|apply allR_dec_tag].
Qed.

Ltac stepF :=
  match goal with
  | |- allR ?s0 (dec_val _ _ _ _ _ ?x) => apply (allR_weaken _ _ s0 x); [solveR|apply allR_dec_val]
  | |- allR ?s0 (dec_tag _ _ _ _ _ _ ?x) => apply (allR_weaken _ _ s0 x); [solveR|apply allR_dec_tag]
  | |- allR ?s0 (counted _ _ _ _ _ ?x) => apply (allR_weaken _ _ s0 x); [solveR|apply allR_counted]
  | _ => stepB
  end.
Ltac solveF := repeat stepF.

Lemma allR_header_simple : forall (h : aval) (k : bool -> out bool) s0,
  (forall b, allR s0 (k b)) -> allR s0 (header_simple orc h k).
Proof.
  intros h k s0 Hk. unfold header_simple. destruct h; auto.
  destruct (last_of _ _ _) as [v|]; auto. destruct v; auto.
  unfold ask. destruct (orc _ _); [apply Hk|exact I].
Qed.

Lemma allR_read_header : forall fuel s (k : byte -> aval -> st -> out bool),
  (forall t h x, allR x (k t h x)) -> allR s (read_header orc registry fx fuel s k).
Proof.
  intros fuel s k Hk. unfold read_header. open_prims. destruct (tag_is b "H").
  - apply allR_bnd; [apply (allR_weaken _ _ s s0); [solveR|apply allR_dec_val]|].
    intros h x. open_prims. eapply allR_weaken; [|apply Hk]. solveR.
  - eapply allR_weaken; [|apply Hk]. solveR.
Qed.

Lemma allR_args_loop : forall fuel m k i n s, allR s (args_loop orc registry fx fuel k m i n s).
Proof.
  intros fuel m. induction k as [|k IH]; intros i n s; cbn [args_loop].
  - (destruct (n <=? 0)%Z; [leafA|]). destruct (lstop s && has_err s) eqn:E1; [leafA|]; destruct (stuck s) eqn:E2; [cbn [allR]; apply R_spin_by; eapply stuck_not_stopping; eauto|]. exact I.
  - (destruct (n <=? 0)%Z; [leafA|]). destruct (lstop s && has_err s) eqn:E1; [leafA|]; destruct (stuck s) eqn:E2; [cbn [allR]; apply R_spin_by; eapply stuck_not_stopping; eauto|].
    apply allR_bnd; [|intros a x; apply IH].
    match goal with |- allR ?s0 (dec_val _ _ _ _ _ ?x) => apply (allR_weaken _ _ s0 x); [solveR|apply allR_dec_val] end.
Qed.

Lemma allR_decode_arguments : forall fuel missing m s, allR s (decode_arguments orc registry fx fuel missing m s).
Proof.
  intros fuel missing m s. unfold decode_arguments. solveF.
  match goal with |- allR ?s0 (args_loop _ _ _ _ _ _ _ _ ?x) => apply (allR_weaken _ _ s0 x); [solveR|apply allR_args_loop] end.
Qed.

Lemma allR_service_decode : forall fuel ms missing bs,
  allR (start fx bs false) (service_decode orc registry fx fuel ms missing bs).
Proof.
  intros fuel ms missing bs. unfold service_decode. destruct bs as [|b0 bs]; [cbn [allR]; apply R_refl|].
  apply allR_read_header. intros t h x. destruct (tag_is t "C").
  - apply allR_header_simple. intros smp. apply allR_bnd.
    + destruct smp; [apply (allR_weaken _ _ x (set_simple x true)); [solveR|apply allR_dec_val]|apply allR_dec_val].
    + intros nv y. destruct nv; try exact I. destruct (negb (ascii s)); [exact I|].
      destruct (find_method _ _); [apply allR_decode_arguments|].
      destruct missing; [apply allR_decode_arguments|leafA].
  - solveF.
Qed.

Lemma allR_results_loop : forall fuel rts n s, allR s (results_loop orc registry fx fuel rts n s).
Proof.
  intros fuel. induction rts as [|sh r IH]; intros n s; cbn [results_loop]; solveF.
  eapply allR_weaken; [apply R_refl|apply IH].
Qed.

Lemma allR_client_decode : forall fuel rts bs,
  allR (start fx bs false) (client_decode orc registry fx fuel rts bs).
Proof.
  intros fuel rts bs. unfold client_decode. apply allR_read_header. intros t h x. destruct (tag_is t "R").
  - apply allR_header_simple. intros smp.
    set (x1 := if smp then set_simple x true else x).
    assert (H1 : R x x1) by (unfold x1; destruct smp; solveR).
    destruct rts as [|sh [|sh2 r]].
    + leafA.
    + solveF.
    + open_prims. destruct (tag_is b "a").
      * open_prims. apply allR_bnd.
        { apply (allR_weaken _ _ _ (add_ref s0 RNil)); [solveR|apply allR_results_loop]. }
        intros. solveF.
      * solveF.
  - solveF.
Qed.
End Mono.

(* ------------------------------------------------------------------ what R gives *)

Lemma stuck_R : forall s s', R s s' -> stuck s = true -> stuck s' = true.
Proof.
  intros s s' [[H1 [H2 _]] _] H. unfold stuck in *. destruct (rest s) eqn:E; [|discriminate].
  destruct (rest s'); [auto|cbn in H1; lia].
Qed.

Fixpoint all_states {A} (P : st -> Prop) (r : out A) : Prop :=
  match r with
  | ROk _ s => P s
  | RHaz _ s k => P s /\ all_states P k
  | _ => True
  end.

Lemma allR_all_states : forall (A : Type) (r : out A) s0, allR s0 r -> all_states (R s0) r.
Proof. intros A r. induction r; intros s0 H; cbn in *; auto. destruct H. split; auto. Qed.

Lemma interp_done_state : forall (A : Type) (P : st -> Prop) chk (r : out A) a s,
  all_states P r -> interp chk r = VDone a s -> P s.
Proof.
  intros A P chk r. induction r as [a0 s0|h s0 k IH|k t|w|]; intros a s H E; cbn in *; try discriminate.
  - inversion E; subst. exact H.
  - destruct (chk h); [|discriminate]. destruct H. eapply IH; eauto.
Qed.
