(* Proofs about Model/Rate.v (C17, rate limiter). *)
From Coq Require Import List ZArith Bool Lia QArith.
From HV Require Import Model.Rate.
Import ListNotations.
Open Scope Z_scope.

Lemma gtb_true (a b : Z) : (a >? b) = true <-> a > b.
Proof. rewrite Z.gtb_ltb, Z.ltb_lt. lia. Qed.
Lemma gtb_false (a b : Z) : (a >? b) = false <-> a <= b.
Proof. rewrite Z.gtb_ltb, Z.ltb_ge. lia. Qed.

(* --- the stored value ---------------------------------------------------- *)

Lemma capped_le c x : capped c x <= x.
Proof.
  unfold capped. destruct (max_permits c) as [m|]; [|lia].
  destruct (x >? m * interval c) eqn:E; [apply gtb_true in E|]; lia.
Qed.

Lemma capped_le_max c m x : max_permits c = Some m -> capped c x <= m * interval c.
Proof.
  unfold capped. intros ->. destruct (x >? m * interval c) eqn:E; [lia|apply gtb_false in E; lia].
Qed.

(* next' = max (last + tokens*I) (now - maxPermits*I) *)
Lemma stored_capped c m last now tokens :
  max_permits c = Some m ->
  stored c last now tokens = Z.max (last + tokens * interval c) (now - m * interval c).
Proof.
  unfold stored, capped. intros ->.
  destruct (_ >? _) eqn:E; [apply gtb_true in E|apply gtb_false in E]; lia.
Qed.

Lemma stored_uncapped c last now tokens :
  max_permits c = None -> stored c last now tokens = last + tokens * interval c.
Proof. unfold stored, capped. intros ->. lia. Qed.

(* every call, let through or not, pushes the next free time by its tokens *)
Lemma stored_ge_debit c last now tokens : last + tokens * interval c <= stored c last now tokens.
Proof. unfold stored. pose proof (capped_le c (now - last - tokens * interval c)). lia. Qed.

Lemma stored_ge_now c m last now tokens :
  max_permits c = Some m -> now - m * interval c <= stored c last now tokens.
Proof. intros Hm. unfold stored. pose proof (capped_le_max c m (now - last - tokens * interval c) Hm). lia. Qed.

Lemma final_ge c : forall reqs s, s + interval c * sum_tokens reqs <= final c s reqs.
Proof.
  induction reqs as [|[now t] r IH]; intros s; cbn [final sum_tokens acquire fst]; [lia|].
  pose proof (IH (stored c s now t)). pose proof (stored_ge_debit c s now t). lia.
Qed.

Lemma final_app c : forall a b s, final c s (a ++ b) = final c (final c s a) b.
Proof. induction a as [|[now t] a IH]; intros b s; cbn [app final]; [reflexivity|apply IH]. Qed.

Lemma trace_app c : forall a b s, trace c s (a ++ b) = trace c s a ++ trace c (final c s a) b.
Proof.
  induction a as [|[now t] a IH]; intros b s; cbn [app trace final acquire fst]; [reflexivity|].
  rewrite IH. reflexivity.
Qed.

Lemma granted_tokens_app a b : granted_tokens (a ++ b) = granted_tokens a + granted_tokens b.
Proof. induction a as [|e a IH]; cbn [app granted_tokens]; [reflexivity|]. rewrite IH. lia. Qed.

Lemma tokens_nonneg_cons now t r :
  tokens_nonneg ((now, t) :: r) = true <-> 0 <= t /\ tokens_nonneg r = true.
Proof.
  unfold tokens_nonneg. cbn [forallb snd]. rewrite andb_true_iff, Z.leb_le. reflexivity.
Qed.

Lemma granted_le_sum c : forall reqs s,
  tokens_nonneg reqs = true -> 0 <= granted_tokens (trace c s reqs) <= sum_tokens reqs.
Proof.
  induction reqs as [|[now t] r IH]; intros s Hn; cbn [trace acquire granted_tokens sum_tokens e_verdict e_tok]; [lia|].
  apply tokens_nonneg_cons in Hn. destruct Hn as [Ht Hr].
  pose proof (IH (stored c s now t) Hr). destruct (is_granted _); lia.
Qed.

(* --- the decision -------------------------------------------------------- *)

(* C17_timeout_only_if_needed *)
Lemma timeout_iff c last now :
  decide c last now = TimedOut <-> (rtimeout c > 0 /\ required_wait last now > rtimeout c).
Proof.
  unfold decide, required_wait.
  destruct (last <=? now) eqn:E1; [apply Z.leb_le in E1|apply Z.leb_gt in E1].
  - split; [discriminate|]. intros [H1 H2]. lia.
  - destruct (rtimeout c >? 0) eqn:E2; [apply gtb_true in E2|apply gtb_false in E2]; cbn [andb].
    + destruct (last - now >? rtimeout c) eqn:E3; [apply gtb_true in E3|apply gtb_false in E3].
      * split; [intros _; lia|reflexivity].
      * split; [discriminate|]. intros [H1 H2]. lia.
    + split; [discriminate|]. intros [H1 H2]. lia.
Qed.

Lemma granted_wait c last now w :
  decide c last now = Granted w -> w = required_wait last now /\ now + w = Z.max now last.
Proof.
  unfold decide, required_wait.
  destruct (last <=? now) eqn:E1; [apply Z.leb_le in E1|apply Z.leb_gt in E1].
  - intros H; inversion H; subst. lia.
  - destruct (_ && _); [discriminate|]. intros H; inversion H; subst. lia.
Qed.

Lemma granted_iff c last now :
  (exists w, decide c last now = Granted w) <-> (rtimeout c <= 0 \/ required_wait last now <= rtimeout c).
Proof.
  destruct (decide c last now) as [w|] eqn:E.
  - split; [intros _|intros _; exists w; reflexivity].
    destruct (Z_le_gt_dec (rtimeout c) 0) as [H|H]; [left; exact H|right].
    destruct (Z_le_gt_dec (required_wait last now) (rtimeout c)) as [H'|H']; [exact H'|].
    assert (decide c last now = TimedOut) by (apply timeout_iff; split; assumption). congruence.
  - apply timeout_iff in E. split; [intros [w H]; discriminate|lia].
Qed.

(* the state does not depend on the verdict: a rejected caller is debited too *)
Lemma rejected_is_debited c last now tokens :
  fst (acquire c last now tokens) = stored c last now tokens.
Proof. reflexivity. Qed.

(* --- the rate bound, sequential callers ---------------------------------- *)

(* debt form: whatever was asked for since the bucket was free at [s] has been paid for by
   the time a later caller is let through.  No assumption on maxPermits. *)
Lemma rate_debt c s reqs nj w :
  decide c (final c s reqs) nj = Granted w ->
  interval c * sum_tokens reqs <= (nj + w) - s.
Proof.
  intros H. apply granted_wait in H. destruct H as [_ H]. pose proof (final_ge c reqs s). lia.
Qed.

(* between two calls i < j: tokens strictly between them *)
Lemma rate_between c s ni ti mid nj m w :
  0 < interval c -> max_permits c = Some m -> 0 <= m -> 0 <= ti ->
  decide c (final c s ((ni, ti) :: mid)) nj = Granted w ->
  interval c * sum_tokens mid <= ((nj + w) - Z.max ni s) + m * interval c.
Proof.
  intros HI Hm Hm0 Hti H. cbn [final acquire fst] in H.
  pose proof (rate_debt c _ mid nj w H) as Hd.
  pose proof (stored_ge_debit c s ni ti). pose proof (stored_ge_now c m s ni ti Hm).
  assert (0 <= ti * interval c) by (apply Z.mul_nonneg_nonneg; lia).
  assert (0 <= m * interval c) by (apply Z.mul_nonneg_nonneg; lia). lia.
Qed.

(* the same counting both end points, and only the calls that were let through *)
Lemma rate_between_closed c s ni ti mid nj tj m w :
  0 < interval c -> max_permits c = Some m -> 0 <= m -> 0 <= ti -> 0 <= tj ->
  tokens_nonneg mid = true ->
  decide c (final c s ((ni, ti) :: mid)) nj = Granted w ->
  interval c * granted_tokens (trace c s ((ni, ti) :: mid ++ [(nj, tj)]))
    <= ((nj + w) - Z.max ni s) + (m + ti + tj) * interval c.
Proof.
  intros HI Hm Hm0 Hti Htj Hmid H.
  pose proof (rate_between c s ni ti mid nj m w HI Hm Hm0 Hti H) as Hb.
  change ((ni, ti) :: mid ++ [(nj, tj)]) with (((ni, ti) :: mid) ++ [(nj, tj)]).
  rewrite trace_app, granted_tokens_app.
  cbn [trace acquire granted_tokens e_verdict e_tok]. cbn [final acquire fst] in H. cbn [final acquire fst].
  rewrite H. cbn [is_granted].
  pose proof (granted_le_sum c mid (stored c s ni ti) Hmid).
  assert (interval c * granted_tokens (trace c (stored c s ni ti) mid) <= interval c * sum_tokens mid)
    by (apply Z.mul_le_mono_nonneg_l; lia).
  destruct (is_granted (decide c s ni)); lia.
Qed.

(* window form.  First: from a bucket free at [s], everything let through up to time hi *)
Lemma window_from_state c tmax hi : 0 < interval c -> 0 <= tmax -> forall reqs s,
  tokens_nonneg reqs = true ->
  (forall e, In e (trace c s reqs) -> is_granted (e_verdict e) = true -> grant_time e <= hi /\ e_tok e <= tmax) ->
  interval c * granted_tokens (trace c s reqs) <= Z.max 0 (hi - s + tmax * interval c).
Proof.
  intros HI Htm. induction reqs as [|[now t] r IH]; intros s Hn Hw.
  - cbn [trace granted_tokens]. lia.
  - apply tokens_nonneg_cons in Hn. destruct Hn as [Ht Hr].
    cbn [trace acquire] in *. cbn [granted_tokens e_verdict e_tok].
    pose proof (stored_ge_debit c s now t) as Hs.
    assert (0 <= t * interval c) by (apply Z.mul_nonneg_nonneg; lia).
    assert (Hrest : interval c * granted_tokens (trace c (stored c s now t) r)
                    <= Z.max 0 (hi - stored c s now t + tmax * interval c)).
    { apply IH; [exact Hr|]. intros e He. apply Hw. right. exact He. }
    pose proof (granted_le_sum c r (stored c s now t) Hr) as [Hg0 _].
    assert (0 <= interval c * granted_tokens (trace c (stored c s now t) r))
      by (apply Z.mul_nonneg_nonneg; lia).
    destruct (is_granted (decide c s now)) eqn:Eg.
    + destruct (Hw _ (or_introl eq_refl) Eg) as [Hgt Htok].
      unfold grant_time in Hgt. cbn [e_now e_last e_tok] in Hgt, Htok.
      assert (t * interval c <= tmax * interval c) by (apply Z.mul_le_mono_nonneg_r; lia).
      lia.
    + lia.
Qed.

(* C17_rate_bound: a run of calls, from any state, whose grants all fall in [lo, hi] *)
Lemma rate_window c m lo hi tmax : 0 < interval c -> max_permits c = Some m -> 0 <= m ->
  0 <= tmax -> lo <= hi -> forall reqs s,
  tokens_nonneg reqs = true ->
  granted_in_window lo hi tmax (trace c s reqs) = true ->
  interval c * granted_tokens (trace c s reqs) <= (hi - lo) + (m + 2 * tmax) * interval c.
Proof.
  intros HI Hm Hm0 Htm Hlh. induction reqs as [|[now t] r IH]; intros s Hn Hw.
  - cbn [trace granted_tokens].
    assert (0 <= (m + 2 * tmax) * interval c) by (apply Z.mul_nonneg_nonneg; lia). lia.
  - apply tokens_nonneg_cons in Hn. destruct Hn as [Ht Hr].
    cbn [trace acquire] in *. cbn [granted_tokens e_verdict e_tok].
    unfold granted_in_window in Hw. cbn [forallb e_verdict] in Hw.
    apply andb_prop in Hw. destruct Hw as [Hhead Hw].
    destruct (is_granted (decide c s now)) eqn:Eg.
    + (* the first call that is let through fixes the start of the window *)
      unfold grant_time in Hhead. cbn [e_now e_last e_tok] in Hhead.
      apply andb_prop in Hhead. destruct Hhead as [Hhead Htok].
      apply andb_prop in Hhead. destruct Hhead as [Hlo Hhi].
      apply Z.leb_le in Hlo, Hhi, Htok.
      assert (Hrest : interval c * granted_tokens (trace c (stored c s now t) r)
                      <= Z.max 0 (hi - stored c s now t + tmax * interval c)).
      { apply (window_from_state c tmax hi HI Htm r _ Hr).
        intros e He Hge. rewrite forallb_forall in Hw. specialize (Hw e He). rewrite Hge in Hw.
        apply andb_prop in Hw. destruct Hw as [Hw Htk]. apply andb_prop in Hw. destruct Hw as [_ Hh].
        apply Z.leb_le in Hh, Htk. split; assumption. }
      pose proof (stored_ge_debit c s now t). pose proof (stored_ge_now c m s now t Hm).
      assert (0 <= t * interval c) by (apply Z.mul_nonneg_nonneg; lia).
      assert (0 <= m * interval c) by (apply Z.mul_nonneg_nonneg; lia).
      assert (t * interval c <= tmax * interval c) by (apply Z.mul_le_mono_nonneg_r; lia).
      assert (0 <= tmax * interval c) by (apply Z.mul_nonneg_nonneg; lia).
      lia.
    + pose proof (IH (stored c s now t) Hr Hw). lia.
Qed.

(* grant times of successive calls never go backwards when the clock does not *)
Lemma final_mono_state c : forall reqs s, tokens_nonneg reqs = true -> 0 < interval c -> s <= final c s reqs.
Proof.
  intros reqs s Hn HI. pose proof (final_ge c reqs s).
  assert (0 <= sum_tokens reqs).
  { clear H. induction reqs as [|[now t] r IH]; cbn [sum_tokens]; [lia|].
    apply tokens_nonneg_cons in Hn. destruct Hn. specialize (IH H0). lia. }
  assert (0 <= interval c * sum_tokens reqs) by (apply Z.mul_nonneg_nonneg; lia). lia.
Qed.

(* --- any rate: the interval is the rational 1e9 / pps ----------------------- *)

(* interval * rate = one second, exactly, for every rate *)
Lemma q_interval_exact (c : qcfg) : 0 < pps c ->
  Qeq (Qmult (Qmake (q_interval_num c) (Z.to_pos (q_interval_den c))) (inject_Z (pps c)))
      (inject_Z nanos_per_second).
Proof.
  intros Hp. unfold Qeq, Qmult, inject_Z, q_interval_num, q_interval_den. cbn [Qnum Qden].
  rewrite Pos.mul_1_r, Z2Pos.id by exact Hp. ring.
Qed.

(* no permit is shorter than the interval: n permits are worth n * 1e9 / pps nanoseconds,
   never n * floor(1e9 / pps) *)
Lemma q_capped_le c x : q_capped c x <= x.
Proof.
  unfold q_capped. destruct (qmax c) as [m|]; [|lia].
  destruct (x >? m * nanos_per_second) eqn:E; [apply gtb_true in E|]; lia.
Qed.

Lemma quot_mul_le (x d : Z) : 0 < d -> Z.quot x d * d <= Z.max x 0 /\ x - (d - 1) <= Z.quot x d * d.
Proof.
  intros Hd. pose proof (Z.quot_rem x d ltac:(lia)) as Hqr.
  destruct (Z_le_gt_dec 0 x) as [Hx|Hx].
  - pose proof (Z.rem_bound_pos x d Hx Hd). lia.
  - pose proof (Z.rem_bound_pos (- x) d ltac:(lia) Hd) as Hr. rewrite Z.rem_opp_l in Hr by lia.
    assert (Z.quot x d <= 0) by nia. nia.
Qed.

(* every call pushes the next free time by its tokens' worth, less than one nanosecond short *)
Lemma q_stored_ge_debit c last now tokens : 0 < pps c ->
  last * pps c + tokens * nanos_per_second - (pps c - 1) <= q_stored c last now tokens * pps c.
Proof.
  intros Hp. unfold q_stored.
  set (x := q_capped c ((now - last) * pps c - tokens * nanos_per_second)).
  pose proof (q_capped_le c ((now - last) * pps c - tokens * nanos_per_second)) as Hc. fold x in Hc.
  destruct (quot_mul_le x (pps c) Hp) as [Hq _].
  rewrite Z.mul_sub_distr_r.
  destruct (Z_le_gt_dec 0 x) as [Hx|Hx].
  - assert (Z.max x 0 = x) by lia. lia.
  - (* negative credit: the truncation toward zero rounds the debt down by less than 1 ns *)
    pose proof (Z.quot_rem x (pps c) ltac:(lia)) as Hqr.
    pose proof (Z.rem_bound_pos (- x) (pps c) ltac:(lia) Hp) as Hr. rewrite Z.rem_opp_l in Hr by lia. lia.
Qed.

Lemma q_stored_ge_now c m last now tokens : 0 < pps c -> qmax c = Some m -> 0 <= m ->
  now * pps c - m * nanos_per_second <= q_stored c last now tokens * pps c.
Proof.
  intros Hp Hm Hm0. unfold q_stored.
  set (x := q_capped c ((now - last) * pps c - tokens * nanos_per_second)).
  assert (Hx : x <= m * nanos_per_second).
  { unfold x, q_capped. rewrite Hm. destruct (_ >? _) eqn:E; [lia|apply gtb_false in E; lia]. }
  destruct (quot_mul_le x (pps c) Hp) as [Hq _].
  assert (0 <= m * nanos_per_second) by (unfold nanos_per_second; lia).
  rewrite Z.mul_sub_distr_r. lia.
Qed.

Lemma q_final_ge c : 0 < pps c -> forall reqs s,
  s * pps c + nanos_per_second * sum_tokens reqs - Z.of_nat (length reqs) * (pps c - 1)
    <= q_final c s reqs * pps c.
Proof.
  intros Hp. induction reqs as [|[now t] r IH]; intros s; cbn [q_final sum_tokens length]; [lia|].
  pose proof (IH (q_stored c s now t)). pose proof (q_stored_ge_debit c s now t Hp).
  rewrite Nat2Z.inj_succ. lia.
Qed.

(* debt form for any rate: tokens asked for since the bucket was free at [s], times one
   second, <= rate * elapsed, plus less than one nanosecond's worth per call *)
Lemma q_rate_debt c s reqs nj w : 0 < pps c ->
  decide (q_rcfg c) (q_final c s reqs) nj = Granted w ->
  nanos_per_second * sum_tokens reqs <= ((nj + w) - s) * pps c + Z.of_nat (length reqs) * (pps c - 1).
Proof.
  intros Hp H. apply granted_wait in H. destruct H as [_ H]. pose proof (q_final_ge c Hp reqs s).
  assert ((q_final c s reqs) * pps c <= (nj + w) * pps c) by (apply Z.mul_le_mono_nonneg_r; lia).
  lia.
Qed.

(* with a burst cap, between two calls i < j *)
Lemma q_rate_between c s ni ti (mid : list req) nj m w : 0 < pps c -> qmax c = Some m -> 0 <= m -> 0 <= ti ->
  decide (q_rcfg c) (q_final c s ((ni, ti) :: mid)) nj = Granted w ->
  nanos_per_second * sum_tokens mid
    <= ((nj + w) - Z.max ni s) * pps c + m * nanos_per_second + Z.of_nat (S (length mid)) * (pps c - 1).
Proof.
  intros Hp Hm Hm0 Hti H. cbn [q_final] in H.
  pose proof (q_rate_debt c _ mid nj w Hp H) as Hd.
  pose proof (q_stored_ge_debit c s ni ti Hp). pose proof (q_stored_ge_now c m s ni ti Hp Hm Hm0).
  assert (0 <= ti * nanos_per_second) by (unfold nanos_per_second; lia).
  assert (0 <= m * nanos_per_second) by (unfold nanos_per_second; lia).
  rewrite Nat2Z.inj_succ. unfold req in *.
  destruct (Z.max_spec ni s) as [[_ ->]|[_ ->]]; lia.
Qed.

(* a rate that divides 1e9: the rational model is the integer model of the first part *)
Lemma q_stored_integer c last now tokens : 0 < pps c -> nanos_per_second mod pps c = 0 ->
  q_stored c last now tokens = stored (q_to_rcfg c) last now tokens.
Proof.
  intros Hp Hdiv. unfold q_stored, stored, q_capped, capped, q_to_rcfg. cbn [interval max_permits].
  set (I := nanos_per_second / pps c).
  assert (HG : nanos_per_second = I * pps c).
  { unfold I. pose proof (Z.div_mod nanos_per_second (pps c) ltac:(lia)). lia. }
  rewrite HG.
  replace ((now - last) * pps c - tokens * (I * pps c)) with ((now - last - tokens * I) * pps c) by ring.
  destruct (qmax c) as [m|].
  - replace (m * (I * pps c)) with (m * I * pps c) by ring.
    destruct ((now - last - tokens * I) * pps c >? m * I * pps c) eqn:E1;
      destruct (now - last - tokens * I >? m * I) eqn:E2.
    + rewrite Z.quot_mul by lia. reflexivity.
    + exfalso. apply gtb_true in E1. apply gtb_false in E2.
      assert ((now - last - tokens * I) * pps c <= m * I * pps c) by (apply Z.mul_le_mono_nonneg_r; lia). lia.
    + exfalso. apply gtb_false in E1. apply gtb_true in E2.
      assert (m * I * pps c < (now - last - tokens * I) * pps c) by (apply Z.mul_lt_mono_pos_r; lia). lia.
    + rewrite Z.quot_mul by lia. reflexivity.
  - rewrite Z.quot_mul by lia. reflexivity.
Qed.

(* --- concurrent callers --------------------------------------------------- *)

Lemma nth_error_rupd_nth_same {A} (l : list A) : forall n x,
  (n < length l)%nat -> nth_error (rupd_nth n x l) n = Some x.
Proof.
  induction l as [|y l IH]; intros n x Hn; [cbn in Hn; lia|].
  destruct n; cbn; [reflexivity|]. apply IH. cbn in Hn. lia.
Qed.

Lemma forallb_rupd_nth {A} (f : A -> bool) : forall l n x,
  forallb f l = true -> f x = true -> forallb f (rupd_nth n x l) = true.
Proof.
  induction l as [|y l IH]; intros n x Hl Hx; [destruct n; reflexivity|].
  cbn [forallb] in Hl. apply andb_prop in Hl. destruct Hl as [Hy Hl].
  destruct n; cbn [rupd_nth forallb]; [rewrite Hx, Hl; reflexivity|].
  rewrite Hy, (IH n x Hl Hx). reflexivity.
Qed.

Lemma rupd_nth_twice {A} : forall (l : list A) n x y, rupd_nth n y (rupd_nth n x l) = rupd_nth n y l.
Proof.
  induction l as [|z l IH]; intros n x y; [destruct n; reflexivity|].
  destruct n; cbn [rupd_nth]; [reflexivity|]. rewrite IH. reflexivity.
Qed.

Lemma length_rupd_nth {A} (l : list A) : forall n x, length (rupd_nth n x l) = length l.
Proof. induction l as [|y l IH]; intros n x; [destruct n; reflexivity|]. destruct n; cbn; [reflexivity|]. rewrite IH. reflexivity. Qed.

(* one load immediately followed by its store is one sequential call *)
Lemma atomic_pair c s i now tokens s2 :
  all_idle s = true ->
  rrun c s [(i, LLoad now tokens); (i, LStore)] = Some s2 ->
  rnext s2 = fst (acquire c (rnext s) now tokens) /\
  rlog s2 = {| g_tid := i; g_now := now; g_tok := tokens; g_last := rnext s;
               g_verdict := snd (acquire c (rnext s) now tokens) |} :: rlog s /\
  all_idle s2 = true /\ rclock s <= now /\ rclock s2 = now.
Proof.
  intros Hidle H. cbn [rrun] in H. unfold rstep at 1 in H.
  destruct (nth_error (rthreads s) i) as [t|] eqn:Hn; [|discriminate].
  assert (Ht : tpend t = None).
  { unfold all_idle in Hidle. rewrite forallb_forall in Hidle.
    specialize (Hidle t (nth_error_In _ _ Hn)). unfold thread_idle in Hidle.
    destruct (tpend t); [discriminate|reflexivity]. }
  rewrite Ht in H.
  destruct ((rclock s <=? now) && (tfree t <=? now)) eqn:Eg; [|discriminate].
  apply andb_prop in Eg. destruct Eg as [Ec _]. apply Z.leb_le in Ec.
  unfold rstep in H. cbn [rthreads rnext rclock rlog] in H.
  rewrite nth_error_rupd_nth_same in H by (apply nth_error_Some; congruence).
  cbn [tpend] in H. inversion H; subst s2; clear H. cbn [rnext rlog rclock rthreads acquire fst snd].
  repeat split; try reflexivity; try exact Ec.
  unfold all_idle. cbn [rthreads]. rewrite rupd_nth_twice.
  apply forallb_rupd_nth; [exact Hidle|reflexivity].
Qed.

Lemma rrun_app c : forall a b s, rrun c s (a ++ b) =
  match rrun c s a with Some s1 => rrun c s1 b | None => None end.
Proof.
  induction a as [|[i l] a IH]; intros b s; cbn [app rrun]; [reflexivity|].
  destruct (rstep c s i l); [apply IH|reflexivity].
Qed.

(* C17_rate_concurrent_partial *)
Lemma atomic_is_sequential c : forall calls s s',
  all_idle s = true -> rrun c s (atomic_sched calls) = Some s' ->
  rnext s' = final c (rnext s) (reqs_of calls) /\
  map entry_of (rlog s') = rev (trace c (rnext s) (reqs_of calls)) ++ map entry_of (rlog s) /\
  times_sorted (rclock s) (reqs_of calls) = true /\
  all_idle s' = true.
Proof.
  induction calls as [|[[i now] tokens] r IH]; intros s s' Hidle H.
  - cbn in H. inversion H; subst. cbn. repeat split; try reflexivity. exact Hidle.
  - cbn [atomic_sched] in H.
    change ((i, LLoad now tokens) :: (i, LStore) :: atomic_sched r)
      with ([(i, LLoad now tokens); (i, LStore)] ++ atomic_sched r) in H.
    rewrite rrun_app in H.
    destruct (rrun c s [(i, LLoad now tokens); (i, LStore)]) as [s2|] eqn:E; [|discriminate].
    destruct (atomic_pair c s i now tokens s2 Hidle E) as [Hnx [Hlog [Hidle2 [Hck Hck2]]]].
    destruct (IH s2 s' Hidle2 H) as [Hn' [Hl' [Hs' Hi']]].
    cbn [reqs_of map final trace times_sorted]. fold (reqs_of r).
    rewrite Hn', Hnx. split; [reflexivity|]. split; [|split; [|exact Hi']].
    + rewrite Hl', Hlog, Hnx. cbn [map entry_of g_now g_tok g_last g_verdict acquire fst snd rev].
      rewrite <- app_assoc. reflexivity.
    + apply andb_true_intro. split; [apply Z.leb_le; exact Hck|]. rewrite <- Hck2. exact Hs'.
Qed.

(* C17_rate_concurrent_refuted: two callers, two rounds; in each round both load the same
   value of l.next before either stores, so each round is debited once and let through
   twice.  1000 ns per permit, no burst (maxPermits = 0), one token per call. *)
Definition wit_cfg : rcfg := {| interval := 1000; max_permits := Some 0; rtimeout := 0 |}.
Definition wit_sched : list (nat * rlabel) :=
  [ (0%nat, LLoad 0 1); (1%nat, LLoad 0 1); (0%nat, LStore); (1%nat, LStore);
    (0%nat, LLoad 1000 1); (1%nat, LLoad 1000 1); (0%nat, LStore); (1%nat, LStore) ].

Lemma rate_concurrent_refuted :
  exists c m sched s lo hi tmax,
    0 < interval c /\ max_permits c = Some m /\ 0 <= m /\ 0 <= tmax /\ lo <= hi /\
    rrun c (rinit 0 2) sched = Some s /\ all_idle s = true /\
    all_granted (rlog s) = true /\ in_window lo hi tmax (rlog s) = true /\
    (hi - lo) + (m + 2 * tmax) * interval c < interval c * log_granted_tokens (rlog s) /\
    rnext s < 0 + interval c * log_granted_tokens (rlog s).
Proof.
  exists wit_cfg, 0, wit_sched.
  eexists. exists 0, 1000, 1.
  repeat match goal with |- _ /\ _ => split end;
    try (vm_compute; reflexivity); try (vm_compute; congruence).
Qed.
