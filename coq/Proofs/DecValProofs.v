(* Proofs about the decoder model (Model/DecVal.v) against the specification (Model/DecSpec.v). *)
From Coq Require Import List Arith NArith ZArith Strings.Byte Bool Lia.
From HV Require Import Lib.Dec Lib.Utf8 Model.Wire Model.WireSem Model.Enc Model.DecAct Model.DecVal Model.DecSpec.
Import ListNotations.
Open Scope Z_scope.

(* ------------------------------------------------------------------ integer conversions *)

Lemma pow2_pos b : 0 <= b -> 0 < 2 ^ b. Proof. intros; apply Z.pow_pos_nonneg; lia. Qed.

Lemma wrap_u_id bits z : 0 <= bits -> 0 <= z < 2 ^ bits -> wrap_u bits z = z.
Proof. intros Hb H. unfold wrap_u. apply Z.mod_small. exact H. Qed.

Lemma wrap_s_id bits z : 1 <= bits -> - 2 ^ (bits - 1) <= z < 2 ^ (bits - 1) -> wrap_s bits z = z.
Proof.
  intros Hb H. unfold wrap_s.
  assert (E : 2 ^ bits = 2 * 2 ^ (bits - 1)).
  { replace bits with (1 + (bits - 1)) at 1 by lia. rewrite Z.pow_add_r by lia. reflexivity. }
  rewrite Z.mod_small; [lia|]. rewrite E. lia.
Qed.

Lemma wrap_k_id k z : in_range_k k z = true -> wrap_k k z = z.
Proof.
  unfold in_range_k, wrap_k, ik_min, ik_max. intros H. apply andb_prop in H. destruct H as [H1 H2].
  apply Z.leb_le in H1. apply Z.leb_le in H2.
  destruct (ik_signed k) eqn:Es.
  - apply wrap_s_id; [destruct k; cbn; lia | lia].
  - apply wrap_u_id; [destruct k; cbn; lia | lia].
Qed.

Lemma wrap_u_range bits z : 0 <= bits -> 0 <= wrap_u bits z < 2 ^ bits.
Proof. intros Hb. unfold wrap_u. apply Z.mod_pos_bound. apply pow2_pos; lia. Qed.

Lemma wrap_s_range bits z : 1 <= bits -> - 2 ^ (bits - 1) <= wrap_s bits z < 2 ^ (bits - 1).
Proof.
  intros Hb. unfold wrap_s.
  assert (E : 2 ^ bits = 2 * 2 ^ (bits - 1)).
  { replace bits with (1 + (bits - 1)) at 1 by lia. rewrite Z.pow_add_r by lia. reflexivity. }
  pose proof (Z.mod_pos_bound (z + 2 ^ (bits - 1)) (2 ^ bits) (pow2_pos bits ltac:(lia))). lia.
Qed.

Lemma wrap_k_in_range k z : in_range_k k (wrap_k k z) = true.
Proof.
  unfold in_range_k, wrap_k, ik_min, ik_max. destruct (ik_signed k) eqn:Es.
  - pose proof (wrap_s_range (ik_bits k) z ltac:(destruct k; cbn; lia)). apply andb_true_intro. split; apply Z.leb_le; lia.
  - pose proof (wrap_u_range (ik_bits k) z ltac:(destruct k; cbn; lia)). apply andb_true_intro. split; apply Z.leb_le; lia.
Qed.

Lemma wrap_k_idem k z : wrap_k k (wrap_k k z) = wrap_k k z.
Proof. apply wrap_k_id. apply wrap_k_in_range. Qed.

(* the value stored modulo 2^n differs from the integer exactly when the integer is out of range *)
Lemma wrap_k_fixed_iff k z : wrap_k k z = z <-> in_range_k k z = true.
Proof. split; [intros E; rewrite <- E; apply wrap_k_in_range | apply wrap_k_id]. Qed.

Lemma uintptr_via_uint64 z : wrap_k KUintptr (wrap_k KUint64 z) = wrap_k KUintptr z.
Proof. cbn. unfold wrap_u. apply Z.mod_mod. lia. Qed.

(* ------------------------------------------------------------------ scalar destinations at top level *)

Definition plain (v : xval) : bool :=
  match v with
  | XNil | XBool _ | XInt _ _ | XF32 _ | XF64 _ | XC64 _ _ | XC128 _ _ | XStr _ | XBytes _
  | XBigInt _ | XBigFloat _ | XBigRat _ | XTime _ _ _ _ _ _ _ _ | XUuid _ => true
  | _ => false
  end.

Lemma inject_plain st v : plain v = true -> inject st v = (st, v).
Proof. destruct v; cbn; try discriminate; reflexivity. Qed.

Lemma unfold_plain m f stack v : plain v = true -> unfold m (S f) stack v = v.
Proof. destruct v; cbn; try discriminate; reflexivity. Qed.

(* what dec_scalar stores for the value a switch arm produced *)
Definition post (te : tenv) (s : sleaf) (t : gtype) (v : xval) : xval :=
  match s with
  | SBigIntV | SBigFloatV | SBigRatV => match v with XPtr x => x | XNil => zero_of te t | _ => v end
  | SIface => box v
  | _ => v
  end.

Definition arm (s : sleaf) (w : wire) : action := sw_lookup (model_switch (routine_of s)) (tag_of w).

Lemma mem_add_tok_ref opts st w : mem (add_tok_ref opts st w) = mem st.
Proof. unfold add_tok_ref, add_ref. destruct (token_ref w); [destruct (o_simple opts)|]; reflexivity. Qed.

Lemma scalar_leaf r t s : is_scalar_type t = true -> sleaf_of t = Some s -> leaf_of r t = LS s /\ s <> SIface.
Proof.
  destruct t; cbn; try discriminate; intros _ E; inversion E; subst; split; try reflexivity; discriminate.
Qed.

Lemma write_top (st : dstate) z v : mem st = [z] ->
  exists st', wr_or_panic st (O, []) v = DOk st' /\ mem st' = [v].
Proof.
  intros Hm. unfold wr_or_panic, st_wr, wr. cbn [fst snd]. rewrite Hm. cbn.
  eexists. split; reflexivity.
Qed.

Lemma dec_top_scalar_value orc opts te f t w s v :
  is_scalar_type t = true -> sleaf_of t = Some s ->
  run_action orc s (arm s w) w = SV v -> plain (post te s t v) = true ->
  dec_top orc opts te (S f) t w = OOk (post te s t v).
Proof.
  intros Ht Hs Hr Hp. destruct (scalar_leaf RTop t s Ht Hs) as [Hl Hni].
  unfold dec_top. cbn [st_alloc dinit mem length]. cbn [dec]. unfold dec_step. rewrite Hl.
  unfold dec_scalar.
  replace (match s with SIface => _ | _ => sw_lookup (model_switch (routine_of s)) (tag_of w) end) with (arm s w)
    by (destruct s; try reflexivity; contradiction).
  rewrite Hr. fold (post te s t v).
  replace (match s with
           | SBigIntV | SBigFloatV | SBigRatV => match v with XPtr x => x | XNil => zero_of te t | _ => v end
           | SIface => box v | _ => v end) with (post te s t v) by reflexivity.
  rewrite (inject_plain _ _ Hp).
  lazymatch goal with |- context [add_tok_ref opts ?st0 w] =>
    edestruct (write_top (add_tok_ref opts st0 w) (zero_val te fuel_zero t) (post te s t v)) as (st' & Hw & Hm);
      [rewrite mem_add_tok_ref; reflexivity|]
  end.
  rewrite Hw. unfold st_rd, rd. cbn [fst snd]. rewrite Hm. cbn [nth_error rd_path].
  rewrite (unfold_plain _ _ _ _ Hp). reflexivity.
Qed.

Lemma dec_top_scalar_error orc opts te f t w s e :
  is_scalar_type t = true -> sleaf_of t = Some s ->
  run_action orc s (arm s w) w = SE e ->
  dec_top orc opts te (S f) t w = OErr e.
Proof.
  intros Ht Hs Hr. destruct (scalar_leaf RTop t s Ht Hs) as [Hl Hni].
  unfold dec_top. cbn [st_alloc dinit mem length]. cbn [dec]. unfold dec_step. rewrite Hl.
  unfold dec_scalar.
  replace (match s with SIface => _ | _ => sw_lookup (model_switch (routine_of s)) (tag_of w) end) with (arm s w)
    by (destruct s; try reflexivity; contradiction).
  rewrite Hr. reflexivity.
Qed.

(* ------------------------------------------------------------------ the oracle table is complete *)

Definition not_miss {A} (r : oresult A) : Prop := match r with RMiss _ _ => False | _ => True end.

Record oracle_total (orc : bytes -> bytes -> option bytes) : Prop := {
  ot_float : forall b t, not_miss (o_float orc b t);
  ot_f2i : forall k t, not_miss (o_f2i orc k t);
  ot_bfint : forall t, not_miss (o_int orc (bs "bfint") t);
  ot_bfexp : forall t, not_miss (o_int orc (bs "bfexp") t);
  ot_text : forall fn a, not_miss (o_text orc fn a);
  ot_complex : forall b s, not_miss (o_complex orc b s);
  ot_unix : forall a, not_miss (o_time orc (bs "unix") a);
  ot_ptime : forall a, not_miss (o_time orc (bs "ptime") a)
}.

Definition settled (r : sres) : Prop := match r with SV _ | SE _ => True | _ => False end.

Lemma lift_settled {A} (r : oresult A) k : not_miss r -> (forall a, settled (k a)) -> settled (lift r k).
Proof. destruct r; cbn; intros H Hk; [apply Hk | exact I | destruct H]. Qed.

Definition scalar_tok (w : wire) : bool :=
  match w with
  | WList _ | WMap _ | WClass _ _ _ | WObj _ _ | WRef _ | WErr _ => false
  | _ => true
  end.

(* what the byte-level decoder needs beyond the grammar: real calendar fields, hexadecimal uuids,
   'i' within 32 bits *)
Definition wf_tok (w : wire) : bool :=
  match w with
  | WInt z => (- 2 ^ 31 <=? z) && (z <=? 2 ^ 31 - 1)
  | WDigit d => (d <? 10)%N
  | WDate y mo d tm _ => valid_date y mo d && match tm with Some (h, mi, s, _) => valid_clock h mi s | None => true end
  | WTime h mi s _ _ => valid_clock h mi s
  | WGuid g => uuid_syntax g
  | WChar c => Nat.leb (length c) 4        (* one character of one UTF-16 unit *)
  | _ => true
  end.

Lemma digit_cases (d : N) : (d <? 10)%N = true ->
  d = 0%N \/ d = 1%N \/ d = 2%N \/ d = 3%N \/ d = 4%N \/ d = 5%N \/ d = 6%N \/ d = 7%N \/ d = 8%N \/ d = 9%N.
Proof. intros H. apply N.ltb_lt in H. lia. Qed.

Tactic Notation "split_digit" constr(dd) constr(HH) :=
  destruct (digit_cases dd HH) as [?E|[?E|[?E|[?E|[?E|[?E|[?E|[?E|[?E|?E]]]]]]]]]; subst.

Lemma iface_scalar_settled orc opts w :
  oracle_total orc -> scalar_tok w = true -> wf_tok w = true ->
  settled (run_action orc SIface (apply_iface_opts opts (arm SIface w)) w).
Proof.
  intros [Of Oi Ob Obe Ot Oc Ou Op] Hs Hw.
  destruct w as [ | | | | |neg|d|z|z|txt|c|str|b|g|y mo dd tm utc|h mi sec fr utc|ws|ws|n fs nx|k ws|k|w'];
    try discriminate; cbn in Hw |- *; try exact I.
  all: try (split_digit d Hw; exact I).
  all: try (rewrite Hw; exact I).
  all: try (destruct (o_long opts); cbn; exact I).
  all: destruct (o_real opts); cbn; try exact I; unfold conv_float;
    try (apply lift_settled; [apply Of | intros; exact I]);
    try (apply lift_settled; [apply Ot | intros; exact I]).
Qed.

Lemma upd_nth_some {A} (l : list A) n x : (n < length l)%nat -> exists l', upd_nth n x l = Some l' /\ length l' = length l.
Proof.
  revert n. induction l as [|y l IH]; intros n H; cbn in H; [lia|].
  destruct n as [|n]; cbn.
  - eexists; split; reflexivity.
  - destruct (IH n ltac:(lia)) as (l' & E & L). rewrite E. eexists; split; [reflexivity|]. cbn. lia.
Qed.

Lemma wr_valid st c v : (c < length (mem st))%nat ->
  exists st', wr_or_panic st (c, []) v = DOk st' /\ length (mem st') = length (mem st).
Proof.
  intros H. unfold wr_or_panic, st_wr, wr. cbn [fst snd].
  destruct (nth_error (mem st) c) as [x|] eqn:E; [|apply nth_error_None in E; lia].
  cbn [wr_path]. destruct (upd_nth_some (mem st) c v H) as (l' & E' & L). rewrite E'.
  eexists; split; [reflexivity|]. exact L.
Qed.

Lemma inject_grows : forall v st st' v', inject st v = (st', v') -> (length (mem st) <= length (mem st'))%nat.
Proof.
  induction v; intros st st' v' H; cbn [inject] in H; try (inversion H; subst; lia).
  - destruct (inject st v) as [st1 x'] eqn:E. inversion H; subst. apply IHv in E. exact E.
  - destruct (inject st v) as [st1 x'] eqn:E. unfold st_alloc in H. inversion H; subst. apply IHv in E.
    cbn [mem]. rewrite app_length. cbn. lia.
Qed.

Lemma iface_scalar_dec orc opts te f w c st :
  oracle_total orc -> scalar_tok w = true -> wf_tok w = true -> (c < length (mem st))%nat ->
  (exists st', dec orc opts te (S f) RTop TIface w (c, []) st = DOk st') \/
  (exists e, dec orc opts te (S f) RTop TIface w (c, []) st = DErr e).
Proof.
  intros Ho Hs Hw Hc. cbn [dec]. unfold dec_step. cbn [leaf_of sleaf_of]. unfold dec_scalar.
  pose proof (iface_scalar_settled orc opts w Ho Hs Hw) as Hset. unfold arm in Hset.
  destruct (run_action orc SIface (apply_iface_opts opts (sw_lookup (model_switch (routine_of SIface)) (tag_of w))) w)
    as [v|e| | | | |] eqn:Er; try destruct Hset.
  - left. destruct (inject (add_tok_ref opts st w) (box v)) as [st1 v2] eqn:Ei.
    pose proof (inject_grows _ _ _ _ Ei) as Hg. rewrite mem_add_tok_ref in Hg.
    destruct (wr_valid st1 c v2 ltac:(lia)) as (st' & Hw' & _). exists st'. exact Hw'.
  - right. exists e. reflexivity.
Qed.

Lemma default_arm_is_error orc opts te f t w s :
  oracle_total orc -> is_scalar_type t = true -> sleaf_of t = Some s ->
  scalar_tok w = true -> wf_tok w = true ->
  run_action orc s (arm s w) w = SDefaultArm ->
  exists e, dec_top orc opts te (S (S f)) t w = OErr e.
Proof.
  intros Ho Ht Hs Hsc Hw Hr. destruct (scalar_leaf RTop t s Ht Hs) as [Hl Hni].
  unfold dec_top. cbn [st_alloc dinit mem length]. cbn [dec]. unfold dec_step at 1. rewrite Hl.
  unfold dec_scalar.
  replace (match s with SIface => _ | _ => sw_lookup (model_switch (routine_of s)) (tag_of w) end) with (arm s w)
    by (destruct s; try reflexivity; contradiction).
  rewrite Hr. unfold default_decode.
  assert (Hd : sw_lookup (model_switch RtDefault) (tag_of w) = ACall FDecodeError).
  { destruct w as [ | | | | |neg|d|z|z|txt|c|str|b|g|y mo dd tm utc|h mi sec fr utc|ws|ws|n fs nx|k ws|k|w'];
      try discriminate; try reflexivity. cbn in Hw. split_digit d Hw; reflexivity. }
  rewrite Hd.
  change (fun (r : route) (t0 : gtype) (w0 : wire) (pl : place) (st : dstate) =>
            dec_step orc opts te (dec orc opts te f) r t0 w0 pl st) with (dec orc opts te (S f)).
  destruct w as [ | | | | |neg|d|z|z|txt|c|str|b|g|y mo dd tm utc|h mi sec fr utc|ws|ws|n fs nx|k ws|k|w'];
    try discriminate; cbv iota beta;
    unfold decode_error, st_alloc; cbn [mem refs clss];
    (lazymatch goal with |- context [dec orc opts te (S f) RTop TIface ?w (?c, []) ?st1] =>
      destruct (iface_scalar_dec orc opts te f w c st1 Ho Hsc Hw) as [(st' & E)|(e & E)];
        [cbn [mem]; rewrite app_length; cbn; lia | rewrite E | rewrite E]
    end); eexists; reflexivity.
Qed.

(* ------------------------------------------------------------------ scalar tokens: denotation *)

Definition den (w : wire) : dval :=
  match w with
  | WNull => DNull | WEmpty => DStr [] | WTrue => DBool true | WFalse => DBool false | WNaN => DNaN
  | WInf neg => DInf neg | WDigit d => DInt (Z.of_N d) | WInt z | WLong z => DInt z | WDouble txt => DDouble txt
  | WChar c => DStr c | WStr s => DStr s | WBytes b => DBytes b | WGuid g => DGuid g
  | WDate y mo d tm utc => DDate y mo d tm utc | WTime h mi s fr utc => DTime h mi s fr utc
  | _ => DNull
  end.

Lemma denote_top_scalar w : scalar_tok w = true -> denote_top w = Some (den w).
Proof. destruct w; try discriminate; reflexivity. Qed.

(* strconv.ParseInt(s, 10, bits) against the unbounded parse and the destination's range *)
Lemma go_parse_int_spec k s : ik_signed k = true ->
  go_parse_int s (int_bits k) = match parse_int s with Some z => if in_range_k k z then Some z else None | None => None end.
Proof.
  intros Hs. unfold go_parse_int. destruct (parse_int s) as [z|]; [|reflexivity].
  unfold in_range_k, ik_min, ik_max. rewrite Hs.
  destruct k; try discriminate; reflexivity.
Qed.

Lemma go_parse_uint_spec k s : ik_signed k = false ->
  go_parse_uint s (int_bits k) = match parse_uint s with Some z => if in_range_k k z then Some z else None | None => None end.
Proof.
  intros Hs. unfold go_parse_uint, parse_uint. destruct (parse_digits s) as [n|]; [|reflexivity].
  unfold in_range_k, ik_min, ik_max. rewrite Hs.
  assert (0 <= Z.of_N n) by lia. replace (0 <=? Z.of_N n) with true by lia. cbn [andb].
  destruct k; try discriminate; reflexivity.
Qed.

(* ------------------------------------------------------------------ the empty-string clause of the specification *)

Lemma rep_scalar_some orc t d v : rep_scalar orc t d = RSome v -> rep_scalar_core orc t d = RSome v.
Proof.
  unfold rep_scalar. destruct t; try (intros H; exact H);
    destruct d; try (intros H; exact H); destruct s; try (intros H; exact H); discriminate.
Qed.

Lemma rep_scalar_none orc t d : rep_scalar orc t d = RNone -> rep_scalar_core orc t d = RNone.
Proof.
  unfold rep_scalar. destruct t; try (intros H; exact H);
    destruct d; try (intros H; exact H); destruct s; try (intros H; exact H); discriminate.
Qed.

(* ------------------------------------------------------------------ integer destinations *)

(* hardware conversion of an integral, in-range double is exact for every width *)
Definition law_f2i (orc : bytes -> bytes -> option bytes) : Prop :=
  forall k txt z, o_f2i orc (if ik_signed k then KInt64 else KUint64) txt = ROk z -> in_range_k k z = true ->
                  o_f2i orc k txt = ROk z.

Lemma int_arm_value orc k w v :
  law_f2i orc -> scalar_tok w = true -> wf_tok w = true ->
  rep_scalar orc (TInt k) (den w) = RSome v ->
  run_action orc (SInt k) (arm (SInt k) w) w = SV v.
Proof.
  intros Hlaw Hs Hw Hr. apply rep_scalar_some in Hr.
  destruct w as [ | | | | |neg|d|z|z|txt|c|str|b|g|y mo dd tm utc|h mi sec fr utc|ws|ws|n fs nx|k' ws|k'|w'];
    try discriminate; cbn [den rep_scalar_core] in Hr; try discriminate.
  all: try (exfalso; destruct (ik_signed k); cbn in Hr; discriminate).
  - (* digit *) cbn in Hw. split_digit d Hw; destruct k; cbn in Hr |- *; inversion Hr; reflexivity.
  - (* i *) destruct (in_range_k k z) eqn:Ei; [|discriminate]. inversion Hr; subst.
    assert (E : run_action orc (SInt k) (arm (SInt k) (WInt z)) (WInt z) = SV (XInt k (wrap_k k (wrap_k (int_reader k) z))))
      by (destruct k; reflexivity).
    rewrite E. f_equal. f_equal.
    destruct k; cbn [int_reader]; try (rewrite wrap_k_idem; apply wrap_k_id; exact Ei).
    rewrite uintptr_via_uint64. apply wrap_k_id; exact Ei.
  - (* l *) destruct (in_range_k k z) eqn:Ei; [|discriminate]. inversion Hr; subst.
    assert (E : run_action orc (SInt k) (arm (SInt k) (WLong z)) (WLong z) = SV (XInt k (wrap_k k (wrap_k (int_reader k) z))))
      by (destruct k; reflexivity).
    rewrite E. f_equal. f_equal.
    destruct k; cbn [int_reader]; try (rewrite wrap_k_idem; apply wrap_k_id; exact Ei).
    rewrite uintptr_via_uint64. apply wrap_k_id; exact Ei.
  - (* d *) unfold int_of_double, of_o in Hr.
    destruct (o_float orc false txt) as [fv| |] eqn:Ef; try discriminate.
    destruct (o_f2i orc (if ik_signed k then KInt64 else KUint64) txt) as [z| |] eqn:Ez; try discriminate.
    destruct (o_float orc false (to_decZ z)) as [fz| |] eqn:Efz; try discriminate.
    destruct (fkey_eq fv fz && in_range_k k z) eqn:Ec; [|discriminate]. inversion Hr; subst.
    apply andb_prop in Ec. destruct Ec as [_ Ei].
    assert (E : run_action orc (SInt k) (arm (SInt k) (WDouble txt)) (WDouble txt) = conv_float orc false (NtI k) txt)
      by (destruct k; reflexivity).
    rewrite E. unfold conv_float. rewrite Ef. cbn [lift]. rewrite (Hlaw k txt z Ez Ei). reflexivity.
  - (* u *)
    assert (E : run_action orc (SInt k) (arm (SInt k) (WChar c)) (WChar c) =
                parse_str orc (if ik_signed k then PInt else PUint) (int_bits k) (NtI k) c)
      by (destruct k; reflexivity).
    rewrite E. unfold parse_str. destruct (ik_signed k) eqn:Es.
    + rewrite (go_parse_int_spec k c Es). destruct (parse_int c) as [z|].
      * destruct (in_range_k k z); [inversion Hr; reflexivity | discriminate].
      * destruct c; discriminate.
    + rewrite (go_parse_uint_spec k c Es). destruct (parse_uint c) as [z|].
      * destruct (in_range_k k z); [inversion Hr; reflexivity | discriminate].
      * destruct c; discriminate.
  - (* s *)
    assert (E : run_action orc (SInt k) (arm (SInt k) (WStr str)) (WStr str) =
                parse_str orc (if ik_signed k then PInt else PUint) (int_bits k) (NtI k) str)
      by (destruct k; reflexivity).
    rewrite E. unfold parse_str. destruct (ik_signed k) eqn:Es.
    + rewrite (go_parse_int_spec k str Es). destruct (parse_int str) as [z|].
      * destruct (in_range_k k z); [inversion Hr; reflexivity | discriminate].
      * destruct str; discriminate.
    + rewrite (go_parse_uint_spec k str Es). destruct (parse_uint str) as [z|].
      * destruct (in_range_k k z); [inversion Hr; reflexivity | discriminate].
      * destruct str; discriminate.
Qed.

(* the exact guard: the denoted number is an integer of the destination's range *)
Definition fits_int (orc : bytes -> bytes -> option bytes) (k : ikind) (w : wire) : bool :=
  match w with
  | WDigit d => in_range_k k (Z.of_N d)
  | WInt z | WLong z => in_range_k k z
  | WDouble txt => match int_of_double orc k txt with RNone => false | _ => true end
  | _ => true
  end.

Lemma int_arm_refuses orc k w :
  scalar_tok w = true -> wf_tok w = true ->
  rep_scalar orc (TInt k) (den w) = RNone -> fits_int orc k w = true ->
  (exists e, run_action orc (SInt k) (arm (SInt k) w) w = SE e) \/
  run_action orc (SInt k) (arm (SInt k) w) w = SDefaultArm.
Proof.
  intros Hs Hw Hr Hf. apply rep_scalar_none in Hr.
  destruct w as [ | | | | |neg|d|z|z|txt|c|str|b|g|y mo dd tm utc|h mi sec fr utc|ws|ws|n fs nx|k' ws|k'|w'];
    try discriminate; cbn [den rep_scalar_core] in Hr; try discriminate; cbn [fits_int] in Hf.
  all: try (right; destruct k; reflexivity).
  all: try (exfalso; destruct (ik_signed k); cbn in Hr; discriminate).
  - rewrite Hf in Hr. discriminate.
  - rewrite Hf in Hr. discriminate.
  - rewrite Hf in Hr. discriminate.
  - rewrite Hr in Hf. discriminate.
  - left.
    assert (E : run_action orc (SInt k) (arm (SInt k) (WChar c)) (WChar c) =
                parse_str orc (if ik_signed k then PInt else PUint) (int_bits k) (NtI k) c)
      by (destruct k; reflexivity).
    rewrite E. unfold parse_str. destruct (ik_signed k) eqn:Es.
    + rewrite (go_parse_int_spec k c Es). destruct (parse_int c) as [z|].
      * destruct (in_range_k k z); [discriminate | eexists; reflexivity].
      * eexists; reflexivity.
    + rewrite (go_parse_uint_spec k c Es). destruct (parse_uint c) as [z|].
      * destruct (in_range_k k z); [discriminate | eexists; reflexivity].
      * eexists; reflexivity.
  - left.
    assert (E : run_action orc (SInt k) (arm (SInt k) (WStr str)) (WStr str) =
                parse_str orc (if ik_signed k then PInt else PUint) (int_bits k) (NtI k) str)
      by (destruct k; reflexivity).
    rewrite E. unfold parse_str. destruct (ik_signed k) eqn:Es.
    + rewrite (go_parse_int_spec k str Es). destruct (parse_int str) as [z|].
      * destruct (in_range_k k z); [discriminate | eexists; reflexivity].
      * eexists; reflexivity.
    + rewrite (go_parse_uint_spec k str Es). destruct (parse_uint str) as [z|].
      * destruct (in_range_k k z); [discriminate | eexists; reflexivity].
      * eexists; reflexivity.
Qed.

(* the refuted classes at the level of one switch arm: whatever is out of range is stored modulo 2^n *)
Lemma int_arm_wraps orc k z :
  run_action orc (SInt k) (arm (SInt k) (WLong z)) (WLong z) = SV (XInt k (wrap_k k z)).
Proof.
  assert (E : run_action orc (SInt k) (arm (SInt k) (WLong z)) (WLong z) = SV (XInt k (wrap_k k (wrap_k (int_reader k) z))))
    by (destruct k; reflexivity).
  rewrite E. destruct k; cbn [int_reader]; try rewrite wrap_k_idem; try reflexivity. rewrite uintptr_via_uint64. reflexivity.
Qed.

(* ------------------------------------------------------------------ equality up to normalisation is reflexive on scalars *)

Lemma bytes_eqb_refl b : bytes_eqb b b = true.
Proof. induction b as [|x b IH]; cbn; [reflexivity|]. rewrite IH, andb_true_r. destruct x; reflexivity. Qed.

Lemma fval_same_refl f : fval_same f f = true.
Proof. destruct f; cbn; [reflexivity | destruct neg; reflexivity | apply bytes_eqb_refl]. Qed.

Lemma ikind_eqb_refl k : ikind_eqb k k = true. Proof. destruct k; reflexivity. Qed.

Lemma xeqv_plain_refl f v : plain v = true -> xeqv (S f) v v = true.
Proof.
  destruct v; cbn [plain]; try discriminate; intros _; lazy beta iota zeta delta [xeqv int_payload is_empty_container andb].
  - reflexivity.
  - destruct b; reflexivity.
  - rewrite ikind_eqb_refl, Z.eqb_refl. reflexivity.
  - apply fval_same_refl.
  - apply fval_same_refl.
  - rewrite !fval_same_refl. reflexivity.
  - rewrite !fval_same_refl. reflexivity.
  - apply bytes_eqb_refl.
  - destruct b; [reflexivity | apply bytes_eqb_refl].
  - apply Z.eqb_refl.
  - apply bytes_eqb_refl.
  - apply bytes_eqb_refl.
  - rewrite !Z.eqb_refl. destruct utc; reflexivity.
  - apply bytes_eqb_refl.
Qed.

(* ------------------------------------------------------------------ bool, string, bytes, time, uuid, big.Int, big.Rat *)

Definition law_uuid (orc : bytes -> bytes -> option bytes) : Prop :=
  forall s, uuid_syntax s = true -> o_text orc (bs "uuid") s = ROk (uuid_lower s).

Definition simple_type (t : gtype) : bool :=
  match t with TBool | TString | TBytes | TTime | TUuid | TBigInt | TBigRat => true | _ => false end.

Lemma uuid_shape_length g : forall i, uuid_shape i g = true -> (i + length g = 36)%nat.
Proof.
  induction g as [|x g IH]; intros i H; cbn [uuid_shape] in H.
  - apply Nat.eqb_eq in H. cbn. lia.
  - apply andb_prop in H. destruct H as [_ H]. apply IH in H. cbn. lia.
Qed.

Lemma in_range_int32_wrap64 z : (- 2 ^ 31 <=? z) && (z <=? 2 ^ 31 - 1) = true -> wrap_k KInt64 z = z.
Proof. intros H. apply wrap_k_id. unfold in_range_k. cbn. lia. Qed.

Ltac done_val := eexists; split; [reflexivity | split; [reflexivity | intros ?n; apply xeqv_plain_refl; reflexivity]].

Lemma simple_arm_value orc te t s w v :
  law_uuid orc -> simple_type t = true -> sleaf_of t = Some s ->
  scalar_tok w = true -> wf_tok w = true ->
  rep_scalar orc t (den w) = RSome v ->
  exists v', run_action orc s (arm s w) w = SV v' /\ plain (post te s t v') = true /\ forall n, xeqv (S n) (post te s t v') v = true.
Proof.
  intros Hlaw Ht Hs Hsc Hw Hr.
  destruct t; try discriminate; cbn in Hs; inversion Hs; subst s; clear Hs.
  all: destruct w as [ | | | | |neg|d|z|z|txt|c|str|b|g|y mo dd tm utc|h mi sec fr utc|ws|ws|n fs nx|k' ws|k'|w'];
    try discriminate; unfold rep_scalar in Hr; cbn [den] in Hr; cbv iota beta in Hr; try discriminate.
  all: try (destruct c as [|c0 c1] eqn:Ec; [discriminate|]; rewrite <- Ec in *; clear Ec c0 c1).
  all: try (destruct str as [|c0 c1] eqn:Ec; [discriminate|]; rewrite <- Ec in *; clear Ec c0 c1).
  all: cbn [rep_scalar_core] in Hr; try discriminate.
  all: try (inversion Hr; subst; done_val).
  all: try (cbn in Hw; split_digit d Hw; inversion Hr; subst; done_val).
  - (* string <- guid *) cbn in Hw. rewrite Hw in Hr. inversion Hr; subst.
    eexists; split; [cbn; rewrite Hw; reflexivity | split; [reflexivity | intros ?n; apply xeqv_plain_refl; reflexivity]].
  - (* bytes <- s *) inversion Hr; subst. destruct str; eexists; (split; [reflexivity | split; [reflexivity|]]).
    + intros n; reflexivity.
    + intros n; apply xeqv_plain_refl; reflexivity.
  - (* bigint <- i *) inversion Hr; subst. cbn in Hw.
    eexists; split; [reflexivity | split; [reflexivity|]]. cbn [post]. 
    change (wrap_s 64 z) with (wrap_k KInt64 z). rewrite (in_range_int32_wrap64 z Hw). intros n; apply xeqv_plain_refl; reflexivity.
  - (* bigint <- d *) unfold bigint_of_double, of_o in Hr.
    destruct (o_text orc (bs "bf") txt) as [t1| |] eqn:E1; try discriminate.
    destruct (o_int orc (bs "bfexp") txt) as [e| |] eqn:Ee; try discriminate.
    destruct (Z.of_N max_bigint_bits <? e) eqn:El; [discriminate|].
    destruct (o_int orc (bs "bfint") txt) as [z| |] eqn:E2; try discriminate.
    destruct (o_text orc (bs "bf") (to_decZ z)) as [t2| |] eqn:E3; try discriminate.
    destruct (bytes_eqb t1 t2 || zero_text t1 && zero_text t2); [|discriminate]. inversion Hr; subst.
    assert (E : run_action orc SBigIntV (arm SBigIntV (WDouble txt)) (WDouble txt) =
                lift (o_text orc (bs "bf") txt) (fun _ => lift (o_int orc (bs "bfexp") txt) (fun e =>
                  if Z.of_N max_bigint_bits <? e then SE ECast
                  else lift (o_int orc (bs "bfint") txt) (fun z => SV (XPtr (XBigInt z))))))
      by reflexivity.
    eexists; split; [rewrite E, E1; cbn [lift]; rewrite Ee; cbn [lift]; rewrite El, E2; reflexivity
                    | split; [reflexivity | intros ?n; apply xeqv_plain_refl; reflexivity]].
  - (* bigint <- u *) destruct (parse_int c) as [z|] eqn:E; [|destruct c; discriminate]. inversion Hr; subst.
    assert (E0 : run_action orc SBigIntV (arm SBigIntV (WChar c)) (WChar c) = parse_str orc PBigInt 0 NtBigInt c) by reflexivity.
    eexists; split; [rewrite E0; unfold parse_str; rewrite E; reflexivity | split; [reflexivity | intros ?n; apply xeqv_plain_refl; reflexivity]].
  - (* bigint <- s *) destruct (parse_int str) as [z|] eqn:E; [|destruct str; discriminate]. inversion Hr; subst.
    assert (E0 : run_action orc SBigIntV (arm SBigIntV (WStr str)) (WStr str) = parse_str orc PBigInt 0 NtBigInt str) by reflexivity.
    eexists; split; [rewrite E0; unfold parse_str; rewrite E; reflexivity | split; [reflexivity | intros ?n; apply xeqv_plain_refl; reflexivity]].
  - (* bigrat <- i *) inversion Hr; subst. cbn in Hw.
    eexists; split; [reflexivity | split; [reflexivity|]]. cbn [post].
    change (wrap_s 64 z) with (wrap_k KInt64 z). rewrite (in_range_int32_wrap64 z Hw). intros n; apply xeqv_plain_refl; reflexivity.
  - (* bigrat <- d *) unfold of_o in Hr.
    destruct (o_float orc false txt) as [f0| |] eqn:E1; try discriminate.
    destruct (o_text orc (bs "ratf") txt) as [t1| |] eqn:E2; try discriminate. inversion Hr; subst.
    assert (E : run_action orc SBigRatV (arm SBigRatV (WDouble txt)) (WDouble txt) = conv_float orc false NtBigRat txt) by reflexivity.
    eexists; split; [rewrite E; unfold conv_float; rewrite E1; cbn [lift]; rewrite E2; reflexivity
                    | split; [reflexivity | intros ?n; apply xeqv_plain_refl; reflexivity]].
  - (* bigrat <- u *) unfold of_o in Hr. destruct (exponent_too_large max_text_exponent c) eqn:Ex; [discriminate|].
    destruct (o_text orc (bs "rat") c) as [t1| |] eqn:E1; try discriminate;
      [|destruct c; discriminate]. inversion Hr; subst.
    assert (E : run_action orc SBigRatV (arm SBigRatV (WChar c)) (WChar c) = parse_str orc PBigRat 0 NtBigRat c) by reflexivity.
    eexists; split; [rewrite E; unfold parse_str; rewrite Ex, E1; reflexivity | split; [reflexivity | intros ?n; apply xeqv_plain_refl; reflexivity]].
  - (* bigrat <- s *) unfold of_o in Hr. destruct (exponent_too_large max_text_exponent str) eqn:Ex; [discriminate|].
    destruct (o_text orc (bs "rat") str) as [t1| |] eqn:E1; try discriminate;
      [|destruct str; discriminate]. inversion Hr; subst.
    assert (E : run_action orc SBigRatV (arm SBigRatV (WStr str)) (WStr str) = parse_str orc PBigRat 0 NtBigRat str) by reflexivity.
    eexists; split; [rewrite E; unfold parse_str; rewrite Ex, E1; reflexivity | split; [reflexivity | intros ?n; apply xeqv_plain_refl; reflexivity]].
  - (* time <- D *) cbn in Hw. unfold time_of_dval in Hr. rewrite Hw in Hr. inversion Hr; subst.
    assert (E : run_action orc STime (arm STime (WDate y mo dd tm utc)) (WDate y mo dd tm utc) = read_src orc STime RDate (WDate y mo dd tm utc)) by reflexivity.
    eexists; split; [rewrite E; cbn [read_src]; rewrite Hw; reflexivity | split; [destruct tm as [[[[? ?] ?] ?]|]; reflexivity|]].
    intros n; destruct tm as [[[[? ?] ?] ?]|]; apply xeqv_plain_refl; reflexivity.
  - (* time <- T *) cbn in Hw. unfold time_of_dval in Hr. rewrite Hw in Hr. inversion Hr; subst.
    assert (E : run_action orc STime (arm STime (WTime h mi sec fr utc)) (WTime h mi sec fr utc) = read_src orc STime RTime (WTime h mi sec fr utc)) by reflexivity.
    eexists; split; [rewrite E; cbn [read_src]; rewrite Hw; reflexivity | split; [reflexivity | intros ?n; apply xeqv_plain_refl; reflexivity]].
  - (* uuid <- u: one character is not a uuid *) exfalso. cbn in Hw. apply Nat.leb_le in Hw.
    destruct (uuid_syntax c) eqn:Eu; [|discriminate]. apply uuid_shape_length in Eu. lia.
  - (* uuid <- s *) destruct (uuid_syntax str) eqn:Eu; [|discriminate]. inversion Hr; subst.
    assert (E : run_action orc SUuid (arm SUuid (WStr str)) (WStr str) = parse_str orc PUuid 0 NtUuid str) by reflexivity.
    eexists; split; [rewrite E; unfold parse_str; rewrite (Hlaw str Eu); reflexivity | split; [reflexivity | intros ?n; apply xeqv_plain_refl; reflexivity]].
  - (* uuid <- b *) destruct (Nat.eqb (length b) 16) eqn:El; [|discriminate]. inversion Hr; subst.
    assert (E : run_action orc SUuid (arm SUuid (WBytes b)) (WBytes b) = read_src orc SUuid RBytes (WBytes b)) by reflexivity.
    eexists; split; [rewrite E; cbn [read_src]; rewrite El; reflexivity | split; [reflexivity | intros ?n; apply xeqv_plain_refl; reflexivity]].
  - (* uuid <- g *) cbn in Hw. rewrite Hw in Hr. inversion Hr; subst.
    assert (E : run_action orc SUuid (arm SUuid (WGuid g)) (WGuid g) = read_src orc SUuid RGuid (WGuid g)) by reflexivity.
    eexists; split; [rewrite E; cbn [read_src]; rewrite Hw; reflexivity | split; [reflexivity | intros ?n; apply xeqv_plain_refl; reflexivity]].
Qed.

Definition fits_simple (orc : bytes -> bytes -> option bytes) (t : gtype) (w : wire) : bool :=
  match t, w with
  | TBigInt, WDouble txt => match bigint_of_double orc txt with RNone => false | _ => true end
  | _, _ => true
  end.

Lemma simple_arm_refuses orc t s w :
  oracle_total orc -> simple_type t = true -> sleaf_of t = Some s ->
  scalar_tok w = true -> wf_tok w = true ->
  rep_scalar orc t (den w) = RNone -> fits_simple orc t w = true ->
  (exists e, run_action orc s (arm s w) w = SE e) \/ run_action orc s (arm s w) w = SDefaultArm.
Proof.
  intros [Of Oi Ob Obe Ot Oc Ou Op] Ht Hs Hsc Hw Hr Hf.
  destruct t; try discriminate; cbn in Hs; inversion Hs; subst s; clear Hs.
  all: destruct w as [ | | | | |neg|d|z|z|txt|c|str|b|g|y mo dd tm utc|h mi sec fr utc|ws|ws|n fs nx|k' ws|k'|w'];
    try discriminate; unfold rep_scalar in Hr; cbn [den] in Hr; cbv iota beta in Hr; try discriminate.
  all: try (destruct c as [|c0 c1] eqn:Ec; [discriminate|]; rewrite <- Ec in *; clear Ec c0 c1).
  all: try (destruct str as [|c0 c1] eqn:Ec; [discriminate|]; rewrite <- Ec in *; clear Ec c0 c1).
  all: cbn [rep_scalar_core] in Hr; try discriminate.
  all: try (right; reflexivity).
  all: try (right; cbn in Hw; split_digit d Hw; reflexivity).
  - (* string <- g *) cbn in Hw. rewrite Hw in Hr. discriminate.
  - (* bigint <- d *) cbn [fits_simple] in Hf. rewrite Hr in Hf. discriminate.
  - (* bigint <- u *) left. destruct (parse_int c) as [z|] eqn:E; [discriminate|].
    assert (E0 : run_action orc SBigIntV (arm SBigIntV (WChar c)) (WChar c) = parse_str orc PBigInt 0 NtBigInt c) by reflexivity.
    rewrite E0. unfold parse_str. rewrite E. eexists; reflexivity.
  - (* bigint <- s *) left. destruct (parse_int str) as [z|] eqn:E; [discriminate|].
    assert (E0 : run_action orc SBigIntV (arm SBigIntV (WStr str)) (WStr str) = parse_str orc PBigInt 0 NtBigInt str) by reflexivity.
    rewrite E0. unfold parse_str. rewrite E. eexists; reflexivity.
  - (* bigrat <- d *) left. unfold of_o in Hr.
    assert (E : run_action orc SBigRatV (arm SBigRatV (WDouble txt)) (WDouble txt) = conv_float orc false NtBigRat txt) by reflexivity.
    rewrite E. unfold conv_float. pose proof (Of false txt) as Hn. pose proof (Ot (bs "ratf") txt) as Hn2.
    destruct (o_float orc false txt) as [f0| |]; cbn [lift]; try (eexists; reflexivity); try destruct Hn.
    destruct (o_text orc (bs "ratf") txt) as [t1| |]; try discriminate; try destruct Hn2.
  - (* bigrat <- u *) left. unfold of_o in Hr. pose proof (Ot (bs "rat") c) as Hn.
    destruct (exponent_too_large max_text_exponent c) eqn:Ex; [discriminate|].
    assert (E : run_action orc SBigRatV (arm SBigRatV (WChar c)) (WChar c) = parse_str orc PBigRat 0 NtBigRat c) by reflexivity.
    rewrite E. unfold parse_str. rewrite Ex. destruct (o_text orc (bs "rat") c) as [t1| |]; try discriminate. eexists; reflexivity.
  - (* bigrat <- s *) left. unfold of_o in Hr. pose proof (Ot (bs "rat") str) as Hn.
    destruct (exponent_too_large max_text_exponent str) eqn:Ex; [discriminate|].
    assert (E : run_action orc SBigRatV (arm SBigRatV (WStr str)) (WStr str) = parse_str orc PBigRat 0 NtBigRat str) by reflexivity.
    rewrite E. unfold parse_str. rewrite Ex. destruct (o_text orc (bs "rat") str) as [t1| |]; try discriminate. eexists; reflexivity.
  - (* time <- D *) cbn in Hw. unfold time_of_dval in Hr. rewrite Hw in Hr. discriminate.
  - (* time <- T *) cbn in Hw. unfold time_of_dval in Hr. rewrite Hw in Hr. discriminate.
  - (* uuid <- s *) destruct (uuid_syntax str); discriminate.
  - (* uuid <- b *) destruct (Nat.eqb (length b) 16); discriminate.
  - (* uuid <- g *) cbn in Hw. rewrite Hw in Hr. discriminate.
Qed.

(* ------------------------------------------------------------------ float32/64, complex64/128, big.Float *)

(* further laws of the oracles (standard library): a single digit is its own float text; big.NewFloat(float64(i))
   and big.Float.SetString agree on 32-bit integers *)
Definition law_digit_float (orc : bytes -> bytes -> option bytes) : Prop :=
  forall b d, (d < 10)%N -> o_float orc b (to_decZ (Z.of_N d)) = ROk (FFin (to_decZ (Z.of_N d))).
Definition law_bf_digit (orc : bytes -> bytes -> option bytes) : Prop :=
  forall d, (d < 10)%N -> o_text orc (bs "bf") (to_decZ (Z.of_N d)) = ROk (to_decZ (Z.of_N d)).
Definition law_nf (orc : bytes -> bytes -> option bytes) : Prop :=
  forall z, - 2 ^ 31 <= z <= 2 ^ 31 - 1 -> o_text orc (bs "nf") (to_decZ z) = o_text orc (bs "bf") (to_decZ z).

Lemma in_range_int32_wrap32 z : (- 2 ^ 31 <=? z) && (z <=? 2 ^ 31 - 1) = true -> wrap_k KInt32 z = z.
Proof. intros H. apply wrap_k_id. unfold in_range_k. cbn. lia. Qed.

Ltac fin_with tac := eexists; split; [tac | split; [reflexivity | intros ?n; apply xeqv_plain_refl; reflexivity]].

Ltac solve_digit :=
  match goal with
  | Hw : wf_tok (WDigit ?d) = true, Hr : _ = RSome _, L1 : law_digit_float _, L2 : law_bf_digit _ |- _ =>
      cbn in Hw; let Hd := fresh "Hd" in assert (Hd : (d < 10)%N) by (apply N.ltb_lt; exact Hw);
      first [ rewrite (L1 _ d Hd) in Hr | rewrite (L2 d Hd) in Hr ]; cbn [of_o] in Hr; inversion Hr; subst;
      split_digit d Hw; fin_with ltac:(reflexivity)
  end.

Ltac solve_int :=
  match goal with
  | Hw : wf_tok (WInt ?z) = true, Hr : context [o_float ?o ?b ?x] |- _ =>
      cbn in Hw; unfold of_o in Hr;
      let Eo := fresh "Eo" in destruct (o_float o b x) as [f0| |] eqn:Eo; try discriminate;
      inversion Hr; subst;
      fin_with ltac:(cbn -[o_float lift to_decZ wrap_s]; unfold conv_int;
        first [ change (wrap_s 64 z) with (wrap_k KInt64 z); rewrite (in_range_int32_wrap64 z Hw)
              | change (wrap_s 32 z) with (wrap_k KInt32 z); rewrite (in_range_int32_wrap32 z Hw) ];
        rewrite Eo; reflexivity)
  end.

Ltac solve_float :=
  match goal with
  | Hr : context [o_float ?o ?b ?x] |- _ =>
      unfold of_o in Hr;
      let Eo := fresh "Eo" in destruct (o_float o b x) as [f0| |] eqn:Eo;
      [ inversion Hr; subst;
        fin_with ltac:(cbn -[o_float lift to_decZ]; unfold conv_float, parse_str; rewrite Eo; reflexivity)
      | first [discriminate | destruct x; discriminate]
      | discriminate ]
  end.

Ltac solve_complex :=
  match goal with
  | Hr : context [o_complex ?o ?b ?x] |- _ =>
      unfold of_o in Hr;
      let Eo := fresh "Eo" in destruct (o_complex o b x) as [[re im]| |] eqn:Eo;
      [ inversion Hr; subst;
        fin_with ltac:(cbn -[o_complex lift]; unfold parse_str; rewrite Eo; reflexivity)
      | first [discriminate | destruct x; discriminate]
      | discriminate ]
  end.

(* big.Float destinations: the same SetString on both sides; 'i' goes through big.NewFloat(float64(i)) *)
Ltac solve_bigfloat :=
  match goal with
  | Hw : wf_tok (WInt ?z) = true, L3 : law_nf _, Hr : context [o_text ?o ?fn ?x] |- _ =>
      cbn in Hw; unfold of_o in Hr;
      let Eo := fresh "Eo" in destruct (o_text o fn x) as [t0| |] eqn:Eo; try discriminate;
      inversion Hr; subst;
      fin_with ltac:(
        change (run_action o SBigFloatV (arm SBigFloatV (WInt z)) (WInt z))
          with (lift (o_text o (bs "nf") (to_decZ (wrap_k KInt64 z))) (fun t => SV (XPtr (XBigFloat t))));
        rewrite (in_range_int32_wrap64 z Hw); rewrite (L3 z ltac:(lia)); rewrite Eo; reflexivity)
  | Hr : context [o_text ?o ?fn ?x] |- run_action _ _ (arm _ ?w) _ = _ /\ _ => fail
  | Hr : context [o_text ?o ?fn ?x] |- exists v', run_action _ ?s (arm _ ?w) _ = _ /\ _ =>
      unfold of_o in Hr;
      let Eo := fresh "Eo" in destruct (o_text o fn x) as [t0| |] eqn:Eo;
      [ inversion Hr; subst;
        fin_with ltac:(
          first [ change (run_action o s (arm s w) w) with (lift (o_text o (bs "bf") x) (fun t => SV (XPtr (XBigFloat t))))
                | change (run_action o s (arm s w) w) with (parse_str o PBigFloat 0 NtBigFloat x); unfold parse_str ];
          rewrite Eo; reflexivity)
      | first [discriminate | destruct x; discriminate]
      | discriminate ]
  end.

Definition float_type (t : gtype) : bool :=
  match t with TF32 | TF64 | TC64 | TC128 | TBigFloat => true | _ => false end.

Lemma float_arm_value orc te t s w v :
  law_digit_float orc -> law_bf_digit orc -> law_nf orc ->
  float_type t = true -> sleaf_of t = Some s ->
  scalar_tok w = true -> wf_tok w = true ->
  rep_scalar orc t (den w) = RSome v ->
  exists v', run_action orc s (arm s w) w = SV v' /\ plain (post te s t v') = true /\ forall n, xeqv (S n) (post te s t v') v = true.
Proof.
  intros L1 L2 L3 Ht Hs Hsc Hw Hr.
  destruct t; try discriminate; cbn in Hs; inversion Hs; subst s; clear Hs.
  all: destruct w as [ | | | | |neg|d|z|z|txt|c|str|b|g|y mo dd tm utc|h mi sec fr utc|ws|ws|n fs nx|k' ws|k'|w'];
    try discriminate; unfold rep_scalar in Hr; cbn [den] in Hr; cbv iota beta in Hr; try discriminate.
  all: try (destruct c as [|c0 c1] eqn:Ec; [discriminate|]; rewrite <- Ec in *; clear Ec c0 c1).
  all: try (destruct str as [|c0 c1] eqn:Ec; [discriminate|]; rewrite <- Ec in *; clear Ec c0 c1).
  all: cbn [rep_scalar_core rep_float] in Hr; try discriminate.
  all: try (inversion Hr; subst; done_val).
  all: try solve_digit.
  all: try solve_int.
  all: try solve_complex.
  all: try solve_float.
  all: try solve_bigfloat.
Qed.

Ltac refuse_digit :=
  match goal with
  | Hw : wf_tok (WDigit ?d) = true, Hr : _ = RNone, L1 : law_digit_float _, L2 : law_bf_digit _ |- _ =>
      exfalso; cbn in Hw; let Hd := fresh "Hd" in assert (Hd : (d < 10)%N) by (apply N.ltb_lt; exact Hw);
      first [ rewrite (L1 _ d Hd) in Hr | rewrite (L2 d Hd) in Hr ]; discriminate
  end.

Ltac refuse_int :=
  match goal with
  | Hw : wf_tok (WInt ?z) = true, Hr : context [o_float ?o ?b ?x] |- _ =>
      cbn in Hw; unfold of_o in Hr;
      let Eo := fresh "Eo" in destruct (o_float o b x) as [f0| |] eqn:Eo; try discriminate;
      left; eexists; cbn -[o_float lift to_decZ wrap_s]; unfold conv_int;
      first [ change (wrap_s 64 z) with (wrap_k KInt64 z); rewrite (in_range_int32_wrap64 z Hw)
            | change (wrap_s 32 z) with (wrap_k KInt32 z); rewrite (in_range_int32_wrap32 z Hw) ];
      rewrite Eo; reflexivity
  end.

Ltac refuse_float :=
  match goal with
  | Hr : context [o_float ?o ?b ?x] |- _ =>
      unfold of_o in Hr;
      let Eo := fresh "Eo" in destruct (o_float o b x) as [f0| |] eqn:Eo; try discriminate;
      left; eexists; cbn -[o_float lift to_decZ]; unfold conv_float, parse_str; rewrite Eo; reflexivity
  end.

Ltac refuse_complex :=
  match goal with
  | Hr : context [o_complex ?o ?b ?x] |- _ =>
      unfold of_o in Hr;
      let Eo := fresh "Eo" in destruct (o_complex o b x) as [[re im]| |] eqn:Eo; try discriminate;
      left; eexists; cbn -[o_complex lift]; unfold parse_str; rewrite Eo; reflexivity
  end.

Ltac refuse_bigfloat :=
  match goal with
  | Hw : wf_tok (WInt ?z) = true, L3 : law_nf _, Hr : context [o_text ?o ?fn ?x] |- _ =>
      cbn in Hw; unfold of_o in Hr;
      let Eo := fresh "Eo" in destruct (o_text o fn x) as [t0| |] eqn:Eo; try discriminate;
      left; eexists;
      change (run_action o SBigFloatV (arm SBigFloatV (WInt z)) (WInt z))
        with (lift (o_text o (bs "nf") (to_decZ (wrap_k KInt64 z))) (fun t => SV (XPtr (XBigFloat t))));
      rewrite (in_range_int32_wrap64 z Hw); rewrite (L3 z ltac:(lia)); rewrite Eo; reflexivity
  | Hr : context [o_text ?o ?fn ?x] |- (exists e, run_action _ ?s (arm _ ?w) _ = _) \/ _ =>
      unfold of_o in Hr;
      let Eo := fresh "Eo" in destruct (o_text o fn x) as [t0| |] eqn:Eo; try discriminate;
      left; eexists;
      first [ change (run_action o s (arm s w) w) with (lift (o_text o (bs "bf") x) (fun t => SV (XPtr (XBigFloat t))))
            | change (run_action o s (arm s w) w) with (parse_str o PBigFloat 0 NtBigFloat x); unfold parse_str ];
      rewrite Eo; reflexivity
  end.

Lemma float_arm_refuses orc t s w :
  oracle_total orc -> law_digit_float orc -> law_bf_digit orc -> law_nf orc ->
  float_type t = true -> sleaf_of t = Some s ->
  scalar_tok w = true -> wf_tok w = true ->
  rep_scalar orc t (den w) = RNone ->
  (exists e, run_action orc s (arm s w) w = SE e) \/ run_action orc s (arm s w) w = SDefaultArm.
Proof.
  intros Ho L1 L2 L3 Ht Hs Hsc Hw Hr.
  destruct t; try discriminate; cbn in Hs; inversion Hs; subst s; clear Hs.
  all: destruct w as [ | | | | |neg|d|z|z|txt|c|str|b|g|y mo dd tm utc|h mi sec fr utc|ws|ws|n fs nx|k' ws|k'|w'];
    try discriminate; unfold rep_scalar in Hr; cbn [den] in Hr; cbv iota beta in Hr; try discriminate.
  all: try (destruct c as [|c0 c1] eqn:Ec; [discriminate|]; rewrite <- Ec in *; clear Ec c0 c1).
  all: try (destruct str as [|c0 c1] eqn:Ec; [discriminate|]; rewrite <- Ec in *; clear Ec c0 c1).
  all: cbn [rep_scalar_core rep_float] in Hr; try discriminate.
  all: try (right; reflexivity).
  all: try refuse_digit.
  all: try refuse_int.
  all: try refuse_complex.
  all: try refuse_float.
  all: try refuse_bigfloat.
Qed.

(* ------------------------------------------------------------------ C06 on scalar destinations (top level) *)

Definition proved_scalar (t : gtype) : bool := match t with TInt _ => true | _ => simple_type t || float_type t end.

(* the laws assumed of the oracle table (each a fact about the standard library or the hardware) *)
Record oracle_laws (orc : bytes -> bytes -> option bytes) : Prop := {
  ol_f2i : law_f2i orc; ol_uuid : law_uuid orc; ol_digit : law_digit_float orc; ol_bfdigit : law_bf_digit orc; ol_nf : law_nf orc
}.

Definition fits (orc : bytes -> bytes -> option bytes) (t : gtype) (w : wire) : bool :=
  match t with TInt k => fits_int orc k w | _ => fits_simple orc t w end.

Lemma proved_scalar_is_scalar t : proved_scalar t = true -> is_scalar_type t = true.
Proof. destruct t; cbn; try discriminate; reflexivity. Qed.

Lemma proved_scalar_leaf t : proved_scalar t = true -> exists s, sleaf_of t = Some s.
Proof. destruct t; cbn; try discriminate; eexists; reflexivity. Qed.

Lemma int_rep_plain orc k w v : scalar_tok w = true -> rep_scalar orc (TInt k) (den w) = RSome v -> plain v = true.
Proof.
  intros Hs Hr. apply rep_scalar_some in Hr.
  destruct w as [ | | | | |neg|d|z|z|txt|c|str|b|g|y mo dd tm utc|h mi sec fr utc|ws|ws|n fs nx|k' ws|k'|w'];
    try discriminate; cbn [den rep_scalar_core] in Hr; try discriminate;
    try (destruct (in_range_k k _); [inversion Hr; reflexivity | discriminate]).
  - destruct (if ik_signed k then parse_int [] else parse_uint []); [|discriminate].
    destruct (in_range_k k z); [inversion Hr; reflexivity | discriminate].
  - unfold int_of_double, of_o in Hr.
    repeat match type of Hr with
           | context [match ?x with _ => _ end] => destruct x; try discriminate
           end; inversion Hr; reflexivity.
  - destruct (if ik_signed k then parse_int c else parse_uint c); [|destruct c; discriminate].
    destruct (in_range_k k z); [inversion Hr; reflexivity | discriminate].
  - destruct (if ik_signed k then parse_int str else parse_uint str); [|destruct str; discriminate].
    destruct (in_range_k k z); [inversion Hr; reflexivity | discriminate].
Qed.

Lemma accepts_int orc opts te f k w v :
  law_f2i orc -> scalar_tok w = true -> wf_tok w = true ->
  rep_scalar orc (TInt k) (den w) = RSome v ->
  exists v', dec_top orc opts te (S (S f)) (TInt k) w = OOk v' /\ xeqv spec_fuel v' v = true.
Proof.
  intros L1 Hs Hw Hr. pose proof (int_rep_plain orc k w v Hs Hr) as Hp.
  exists v. split.
  - pose proof (int_arm_value orc k w v L1 Hs Hw Hr) as Ha.
    apply (dec_top_scalar_value orc opts te (S f) (TInt k) w (SInt k) v eq_refl eq_refl Ha Hp).
  - apply xeqv_plain_refl. exact Hp.
Qed.

Theorem accepts_scalar orc opts te f t w v :
  oracle_total orc -> oracle_laws orc ->
  proved_scalar t = true -> scalar_tok w = true -> wf_tok w = true ->
  rep_scalar orc t (den w) = RSome v ->
  exists v', dec_top orc opts te (S (S f)) t w = OOk v' /\ xeqv spec_fuel v' v = true.
Proof.
  intros Ho [L1 L2 L3 L4 L5] Ht Hs Hw Hr.
  pose proof (proved_scalar_is_scalar t Ht) as Hsc.
  destruct (proved_scalar_leaf t Ht) as [s Hs0].
  destruct (simple_type t) eqn:Est.
  - destruct (simple_arm_value orc te t s w v L2 Est Hs0 Hs Hw Hr) as (v' & Ha & Hp & Hx).
    exists (post te s t v'). split; [|exact (Hx 199%nat)].
    apply (dec_top_scalar_value orc opts te (S f) t w s v' Hsc Hs0 Ha Hp).
  - destruct (float_type t) eqn:Eft.
    + destruct (float_arm_value orc te t s w v L3 L4 L5 Eft Hs0 Hs Hw Hr) as (v' & Ha & Hp & Hx).
      exists (post te s t v'). split; [|exact (Hx 199%nat)].
      apply (dec_top_scalar_value orc opts te (S f) t w s v' Hsc Hs0 Ha Hp).
    + destruct t; try discriminate. eapply accepts_int; eauto.
Qed.

Theorem refuses_scalar_partial orc opts te f t w :
  oracle_total orc -> oracle_laws orc ->
  proved_scalar t = true -> scalar_tok w = true -> wf_tok w = true ->
  rep_scalar orc t (den w) = RNone -> fits orc t w = true ->
  exists e, dec_top orc opts te (S (S f)) t w = OErr e.
Proof.
  intros Ho [L1 L2 L3 L4 L5] Ht Hs Hw Hr Hf.
  pose proof (proved_scalar_is_scalar t Ht) as Hsc.
  destruct (proved_scalar_leaf t Ht) as [s Hs0].
  assert (H : (exists e, run_action orc s (arm s w) w = SE e) \/ run_action orc s (arm s w) w = SDefaultArm).
  { destruct (simple_type t) eqn:Est.
    - apply (simple_arm_refuses orc t s w Ho Est Hs0 Hs Hw Hr).
      destruct t; try discriminate; exact Hf.
    - destruct (float_type t) eqn:Eft.
      + apply (float_arm_refuses orc t s w Ho L3 L4 L5 Eft Hs0 Hs Hw Hr).
      + destruct t; try discriminate. cbn in Hs0. inversion Hs0; subst s.
        apply int_arm_refuses; assumption. }
  destruct H as [[e He]|Hd].
  - exists e. apply (dec_top_scalar_error orc opts te (S f) t w s e Hsc Hs0 He).
  - apply (default_arm_is_error orc opts te f t w s Ho Hsc Hs0 Hs Hw Hd).
Qed.

(* ------------------------------------------------------------------ no panic on scalar destinations *)

Definition good (te : tenv) (s : sleaf) (t : gtype) (r : sres) : Prop :=
  match r with
  | SV v => plain (post te s t v) = true
  | SE _ | SDefaultArm => True
  | _ => False
  end.

Lemma lift_good {A} te s t (r : oresult A) k : not_miss r -> (forall a, good te s t (k a)) -> good te s t (lift r k).
Proof. destruct r; cbn; intros H Hk; [apply Hk | exact I | destruct H]. Qed.

Lemma o_time_plain orc fn a x : o_time orc fn a = ROk x -> plain x = true.
Proof.
  unfold o_time. destruct (o_call orc fn a); try discriminate.
  unfold time_of_payload. destruct (map z_of_text (split_all 9 payload)) as [|[y|] [|[mo|] [|[d|] [|[h|] [|[mi|] [|[s|] [|[ns|] [|[u|] [|? ?]]]]]]]]]; try discriminate.
  intros H; inversion H; reflexivity.
Qed.

Lemma lift_time_good te s t orc fn a : not_miss (o_time orc fn a) -> s = STime -> good te s t (lift (o_time orc fn a) SV).
Proof.
  intros H Hs. subst s. destruct (o_time orc fn a) as [x| |] eqn:E; cbn; [|exact I|destruct H].
  apply (o_time_plain orc fn a x E).
Qed.

Lemma scalar_arm_good orc te t s w :
  oracle_total orc -> is_scalar_type t = true -> sleaf_of t = Some s ->
  scalar_tok w = true -> wf_tok w = true ->
  good te s t (run_action orc s (arm s w) w).
Proof.
  intros [Of Oi Ob Obe Ot Oc Ou Op] Ht Hs Hsc Hw.
  destruct t as [ |k| | | | | | | | | | | |e|n e|k0 v0|e| |n| ]; try discriminate; cbn in Hs; inversion Hs; subst s; clear Hs.
  all: destruct w as [ | | | | |neg|d|z|z|txt|c|str|b|g|y mo dd tm utc|h mi sec fr utc|ws|ws|n fs nx|k' ws|k'|w'];
    try discriminate.
  all: try (cbn in Hw; split_digit d Hw).
  all: try (destruct k).
  all: cbn -[o_float o_text o_int o_complex o_time o_f2i lift go_parse_int go_parse_uint parse_int parse_bool uuid_syntax valid_date valid_clock Nat.eqb exponent_too_large Z.ltb Z.of_N].
  all: try exact I; try reflexivity.
  all: unfold conv_float, unix_time, o_f2i.
  all: repeat first
    [ exact I | reflexivity
    | apply lift_time_good; [first [apply Ou | apply Op] | reflexivity]
    | apply lift_good; [first [apply Of | apply Oi | apply Ob | apply Obe | apply Ot | apply Oc | apply Ou | apply Op] | intros ?]
    | match goal with |- good _ _ _ (match ?x with _ => _ end) => destruct x eqn:?E end
    | match goal with |- good _ _ _ (if ?x then _ else _) => destruct x eqn:?E end ].
  all: try (cbn [wf_tok] in Hw; congruence).
  all: try (destruct str; reflexivity).
  all: try (match goal with E : o_text ?o ?f ?a = RMiss _ _, Ot' : forall fn a, not_miss (o_text ?o fn a) |- _ => pose proof (Ot' f a) as Hn; rewrite E in Hn; destruct Hn end).
  destruct tm as [[[[? ?] ?] ?]|]; reflexivity.
Qed.


Theorem scalar_no_panic orc opts te f t w :
  oracle_total orc -> is_scalar_type t = true -> scalar_tok w = true -> wf_tok w = true ->
  (exists v, dec_top orc opts te (S (S f)) t w = OOk v) \/ (exists e, dec_top orc opts te (S (S f)) t w = OErr e).
Proof.
  intros Ho Ht Hs Hw.
  assert (Hl : exists s, sleaf_of t = Some s) by (destruct t; try discriminate; eexists; reflexivity).
  destruct Hl as [s Hs0].
  pose proof (scalar_arm_good orc te t s w Ho Ht Hs0 Hs Hw) as Hg.
  destruct (run_action orc s (arm s w) w) as [v|e|fn arg| |cal| |why] eqn:Er; cbn [good] in Hg;
    [ | | destruct Hg | | destruct Hg | destruct Hg | destruct Hg].
  - left. exists (post te s t v). apply (dec_top_scalar_value orc opts te (S f) t w s v Ht Hs0 Er Hg).
  - right. exists e. apply (dec_top_scalar_error orc opts te (S f) t w s e Ht Hs0 Er).
  - right. apply (default_arm_is_error orc opts te f t w s Ho Ht Hs0 Hs Hw Er).
Qed.

(* ------------------------------------------------------------------ link with [representable] and [denote] *)

Lemma representable_scalar orc opts te n t w :
  is_scalar_type t = true -> scalar_tok w = true ->
  representable orc opts te (S n) t (den w) = rep_scalar orc t (den w).
Proof.
  intros Ht Hs. destruct t; try discriminate; destruct w; try discriminate; reflexivity.
Qed.

(* one decoder for every position: the three routes reach the same routine for scalar types
   (C06_routes_agree is the corresponding statement about the Go tables) *)
Lemma route_independent_scalar orc opts te fuel t w pl st r1 r2 :
  is_scalar_type t = true -> dec orc opts te fuel r1 t w pl st = dec orc opts te fuel r2 t w pl st.
Proof.
  intros Ht. destruct fuel as [|f]; [reflexivity|]. cbn [dec]. unfold dec_step.
  replace (leaf_of r1 t) with (leaf_of r2 t); [reflexivity|].
  destruct t; try discriminate; reflexivity.
Qed.


(* ------------------------------------------------------------------ pointers to scalar destinations *)

(* pointer destinations *T for the scalar types with a decodeXPtr routine *)
Definition ptr_scalar (t : gtype) : bool :=
  match t with
  | TBool | TInt _ | TF32 | TF64 | TC64 | TC128 | TString | TBytes | TTime | TUuid => true
  | _ => false
  end.

Lemma ptr_scalar_leaf t : ptr_scalar t = true ->
  exists s, sleaf_of t = Some s /\ leaf_of RTop (TPtr t) = LSPtr s /\ s <> SIface /\ is_scalar_type t = true /\
            post = post /\ (forall te v, post te s t v = v).
Proof.
  destruct t; cbn; try discriminate; intros _; eexists; (split; [reflexivity|]); (split; [reflexivity|]);
    (split; [discriminate|]); (split; [reflexivity|]); (split; [reflexivity|]); intros; reflexivity.
Qed.

Lemma dec_top_ptr_null orc opts te f t :
  ptr_scalar t = true -> dec_top orc opts te (S (S f)) (TPtr t) WNull = OOk XNil.
Proof.
  intros Ht. destruct (ptr_scalar_leaf t Ht) as (s & Hs & Hl & _).
  unfold dec_top. cbn [st_alloc dinit mem length zero_val]. cbn [dec]. unfold dec_step. rewrite Hl.
  cbn. reflexivity.
Qed.

Lemma dec_scalar_value orc opts te rec s t w pl st v :
  s <> SIface -> run_action orc s (arm s w) w = SV v -> plain (post te s t v) = true ->
  dec_scalar orc opts te rec s t w pl st = wr_or_panic (add_tok_ref opts st w) pl (post te s t v).
Proof.
  intros Hni Hr Hp. unfold dec_scalar, arm in *.
  destruct s; try contradiction; rewrite Hr; cbn [post] in Hp |- *; rewrite (inject_plain _ _ Hp); reflexivity.
Qed.

Lemma write_cell1 (st : dstate) a b v : mem st = [a; b] ->
  exists st', wr_or_panic st (1%nat, []) v = DOk st' /\ mem st' = [a; v].
Proof. intros Hm. unfold wr_or_panic, st_wr, wr. cbn [fst snd]. rewrite Hm. cbn. eexists. split; reflexivity. Qed.

Lemma write_cell0 (st : dstate) a b v : mem st = [a; b] ->
  exists st', wr_or_panic st (0%nat, []) v = DOk st' /\ mem st' = [v; b].
Proof. intros Hm. unfold wr_or_panic, st_wr, wr. cbn [fst snd]. rewrite Hm. cbn. eexists. split; reflexivity. Qed.

Lemma dec_top_ptr_value orc opts te f t w s v :
  ptr_scalar t = true -> sleaf_of t = Some s -> w <> WNull ->
  run_action orc s (arm s w) w = SV v -> plain v = true ->
  dec_top orc opts te (S (S f)) (TPtr t) w = OOk (XPtr v).
Proof.
  intros Ht Hs Hn Hr Hp. destruct (ptr_scalar_leaf t Ht) as (s' & Hs' & Hl & Hni & Hsc & _ & Hpost).
  rewrite Hs in Hs'. inversion Hs'; subst s'.
  assert (Hp' : plain (post te s t v) = true) by (rewrite Hpost; exact Hp).
  unfold dec_top. cbn [st_alloc dinit mem length zero_val]. cbn [dec]. unfold dec_step. rewrite Hl.
  unfold dec_scalar_ptr.
  destruct w; try congruence;
    cbn [st_alloc mem refs clss length app];
    rewrite (dec_scalar_value orc opts te _ s t _ _ _ v Hni Hr Hp'), Hpost;
    (lazymatch goal with |- context [wr_or_panic (add_tok_ref opts ?st1 ?w) (1%nat, []) v] =>
       destruct (write_cell1 (add_tok_ref opts st1 w) XNil (zero_of te t) v) as (st2 & E2 & M2);
         [rewrite mem_add_tok_ref; reflexivity|]; rewrite E2; cbn [bindd];
       destruct (write_cell0 st2 XNil v (XPtrTo 1 [])) as (st3 & E3 & M3); [exact M2|]; rewrite E3
     end);
    unfold st_rd, rd; cbn [fst snd]; rewrite M3; cbn [nth_error rd_path];
    (change (unfold [XPtrTo 1 []; v] (S (S f)) [] (XPtrTo 1 [])) with (XPtr (unfold [XPtrTo 1 []; v] (S f) [(1%nat, [])] v));
     rewrite (unfold_plain _ _ _ _ Hp); reflexivity).
Qed.

(* defaultDecode of a scalar token (not r, c, E): decodeError, whatever the memory *)
Lemma default_decode_scalar_err orc opts te f t w pl st :
  oracle_total orc -> scalar_tok w = true -> wf_tok w = true ->
  exists e, default_decode orc opts te (dec orc opts te (S f)) t w pl st = DErr e.
Proof.
  intros Ho Hsc Hw. unfold default_decode.
  assert (Hd : sw_lookup (model_switch RtDefault) (tag_of w) = ACall FDecodeError).
  { destruct w as [ | | | | |neg|d|z|z|txt|c|str|b|g|y mo dd tm utc|h mi sec fr utc|ws|ws|n fs nx|k ws|k|w'];
      try discriminate; try reflexivity. cbn in Hw. split_digit d Hw; reflexivity. }
  rewrite Hd.
  destruct w as [ | | | | |neg|d|z|z|txt|c|str|b|g|y mo dd tm utc|h mi sec fr utc|ws|ws|n fs nx|k ws|k|w'];
    try discriminate; cbv iota beta;
    unfold decode_error, st_alloc; cbn [mem refs clss];
    (lazymatch goal with |- context [dec orc opts te (S f) RTop TIface ?w (?c, []) ?st1] =>
      destruct (iface_scalar_dec orc opts te f w c st1 Ho Hsc Hw) as [(st' & E)|(e & E)];
        [cbn [mem]; rewrite app_length; cbn; lia | rewrite E | rewrite E]
    end); eexists; reflexivity.
Qed.

Lemma dec_scalar_error orc opts te rec s t w pl st e :
  s <> SIface -> run_action orc s (arm s w) w = SE e -> dec_scalar orc opts te rec s t w pl st = DErr e.
Proof. intros Hni Hr. unfold dec_scalar, arm in *. destruct s; try contradiction; rewrite Hr; reflexivity. Qed.

Lemma dec_scalar_default orc opts te rec s t w pl st :
  s <> SIface -> run_action orc s (arm s w) w = SDefaultArm ->
  dec_scalar orc opts te rec s t w pl st = default_decode orc opts te rec t w pl st.
Proof. intros Hni Hr. unfold dec_scalar, arm in *. destruct s; try contradiction; rewrite Hr; reflexivity. Qed.

Lemma dec_top_ptr_error orc opts te f t w s e :
  ptr_scalar t = true -> sleaf_of t = Some s -> w <> WNull ->
  run_action orc s (arm s w) w = SE e ->
  dec_top orc opts te (S (S f)) (TPtr t) w = OErr e.
Proof.
  intros Ht Hs Hn Hr. destruct (ptr_scalar_leaf t Ht) as (s' & Hs' & Hl & Hni & Hsc & _ & Hpost).
  rewrite Hs in Hs'. inversion Hs'; subst s'.
  unfold dec_top. cbn [st_alloc dinit mem length zero_val]. cbn [dec]. unfold dec_step. rewrite Hl.
  unfold dec_scalar_ptr.
  destruct w; try congruence; cbn [st_alloc mem refs clss length app];
    rewrite (dec_scalar_error orc opts te _ s t _ _ _ e Hni Hr); reflexivity.
Qed.

Lemma dec_top_ptr_default orc opts te f t w s :
  oracle_total orc -> ptr_scalar t = true -> sleaf_of t = Some s -> w <> WNull ->
  scalar_tok w = true -> wf_tok w = true ->
  run_action orc s (arm s w) w = SDefaultArm ->
  exists e, dec_top orc opts te (S (S f)) (TPtr t) w = OErr e.
Proof.
  intros Ho Ht Hs Hn Hsc Hw Hr. destruct (ptr_scalar_leaf t Ht) as (s' & Hs' & Hl & Hni & Hsct & _ & Hpost).
  rewrite Hs in Hs'. inversion Hs'; subst s'.
  unfold dec_top. cbn [st_alloc dinit mem length zero_val].
  change (dec orc opts te (S (S f))) with (dec_step orc opts te (dec orc opts te (S f))).
  unfold dec_step at 1. rewrite Hl. unfold dec_scalar_ptr.
  destruct w; try congruence; cbn [st_alloc mem refs clss length app];
    rewrite (dec_scalar_default orc opts te _ s t _ _ _ Hni Hr);
    (lazymatch goal with |- context [default_decode orc opts te (dec orc opts te (S f)) ?t0 ?w0 ?pl ?st0] =>
       destruct (default_decode_scalar_err orc opts te f t0 w0 pl st0 Ho Hsc Hw) as [e E]; rewrite E
     end); eexists; reflexivity.
Qed.

Lemma xeqv_ptr n a b : xeqv (S n) (XPtr a) (XPtr b) = xeqv n a b.
Proof. reflexivity. Qed.

(* C06 behind one pointer: *T for T in bool, the integer kinds, string, []byte, time.Time, uuid.UUID *)
Definition proved_ptr (t : gtype) : bool := proved_scalar t && ptr_scalar t.

Lemma representable_ptr_scalar orc opts te n t w :
  is_scalar_type t = true -> scalar_tok w = true ->
  representable orc opts te (S (S n)) (TPtr t) (den w) =
  match w with WNull => RSome XNil | _ => rep_map XPtr (rep_scalar orc t (den w)) end.
Proof. intros Ht Hs. destruct t; try discriminate; destruct w; try discriminate; reflexivity. Qed.

Theorem accepts_ptr_scalar orc opts te f t w v :
  oracle_total orc -> oracle_laws orc ->
  proved_ptr t = true -> scalar_tok w = true -> wf_tok w = true ->
  representable orc opts te (S (S f)) (TPtr t) (den w) = RSome v ->
  exists v', dec_top orc opts te (S (S f)) (TPtr t) w = OOk v' /\ xeqv spec_fuel v' v = true.
Proof.
  intros Ho [L1 L2 L3 L4 L5] Ht Hs Hw Hr. apply andb_prop in Ht. destruct Ht as [Hps Hpt].
  pose proof (proved_scalar_is_scalar t Hps) as Hsc.
  rewrite (representable_ptr_scalar orc opts te f t w Hsc Hs) in Hr.
  destruct (proved_scalar_leaf t Hps) as [s Hs0].
  assert (Hnull : w = WNull \/ w <> WNull) by (destruct w; (left; reflexivity) || (right; discriminate)).
  destruct Hnull as [E|Hn].
  - subst w. inversion Hr; subst. exists XNil. split; [apply dec_top_ptr_null; exact Hpt | reflexivity].
  - assert (Hr' : exists v0, rep_scalar orc t (den w) = RSome v0 /\ v = XPtr v0).
    { destruct w; try congruence; destruct (rep_scalar orc t _) as [v0| | |]; try discriminate; inversion Hr; eauto. }
    destruct Hr' as (v0 & Hr0 & Ev). subst v.
    assert (Hgen : forall v', run_action orc s (arm s w) w = SV v' -> plain (post te s t v') = true ->
                   (forall n, xeqv (S n) (post te s t v') v0 = true) ->
                   exists y, dec_top orc opts te (S (S f)) (TPtr t) w = OOk y /\ xeqv spec_fuel y (XPtr v0) = true).
    { intros v' Ha Hp Hx.
      destruct (ptr_scalar_leaf t Hpt) as (s' & Hs' & _ & _ & _ & _ & Hpost). rewrite Hs0 in Hs'. inversion Hs'; subst s'.
      rewrite Hpost in Hp. exists (XPtr v'). split.
      - apply (dec_top_ptr_value orc opts te f t w s v' Hpt Hs0 Hn Ha Hp).
      - unfold spec_fuel. rewrite (xeqv_ptr 199 v' v0). specialize (Hx 198%nat). rewrite Hpost in Hx. exact Hx. }
    destruct (simple_type t) eqn:Est; [|destruct (float_type t) eqn:Eft].
    + destruct (simple_arm_value orc te t s w v0 L2 Est Hs0 Hs Hw Hr0) as (v' & Ha & Hp & Hx). exact (Hgen v' Ha Hp Hx).
    + destruct (float_arm_value orc te t s w v0 L3 L4 L5 Eft Hs0 Hs Hw Hr0) as (v' & Ha & Hp & Hx). exact (Hgen v' Ha Hp Hx).
    + destruct t; try discriminate. cbn in Hs0. inversion Hs0; subst s.
      pose proof (int_arm_value orc k w v0 L1 Hs Hw Hr0) as Ha.
      pose proof (int_rep_plain orc k w v0 Hs Hr0) as Hp.
      exists (XPtr v0). split.
      * apply (dec_top_ptr_value orc opts te f (TInt k) w (SInt k) v0 Hpt eq_refl Hn Ha Hp).
      * unfold spec_fuel. rewrite (xeqv_ptr 199 v0 v0). apply xeqv_plain_refl. exact Hp.
Qed.

Theorem refuses_ptr_scalar_partial orc opts te f t w :
  oracle_total orc -> oracle_laws orc ->
  proved_ptr t = true -> scalar_tok w = true -> wf_tok w = true ->
  representable orc opts te (S (S f)) (TPtr t) (den w) = RNone -> fits orc t w = true ->
  exists e, dec_top orc opts te (S (S f)) (TPtr t) w = OErr e.
Proof.
  intros Ho [L1 L2 L3 L4 L5] Ht Hs Hw Hr Hf. apply andb_prop in Ht. destruct Ht as [Hps Hpt].
  pose proof (proved_scalar_is_scalar t Hps) as Hsc.
  rewrite (representable_ptr_scalar orc opts te f t w Hsc Hs) in Hr.
  destruct (proved_scalar_leaf t Hps) as [s Hs0].
  assert (Hn : w <> WNull) by (intros E; subst w; discriminate).
  assert (Hr0 : rep_scalar orc t (den w) = RNone).
  { destruct w; try congruence; destruct (rep_scalar orc t _) as [v0| | |]; try discriminate; reflexivity. }
  assert (H : (exists e, run_action orc s (arm s w) w = SE e) \/ run_action orc s (arm s w) w = SDefaultArm).
  { destruct (simple_type t) eqn:Est; [|destruct (float_type t) eqn:Eft].
    - apply (simple_arm_refuses orc t s w Ho Est Hs0 Hs Hw Hr0). destruct t; try discriminate; exact Hf.
    - apply (float_arm_refuses orc t s w Ho L3 L4 L5 Eft Hs0 Hs Hw Hr0).
    - destruct t; try discriminate. cbn in Hs0. inversion Hs0; subst s. apply int_arm_refuses; assumption. }
  destruct H as [[e He]|Hd].
  - exists e. apply (dec_top_ptr_error orc opts te f t w s e Hpt Hs0 Hn He).
  - apply (dec_top_ptr_default orc opts te f t w s Ho Hpt Hs0 Hn Hs Hw Hd).
Qed.
