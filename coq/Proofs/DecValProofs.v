(* Proofs about the decoder model (Model/DecVal.v) against the specification (Model/DecSpec.v). *)
From Coq Require Import List Arith NArith ZArith Strings.Byte Bool Lia.
From HV Require Import Lib.Dec Lib.Utf8 Model.Wire Model.WireSem Model.Enc Model.DecAct Model.DecVal Model.DecSpec.
Import ListNotations.
Open Scope Z_scope.

(* ------------------------------------------------------------------ integer conversions *)

Lemma pow2_pos b : 0 <= b -> 0 < 2 ^ b. Proof. intros; apply Z.pow_pos_nonneg; lia. Qed.

Lemma wrap_u_id bits z : 0 <= bits -> 0 <= z < 2 ^ bits -> wrap_u bits z = z.
Proof. intros Hb H. unfold wrap_u. apply Z.mod_small. exact H. Qed.

Lemma wrap_s_id bits z : 1 <= bits -> - 2 ^ (bits - 1) <= z < 2 ^ (bits - 1) -> wrap_s bits z = z.
Proof.
  intros Hb H. unfold wrap_s.
  assert (E : 2 ^ bits = 2 * 2 ^ (bits - 1)).
  { replace bits with (1 + (bits - 1)) at 1 by lia. rewrite Z.pow_add_r by lia. reflexivity. }
  rewrite Z.mod_small; [lia|]. rewrite E. lia.
Qed.

Lemma wrap_k_id k z : in_range_k k z = true -> wrap_k k z = z.
Proof.
  unfold in_range_k, wrap_k, ik_min, ik_max. intros H. apply andb_prop in H. destruct H as [H1 H2].
  apply Z.leb_le in H1. apply Z.leb_le in H2.
  destruct (ik_signed k) eqn:Es.
  - apply wrap_s_id; [destruct k; cbn; lia | lia].
  - apply wrap_u_id; [destruct k; cbn; lia | lia].
Qed.

Lemma wrap_u_range bits z : 0 <= bits -> 0 <= wrap_u bits z < 2 ^ bits.
Proof. intros Hb. unfold wrap_u. apply Z.mod_pos_bound. apply pow2_pos; lia. Qed.

Lemma wrap_s_range bits z : 1 <= bits -> - 2 ^ (bits - 1) <= wrap_s bits z < 2 ^ (bits - 1).
Proof.
  intros Hb. unfold wrap_s.
  assert (E : 2 ^ bits = 2 * 2 ^ (bits - 1)).
  { replace bits with (1 + (bits - 1)) at 1 by lia. rewrite Z.pow_add_r by lia. reflexivity. }
  pose proof (Z.mod_pos_bound (z + 2 ^ (bits - 1)) (2 ^ bits) (pow2_pos bits ltac:(lia))). lia.
Qed.

Lemma wrap_k_in_range k z : in_range_k k (wrap_k k z) = true.
Proof.
  unfold in_range_k, wrap_k, ik_min, ik_max. destruct (ik_signed k) eqn:Es.
  - pose proof (wrap_s_range (ik_bits k) z ltac:(destruct k; cbn; lia)). apply andb_true_intro. split; apply Z.leb_le; lia.
  - pose proof (wrap_u_range (ik_bits k) z ltac:(destruct k; cbn; lia)). apply andb_true_intro. split; apply Z.leb_le; lia.
Qed.

Lemma wrap_k_idem k z : wrap_k k (wrap_k k z) = wrap_k k z.
Proof. apply wrap_k_id. apply wrap_k_in_range. Qed.

(* the value stored modulo 2^n differs from the integer exactly when the integer is out of range *)
Lemma wrap_k_fixed_iff k z : wrap_k k z = z <-> in_range_k k z = true.
Proof. split; [intros E; rewrite <- E; apply wrap_k_in_range | apply wrap_k_id]. Qed.

Lemma uintptr_via_uint64 z : wrap_k KUintptr (wrap_k KUint64 z) = wrap_k KUintptr z.
Proof. cbn. unfold wrap_u. apply Z.mod_mod. lia. Qed.

(* ------------------------------------------------------------------ scalar destinations at top level *)

Definition plain (v : xval) : bool :=
  match v with
  | XNil | XBool _ | XInt _ _ | XF32 _ | XF64 _ | XC64 _ _ | XC128 _ _ | XStr _ | XBytes _
  | XBigInt _ | XBigFloat _ | XBigRat _ | XTime _ _ _ _ _ _ _ _ | XUuid _ => true
  | _ => false
  end.

Lemma inject_plain st v : plain v = true -> inject st v = (st, v).
Proof. destruct v; cbn; try discriminate; reflexivity. Qed.

Lemma unfold_plain m f stack v : plain v = true -> unfold m (S f) stack v = v.
Proof. destruct v; cbn; try discriminate; reflexivity. Qed.

(* what dec_scalar stores for the value a switch arm produced *)
Definition post (te : tenv) (s : sleaf) (t : gtype) (v : xval) : xval :=
  match s with
  | SBigIntV | SBigFloatV | SBigRatV => match v with XPtr x => x | XNil => zero_of te t | _ => v end
  | SIface => box v
  | _ => v
  end.

Definition arm (s : sleaf) (w : wire) : action := sw_lookup (model_switch (routine_of s)) (tag_of w).

Lemma mem_add_tok_ref opts st w : mem (add_tok_ref opts st w) = mem st.
Proof. unfold add_tok_ref, add_ref. destruct (token_ref w); [destruct (o_simple opts)|]; reflexivity. Qed.

Lemma scalar_leaf r t s : is_scalar_type t = true -> sleaf_of t = Some s -> leaf_of r t = LS s /\ s <> SIface.
Proof.
  destruct t; cbn; try discriminate; intros _ E; inversion E; subst; split; try reflexivity; discriminate.
Qed.

Lemma write_top (st : dstate) z v : mem st = [z] ->
  exists st', wr_or_panic st (O, []) v = DOk st' /\ mem st' = [v].
Proof.
  intros Hm. unfold wr_or_panic, st_wr, wr. cbn [fst snd]. rewrite Hm. cbn.
  eexists. split; reflexivity.
Qed.

Lemma dec_top_scalar_value orc opts te f t w s v :
  is_scalar_type t = true -> sleaf_of t = Some s ->
  run_action orc s (arm s w) w = SV v -> plain (post te s t v) = true ->
  dec_top orc opts te (S f) t w = OOk (post te s t v).
Proof.
  intros Ht Hs Hr Hp. destruct (scalar_leaf RTop t s Ht Hs) as [Hl Hni].
  unfold dec_top. cbn [st_alloc dinit mem length]. cbn [dec]. unfold dec_step. rewrite Hl.
  unfold dec_scalar.
  replace (match s with SIface => _ | _ => sw_lookup (model_switch (routine_of s)) (tag_of w) end) with (arm s w)
    by (destruct s; try reflexivity; contradiction).
  rewrite Hr. fold (post te s t v).
  replace (match s with
           | SBigIntV | SBigFloatV | SBigRatV => match v with XPtr x => x | XNil => zero_of te t | _ => v end
           | SIface => box v | _ => v end) with (post te s t v) by reflexivity.
  rewrite (inject_plain _ _ Hp).
  lazymatch goal with |- context [add_tok_ref opts ?st0 w] =>
    edestruct (write_top (add_tok_ref opts st0 w) (zero_val te fuel_zero t) (post te s t v)) as (st' & Hw & Hm);
      [rewrite mem_add_tok_ref; reflexivity|]
  end.
  rewrite Hw. unfold st_rd, rd. cbn [fst snd]. rewrite Hm. cbn [nth_error rd_path].
  rewrite (unfold_plain _ _ _ _ Hp). reflexivity.
Qed.

Lemma dec_top_scalar_error orc opts te f t w s e :
  is_scalar_type t = true -> sleaf_of t = Some s ->
  run_action orc s (arm s w) w = SE e ->
  dec_top orc opts te (S f) t w = OErr e.
Proof.
  intros Ht Hs Hr. destruct (scalar_leaf RTop t s Ht Hs) as [Hl Hni].
  unfold dec_top. cbn [st_alloc dinit mem length]. cbn [dec]. unfold dec_step. rewrite Hl.
  unfold dec_scalar.
  replace (match s with SIface => _ | _ => sw_lookup (model_switch (routine_of s)) (tag_of w) end) with (arm s w)
    by (destruct s; try reflexivity; contradiction).
  rewrite Hr. reflexivity.
Qed.
