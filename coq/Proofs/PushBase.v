(* C19: list plumbing and the step function of Model/Push.v as an inductive relation
   (one constructor per kind of effect on the shared state), so that the invariant proofs
   can work by inversion. *)
From Coq Require Import List ZArith Bool Arith Lia.
From HV Require Import Model.Push.
Import ListNotations.

(* ------------------------------------------------------------------ lists *)

Lemma nth_error_upd_eq {A} (l : list A) : forall n x,
  n < length l -> nth_error (upd n x l) n = Some x.
Proof.
  induction l as [|y l IH]; intros n x Hn; [cbn in Hn; lia|].
  destruct n; cbn; [reflexivity|]. apply IH. cbn in Hn. lia.
Qed.

Lemma nth_error_upd_neq {A} (l : list A) : forall n m x,
  n <> m -> nth_error (upd n x l) m = nth_error l m.
Proof.
  induction l as [|y l IH]; intros n m x Hnm; [destruct n; reflexivity|].
  destruct n, m; cbn; try reflexivity; try congruence. apply IH. congruence.
Qed.

Lemma length_upd {A} (l : list A) : forall n x, length (upd n x l) = length l.
Proof. induction l as [|y l IH]; intros n x; [destruct n; reflexivity|]. destruct n; cbn; [reflexivity|]. rewrite IH. reflexivity. Qed.

Lemma nth_error_lt {A} (l : list A) n x : nth_error l n = Some x -> n < length l.
Proof. intros H. apply nth_error_Some. congruence. Qed.

Lemma nth_error_upd {A} (l : list A) n m x y :
  nth_error (upd n x l) m = Some y ->
  (n = m /\ x = y /\ n < length l) \/ (n <> m /\ nth_error l m = Some y).
Proof.
  intros H. destruct (Nat.eq_dec n m) as [->|Hne].
  - left. assert (Hl : m < length l).
    { apply nth_error_lt in H. rewrite length_upd in H. exact H. }
    rewrite nth_error_upd_eq in H by exact Hl. inversion H. auto.
  - right. rewrite nth_error_upd_neq in H by exact Hne. auto.
Qed.

Lemma nth_error_snoc {A} (l : list A) x m y :
  nth_error (l ++ [x]) m = Some y ->
  (m < length l /\ nth_error l m = Some y) \/ (m = length l /\ x = y).
Proof.
  intros H. destruct (Nat.lt_ge_cases m (length l)) as [Hlt|Hge].
  - left. rewrite nth_error_app1 in H by exact Hlt. auto.
  - right. rewrite nth_error_app2 in H by exact Hge.
    destruct (m - length l) as [|d] eqn:E; cbn in H.
    + inversion H. split; [lia|reflexivity].
    + destruct d; discriminate.
Qed.

Lemma nth_error_snoc_old {A} (l : list A) x m y :
  nth_error l m = Some y -> nth_error (l ++ [x]) m = Some y.
Proof. intros H. rewrite nth_error_app1; [exact H|]. eapply nth_error_lt; eauto. Qed.

Lemma nth_error_snoc_new {A} (l : list A) x : nth_error (l ++ [x]) (length l) = Some x.
Proof. rewrite nth_error_app2 by lia. rewrite Nat.sub_diag. reflexivity. Qed.

Lemma pick_spec : forall k l x r, pick k l = Some (x, r) ->
  exists l1 l2, l = l1 ++ x :: l2 /\ r = l1 ++ l2.
Proof.
  induction k as [|k IH]; intros l x r H; destruct l as [|y l]; cbn in H; try discriminate.
  - inversion H; subst. exists [], r. auto.
  - destruct (pick k l) as [[z r']|] eqn:E; [|discriminate]. inversion H; subst.
    destruct (IH _ _ _ E) as (l1 & l2 & -> & ->). exists (y :: l1), l2. auto.
Qed.

Lemma mem_In x l : mem x l = true <-> In x l.
Proof.
  induction l as [|y l IH]; cbn; [split; [discriminate|tauto]|].
  rewrite orb_true_iff, IH, Nat.eqb_eq. split; intros [H|H]; auto.
Qed.

(* ---- the topic table *)

Lemma tget_In id k t c : tget id k t = Some c -> In (id, k, c) t.
Proof.
  induction t as [|[[i j] d] t IH]; cbn; [discriminate|].
  destruct (Nat.eqb i id && Nat.eqb j k) eqn:E.
  - intros H. inversion H; subst. apply andb_true_iff in E. destruct E as [E1 E2].
    apply Nat.eqb_eq in E1, E2. subst. auto.
  - auto.
Qed.

Lemma tdel_In id k t x : In x (tdel id k t) -> In x t.
Proof.
  induction t as [|[[i j] d] t IH]; cbn; [tauto|].
  destruct (Nat.eqb i id && Nat.eqb j k); cbn; intuition.
Qed.

Lemma tkeys_In id t k : In k (tkeys id t) <-> exists c, In (id, k, c) t.
Proof.
  induction t as [|[[i j] d] t IH]; cbn; [split; [tauto|intros [c []]]|].
  destruct (Nat.eqb i id) eqn:E.
  - apply Nat.eqb_eq in E. subst. cbn. rewrite IH. split.
    + intros [->|[c H]]; eauto.
    + intros [c [H|H]]; [inversion H; auto|eauto].
  - apply Nat.eqb_neq in E. rewrite IH. split.
    + intros [c H]; eauto.
    + intros [c [H|H]]; [inversion H; congruence|eauto].
Qed.

Definition tkey (x : nat * nat * nat) : nat * nat := fst x.

Lemma tget_None_notin id k t : tget id k t = None -> ~ In (id, k) (map tkey t).
Proof.
  induction t as [|[[i j] d] t IH]; cbn; [tauto|].
  destruct (Nat.eqb i id && Nat.eqb j k) eqn:E; [discriminate|].
  intros H [Heq|Hin]; [|exact (IH H Hin)].
  unfold tkey in Heq. cbn in Heq. inversion Heq; subst.
  rewrite !Nat.eqb_refl in E. discriminate.
Qed.

Lemma tdel_keys_incl id k t x : In x (map tkey (tdel id k t)) -> In x (map tkey t).
Proof.
  induction t as [|[[i j] d] t IH]; cbn; [tauto|].
  destruct (Nat.eqb i id && Nat.eqb j k); cbn; intuition.
Qed.

Lemma tdel_NoDup id k t : NoDup (map tkey t) -> NoDup (map tkey (tdel id k t)).
Proof.
  induction t as [|[[i j] d] t IH]; cbn; [auto|].
  intros H. inversion H; subst.
  destruct (Nat.eqb i id && Nat.eqb j k); cbn; [auto|].
  constructor; [|auto]. intros Hin. apply H2. eapply tdel_keys_incl; eauto.
Qed.

Lemma tkeys_NoDup id t : NoDup (map tkey t) -> NoDup (tkeys id t).
Proof.
  induction t as [|[[i j] d] t IH]; cbn; [constructor|].
  intros H. inversion H; subst. destruct (Nat.eqb i id) eqn:E; [|auto].
  apply Nat.eqb_eq in E. subst. constructor; [|auto].
  intros Hin. apply tkeys_In in Hin. destruct Hin as [c Hin]. apply H2.
  change (id, j) with (tkey (id, j, c)). apply in_map. exact Hin.
Qed.

(* ---- Subseq *)

Lemma Subseq_refl {A} (l : list A) : Subseq l l.
Proof. induction l; constructor; auto. Qed.

Lemma Subseq_app_r {A} (l1 l2 l3 : list A) : Subseq l1 l2 -> Subseq l1 (l2 ++ l3).
Proof. induction 1; cbn; constructor; auto. Qed.

Lemma Subseq_app {A} (a b c d : list A) : Subseq a b -> Subseq c d -> Subseq (a ++ c) (b ++ d).
Proof.
  induction 1; cbn; intros Hcd.
  - induction l; cbn; [exact Hcd|constructor; auto].
  - constructor; auto.
  - constructor; auto.
Qed.

Lemma Subseq_trans {A} (a b c : list A) : Subseq a b -> Subseq b c -> Subseq a c.
Proof.
  intros Hab Hbc. revert a Hab. induction Hbc; intros a Hab.
  - inversion Hab; subst. constructor.
  - inversion Hab; subst; constructor; auto.
  - constructor; auto.
Qed.

Lemma Subseq_length {A} (a b : list A) : Subseq a b -> length a <= length b.
Proof. induction 1; cbn; lia. Qed.

Lemma Subseq_same_length {A} (a b : list A) : Subseq a b -> length b <= length a -> a = b.
Proof.
  induction 1; cbn; intros Hl.
  - destruct l; [reflexivity|cbn in Hl; lia].
  - f_equal. apply IHSubseq. lia.
  - apply Subseq_length in H. lia.
Qed.

Lemma Subseq_In {A} (a b : list A) x : Subseq a b -> In x a -> In x b.
Proof. induction 1; cbn; intuition. Qed.

Lemma Subseq_count {A} (dec : forall x y : A, {x = y} + {x <> y}) (a b : list A) x :
  Subseq a b -> count_occ dec a x <= count_occ dec b x.
Proof.
  induction 1; cbn; [lia| |].
  - destruct (dec x0 x); lia.
  - destruct (dec x0 x); lia.
Qed.

Lemma Subseq_NoDup {A} (a b : list A) : Subseq a b -> NoDup b -> NoDup a.
Proof.
  induction 1; intros Hn.
  - constructor.
  - inversion Hn; subst. constructor; [|auto]. intros Hin. apply H2. eapply Subseq_In; eauto.
  - inversion Hn; subst. auto.
Qed.

(* ------------------------------------------------------------------ send as a relation *)

Definition sb_mk (sb : subst) (p : sub_pc) (ks : list nat) (sz : nat) (rs : batch) : subst :=
  {| sid := sid sb; sresp := sresp sb; spc := p; skeys := ks; ssize := sz; sres := rs |}.

Definition take_cache (ca : cache) : cache :=
  {| cown := cown ca; cmsgs := []; ctaken := ctaken ca ++ cmsgs ca; cdel := cdel ca |}.

Definition take_res (sb : subst) (key c : nat) (ca : cache) : batch :=
  match cmsgs ca with [] => sres sb | _ => sres sb ++ [(key, c, length (ctaken ca), cmsgs ca)] end.

Inductive sub_rel (s : state) (sb : subst) : state -> sub_out -> Prop :=
| SR_load :
    spc sb = SLoad -> mem (sid sb) (ids s) = true ->
    sub_rel s sb s (SCont (sb_mk sb SVisit (tkeys (sid sb) (table s)) 0 []))
| SR_nil :
    (spc sb = SLoad /\ mem (sid sb) (ids s) = false) \/ (spc sb = SVisit /\ skeys sb = [] /\ ssize sb = 0) ->
    nth_error (chans s) (sresp sb) = Some VEmpty ->
    sub_rel s sb (set_chans s (upd (sresp sb) VNil (chans s))) (SFin true)
| SR_false :
    spc sb = SVisit -> skeys sb = [] -> ssize sb <> 0 -> sres sb = [] ->
    sub_rel s sb s (SFin false)
| SR_batch :
    spc sb = SVisit -> skeys sb = [] -> ssize sb <> 0 -> sres sb <> [] ->
    nth_error (chans s) (sresp sb) = Some VEmpty ->
    sub_rel s sb (spawn_hb (set_chans s (upd (sresp sb) (VBatch (sres sb)) (chans s))) (sid sb)) (SFin true)
| SR_skip : forall k key rest,
    spc sb = SVisit -> pick k (skeys sb) = Some (key, rest) -> tget (sid sb) key (table s) = None ->
    sub_rel s sb s (SCont (sb_mk sb SVisit rest (ssize sb) (sres sb)))
| SR_visit : forall k key rest c,
    spc sb = SVisit -> pick k (skeys sb) = Some (key, rest) -> tget (sid sb) key (table s) = Some c ->
    sub_rel s sb s (SCont (sb_mk sb (STake key c) rest (S (ssize sb)) (sres sb)))
| SR_take : forall key c ca,
    spc sb = STake key c -> nth_error (caches s) c = Some ca ->
    sub_rel s sb (set_caches s (upd c (take_cache ca) (caches s)))
            (SCont (sb_mk sb SVisit (skeys sb) (ssize sb) (take_res sb key c ca))).

Lemma sub_step_rel s k sb s' o : sub_step s k sb = Some (s', o) -> sub_rel s sb s' o.
Proof.
  unfold sub_step, chan_send. intros H.
  destruct (spc sb) as [| |key c|] eqn:Epc; [| | |discriminate].
  - destruct (mem (sid sb) (ids s)) eqn:Em.
    + inversion H; subst. apply SR_load; auto.
    + destruct (nth_error (chans s) (sresp sb)) as [[| |b]|] eqn:Ec; try discriminate.
      inversion H; subst. apply SR_nil; auto.
  - destruct (skeys sb) as [|k0 ks] eqn:Ek.
    + destruct (Nat.eqb (ssize sb) 0) eqn:Es.
      * apply Nat.eqb_eq in Es.
        destruct (nth_error (chans s) (sresp sb)) as [[| |b]|] eqn:Ec; try discriminate.
        inversion H; subst. apply SR_nil; auto.
      * apply Nat.eqb_neq in Es. destruct (sres sb) as [|e0 es] eqn:Er.
        -- inversion H; subst. apply SR_false; auto.
        -- destruct (nth_error (chans s) (sresp sb)) as [[| |b]|] eqn:Ec; try discriminate.
           inversion H; subst. rewrite <- Er. apply SR_batch; auto. rewrite Er. discriminate.
    + rewrite <- Ek in H. destruct (pick k (skeys sb)) as [[key rest]|] eqn:Ep; [|discriminate].
      destruct (tget (sid sb) key (table s)) as [c|] eqn:Et; inversion H; subst.
      * eapply SR_visit; eauto.
      * eapply SR_skip; eauto.
  - destruct (nth_error (caches s) c) as [ca|] eqn:Ec; [|discriminate].
    inversion H; subst. eapply (SR_take s sb key c ca); eauto.
Qed.

(* ------------------------------------------------------------------ polls as a relation *)

(* what the guard of the partial theorem looks at *)
Inductive tag := TTimeout (p : nat) | TPop (r : nat) | TPlain.

Definition pres_of (v : cval) : pres := match v with VBatch b => RBatch b | _ => RNil end.

Inductive poll_rel (s : state) (p : nat) (pl : poll) : tag -> state -> Prop :=
| PR_popold_none :
    ppc pl = LPopOld -> resp s (pid pl) = None ->
    poll_rel s p pl TPlain (set_poll s p (pid pl) LPopSig)
| PR_popold_some : forall r,
    ppc pl = LPopOld -> resp s (pid pl) = Some r -> nth_error (chans s) r = Some VEmpty ->
    poll_rel s p pl TPlain (set_poll (set_chans (set_resp s (fupd (resp s) (pid pl) None)) (upd r VNil (chans s)))
                              p (pid pl) LPopSig)
| PR_popsig : forall sg' sc',
    ppc pl = LPopSig -> length sc' = length (sigch s) ->
    poll_rel s p pl TPlain (set_poll (set_sigch (set_sigs s sg') sc') p (pid pl) LSend)
| PR_send :
    ppc pl = LSend ->
    poll_rel s p pl TPlain (set_poll s p (pid pl) (LSending (sub0 (pid pl) p)))
| PR_sending : forall sb s1 o,
    ppc pl = LSending sb -> sub_rel s sb s1 o ->
    poll_rel s p pl TPlain (set_poll s1 p (pid pl)
                       (match o with SCont sb' => LSending sb' | SFin true => LRecv | SFin false => LUpsert end))
| PR_recv_nil :
    ppc pl = LRecv \/ ppc pl = LWait \/ ppc pl = LTimedOut -> nth_error (chans s) p = Some VNil ->
    poll_rel s p pl TPlain (set_poll (set_chans s (upd p VEmpty (chans s))) p (pid pl) (LDone RNil))
| PR_recv_batch : forall b,
    ppc pl = LRecv \/ ppc pl = LWait \/ ppc pl = LTimedOut -> nth_error (chans s) p = Some (VBatch b) ->
    poll_rel s p pl TPlain
      (set_poll (set_chans (set_delivered (set_caches s (fst (deliver (pid pl) b (caches s) (delivered s))))
                                          (snd (deliver (pid pl) b (caches s) (delivered s))))
                           (upd p VEmpty (chans s)))
                p (pid pl) (LDone (RBatch b)))
| PR_upsert_none :
    ppc pl = LUpsert -> resp s (pid pl) = None ->
    poll_rel s p pl TPlain (set_poll (set_resp s (fupd (resp s) (pid pl) (Some p))) p (pid pl) LWait)
| PR_upsert_some : forall r,
    ppc pl = LUpsert -> resp s (pid pl) = Some r -> nth_error (chans s) r = Some VEmpty ->
    poll_rel s p pl TPlain (set_poll (set_chans (set_resp s (fupd (resp s) (pid pl) (Some p))) (upd r VNil (chans s)))
                              p (pid pl) LWait)
| PR_timeout :
    ppc pl = LWait -> fixed s = false ->
    poll_rel s p pl (TTimeout p) (set_poll (spawn_hb s (pid pl)) p (pid pl) (LDone RTimeout))
| PR_timer :
    ppc pl = LWait -> fixed s = true ->
    poll_rel s p pl TPlain (set_poll s p (pid pl) LTimedOut)
| PR_withdraw :
    ppc pl = LTimedOut -> resp s (pid pl) = Some p ->
    poll_rel s p pl (TTimeout p)
      (set_poll (spawn_hb (set_resp s (fupd (resp s) (pid pl) None)) (pid pl)) p (pid pl) (LDone RTimeout)).

Lemma poll_recv_rel s p pl s' :
  ppc pl = LRecv \/ ppc pl = LWait \/ ppc pl = LTimedOut -> poll_recv s p (pid pl) = Some s' -> poll_rel s p pl TPlain s'.
Proof.
  unfold poll_recv. intros Hpc H.
  destruct (nth_error (chans s) p) as [[| |b]|] eqn:Ec; try discriminate.
  - inversion H; subst. apply PR_recv_nil; auto.
  - destruct (deliver (pid pl) b (caches s) (delivered s)) as [cs dl] eqn:Ed.
    inversion H; subst.
    replace cs with (fst (deliver (pid pl) b (caches s) (delivered s))) by (rewrite Ed; reflexivity).
    replace dl with (snd (deliver (pid pl) b (caches s) (delivered s))) by (rewrite Ed; reflexivity).
    apply PR_recv_batch; auto.
Qed.

Lemma poll_step_rel s p k s' :
  poll_step s p k = Some s' ->
  exists pl t, nth_error (polls s) p = Some pl /\ poll_rel s p pl t s' /\
               (t = TPlain \/ (t = TTimeout p /\
                  ((ppc pl = LWait /\ k <> 0 /\ fixed s = false) \/ (ppc pl = LTimedOut /\ k = 0 /\ resp s (pid pl) = Some p)))).
Proof.
  unfold poll_step. destruct (nth_error (polls s) p) as [pl|] eqn:Ep; [|discriminate].
  intros H. exists pl.
  assert (Hgoal : (poll_rel s p pl TPlain s') \/ (poll_rel s p pl (TTimeout p) s' /\
             ((ppc pl = LWait /\ k <> 0 /\ fixed s = false) \/ (ppc pl = LTimedOut /\ k = 0 /\ resp s (pid pl) = Some p))));
    [|destruct Hgoal as [Hg|(Hg & Hg1)]; [exists TPlain|exists (TTimeout p)]; (split; [reflexivity|]); (split; [exact Hg|]); [left; reflexivity|right; auto]].
  destruct (ppc pl) as [| | |sb| | | | |r] eqn:Epc.
  1-6: left.
  - destruct (resp s (pid pl)) as [r|] eqn:Er.
    + unfold chan_send in H. cbn [chans set_resp] in H.
      destruct (nth_error (chans s) r) as [[| |b]|] eqn:Ec; try discriminate.
      inversion H; subst. eapply PR_popold_some; eauto.
    + inversion H; subst. apply PR_popold_none; auto.
  - destruct (sigs s (pid pl)) as [h|] eqn:Es; inversion H; subst.
    + unfold close_sig. cbn [sigch set_sigs].
      replace (set_sigch (set_sigs s (fupd (sigs s) (pid pl) None)) (upd h true (sigch s)))
        with (set_sigch (set_sigs s (fupd (sigs s) (pid pl) None)) (upd h true (sigch s))) by reflexivity.
      apply PR_popsig; auto. apply length_upd.
    + replace s with (set_sigch (set_sigs s (sigs s)) (sigch s)) at 2 by (destruct s; reflexivity).
      apply PR_popsig; auto.
  - inversion H; subst. apply PR_send; auto.
  - destruct (sub_step s k sb) as [[s1 o]|] eqn:Es; [|discriminate].
    apply sub_step_rel in Es.
    destruct o as [sb'|[|]]; inversion H; subst.
    + apply (PR_sending s p pl sb s1 (SCont sb')); auto.
    + apply (PR_sending s p pl sb s1 (SFin true)); auto.
    + apply (PR_sending s p pl sb s1 (SFin false)); auto.
  - apply poll_recv_rel; auto.
  - destruct (resp s (pid pl)) as [r|] eqn:Er.
    + unfold chan_send in H. cbn [chans set_resp] in H.
      destruct (nth_error (chans s) r) as [[| |b]|] eqn:Ec; try discriminate.
      inversion H; subst. eapply PR_upsert_some; eauto.
    + inversion H; subst. apply PR_upsert_none; auto.
  - destruct k as [|k].
    + left. apply poll_recv_rel; auto.
    + destruct (fixed s) eqn:Ef; inversion H; subst.
      * left. apply PR_timer; auto.
      * right. split; [apply PR_timeout; auto|]. left. repeat split; auto.
  - destruct k as [|k].
    + destruct (resp s (pid pl)) as [r|] eqn:Er; [|discriminate].
      destruct (Nat.eqb r p) eqn:Erp; [|discriminate]. apply Nat.eqb_eq in Erp. subst r.
      inversion H; subst. right. split; [apply PR_withdraw; auto|]. right. auto.
    + left. apply poll_recv_rel; auto.
  - discriminate.
Qed.

(* ------------------------------------------------------------------ workers as a relation *)

(* steps of a worker that touch nothing but its own frame *)
Inductive frame_next (s : state) : wframe -> wframe -> Prop :=
| FN_pub_start : forall tp m todo res,
    frame_next s (WPub tp m todo res PubStart) (WPub tp m (ids s) res PubNext)
| FN_pub_done : forall tp m res,
    frame_next s (WPub tp m [] res PubNext) (WPub tp m [] res PubDone)
| FN_pub_some : forall tp m id rest res c,
    tget id tp (table s) = Some c ->
    frame_next s (WPub tp m (id :: rest) res PubNext) (WPub tp m rest res (PubAppend id c))
| FN_pub_none : forall tp m id rest res,
    tget id tp (table s) = None ->
    frame_next s (WPub tp m (id :: rest) res PubNext) (WPub tp m rest (res ++ [(id, false)]) PubNext)
| FN_sub_load : forall id tp pc',
    frame_next s (WSub id tp SubLoad) (WSub id tp pc')
| FN_sub_loaded : forall id tp,
    frame_next s (WSub id tp SubStore) (WSub id tp (SubDone false))
| FN_off : forall id todo res todo' res' pc pc',
    (pc = OffStart \/ pc = OffNext) -> (forall k, pc' <> OffDelete k) -> pc' <> OffResp ->
    frame_next s (WOff id todo res pc) (WOff id todo' res' pc')
| FN_off_some : forall id todo res k key rest c,
    pick k todo = Some (key, rest) -> tget id key (table s) = Some c ->
    frame_next s (WOff id todo res OffNext) (WOff id rest res (OffDelete key))
| FN_hb_sig : forall id sg,
    frame_next s (WHb id sg HbWait) (WHb id sg HbDone)
| FN_hb_fire : forall id sg,
    frame_next s (WHb id sg HbWait) (WOff id [] false OffStart).

Definition resp_frame (f f' : wframe) (id : nat) : Prop :=
  (exists tp m todo res, f = WPub tp m todo res (PubResp id) /\ f' = WPub tp m todo (res ++ [(id, true)]) PubNext)
  \/ (exists todo res, f = WOff id todo res OffResp /\ f' = WOff id todo true OffNext).

Inductive work_rel (s : state) (w : nat) (wk : work) : tag -> state -> Prop :=
| WR_putback_set : forall sb,
    wsub wk = Some sb -> spc sb = RPutBack -> resp s (sid sb) = None ->
    work_rel s w wk TPlain (set_work (set_resp s (fupd (resp s) (sid sb) (Some (sresp sb)))) w (wf wk) None)
| WR_putback_nil : forall sb r0,
    wsub wk = Some sb -> spc sb = RPutBack -> resp s (sid sb) = Some r0 ->
    nth_error (chans s) (sresp sb) = Some VEmpty ->
    work_rel s w wk TPlain (set_work (set_chans s (upd (sresp sb) VNil (chans s))) w (wf wk) None)
| WR_sub : forall sb s1 o,
    wsub wk = Some sb -> spc sb <> RPutBack -> sub_rel s sb s1 o ->
    work_rel s w wk TPlain (set_work s1 w (wf wk)
                       (match o with SCont sb' => Some sb' | SFin true => None
                                   | SFin false => Some (with_spc sb RPutBack) end))
| WR_frame : forall f',
    wsub wk = None -> frame_next s (wf wk) f' ->
    work_rel s w wk TPlain (set_work s w f' None)
| WR_append : forall tp m todo res id c ca,
    wsub wk = None -> wf wk = WPub tp m todo res (PubAppend id c) -> nth_error (caches s) c = Some ca ->
    work_rel s w wk TPlain
      (set_work (set_accepted (set_caches s (upd c {| cown := cown ca; cmsgs := cmsgs ca ++ [m];
                                                      ctaken := ctaken ca; cdel := cdel ca |} (caches s)))
                              (accepted s ++ [(id, tp, m)]))
                w (WPub tp m todo res (PubResp id)) None)
| WR_resp_none : forall f' id,
    wsub wk = None -> resp_frame (wf wk) f' id -> resp s id = None ->
    work_rel s w wk TPlain (set_work s w f' None)
| WR_resp_some : forall f' id r,
    wsub wk = None -> resp_frame (wf wk) f' id -> resp s id = Some r ->
    work_rel s w wk (TPop r) (set_work (set_resp s (fupd (resp s) id None)) w f' (Some (sub0 id r)))
| WR_ensure : forall id tp ids',
    wsub wk = None -> wf wk = WSub id tp SubEnsure ->
    work_rel s w wk TPlain (set_work (set_ids s ids') w (WSub id tp SubLoad) None)
| WR_store : forall id tp,
    wsub wk = None -> wf wk = WSub id tp SubStore -> tget id tp (table s) = None ->
    work_rel s w wk TPlain
      (set_work (set_table (set_caches s (caches s ++ [ {| cown := (id, tp); cmsgs := []; ctaken := []; cdel := 0 |} ]))
                           (table s ++ [(id, tp, length (caches s))]))
                w (WSub id tp (SubDone true)) None)
| WR_delete : forall id todo res key,
    wsub wk = None -> wf wk = WOff id todo res (OffDelete key) ->
    work_rel s w wk TPlain (set_work (set_table s (tdel id key (table s))) w (WOff id todo res OffResp) None)
| WR_hb_upsert : forall id sg sg' sc',
    wsub wk = None -> wf wk = WHb id sg HbUpsert -> length sc' = length (sigch s) ->
    work_rel s w wk TPlain (set_work (set_sigch (set_sigs s sg') sc') w (WHb id sg HbWait) None).

Lemma state_eta_sig s : set_sigch (set_sigs s (sigs s)) (sigch s) = s.
Proof. destruct s; reflexivity. Qed.

Lemma state_eta_ids s : set_ids s (ids s) = s.
Proof. destruct s; reflexivity. Qed.

Lemma work_step_rel s w k s' :
  work_step s w k = Some s' ->
  exists wk t, nth_error (works s) w = Some wk /\ work_rel s w wk t s' /\
    (t = TPlain \/ exists r id f', t = TPop r /\ wsub wk = None /\ resp s id = Some r /\ resp_frame (wf wk) f' id).
Proof.
  unfold work_step. destruct (nth_error (works s) w) as [wk|] eqn:Ew; [|discriminate].
  intros H. exists wk.
  assert (Hgoal : work_rel s w wk TPlain s' \/
                  exists r id f', work_rel s w wk (TPop r) s' /\ wsub wk = None /\ resp s id = Some r /\ resp_frame (wf wk) f' id);
    [|destruct Hgoal as [Hg|(r & id & f' & Hg & Hg1 & Hg2 & Hg3)];
      [exists TPlain; split; [reflexivity|]; split; [exact Hg|left; reflexivity]
      |exists (TPop r); split; [reflexivity|]; split; [exact Hg|]; right; exists r, id, f'; auto]].
  destruct (wsub wk) as [sb|] eqn:Esb.
  - destruct (spc sb) eqn:Epc.
    1-3: (destruct (sub_step s k sb) as [[s1 o]|] eqn:Es; [|discriminate];
          apply sub_step_rel in Es;
          assert (Hne : spc sb <> RPutBack) by (rewrite Epc; discriminate);
          destruct o as [sb'|[|]]; inversion H; subst;
          [ left; apply (WR_sub s w wk sb s1 (SCont sb')); auto
          | left; apply (WR_sub s w wk sb s1 (SFin true)); auto
          | left; apply (WR_sub s w wk sb s1 (SFin false)); auto ]).
    destruct (resp s (sid sb)) as [r0|] eqn:Er.
    + unfold chan_send in H.
      destruct (nth_error (chans s) (sresp sb)) as [[| |b]|] eqn:Ec; try discriminate.
      inversion H; subst. left; eapply WR_putback_nil; eauto.
    + inversion H; subst. left; eapply WR_putback_set; eauto.
  - destruct (wf wk) as [tp m todo res pc|id tp pc|id todo res pc|id sg pc] eqn:Ef.
    + destruct pc as [| |id c|id|].
      * inversion H; subst. left; apply WR_frame; auto. rewrite Ef. constructor.
      * destruct todo as [|id rest].
        -- inversion H; subst. left; apply WR_frame; auto. rewrite Ef. constructor.
        -- destruct (tget id tp (table s)) as [c|] eqn:Et; inversion H; subst;
             left; apply WR_frame; auto; rewrite Ef; constructor; auto.
      * destruct (nth_error (caches s) c) as [ca|] eqn:Ec; [|discriminate].
        inversion H; subst. left; eapply WR_append; eauto.
      * unfold do_response in H.
        destruct (resp s id) as [r|] eqn:Er; inversion H; subst.
        -- right. exists r, id, (WPub tp m todo (res ++ [(id, true)]) PubNext).
           assert (Hrf : resp_frame (wf wk) (WPub tp m todo (res ++ [(id, true)]) PubNext) id) by (left; rewrite Ef; repeat eexists).
           split; [eapply WR_resp_some; eauto|repeat split; auto; rewrite <- Ef; exact Hrf].
        -- left; eapply WR_resp_none; eauto. left. rewrite Ef. repeat eexists.
      * discriminate.
    + destruct pc as [| | |r].
      * inversion H; subst. destruct (mem id (ids s)).
        -- rewrite <- (state_eta_ids s) at 1. left; eapply WR_ensure; eauto.
        -- left; eapply WR_ensure; eauto.
      * destruct (tget id tp (table s)); inversion H; subst; left; apply WR_frame; auto; rewrite Ef; constructor.
      * destruct (tget id tp (table s)) eqn:Et; inversion H; subst.
        -- left; apply WR_frame; auto. rewrite Ef. constructor.
        -- left; eapply WR_store; eauto.
      * discriminate.
    + destruct pc as [| |key| |].
      * destruct (mem id (ids s)); inversion H; subst; left; apply WR_frame; auto; rewrite Ef;
          apply FN_off; auto; discriminate.
      * destruct todo as [|k0 ks] eqn:Etodo.
        -- inversion H; subst. left; apply WR_frame; auto. rewrite Ef. apply FN_off; auto; discriminate.
        -- rewrite <- Etodo in *. destruct (pick k todo) as [[key rest]|] eqn:Ep; [|discriminate].
           destruct (tget id key (table s)) as [c|] eqn:Et; inversion H; subst.
           ++ left; apply WR_frame; auto. rewrite Ef. eapply FN_off_some; eauto.
           ++ left; apply WR_frame; auto. rewrite Ef. apply FN_off; auto; discriminate.
      * inversion H; subst. left; eapply WR_delete; eauto.
      * unfold do_response in H.
        destruct (resp s id) as [r|] eqn:Er; inversion H; subst.
        -- right. exists r, id, (WOff id todo true OffNext).
           assert (Hrf : resp_frame (wf wk) (WOff id todo true OffNext) id) by (right; rewrite Ef; repeat eexists).
           split; [eapply WR_resp_some; eauto|repeat split; auto; rewrite <- Ef; exact Hrf].
        -- left; eapply WR_resp_none; eauto. right. rewrite Ef. repeat eexists.
      * discriminate.
    + destruct pc as [| |].
      * inversion H; subst. destruct (sigs s id) as [h|] eqn:Es.
        -- unfold close_sig. cbn [sigs sigch set_sigch]. left; eapply WR_hb_upsert; eauto. apply length_upd.
        -- left; eapply WR_hb_upsert; eauto.
      * destruct k as [|k].
        -- destruct (nth_error (sigch s) sg) as [[|]|]; try discriminate.
           inversion H; subst. left; apply WR_frame; auto. rewrite Ef. constructor.
        -- inversion H; subst. left; apply WR_frame; auto. rewrite Ef. constructor.
      * discriminate.
Qed.

(* ------------------------------------------------------------------ spawn as a relation *)

Definition start_frame (f : wframe) : Prop :=
  match f with
  | WPub _ _ _ _ PubStart | WPub _ _ _ _ PubNext => True
  | WSub _ _ SubEnsure => True
  | WOff _ _ _ OffNext => True
  | _ => False
  end.

Inductive step_rel (s : state) : tag -> state -> Prop :=
| ST_spawn_work : forall f, start_frame f -> step_rel s TPlain (add_work s f)
| ST_spawn_poll : forall id, busy id (polls s) = false ->
    step_rel s TPlain (set_chans (set_polls s (polls s ++ [ {| pid := id; ppc := LPopOld |} ])) (chans s ++ [VEmpty]))
| ST_poll : forall p pl t s', nth_error (polls s) p = Some pl -> poll_rel s p pl t s' -> step_rel s t s'
| ST_work : forall w wk t s', nth_error (works s) w = Some wk -> work_rel s w wk t s' -> step_rel s t s'.

(* the guard of the partial theorem, on tags *)
Definition tag_ok (s : state) (t : tag) : Prop :=
  match t with
  | TTimeout p => exists pl, nth_error (polls s) p = Some pl /\ resp s (pid pl) = Some p
  | TPop r => active_at s r = true
  | TPlain => True
  end.

Definition tag_no_timeout (t : tag) : Prop := match t with TTimeout _ => False | _ => True end.

Lemma step_step_rel s e s' : step s e = Some s' ->
  exists t, step_rel s t s' /\ (hazard s e = false -> tag_ok s t) /\ (is_timeout s e = false -> tag_no_timeout t).
Proof.
  destruct e as [o|p k|w k]; cbn [step].
  - assert (Hx : forall t, t = TPlain -> (hazard s (ESpawn o) = false -> tag_ok s t) /\
                                        (is_timeout s (ESpawn o) = false -> tag_no_timeout t))
      by (intros t ->; split; intros _; exact I).
    destruct o; cbn [spawn]; intros H.
    1-5: (inversion H; subst; exists TPlain; split; [apply ST_spawn_work; exact I|apply Hx; reflexivity]).
    destruct (busy id (polls s)) eqn:Eb; [discriminate|]. inversion H; subst.
    exists TPlain; split; [apply ST_spawn_poll; auto|apply Hx; reflexivity].
  - intros H. apply poll_step_rel in H. destruct H as (pl & t & Hp & Hr & Ht). exists t.
    split; [eapply ST_poll; eauto|].
    destruct Ht as [->|(-> & [(Hpc & Hk & Hf)|(Hpc & Hk & Hrg)])]; [split; intros _; exact I| |].
    + destruct k as [|k]; [congruence|]. cbn [hazard is_timeout]. rewrite Hp, Hpc, Hf. split.
      * intros Hh. cbn [tag_ok]. exists pl. split; [exact Hp|].
        destruct (resp s (pid pl)) as [r|]; [|discriminate].
        apply negb_false_iff, Nat.eqb_eq in Hh. congruence.
      * discriminate.
    + subst k. cbn [hazard is_timeout]. rewrite Hp, Hpc. split.
      * intros _. cbn [tag_ok]. exists pl. auto.
      * discriminate.
  - intros H. apply work_step_rel in H. destruct H as (wk & t & Hw & Hr & Ht). exists t.
    split; [eapply ST_work; eauto|].
    destruct Ht as [->|(r & id & f' & -> & Hsub & Hresp & Hf)]; [split; intros _; exact I|].
    split; [|intros _; exact I].
    cbn [hazard tag_ok]. rewrite Hw, Hsub.
    destruct Hf as [(tp & m & todo & res & Hf & _)|(todo & res & Hf & _)]; rewrite Hf, Hresp;
      intros Hh; apply negb_false_iff in Hh; exact Hh.
Qed.

Inductive reach : state -> Prop :=
| reach_init : forall b, reach (init_of b)
| reach_step : forall s t s', reach s -> step_rel s t s' -> reach s'.

(* reachable without a hazardous step / without a poll time-out *)
Inductive greach (ok : state -> tag -> Prop) : state -> Prop :=
| greach_init : forall b, greach ok (init_of b)
| greach_step : forall s t s', greach ok s -> step_rel s t s' -> ok s t -> greach ok s'.

Lemma greach_reach ok s : greach ok s -> reach s.
Proof. induction 1; [constructor|econstructor; eauto]. Qed.

Lemma run_reach : forall sched s s', reach s -> run s sched = Some s' -> reach s'.
Proof.
  induction sched as [|e r IH]; cbn; intros s s' Hr H.
  - inversion H; subst. exact Hr.
  - destruct (step s e) as [s1|] eqn:E; [|discriminate].
    eapply IH; [|exact H]. apply step_step_rel in E. destruct E as (t & E & _). eapply reach_step; eauto.
Qed.

Lemma run_avoiding_hazard_greach : forall sched s s',
  greach tag_ok s -> run_avoiding hazard s sched = Some s' -> greach tag_ok s'.
Proof.
  induction sched as [|e r IH]; cbn; intros s s' Hr H.
  - inversion H; subst. exact Hr.
  - destruct (hazard s e) eqn:Eh; [discriminate|].
    destruct (step s e) as [s1|] eqn:E; [|discriminate].
    eapply IH; [|exact H]. apply step_step_rel in E. destruct E as (t & E & Hok & _).
    eapply greach_step; eauto.
Qed.

Lemma run_avoiding_timeout_greach : forall sched s s',
  greach (fun _ => tag_no_timeout) s -> run_avoiding is_timeout s sched = Some s' ->
  greach (fun _ => tag_no_timeout) s'.
Proof.
  induction sched as [|e r IH]; cbn; intros s s' Hr H.
  - inversion H; subst. exact Hr.
  - destruct (is_timeout s e) eqn:Eh; [discriminate|].
    destruct (step s e) as [s1|] eqn:E; [|discriminate].
    eapply IH; [|exact H]. apply step_step_rel in E. destruct E as (t & E & _ & Hok).
    eapply greach_step; eauto.
Qed.
