(* T2 for the functions built on sync/atomic: cluster.getIndex and RoundRobinLoadBalance.getIndex as regenerated
   from the source (sequential meaning of the atomic operations, the cell threaded through) are the hand models, and
   one call by one thread is exactly the composition of the atomic steps of the concurrent LTS model (gi_step): the
   LTS's steps are the source's atomic operations. *)
From Coq Require Import List ZArith Bool Lia.
From HV Require Import Lib.Crc32 Lib.GoLite Gen.GoFuncs Model.Cluster Model.Balance Proofs.ClusterProofs.
Import ListNotations.
Local Open Scope Z_scope.

Lemma cluster_getIndex_refines : forall index n,
  cluster_getIndex index n = GRet (snd (get_index index n), fst (get_index index n)).
Proof.
  intros index n. unfold cluster_getIndex, get_index. rewrite Z.gtb_ltb.
  destruct (1 <? n); [|reflexivity]. cbv zeta. destruct (index + 1 <? n); reflexivity.
Qed.

Lemma rr_getIndex_refines : forall n idx, rr_getIndex n idx = GRet (rr_get n idx).
Proof.
  intros n idx. unfold rr_getIndex, rr_get. rewrite Z.gtb_ltb.
  destruct (1 <? n); [|reflexivity]. cbv zeta. destruct (idx + 1 <? n); reflexivity.
Qed.

(* one getIndex call of thread t, run alone from an idle program counter: one LTS step when the incremented index
   is below n (or n <= 1), two steps (AddInt64, then StoreInt64) otherwise; the shared index and the value returned
   are those of the function translated from the source *)
Lemma gi_steps_are_the_source : forall n s t last r cell,
  nth_error (g_pcs s) t = Some (GIdle last) ->
  cluster_getIndex (g_index s) n = GRet (r, cell) ->
  exists s', (gi_run n s [t] = Some s' \/ gi_run n s [t; t] = Some s') /\
             nth_error (g_pcs s') t = Some (GIdle (Some r)) /\ g_index s' = cell.
Proof.
  intros n s t last r cell Hpc Hsrc.
  assert (Hlt : (t < length (g_pcs s))%nat) by (apply nth_error_Some; rewrite Hpc; discriminate).
  rewrite cluster_getIndex_refines in Hsrc. unfold get_index in Hsrc.
  assert (Hstep : gi_step n s t =
            if n >? 1 then
              let i := g_index s + 1 in
              if i <? n then Some {| g_index := i; g_pcs := Cluster.upd_nth t (GIdle (Some i)) (g_pcs s) |}
              else Some {| g_index := i; g_pcs := Cluster.upd_nth t GStore (g_pcs s) |}
            else Some {| g_index := g_index s; g_pcs := Cluster.upd_nth t (GIdle (Some 0)) (g_pcs s) |}).
  { unfold gi_step. rewrite Hpc. reflexivity. }
  destruct (n >? 1) eqn:En.
  - cbv zeta in Hsrc, Hstep. destruct (g_index s + 1 <? n) eqn:Ei.
    + cbn [fst snd] in Hsrc. inversion Hsrc; subst. eexists. split.
      * left. cbn [gi_run]. rewrite Hstep. reflexivity.
      * cbn [g_pcs g_index]. split; [apply nth_error_upd_same; exact Hlt | reflexivity].
    + cbn [fst snd] in Hsrc. inversion Hsrc; subst.
      set (s1 := {| g_index := g_index s + 1; g_pcs := Cluster.upd_nth t GStore (g_pcs s) |}) in *.
      assert (H2 : gi_step n s1 t = Some {| g_index := 0; g_pcs := Cluster.upd_nth t (GIdle (Some 0)) (g_pcs s1) |}).
      { unfold gi_step. unfold s1 at 1. cbn [g_pcs]. rewrite (nth_error_upd_same GStore (g_pcs s) t Hlt). reflexivity. }
      eexists. split.
      * right. cbn [gi_run]. rewrite Hstep, H2. reflexivity.
      * cbn [g_pcs g_index]. split; [|reflexivity].
        apply nth_error_upd_same. unfold s1. cbn [g_pcs]. rewrite upd_nth_length. exact Hlt.
  - cbn [fst snd] in Hsrc. inversion Hsrc; subst. eexists. split.
    + left. cbn [gi_run]. rewrite Hstep. reflexivity.
    + cbn [g_pcs g_index]. split; [apply nth_error_upd_same; exact Hlt | reflexivity].
Qed.
