(* C19: concurrent subscribes / unsubscribes of one (client, topic).  The cache that a
   subscription installed stays the cache of that (client, topic) until an unsubscribe (or the
   heartbeat's offline) of exactly that pair deletes it: no other step, in particular no racing
   subscribe of the same pair, removes or replaces it. *)
From Coq Require Import List ZArith Bool Arith Lia.
From HV Require Import Model.Push Proofs.PushBase Proofs.PushInv.
Import ListNotations.

Lemma tget_app_old id k t x c : tget id k t = Some c -> tget id k (t ++ x) = Some c.
Proof.
  induction t as [|[[i j] d] t IH]; cbn; [discriminate|].
  destruct (Nat.eqb i id && Nat.eqb j k); auto.
Qed.

Lemma tget_tdel_other id k id' k' t : (id, k) <> (id', k') -> tget id k (tdel id' k' t) = tget id k t.
Proof.
  intros Hne. induction t as [|[[i j] d] t IH]; cbn; [reflexivity|].
  destruct (Nat.eqb i id' && Nat.eqb j k') eqn:E1.
  - apply andb_true_iff in E1. destruct E1 as [A B]. apply Nat.eqb_eq in A, B. subst.
    destruct (Nat.eqb id' id && Nat.eqb k' k) eqn:E2; [|exact IH].
    apply andb_true_iff in E2. destruct E2 as [A B]. apply Nat.eqb_eq in A, B. subst. congruence.
  - cbn. destruct (Nat.eqb i id && Nat.eqb j k); auto.
Qed.

Lemma sub_rel_table s sb s1 o : sub_rel s sb s1 o -> table s1 = table s.
Proof. intros H. inversion H; subst; reflexivity. Qed.

(* who may delete the entry of (id, k) *)
Definition deleting (s : state) (id k : nat) : Prop :=
  exists w wk todo res, nth_error (works s) w = Some wk /\ wsub wk = None /\ wf wk = WOff id todo res (OffDelete k).

Lemma table_stable s t s' : step_rel s t s' ->
  forall id k c, tget id k (table s) = Some c -> tget id k (table s') = Some c \/ deleting s id k.
Proof.
  intros H id k c Hg. inversion H; subst; sproj; auto.
  - inversion H1; subst; sproj; auto.
    match goal with Hs : sub_rel _ _ _ _ |- _ => rewrite (sub_rel_table _ _ _ _ Hs) end. auto.
  - inversion H1; subst; sproj; auto.
    + match goal with Hs : sub_rel _ _ _ _ |- _ => rewrite (sub_rel_table _ _ _ _ Hs) end. auto.
    + left. apply tget_app_old. exact Hg.
    + destruct (Nat.eq_dec id id0) as [->|Hn1].
      * destruct (Nat.eq_dec k key) as [->|Hn2].
        -- right. exists w, wk, todo, res. auto.
        -- left. rewrite tget_tdel_other by congruence. exact Hg.
      * left. rewrite tget_tdel_other by congruence. exact Hg.
Qed.

Lemma table_stable_step s e s' : step s e = Some s' ->
  forall id k c, tget id k (table s) = Some c -> tget id k (table s') = Some c \/ deleting s id k.
Proof. intros H. apply step_step_rel in H. destruct H as (t & H & _). eapply table_stable; eauto. Qed.

(* along a whole run: the cache is still the one of (id, k), or somewhere on the way an
   unsubscribe / offline of exactly (id, k) was at its Delete *)
Lemma table_stable_run : forall sched s s', run s sched = Some s' ->
  forall id k c, tget id k (table s) = Some c ->
  tget id k (table s') = Some c \/
  exists pre s1, run s pre = Some s1 /\ (exists post, sched = pre ++ post) /\ deleting s1 id k.
Proof.
  induction sched as [|e r IH]; cbn; intros s s' H id k c Hg.
  - inversion H; subst. auto.
  - destruct (step s e) as [s1|] eqn:E; [|discriminate].
    destruct (table_stable_step _ _ _ E _ _ _ Hg) as [Hs|Hd].
    + destruct (IH _ _ H _ _ _ Hs) as [Hk|(pre & s2 & Hr & (post & Hp) & Hd)]; [auto|].
      right. exists (e :: pre), s2. cbn. rewrite E. split; [exact Hr|]. split; [|exact Hd].
      exists post. rewrite Hp. reflexivity.
    + right. exists [], s. split; [reflexivity|]. split; [exists (e :: r); reflexivity|exact Hd].
Qed.
