(* Proofs about Model/CallLife.v (C10), second part: prompt failure on close, stuck callers. *)
From Coq Require Import List ZArith Bool Lia PeanoNat.
From HV Require Import Model.Mux.
From HV Require Proofs.MuxProofs.
From HV Require Import Model.CallLife Proofs.CallLifeBase.
Import ListNotations.
Open Scope Z_scope.

(* ------------------------------------------------------------------ C10_prompt_on_close *)
Definition clean_ok (st : state) : Prop :=
  forall c cn, nth_error (conns st) c = Some cn -> kcleaned cn = true -> ktab cn = [].

Lemma clean_ok_step g st l st' :
  clean_ok st -> no_late_store_step st l = true -> step g st l = Some st' -> clean_ok st'.
Proof.
  intros I G H. unfold clean_ok in *. destruct l; try destruct w; step_cases' H; intros xc xcn Hc Hk; unfold exit_update in *; norm.
  all: try (apply (I _ _ Hc Hk); fail).
  all: try (match goal with E : nth_error (conns _) _ = Some ?cn |- _ => rewrite (I _ _ E Hk); reflexivity end; fail).
  all: try reflexivity.
  all: try assumption.
  cbn [no_late_store_step] in G. rewrite E, E0, E1, Hk in G. discriminate.
Qed.

Lemma clean_ok_init ts : clean_ok (init ts).
Proof. intros c cn H. destruct c; discriminate. Qed.

Lemma clean_ok_run g : forall tr st st', clean_ok st ->
  guarded (fun s l => no_late_store_step s l) g st tr = true -> run g st tr = Some st' -> clean_ok st'.
Proof.
  induction tr as [|l tr IH]; intros st st' I G H; cbn [run] in H.
  - inversion H; subst. exact I.
  - destruct (step g st l) as [st1|] eqn:E; [|discriminate].
    cbn [guarded] in G. rewrite E in G. apply andb_true_iff in G. destruct G as [G1 G2].
    apply (IH st1 st' (clean_ok_step _ _ _ _ I G1 E) G2 H).
Qed.

(* C10_prompt_on_close_partial: if no caller registers on a connection after a rangeAndClean on
   it has returned, then once Close has run to completion nobody is registered on it *)
Theorem prompt_on_close_partial : forall g ts tr st,
  run g (init ts) tr = Some st -> guarded (fun s l => no_late_store_step s l) g (init ts) tr = true ->
  forall c cn, nth_error (conns st) c = Some cn -> kcleaned cn = true -> ktab cn = [].
Proof. intros g ts tr st H G. apply (clean_ok_run g tr _ _ (clean_ok_init ts) G H). Qed.

(* the guard is exact: a registration after a completed clean violates the statement at once *)
Theorem late_store_breaks : forall g st k cl c i cn st',
  fix_store g = false ->
  nth_error (callers st) k = Some cl -> pc cl = CAlloc c i -> nth_error (conns st) c = Some cn ->
  kcleaned cn = true -> step g st (LStore k) = Some st' ->
  exists cn', nth_error (conns st') c = Some cn' /\ kcleaned cn' = true /\ ktab cn' <> [].
Proof.
  intros g st k cl c i cn st' Hfix Hk Hpc Hc Hcl H. cbn [step] in H. rewrite Hk, Hpc, Hc, Hfix in H. cbn [andb] in H.
  inversion H; subst st'. proj_simpl. rewrite nth_upd, Nat.eqb_refl, Hc.
  eexists. split; [reflexivity|]. proj_simpl. split; [exact Hcl|]. unfold a_set. discriminate.
Qed.

Definition g31 : cfg := {| mask := mask31; fix_cancel := true; fix_store := true |}.
Definition g15 : cfg := {| mask := mask15; fix_cancel := true; fix_store := true |}.
(* the transports before 576bf91 and 8ffdf9e *)
Definition g31_old : cfg := {| mask := mask31; fix_cancel := false; fix_store := false |}.

(* C10_prompt_on_close_old_refuted *)
Theorem prompt_on_close_old_refuted :
  exists st, run g31_old (init [false]) late_store_witness = Some st /\
    (exists cn, nth_error (conns st) 0 = Some cn /\ kcleaned cn = true /\ ksock cn = true /\ ktab cn = [(1, 0%nat)]) /\
    stuck_b st 0 = true.
Proof.
  eexists. split; [vm_compute; reflexivity|]. split.
  - eexists. split; [reflexivity|]. cbn. auto.
  - vm_compute. reflexivity.
Qed.

(* ------------------------------------------------------------------ somebody keeps watching *)
Record inv_watch (st : state) : Prop := {
  w_ctx : forall c cn, nth_error (conns st) c = Some cn ->
          (ksender cn = SExit (EOnExit false) \/ kreceiver cn = RExit (EOnExit false)) -> kcancel cn = true;
  w_watch : forall c cn, nth_error (conns st) c = Some cn -> kcleaned cn = false ->
            closer_pending st c cn = true \/ listening cn = true
}.

Lemma watch_ctx_preserved g st l st' : inv_watch st -> step g st l = Some st' ->
  forall xc xcn, nth_error (conns st') xc = Some xcn ->
          (ksender xcn = SExit (EOnExit false) \/ kreceiver xcn = RExit (EOnExit false)) -> kcancel xcn = true.
Proof.
  intros I H. destruct l; try destruct w; step_cases' H; intros xc xcn Hc Ht; unfold exit_update in *; norm.
  all: try (apply (w_ctx _ I _ _ Hc Ht); fail).
  all: try (match goal with E : nth_error (conns _) _ = Some ?cn |- _ => apply (w_ctx _ I _ _ E); tauto end; fail).
  all: try assumption.
  all: try (destruct Ht as [Ht|Ht]; try discriminate Ht; try (inversion Ht; fail);
            match goal with E : nth_error (conns _) _ = Some ?cn |- _ =>
              first [ apply (w_ctx _ I _ _ E); first [left; congruence | right; congruence] ] end; fail).
  all: destruct (fix_cancel g); cbn [orb]; try (apply orb_true_r).
  all: rewrite orb_false_r.
  all: try (destruct Ht as [Ht|Ht]; try discriminate Ht; try (inversion Ht; fail);
            match goal with E : nth_error (conns _) _ = Some ?cn |- _ =>
              first [ apply (w_ctx _ I _ _ E); first [left; congruence | right; congruence] ] end; fail).
Qed.

Lemma existsb_upd_nth {A} (f : A -> bool) : forall l j x y,
  nth_error l j = Some y -> existsb f (upd_nth j x l) = true -> f x = true \/ existsb f l = true.
Proof.
  induction l as [|a l IH]; intros [|j] x y Hn H; cbn in *; try discriminate.
  - apply orb_true_iff in H. destruct H as [H|H]; [left; exact H|right; rewrite H; apply orb_true_r].
  - apply orb_true_iff in H. destruct H as [H|H]; [right; rewrite H; reflexivity|].
    destruct (IH _ _ _ Hn H) as [X|X]; [left; exact X|right; rewrite X; apply orb_true_r].
Qed.

Lemma existsb_upd_nth_keep {A} (f : A -> bool) : forall l j x y,
  nth_error l j = Some y -> (f y = true -> f x = true) -> existsb f l = true -> existsb f (upd_nth j x l) = true.
Proof.
  induction l as [|a l IH]; intros [|j] x y Hn Hk H; cbn in *; try discriminate.
  - inversion Hn; subst. apply orb_true_iff in H. destruct H as [H|H]; [rewrite (Hk H); reflexivity|rewrite H; apply orb_true_r].
  - apply orb_true_iff in H. destruct H as [H|H]; [rewrite H; reflexivity|]. rewrite (IH _ _ _ Hn Hk H). apply orb_true_r.
Qed.

Lemma existsb_upd_nth_new {A} (f : A -> bool) : forall l j x y,
  nth_error l j = Some y -> f x = true -> existsb f (upd_nth j x l) = true.
Proof.
  induction l as [|a l IH]; intros [|j] x y Hn Hx; cbn in *; try discriminate.
  - rewrite Hx. reflexivity.
  - rewrite (IH _ _ _ Hn Hx). apply orb_true_r.
Qed.

Lemma existsb_upd_nth_other {A} (f : A -> bool) : forall l j x y,
  nth_error l j = Some y -> f y = false -> existsb f l = true -> existsb f (upd_nth j x l) = true.
Proof.
  intros l j x y Hn Hy. apply (existsb_upd_nth_keep f l j x y Hn). rewrite Hy. discriminate.
Qed.

Local Opaque index_of.

Ltac watch_unfold := unfold closer_pending, listening in *; proj_simpl.

Lemma watch_watch_preserved g st l st' : inv_watch st -> step g st l = Some st' ->
  forall xc xcn, nth_error (conns st') xc = Some xcn -> kcleaned xcn = false ->
            closer_pending st' xc xcn = true \/ listening xcn = true.
Proof.
  intros I H. destruct l; try destruct w; step_cases' H; intros xc xcn Hc Hk; unfold exit_update in *; norm.
  all: try (apply (w_watch _ I _ _ Hc Hk); fail).
  all: try discriminate.
  all: try (match goal with E : nth_error (conns _) _ = Some ?cn |- _ =>
              destruct (w_watch _ I _ _ E ltac:(assumption)) as [W|W]; watch_unfold;
              repeat match goal with Ex : ksender _ = _ |- _ => rewrite Ex in * end;
              repeat match goal with Ex : kreceiver _ = _ |- _ => rewrite Ex in * end;
              repeat match goal with Ex : kcancel _ = _ |- _ => rewrite Ex in * end;
              cbn [is_closer negb andb orb] in *; try discriminate; auto; fail end).
  all: try (right; reflexivity).
  all: try (match goal with E : nth_error (conns _) _ = Some ?cn |- _ =>
              pose proof (w_ctx _ I _ _ E) as Wc;
              pose proof (w_watch _ I _ _ E) as W; watch_unfold;
              repeat match goal with Ex : ksender _ = _ |- _ => rewrite Ex in * end;
              repeat match goal with Ex : kreceiver _ = _ |- _ => rewrite Ex in * end;
              repeat match goal with Ex : kcancel _ = _ |- _ => rewrite Ex in * end;
              repeat match goal with Ex : kcleaned _ = _ |- _ => rewrite Ex in * end;
              cbn [is_closer negb andb orb] in *;
              match goal with |- context [existsb ?f (aborters ?s)] => destruct (existsb f (aborters s)) | _ => idtac end;
              destruct (kcancel cn); destruct (ksender cn) as [| |[[]| | |]]; destruct (kreceiver cn) as [| |[[]| | |]];
              cbn in *; try discriminate; intuition (try discriminate; try congruence) end; fail).
  - left. watch_unfold. erewrite existsb_upd_nth_new; [rewrite orb_true_r; reflexivity|eassumption|].
    cbn. rewrite Nat.eqb_refl. reflexivity.
  - destruct (w_watch _ I _ _ Hc Hk) as [W|W]; [left|right; exact W]. watch_unfold.
    apply orb_true_iff in W. apply orb_true_iff. destruct W as [W|W]; [left; exact W|right].
    eapply existsb_upd_nth_other; [eassumption| |exact W]. cbn.
    destruct (Nat.eqb n xc) eqn:X; [apply Nat.eqb_eq in X; congruence|reflexivity].
  - destruct (w_watch _ I _ _ Hc Hk) as [W|W]; [left|right; exact W]. watch_unfold.
    apply orb_true_iff in W. apply orb_true_iff. destruct W as [W|W]; [left; exact W|right].
    eapply existsb_upd_nth_other; [eassumption| |exact W]. cbn.
    destruct (Nat.eqb n xc) eqn:X; [apply Nat.eqb_eq in X; congruence|reflexivity].
  - left. watch_unfold. rewrite existsb_app. cbn. rewrite Nat.eqb_refl. cbn. rewrite !orb_true_r. reflexivity.
  - destruct (w_watch _ I _ _ Hc Hk) as [W|W]; [left|right; exact W]. watch_unfold.
    apply orb_true_iff in W. apply orb_true_iff. destruct W as [W|W]; [left; exact W|right].
    rewrite existsb_app, W. reflexivity.
Qed.

Lemma inv_watch_step g st l st' : inv_watch st -> step g st l = Some st' -> inv_watch st'.
Proof.
  intros I H. split.
  - apply (watch_ctx_preserved g st l st' I H).
  - apply (watch_watch_preserved g st l st' I H).
Qed.

Lemma inv_watch_init ts : inv_watch (init ts).
Proof. split; intros c cn H; destruct c; discriminate. Qed.

(* ------------------------------------------------------------------ active callers *)
Definition refs_ok (st : state) : Prop :=
  forall k cl c i, nth_error (callers st) k = Some cl -> active_on c i (pc cl) = true -> (c < length (conns st))%nat.

Lemma active_on_inv c i p : active_on c i p = true ->
  p = CAlloc c i \/ p = CStored c i \/ p = CEnq c i.
Proof.
  destruct p; cbn; try discriminate; intros H; apply andb_true_iff in H; destruct H as [H1 H2];
    apply Nat.eqb_eq in H1; apply Z.eqb_eq in H2; subst; auto.
Qed.

Lemma fail_from_inv t l n k cl' : nth_error (fail_from n t l) k = Some cl' ->
  exists cl, nth_error l k = Some cl /\ pc cl' = pc cl /\ cancelled cl' = cancelled cl /\ armed cl' = armed cl /\
             ((box cl' = box cl /\ holder_in (n + k) t = false) \/ (box cl' = Some RErr /\ holder_in (n + k) t = true)).
Proof.
  rewrite nth_fail_from. destruct (nth_error l k) as [cl|]; [|discriminate]. cbn [option_map].
  destruct (holder_in (n + k) t) eqn:E; intros H; injection H as <-; exists cl; cbn; auto 8.
Qed.

Lemma cancel_from_inv cs l n k cl' : nth_error (cancel_from n cs l) k = Some cl' ->
  exists cl, nth_error l k = Some cl /\ pc cl' = pc cl /\ box cl' = box cl /\ armed cl' = armed cl /\
             ((cancelled cl' = cancelled cl /\ mem_nat (n + k) cs = false) \/ (cancelled cl' = true /\ mem_nat (n + k) cs = true)).
Proof.
  rewrite nth_cancel_from. destruct (nth_error l k) as [cl|]; [|discriminate]. cbn [option_map].
  destruct (mem_nat (n + k) cs) eqn:E; intros H; injection H as <-; exists cl; cbn; auto 8.
Qed.

Ltac from_inv :=
  repeat match goal with
  | Hc : nth_error (fail_from _ _ _) _ = Some _ |- _ =>
      apply fail_from_inv in Hc; let cl := fresh "ocl" in destruct Hc as (cl & Hc & ? & ? & ? & ?)
  | Hc : nth_error (cancel_from _ _ _) _ = Some _ |- _ =>
      apply cancel_from_inv in Hc; let cl := fresh "ocl" in destruct Hc as (cl & Hc & ? & ? & ? & ?)
  end.

Lemma refs_ok_step g st l st' : refs_ok st -> step g st l = Some st' -> refs_ok st'.
Proof.
  intros I H. unfold refs_ok in *.
  destruct l; try destruct w; step_cases' H; intros xk xcl xc xi Hc Ha; unfold exit_update in *; norm; from_inv;
    rewrite ?length_upd, ?app_length; cbn [length].
  all: try (apply (I _ _ _ _ Hc Ha); fail).
  all: try (pose proof (I _ _ _ _ Hc Ha); lia).
  all: pc_rw.
  all: try (match goal with E : nth_error (callers _) _ = Some ?c |- _ => apply (I _ _ _ xi E); pc_rw; exact Ha end; fail).
  all: try discriminate.
  all: apply active_on_inv in Ha; destruct Ha as [Ha|[Ha|Ha]]; inversion Ha; subst; clear Ha.
  all: try (eapply nth_some_lt; eassumption).
  all: try lia.
  all: try (match goal with E : nth_error (callers _) _ = Some ?c, Ep : pc ?c = _ |- _ => apply (I _ _ _ xi E); rewrite Ep; cbn; rewrite Nat.eqb_refl, Z.eqb_refl; reflexivity end; fail).
  all: try (match goal with Hc : nth_error (callers _) _ = Some ?o, Hp : pc _ = pc ?o |- _ => apply (I _ _ _ xi Hc); rewrite <- Hp; pc_rw; cbn; rewrite Nat.eqb_refl, Z.eqb_refl; reflexivity end; fail).
Qed.

Definition dist_ok (st : state) : Prop :=
  forall k1 k2 cl1 cl2 c i, nth_error (callers st) k1 = Some cl1 -> nth_error (callers st) k2 = Some cl2 ->
    active_on c i (pc cl1) = true -> active_on c i (pc cl2) = true -> k1 = k2.

Lemma active_on_same c i c' i' p : active_on c i p = true -> active_on c' i' p = true -> c = c' /\ i = i'.
Proof.
  intros H1 H2. apply active_on_inv in H1. apply active_on_inv in H2.
  destruct H1 as [H1|[H1|H1]]; subst p; destruct H2 as [H2|[H2|H2]]; inversion H2; auto.
Qed.

Lemma dist_ok_step g st l st' : refs_ok st -> dist_ok st -> no_reuse_step g st l = true ->
  step g st l = Some st' -> dist_ok st'.
Proof.
  intros R I G H. unfold dist_ok in *.
  destruct l; try destruct w; step_cases' H; intros k1 k2 cl1 cl2 xc xi H1 H2 A1 A2; unfold exit_update in *; norm; from_inv.
  all: try (apply (I _ _ _ _ _ _ H1 H2 A1 A2); fail).
  all: try reflexivity.
  all: pc_rw; proj_simpl; try discriminate.
  all: try (match goal with Ha : pc ?x = pc ?o, A : active_on _ _ (pc ?x) = true |- _ => rewrite Ha in A end).
  all: try (match goal with Ha : pc ?x = pc ?o, A : active_on _ _ (pc ?x) = true |- _ => rewrite Ha in A end).
  all: try (eapply I; eassumption).
  all: match goal with A : active_on _ _ (CAlloc _ _) = true |- _ => apply active_on_inv in A; destruct A as [A|[A|A]]; inversion A; subst; clear A
                   | A : active_on _ _ (CStored _ _) = true |- _ => apply active_on_inv in A; destruct A as [A|[A|A]]; inversion A; subst; clear A
                   | A : active_on _ _ (CEnq _ _) = true |- _ => apply active_on_inv in A; destruct A as [A|[A|A]]; inversion A; subst; clear A end.
  all: try (exfalso; cbn [no_reuse_step] in G; rewrite E0, E2 in G; rewrite forallb_forall in G;
            match goal with Hx : nth_error (callers _) _ = Some ?cl, A : active_on _ _ (pc ?cl) = true |- _ =>
              specialize (G _ (nth_error_In _ _ Hx)); rewrite A in G; discriminate end).
  all: try (exfalso; match goal with Hx : nth_error (callers _) _ = Some ?cl, A : active_on _ _ (pc ?cl) = true |- _ =>
              pose proof (R _ _ _ _ Hx A); lia end).
  all: try (match goal with Hx : nth_error (callers _) ?k1 = Some ?cl, A : active_on ?c ?i (pc ?cl) = true, E : nth_error (callers _) ?k = Some ?c', Ep : pc ?c' = _ |- ?k1 = ?k =>
              apply (I _ _ _ _ c i Hx E A); rewrite Ep; cbn; rewrite Nat.eqb_refl, Z.eqb_refl; reflexivity end).
  all: try (symmetry; match goal with Hx : nth_error (callers _) ?k1 = Some ?cl, A : active_on ?c ?i (pc ?cl) = true, E : nth_error (callers _) ?k = Some ?c', Ep : pc ?c' = _ |- ?k1 = ?k =>
              apply (I _ _ _ _ c i Hx E A); rewrite Ep; cbn; rewrite Nat.eqb_refl, Z.eqb_refl; reflexivity end).
Qed.

(* ------------------------------------------------------------------ a waiting caller keeps its entry *)
Definition entry_ok (st : state) : Prop :=
  forall k cl c i, nth_error (callers st) k = Some cl -> waiting_at (pc cl) = Some (c, i) -> box cl = None ->
    exists cn, nth_error (conns st) c = Some cn /\ In (i, k) (ktab cn).

Lemma In_a_remove_intro {A} (j k : Z) (a : A) l : In (j, a) l -> j <> k -> In (j, a) (a_remove Z.eqb k l).
Proof.
  induction l as [|[i b] r IH]; cbn [a_remove]; [intros []|].
  intros [H|H] Hne.
  - inversion H; subst. destruct (k =? j) eqn:E; [apply Z.eqb_eq in E; congruence|left; reflexivity].
  - destruct (k =? i); [apply IH; assumption|right; apply IH; assumption].
Qed.

Lemma In_a_set_intro {A} (j k : Z) (a v : A) l : In (j, a) l -> j <> k -> In (j, a) (a_set Z.eqb k v l).
Proof. intros H Hne. right. apply In_a_remove_intro; assumption. Qed.

Lemma In_a_find_some {A} (j : Z) (a : A) l : In (j, a) l -> a_find Z.eqb j l <> None.
Proof.
  induction l as [|[i b] r IH]; cbn [a_find]; [intros []|].
  intros [H|H].
  - inversion H; subst. rewrite Z.eqb_refl. discriminate.
  - destruct (j =? i); [discriminate|apply IH; exact H].
Qed.

Lemma waiting_active c i p : waiting_at p = Some (c, i) -> active_on c i p = true.
Proof. destruct p; cbn; try discriminate; intros H; inversion H; subst; rewrite Nat.eqb_refl, Z.eqb_refl; reflexivity. Qed.

Lemma entry_ok_step g st l st' : inv_leak st -> dist_ok st -> entry_ok st ->
  step g st l = Some st' -> entry_ok st'.
Proof.
  intros L D I H. unfold entry_ok in *.
  destruct l; try destruct w; step_cases' H; intros xk xcl xc xi Hc Hw Hb; unfold exit_update in *; norm; from_inv.
  all: try (apply (I _ _ _ _ Hc Hw Hb); fail).
  all: pc_rw; proj_simpl; try discriminate.
  all: try (destruct (I _ _ _ _ Hc Hw Hb) as (cn & X1 & X2); fin; fail).
  all: try (match goal with E : nth_error (callers _) _ = Some ?c |- _ => apply (I _ _ _ _ E); [pc_rw; congruence|congruence] end; fail).
  all: try (exfalso; destruct (I _ _ _ _ Hc Hw Hb) as (cn & X1 & _); rewrite nth_len_none in X1; discriminate).
  all: try (inversion Hw; subst; clear Hw).
  all: try (exfalso; congruence).
  all: try (eexists; split; [reflexivity|]; proj_simpl; left; reflexivity).
  all: try (match goal with H2 : (box ?x = box ?o /\ _) \/ (box ?x = Some RErr /\ _), Hb : box ?x = None |- _ =>
              destruct H2 as [[H2 Hh]|[H2 _]]; [|congruence]; rewrite H2 in Hb; cbn [Nat.add] in Hh end).
  all: try (match goal with Hc : nth_error (callers _) _ = Some ?o, Hp : pc _ = pc ?o, Hw : waiting_at (pc ?o) = Some _, Hb : box ?o = None |- _ =>
              destruct (I _ _ _ _ Hc Hw Hb) as (cn & X1 & X2); lookup_norm end).
  all: try (eexists; split; [eassumption|assumption]).
  all: try (eexists; split; [reflexivity|assumption]).
  all: try (exfalso; match goal with Hh : holder_in ?k (?p :: ?t) = false, E2 : ktab _ = ?p :: ?t, X2 : In (_, ?k) _ |- _ =>
              rewrite E2 in X2; assert (Y : holder_in k (p :: t) = true) by (apply holder_in_In; eexists; exact X2); congruence end).
  - (* LStore: another waiter on the same connection keeps its entry *)
    destruct (I _ _ _ _ Hc H0 Hb) as (cn & X1 & X2). lookup_norm.
    eexists. split; [reflexivity|]. proj_simpl. apply In_a_set_intro; [exact X2|].
    intros ->. apply Eq. apply (D _ _ _ _ c0 i Hc E (waiting_active _ _ _ H0)). rewrite E0. cbn.
    rewrite Nat.eqb_refl, Z.eqb_refl. reflexivity.
  - destruct (I _ _ c0 xi E) as (cn & X1 & X2); [rewrite E0; reflexivity|exact Hb|]. lookup_norm.
    eexists. split; [reflexivity|exact X2].
  - destruct (I _ _ _ _ Hc H0 Hb) as (cn & X1 & X2). lookup_norm.
    eexists. split; [reflexivity|]. proj_simpl. apply In_a_remove_intro; [exact X2|].
    intros ->. apply Eq. apply (D _ _ _ _ n z Hc E (waiting_active _ _ _ H0) (waiting_active _ _ _ E0)).
  - destruct (I _ _ _ _ Hc H0 Hb) as (cn & X1 & X2). lookup_norm.
    eexists. split; [reflexivity|]. proj_simpl. apply In_a_remove_intro; [exact X2|].
    intros ->. apply Eq.
    destruct (l_tab _ L _ _ _ _ E (MuxProofs.a_find_In _ _ _ MuxProofs.zeqb_spec _ _ _ E3)) as (cl' & Y1 & Y2 & _).
    apply (D _ _ _ _ c z Hc Y1 (waiting_active _ _ _ H0) (waiting_active _ _ _ Y2)).
  - destruct (I _ _ _ _ Hc H0 Hb) as (cn & X1 & X2). lookup_norm.
    eexists. split; [reflexivity|]. proj_simpl. apply In_a_remove_intro; [exact X2|].
    intros ->. apply (In_a_find_some _ _ _ X2). assumption.
Qed.

(* ------------------------------------------------------------------ C10_no_stuck_caller *)
Record inv_all (st : state) : Prop := {
  a_leak : inv_leak st;
  a_watch : inv_watch st;
  a_refs : refs_ok st;
  a_dist : dist_ok st;
  a_entry : entry_ok st;
  a_clean : clean_ok st
}.

Lemma inv_all_init ts : inv_all (init ts).
Proof.
  split.
  - apply inv_leak_init.
  - apply inv_watch_init.
  - intros k cl c i H A. cbn in H. apply nth_map_init in H. destruct H as [H _]. rewrite H in A. discriminate.
  - intros k1 k2 cl1 cl2 c i H1 _ A. cbn in H1. apply nth_map_init in H1. destruct H1 as [H1 _]. rewrite H1 in A. discriminate.
  - intros k cl c i H W. cbn in H. apply nth_map_init in H. destruct H as [H _]. rewrite H in W. discriminate.
  - apply clean_ok_init.
Qed.

Lemma inv_all_step g st l st' : inv_all st -> guard_step g st l = true -> step g st l = Some st' -> inv_all st'.
Proof.
  intros [L W R D E C] G H. unfold guard_step in G. apply andb_true_iff in G. destruct G as [G1 G2]. split.
  - apply (inv_leak_step _ _ _ _ L H).
  - apply (inv_watch_step _ _ _ _ W H).
  - apply (refs_ok_step _ _ _ _ R H).
  - apply (dist_ok_step _ _ _ _ R D G2 H).
  - apply (entry_ok_step _ _ _ _ L D E H).
  - apply (clean_ok_step _ _ _ _ C G1 H).
Qed.

Lemma inv_all_run g : forall tr st st', inv_all st -> guarded (guard_step g) g st tr = true ->
  run g st tr = Some st' -> inv_all st'.
Proof.
  induction tr as [|l tr IH]; intros st st' I G H; cbn [run] in H.
  - inversion H; subst. exact I.
  - destruct (step g st l) as [st1|] eqn:E; [|discriminate].
    cbn [guarded] in G. rewrite E in G. apply andb_true_iff in G. destruct G as [G1 G2].
    apply (IH st1 st' (inv_all_step _ _ _ _ I G1 E) G2 H).
Qed.

(* C10_no_stuck_caller_partial: under the two guards, a caller that waits either can complete at
   once (its channel is full or its context is done), or its entry is in the table of a
   connection on which somebody is still going to run rangeAndClean or Receive is still reading *)
Theorem no_stuck_caller_partial : forall g ts tr st,
  run g (init ts) tr = Some st -> guarded (guard_step g) g (init ts) tr = true ->
  forall k cl c i, nth_error (callers st) k = Some cl -> waiting_at (pc cl) = Some (c, i) ->
    box cl <> None \/ cancelled cl = true \/
    exists cn, nth_error (conns st) c = Some cn /\ In (i, k) (ktab cn) /\
               (closer_pending st c cn = true \/ listening cn = true).
Proof.
  intros g ts tr st H G k cl c i Hk Hw.
  pose proof (inv_all_run g tr _ _ (inv_all_init ts) G H) as [L W R D E C].
  destruct (box cl) as [r|] eqn:Eb; [left; discriminate|]. right. right.
  destruct (E _ _ _ _ Hk Hw Eb) as (cn & Hc & Hin). exists cn. split; [exact Hc|]. split; [exact Hin|].
  apply (w_watch _ W _ _ Hc). destruct (kcleaned cn) eqn:Ec; [|reflexivity].
  rewrite (C _ _ Hc Ec) in Hin. destruct Hin.
Qed.

(* ------------------------------------------------------------------ the third alternative is a real way out *)
Definition closer_path (w : who) (e : epc) : list label :=
  match e with
  | EOnExit true => [LOnExit w; LCloseSock w; LCleanTake w]
  | ECloseSock => [LCloseSock w; LCleanTake w]
  | EClean => [LCleanTake w]
  | _ => []
  end.

Lemma clean_take_fails g st w c cn i k cl :
  who_pc st w = Some EClean -> who_conn st w = Some c -> nth_error (conns st) c = Some cn ->
  In (i, k) (ktab cn) -> nth_error (callers st) k = Some cl ->
  exists st', step g st (LCleanTake w) = Some st' /\
              exists cl', nth_error (callers st') k = Some cl' /\ box cl' = Some RErr /\ pc cl' = pc cl.
Proof.
  intros Hp Hw Hc Hin Hk. cbn [step]. rewrite Hp, Hw, Hc.
  destruct (ktab cn) as [|p t] eqn:Et; [destruct Hin|].
  eexists. split; [reflexivity|]. proj_simpl. rewrite nth_fail_from, Hk. cbn [option_map Nat.add].
  assert (Hh : holder_in k (p :: t) = true) by (apply holder_in_In; exists i; exact Hin).
  rewrite Hh. eexists. split; [reflexivity|]. cbn. auto.
Qed.

Lemma close_sock_step g st w c cn :
  who_pc st w = Some ECloseSock -> who_conn st w = Some c -> nth_error (conns st) c = Some cn ->
  exists st' cn', step g st (LCloseSock w) = Some st' /\ who_pc st' w = Some EClean /\ who_conn st' w = Some c /\
                  nth_error (conns st') c = Some cn' /\ ktab cn' = ktab cn /\ callers st' = callers st.
Proof.
  intros Hp Hw Hc. cbn [step]. rewrite Hp, Hw, Hc.
  destruct w as [c'|c'|j]; cbn [who_conn] in Hw.
  - inversion Hw; subst c'. eexists _, _. split; [reflexivity|]. unfold exit_update, who_pc, who_conn. proj_simpl.
    rewrite nth_upd, Nat.eqb_refl, Hc. proj_simpl. repeat split; reflexivity.
  - inversion Hw; subst c'. eexists _, _. split; [reflexivity|]. unfold exit_update, who_pc, who_conn. proj_simpl.
    rewrite nth_upd, Nat.eqb_refl, Hc. proj_simpl. repeat split; reflexivity.
  - destruct (nth_error (aborters st) j) as [[c' e]|] eqn:Ea; [|discriminate]. inversion Hw; subst c'.
    eexists _, _. split; [reflexivity|]. unfold exit_update, who_pc, who_conn. proj_simpl.
    rewrite !nth_upd, !Nat.eqb_refl, Hc, Ea. proj_simpl. repeat split; reflexivity.
Qed.

Lemma on_exit_step g st w c cn :
  (forall j, w <> WA j) ->
  who_pc st w = Some (EOnExit true) -> who_conn st w = Some c -> nth_error (conns st) c = Some cn ->
  exists st' cn', step g st (LOnExit w) = Some st' /\ who_pc st' w = Some ECloseSock /\ who_conn st' w = Some c /\
                  nth_error (conns st') c = Some cn' /\ ktab cn' = ktab cn /\ callers st' = callers st.
Proof.
  intros Hn Hp Hw Hc.
  destruct w as [c'|c'|j]; [| |exfalso; apply (Hn j); reflexivity]; cbn [step]; rewrite Hp, Hw, Hc; cbn [who_conn] in Hw.
  - inversion Hw; subst c'.
    destruct (match pool st with Some c' => Nat.eqb c' c | None => false end);
      (eexists _, _; split; [reflexivity|]; unfold exit_update, who_pc, who_conn; proj_simpl;
       rewrite nth_upd, Nat.eqb_refl, Hc; proj_simpl; repeat split; reflexivity).
  - inversion Hw; subst c'.
    destruct (match pool st with Some c' => Nat.eqb c' c | None => false end);
      (eexists _, _; split; [reflexivity|]; unfold exit_update, who_pc, who_conn; proj_simpl;
       rewrite nth_upd, Nat.eqb_refl, Hc; proj_simpl; repeat split; reflexivity).
Qed.

(* whoever is going to run rangeAndClean gets there by its own steps and fails the caller *)
Theorem closer_rescues : forall g st w e c cn i k cl,
  who_pc st w = Some e -> is_closer e = true -> (forall j, w = WA j -> past_onexit e = true) ->
  who_conn st w = Some c -> nth_error (conns st) c = Some cn ->
  In (i, k) (ktab cn) -> nth_error (callers st) k = Some cl ->
  exists st', run g st (closer_path w e) = Some st' /\
              exists cl', nth_error (callers st') k = Some cl' /\ box cl' = Some RErr /\ pc cl' = pc cl.
Proof.
  intros g st w e c cn i k cl Hp He Ha Hw Hc Hin Hk.
  destruct e as [[|]| | |]; try discriminate He; cbn [closer_path run].
  - assert (Hn : forall j, w <> WA j) by (intros j ->; specialize (Ha j eq_refl); discriminate).
    destruct (on_exit_step g st w c cn Hn Hp Hw Hc) as (st1 & cn1 & S1 & P1 & W1 & C1 & T1 & K1). rewrite S1.
    destruct (close_sock_step g st1 w c cn1 P1 W1 C1) as (st2 & cn2 & S2 & P2 & W2 & C2 & T2 & K2). rewrite S2.
    destruct (clean_take_fails g st2 w c cn2 i k cl P2 W2 C2) as (st3 & S3 & R3); [congruence|congruence|].
    rewrite S3. exists st3. split; [reflexivity|exact R3].
  - destruct (close_sock_step g st w c cn Hp Hw Hc) as (st2 & cn2 & S2 & P2 & W2 & C2 & T2 & K2). rewrite S2.
    destruct (clean_take_fails g st2 w c cn2 i k cl P2 W2 C2) as (st3 & S3 & R3); [congruence|congruence|].
    rewrite S3. exists st3. split; [reflexivity|exact R3].
  - destruct (clean_take_fails g st w c cn i k cl Hp Hw Hc Hin Hk) as (st3 & S3 & R3).
    rewrite S3. exists st3. split; [reflexivity|exact R3].
Qed.

Lemma run_app g : forall tr1 tr2 st,
  run g st (tr1 ++ tr2) = match run g st tr1 with Some st1 => run g st1 tr2 | None => None end.
Proof.
  induction tr1 as [|l tr1 IH]; intros tr2 st; cbn [app run]; [reflexivity|].
  destruct (step g st l); [apply IH|reflexivity].
Qed.

(* while Receive is reading, losing the connection fails the caller *)
Theorem listener_rescues : forall g st c cn i k cl,
  nth_error (conns st) c = Some cn -> listening cn = true ->
  In (i, k) (ktab cn) -> nth_error (callers st) k = Some cl ->
  exists path st', run g st (LPeerGone c :: path) = Some st' /\
                   exists cl', nth_error (callers st') k = Some cl' /\ box cl' = Some RErr /\ pc cl' = pc cl.
Proof.
  intros g st c cn i k cl Hc Hl Hin Hk. unfold listening in Hl. apply andb_true_iff in Hl. destruct Hl as [Hcan Hr].
  apply negb_true_iff in Hcan.
  (* after LPeerGone and, if needed, LRecvPoll, Receive is in its read with a dead peer *)
  assert (X : exists pre st1 cn1, run g st (LPeerGone c :: pre) = Some st1 /\ nth_error (conns st1) c = Some cn1 /\
                kreceiver cn1 = RRead /\ kpeer_gone cn1 = true /\ ktab cn1 = ktab cn /\ callers st1 = callers st).
  { destruct (kreceiver cn) eqn:Er; try discriminate Hr.
    - exists [LRecvPoll c]. cbn [run step]. rewrite Hc. proj_simpl. rewrite nth_upd, Nat.eqb_refl, Hc. proj_simpl.
      rewrite Er, Hcan. eexists _, _. split; [reflexivity|]. proj_simpl. rewrite nth_upd, Nat.eqb_refl, nth_upd, Nat.eqb_refl, Hc.
      repeat split; reflexivity.
    - exists []. cbn [run step]. rewrite Hc. eexists _, _. split; [reflexivity|]. proj_simpl. rewrite nth_upd, Nat.eqb_refl, Hc.
      proj_simpl. repeat split; auto. }
  destruct X as (pre & st1 & cn1 & R1 & C1 & Rr & Pg & T1 & K1).
  (* LRecvFail *)
  assert (S2 : exists st2 cn2, step g st1 (LRecvFail c) = Some st2 /\ nth_error (conns st2) c = Some cn2 /\
                kreceiver cn2 = RExit (EOnExit true) /\ ktab cn2 = ktab cn /\ callers st2 = callers st).
  { cbn [step]. rewrite C1, Rr, Pg, orb_true_r. eexists _, _. split; [reflexivity|]. proj_simpl.
    rewrite nth_upd, Nat.eqb_refl, C1. proj_simpl. repeat split; auto. }
  destruct S2 as (st2 & cn2 & S2 & C2 & R2 & T2 & K2).
  destruct (closer_rescues g st2 (WR c) (EOnExit true) c cn2 i k cl) as (st3 & R3 & Hres); auto.
  - unfold who_pc. rewrite C2, R2. reflexivity.
  - intros j Hj. discriminate Hj.
  - rewrite T2. exact Hin.
  - rewrite K2. exact Hk.
  - exists (pre ++ LRecvFail c :: closer_path (WR c) (EOnExit true)), st3. split; [|exact Hres].
    change (LPeerGone c :: pre ++ LRecvFail c :: closer_path (WR c) (EOnExit true))
      with ((LPeerGone c :: pre) ++ LRecvFail c :: closer_path (WR c) (EOnExit true)).
    rewrite run_app, R1. cbn [run]. rewrite S2. exact R3.
Qed.

(* ------------------------------------------------------------------ C10_no_stuck_caller_refuted *)
Definition parked : caller := {| pc := CStored 0 1; box := None; cancelled := false; armed := false |}.

Definition stuck_shape (st : state) : Prop :=
  pool st = None /\ aborters st = [] /\ callers st = [parked] /\
  exists cn, conns st = [cn] /\ ksender cn = SExit EDone /\ kreceiver cn = RExit EDone.

Definition outside_cancel (l : label) : bool :=
  match l with LUserCancel _ | LAbortCancel => true | _ => false end.

Lemma stuck_shape_step g st l st' :
  stuck_shape st -> outside_cancel l = false -> step g st l = Some st' -> stuck_shape st'.
Proof.
  intros (Hp & Ha & Hk & cn & Hc & Hs & Hr) Ho H.
  destruct l as [k|k|k|k|k|k|k|k|k|k|k|k|k r|k|c|c|c|c|c|c n|c|w|w|w|w|c i|c| |]; try discriminate Ho;
    try (destruct k as [|k]); try (destruct c as [|c]); try (destruct w as [[|c]|[|c]|j]);
    cbn [step who_pc who_conn] in H; rewrite ?Hk, ?Hc, ?Hp, ?Ha in H; cbn in H; rewrite ?Hs, ?Hr in H;
    try discriminate H;
    try (destruct k; discriminate H); try (destruct c; discriminate H); try (destruct j; discriminate H).
  all: try (injection H as <-; unfold stuck_shape; cbn; rewrite ?Hp, ?Ha, ?Hk, ?Hc; cbn;
            repeat split; auto; eexists; split; [reflexivity|]; cbn; auto; fail).
  destruct (kpeer_gone cn); [discriminate|]. injection H as <-. unfold stuck_shape. cbn. rewrite ?Hp, ?Ha, ?Hk, ?Hc. cbn.
  repeat split; auto. eexists; split; [reflexivity|]. cbn. auto.
Qed.

Lemma stuck_shape_run g : forall tr st st', stuck_shape st -> forallb (fun l => negb (outside_cancel l)) tr = true ->
  run g st tr = Some st' -> stuck_shape st'.
Proof.
  induction tr as [|l tr IH]; intros st st' S F H; cbn [run] in H.
  - inversion H; subst. exact S.
  - destruct (step g st l) as [st1|] eqn:E; [|discriminate]. cbn [forallb] in F. apply andb_true_iff in F.
    destruct F as [F1 F2]. apply negb_true_iff in F1. apply (IH st1 st' (stuck_shape_step _ _ _ _ S F1 E) F2 H).
Qed.

(* C10_no_stuck_caller_refuted: after the eleven steps of the witness the caller, which has no
   deadline, is parked in its select; and whatever the goroutines of the client and the peer do
   from then on, as long as nobody cancels the call from outside (LUserCancel, Client.Abort), it
   stays there: same program point, empty channel, context not done *)
Theorem no_stuck_caller_old_refuted :
  exists st, run g31_old (init [false]) late_store_witness = Some st /\
    nth_error (callers st) 0 = Some parked /\
    forall tr st', forallb (fun l => negb (outside_cancel l)) tr = true -> run g31_old st tr = Some st' ->
      nth_error (callers st') 0 = Some parked.
Proof.
  eexists. split; [vm_compute; reflexivity|]. split; [reflexivity|].
  intros tr st' F H.
  match type of H with (run _ ?s _ = _) => assert (S : stuck_shape s) end.
  { unfold stuck_shape. cbn. repeat split; auto. eexists. split; [reflexivity|]. cbn. auto. }
  destruct (stuck_shape_run _ _ _ _ S F H) as (_ & _ & Hk & _). rewrite Hk. reflexivity.
Qed.

(* ------------------------------------------------------------------ goroutines of closed connections *)
Definition returned : caller := {| pc := CDone RResp; box := None; cancelled := false; armed := false |}.

(* the state after the Abort witness: every call has returned, the connection is closed and
   cleaned, Receive is gone -- and Send sits in its select with a context nobody cancels *)
Definition zombie_shape (st : state) : Prop :=
  pool st = None /\ cancels st = [] /\ aborters st = [(0%nat, EDone)] /\ callers st = [returned] /\
  exists cn, conns st = [cn] /\ ksender cn = SIdle /\ kcancel cn = false /\ kreceiver cn = RExit EDone /\ ksock cn = true.

Lemma zombie_shape_step g st l st' : zombie_shape st -> step g st l = Some st' -> zombie_shape st'.
Proof.
  intros (Hp & Hx & Ha & Hk & cn & Hc & Hs & Hn & Hr & Hso) H.
  destruct l as [k|k|k|k|k|k|k|k|k|k|k|k|k r|k|c|c|c|c|c|c n|c|w|w|w|w|c i|c| |];
    try (destruct k as [|k]); try (destruct c as [|c]); try (destruct w as [[|c]|[|c]|[|j]]);
    cbn [step who_pc who_conn] in H; rewrite ?Hk, ?Hc, ?Hp, ?Ha, ?Hx in H; cbn in H; rewrite ?Hs, ?Hr, ?Hn in H;
    try discriminate H;
    try (destruct k; discriminate H); try (destruct c; discriminate H); try (destruct j; discriminate H).
  all: try (injection H as <-; unfold zombie_shape; cbn; rewrite ?Hp, ?Ha, ?Hk, ?Hc, ?Hx; cbn;
            repeat split; auto; eexists; split; [reflexivity|]; cbn; auto; fail).
  destruct (kpeer_gone cn); [discriminate|]. injection H as <-. unfold zombie_shape. cbn. rewrite ?Hp, ?Ha, ?Hk, ?Hc, ?Hx. cbn.
  repeat split; auto. eexists; split; [reflexivity|]. cbn. auto.
Qed.

Lemma zombie_shape_run g : forall tr st st', zombie_shape st -> run g st tr = Some st' -> zombie_shape st'.
Proof.
  induction tr as [|l tr IH]; intros st st' S H; cbn [run] in H.
  - inversion H; subst. exact S.
  - destruct (step g st l) as [st1|] eqn:E; [|discriminate]. apply (IH st1 st' (zombie_shape_step _ _ _ _ S E) H).
Qed.

(* C10_threads_exit_refuted: one call that succeeds, then Client.Abort: the connection is closed,
   its table is empty, Receive has gone, every call has returned -- and the Send goroutine of the
   closed connection is still parked in its select, and stays there whatever happens afterwards *)
Theorem threads_exit_old_refuted :
  exists st, run g31_old (init [false]) abort_leak_witness = Some st /\
    all_done st = true /\ pending_total st = 0%nat /\ sender_parked_forever st 0 = true /\
    forall tr st', run g31_old st tr = Some st' ->
      exists cn, nth_error (conns st') 0 = Some cn /\ ksender cn = SIdle /\ ksock cn = true.
Proof.
  eexists. split; [vm_compute; reflexivity|]. split; [reflexivity|]. split; [reflexivity|]. split; [reflexivity|].
  intros tr st' H.
  match type of H with (run _ ?s _ = _) => assert (S : zombie_shape s) end.
  { unfold zombie_shape. cbn. repeat split; auto. eexists. split; [reflexivity|]. cbn. auto. }
  destruct (zombie_shape_run _ _ _ _ S H) as (_ & _ & _ & _ & cn & Hc & Hs & _ & _ & Hso).
  exists cn. rewrite Hc. split; [reflexivity|]. split; [exact Hs|exact Hso].
Qed.

(* without Transport.Abort the context of Send and Receive is cancelled whenever the connection
   leaves the pool, so both goroutines can always leave *)
Record inv_noabort (st : state) : Prop := {
  n_ab : aborters st = [];
  n_pool : forall c cn, nth_error (conns st) c = Some cn -> kunpooled cn = false -> pool st = Some c;
  n_can : forall c cn, nth_error (conns st) c = Some cn -> kunpooled cn = true -> kcancel cn = true
}.

Definition not_abort (l : label) : bool := match l with LAbortSwap => false | _ => true end.

Lemma inv_noabort_step g st l st' : inv_noabort st -> not_abort l = true -> step g st l = Some st' -> inv_noabort st'.
Proof.
  intros [A P C] G H. split.
  - destruct l; try destruct w; try discriminate G; step_cases' H; unfold exit_update in *; proj_simpl; try assumption.
    all: try discriminate.
    all: try (rewrite A in *; match goal with En : nth_error [] ?j = Some _ |- _ => destruct j; discriminate En end).
  - destruct l; try destruct w; try discriminate G; step_cases' H; intros xc xcn Hc Hu; unfold exit_update in *; norm.
    all: try (apply (P _ _ Hc Hu); fail).
    all: try (match goal with E : nth_error (conns _) _ = Some ?cn |- _ => apply (P _ _ E Hu) end; fail).
    all: try discriminate.
    all: try reflexivity.
    all: try (rewrite A in *; match goal with En : nth_error [] ?j = Some _ |- _ => destruct j; discriminate En end).
    all: try (exfalso; pose proof (P _ _ Hc Hu); congruence).
    all: try congruence.
    all: try (eapply P; eassumption).
    all: try (rewrite E2; apply (P _ _ Hc Hu)).
  - destruct l; try destruct w; try discriminate G; step_cases' H; intros xc xcn Hc Hu; unfold exit_update in *; norm.
    all: try (apply (C _ _ Hc Hu); fail).
    all: try (match goal with E : nth_error (conns _) _ = Some ?cn |- _ => apply (C _ _ E Hu) end; fail).
    all: try discriminate.
    all: try reflexivity.
    all: try (rewrite A in *; match goal with En : nth_error [] ?j = Some _ |- _ => destruct j; discriminate En end).
    all: destruct (fix_cancel g); cbn [orb]; try (apply orb_true_r).
    all: rewrite orb_false_r; apply (C _ _ E1); destruct (kunpooled c0) eqn:U; [reflexivity|];
         exfalso; pose proof (P _ _ E1 U); congruence.
Qed.

Lemma inv_noabort_init ts : inv_noabort (init ts).
Proof. split; [reflexivity| |]; intros c cn H; destruct c; discriminate. Qed.

Lemma inv_noabort_run g : forall tr st st', inv_noabort st -> forallb not_abort tr = true ->
  run g st tr = Some st' -> inv_noabort st'.
Proof.
  induction tr as [|l tr IH]; intros st st' I F H; cbn [run] in H.
  - inversion H; subst. exact I.
  - destruct (step g st l) as [st1|] eqn:E; [|discriminate]. cbn [forallb] in F. apply andb_true_iff in F.
    destruct F as [F1 F2]. apply (IH st1 st' (inv_noabort_step _ _ _ _ I F1 E) F2 H).
Qed.

(* C10_threads_exit_partial: in runs without Transport.Abort, once the client has closed the socket
   of a connection the context of its Send and Receive goroutines is cancelled: a Send that sits in
   its select has its ctx.Done() branch enabled *)
Theorem threads_exit_partial : forall g ts tr st,
  run g (init ts) tr = Some st -> forallb not_abort tr = true ->
  forall c cn, nth_error (conns st) c = Some cn -> ksock cn = true ->
    kcancel cn = true /\ (ksender cn = SIdle -> exists st', step g st (LSendCtx c) = Some st').
Proof.
  intros g ts tr st H F c cn Hc Hs.
  pose proof (inv_noabort_run g tr _ _ (inv_noabort_init ts) F H) as [A P C].
  pose proof (inv_pool_run g tr _ _ (inv_pool_init ts) H) as I.
  assert (Hk : kcancel cn = true) by (apply (C _ _ Hc); apply (proj1 (p_sock _ I _ _ Hc) Hs)).
  split; [exact Hk|]. intros Hi. cbn [step]. rewrite Hc, Hi, Hk. eexists. reflexivity.
Qed.
