(* Proofs about Model/CallLife.v (C10), second part: prompt failure on close, stuck callers. *)
From Coq Require Import List ZArith Bool Lia PeanoNat.
From HV Require Import Model.Mux.
From HV Require Proofs.MuxProofs.
From HV Require Import Model.CallLife Proofs.CallLifeBase.
Import ListNotations.
Open Scope Z_scope.

(* ------------------------------------------------------------------ C10_prompt_on_close *)
Definition clean_ok (st : state) : Prop :=
  forall c cn, nth_error (conns st) c = Some cn -> kcleaned cn = true -> ktab cn = [].

Lemma clean_ok_step g st l st' :
  clean_ok st -> no_late_store_step st l = true -> step g st l = Some st' -> clean_ok st'.
Proof.
  intros I G H. unfold clean_ok in *. destruct l; try destruct w; step_cases' H; intros xc xcn Hc Hk; unfold exit_update in *; norm.
  all: try (apply (I _ _ Hc Hk); fail).
  all: try (match goal with E : nth_error (conns _) _ = Some ?cn |- _ => rewrite (I _ _ E Hk); reflexivity end; fail).
  all: try reflexivity.
  all: try assumption.
  cbn [no_late_store_step] in G. rewrite E, E0, E1, Hk in G. discriminate.
Qed.

Lemma clean_ok_init ts : clean_ok (init ts).
Proof. intros c cn H. destruct c; discriminate. Qed.

Lemma clean_ok_run g : forall tr st st', clean_ok st ->
  guarded (fun s l => no_late_store_step s l) g st tr = true -> run g st tr = Some st' -> clean_ok st'.
Proof.
  induction tr as [|l tr IH]; intros st st' I G H; cbn [run] in H.
  - inversion H; subst. exact I.
  - destruct (step g st l) as [st1|] eqn:E; [|discriminate].
    cbn [guarded] in G. rewrite E in G. apply andb_true_iff in G. destruct G as [G1 G2].
    apply (IH st1 st' (clean_ok_step _ _ _ _ I G1 E) G2 H).
Qed.

(* C10_prompt_on_close_partial: if no caller registers on a connection after a rangeAndClean on
   it has returned, then once Close has run to completion nobody is registered on it *)
Theorem prompt_on_close_partial : forall g ts tr st,
  run g (init ts) tr = Some st -> guarded (fun s l => no_late_store_step s l) g (init ts) tr = true ->
  forall c cn, nth_error (conns st) c = Some cn -> kcleaned cn = true -> ktab cn = [].
Proof. intros g ts tr st H G. apply (clean_ok_run g tr _ _ (clean_ok_init ts) G H). Qed.

(* the guard is exact: a registration after a completed clean violates the statement at once *)
Theorem late_store_breaks : forall g st k cl c i cn st',
  nth_error (callers st) k = Some cl -> pc cl = CAlloc c i -> nth_error (conns st) c = Some cn ->
  kcleaned cn = true -> step g st (LStore k) = Some st' ->
  exists cn', nth_error (conns st') c = Some cn' /\ kcleaned cn' = true /\ ktab cn' <> [].
Proof.
  intros g st k cl c i cn st' Hk Hpc Hc Hcl H. cbn [step] in H. rewrite Hk, Hpc, Hc in H.
  inversion H; subst st'. proj_simpl. rewrite nth_upd, Nat.eqb_refl, Hc.
  eexists. split; [reflexivity|]. proj_simpl. split; [exact Hcl|]. unfold a_set. discriminate.
Qed.

Definition g31 : cfg := {| mask := mask31 |}.
Definition g15 : cfg := {| mask := mask15 |}.

(* C10_prompt_on_close_refuted *)
Theorem prompt_on_close_refuted :
  exists st, run g31 (init [false]) late_store_witness = Some st /\
    (exists cn, nth_error (conns st) 0 = Some cn /\ kcleaned cn = true /\ ksock cn = true /\ ktab cn = [(1, 0%nat)]) /\
    stuck_b st 0 = true.
Proof.
  eexists. split; [vm_compute; reflexivity|]. split.
  - eexists. split; [reflexivity|]. cbn. auto.
  - vm_compute. reflexivity.
Qed.

(* ------------------------------------------------------------------ somebody keeps watching *)
Record inv_watch (st : state) : Prop := {
  w_ctx : forall c cn, nth_error (conns st) c = Some cn ->
          (ksender cn = SExit (EOnExit false) \/ kreceiver cn = RExit (EOnExit false)) -> kcancel cn = true;
  w_watch : forall c cn, nth_error (conns st) c = Some cn -> kcleaned cn = false ->
            closer_pending st c cn = true \/ listening cn = true
}.

Lemma watch_ctx_preserved g st l st' : inv_watch st -> step g st l = Some st' ->
  forall xc xcn, nth_error (conns st') xc = Some xcn ->
          (ksender xcn = SExit (EOnExit false) \/ kreceiver xcn = RExit (EOnExit false)) -> kcancel xcn = true.
Proof.
  intros I H. destruct l; try destruct w; step_cases' H; intros xc xcn Hc Ht; unfold exit_update in *; norm.
  all: try (apply (w_ctx _ I _ _ Hc Ht); fail).
  all: try (match goal with E : nth_error (conns _) _ = Some ?cn |- _ => apply (w_ctx _ I _ _ E); tauto end; fail).
  all: try assumption.
  all: try (destruct Ht as [Ht|Ht]; try discriminate Ht; try (inversion Ht; fail);
            match goal with E : nth_error (conns _) _ = Some ?cn |- _ =>
              first [ apply (w_ctx _ I _ _ E); first [left; congruence | right; congruence] ] end; fail).
  all: try (apply orb_true_r).
  all: rewrite orb_false_r.
  all: try (destruct Ht as [Ht|Ht]; try discriminate Ht; try (inversion Ht; fail);
            match goal with E : nth_error (conns _) _ = Some ?cn |- _ =>
              first [ apply (w_ctx _ I _ _ E); first [left; congruence | right; congruence] ] end; fail).
  Show.
Abort.
