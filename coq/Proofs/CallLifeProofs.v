(* Proofs about Model/CallLife.v (C10), second part: prompt failure on close, stuck callers. *)
From Coq Require Import List ZArith Bool Lia PeanoNat.
From HV Require Import Model.Mux.
From HV Require Proofs.MuxProofs.
From HV Require Import Model.CallLife Proofs.CallLifeBase.
Import ListNotations.
Open Scope Z_scope.

(* ------------------------------------------------------------------ C10_prompt_on_close *)
Definition clean_ok (st : state) : Prop :=
  forall c cn, nth_error (conns st) c = Some cn -> kcleaned cn = true -> ktab cn = [].

Lemma clean_ok_step g st l st' :
  clean_ok st -> no_late_store_step st l = true -> step g st l = Some st' -> clean_ok st'.
Proof.
  intros I G H. unfold clean_ok in *. destruct l; try destruct w; step_cases' H; intros xc xcn Hc Hk; unfold exit_update in *; norm.
  all: try (apply (I _ _ Hc Hk); fail).
  all: try (match goal with E : nth_error (conns _) _ = Some ?cn |- _ => rewrite (I _ _ E Hk); reflexivity end; fail).
  all: try reflexivity.
  all: try assumption.
  cbn [no_late_store_step] in G. rewrite E, E0, E1, Hk in G. discriminate.
Qed.

Lemma clean_ok_init ts : clean_ok (init ts).
Proof. intros c cn H. destruct c; discriminate. Qed.

Lemma clean_ok_run g : forall tr st st', clean_ok st ->
  guarded (fun s l => no_late_store_step s l) g st tr = true -> run g st tr = Some st' -> clean_ok st'.
Proof.
  induction tr as [|l tr IH]; intros st st' I G H; cbn [run] in H.
  - inversion H; subst. exact I.
  - destruct (step g st l) as [st1|] eqn:E; [|discriminate].
    cbn [guarded] in G. rewrite E in G. apply andb_true_iff in G. destruct G as [G1 G2].
    apply (IH st1 st' (clean_ok_step _ _ _ _ I G1 E) G2 H).
Qed.

(* C10_prompt_on_close_partial: if no caller registers on a connection after a rangeAndClean on
   it has returned, then once Close has run to completion nobody is registered on it *)
Theorem prompt_on_close_partial : forall g ts tr st,
  run g (init ts) tr = Some st -> guarded (fun s l => no_late_store_step s l) g (init ts) tr = true ->
  forall c cn, nth_error (conns st) c = Some cn -> kcleaned cn = true -> ktab cn = [].
Proof. intros g ts tr st H G. apply (clean_ok_run g tr _ _ (clean_ok_init ts) G H). Qed.

(* the guard is exact: a registration after a completed clean violates the statement at once *)
Theorem late_store_breaks : forall g st k cl c i cn st',
  nth_error (callers st) k = Some cl -> pc cl = CAlloc c i -> nth_error (conns st) c = Some cn ->
  kcleaned cn = true -> step g st (LStore k) = Some st' ->
  exists cn', nth_error (conns st') c = Some cn' /\ kcleaned cn' = true /\ ktab cn' <> [].
Proof.
  intros g st k cl c i cn st' Hk Hpc Hc Hcl H. cbn [step] in H. rewrite Hk, Hpc, Hc in H.
  inversion H; subst st'. proj_simpl. rewrite nth_upd, Nat.eqb_refl, Hc.
  eexists. split; [reflexivity|]. proj_simpl. split; [exact Hcl|]. unfold a_set. discriminate.
Qed.

Definition g31 : cfg := {| mask := mask31 |}.
Definition g15 : cfg := {| mask := mask15 |}.

(* C10_prompt_on_close_refuted *)
Theorem prompt_on_close_refuted :
  exists st, run g31 (init [false]) late_store_witness = Some st /\
    (exists cn, nth_error (conns st) 0 = Some cn /\ kcleaned cn = true /\ ksock cn = true /\ ktab cn = [(1, 0%nat)]) /\
    stuck_b st 0 = true.
Proof.
  eexists. split; [vm_compute; reflexivity|]. split.
  - eexists. split; [reflexivity|]. cbn. auto.
  - vm_compute. reflexivity.
Qed.

(* ------------------------------------------------------------------ somebody keeps watching *)
Record inv_watch (st : state) : Prop := {
  w_ctx : forall c cn, nth_error (conns st) c = Some cn ->
          (ksender cn = SExit (EOnExit false) \/ kreceiver cn = RExit (EOnExit false)) -> kcancel cn = true;
  w_watch : forall c cn, nth_error (conns st) c = Some cn -> kcleaned cn = false ->
            closer_pending st c cn = true \/ listening cn = true
}.

Lemma watch_ctx_preserved g st l st' : inv_watch st -> step g st l = Some st' ->
  forall xc xcn, nth_error (conns st') xc = Some xcn ->
          (ksender xcn = SExit (EOnExit false) \/ kreceiver xcn = RExit (EOnExit false)) -> kcancel xcn = true.
Proof.
  intros I H. destruct l; try destruct w; step_cases' H; intros xc xcn Hc Ht; unfold exit_update in *; norm.
  all: try (apply (w_ctx _ I _ _ Hc Ht); fail).
  all: try (match goal with E : nth_error (conns _) _ = Some ?cn |- _ => apply (w_ctx _ I _ _ E); tauto end; fail).
  all: try assumption.
  all: try (destruct Ht as [Ht|Ht]; try discriminate Ht; try (inversion Ht; fail);
            match goal with E : nth_error (conns _) _ = Some ?cn |- _ =>
              first [ apply (w_ctx _ I _ _ E); first [left; congruence | right; congruence] ] end; fail).
  all: try (apply orb_true_r).
  all: rewrite orb_false_r.
  all: try (destruct Ht as [Ht|Ht]; try discriminate Ht; try (inversion Ht; fail);
            match goal with E : nth_error (conns _) _ = Some ?cn |- _ =>
              first [ apply (w_ctx _ I _ _ E); first [left; congruence | right; congruence] ] end; fail).
Qed.

Lemma existsb_upd_nth {A} (f : A -> bool) : forall l j x y,
  nth_error l j = Some y -> existsb f (upd_nth j x l) = true -> f x = true \/ existsb f l = true.
Proof.
  induction l as [|a l IH]; intros [|j] x y Hn H; cbn in *; try discriminate.
  - apply orb_true_iff in H. destruct H as [H|H]; [left; exact H|right; rewrite H; apply orb_true_r].
  - apply orb_true_iff in H. destruct H as [H|H]; [right; rewrite H; reflexivity|].
    destruct (IH _ _ _ Hn H) as [X|X]; [left; exact X|right; rewrite X; apply orb_true_r].
Qed.

Lemma existsb_upd_nth_keep {A} (f : A -> bool) : forall l j x y,
  nth_error l j = Some y -> (f y = true -> f x = true) -> existsb f l = true -> existsb f (upd_nth j x l) = true.
Proof.
  induction l as [|a l IH]; intros [|j] x y Hn Hk H; cbn in *; try discriminate.
  - inversion Hn; subst. apply orb_true_iff in H. destruct H as [H|H]; [rewrite (Hk H); reflexivity|rewrite H; apply orb_true_r].
  - apply orb_true_iff in H. destruct H as [H|H]; [rewrite H; reflexivity|]. rewrite (IH _ _ _ Hn Hk H). apply orb_true_r.
Qed.

Lemma existsb_upd_nth_new {A} (f : A -> bool) : forall l j x y,
  nth_error l j = Some y -> f x = true -> existsb f (upd_nth j x l) = true.
Proof.
  induction l as [|a l IH]; intros [|j] x y Hn Hx; cbn in *; try discriminate.
  - rewrite Hx. reflexivity.
  - rewrite (IH _ _ _ Hn Hx). apply orb_true_r.
Qed.

Lemma existsb_upd_nth_other {A} (f : A -> bool) : forall l j x y,
  nth_error l j = Some y -> f y = false -> existsb f l = true -> existsb f (upd_nth j x l) = true.
Proof.
  intros l j x y Hn Hy. apply (existsb_upd_nth_keep f l j x y Hn). rewrite Hy. discriminate.
Qed.

Local Opaque index_of.

Ltac watch_unfold := unfold closer_pending, listening in *; proj_simpl.

Lemma watch_watch_preserved g st l st' : inv_watch st -> step g st l = Some st' ->
  forall xc xcn, nth_error (conns st') xc = Some xcn -> kcleaned xcn = false ->
            closer_pending st' xc xcn = true \/ listening xcn = true.
Proof.
  intros I H. destruct l; try destruct w; step_cases' H; intros xc xcn Hc Hk; unfold exit_update in *; norm.
  all: try (apply (w_watch _ I _ _ Hc Hk); fail).
  all: try discriminate.
  all: try (match goal with E : nth_error (conns _) _ = Some ?cn |- _ =>
              destruct (w_watch _ I _ _ E ltac:(assumption)) as [W|W]; watch_unfold;
              repeat match goal with Ex : ksender _ = _ |- _ => rewrite Ex in * end;
              repeat match goal with Ex : kreceiver _ = _ |- _ => rewrite Ex in * end;
              repeat match goal with Ex : kcancel _ = _ |- _ => rewrite Ex in * end;
              cbn [is_closer negb andb orb] in *; try discriminate; auto; fail end).
  all: try (right; reflexivity).
  all: try (match goal with E : nth_error (conns _) _ = Some ?cn |- _ =>
              pose proof (w_ctx _ I _ _ E) as Wc;
              pose proof (w_watch _ I _ _ E) as W; watch_unfold;
              repeat match goal with Ex : ksender _ = _ |- _ => rewrite Ex in * end;
              repeat match goal with Ex : kreceiver _ = _ |- _ => rewrite Ex in * end;
              repeat match goal with Ex : kcancel _ = _ |- _ => rewrite Ex in * end;
              repeat match goal with Ex : kcleaned _ = _ |- _ => rewrite Ex in * end;
              cbn [is_closer negb andb orb] in *;
              match goal with |- context [existsb ?f (aborters ?s)] => destruct (existsb f (aborters s)) | _ => idtac end;
              destruct (kcancel cn); destruct (ksender cn) as [| |[[]| | |]]; destruct (kreceiver cn) as [| |[[]| | |]];
              cbn in *; try discriminate; intuition (try discriminate; try congruence) end; fail).
  - left. watch_unfold. erewrite existsb_upd_nth_new; [rewrite orb_true_r; reflexivity|eassumption|].
    cbn. rewrite Nat.eqb_refl. reflexivity.
  - destruct (w_watch _ I _ _ Hc Hk) as [W|W]; [left|right; exact W]. watch_unfold.
    apply orb_true_iff in W. apply orb_true_iff. destruct W as [W|W]; [left; exact W|right].
    eapply existsb_upd_nth_other; [eassumption| |exact W]. cbn.
    destruct (Nat.eqb n xc) eqn:X; [apply Nat.eqb_eq in X; congruence|reflexivity].
  - destruct (w_watch _ I _ _ Hc Hk) as [W|W]; [left|right; exact W]. watch_unfold.
    apply orb_true_iff in W. apply orb_true_iff. destruct W as [W|W]; [left; exact W|right].
    eapply existsb_upd_nth_other; [eassumption| |exact W]. cbn.
    destruct (Nat.eqb n xc) eqn:X; [apply Nat.eqb_eq in X; congruence|reflexivity].
  - left. watch_unfold. rewrite existsb_app. cbn. rewrite Nat.eqb_refl. cbn. rewrite !orb_true_r. reflexivity.
  - destruct (w_watch _ I _ _ Hc Hk) as [W|W]; [left|right; exact W]. watch_unfold.
    apply orb_true_iff in W. apply orb_true_iff. destruct W as [W|W]; [left; exact W|right].
    rewrite existsb_app, W. reflexivity.
Qed.

Lemma inv_watch_step g st l st' : inv_watch st -> step g st l = Some st' -> inv_watch st'.
Proof.
  intros I H. split.
  - apply (watch_ctx_preserved g st l st' I H).
  - apply (watch_watch_preserved g st l st' I H).
Qed.

Lemma inv_watch_init ts : inv_watch (init ts).
Proof. split; intros c cn H; destruct c; discriminate. Qed.

(* ------------------------------------------------------------------ active callers *)
Definition refs_ok (st : state) : Prop :=
  forall k cl c i, nth_error (callers st) k = Some cl -> active_on c i (pc cl) = true -> (c < length (conns st))%nat.

Lemma active_on_inv c i p : active_on c i p = true ->
  p = CAlloc c i \/ p = CStored c i \/ p = CEnq c i.
Proof.
  destruct p; cbn; try discriminate; intros H; apply andb_true_iff in H; destruct H as [H1 H2];
    apply Nat.eqb_eq in H1; apply Z.eqb_eq in H2; subst; auto.
Qed.

